/-
C19 — the output file holds one intact record per response under any parallelism.

Models.  `Model/Sink.lean`: CsvMapping, the two output formats, WriteMode, `ResponseSink::File` as a state
machine whose `write` is ONE step (the ATOMIC model), Combined sinks, the batch runners as schedules of worker
steps, `CompassApp::run`'s response assembly.  `Model/SinkFine.lean`: the SMALL-STEP model of `write_response`
— acquire the guards, format, one or several `write` calls, count, release — in which the lock is state and the
steps of different workers interleave.  `Model/SinkRead.lean`: readers (JSON, RFC 4180).

How the parts fit.  Sections 5, 5b, 6, 7 are theorems about the atomic model: there a record cannot be split or
interleaved BY CONSTRUCTION (a step appends a whole chunk); what they prove is "none lost, none duplicated, the
counter, what is handed back, for every schedule".  Section 5c proves that the small-step model WITH the guard
refines the atomic model for every interleaving of the small steps (and that without the guard it does not):
this is where "not truncated, not interleaved" is a theorem about the mutex.  Section 5a: Combined sinks, whose
members have separate locks.

Trusted, not proved: `std::sync::Mutex` gives mutual exclusion (the small-step model's `lock` field behaves like
it); a `write` call on a handle opened in append mode lands whole at the end of the file (`O_APPEND`; used for
several sinks on one file and for other processes, section 5c); that the Rust code has the shape of the models
is checked differentially by the harness, with real threads only sampling the interleavings.

Modelled rather than verified (the theorems do not speak about these):
* one lock stands for the two guards (file, counter), which the code always takes in this order;
* the formatter's mapping-error messages are not modelled (empty strings) and the failed columns are listed in
  column order, while the code collects them in a `HashMap` (random order of two or more failed columns);
* numbers are lexemes plus abstract doubles (`NumOps`): the JSON round trip is about the text (`eraseBits`);
* `flushEvery = 0` is accepted by the theorems (`% 0` would panic in Rust; `build` never produces it);
* I/O failures are coarse: a record is written whole or not at all (a real `write_all` can stop half way), and
  after a failed write the batch model lets a worker go on (true of `run_batch_without_responses`; the
  persisting runner stops that worker — only "the run is an error" is modelled for it);
* creating the file is `create_new` then the header on the same handle: in the atomic model one step; the
  small-step model of section 5c shows the instant in between (a record before the header);
* every worker finishes (`Complete`, `finished`, `done` are hypotheses: no theorem about termination);
* an Append run on an existing file that lacks a final newline glues its first record to the last line, and on
  an existing EMPTY file writes no header (the theorems say `first ++ records`; "single header" means "written
  only when the file is created");
* a one-column CSV whose cell is empty is written as a blank line, which some CSV readers skip;
* `open_file_spec`, `header_text_spec`, `open_path_spec`, `open_path_on_files`, `close_spec` restate
  definitions of the model: the behaviour of paths, devices and modes is established by the differential run.
-/
import Compass.Proofs.Sink
import Compass.Proofs.SinkRead
import Compass.Proofs.SinkFine
import Compass.Proofs.SinkCombined

namespace Compass
namespace C19
open Sink

/-! ## 1. Header and rows agree on the column order -/

/-- the columns a row is built from are, in order, the names the header lists — for the insertion-order
(`rev()`) orientation and for the sorted one -/
theorem csv_row_columns_follow_header (mapping : List (String × CsvMapping)) (sorted : Bool) :
    (rowColumns mapping sorted).map (·.1) = headerKeys mapping sorted := by
  unfold rowColumns headerKeys
  cases sorted with
  | false => simp
  | true =>
    simp only [if_true]
    exact map_sortBy (·.1) _ strLt (fun _ _ => rfl) mapping

/-- the header names every configured column exactly once (it is a permutation of the mapping's keys) -/
theorem csv_header_is_permutation_of_mapping (mapping : List (String × CsvMapping)) (sorted : Bool) :
    (headerKeys mapping sorted).Perm (mapping.map (·.1)) := by
  unfold headerKeys
  cases sorted with
  | false => simp
  | true => simpa using sortBy_perm strLt _

/-- a row is the comma-join of exactly one cell per header column, cell `i` being column `i`'s mapping
applied to the response (empty when the mapping fails) -/
theorem csv_row_is_join_of_header_cells (N : NumOps) (mapping : List (String × CsvMapping)) (sorted : Bool)
    (r : Json) (row : List Char) (r' : Json) (h : formatResponse N (.csv mapping sorted) r = .ok (row, r')) :
    row = joinWith [','] ((rowColumns mapping sorted).map fun c => cellText N c.2 r) ∧
    ((rowColumns mapping sorted).map fun c => cellText N c.2 r).length = (headerKeys mapping sorted).length := by
  refine ⟨(formatResponse_csv_cases N mapping sorted r row r' h).1, ?_⟩
  rw [← csv_row_columns_follow_header]
  simp

/-- numbers are abstract in the theorems; any `NumOps` will do for the witnesses -/
def anyNum : NumOps := { sum := fun _ => 0, finite := fun _ => true, fmt := fun _ => "0.0" }

/-- FULL (after the repairs `fix: CSV response output escapes its fields` and `… writes a string cell as its
text`): every written CSV row reads back, under RFC 4180 rules (`SinkRead.readRow`: quoted fields, `""` for
a quote, commas and line breaks allowed inside quotes), into exactly as many fields as the header has, and
field `i` is the value of column `i`: a string's text, any other value's JSON text, empty when the mapping
failed — for every response, every mapping with at least one column (paths, sums, optional; with NO column the
header is an empty line and every row a blank line, which reads back as one empty field), both orientations. -/
theorem csv_row_reads_back (N : NumOps) (mapping : List (String × CsvMapping)) (sorted : Bool) (r : Json)
    (hne : mapping ≠ []) :
    SinkRead.readRow (csvRow N (rowColumns mapping sorted) r)
      = some ((rowColumns mapping sorted).map fun c => cellValue N c.2 r) ∧
    ((rowColumns mapping sorted).map fun c => cellValue N c.2 r).length = (headerKeys mapping sorted).length := by
  have hcols : rowColumns mapping sorted ≠ [] := by
    intro h
    have hlen := congrArg List.length (csv_row_columns_follow_header mapping sorted)
    have hperm := (csv_header_is_permutation_of_mapping mapping sorted).length_eq
    rw [h] at hlen
    simp only [List.map_nil, List.length_nil, List.length_map] at hlen hperm
    exact hne (List.length_eq_zero_iff.1 (by omega))
  constructor
  · have e : csvRow N (rowColumns mapping sorted) r
        = joinWith [','] (((rowColumns mapping sorted).map fun c => cellValue N c.2 r).map csvField) := by
      unfold csvRow
      congr 1
      simp only [List.map_map]
      apply List.map_congr_left
      intro c _
      simp only [Function.comp, cellText, cellValue]
      cases c.2.apply N r with
      | none => simp [csvField, needsQuotes]
      | some v => rfl
    rw [e]
    exact SinkRead.readRow_join _ (by simpa using hcols)
  · rw [← csv_row_columns_follow_header]; simp

/-- the header line reads back into the column names, in the order the rows use -/
theorem csv_header_reads_back (mapping : List (String × CsvMapping)) (sorted : Bool) (hne : mapping ≠ []) :
    ∃ line, headerText (.csv mapping sorted) = line ++ ['\n'] ∧
      SinkRead.readRow line = some ((rowColumns mapping sorted).map fun c => c.1.toList) := by
  refine ⟨joinWith [','] (((headerKeys mapping sorted).map String.toList).map csvField), ?_, ?_⟩
  · simp only [headerText, initialContents, Option.getD_some, List.map_map]
    rfl
  · rw [SinkRead.readRow_join]
    · rw [← csv_row_columns_follow_header]; simp [List.map_map, Function.comp]
    · intro h
      have hperm := (csv_header_is_permutation_of_mapping mapping sorted).length_eq
      simp only [List.map_eq_nil_iff] at h
      rw [h] at hperm
      simp only [List.length_nil, List.length_map] at hperm
      exact hne (List.length_eq_zero_iff.1 hperm.symm)

/-- witnesses of the repaired defects, now positive (keys `sink/csv-nonscalar-cell-unquoted`,
`sink/csv-string-cell-json-escaped` fire if they return): an array cell and a string holding a quote and a
comma each read back as ONE field with the cell's value -/
example :
    let f := Format.csv [("path", .path "route.path"), ("origin", .path "request.origin_vertex")] false
    let r := Json.obj [("request", .obj [("origin_vertex", .num "0" 0)]),
                       ("route", .obj [("path", .arr [.num "0" 0, .num "2" 0])])]
    rowOf anyNum f r = txt "0,\"[0,2]\"" ∧ SinkRead.readRow (rowOf anyNum f r) = some [txt "0", txt "[0,2]"] := by
  decide

example :
    let f := Format.csv [("name", .path "request.name")] false
    let r := Json.obj [("request", .obj [("name", .str "5\" nails, 2 boxes")])]
    rowOf anyNum f r = txt "\"5\"\" nails, 2 boxes\"" ∧
    SinkRead.readRow (rowOf anyNum f r) = some [txt "5\" nails, 2 boxes"] := by
  decide

/-- DEFECT, known finding (keys `app/toml-mapping-keys-lowercased`, `app/toml-mapping-columns-merged`): "rows whose
columns follow the CONFIGURED mapping" fails for a mapping written in the application's TOML file: the `config`
crate lower-cases the column names, and names that then coincide are merged — `Time`, `time`, `Zeta` arrive as
the two columns `time` (with the mapping of the second) and `zeta`; no error is raised.  (A mapping given in the
per-run JSON configuration arrives as configured.) -/
theorem toml_mapping_columns_merged_counterexample :
    let configured := [("Time", CsvMapping.path "route.traversal_summary.time"), ("time", .path "request.time"),
                       ("Zeta", .path "request.origin_vertex")]
    (tomlMapping configured).map (·.1) = ["time", "zeta"] ∧
    headerKeys (tomlMapping configured) false = ["zeta", "time"] ∧
    (headerKeys (tomlMapping configured) false).length < configured.length ∧
    (match tomlMapping configured with | (_, .path p) :: _ => p == "request.time" | _ => false) = true := by
  decide

/-- what holds: names that are lower-case already and pairwise different arrive as configured, in order.
ASCII names only: `Sink.lowerName` lowers `A`–`Z`, while the `config` crate applies Unicode
`str::to_lowercase` (a configured `Ärger` meets `hlow` here and arrives as `ärger` in the code); the
harness draws ASCII names -/
theorem toml_mapping_keeps_distinct_lowercase_names_partial (configured : List (String × CsvMapping))
    (hlow : ∀ c ∈ configured, lowerName c.1 = c.1) (hnd : (configured.map (·.1)).Nodup) :
    tomlMapping configured = configured := by
  unfold tomlMapping
  have key : ∀ (rest acc : List (String × CsvMapping)),
      (∀ c ∈ rest, lowerName c.1 = c.1) → ((acc ++ rest).map (·.1)).Nodup →
      rest.foldl (fun acc c => insertColumn acc (lowerName c.1) c.2) acc = acc ++ rest := by
    intro rest
    induction rest with
    | nil => intro acc _ _; simp
    | cons c cs ih =>
      intro acc hl hn
      have hc : lowerName c.1 = c.1 := hl c (List.mem_cons_self ..)
      have hnot : acc.any (fun p => p.1 == c.1) = false := by
        rw [List.any_eq_false]
        intro p hp
        simp only [beq_iff_eq]
        intro e
        rw [List.map_append, List.map_cons] at hn
        have := (List.nodup_append.1 hn).2.2 p.1 (List.mem_map.2 ⟨p, hp, rfl⟩) c.1 (List.mem_cons_self ..)
        exact this e
      have hstep : insertColumn acc (lowerName c.1) c.2 = acc ++ [(c.1, c.2)] := by
        simp only [insertColumn, hc, hnot, Bool.false_eq_true, if_false]
      rw [List.foldl_cons, hstep,
        ih (acc ++ [(c.1, c.2)]) (fun x hx => hl x (List.mem_cons_of_mem _ hx)) (by simpa using hn)]
      simp
  simpa using key configured [] hlow (by simpa using hnd)

/-! ## 2. A record is intact text: one line (JSON), one RFC 4180 record (CSV) -/

/-- a newline-delimited JSON record holds no line break (they are escaped inside strings) -/
theorem json_record_is_one_line (N : NumOps) (r : Json) (h : numsOk r = true) :
    '\n' ∉ rowOf N (.json true) r := by
  simpa [rowOf, formatResponse] using compact_no_newline r h

/-- so the chunk one write appends ends in the only newline it contains -/
theorem record_has_exactly_one_newline (row : List Char) (h : '\n' ∉ row) :
    (record row).count '\n' = 1 ∧ (record row).getLast? = some '\n' := by
  unfold record
  constructor
  · rw [List.count_append, List.count_eq_zero.2 h]; rfl
  · simp

/-- a CSV row may hold line breaks — inside quoted fields only (a string cell is written as its text): the
record splitter of a reader (`SinkRead.splitRecords`: a newline ends a record unless inside quotes) cuts any
sequence of written rows back into exactly those rows, nothing left over -/
theorem csv_rows_split_back (N : NumOps) (mapping : List (String × CsvMapping)) (sorted : Bool)
    (rs : List Json) :
    SinkRead.splitRecords ((rs.map fun r => record (csvRow N (rowColumns mapping sorted) r)).flatten)
      = (rs.map fun r => csvRow N (rowColumns mapping sorted) r, []) := by
  have := SinkRead.splitRecords_records (rs.map fun r => csvRow N (rowColumns mapping sorted) r) (by
    intro row hrow
    obtain ⟨r, _, rfl⟩ := List.mem_map.1 hrow
    have e : csvRow N (rowColumns mapping sorted) r
        = joinWith [','] (((rowColumns mapping sorted).map fun c => cellValue N c.2 r).map csvField) := by
      unfold csvRow
      congr 1
      simp only [List.map_map]
      apply List.map_congr_left
      intro c _
      simp only [Function.comp, cellText, cellValue]
      cases c.2.apply N r with
      | none => simp [csvField, needsQuotes]
      | some v => rfl
    rw [e]
    exact SinkRead.balanced_join _)
  rw [List.map_map] at this
  exact this

example : ∃ r, numsOk r = true ∧ rowOf anyNum (.json true) r ≠ [] ∧ (compact r).contains '\\' :=
  ⟨.obj [("note", .str "line\nbreak")], rfl, by decide, by decide⟩

example :
    let f := Format.csv [("note", .path "note"), ("n", .path "n")] true
    let a := Json.obj [("note", .str "line\nbreak"), ("n", .num "1" 0)]
    let b := Json.obj [("note", .str "plain"), ("n", .num "2" 0)]
    (rowOf anyNum f a).contains '\n' = true ∧
    SinkRead.splitRecords (recordOf anyNum f a ++ recordOf anyNum f b) = ([rowOf anyNum f a, rowOf anyNum f b], []) := by
  decide

/-! ## 3. Writing never loses information of the response handed back -/

/-- JSON output leaves the response alone -/
theorem json_write_keeps_response (N : NumOps) (nd : Bool) (r : Json) :
    postOf N (.json nd) r = r := by
  simp [postOf, formatResponse]

/-- FULL (after `fix: CSV response formatting never replaces an earlier csv_error`): every key/value of the
response before the write is there, unchanged, after it — for all responses, formats and mappings.  The
mapping errors go under the first of `error`, `csv_error`, `csv_error_2`, … that is not in the response. -/
theorem write_never_loses_information (N : NumOps) (f : Format) (r : Json) (row : List Char) (r' : Json)
    (h : formatResponse N f r = .ok (row, r')) :
    ∀ k v, r.get? k = some v → r'.get? k = some v := by
  intro k v hk
  cases f with
  | json nd =>
    simp only [formatResponse, Outcome.ok.injEq, Prod.mk.injEq] at h
    rw [← h.2]; exact hk
  | csv m s =>
    rcases (formatResponse_csv_cases N m s r row r' h).2 with rfl | ⟨key, hkey, _, hassign⟩
    · exact hk
    · exact get?_indexAssign_new r r' _ _ (csvErrorKey_new r key hkey) hassign k v hk

/-- in particular a search error survives any CSV mapping (the witness of the first fixed defect, generalised) -/
theorem search_error_survives_csv_write (N : NumOps) (mapping : List (String × CsvMapping)) (sorted : Bool)
    (r : Json) (e : Json) (row : List Char) (r' : Json) (he : r.get? "error" = some e)
    (h : formatResponse N (.csv mapping sorted) r = .ok (row, r')) : r'.get? "error" = some e :=
  write_never_loses_information N _ r row r' h "error" e he

/-- the write changes nothing else: the response is returned as it was, or with exactly one entry added under
a key that was not there -/
theorem csv_write_adds_one_new_key (N : NumOps) (mapping : List (String × CsvMapping)) (sorted : Bool)
    (r : Json) (row : List Char) (r' : Json) (h : formatResponse N (.csv mapping sorted) r = .ok (row, r')) :
    r' = r ∨ ∃ key errs, errs ≠ [] ∧ r.get? key = none ∧
      Json.indexAssign r key (csvErrorValue errs) = some r' := by
  rcases (formatResponse_csv_cases N mapping sorted r row r' h).2 with e | ⟨key, hkey, hne, hassign⟩
  · exact Or.inl e
  · exact Or.inr ⟨key, _, hne, csvErrorKey_new r key hkey, hassign⟩

/-- the search for a free key always ends (an object with `n` entries cannot hold `n + 2` different names) -/
theorem error_key_search_terminates (r : Json) : ∃ k, csvErrorKey r = some k ∧ r.get? k = none := by
  obtain ⟨k, hk⟩ := freshErrorKey_terminates r
  exact ⟨k, hk, csvErrorKey_new r k hk⟩

/-- witness of the repaired defect (key `sink/csv-error-replaced` fires if it returns): a response that
already holds `error` and `csv_error` keeps both; the mapping errors go under `csv_error_2` -/
example :
    let f := Format.csv [("distance", .path "route.traversal_summary.distance")] false
    let r := Json.obj [("request", .obj []), ("error", .str "no path"), ("csv_error", .str "from an earlier sink")]
    ((postOf anyNum f r).get? "csv_error").bind Json.asStr? = some "from an earlier sink" ∧
    ((postOf anyNum f r).get? "error").bind Json.asStr? = some "no path" ∧
    ((postOf anyNum f r).get? "csv_error_2").isSome = true := by
  decide

/-- the same through a Combined policy of three CSV files and one failed query: every member's mapping errors
are in the response handed back -/
example :
    let mk := fun (f : Format) =>
      ({ format := f, flushEvery := 1, file := [[]], iterations := 0, flushes := 0, poisoned := false } : FileSink)
    let s1 := mk (.csv [("distance", .path "route.traversal_summary.distance")] false)
    let s2 := mk (.csv [("energy", .path "route.traversal_summary.energy")] false)
    let s3 := mk (.csv [("time", .path "route.traversal_summary.time")] false)
    let r := Json.obj [("request", .obj []), ("error", .str "no path")]
    (match writeCombined anyNum [s1, s2, s3] r with
      | .ok _ r' =>
        (((r'.get? "csv_error").bind (·.get? "csv")).bind (·.get? "distance")).isSome &&
        (((r'.get? "csv_error_2").bind (·.get? "csv")).bind (·.get? "energy")).isSome &&
        (((r'.get? "csv_error_3").bind (·.get? "csv")).bind (·.get? "time")).isSome &&
        ((r'.get? "error").bind Json.asStr? == some "no path")
      | _ => false) = true := by
  decide

/-- responses as the application produces them (objects) can always be written: the formatter returns; a
JSON value that is neither an object nor `null` makes the CSV formatter panic when a mapping fails
(modelled, not reachable from `CompassApp::run`, whose responses are objects) -/
theorem objects_are_writable (N : NumOps) (f : Format) (r : Json) (h : r.isObject = true ∨ r.isNull = true) :
    Writable N f r :=
  writable_of_obj_or_null N f r h

example : ¬ Writable anyNum (.csv [("a", .path "a")] false) (.num "3" 0) := by
  rintro ⟨p, hp⟩
  have : formatResponse anyNum (.csv [("a", .path "a")] false) (.num "3" 0) = .panic := rfl
  rw [this] at hp
  cases hp

/-! ## 4. Opening the file: append / overwrite / error-if-exists, header written once -/

/-- `WriteMode::Append` (the only mode `ResponseOutputPolicy::build` uses) leaves an existing file exactly as
it is — no second header — and starts a missing file with the header; `Overwrite` always starts over with
the header; `Error` refuses an existing file 
(Restates the model's definition — no proof about the code: the behaviour is tied to the Rust by the differential run.) -/
theorem open_file_spec (f : Format) (c : List Char) :
    openFile .append f (some c) = some c ∧
    openFile .append f none = some (headerText f) ∧
    openFile .overwrite f (some c) = some (headerText f) ∧
    openFile .overwrite f none = some (headerText f) ∧
    openFile .error f (some c) = none ∧
    openFile .error f none = some (headerText f) := by
  simp [openFile]

/-- the header of a CSV file is the comma-joined (CSV-escaped) column names and a newline; newline-delimited JSON has none 
(Restates the model's definition — no proof about the code: the behaviour is tied to the Rust by the differential run.) -/
theorem header_text_spec (mapping : List (String × CsvMapping)) (sorted : Bool) :
    headerText (.csv mapping sorted)
      = joinWith [','] ((headerKeys mapping sorted).map fun k => csvField k.toList) ++ ['\n'] ∧
    headerText (.json true) = [] := by
  simp [headerText, initialContents]

/-- a successful `build` yields a fresh sink on the opened contents -/
theorem build_ok_spec (mode : WriteMode) (f : Format) (rate : Option Int) (existing : Option (List Char))
    (s : FileSink) (h : build mode f rate existing = .ok s) :
    (∃ c, openFile mode f existing = some c ∧ s.file = [c]) ∧ s.format = f ∧ s.iterations = 0 ∧
    s.Healthy ∧ 0 < s.flushEvery := by
  unfold build at h
  split at h
  · simp at h
  · rename_i c hc
    split at h
    · simp at h
    · rename_i n hn
      simp only [BuildResult.ok.injEq] at h
      subst h
      refine ⟨⟨c, hc, rfl⟩, rfl, rfl, ⟨rfl, rfl⟩, ?_⟩
      unfold flushEvery at hn
      split at hn
      · simp only [Option.some.injEq] at hn
        show 0 < n
        omega
      · rename_i r
        split at hn
        · simp at hn
        · rename_i hr
          simp only [Option.some.injEq] at hn
          show 0 < n
          omega

/-! ## 5. One record per response for every schedule -/

/-- ATOMIC MODEL (a `write_response` is one step here, so "whole" records are by construction — the guard that
makes this the right model is section 5c).  Workers own queues of responses; a schedule is ANY list of worker ids; a step lets the scheduled
worker write its next response (one atomic `write_response`).  Whatever the schedule, as long as the
responses are writable (objects are): the file is what it was at the start followed by exactly one whole
record per response written so far, in the order `trace` in which the lock was taken; the written
responses together with the still-queued ones are a permutation of the batch (none lost, none duplicated);
the counter counts them; nothing failed.  `persist` is the persistence policy: it changes `returned`
only, never the file. -/
theorem file_holds_one_record_per_written_response (N : NumOps) (persist : Bool) (sink : FileSink)
    (queues : List (List Json)) (schedule : List Nat) (hp : sink.Healthy)
    (hw : ∀ r ∈ queues.flatten, Writable N sink.format r) :
    ∃ trace : List Json,
      let final := (Run.init sink queues).exec N persist schedule
      final.sink.file = sink.file ++ trace.map (recordOf N sink.format) ∧
      (trace ++ final.queues.flatten).Perm queues.flatten ∧
      final.sink.iterations = sink.iterations + trace.length ∧
      final.failed = 0 ∧ final.sink.Healthy := by
  obtain ⟨t, h⟩ := exec_progress N persist schedule (Run.init sink queues) hp hw (by simp [Run.init])
  exact ⟨t, h.file, h.queues, h.iterations, h.failed, h.poisoned⟩

/-- when the batch is complete (every queue drained) the records appended to the file are, as a multiset,
exactly `{record r | r ∈ batch}`: one intact record per response — none lost, duplicated, split or
interleaved — for every parallelism (number of queues) and every schedule -/
theorem complete_batch_file_is_multiset_of_records (N : NumOps) (persist : Bool) (sink : FileSink)
    (queues : List (List Json)) (schedule : List Nat) (hp : sink.Healthy)
    (hw : ∀ r ∈ queues.flatten, Writable N sink.format r)
    (hdone : ((Run.init sink queues).exec N persist schedule).done = true) :
    ∃ appended : List (List Char),
      ((Run.init sink queues).exec N persist schedule).sink.file = sink.file ++ appended ∧
      appended.Perm (queues.flatten.map (recordOf N sink.format)) ∧
      appended.length = queues.flatten.length ∧
      ((Run.init sink queues).exec N persist schedule).sink.iterations = sink.iterations + queues.flatten.length := by
  obtain ⟨t, hfile, hperm, hit, _, _⟩ :=
    file_holds_one_record_per_written_response N persist sink queues schedule hp hw
  rw [done_flatten_nil _ hdone, List.append_nil] at hperm
  exact ⟨t.map (recordOf N sink.format), hfile, hperm.map _, by simpa using hperm.length_eq,
    by rw [hit, hperm.length_eq]⟩

/-- the text of the file: opening contents, then the records one after the other — nothing in between -/
theorem file_text_is_concatenation (N : NumOps) (persist : Bool) (sink : FileSink)
    (queues : List (List Json)) (schedule : List Nat) (hp : sink.Healthy)
    (hw : ∀ r ∈ queues.flatten, Writable N sink.format r) :
    ∃ trace : List Json,
      ((Run.init sink queues).exec N persist schedule).sink.contents
        = sink.contents ++ (trace.map (recordOf N sink.format)).flatten := by
  obtain ⟨t, hfile, _⟩ := file_holds_one_record_per_written_response N persist sink queues schedule hp hw
  exact ⟨t, by simp only [FileSink.contents]; rw [hfile]; simp⟩

/-- line count: with one-line records the completed batch adds exactly one newline per response -/
theorem complete_batch_line_count (N : NumOps) (persist : Bool) (sink : FileSink)
    (queues : List (List Json)) (schedule : List Nat) (hp : sink.Healthy)
    (hw : ∀ r ∈ queues.flatten, Writable N sink.format r)
    (hline : ∀ r ∈ queues.flatten, '\n' ∉ rowOf N sink.format r)
    (hdone : ((Run.init sink queues).exec N persist schedule).done = true) :
    ((Run.init sink queues).exec N persist schedule).sink.contents.count '\n'
      = sink.contents.count '\n' + queues.flatten.length := by
  obtain ⟨app, hfile, hperm, _, _⟩ :=
    complete_batch_file_is_multiset_of_records N persist sink queues schedule hp hw hdone
  simp only [FileSink.contents, hfile, List.flatten_append, List.count_append]
  congr 1
  have hcount : ∀ l : List Json, (∀ r ∈ l, '\n' ∉ rowOf N sink.format r) →
      ((l.map (recordOf N sink.format)).flatten).count '\n' = l.length := by
    intro l hl
    induction l with
    | nil => rfl
    | cons r rs ih =>
      simp only [List.map_cons, List.flatten_cons, List.count_append, List.length_cons, recordOf]
      rw [ih (fun x hx => hl x (List.mem_cons_of_mem _ hx)),
        (record_has_exactly_one_newline _ (hl r (List.mem_cons_self ..))).1]
      omega
  have : (app.flatten).count '\n' = ((queues.flatten.map (recordOf N sink.format)).flatten).count '\n' :=
    (List.Perm.flatten hperm).count_eq _
  rw [this, hcount _ hline]

/-- the persistence policy does not touch the file: both runners leave the same sink behind -/
theorem file_same_under_both_persistence_policies (N : NumOps) (s : Run) (schedule : List Nat) :
    (s.exec N true schedule).sink = (s.exec N false schedule).sink ∧
    (s.exec N true schedule).queues = (s.exec N false schedule).queues := by
  induction schedule generalizing s with
  | nil => exact ⟨rfl, rfl⟩
  | cons w ws ih =>
    have hstep : (s.step N true w).sink = (s.step N false w).sink ∧ (s.step N true w).queues = (s.step N false w).queues := by
      unfold Run.step
      cases s.queues[w]? with
      | none => exact ⟨rfl, rfl⟩
      | some q =>
        cases q with
        | nil => exact ⟨rfl, rfl⟩
        | cons r rest => simp only; split <;> exact ⟨rfl, rfl⟩
    simp only [Run.exec, List.foldl_cons]
    -- the two runs agree on everything `step` reads
    have key : ∀ (a b : Run) (sch : List Nat), a.sink = b.sink → a.queues = b.queues →
        (sch.foldl (Run.step N true) a).sink = (sch.foldl (Run.step N false) b).sink ∧
        (sch.foldl (Run.step N true) a).queues = (sch.foldl (Run.step N false) b).queues := by
      intro a b sch
      induction sch generalizing a b with
      | nil => intro h1 h2; exact ⟨h1, h2⟩
      | cons w' ws' ih' =>
        intro h1 h2
        simp only [List.foldl_cons]
        apply ih'
        · unfold Run.step; rw [h2, h1]
          cases b.queues[w']? with
          | none => exact h1
          | some q =>
            cases q with
            | nil => exact h1
            | cons r rest => simp only; split <;> rfl
        · unfold Run.step; rw [h2, h1]
          cases b.queues[w']? with
          | none => exact h2
          | some q =>
            cases q with
            | nil => exact h2
            | cons r rest => simp only; split <;> simp
    exact key _ _ ws hstep.1 hstep.2

/-- what the callers get back: under `PersistResponseInMemory` the responses handed back are, as a
multiset, the `format_response`-amended versions of the responses written (hence, by section 3, they keep
everything they held); under `DiscardResponseFromMemory` nothing is kept -/
theorem returned_responses (N : NumOps) (persist : Bool) (sink : FileSink)
    (queues : List (List Json)) (schedule : List Nat) (hp : sink.Healthy)
    (hw : ∀ r ∈ queues.flatten, Writable N sink.format r)
    (hdone : ((Run.init sink queues).exec N persist schedule).done = true) :
    ((Run.init sink queues).exec N persist schedule).returned.flatten.Perm
      (if persist then queues.flatten.map (postOf N sink.format) else []) := by
  obtain ⟨t, h⟩ := exec_progress N persist schedule (Run.init sink queues) hp hw (by simp [Run.init])
  have hq := h.queues
  rw [done_flatten_nil _ hdone, List.append_nil] at hq
  have hr := h.returned
  have hinit : (Run.init sink queues).returned.flatten = [] := by
    simp only [Run.init]
    induction queues with
    | nil => rfl
    | cons q qs ih => simp
  rw [hinit, List.nil_append] at hr
  cases persist with
  | false => simpa using hr
  | true =>
    have hq' : t.Perm queues.flatten := hq
    simpa [Run.init] using hr.trans (hq'.map _)

/-- and exactly, not only as a multiset: under `PersistResponseInMemory` worker `w` hands back, in the order
of its queue, the amended version of each of its responses — the same vectors for every schedule -/
theorem returned_in_query_order (N : NumOps) (sink : FileSink) (queues : List (List Json))
    (schedule : List Nat) (hp : sink.Healthy)
    (hw : ∀ r ∈ queues.flatten, Writable N sink.format r)
    (hdone : ((Run.init sink queues).exec N true schedule).done = true) :
    ((Run.init sink queues).exec N true schedule).returned
      = queues.map (fun q => q.map (postOf N sink.format)) := by
  have hinv := exec_handBack N schedule (Run.init sink queues) hp hw (by simp [Run.init])
  obtain ⟨t, h⟩ := exec_progress N true schedule (Run.init sink queues) hp hw (by simp [Run.init])
  have hnil : ∀ q ∈ ((Run.init sink queues).exec N true schedule).queues, q = [] := by
    intro q hq
    have := hdone
    unfold Run.done at this
    rw [List.all_eq_true] at this
    simpa using this q hq
  rw [handBack_of_all_nil N _ _ _ (by rw [h.retWidth, h.width]; simp [Run.init]) hnil] at hinv
  rw [hinv]
  exact handBack_init N sink.format queues

/-- non-vacuity: complete schedules exist for every batch shape that is exercised below, and different
schedules give different files with the same records -/
example :
    let f := Format.json true
    let sink : FileSink := { format := f, flushEvery := 1, file := [[]], iterations := 0, flushes := 0, poisoned := false }
    let a := Json.obj [("request", .num "1" 0)]
    let b := Json.obj [("request", .num "2" 0), ("error", .str "no path")]
    let c := Json.obj [("request", .num "3" 0)]
    let run := fun sch => (Run.init sink [[a, b], [c]]).exec anyNum true sch
    (run [0, 1, 0]).done = true ∧ (run [1, 0, 0, 1, 7]).done = true ∧ (run [0, 1]).done = false ∧
    (run [0, 1, 0]).sink.contents ≠ (run [1, 0, 0]).sink.contents ∧
    (run [0, 1, 0]).sink.contents.count '\n' = 3 := by
  decide

/-! ## 5a. Combined sinks -/

/-- what one Combined `write_response` does, exactly (a Combined policy is flattened depth-first): on healthy
members and an object response it succeeds; member `i` appends the record of the response AS MEMBERS `< i`
AMENDED IT and counts it; the response handed back is the response amended by every member in turn -/
theorem combined_write_spec (N : NumOps) (ss : List FileSink) (r : Json)
    (hp : ∀ s ∈ ss, s.Healthy) (hr : r.isObject = true) :
    ∃ ss', writeCombined N ss r = .ok ss' (amendBy N (ss.map (·.format)) r) ∧ ss'.length = ss.length ∧
      ∀ i s, ss[i]? = some s → ∃ s', ss'[i]? = some s' ∧
        s'.file = s.file ++ [recordOf N s.format (amendBy N ((ss.map (·.format)).take i) r)] ∧
        s'.iterations = s.iterations + 1 ∧ s'.format = s.format ∧ s'.Healthy :=
  writeCombined_spec N ss r hp hr

/-- FULL: a Combined write never removes or replaces anything in the response, whatever the members (any number
of CSV files, any mappings) — the general form of the repaired `csv_error` defect -/
theorem combined_write_never_loses_information (N : NumOps) (ss : List FileSink) (r : Json)
    (ss' : List FileSink) (r' : Json) (h : writeCombined N ss r = .ok ss' r') :
    ∀ k v, r.get? k = some v → r'.get? k = some v :=
  writeCombined_never_loses N ss r ss' r' h

/-- A BATCH ON A COMBINED SINK, every schedule.  The members have separate locks: a worker is inside one member
at a time and holds nothing between two members, so workers overtake each other between members (`RunC`: a
step is one worker's next member write).  For every schedule and every member `i`: its file is what it was
followed by exactly one whole record per response that has reached it — the record of that response as members
`< i` amended it; written and not-yet-arrived responses together are a permutation of the batch; when the
batch is complete the records of member `i` are the multiset `{record_i (amend_{<i} r) | r ∈ batch}`.
Hypotheses: healthy members, object responses (what the application produces).  Each member write is one step
here; that this is right for each member is section 5c. -/
theorem combined_batch_member_file (N : NumOps) (persist : Bool) (sinks : List FileSink)
    (queues : List (List Json)) (schedule : List Nat) (i : Nat) (si : FileSink)
    (hh : ∀ s ∈ sinks, s.Healthy) (hobj : ∀ r ∈ queues.flatten, r.isObject = true)
    (hi : sinks[i]? = some si) :
    let fmts := sinks.map (·.format)
    let final := (RunC.init sinks queues).exec N persist schedule
    ∃ (si' : FileSink) (trace : List Json),
      final.sinks[i]? = some si' ∧
      si'.file = si.file ++ trace.map (recordOf N si.format) ∧
      si'.iterations = si.iterations + trace.length ∧
      (trace ++ (final.workers.map (projQueue N fmts i)).flatten).Perm
        (queues.flatten.map (amendBy N (fmts.take i))) ∧
      (final.done = true → trace.Perm (queues.flatten.map (amendBy N (fmts.take i)))) := by
  intro fmts final
  have hstage : ∀ r, advance N fmts 0 i r = amendBy N (fmts.take i) r := by
    intro r; simp [advance]
  let A0 : Run := Run.init si (queues.map (fun q => q.map (advance N fmts 0 i)))
  have hg0 : GoodC fmts (RunC.init sinks queues) := by
    refine ⟨hh, rfl, ?_, ?_, rfl⟩
    · intro wk hwk r hr
      obtain ⟨q, hq, rfl⟩ := List.mem_map.1 hwk
      exact hobj r (List.mem_flatten.2 ⟨q, hq, hr⟩)
    · intro wk hwk r j hc
      obtain ⟨q, _, rfl⟩ := List.mem_map.1 hwk
      simp at hc
  have hs0 : SimC N fmts i (RunC.init sinks queues) A0 := by
    refine ⟨hi, ?_⟩
    simp only [A0, Run.init, RunC.init, List.map_map]
    apply List.map_congr_left
    intro q _
    simp [projQueue]
  obtain ⟨as, _, hsim⟩ := execC_sim N persist fmts i schedule _ A0 hg0 hs0
  have hwA : ∀ r ∈ A0.queues.flatten, Writable N A0.sink.format r := by
    intro r hr
    simp only [A0, Run.init, List.mem_flatten, List.mem_map] at hr
    obtain ⟨l, ⟨q, hq, rfl⟩, hr⟩ := hr
    obtain ⟨r0, hr0, rfl⟩ := List.mem_map.1 hr
    apply writable_of_obj_or_null
    left
    rw [hstage]
    exact isObject_amendBy N _ r0 (hobj r0 (List.mem_flatten.2 ⟨q, hq, hr0⟩))
  obtain ⟨t, hprog⟩ := exec_progress N false as A0 (hh si (List.mem_of_getElem? hi)) hwA (by simp [A0, Run.init])
  have hbatch : A0.queues.flatten = queues.flatten.map (amendBy N (fmts.take i)) := by
    simp only [A0, Run.init]
    rw [List.map_flatten]
    congr 1
    first
      | (apply List.map_congr_left
         intro q _
         apply List.map_congr_left
         intro r _
         exact hstage r)
      | (funext r; exact hstage r)
      | skip
  have hperm := hprog.queues
  rw [hsim.queues, hbatch] at hperm
  refine ⟨_, t, hsim.sink, hprog.file, hprog.iterations, hperm, ?_⟩
  intro hdone
  have hnil : (final.workers.map (projQueue N fmts i)).flatten = [] := by
    apply List.flatten_eq_nil_iff.2
    intro l hl
    obtain ⟨wk, hwk, rfl⟩ := List.mem_map.1 hl
    have := List.all_eq_true.1 hdone wk hwk
    simp only [Bool.and_eq_true, List.isEmpty_iff, Option.isNone_iff_eq_none] at this
    simp [projQueue, this.1, this.2]
  rw [hnil, List.append_nil] at hperm
  exact hperm

example :
    let mk := fun (f : Format) =>
      ({ format := f, flushEvery := 1, file := [[]], iterations := 0, flushes := 0, poisoned := false } : FileSink)
    let csv1 := mk (.csv [("distance", .path "route.distance")] false)
    let json := mk (.json true)
    let a := Json.obj [("request", .num "1" 0), ("error", .str "no path")]
    let b := Json.obj [("request", .num "2" 0), ("route", .obj [("distance", .num "3.5" 0)])]
    -- two workers overtaking each other between the members: b reaches the JSON member before a
    let final := (RunC.init [csv1, json] [[a], [b]]).exec anyNum true [0, 0, 1, 1, 1, 0, 0, 1]
    final.done = true ∧
    (final.sinks.map FileSink.contents) = [txt "\n3.5\n",
      txt "{\"request\":2,\"route\":{\"distance\":3.5}}\n{\"request\":1,\"error\":\"no path\",\"csv_error\":{\"csv\":{\"distance\":\"\"}}}\n"] := by
  decide

/-! ## 5b. `CompassApp::run`: every response of the batch has its record -/

/-- FULL (after the repair of `CompassApp::run`, which now hands the error responses of queries that failed
input processing to the sink before the searches start).  For every batch — responses of searched queries
spread over any number of workers, plus any number of input-processing error responses — every complete
schedule and both persistence policies: `run` returns; the file is what it was followed by exactly one
record per response of the batch (the error responses' records first, in order); the caller gets back the
amended error responses under both policies and, under `PersistResponseInMemory`, the amended search
responses too — then as many responses as records were written. -/
theorem app_file_has_one_record_per_response (N : NumOps) (persist : Bool) (sink : FileSink)
    (queues : List (List Json)) (inputErrors : List Json) (schedule : List Nat)
    (hp : sink.Healthy)
    (hw : ∀ r ∈ inputErrors ++ queues.flatten, Writable N sink.format r)
    (hdone : Complete queues schedule) :
    ∃ (sink' : FileSink) (returned : List Json) (appended : List (List Char)),
      appRun N persist sink queues inputErrors schedule = some (sink', returned) ∧
      sink'.file = sink.file ++ inputErrors.map (recordOf N sink.format) ++ appended ∧
      appended.Perm (queues.flatten.map (recordOf N sink.format)) ∧
      (inputErrors.map (recordOf N sink.format) ++ appended).length = inputErrors.length + queues.flatten.length ∧
      sink'.iterations = sink.iterations + (inputErrors.length + queues.flatten.length) ∧
      returned.Perm ((if persist then queues.flatten.map (postOf N sink.format) else [])
        ++ inputErrors.map (postOf N sink.format)) ∧
      (persist = true → returned.length = inputErrors.length + queues.flatten.length) := by
  obtain ⟨s₁, hs₁, hfile₁, hit₁, hfmt₁, hpo₁⟩ :=
    writeSeq_spec N inputErrors sink hp (fun r hr => hw r (List.mem_append_left _ hr))
  have hw₁ : ∀ r ∈ queues.flatten, Writable N s₁.format r := by
    intro r hr; rw [hfmt₁]; exact hw r (List.mem_append_right _ hr)
  have hd := done_of_complete N persist s₁ queues schedule hdone
  obtain ⟨app, hfile, hperm, hlen, hit⟩ :=
    complete_batch_file_is_multiset_of_records N persist s₁ queues schedule hpo₁ hw₁ hd
  have hret := returned_responses N persist s₁ queues schedule hpo₁ hw₁ hd
  obtain ⟨_, _, _, _, hfailed, _⟩ :=
    file_holds_one_record_per_written_response N persist s₁ queues schedule hpo₁ hw₁
  rw [hfmt₁] at hperm hret
  refine ⟨((Run.init s₁ queues).exec N persist schedule).sink, _, app, by simp [appRun, hs₁, hfailed],
    by rw [hfile, hfile₁], hperm, ?_, ?_,
    List.Perm.append_right _ hret, ?_⟩
  · rw [List.length_append, List.length_map, hlen]
  · rw [hit, hit₁]; omega
  · intro hpers
    subst hpers
    simp only [if_true] at hret
    rw [List.length_append, hret.length_eq, List.length_map, List.length_map]
    omega

/-- the witness of the repaired defect (`fixed: d0fd74e`), now a positive example: one good query and one
that fails input processing give two responses AND two records, under both persistence policies -/
example :
    let sink : FileSink := { format := .json true, flushEvery := 1, file := [[]], iterations := 0, flushes := 0, poisoned := false }
    let good := Json.obj [("request", .obj [("origin_vertex", .num "0" 0)]), ("route", .null)]
    let bad := Json.obj [("request", .obj [("error", .str "unable to display query")]), ("error", .str "input plugin error")]
    ((appRun anyNum true sink [[good]] [bad] [0]).map fun p => (p.2.length, p.1.file.length)) = some (2, 1 + 2) ∧
    ((appRun anyNum false sink [[good]] [bad] [0]).map fun p => (p.2.length, p.1.file.length)) = some (1, 1 + 2) ∧
    ((appRun anyNum true sink [] [bad] []).map fun p => (p.2.length, p.1.file.length)) = some (1, 1 + 1) := by
  decide

/-- complete schedules exist for every batch shape: finishing the workers one after the other is one -/
example : Complete [[Json.null, .null], [], [.null]] (sequentialSchedule [[Json.null, .null], [], [.null]]) ∧
    Complete [[Json.null, .null], [], [.null]] [2, 0, 5, 0, 1] ∧ ¬ Complete [[Json.null, .null], [], [.null]] [0, 2] := by
  unfold Complete; decide

/-! ## 5c. The guard: "not truncated, not interleaved" as a theorem about the lock -/

open SinkFine in
/-- REFINEMENT.  In the small-step model (`Model/SinkFine.lean`: acquire, format, one or SEVERAL `write` calls
per record — any `split` whose pieces concatenate to the buffer —, count, release; any list of worker ids as
schedule; a worker that wants a taken lock does not move) WITH the guard, every interleaving of the small steps
is in step with a run of the atomic model under some schedule of its own — the order in which the lock was
released: same queues, same responses handed back, and the file text and counter equal as soon as nobody is
inside `write_response`.  Hypotheses: a healthy sink, writable responses (objects are). -/
theorem guarded_small_steps_refine_atomic (c : Config) (sink : FileSink) (queues : List (List Json))
    (schedule : List Nat) (hg : c.guard = true) (hsplit : ∀ t, (c.split t).flatten = t)
    (hf : sink.format = c.format) (hh : sink.Healthy)
    (hw : ∀ r ∈ queues.flatten, Writable c.N c.format r) :
    ∃ atomic : List Nat,
      let st := exec c (SinkFine.init sink.file sink.iterations queues) schedule
      let A := (Run.init sink queues).exec c.N c.persist atomic
      st.workers.map (·.queue) = A.queues ∧ st.workers.map (·.returned) = A.returned ∧
      st.failed = 0 ∧ st.poisoned = false ∧
      (st.lock = none → st.contents = A.sink.contents ∧ st.iterations = A.sink.iterations) := by
  have h0 := init_sim c sink queues hf hh
  have hw0 : ∀ q ∈ (Run.init sink queues).queues, ∀ r ∈ q, Writable c.N c.format r := by
    intro q hq r hr
    exact hw r (List.mem_flatten.2 ⟨q, hq, hr⟩)
  obtain ⟨as, hsim⟩ := exec_sim c hg hsplit schedule _ _ h0 hw0
  exact ⟨as, hsim.queues.symm, hsim.returned.symm, hsim.failed.1, hsim.notPoisoned,
    fun hl => sim_unlocked c _ _ hsim hl⟩

open SinkFine in
/-- HEADLINE (S1 c, d).  With the guard, for every interleaving of the small steps of any number of workers
and however the OS cuts the buffers: once every worker has finished, the file TEXT is what it was followed by
whole records, one per response — the records of a permutation of the batch, none truncated, none interleaved,
none lost, none duplicated — the counter has counted them, and (persist) each worker got back its amended
responses in queue order. -/
theorem guarded_finished_file_is_whole_records (c : Config) (sink : FileSink) (queues : List (List Json))
    (schedule : List Nat) (hg : c.guard = true) (hsplit : ∀ t, (c.split t).flatten = t)
    (hf : sink.format = c.format) (hh : sink.Healthy)
    (hw : ∀ r ∈ queues.flatten, Writable c.N c.format r)
    (hfin : (exec c (SinkFine.init sink.file sink.iterations queues) schedule).finished = true) :
    ∃ written : List Json,
      written.Perm queues.flatten ∧
      (exec c (SinkFine.init sink.file sink.iterations queues) schedule).contents
        = sink.contents ++ (written.map (recordOf c.N c.format)).flatten ∧
      (exec c (SinkFine.init sink.file sink.iterations queues) schedule).iterations
        = sink.iterations + queues.flatten.length ∧
      (c.persist = true →
        (exec c (SinkFine.init sink.file sink.iterations queues) schedule).workers.map (·.returned)
          = queues.map (fun q => q.map (postOf c.N c.format))) := by
  have h0 := init_sim c sink queues hf hh
  have hw0 : ∀ q ∈ (Run.init sink queues).queues, ∀ r ∈ q, Writable c.N c.format r := by
    intro q hq r hr
    exact hw r (List.mem_flatten.2 ⟨q, hq, hr⟩)
  obtain ⟨as, hsim⟩ := exec_sim c hg hsplit schedule _ _ h0 hw0
  obtain ⟨hlock, hdone⟩ := finished_unlocked c _ _ hsim hfin
  obtain ⟨hcont, hiter⟩ := sim_unlocked c _ _ hsim hlock
  have hwA : ∀ r ∈ queues.flatten, Writable c.N sink.format r := by rw [hf]; exact hw
  obtain ⟨t, hprog⟩ := exec_progress c.N c.persist as (Run.init sink queues) hh hwA (by simp [Run.init])
  have hq := hprog.queues
  rw [done_flatten_nil _ hdone, List.append_nil] at hq
  refine ⟨t, hq, ?_, ?_, ?_⟩
  · rw [hcont]
    simp only [FileSink.contents, hprog.file, List.flatten_append]
    rw [← hf]; rfl
  · rw [hiter, hprog.iterations, hq.length_eq]; rfl
  · intro hper
    rw [← hsim.returned, ← hf]
    rw [hper] at hdone ⊢
    exact returned_in_query_order c.N sink queues as hh hwA hdone

open SinkFine in
/-- the guard is what does it: the same code WITHOUT the mutex, the buffer going out in two `write` calls (row,
line break — what `writeln!` did before the repair; or any partial write), two workers: the two rows land
before the two line breaks — a glued record and a blank one; with the guard the same schedule gives whole
records -/
theorem unguarded_two_call_write_interleaves_counterexample :
    let a := Json.obj [("a", .num "1" 0)]
    let b := Json.obj [("b", .num "2" 0)]
    let cfg := fun g => ({ N := anyNum, format := .json true, persist := true, guard := g, split := rowThenNewline } : Config)
    let sch := [0, 1, 0, 1, 0, 1, 0, 1, 0, 1, 0, 1, 0, 1, 1, 1, 1, 1, 1]
    (exec (cfg false) (SinkFine.init [[]] 0 [[a], [b]]) sch).contents = txt "{\"a\":1}{\"b\":2}\n\n" ∧
    (exec (cfg false) (SinkFine.init [[]] 0 [[a], [b]]) sch).finished = true ∧
    (exec (cfg true) (SinkFine.init [[]] 0 [[a], [b]]) sch).contents = txt "{\"a\":1}\n{\"b\":2}\n" ∧
    (exec (cfg true) (SinkFine.init [[]] 0 [[a], [b]]) sch).finished = true := by
  decide

open SinkFine in
/-- SEVERAL SINKS ON ONE FILE (two members of a Combined policy with the same filename, two `run` calls at the
same time, another process): each sink has its own mutex, so there is no common lock — covered by `guard`
arbitrary.  After the repair `fix: a response record reaches the output file in one write` a record goes out
in one `write` call (`split = oneCall`), and then for EVERY interleaving of the small steps, with or without
lock: the file is what it was followed by whole records, one per record written; written and unwritten
responses are a permutation of the batch; when all have finished the records are those of a permutation of the
batch.  Rests on: a `write` on an append-mode handle lands whole at the end of the file (trusted, `O_APPEND`);
`write_all` not being cut into several calls (true of regular files; otherwise only the guarded theorem
holds). -/
theorem one_call_records_whole_without_common_lock (c : Config) (file : List (List Char)) (iterations : Nat)
    (queues : List (List Json)) (schedule : List Nat) (hone : c.split = oneCall)
    (hw : ∀ r ∈ queues.flatten, Writable c.N c.format r) :
    ∃ written : List Json,
      (exec c (SinkFine.init file iterations queues) schedule).file
        = file ++ written.map (recordOf c.N c.format) ∧
      (written ++ ((exec c (SinkFine.init file iterations queues) schedule).workers.map pendingOf).flatten).Perm
        queues.flatten ∧
      ((exec c (SinkFine.init file iterations queues) schedule).finished = true → written.Perm queues.flatten) := by
  have h := exec_whole c hone file queues.flatten schedule _ (init_whole c file iterations queues hw)
  obtain ⟨trace, hf, hp⟩ := h.file
  refine ⟨trace, hf, hp, ?_⟩
  intro hfin
  rw [finished_pending_nil _ hfin, List.append_nil] at hp
  exact hp

open SinkFine in
/-- the witness of the repaired defect (`sink/aliased-handles-interleave`): with the two-call write of the old
code and no common lock the records interleave; with the one-call write they are whole under the same
schedule -/
example :
    let a := Json.obj [("a", .num "1" 0)]
    let b := Json.obj [("b", .num "2" 0)]
    let cfg := fun sp => ({ N := anyNum, format := .json true, persist := false, guard := false, split := sp } : Config)
    let sch := [0, 1, 0, 1, 0, 1, 0, 1, 0, 1, 0, 1, 0, 1]
    (exec (cfg rowThenNewline) (SinkFine.init [txt "h\n"] 0 [[a], [b]]) sch).contents = txt "h\n{\"a\":1}{\"b\":2}\n\n" ∧
    (exec (cfg oneCall) (SinkFine.init [txt "h\n"] 0 [[a], [b]]) sch).contents = txt "h\n{\"a\":1}\n{\"b\":2}\n" := by
  decide

open SinkFine in
/-- CREATING THE FILE (after the repair `fix: WriteMode::Append creates a missing output file with create-new
semantics`): any number of sinks opening one path at the same time and appending, any interleaving of their
steps — nothing that is in the file is ever removed: the file only grows, piece after piece.  (`create_new` being
one step — it fails when the file is there — is the OS's, trusted.) -/
theorem create_new_never_truncates (header : List Char) (st : OpenState) (schedule : List Nat) :
    ∀ pieces, st.file = some pieces →
      ∃ extra, (openExec false header st schedule).file = some (pieces ++ extra) :=
  openExec_new_extends header schedule st

open SinkFine in
/-- the witness of the repaired defect (`sink/concurrent-build-truncates`): with the old check-then-write, two
sinks that both saw the path missing both write the header, the second truncating the record the first had
appended; the repaired code keeps it.  The last line shows what the model of the repaired code still allows: a
record of the sink that lost the race to create may land before the header (nothing is lost). -/
theorem check_then_write_truncates_counterexample :
    let st : OpenState := { file := none, openers := [{ records := [txt "a\n"] }, { records := [txt "b\n"] }] }
    let sch := [0, 1, 0, 0, 1, 1]
    (openExec true (txt "h\n") st sch).file = some [txt "h\n", txt "b\n"] ∧
    (openExec false (txt "h\n") st sch).file = some [txt "h\n", txt "a\n", txt "b\n"] ∧
    (openExec false (txt "h\n") st [0, 1, 1, 0, 0]).file = some [txt "b\n", txt "h\n", txt "a\n"] := by
  decide

/-! ## 5d. The whole CSV file, as a reader cuts it -/

/-- a first run on a missing path, any schedule: the reader's record splitter cuts the WHOLE file — header and
all — into the header line followed by exactly the rows of the responses written, nothing left over.
(`csv_rows_split_back` is the same for a bare sequence of rows.) -/
theorem whole_csv_file_splits (N : NumOps) (persist : Bool) (m : List (String × CsvMapping)) (s : Bool)
    (rate : Option Int) (sink : FileSink) (queues : List (List Json)) (schedule : List Nat)
    (hb : build .append (.csv m s) rate none = .ok sink)
    (hw : ∀ r ∈ queues.flatten, Writable N (.csv m s) r) :
    ∃ trace : List Json, (trace ++ ((Run.init sink queues).exec N persist schedule).queues.flatten).Perm queues.flatten ∧
      SinkRead.splitRecords ((Run.init sink queues).exec N persist schedule).sink.contents
        = (joinWith [','] (((headerKeys m s).map String.toList).map csvField)
            :: trace.map (fun r => csvRow N (rowColumns m s) r), []) := by
  obtain ⟨⟨c, hc, hfile⟩, hfmt, _, hpo, _⟩ := build_ok_spec .append (.csv m s) rate none sink hb
  simp only [openFile, Option.some.injEq] at hc
  subst hc
  obtain ⟨t, h1, h2, _⟩ :=
    file_holds_one_record_per_written_response N persist sink queues schedule hpo (by rw [hfmt]; exact hw)
  refine ⟨t, h2, ?_⟩
  have hbal : ∀ r, SinkRead.Balanced (csvRow N (rowColumns m s) r) := by
    intro r
    have e : csvRow N (rowColumns m s) r
        = joinWith [','] (((rowColumns m s).map fun c => cellValue N c.2 r).map csvField) := by
      unfold csvRow
      congr 1
      simp only [List.map_map]
      apply List.map_congr_left
      intro c _
      simp only [Function.comp, cellText, cellValue]
      cases c.2.apply N r with
      | none => simp [csvField, needsQuotes]
      | some v => rfl
    rw [e]; exact SinkRead.balanced_join _
  have hrows : t.map (recordOf N sink.format) = (t.map (fun r => csvRow N (rowColumns m s) r)).map record := by
    rw [List.map_map]
    apply List.map_congr_left
    intro r hr
    have hmem : r ∈ queues.flatten := h2.subset (List.mem_append_left _ hr)
    have hf := formatResponse_of_writable (hw r hmem)
    simp only [Function.comp, recordOf, hfmt, (formatResponse_csv_cases N m s r _ _ hf).1]
  have hhead : headerText (.csv m s) = record (joinWith [','] (((headerKeys m s).map String.toList).map csvField)) := by
    simp only [headerText, initialContents, Option.getD_some, List.map_map, record]
    rfl
  have := SinkRead.splitRecords_records
    (joinWith [','] (((headerKeys m s).map String.toList).map csvField) :: t.map (fun r => csvRow N (rowColumns m s) r))
    (by
      intro row hrow
      rcases List.mem_cons.1 hrow with rfl | hrow
      · exact SinkRead.balanced_join _
      · obtain ⟨r, _, rfl⟩ := List.mem_map.1 hrow
        exact hbal r)
  rw [← this]
  congr 1
  simp only [FileSink.contents, h1, hfile, hrows, hhead]
  simp

/-! ## 6. Repeated runs append -/

/-- a second run on the file a first run left (`WriteMode::Append`, the mode `build` always uses) keeps every
byte of the first run — header included, not repeated — and adds its own records after it -/
theorem repeated_runs_append (N : NumOps) (persist : Bool) (f : Format) (rate : Option Int)
    (first : List Char) (sink : FileSink) (queues : List (List Json)) (schedule : List Nat)
    (hb : build .append f rate (some first) = .ok sink)
    (hw : ∀ r ∈ queues.flatten, Writable N f r) :
    ∃ trace : List Json,
      ((Run.init sink queues).exec N persist schedule).sink.contents
        = first ++ (trace.map (recordOf N f)).flatten ∧
      (trace ++ ((Run.init sink queues).exec N persist schedule).queues.flatten).Perm queues.flatten := by
  obtain ⟨⟨c, hc, hfile⟩, hfmt, _, hpo, _⟩ := build_ok_spec .append f rate (some first) sink hb
  simp only [openFile, Option.some.injEq] at hc
  subst hc
  obtain ⟨t, h1, h2, _⟩ :=
    file_holds_one_record_per_written_response N persist sink queues schedule hpo (by rw [hfmt]; exact hw)
  refine ⟨t, ?_, h2⟩
  simp only [FileSink.contents, h1, hfile, hfmt]
  simp

/-- and a first run on a missing file starts with exactly one header -/
theorem first_run_starts_with_header (N : NumOps) (persist : Bool) (f : Format) (rate : Option Int)
    (sink : FileSink) (queues : List (List Json)) (schedule : List Nat)
    (hb : build .append f rate none = .ok sink)
    (hw : ∀ r ∈ queues.flatten, Writable N f r) :
    ∃ trace : List Json,
      ((Run.init sink queues).exec N persist schedule).sink.contents
        = headerText f ++ (trace.map (recordOf N f)).flatten := by
  obtain ⟨⟨c, hc, hfile⟩, hfmt, _, hpo, _⟩ := build_ok_spec .append f rate none sink hb
  simp only [openFile, Option.some.injEq] at hc
  subst hc
  obtain ⟨t, h1, _⟩ :=
    file_holds_one_record_per_written_response N persist sink queues schedule hpo (by rw [hfmt]; exact hw)
  refine ⟨t, ?_⟩
  simp only [FileSink.contents, h1, hfile, hfmt]
  simp

/-! ## 7. A JSON line determines the response -/

/-- ROUND TRIP OF THE TEXT (structure, key order, strings with every escape, number LEXEMES; the doubles behind the
lexemes are outside the model — `eraseBits` — and `numsOk` says that the model's numbers are written with number
characters, as `serde_json`'s are), proved for the model's serializer (`Sink.compact`, = `serde_json::to_string` by the
correspondence run) and the reader of `Model/SinkRead.lean`: a record parses back to the response that
produced it.  Numbers come back as their lexemes (`eraseBits`: the double is a function of the lexeme). -/
theorem json_record_parses_back (r : Json) (h : numsOk r = true) :
    SinkRead.parse (rowOf anyNum (.json true) r) = some (SinkRead.eraseBits r) := by
  simpa [rowOf, formatResponse] using SinkRead.parse_compact r h

/-- RESTRICTION of "each JSON record parses back" when the reader is `serde_json::from_str` with its default
recursion limit: the record of a response whose arrays/objects are nested 128 deep or deeper (a query is echoed
in its response, so the nesting is the caller's) is written — valid JSON, whole — but `from_str` refuses it; up
to 127 levels it reads back.  (`SinkRead.parse` itself has no limit.) -/
theorem json_record_readable_by_serde_iff_depth_below_128 (r : Json) (h : numsOk r = true) :
    SinkRead.parseSerde (rowOf anyNum (.json true) r)
      = if SinkRead.depth r ≤ SinkRead.serdeDepthLimit then some (SinkRead.eraseBits r) else none := by
  simpa [rowOf, formatResponse] using SinkRead.parseSerde_compact r h

/-- hence the line determines the response: two responses with the same record are the same response -/
theorem json_record_determines_response (a b : Json) (ha : numsOk a = true) (hb : numsOk b = true)
    (h : compact a = compact b) : SinkRead.eraseBits a = SinkRead.eraseBits b := by
  have h1 := SinkRead.parse_compact a ha
  have h2 := SinkRead.parse_compact b hb
  rw [h] at h1
  rw [h1] at h2
  exact Option.some.inj h2

/-- for ANY reader that gives back what was written (up to a normal form `norm`), the records of a completed
batch read back, as a multiset, to the batch — for every schedule and both persistence policies -/
theorem json_lines_parse_back (N : NumOps) (persist : Bool) (sink : FileSink) (queues : List (List Json))
    (schedule : List Nat) (hp : sink.Healthy) (hf : sink.format = .json true)
    (parse : List Char → Option Json) (norm : Json → Json)
    (hparse : ∀ j ∈ queues.flatten, parse (compact j) = some (norm j))
    (hdone : ((Run.init sink queues).exec N persist schedule).done = true) :
    ∃ rows : List (List Char),
      ((Run.init sink queues).exec N persist schedule).sink.file = sink.file ++ rows.map record ∧
      (rows.map parse).Perm (queues.flatten.map (fun j => some (norm j))) := by
  have hw : ∀ r ∈ queues.flatten, Writable N sink.format r := by
    intro r _; rw [hf]; exact writable_json N true r
  obtain ⟨t, hfile, hperm, _⟩ :=
    file_holds_one_record_per_written_response N persist sink queues schedule hp hw
  rw [done_flatten_nil _ hdone, List.append_nil] at hperm
  refine ⟨t.map (rowOf N sink.format), by rw [hfile]; simp [recordOf], ?_⟩
  have : (t.map (rowOf N sink.format)).map parse = t.map (fun j => some (norm j)) := by
    simp only [List.map_map]
    apply List.map_congr_left
    intro r hr
    have := hparse r (hperm.subset hr)
    simpa [rowOf, hf, formatResponse] using this
  rw [this]
  exact hperm.map _

/-- instantiated with the proved reader: no assumption left on the model side (what remains trusted is that
`serde_json::from_str` agrees with it, which the harness checks on every generated record) -/
theorem json_lines_read_back (N : NumOps) (persist : Bool) (sink : FileSink) (queues : List (List Json))
    (schedule : List Nat) (hp : sink.Healthy) (hf : sink.format = .json true)
    (hnum : ∀ r ∈ queues.flatten, numsOk r = true)
    (hdone : ((Run.init sink queues).exec N persist schedule).done = true) :
    ∃ rows : List (List Char),
      ((Run.init sink queues).exec N persist schedule).sink.file = sink.file ++ rows.map record ∧
      (rows.map SinkRead.parse).Perm (queues.flatten.map (fun j => some (SinkRead.eraseBits j))) :=
  json_lines_parse_back N persist sink queues schedule hp hf SinkRead.parse SinkRead.eraseBits
    (fun j hj => SinkRead.parse_compact j (hnum j hj)) hdone

example : SinkRead.parse (compact (.obj [("error", .str "no \"path\"\n"), ("n", .arr [.num "-1.5e+3" 0, .null])]))
    = some (.obj [("error", .str "no \"path\"\n"), ("n", .arr [.num "-1.5e+3" 0, .null])]) :=
  SinkRead.parse_compact _ (by decide)

/-! ## 8. What the non-newline-delimited JSON form does (outside the property, recorded) -/

/-- the "ECMA-404" form: `[` and a newline when the file is created, every record pretty-printed and followed
by a newline only — the `,\n` delimiter is stored in the sink and never written — and `close()` (which
`CompassApp::run` never calls) appends `\n]\n`.  Two records therefore give `[\n{…}\n{…}\n\n]\n`, which is
not JSON; a second appending run lands after the closing bracket. -/
theorem json_array_form_contents (N : NumOps) (a b : Json) :
    ∀ sink, build .append (.json false) none none = .ok sink →
    (match sink.write N a with
      | .ok s1 _ => (match s1.write N b with
        | .ok s2 _ => s2.close.contents
        | _ => [])
      | _ => [])
    = txt "[\n" ++ pretty 0 a ++ ['\n'] ++ pretty 0 b ++ ['\n'] ++ txt "\n]" ++ ['\n'] := by
  intro sink h
  simp only [build, openFile, flushEvery, headerText, initialContents, BuildResult.ok.injEq] at h
  subst h
  simp [FileSink.write, formatResponse, FileSink.close, FileSink.contents, record, finalContents, txt]

/-! ## 9. Paths of every kind, failing devices, close, Combined build (what the code does when things go wrong) -/

/-- `WriteMode::open_file` at every kind of path.  A missing path is created with the header in every mode; a
file: Append keeps it (no second header), Overwrite starts over with the header, Error refuses; a directory
and a path without parent directory cannot be opened (Error refuses the directory: it exists); a device that
refuses writes opens in Append mode (it exists: no header is written) and fails every later write. 
(Restates the model's definition — no proof about the code: the behaviour is tied to the Rust by the differential run.) -/
theorem open_path_spec (f : Format) (c : List Char) :
    (∀ mode, openPath mode f .missing = .ok (headerText f) false) ∧
    openPath .append f (.file c) = .ok c false ∧
    openPath .overwrite f (.file c) = .ok (headerText f) false ∧
    openPath .error f (.file c) = .refused ∧
    openPath .append f .directory = .ioError ∧ openPath .overwrite f .directory = .ioError ∧
    openPath .error f .directory = .refused ∧
    (∀ mode, openPath mode f .noParent = .ioError) ∧
    openPath .append f .full = .ok [] true ∧ openPath .error f .full = .refused := by
  refine ⟨fun mode => rfl, rfl, rfl, rfl, rfl, rfl, rfl, fun mode => rfl, rfl, rfl⟩

/-- on files and missing paths `openPath` is `openFile` (sections 4–6 speak about these) 
(Restates the model's definition — no proof about the code: the behaviour is tied to the Rust by the differential run.) -/
theorem open_path_on_files (mode : WriteMode) (f : Format) (c : List Char) :
    openPath mode f (.file c) = (match openFile mode f (some c) with | some c' => .ok c' false | none => .refused) ∧
    openPath mode f .missing = (match openFile mode f none with | some c' => .ok c' false | none => .refused) := by
  cases mode <;> exact ⟨rfl, rfl⟩

/-- an open that is refused or fails leaves whatever is at the path alone -/
theorem failed_open_leaves_path_alone (mode : WriteMode) (f : Format) (st : PathState)
    (h : openPath mode f st = .refused ∨ openPath mode f st = .ioError) : pathAfterOpen mode f st = st := by
  unfold pathAfterOpen
  cases st <;> cases mode <;> simp_all [openPath] <;> split <;> simp_all

/-- `build` at a path: the sink is healthy exactly when the path is not a write-refusing device; it carries
the configured name and starts on what `open_file` left -/
theorem build_at_spec (mode : WriteMode) (name : String) (f : Format) (rate : Option Int) (st : PathState)
    (s : FileSink) (h : buildAt mode name f rate st = .ok s) :
    ∃ c failing, openPath mode f st = .ok c failing ∧ s.file = [c] ∧ s.failing = failing ∧ s.poisoned = false ∧
      s.name = name ∧ s.format = f ∧ s.iterations = 0 := by
  unfold buildAt at h
  split at h
  · simp at h
  · simp at h
  · rename_i c failing hc
    split at h
    · simp at h
    · simp only [BuildAtResult.ok.injEq] at h
      subst h
      exact ⟨c, failing, hc, rfl, rfl, rfl, rfl, rfl, rfl⟩

/-- a write to a device that refuses it: `write_response` returns an error, nothing reaches the file, the
counter stands still — but the formatter has run, so the response handed back carries its bookkeeping -/
theorem failing_device_write (N : NumOps) (s : FileSink) (r : Json) (hp : s.poisoned = false)
    (hf : s.failing = true) (hw : Writable N s.format r) :
    s.write N r = .ioError s (postOf N s.format r) := by
  unfold FileSink.write
  rw [hp, formatResponse_of_writable hw]
  simp [hf]

/-- hence, whatever the schedule, a batch run on such a device leaves the file as it was and every write
counted as failed -/
theorem failing_device_run (N : NumOps) (persist : Bool) (s : Run) (schedule : List Nat)
    (hp : s.sink.poisoned = false) (hf : s.sink.failing = true)
    (hw : ∀ r ∈ s.queues.flatten, Writable N s.sink.format r) :
    (s.exec N persist schedule).sink = s.sink ∧ (s.exec N persist schedule).returned = s.returned ∧
    (s.exec N persist schedule).failed + (s.exec N persist schedule).queues.flatten.length
      = s.failed + s.queues.flatten.length := by
  induction schedule generalizing s with
  | nil => exact ⟨rfl, rfl, rfl⟩
  | cons w ws ih =>
    have hstep : (s.step N persist w).sink = s.sink ∧ (s.step N persist w).returned = s.returned ∧
        (s.step N persist w).failed + (s.step N persist w).queues.flatten.length
          = s.failed + s.queues.flatten.length := by
      unfold Run.step
      cases hq : s.queues[w]? with
      | none => exact ⟨rfl, rfl, rfl⟩
      | some q =>
        cases q with
        | nil => exact ⟨rfl, rfl, rfl⟩
        | cons r rest =>
          have hperm := flatten_set_perm s.queues w r rest hq
          have hmem : r ∈ s.queues.flatten := hperm.subset (List.mem_cons_self ..)
          simp only [failing_device_write N s.sink r hp hf (hw r hmem)]
          have := hperm.length_eq
          simp only [List.length_cons] at this
          refine ⟨trivial, trivial, ?_⟩
          omega
    obtain ⟨h1, h2, h3⟩ := hstep
    have := ih (s.step N persist w) (by rw [h1]; exact hp) (by rw [h1]; exact hf) (by
      intro r hr
      rw [h1]
      apply hw
      have hq := step_queues N persist s w
      rw [hq] at hr
      unfold drainStep at hr
      split at hr
      · rename_i r0 rest hq0
        exact (flatten_set_perm s.queues w r0 rest hq0).subset (List.mem_cons_of_mem _ hr)
      · exact hr)
    simp only [Run.exec, List.foldl_cons] at this ⊢
    refine ⟨by rw [this.1, h1], by rw [this.2.1, h2], by rw [this.2.2, h3]⟩

/-- **A device that refuses writes fails the run under both persistence policies.**  With at least one
response to write, `run` is an error whether the responses are kept in memory or discarded: both batch
loops propagate the failed write.  (Before /repo 80a5c9a the discard loop dropped the error of every
write — `let _ = fold(..)` — so the run succeeded with nothing handed back and nothing written: the
responses existed nowhere.) -/
theorem failing_device_fails_the_run_under_both_policies (N : NumOps) (sink : FileSink)
    (queues : List (List Json)) (schedule : List Nat) (hp : sink.poisoned = false)
    (hf : sink.failing = true) (hw : ∀ r ∈ queues.flatten, Writable N sink.format r)
    (hdone : Complete queues schedule) (hne : queues.flatten ≠ []) (persist : Bool) :
    appRun N persist sink queues [] schedule = none := by
  obtain ⟨_, _, h3⟩ := failing_device_run N persist (Run.init sink queues) schedule hp hf hw
  rw [done_flatten_nil _ (done_of_complete N persist sink queues schedule hdone)] at h3
  have hpos : 0 < queues.flatten.length := List.length_pos_iff.2 hne
  have : ((Run.init sink queues).exec N persist schedule).failed > 0 := by
    simp only [Run.init, List.length_nil] at h3 ⊢
    omega
  simp [appRun, writeSeq, this]

/-- `close` on a healthy sink appends exactly the closing record (empty for CSV and newline-delimited JSON,
the bracket for the JSON array form) and reports the file name; on a poisoned or failing sink it is an
error and changes nothing.  Nothing else ever writes the closing record: there is no `Drop`. 
(Restates the model's definition — no proof about the code: the behaviour is tied to the Rust by the differential run.) -/
theorem close_spec (s : FileSink) :
    (s.Healthy → s.close.file = s.file ++ [record ((finalContents s.format).getD [])] ∧
      s.closeName = some s.name) ∧
    (¬ s.Healthy → s.close = s ∧ s.closeName = none) := by
  unfold FileSink.Healthy FileSink.close FileSink.closeName
  cases hp : s.poisoned <;> cases hf : s.failing <;> simp

/-- closing a Combined sink whose members are all healthy closes every member and reports the non-empty
names in order -/
theorem close_combined_healthy (ss : List FileSink) (h : ∀ s ∈ ss, s.Healthy) :
    closeCombined ss = (ss.map FileSink.close, some ((ss.map (·.name)).filter (fun n => !n.isEmpty))) := by
  induction ss with
  | nil => rfl
  | cons s ss ih =>
    have hs := ((close_spec s).1 (h s (List.mem_cons_self ..))).2
    simp only [closeCombined, hs, ih (fun x hx => h x (List.mem_cons_of_mem _ hx)), List.map_cons,
      List.filter_cons]
    cases s.name.isEmpty <;> simp

/-- building a Combined policy stops at the first member that cannot be built; the members before it have
been built — their files exist by then — and the members after it are untouched -/
theorem build_all_stops_at_first_failure (before : List Member) (bad : Member) (after : List Member)
    (hgood : ∀ m ∈ before, ∃ s, buildAt .append m.name m.format m.rate m.path = .ok s)
    (hbad : ∀ s, buildAt .append bad.name bad.format bad.rate bad.path ≠ .ok s) :
    buildAll (before ++ bad :: after)
      = (before.map (fun m => pathAfterOpen .append m.format m.path)
          ++ pathAfterOpen .append bad.format bad.path :: after.map (·.path), none) := by
  induction before with
  | nil =>
    cases hb : buildAt .append bad.name bad.format bad.rate bad.path with
    | ok s => exact absurd hb (hbad s)
    | _ => simp [buildAll, hb]
  | cons m ms ih =>
    obtain ⟨s, hs⟩ := hgood m (List.mem_cons_self ..)
    simp only [List.cons_append, buildAll, hs, ih (fun x hx => hgood x (List.mem_cons_of_mem _ hx)),
      List.map_cons]

example :
    let ok : Member := { name := "a.csv", format := .csv [("x", .path "x")] false, rate := none, path := .missing }
    let bad : Member := { name := "nodir/b.json", format := .json true, rate := none, path := .noParent }
    let rate0 : Member := { name := "c.json", format := .json false, rate := some 0, path := .missing }
    (buildAll [ok, bad, ok]).2.isNone = true ∧
    (match (buildAll [ok, bad, ok]).1 with | [.file h, .noParent, .missing] => h == txt "x\n" | _ => false) = true ∧
    (match (buildAll [rate0]).1 with | [.file h] => h == txt "[\n" | _ => false) = true ∧
    (buildAll [ok, ok]).2.isSome = true := by
  decide

end C19
end Compass
