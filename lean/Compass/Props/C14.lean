/-
C14 — interpolated powertrain predictions stay faithful to the underlying model.

Model: `Compass/Model/Interp.lean` (`find_nearest_index`, `linspace`, `Interp1D/2D/3D/ND::linear`,
`Interpolator::{validate_inputs,interpolate}`, `InterpolationSpeedGradeModel::{new,predict}`), tied to
the Rust code by the bit-exact correspondence run of `harness/src/c14.rs`.
All theorems are over an arbitrary linearly ordered field (exact arithmetic; IEEE rounding is in the
trusted base).  `underlying : α → α → α` is the underlying prediction model, an arbitrary function.
-/
import Compass.Proofs.Interp

namespace Compass
namespace C14

open Compass.Interp

set_option linter.unusedSectionVars false

section
variable {α : Type} [Field α] [LinearOrder α] [IsStrictOrderedRing α] [Lit α] [LawfulLit α]

/-! ### cell lookup -/

/-- `find_nearest_index` on a strictly increasing grid with at least two points and a target within
the grid: the index of a cell that brackets the target (also on the upper boundary, also on grid lines) -/
theorem index_brackets (g : List α) (t lo hi : α) (hs : strictlyIncreasing g = true) (hlen : 2 ≤ g.length)
    (hlo : g[0]? = some lo) (hhi : g.getLast? = some hi) (h1 : lo ≤ t) (h2 : t ≤ hi) :
    ∃ i a b, findNearestIndex g t = .ok i ∧ i + 1 < g.length ∧ g[i]? = some a ∧ g[i + 1]? = some b ∧
      a ≤ t ∧ t ≤ b := by
  obtain ⟨l, a, b, hf, ha, hb, hc⟩ := findNearestIndex_spec g t lo hi ⟨hs, hlen⟩ hlo hhi h1 h2
  refine ⟨l, a, b, hf, ?_, ha, hb, ?_⟩
  · by_contra hn
    rw [List.getElem?_eq_none (by omega)] at hb; cases hb
  · rcases hc with ⟨c1, c2⟩ | ⟨_, c1⟩
    · exact ⟨le_of_lt c1, c2⟩
    · subst c1
      exact ⟨le_refl _, le_of_lt (si_lt g hs l (l + 1) _ _ (by omega) ha hb)⟩

/-- the cell lookup never panics and never runs out of fuel — for every grid (empty, one point, unsorted)
and every target: an in-bounds index or an `Err` (a one-point grid used to underflow `arr.len() - 2`) -/
theorem find_nearest_index_never_panics (g : List α) (t : α) :
    (∃ i, findNearestIndex g t = .ok i ∧ i < g.length) ∨ (∃ e, findNearestIndex g t = .err e) :=
  findNearestIndex_graceful g t

/-- with at least two grid points it always returns an in-bounds index -/
theorem index_total (g : List α) (t : α) (hlen : 2 ≤ g.length) : ∃ i, findNearestIndex g t = .ok i ∧ i < g.length :=
  findNearestIndex_ge_two g t hlen

/-! ### the speed/grade model

`hnew` says the model `m` is what `InterpolationSpeedGradeModel::new` returned (so the grid passed the
constructor's validation, which includes "at least two points per axis"); every clause of the property
follows for every such model, every speed, grade and input unit — no further hypothesis. -/

/-- `new` does return a model for increasing bounds and at least two bins (the hypothesis `hnew` of the
theorems below is satisfiable for every such configuration) -/
theorem new_succeeds (underlying : α → α → α) (su : SpeedUnit) (s0 s1 : α) (sb : Nat) (gu : GradeUnit)
    (g0 g1 : α) (gb : Nat) (ru : EnergyRateUnit) (hs : s0 < s1) (hg : g0 < g1) (hsb : 2 ≤ sb)
    (hgb : 2 ≤ gb) :
    ∃ m, SpeedGradeModel.new underlying su s0 s1 sb gu g0 g1 gb ru = .ok m :=
  new_ok underlying su s0 s1 sb gu g0 g1 gb ru hs hg hsb hgb

/-- `new` never panics: for every bound and every bin count (zero and one included) it returns a model
or an error … -/
theorem new_never_panics (underlying : α → α → α) (su : SpeedUnit) (s0 s1 : α) (sb : Nat) (gu : GradeUnit)
    (g0 g1 : α) (gb : Nat) (ru : EnergyRateUnit) :
    (∃ m, SpeedGradeModel.new underlying su s0 s1 sb gu g0 g1 gb ru = .ok m) ∨
      (∃ e, SpeedGradeModel.new underlying su s0 s1 sb gu g0 g1 gb ru = .err e) :=
  new_graceful underlying su s0 s1 sb gu g0 g1 gb ru

/-- … and with fewer than two bins on an axis it is an error (such a grid used to be accepted and every
`predict` on it panicked), so every model `new` returns has at least two bins per axis -/
theorem new_rejects_fewer_than_two_bins (underlying : α → α → α) (su : SpeedUnit) (s0 s1 : α) (sb : Nat)
    (gu : GradeUnit) (g0 g1 : α) (gb : Nat) (ru : EnergyRateUnit) (h : sb < 2 ∨ gb < 2) :
    ∃ e, SpeedGradeModel.new underlying su s0 s1 sb gu g0 g1 gb ru = .err e :=
  new_rejects_short underlying su s0 s1 sb gu g0 g1 gb ru h

/-- the grid `new` builds runs exactly from the lower to the upper bound -/
theorem grid_spans_bounds (x0 xend : α) (n : Nat) (hn : 2 ≤ n) (h : x0 < xend) :
    ∃ xs, linspace x0 xend n = .ok xs ∧ strictlyIncreasing xs = true ∧ xs.length = n ∧
      xs[0]? = some x0 ∧ xs.getLast? = some xend := by
  obtain ⟨xs, h1, h2, h3, h4, h5⟩ := linspace_good x0 xend n hn h
  exact ⟨xs, h1, h2.1, h3, h4, h5⟩

/-- C14: the predicted rate lies between the smallest and the largest underlying-model rate at the four
grid points surrounding the (converted, clamped) input; in particular `predict` never fails -/
theorem bilinear_between_corners (underlying : α → α → α) (su : SpeedUnit) (s0 s1 : α) (sb : Nat)
    (gu : GradeUnit) (g0 g1 : α) (gb : Nat) (ru : EnergyRateUnit) (m : SpeedGradeModel α)
    (hnew : SpeedGradeModel.new underlying su s0 s1 sb gu g0 g1 gb ru = .ok m) (speed : α) (qsu : SpeedUnit) (grade : α) (qgu : GradeUnit) :
    ∃ xs ys i j x0 x1 y0 y1 v,
      linspace s0 s1 sb = .ok xs ∧ linspace g0 g1 gb = .ok ys ∧
      xs[i]? = some x0 ∧ xs[i + 1]? = some x1 ∧ ys[j]? = some y0 ∧ ys[j + 1]? = some y1 ∧
      x0 ≤ clampTo xs (qsu.convert su speed) ∧ clampTo xs (qsu.convert su speed) ≤ x1 ∧
      y0 ≤ clampTo ys (qgu.convert gu grade) ∧ clampTo ys (qgu.convert gu grade) ≤ y1 ∧
      m.predict speed qsu grade qgu = .ok (v, ru) ∧
      min (min (underlying x0 y0) (underlying x1 y0)) (min (underlying x0 y1) (underlying x1 y1)) ≤ v ∧
      v ≤ max (max (underlying x0 y0) (underlying x1 y0)) (max (underlying x0 y1) (underlying x1 y1)) := by
  obtain ⟨xs, ys, hx, hy, hm, sxs, sys, lx, ly, hsb, hgb⟩ := new_inv underlying su s0 s1 sb gu g0 g1 gb ru m hnew
  subst hm
  have gx : GoodGrid xs := ⟨sxs, by omega⟩
  have gy : GoodGrid ys := ⟨sys, by omega⟩
  obtain ⟨i, dx, j, dy, sx, sy, hp⟩ :=
    predict_spec xs ys (sgTable underlying ru xs ys) su gu ru gx gy (sgTable_rect _ _ _ _) speed qsu grade qgu
  have hb := bil_between (F2 (sgTable underlying ru xs ys)) sx sy
  obtain ⟨x0, x1, hx0, hx1, hx01, _, hcx⟩ := sx
  obtain ⟨y0, y1, hy0, hy1, hy01, _, hcy⟩ := sy
  rw [sgTable_F2 underlying ru xs ys i j x0 y0 hx0 hy0, sgTable_F2 underlying ru xs ys (i + 1) j x1 y0 hx1 hy0,
    sgTable_F2 underlying ru xs ys i (j + 1) x0 y1 hx0 hy1,
    sgTable_F2 underlying ru xs ys (i + 1) (j + 1) x1 y1 hx1 hy1] at hb
  refine ⟨xs, ys, i, j, x0, x1, y0, y1, _, hx, hy, hx0, hx1, hy0, hy1, ?_, ?_, ?_, ?_, hp, hb.1, hb.2⟩
  · rcases hcx with ⟨c1, _⟩ | ⟨_, c1⟩
    · exact le_of_lt c1
    · exact le_of_eq c1.symm
  · rcases hcx with ⟨_, c2⟩ | ⟨_, c1⟩
    · exact c2
    · rw [c1]; exact le_of_lt hx01
  · rcases hcy with ⟨c1, _⟩ | ⟨_, c1⟩
    · exact le_of_lt c1
    · exact le_of_eq c1.symm
  · rcases hcy with ⟨_, c2⟩ | ⟨_, c1⟩
    · exact c2
    · rw [c1]; exact le_of_lt hy01

/-- C14: `predict` never fails, whatever the input and its units (inside, on a line, on the boundary,
outside), and reports the model's own rate unit -/
theorem predict_never_fails (underlying : α → α → α) (su : SpeedUnit) (s0 s1 : α) (sb : Nat)
    (gu : GradeUnit) (g0 g1 : α) (gb : Nat) (ru : EnergyRateUnit) (m : SpeedGradeModel α)
    (hnew : SpeedGradeModel.new underlying su s0 s1 sb gu g0 g1 gb ru = .ok m) (speed : α) (qsu : SpeedUnit) (grade : α) (qgu : GradeUnit) :
    ∃ v, m.predict speed qsu grade qgu = .ok (v, ru) := by
  obtain ⟨_, _, _, _, _, _, _, _, v, _, _, _, _, _, _, _, _, _, _, hp, _⟩ :=
    bilinear_between_corners underlying su s0 s1 sb gu g0 g1 gb ru m hnew speed qsu grade qgu
  exact ⟨v, hp⟩

/-- C14: at a grid point (an input that converts to grid values) the prediction is the underlying
model's value at that grid point -/
theorem exact_on_grid (underlying : α → α → α) (su : SpeedUnit) (s0 s1 : α) (sb : Nat)
    (gu : GradeUnit) (g0 g1 : α) (gb : Nat) (ru : EnergyRateUnit) (m : SpeedGradeModel α)
    (hnew : SpeedGradeModel.new underlying su s0 s1 sb gu g0 g1 gb ru = .ok m) (xs ys : List α) (hxs : linspace s0 s1 sb = .ok xs) (hys : linspace g0 g1 gb = .ok ys)
    (i j : Nat) (x y : α) (hi : xs[i]? = some x) (hj : ys[j]? = some y)
    (speed : α) (qsu : SpeedUnit) (grade : α) (qgu : GradeUnit)
    (hs : qsu.convert su speed = x) (hg : qgu.convert gu grade = y) :
    m.predict speed qsu grade qgu = .ok (underlying x y, ru) := by
  obtain ⟨xs', ys', hx, hy, hm, sxs, sys, lx, ly, hsb, hgb⟩ := new_inv underlying su s0 s1 sb gu g0 g1 gb ru m hnew
  rw [hxs] at hx; rw [hys] at hy; cases hx; cases hy
  subst hm
  have gx : GoodGrid xs := ⟨sxs, by omega⟩
  have gy : GoodGrid ys := ⟨sys, by omega⟩
  obtain ⟨lx', dx, ly', dy, sx, sy, hp⟩ :=
    predict_spec xs ys (sgTable underlying ru xs ys) su gu ru gx gy (sgTable_rect _ _ _ _) speed qsu grade qgu
  rw [hp]
  have ix : InAxis xs x := by
    obtain ⟨lo, hi', h0, _, hl, _⟩ := good_first_last gx
    exact ⟨lo, hi', h0, hl, si_le xs sxs 0 i lo x (by omega) h0 hi,
      si_le xs sxs i (xs.length - 1) x hi' (by
        have : i < xs.length := by
          by_contra hn
          rw [List.getElem?_eq_none (by omega)] at hi; cases hi
        omega) hi (by rw [← getLast?_eq_getElem?]; exact hl)⟩
  have iy : InAxis ys y := by
    obtain ⟨lo, hi', h0, _, hl, _⟩ := good_first_last gy
    exact ⟨lo, hi', h0, hl, si_le ys sys 0 j lo y (by omega) h0 hj,
      si_le ys sys j (ys.length - 1) y hi' (by
        have : j < ys.length := by
          by_contra hn
          rw [List.getElem?_eq_none (by omega)] at hj; cases hj
        omega) hj (by rw [← getLast?_eq_getElem?]; exact hl)⟩
  rw [hs, clampTo_of_inAxis ix] at sx
  rw [hg, clampTo_of_inAxis iy] at sy
  rw [bil_on_grid _ sx sy sxs sys i j hi hj, sgTable_F2 underlying ru xs ys i j x y hi hj]

/-- the bilinear formula on the closed cell `[x0,x1] × [y0,y1]`, written with the underlying model's
values at the four corners -/
def cellValue (underlying : α → α → α) (x0 x1 y0 y1 p q : α) : α :=
  lerp (lerp (underlying x0 y0) (underlying x1 y0) ((p - x0) / (x1 - x0)))
    (lerp (underlying x0 y1) (underlying x1 y1) ((p - x0) / (x1 - x0))) ((q - y0) / (y1 - y0))

/-- C14 (continuity across cell borders, discrete content): the prediction equals the bilinear formula
of *every* grid cell whose closed rectangle contains the input — so on a common border (or corner) all
adjacent cells give the same value, and the piecewise-bilinear pieces (each continuous on its closed
cell) paste together continuously -/
theorem continuous_across_cells (underlying : α → α → α) (su : SpeedUnit) (s0 s1 : α) (sb : Nat)
    (gu : GradeUnit) (g0 g1 : α) (gb : Nat) (ru : EnergyRateUnit) (m : SpeedGradeModel α)
    (hnew : SpeedGradeModel.new underlying su s0 s1 sb gu g0 g1 gb ru = .ok m) (xs ys : List α) (hxs : linspace s0 s1 sb = .ok xs) (hys : linspace g0 g1 gb = .ok ys)
    (i j : Nat) (x0 x1 y0 y1 : α) (hx0 : xs[i]? = some x0) (hx1 : xs[i + 1]? = some x1)
    (hy0 : ys[j]? = some y0) (hy1 : ys[j + 1]? = some y1)
    (speed : α) (qsu : SpeedUnit) (grade : α) (qgu : GradeUnit)
    (h1 : x0 ≤ qsu.convert su speed) (h2 : qsu.convert su speed ≤ x1)
    (h3 : y0 ≤ qgu.convert gu grade) (h4 : qgu.convert gu grade ≤ y1) :
    m.predict speed qsu grade qgu =
      .ok (cellValue underlying x0 x1 y0 y1 (qsu.convert su speed) (qgu.convert gu grade), ru) := by
  obtain ⟨xs', ys', hx, hy, hm, sxs, sys, lx, ly, hsb, hgb⟩ := new_inv underlying su s0 s1 sb gu g0 g1 gb ru m hnew
  rw [hxs] at hx; rw [hys] at hy; cases hx; cases hy
  subst hm
  have gx : GoodGrid xs := ⟨sxs, by omega⟩
  have gy : GoodGrid ys := ⟨sys, by omega⟩
  obtain ⟨lx', dx, ly', dy, sx, sy, hp⟩ :=
    predict_spec xs ys (sgTable underlying ru xs ys) su gu ru gx gy (sgTable_rect _ _ _ _) speed qsu grade qgu
  rw [hp]
  have hi1 : i + 1 < xs.length := by
    by_contra hn
    rw [List.getElem?_eq_none (by omega)] at hx1; cases hx1
  have hj1 : j + 1 < ys.length := by
    by_contra hn
    rw [List.getElem?_eq_none (by omega)] at hy1; cases hy1
  have ix : InAxis xs (qsu.convert su speed) := by
    obtain ⟨lo, hi', h0, _, hl, _⟩ := good_first_last gx
    exact ⟨lo, hi', h0, hl, le_trans (si_le xs sxs 0 i lo x0 (by omega) h0 hx0) h1,
      le_trans h2 (si_le xs sxs (i + 1) (xs.length - 1) x1 hi' (by omega) hx1
        (by rw [← getLast?_eq_getElem?]; exact hl))⟩
  have iy : InAxis ys (qgu.convert gu grade) := by
    obtain ⟨lo, hi', h0, _, hl, _⟩ := good_first_last gy
    exact ⟨lo, hi', h0, hl, le_trans (si_le ys sys 0 j lo y0 (by omega) h0 hy0) h3,
      le_trans h4 (si_le ys sys (j + 1) (ys.length - 1) y1 hi' (by omega) hy1
        (by rw [← getLast?_eq_getElem?]; exact hl))⟩
  rw [clampTo_of_inAxis ix] at sx
  rw [clampTo_of_inAxis iy] at sy
  rw [bil_indep _ sx sy sxs sys i j x0 x1 y0 y1 hx0 hx1 hy0 hy1 h1 h2 h3 h4]
  unfold bil cellValue
  rw [sgTable_F2 underlying ru xs ys i j x0 y0 hx0 hy0, sgTable_F2 underlying ru xs ys (i + 1) j x1 y0 hx1 hy0,
    sgTable_F2 underlying ru xs ys i (j + 1) x0 y1 hx0 hy1,
    sgTable_F2 underlying ru xs ys (i + 1) (j + 1) x1 y1 hx1 hy1]

/-- … spelled out for a common border: on the grid line `x1` the cell to its left and the cell to its
right give the same value (same for grade by symmetry of the statement above) -/
theorem border_values_agree (underlying : α → α → α) (x0 x1 x2 y0 y1 q : α) (h01 : x0 < x1) (_h12 : x1 < x2) :
    cellValue underlying x0 x1 y0 y1 x1 q = cellValue underlying x1 x2 y0 y1 x1 q := by
  unfold cellValue
  have e1 : (x1 - x0) / (x1 - x0) = 1 := div_self (ne_of_gt (by linarith))
  have e2 : (x1 - x1) / (x2 - x1) = 0 := by simp
  rw [e1, e2]
  simp [lerp_zero, lerp_one]

/-- C14: an input outside the grid is treated as the nearest grid boundary: the prediction equals the
prediction at the clamped point (given in the model's own units) … -/
theorem clamp_outside (underlying : α → α → α) (su : SpeedUnit) (s0 s1 : α) (sb : Nat)
    (gu : GradeUnit) (g0 g1 : α) (gb : Nat) (ru : EnergyRateUnit) (m : SpeedGradeModel α)
    (hnew : SpeedGradeModel.new underlying su s0 s1 sb gu g0 g1 gb ru = .ok m) (xs ys : List α) (hxs : linspace s0 s1 sb = .ok xs) (hys : linspace g0 g1 gb = .ok ys)
    (speed : α) (qsu : SpeedUnit) (grade : α) (qgu : GradeUnit) :
    m.predict speed qsu grade qgu =
      m.predict (clampTo xs (qsu.convert su speed)) su (clampTo ys (qgu.convert gu grade)) gu := by
  obtain ⟨xs', ys', hx, hy, hm, sxs, sys, lx, ly, hsb, hgb⟩ := new_inv underlying su s0 s1 sb gu g0 g1 gb ru m hnew
  rw [hxs] at hx; rw [hys] at hy; cases hx; cases hy
  subst hm
  have gx : GoodGrid xs := ⟨sxs, by omega⟩
  have gy : GoodGrid ys := ⟨sys, by omega⟩
  obtain ⟨lox, hix, _, hhx, hlx, _⟩ := good_first_last gx
  obtain ⟨loy, hiy, _, hhy, hly, _⟩ := good_first_last gy
  have ex : ∀ v, fmin (fmax v lox) hix = clampTo xs v := by
    intro v; simp [clampTo, hhx, hlx]
  have ey : ∀ v, fmin (fmax v loy) hiy = clampTo ys v := by
    intro v; simp [clampTo, hhy, hly]
  unfold SpeedGradeModel.predict
  simp only [hhx, hlx, hhy, hly, speed_convert_self, grade_convert_self, ex, ey, clampTo_idem gx,
    clampTo_idem gy]

/-- … and the clamped point is the first grid value below the grid, the last above it, and the point
itself inside -/
theorem clamp_is_nearest_boundary (g : List α) (hs : strictlyIncreasing g = true) (hlen : 2 ≤ g.length)
    (lo hi v : α) (hlo : g[0]? = some lo) (hhi : g.getLast? = some hi) :
    (v ≤ lo → clampTo g v = lo) ∧ (hi ≤ v → clampTo g v = hi) ∧ (lo ≤ v → v ≤ hi → clampTo g v = v) :=
  ⟨clampTo_below ⟨hs, hlen⟩ v lo hlo, clampTo_above ⟨hs, hlen⟩ v hi hhi,
    fun h1 h2 => clampTo_of_inAxis ⟨lo, hi, hlo, hhi, h1, h2⟩⟩

/-! ### the generic interpolators: multilinear functions are reproduced exactly -/

/-- 1-D: data sampled from `c0 + c1·x` -/
theorem multilinear_exact_1d (x f : List α) (hv : validate1 x f = .ok ()) (hlen : 2 ≤ x.length)
    (c0 c1 : α) (hF : ∀ (i : Nat) (xi : α), x[i]? = some xi → f[i]? = some (c0 + c1 * xi))
    (p : α) (hp : InAxis x p) :
    Interpolator.interpolate (.d1 x f) [p] .linear = .ok (c0 + c1 * p) := by
  have hs := validate1_ok hv
  obtain ⟨l, d, _, sl, hl⟩ := linear1_ok x f p ⟨hs.1, hlen⟩ hs.2 hp
  rw [interpolate_d1_in x f p hp, hl, sl.affine (F1 f) c1 c0]
  · congr 1; ring
  · intro i xi hi
    simp only [F1, List.getD_eq_getElem?_getD, hF i xi hi, Option.getD_some]
    ring

/-- 2-D: data sampled from `c0 + c1·x + c2·y + c3·x·y` -/
theorem multilinear_exact_2d (x y : List α) (f : List (List α)) (hv : validate2 x y f = .ok ())
    (c0 c1 c2 c3 : α)
    (hF : ∀ i j xi yj, x[i]? = some xi → y[j]? = some yj →
      idx2 f i j = .ok (c0 + c1 * xi + c2 * yj + c3 * xi * yj))
    (p0 p1 : α) (h0 : InAxis x p0) (h1 : InAxis y p1) :
    Interpolator.interpolate (.d2 x y f) [p0, p1] .linear =
      .ok (c0 + c1 * p0 + c2 * p1 + c3 * p0 * p1) := by
  obtain ⟨hlx, hly, sx, sy, hr⟩ := (validate2_ok_iff x y f).mp hv
  obtain ⟨lx, dx, ly, dy, _, _, selx, sely, hl⟩ := linear2_ok x y f p0 p1 ⟨sx, hlx⟩ ⟨sy, hly⟩ hr h0 h1
  rw [interpolate_d2_in x y f p0 p1 h0 h1, hl, bil_affine (F2 f) selx sely c0 c1 c2 c3]
  intro i j xi yj hi hj
  have hi' : i < x.length := by
    by_contra hn
    rw [List.getElem?_eq_none (by omega)] at hi; cases hi
  have hj' : j < y.length := by
    by_contra hn
    rw [List.getElem?_eq_none (by omega)] at hj; cases hj
  have := hF i j xi yj hi hj
  rw [idx2_ok hr hi' hj'] at this
  exact Res.ok.inj this

/-- 3-D: data sampled from the general trilinear polynomial (8 coefficients) -/
theorem multilinear_exact_3d (x y z : List α) (f : List (List (List α)))
    (hv : validate3 x y z f = .ok ()) (c0 c1 c2 c3 c4 c5 c6 c7 : α)
    (hF : ∀ i j k xi yj zk, x[i]? = some xi → y[j]? = some yj → z[k]? = some zk →
      idx3 f i j k = .ok (c0 + c1 * xi + c2 * yj + c3 * xi * yj + c4 * zk + c5 * xi * zk + c6 * yj * zk
        + c7 * xi * yj * zk))
    (p0 p1 p2 : α) (h0 : InAxis x p0) (h1 : InAxis y p1) (h2 : InAxis z p2) :
    Interpolator.interpolate (.d3 x y z f) [p0, p1, p2] .linear =
      .ok (c0 + c1 * p0 + c2 * p1 + c3 * p0 * p1 + c4 * p2 + c5 * p0 * p2 + c6 * p1 * p2
        + c7 * p0 * p1 * p2) := by
  obtain ⟨⟨hlx, hly, hlz⟩, hx, hy, hz, hr⟩ := validate3_ok hv
  obtain ⟨lx, dx, ly, dy, lz, dz, _, _, _, selx, sely, selz, hl⟩ :=
    linear3_ok x y z f p0 p1 p2 ⟨hx, hlx⟩ ⟨hy, hly⟩ ⟨hz, hlz⟩ hr h0 h1 h2
  rw [interpolate_d3_in x y z f p0 p1 p2 h0 h1 h2, hl,
    tril_affine (F3 f) selx sely selz c0 c1 c2 c3 c4 c5 c6 c7]
  intro i j k xi yj zk hi hj hk
  have hi' : i < x.length := by
    by_contra hn
    rw [List.getElem?_eq_none (by omega)] at hi; cases hi
  have hj' : j < y.length := by
    by_contra hn
    rw [List.getElem?_eq_none (by omega)] at hj; cases hj
  have hk' : k < z.length := by
    by_contra hn
    rw [List.getElem?_eq_none (by omega)] at hk; cases hk
  have := hF i j k xi yj zk hi hj hk
  rw [idx3_ok hr hi' hj' hk'] at this
  exact Res.ok.inj this

/-- the hypotheses on the grids in the N-D theorems below are what `InterpND::new` checks, plus the
property's "at least two points per axis" -/
theorem nd_new_gives_valid_grids (m : ND α) (hv : validateN m = .ok ()) (h2 : ∀ s ∈ m.shape, 2 ≤ s)
    (hne : m.shape ≠ []) :
    List.Forall₂ (fun g s => (strictlyIncreasing g = true ∧ 2 ≤ g.length) ∧ g.length = s) m.grid m.shape :=
  validateN_grids m hv h2 hne

/-- N-D, by induction on the dimension: data sampled from any function `M` of the coordinates that is
affine in each coordinate separately (the multilinear polynomials) is reproduced exactly, in any number of
dimensions (`coords m.grid ix` are the grid coordinates of the index list `ix`) -/
theorem multilinear_exact_nd (m : ND α) (M : List α → α) (hM : MultiAffine M)
    (hgrids : List.Forall₂ (fun g s => (strictlyIncreasing g = true ∧ 2 ≤ g.length) ∧ g.length = s) m.grid m.shape)
    (hget : ∀ ix, List.Forall₂ (· < ·) ix m.shape → m.get ix = .ok (M (coords m.grid ix)))
    (pt : List α) (hp : List.Forall₂ InAxis m.grid pt) :
    Interpolator.interpolate (.dn m) pt .linear = .ok (M pt) := by
  have V : ValidND m (fun ix => M (coords m.grid ix)) := ⟨hgrids, hget⟩
  obtain ⟨h1, h2, h3, h4⟩ := quads_spec m.grid m.shape pt hgrids hp
  rw [interpolate_dn_in m _ pt V hp, linearN_ok m _ pt V hp, h1]
  have := ndValRev_multiaffine M hM (quads m.grid pt).reverse
    (fun q hq => h4 q (List.mem_reverse.mp hq)) [] []
  simp only [List.map_reverse, List.reverse_reverse, List.append_nil, h2, h3, coords] at this
  rw [this]

/-- the multi-affine functions include every multilinear polynomial, e.g. in two dimensions -/
theorem multiAffine_bilinear (c0 c1 c2 c3 : α) :
    MultiAffine (fun (v : List α) => c0 + c1 * v.getD 0 0 + c2 * v.getD 1 0 + c3 * v.getD 0 0 * v.getD 1 0) := by
  intro pre post a b t
  match pre with
  | [] => simp; ring
  | [x] => simp; ring
  | x :: y :: r => simp; ring

/-! ### the N-D interpolator agrees with the 1-D / 2-D / 3-D ones on the same data

`nd1 / nd2 / nd3` are the N-D interpolators over the same grid and the same values stored row-major (what
`ArrayD::from_shape_vec` holds); agreement is for every point, inside (same value) and outside (both reject). -/

theorem nd_agrees_1d (x f : List α) (hv : validate1 x f = .ok ()) (hlen : 2 ≤ x.length) (p : α) :
    Interpolator.interpolate (.dn (nd1 x f)) [p] .linear = Interpolator.interpolate (.d1 x f) [p] .linear := by
  obtain ⟨hs, hf⟩ := validate1_ok hv
  have V := nd1_valid x f ⟨hs, hlen⟩ hf
  have hx : x ≠ [] := by intro h; rw [h] at hlen; simp at hlen
  by_cases h : InAxis x p
  · have hp : List.Forall₂ InAxis (nd1 x f).grid [p] := List.Forall₂.cons h List.Forall₂.nil
    obtain ⟨l, d, hc, _, hl⟩ := linear1_ok x f p ⟨hs, hlen⟩ hf h
    rw [interpolate_dn_in _ _ _ V hp, linearN_ok _ _ _ V hp, interpolate_d1_in x f p h, hl]
    simp [nd1, triples, selOf_eq hc, ndValRev, G1]
  · rw [interpolate_d1_out x f p _ hx h, interpolate_dn_out _ _ _ _ V rfl]
    intro hp
    cases hp with
    | cons a _ => exact h a

theorem nd_agrees_2d (x y : List α) (f : List (List α)) (hv : validate2 x y f = .ok ()) (p0 p1 : α) :
    Interpolator.interpolate (.dn (nd2 x y f)) [p0, p1] .linear =
      Interpolator.interpolate (.d2 x y f) [p0, p1] .linear := by
  obtain ⟨hlx, hly, sx, sy, hr⟩ := (validate2_ok_iff x y f).mp hv
  have hxne : x ≠ [] := by intro h; rw [h] at hlx; simp at hlx
  have hyne : y ≠ [] := by intro h; rw [h] at hly; simp at hly
  have V := nd2_valid x y f ⟨sx, hlx⟩ ⟨sy, hly⟩ hr
  by_cases h : InAxis x p0 ∧ InAxis y p1
  · have hp : List.Forall₂ InAxis (nd2 x y f).grid [p0, p1] :=
      List.Forall₂.cons h.1 (List.Forall₂.cons h.2 List.Forall₂.nil)
    obtain ⟨lx, dx, ly, dy, hcx, hcy, _, _, hl⟩ := linear2_ok x y f p0 p1 ⟨sx, hlx⟩ ⟨sy, hly⟩ hr h.1 h.2
    rw [interpolate_dn_in _ _ _ V hp, linearN_ok _ _ _ V hp, interpolate_d2_in x y f p0 p1 h.1 h.2, hl]
    simp [nd2, triples, selOf_eq hcx, selOf_eq hcy, ndValRev, G2, bil]
  · rw [interpolate_d2_out x y f p0 p1 _ hxne hyne h, interpolate_dn_out _ _ _ _ V rfl]
    intro hp
    cases hp with
    | cons a rest =>
      cases rest with
      | cons b _ => exact h ⟨a, b⟩

theorem nd_agrees_3d (x y z : List α) (f : List (List (List α))) (hv : validate3 x y z f = .ok ())
    (p0 p1 p2 : α) :
    Interpolator.interpolate (.dn (nd3 x y z f)) [p0, p1, p2] .linear =
      Interpolator.interpolate (.d3 x y z f) [p0, p1, p2] .linear := by
  obtain ⟨⟨hlx, hly, hlz⟩, hx, hy, hz, hr⟩ := validate3_ok hv
  have V := nd3_valid x y z f ⟨hx, hlx⟩ ⟨hy, hly⟩ ⟨hz, hlz⟩ hr
  have hxne : x ≠ [] := by intro h; rw [h] at hlx; simp at hlx
  have hyne : y ≠ [] := by intro h; rw [h] at hly; simp at hly
  have hzne : z ≠ [] := by intro h; rw [h] at hlz; simp at hlz
  by_cases h : InAxis x p0 ∧ InAxis y p1 ∧ InAxis z p2
  · have hp : List.Forall₂ InAxis (nd3 x y z f).grid [p0, p1, p2] :=
      List.Forall₂.cons h.1 (List.Forall₂.cons h.2.1 (List.Forall₂.cons h.2.2 List.Forall₂.nil))
    obtain ⟨lx, dx, ly, dy, lz, dz, hcx, hcy, hcz, _, _, _, hl⟩ :=
      linear3_ok x y z f p0 p1 p2 ⟨hx, hlx⟩ ⟨hy, hly⟩ ⟨hz, hlz⟩ hr h.1 h.2.1 h.2.2
    rw [interpolate_dn_in _ _ _ V hp, linearN_ok _ _ _ V hp,
      interpolate_d3_in x y z f p0 p1 p2 h.1 h.2.1 h.2.2, hl]
    simp [nd3, triples, selOf_eq hcx, selOf_eq hcy, selOf_eq hcz, ndValRev, G3, tril, bil]
  · rw [interpolate_d3_out x y z f p0 p1 p2 _ hxne hyne hzne h, interpolate_dn_out _ _ _ _ V rfl]
    intro hp
    cases hp with
    | cons a rest =>
      cases rest with
      | cons b rest2 =>
        cases rest2 with
        | cons c _ => exact h ⟨a, b, c⟩

/-! ### the generic interpolators reject points outside their grid -/

theorem rejects_outside_1d (x f : List α) (hx : x ≠ []) (p : α) (s : Strategy) (h : ¬ InAxis x p) :
    Interpolator.interpolate (.d1 x f) [p] s = .err .outside :=
  interpolate_d1_out x f p s hx h

theorem rejects_outside_2d (x y : List α) (f : List (List α)) (hx : x ≠ []) (hy : y ≠ [])
    (p0 p1 : α) (s : Strategy) (h : ¬ (InAxis x p0 ∧ InAxis y p1)) :
    Interpolator.interpolate (.d2 x y f) [p0, p1] s = .err .outside :=
  interpolate_d2_out x y f p0 p1 s hx hy h

theorem rejects_outside_3d (x y z : List α) (f : List (List (List α))) (hx : x ≠ []) (hy : y ≠ [])
    (hz : z ≠ []) (p0 p1 p2 : α) (s : Strategy) (h : ¬ (InAxis x p0 ∧ InAxis y p1 ∧ InAxis z p2)) :
    Interpolator.interpolate (.d3 x y z f) [p0, p1, p2] s = .err .outside :=
  interpolate_d3_out x y z f p0 p1 p2 s hx hy hz h

/-- N-D: a point of the right dimensionality with some coordinate outside its axis is rejected -/
theorem rejects_outside_nd (m : ND α) (G : List Nat → α)
    (hgrids : List.Forall₂ (fun g s => (strictlyIncreasing g = true ∧ 2 ≤ g.length) ∧ g.length = s) m.grid m.shape)
    (hget : ∀ ix, List.Forall₂ (· < ·) ix m.shape → m.get ix = .ok (G ix))
    (pt : List α) (s : Strategy) (hl : pt.length = m.grid.length) (h : ¬ List.Forall₂ InAxis m.grid pt) :
    Interpolator.interpolate (.dn m) pt s = .err .outside :=
  interpolate_dn_out m G pt s ⟨hgrids, hget⟩ hl h

end

/-! ### repaired defects, now theorems for all inputs

Before the repairs (`fixed:` lines of known_findings.txt) these were `…_counterexample` theorems on the
faithful model; the witnesses stay below as regression examples. -/

section
variable {α : Type} [Field α] [LinearOrder α] [IsStrictOrderedRing α] [Lit α] [LawfulLit α]

/-- every 2-D interpolator `Interp2D::new` accepts has at least two points on each axis, and
`Interpolator::interpolate` on it never panics: a value or an `Err` for every point (any length, inside,
on the boundary, outside) and every strategy -/
theorem validated_interpolation_never_panics_2d (x y : List α) (f : List (List α))
    (hv : validate2 x y f = .ok ()) (pt : List α) (s : Strategy) :
    (2 ≤ x.length ∧ 2 ≤ y.length) ∧
      ((∃ v, Interpolator.interpolate (.d2 x y f) pt s = .ok v) ∨
        (∃ e, Interpolator.interpolate (.d2 x y f) pt s = .err e)) := by
  obtain ⟨hlx, hly, _⟩ := (validate2_ok_iff x y f).mp hv
  exact ⟨⟨hlx, hly⟩, interpolate_d2_graceful x y f hv pt s⟩

/-- the same in three dimensions -/
theorem validated_interpolation_never_panics_3d (x y z : List α) (f : List (List (List α)))
    (hv : validate3 x y z f = .ok ()) (pt : List α) (s : Strategy) :
    (2 ≤ x.length ∧ 2 ≤ y.length ∧ 2 ≤ z.length) ∧
      ((∃ v, Interpolator.interpolate (.d3 x y z f) pt s = .ok v) ∨
        (∃ e, Interpolator.interpolate (.d3 x y z f) pt s = .err e)) :=
  ⟨(validate3_ok hv).1, interpolate_d3_graceful x y z f hv pt s⟩

/-- the 2-D and 3-D constructors themselves never panic -/
theorem new_2d_3d_never_panic (x y z : List α) (f2 : List (List α)) (f3 : List (List (List α))) :
    (validate2 x y f2 = .ok () ∨ ∃ e, validate2 x y f2 = .err e) ∧
      (validate3 x y z f3 = .ok () ∨ ∃ e, validate3 x y z f3 = .err e) :=
  ⟨validate2_graceful x y f2, validate3_graceful x y z f3⟩

/-- `InterpND::new` never panics: for every grid vector (short, empty, with empty axes) and every shape it
accepts or returns an error -/
theorem nd_new_never_panics (m : ND α) : validateN m = .ok () ∨ ∃ e, validateN m = .err e :=
  validateN_graceful m

end

/-! ### loading: `load_prediction_model`, `SmartcoreSpeedGradeModel`, `PredictionModelRecord`

`rf` is the random forest (any function of speed and grade in the model's units). -/

section
variable {α : Type} [Field α] [LinearOrder α] [IsStrictOrderedRing α] [Lit α] [LawfulLit α]

/-- `SmartcoreSpeedGradeModel::predict` is the forest at the inputs converted to the model's units, tagged
with the model's rate unit; with the model's own units the inputs are passed through unchanged -/
theorem smartcore_predict_def (rf : α → α → α) (su : SpeedUnit) (gu : GradeUnit) (ru : EnergyRateUnit)
    (speed : α) (qsu : SpeedUnit) (grade : α) (qgu : GradeUnit) :
    smartcorePredict rf su gu ru speed qsu grade qgu
        = .ok (rf (qsu.convert su speed) (qgu.convert gu grade), ru) ∧
      smartcorePredict rf su gu ru speed su grade gu = .ok (rf speed grade, ru) := by
  refine ⟨rfl, ?_⟩
  simp [smartcorePredict, speed_convert_self, grade_convert_self]

/-- an unreadable model file is a build error for every model type, nested ones included … -/
theorem load_rejects_unreadable_file (rf : α → α → α) (mt : ModelType α) (su : SpeedUnit) (gu : GradeUnit)
    (ru : EnergyRateUnit) (ideal adj : Option α) :
    loadPredictionModel rf false mt su gu ru ideal adj = .err .build :=
  load_unreadable rf mt su gu ru ideal adj

/-- … and so is an ONNX model type anywhere in the configuration (the feature is off) -/
theorem load_rejects_onnx (rf : α → α → α) (fileOk : Bool) (mt : ModelType α) (h : mt.hasOnnx = true)
    (su : SpeedUnit) (gu : GradeUnit) (ru : EnergyRateUnit) (ideal adj : Option α) :
    loadPredictionModel rf fileOk mt su gu ru ideal adj = .err .build :=
  load_onnx rf fileOk mt h su gu ru ideal adj

/-- the `Smartcore` arm always loads a readable file: the record carries the configured units, the
smartcore model, the configured ideal rate — or, when none is configured, a rate that is at most every
prediction of the 20..79 mph sweep — and the configured adjustment, or 1 -/
theorem load_smartcore (rf : α → α → α) (su : SpeedUnit) (gu : GradeUnit) (ru : EnergyRateUnit)
    (ideal adj : Option α) :
    ∃ r, loadPredictionModel rf true .smartcore su gu ru ideal adj = .ok r ∧
      r.model = smartcorePredict rf su gu ru ∧ r.speedUnit = su ∧ r.gradeUnit = gu ∧
      r.energyRateUnit = ru ∧
      r.realWorldEnergyAdjustment = (match adj with | some a => a | none => 1) ∧
      (∀ x, ideal = some x → r.idealEnergyRate = x) ∧
      (ideal = none → ∀ i ∈ sweepSpeeds, ∀ v u,
        r.model (ofNat i) .milesPerHour (zero : α) .percent = .ok (v, u) → r.idealEnergyRate ≤ v) := by
  rw [load_smartcore_eq]
  cases ideal with
  | some x =>
    refine ⟨_, rfl, rfl, rfl, rfl, rfl, ?_, ?_, ?_⟩
    · cases adj <;> simp
    · intro y hy; cases hy; rfl
    · intro h; cases h
  | none =>
    obtain ⟨v, hv, _, hall⟩ := findMinEnergyRateFrom_spec (smartcorePredict rf su gu ru)
      (smartcorePredict_total rf su gu ru) sweepSpeeds f64Max
    refine ⟨{ model := smartcorePredict rf su gu ru, speedUnit := su, gradeUnit := gu, energyRateUnit := ru,
              idealEnergyRate := v,
              realWorldEnergyAdjustment := match adj with | some a => a | none => one }, ?_, rfl, rfl, rfl,
            rfl, ?_, ?_, ?_⟩
    · simp only [findMinEnergyRate, hv]; rfl
    · cases adj <;> simp
    · intro y hy; cases hy
    · intro _ i hi w u hw; exact hall i hi w u hw

/-- the `Interpolate` arm over a forest builds exactly `InterpolationSpeedGradeModel::new` over that forest
with the configured speed bounds / bins and grade bounds / bins in their places — so every theorem of the
speed/grade section (between corners, exact on grid, continuity, clamping, never fails) holds for the
loaded model with `underlying := rf` -/
theorem load_interpolate_is_new (rf : α → α → α) (su : SpeedUnit) (gu : GradeUnit) (ru : EnergyRateUnit)
    (s0 s1 : α) (sb : Nat) (g0 g1 : α) (gb : Nat) (ideal adj : Option α) (r : Record α)
    (h : loadPredictionModel rf true (.interpolate .smartcore s0 s1 sb g0 g1 gb) su gu ru ideal adj = .ok r) :
    ∃ m, SpeedGradeModel.new rf su s0 s1 sb gu g0 g1 gb ru = .ok m ∧ r.model = m.predict ∧
      r.speedUnit = su ∧ r.gradeUnit = gu ∧ r.energyRateUnit = ru ∧
      r.realWorldEnergyAdjustment = (match adj with | some a => a | none => 1) ∧
      (∀ x, ideal = some x → r.idealEnergyRate = x) ∧
      (ideal = none → ∀ i ∈ sweepSpeeds, ∀ v u,
        r.model (ofNat i) .milesPerHour (zero : α) .percent = .ok (v, u) → r.idealEnergyRate ≤ v) := by
  rw [load_interpolate_smartcore_eq] at h
  obtain ⟨m, hm, h⟩ := Res.bind_eq_ok h
  have htot : ∀ s qsu g qgu, ∃ v u, m.predict s qsu g qgu = .ok (v, u) := by
    intro s qsu g qgu
    obtain ⟨v, hv⟩ := predict_never_fails rf su s0 s1 sb gu g0 g1 gb ru m hm s qsu g qgu
    exact ⟨v, ru, hv⟩
  refine ⟨m, hm, ?_⟩
  cases ideal with
  | some x =>
    simp only [Res.ok_bind, Res.ok.injEq] at h
    subst h
    refine ⟨rfl, rfl, rfl, rfl, ?_, ?_, ?_⟩
    · cases adj <;> simp
    · intro y hy; cases hy; rfl
    · intro h; cases h
  | none =>
    obtain ⟨v, hv, _, hall⟩ := findMinEnergyRateFrom_spec m.predict htot sweepSpeeds f64Max
    simp only [findMinEnergyRate, hv, Res.ok_bind, Res.ok.injEq] at h
    subst h
    refine ⟨rfl, rfl, rfl, rfl, ?_, ?_, ?_⟩
    · cases adj <;> simp
    · intro y hy; cases hy
    · intro _ i hi w u hw; exact hall i hi w u hw

/-- and it loads whenever the bounds increase and there are at least two bins per axis; with fewer bins it
is an error, never a panic -/
theorem load_interpolate_succeeds (rf : α → α → α) (su : SpeedUnit) (gu : GradeUnit) (ru : EnergyRateUnit)
    (s0 s1 : α) (sb : Nat) (g0 g1 : α) (gb : Nat) (ideal adj : Option α) :
    (s0 < s1 → g0 < g1 → 2 ≤ sb → 2 ≤ gb →
      ∃ r, loadPredictionModel rf true (.interpolate .smartcore s0 s1 sb g0 g1 gb) su gu ru ideal adj = .ok r) ∧
    (sb < 2 ∨ gb < 2 →
      ∃ e, loadPredictionModel rf true (.interpolate .smartcore s0 s1 sb g0 g1 gb) su gu ru ideal adj = .err e) := by
  constructor
  · intro hs hg hsb hgb
    obtain ⟨m, hm⟩ := new_ok rf su s0 s1 sb gu g0 g1 gb ru hs hg hsb hgb
    rw [load_interpolate_smartcore_eq, hm, Res.ok_bind]
    cases ideal with
    | some x => exact ⟨_, rfl⟩
    | none =>
      have htot : ∀ s qsu g qgu, ∃ v u, m.predict s qsu g qgu = .ok (v, u) := by
        intro s qsu g qgu
        obtain ⟨v, hv⟩ := predict_never_fails rf su s0 s1 sb gu g0 g1 gb ru m hm s qsu g qgu
        exact ⟨v, ru, hv⟩
      obtain ⟨v, hv, _, _⟩ := findMinEnergyRateFrom_spec m.predict htot sweepSpeeds f64Max
      simp only [findMinEnergyRate, hv, Res.ok_bind]
      exact ⟨_, rfl⟩
  · intro h
    obtain ⟨e, he⟩ := new_rejects_short rf su s0 s1 sb gu g0 g1 gb ru h
    rw [load_interpolate_smartcore_eq, he]
    exact ⟨e, rfl⟩

/-- the interpolated model against the underlying model, both as loaded: at every grid point (given in the
model's units) the two `PredictionModel::predict` results are the same -/
theorem loaded_interpolation_matches_underlying_on_grid (rf : α → α → α) (su : SpeedUnit) (gu : GradeUnit)
    (ru : EnergyRateUnit) (s0 s1 : α) (sb : Nat) (g0 g1 : α) (gb : Nat) (i1 a1 i2 a2 : Option α)
    (ri ru' : Record α)
    (hi : loadPredictionModel rf true (.interpolate .smartcore s0 s1 sb g0 g1 gb) su gu ru i1 a1 = .ok ri)
    (hu : loadPredictionModel rf true .smartcore su gu ru i2 a2 = .ok ru')
    (xs ys : List α) (hxs : linspace s0 s1 sb = .ok xs) (hys : linspace g0 g1 gb = .ok ys)
    (i j : Nat) (x y : α) (hx : xs[i]? = some x) (hy : ys[j]? = some y) :
    ri.model x su y gu = ru'.model x su y gu := by
  obtain ⟨m, hm, hmod, _⟩ := load_interpolate_is_new rf su gu ru s0 s1 sb g0 g1 gb i1 a1 ri hi
  obtain ⟨r, hr, hrm, _⟩ := load_smartcore rf su gu ru i2 a2
  rw [hr] at hu; cases hu
  rw [hmod, hrm, (smartcore_predict_def rf su gu ru x su y gu).2]
  exact exact_on_grid rf su s0 s1 sb gu g0 g1 gb ru m hm xs ys hxs hys i j x y hx hy x su y gu
    (speed_convert_self su x) (grade_convert_self gu y)

/-- `PredictionModelRecord::predict` (no cache): the model's rate, times the real-world adjustment, times
the distance expressed in the rate's own distance unit; in the rate's own energy unit -/
theorem record_predict_def (r : Record α) (speed : α) (su : SpeedUnit) (grade : α) (gu : GradeUnit)
    (distance : α) (du : DistanceUnit) (rate : α) (u : EnergyRateUnit)
    (h : r.model speed su grade gu = .ok (rate, u)) :
    r.predict speed su grade gu distance du =
      .ok (rate * r.realWorldEnergyAdjustment * du.convert r.energyRateUnit.associatedDistanceUnit distance,
        r.energyRateUnit.associatedEnergyUnit) := by
  simp [Record.predict, h, Res.bind, createEnergy]

end

/-- regression witnesses of the repaired defects -/
example : findNearestIndex [(5 : ℚ)] 5 = .err .singleArr := by decide +kernel
example : (SpeedGradeModel.new (fun (_ _ : ℚ) => (1 : ℚ)) .milesPerHour 0 100 1 .decimal 0 1 5
    .gallonsGasolinePerMile).isOk = false := by decide +kernel
example : (SpeedGradeModel.new (fun (_ _ : ℚ) => (1 : ℚ)) .milesPerHour 0 100 0 .decimal 0 1 5
    .gallonsGasolinePerMile).isOk = false := by decide +kernel
example : validate2 [(1 : ℚ)] [0, 1] [[3, 4]] = .err .gridTooShort := by decide +kernel
example : validateN { grid := [[(0 : ℚ), 1]], shape := [2, 2], get := getFlat [2, 2] [0, 1, 2, 3] } = .err .gridDim ∧
    validateN { grid := ([] : List (List ℚ)), shape := [2], get := getFlat [2] [0, 1] } = .err .gridDim := by
  decide +kernel
example : linspace (0 : ℚ) 1 0 = .ok [] := by decide +kernel

/-! ### remaining defect of the code, machine-checked on the faithful model (ℚ) -/

/-- the raw (public) `Interp2D::linear` does not reject points outside the grid: above the grid it
indexes out of bounds, below it extrapolates (`0 + (1-0)·(-1) = -1` is not between the corner values);
only `Interpolator::interpolate` rejects.  Left as a known finding: whether the raw methods should reject,
clamp or extrapolate is an API decision (the only caller in the workspace goes through `interpolate`). -/
theorem raw_linear_outside_counterexample :
    linear2 [(0 : ℚ), 1] [0, 1] [[0, 0], [1, 1]] [2, 0] = .panic .index ∧
      linear2 [(0 : ℚ), 1] [0, 1] [[0, 0], [1, 1]] [-1, 0] = .ok (-1) ∧
      Interpolator.interpolate (.d2 [(0 : ℚ), 1] [0, 1] [[0, 0], [1, 1]]) [2, 0] .linear = .err .outside := by
  decide +kernel

/-! ### non-vacuity: the hypotheses are met and the functions compute -/

example : (SpeedGradeModel.new (fun (s g : ℚ) => s + 2 * g) .milesPerHour 0 100 3 .decimal (-1) 1 3
      .gallonsGasolinePerMile).bind (fun m => m.predict 25 .milesPerHour 1 .decimal)
    = .ok (27, .gallonsGasolinePerMile) := by decide +kernel
example : (SpeedGradeModel.new (fun (s g : ℚ) => s * g) .milesPerHour 0 100 3 .decimal (-1) 1 3
      .gallonsGasolinePerMile).bind (fun m => m.predict 500 .kilometersPerHour 30 .percent)
    = .ok (30, .gallonsGasolinePerMile) := by decide +kernel
example : findNearestIndex [(0 : ℚ), 1, 2] 2 = .ok 1 ∧ findNearestIndex [(0 : ℚ), 1, 2] 1 = .ok 0
    ∧ findNearestIndex [(0 : ℚ), 1, 2] (3 / 2) = .ok 1 := by decide +kernel
example : Interpolator.interpolate (.d2 [(0 : ℚ), 1, 3] [0, 2] [[0, 2], [1, 3], [3, 5]]) [2, 1] .linear
    = .ok 3 := by decide +kernel
example : Interpolator.interpolate (.d1 [(0 : ℚ), 1, 3] [1, 3, 7]) [2] .linear = .ok 5 := by decide +kernel
example : Interpolator.interpolate (.dn (nd2 [(0 : ℚ), 1, 3] [0, 2] [[0, 2], [1, 3], [3, 5]])) [2, 1] .linear
    = .ok 3 := by decide +kernel
example : Interpolator.interpolate (.dn (nd2 [(0 : ℚ), 1, 3] [0, 2] [[0, 2], [1, 3], [3, 5]])) [1, 2] .linear
    = .ok 3 := by decide +kernel
example : Interpolator.interpolate (.dn (nd2 [(0 : ℚ), 1, 3] [0, 2] [[0, 2], [1, 3], [3, 5]])) [4, 1] .linear
    = .err .outside := by decide +kernel
example : validateN (nd2 [(0 : ℚ), 1, 3] [0, 2] [[0, 2], [1, 3], [3, 5]]) = .ok () := by decide +kernel
example : (loadPredictionModel (fun (s g : ℚ) => s + 2 * g) true (.interpolate .smartcore 0 100 3 (-1) 1 3)
      .milesPerHour .decimal .gallonsGasolinePerMile (some 7) none).bind
      (fun r => r.predict 25 .milesPerHour 1 .decimal 2 .miles) = .ok (54, .gallonsGasoline) := by
  decide +kernel
example : (loadPredictionModel (fun (s g : ℚ) => s + 2 * g) true .smartcore
      .milesPerHour .decimal .gallonsGasolinePerMile none (some 2)).bind
      (fun r => .ok (r.idealEnergyRate, r.realWorldEnergyAdjustment)) = .ok ((20 : ℚ), (2 : ℚ)) := by
  decide +kernel
example : linspace (0 : ℚ) 1 5 = .ok [0, 1 / 4, 1 / 2, 3 / 4, 1] := by decide +kernel

end C14
end Compass
