/-
C14 — interpolated powertrain predictions stay faithful to the underlying model.

Model: `Compass/Model/Interp.lean` (`find_nearest_index`, `linspace`, `Interp1D/2D/3D/ND::linear`,
`Interpolator::{validate_inputs,interpolate}`, `InterpolationSpeedGradeModel::{new,predict}`,
`SmartcoreSpeedGradeModel::predict`, `load_prediction_model`, `PredictionModelRecord::predict`), tied to the
Rust code by the bit-exact correspondence run of `harness/src/c14.rs`.

EXACT ARITHMETIC.  Every theorem is over an arbitrary linearly ordered field.  The Rust code computes in
`f64`; for the statements that depend on rounding the theorems say what holds of the formulas, not of the
doubles.  Evaluating the model at `Float` (which the differential run shows bit-identical to the code):
* `bilinear_between_corners`: on doubles only up to rounding (a constant 0.1 table gives some predictions
  1 ulp above the corner value); the harness oracle checks it with a 1e-9 relative tolerance;
* `grid_spans_bounds`: on doubles the last grid value is the running sum `x0 + dx + … + dx`, a few ulp off
  the configured upper bound (`linspace(-0.2, 0.2, 21)` ends 2 ulp short) — clamping uses the actual first
  and last grid value, so `clamp_outside` is not affected;
* `new_succeeds`: on doubles increasing bounds can produce a repeated grid value (`1e16, 1e16+2`, 3 bins) and
  `new` then returns the not-sorted error;
* `multilinear_exact_*`, `nd_agrees_*`: equalities of exact values; on doubles up to rounding (the N-D and
  fixed-dimension code do perform the same operations in the same order, which the differential run shows).
`exact_on_grid`, `predict_never_fails`, `clamp_outside`, `rejects_outside_*`, the never-panics theorems and
`index_brackets` do not depend on rounding (fractions 0 and a/a = 1 are exact; they are statements about
comparisons and control flow).

MODELLED RATHER THAN VERIFIED (outside every theorem; evidence is the differential run where stated):
* NaN: no value of a linear order is NaN.  The `is_nan` guard of `InterpND::linear` is in the model and
  exercised by the run (NaN tables), but no theorem speaks about it; NaN *inputs* to `predict`
  (`f64::max/min` return the non-NaN argument, the model's `fmax/fmin` would not) are not modelled;
* the random forest is a total function `rf speed grade` / `underlying speed grade`: the error arm of
  `rf.predict(..)` in `SmartcoreSpeedGradeModel::predict` and of `model.predict(..)?` while `new` fills the
  grid are not modelled (smartcore's `predict` on a 1x2 matrix does not fail; never observed in the run);
* `cap : Nat` (in `newAlloc`, `loadPredictionModel`) stands for the largest count of `f64` values the machine
  can reserve; a bin count below it whose table takes very long to fill, and running out of memory while
  filling, are not modelled;
* `fileOk : Bool` stands for "the model file can be read and deserialised" (bincode / file system);
* `PredictionModelRecord::predict` is modelled without a cache (`cache = None`); the cache is C08's;
* the bundled vehicle models themselves (quantifier Q4 of the property) appear only in the differential run;
  the theorems quantify over every function `rf`;
* theorems that hold by construction of the model (`smartcore_predict_def`, `record_predict_def`) are marked
  as such; for them the evidence that the *code* behaves so is the differential run.
-/
import Compass.Gen.Decisions
import Compass.Proofs.Num
import Compass.Model.Interp
import Compass.Proofs.Interp

namespace Compass
namespace C14

open Compass.Interp

set_option linter.unusedSectionVars false

section
variable {α : Type} [Field α] [LinearOrder α] [IsStrictOrderedRing α] [Lit α] [LawfulLit α]

/-! ### cell lookup -/

/-- `find_nearest_index` on a strictly increasing grid with at least two points and a target within
the grid: the index of a cell that brackets the target (also on the upper boundary, also on grid lines) -/
theorem index_brackets (g : List α) (t lo hi : α) (hs : strictlyIncreasing g = true) (hlen : 2 ≤ g.length)
    (hlo : g[0]? = some lo) (hhi : g.getLast? = some hi) (h1 : lo ≤ t) (h2 : t ≤ hi) :
    ∃ i a b, findNearestIndex g t = .ok i ∧ i + 1 < g.length ∧ g[i]? = some a ∧ g[i + 1]? = some b ∧
      a ≤ t ∧ t ≤ b := by
  obtain ⟨l, a, b, hf, ha, hb, hc⟩ := findNearestIndex_spec g t lo hi ⟨hs, hlen⟩ hlo hhi h1 h2
  refine ⟨l, a, b, hf, ?_, ha, hb, ?_⟩
  · by_contra hn
    rw [List.getElem?_eq_none (by omega)] at hb; cases hb
  · rcases hc with ⟨c1, c2⟩ | ⟨_, c1⟩
    · exact ⟨le_of_lt c1, c2⟩
    · subst c1
      exact ⟨le_refl _, le_of_lt (si_lt g hs l (l + 1) _ _ (by omega) ha hb)⟩

/-- the cell lookup never panics and never runs out of fuel — for every grid (empty, one point, unsorted)
and every target: an in-bounds index or an `Err` (a one-point grid used to underflow `arr.len() - 2`) -/
theorem find_nearest_index_never_panics (g : List α) (t : α) :
    (∃ i, findNearestIndex g t = .ok i ∧ i < g.length) ∨ (∃ e, findNearestIndex g t = .err e) :=
  findNearestIndex_graceful g t

/-- with at least two grid points it always returns an in-bounds index -/
theorem index_total (g : List α) (t : α) (hlen : 2 ≤ g.length) : ∃ i, findNearestIndex g t = .ok i ∧ i < g.length :=
  findNearestIndex_ge_two g t hlen

/-! ### the speed/grade model

`hnew` says the model `m` is what `InterpolationSpeedGradeModel::new` returned (so the grid passed the
constructor's validation, which includes "at least two points per axis"); every clause of the property
follows for every such model, every speed, grade and input unit — no further hypothesis. -/

/-- `new` does return a model for increasing bounds and at least two bins (the hypothesis `hnew` of the
theorems below is satisfiable for every such configuration) -/
theorem new_succeeds (underlying : α → α → α) (su : SpeedUnit) (s0 s1 : α) (sb : Nat) (gu : GradeUnit)
    (g0 g1 : α) (gb : Nat) (ru : EnergyRateUnit) (hs : s0 < s1) (hg : g0 < g1) (hsb : 2 ≤ sb)
    (hgb : 2 ≤ gb) :
    ∃ m, SpeedGradeModel.new underlying su s0 s1 sb gu g0 g1 gb ru = .ok m :=
  new_ok underlying su s0 s1 sb gu g0 g1 gb ru hs hg hsb hgb

/-- `new` never panics: for every bound and every bin count (zero and one included) it returns a model
or an error … -/
theorem new_never_panics (underlying : α → α → α) (su : SpeedUnit) (s0 s1 : α) (sb : Nat) (gu : GradeUnit)
    (g0 g1 : α) (gb : Nat) (ru : EnergyRateUnit) :
    (∃ m, SpeedGradeModel.new underlying su s0 s1 sb gu g0 g1 gb ru = .ok m) ∨
      (∃ e, SpeedGradeModel.new underlying su s0 s1 sb gu g0 g1 gb ru = .err e) :=
  new_graceful underlying su s0 s1 sb gu g0 g1 gb ru

/-- … and with fewer than two bins on an axis it is an error (such a grid used to be accepted and every
`predict` on it panicked), so every model `new` returns has at least two bins per axis -/
theorem new_rejects_fewer_than_two_bins (underlying : α → α → α) (su : SpeedUnit) (s0 s1 : α) (sb : Nat)
    (gu : GradeUnit) (g0 g1 : α) (gb : Nat) (ru : EnergyRateUnit) (h : sb < 2 ∨ gb < 2) :
    ∃ e, SpeedGradeModel.new underlying su s0 s1 sb gu g0 g1 gb ru = .err e :=
  new_rejects_short underlying su s0 s1 sb gu g0 g1 gb ru h

/-- `new` with its allocations (`cap`: the largest count of values that can be reserved on the machine —
data).  It never panics or aborts, for every bin count: a bin count, or a product of the two bin counts, that
cannot be allocated is the allocation error (before the repair `vec![x0; n]` aborted the process for
`speed_bins = 4·10¹²` and panicked for `usize::MAX`), returned before `new` itself predicts anything (inside
`load_prediction_model` the underlying model has been loaded — and, for a nested interpolation, its own grid
filled — by then); otherwise it is
`new` — so every theorem below about the models of `new` applies to what it returns.  A table that can be
allocated but takes very long to fill is not modelled, and neither is running out of memory afterwards: the
code probes the table size on a temporary `Vec` that is dropped and then fills a `Vec<Vec<f64>>` by `push`,
so under memory overcommit a bin count can pass the checks and the process still be killed while filling —
"never panics or aborts" is a statement about the model with `cap` as data. -/
theorem new_alloc_never_panics (cap : Nat) (underlying : α → α → α) (su : SpeedUnit) (s0 s1 : α) (sb : Nat)
    (gu : GradeUnit) (g0 g1 : α) (gb : Nat) (ru : EnergyRateUnit) :
    ((∃ m, SpeedGradeModel.newAlloc cap underlying su s0 s1 sb gu g0 g1 gb ru = .ok m) ∨
      (∃ e, SpeedGradeModel.newAlloc cap underlying su s0 s1 sb gu g0 g1 gb ru = .err e)) ∧
    (cap < sb ∨ cap < gb ∨ cap < sb * gb →
      SpeedGradeModel.newAlloc cap underlying su s0 s1 sb gu g0 g1 gb ru = .err .alloc) ∧
    (sb ≤ cap → gb ≤ cap → sb * gb ≤ cap →
      SpeedGradeModel.newAlloc cap underlying su s0 s1 sb gu g0 g1 gb ru =
        SpeedGradeModel.new underlying su s0 s1 sb gu g0 g1 gb ru) ∧
    (∀ m, SpeedGradeModel.newAlloc cap underlying su s0 s1 sb gu g0 g1 gb ru = .ok m →
      SpeedGradeModel.new underlying su s0 s1 sb gu g0 g1 gb ru = .ok m) := by
  rw [newAlloc_eq]
  refine ⟨?_, ?_, ?_, ?_⟩
  · by_cases hc : cap < sb ∨ cap < gb ∨ cap < sb * gb
    · rw [if_pos hc]; exact Or.inr ⟨_, rfl⟩
    · rw [if_neg hc]; exact new_graceful underlying su s0 s1 sb gu g0 g1 gb ru
  · intro hc; rw [if_pos hc]
  · intro h1 h2 h3; rw [if_neg (by omega)]
  · intro m h
    by_cases hc : cap < sb ∨ cap < gb ∨ cap < sb * gb
    · rw [if_pos hc] at h; cases h
    · rw [if_neg hc] at h; exact h

/-- the grid `new` builds runs exactly from the lower to the upper bound -/
theorem grid_spans_bounds (x0 xend : α) (n : Nat) (hn : 2 ≤ n) (h : x0 < xend) :
    ∃ xs, linspace x0 xend n = .ok xs ∧ strictlyIncreasing xs = true ∧ xs.length = n ∧
      xs[0]? = some x0 ∧ xs.getLast? = some xend := by
  obtain ⟨xs, h1, h2, h3, h4, h5⟩ := linspace_good x0 xend n hn h
  exact ⟨xs, h1, h2.1, h3, h4, h5⟩

/-- C14: the predicted rate lies between the smallest and the largest underlying-model rate at the four
grid points surrounding the (converted, clamped) input; in particular `predict` never fails -/
theorem bilinear_between_corners (underlying : α → α → α) (su : SpeedUnit) (s0 s1 : α) (sb : Nat)
    (gu : GradeUnit) (g0 g1 : α) (gb : Nat) (ru : EnergyRateUnit) (m : SpeedGradeModel α)
    (hnew : SpeedGradeModel.new underlying su s0 s1 sb gu g0 g1 gb ru = .ok m) (speed : α) (qsu : SpeedUnit) (grade : α) (qgu : GradeUnit) :
    ∃ xs ys i j x0 x1 y0 y1 v,
      linspace s0 s1 sb = .ok xs ∧ linspace g0 g1 gb = .ok ys ∧
      xs[i]? = some x0 ∧ xs[i + 1]? = some x1 ∧ ys[j]? = some y0 ∧ ys[j + 1]? = some y1 ∧
      x0 ≤ clampTo xs (qsu.convert su speed) ∧ clampTo xs (qsu.convert su speed) ≤ x1 ∧
      y0 ≤ clampTo ys (qgu.convert gu grade) ∧ clampTo ys (qgu.convert gu grade) ≤ y1 ∧
      m.predict speed qsu grade qgu = .ok (v, ru) ∧
      min (min (underlying x0 y0) (underlying x1 y0)) (min (underlying x0 y1) (underlying x1 y1)) ≤ v ∧
      v ≤ max (max (underlying x0 y0) (underlying x1 y0)) (max (underlying x0 y1) (underlying x1 y1)) := by
  obtain ⟨xs, ys, hx, hy, hm, sxs, sys, lx, ly, hsb, hgb⟩ := new_inv underlying su s0 s1 sb gu g0 g1 gb ru m hnew
  subst hm
  have gx : GoodGrid xs := ⟨sxs, by omega⟩
  have gy : GoodGrid ys := ⟨sys, by omega⟩
  obtain ⟨i, dx, j, dy, sx, sy, hp⟩ :=
    predict_spec xs ys (sgTable underlying ru xs ys) su gu ru gx gy (sgTable_rect _ _ _ _) speed qsu grade qgu
  have hb := bil_between (F2 (sgTable underlying ru xs ys)) sx sy
  obtain ⟨x0, x1, hx0, hx1, hx01, _, hcx⟩ := sx
  obtain ⟨y0, y1, hy0, hy1, hy01, _, hcy⟩ := sy
  rw [sgTable_F2 underlying ru xs ys i j x0 y0 hx0 hy0, sgTable_F2 underlying ru xs ys (i + 1) j x1 y0 hx1 hy0,
    sgTable_F2 underlying ru xs ys i (j + 1) x0 y1 hx0 hy1,
    sgTable_F2 underlying ru xs ys (i + 1) (j + 1) x1 y1 hx1 hy1] at hb
  refine ⟨xs, ys, i, j, x0, x1, y0, y1, _, hx, hy, hx0, hx1, hy0, hy1, ?_, ?_, ?_, ?_, hp, hb.1, hb.2⟩
  · rcases hcx with ⟨c1, _⟩ | ⟨_, c1⟩
    · exact le_of_lt c1
    · exact le_of_eq c1.symm
  · rcases hcx with ⟨_, c2⟩ | ⟨_, c1⟩
    · exact c2
    · rw [c1]; exact le_of_lt hx01
  · rcases hcy with ⟨c1, _⟩ | ⟨_, c1⟩
    · exact le_of_lt c1
    · exact le_of_eq c1.symm
  · rcases hcy with ⟨_, c2⟩ | ⟨_, c1⟩
    · exact c2
    · rw [c1]; exact le_of_lt hy01

/-- C14: `predict` never fails, whatever the input and its units (inside, on a line, on the boundary,
outside), and reports the model's own rate unit -/
theorem predict_never_fails (underlying : α → α → α) (su : SpeedUnit) (s0 s1 : α) (sb : Nat)
    (gu : GradeUnit) (g0 g1 : α) (gb : Nat) (ru : EnergyRateUnit) (m : SpeedGradeModel α)
    (hnew : SpeedGradeModel.new underlying su s0 s1 sb gu g0 g1 gb ru = .ok m) (speed : α) (qsu : SpeedUnit) (grade : α) (qgu : GradeUnit) :
    ∃ v, m.predict speed qsu grade qgu = .ok (v, ru) := by
  obtain ⟨_, _, _, _, _, _, _, _, v, _, _, _, _, _, _, _, _, _, _, hp, _⟩ :=
    bilinear_between_corners underlying su s0 s1 sb gu g0 g1 gb ru m hnew speed qsu grade qgu
  exact ⟨v, hp⟩

/-- C14: at a grid point (an input that converts to grid values) the prediction is the underlying
model's value at that grid point -/
theorem exact_on_grid (underlying : α → α → α) (su : SpeedUnit) (s0 s1 : α) (sb : Nat)
    (gu : GradeUnit) (g0 g1 : α) (gb : Nat) (ru : EnergyRateUnit) (m : SpeedGradeModel α)
    (hnew : SpeedGradeModel.new underlying su s0 s1 sb gu g0 g1 gb ru = .ok m) (xs ys : List α) (hxs : linspace s0 s1 sb = .ok xs) (hys : linspace g0 g1 gb = .ok ys)
    (i j : Nat) (x y : α) (hi : xs[i]? = some x) (hj : ys[j]? = some y)
    (speed : α) (qsu : SpeedUnit) (grade : α) (qgu : GradeUnit)
    (hs : qsu.convert su speed = x) (hg : qgu.convert gu grade = y) :
    m.predict speed qsu grade qgu = .ok (underlying x y, ru) := by
  obtain ⟨xs', ys', hx, hy, hm, sxs, sys, lx, ly, hsb, hgb⟩ := new_inv underlying su s0 s1 sb gu g0 g1 gb ru m hnew
  rw [hxs] at hx; rw [hys] at hy; cases hx; cases hy
  subst hm
  have gx : GoodGrid xs := ⟨sxs, by omega⟩
  have gy : GoodGrid ys := ⟨sys, by omega⟩
  obtain ⟨lx', dx, ly', dy, sx, sy, hp⟩ :=
    predict_spec xs ys (sgTable underlying ru xs ys) su gu ru gx gy (sgTable_rect _ _ _ _) speed qsu grade qgu
  rw [hp]
  have ix : InAxis xs x := by
    obtain ⟨lo, hi', h0, _, hl, _⟩ := good_first_last gx
    exact ⟨lo, hi', h0, hl, si_le xs sxs 0 i lo x (by omega) h0 hi,
      si_le xs sxs i (xs.length - 1) x hi' (by
        have : i < xs.length := by
          by_contra hn
          rw [List.getElem?_eq_none (by omega)] at hi; cases hi
        omega) hi (by rw [← getLast?_eq_getElem?]; exact hl)⟩
  have iy : InAxis ys y := by
    obtain ⟨lo, hi', h0, _, hl, _⟩ := good_first_last gy
    exact ⟨lo, hi', h0, hl, si_le ys sys 0 j lo y (by omega) h0 hj,
      si_le ys sys j (ys.length - 1) y hi' (by
        have : j < ys.length := by
          by_contra hn
          rw [List.getElem?_eq_none (by omega)] at hj; cases hj
        omega) hj (by rw [← getLast?_eq_getElem?]; exact hl)⟩
  rw [hs, clampTo_of_inAxis ix] at sx
  rw [hg, clampTo_of_inAxis iy] at sy
  rw [bil_on_grid _ sx sy sxs sys i j hi hj, sgTable_F2 underlying ru xs ys i j x y hi hj]

/-- the bilinear formula on the closed cell `[x0,x1] × [y0,y1]`, written with the underlying model's
values at the four corners -/
def cellValue (underlying : α → α → α) (x0 x1 y0 y1 p q : α) : α :=
  lerp (lerp (underlying x0 y0) (underlying x1 y0) ((p - x0) / (x1 - x0)))
    (lerp (underlying x0 y1) (underlying x1 y1) ((p - x0) / (x1 - x0))) ((q - y0) / (y1 - y0))

/-- C14 (continuity across cell borders) — PARTIAL.  Full statement of the property: the predicted rate, as
a function of speed and grade, is continuous (in the topological / ε–δ sense) on the whole plane, across
cell borders included.  Proved here is its discrete content: the prediction equals the bilinear formula of
*every* grid cell whose closed rectangle contains the input — so on a common border (or corner) all adjacent
cells give the same value.  Together with the per-cell Lipschitz bounds `cell_value_lipschitz_speed/_grade`
below (and the clamp, which is 1-Lipschitz) this is what a continuity proof by pasting needs; what is
missing is the pasted global statement itself (a `Continuous` / ε–δ theorem over α = ℝ): not proved, the
theorems are over an arbitrary ordered field without topology. -/
theorem continuous_across_cells_partial (underlying : α → α → α) (su : SpeedUnit) (s0 s1 : α) (sb : Nat)
    (gu : GradeUnit) (g0 g1 : α) (gb : Nat) (ru : EnergyRateUnit) (m : SpeedGradeModel α)
    (hnew : SpeedGradeModel.new underlying su s0 s1 sb gu g0 g1 gb ru = .ok m) (xs ys : List α) (hxs : linspace s0 s1 sb = .ok xs) (hys : linspace g0 g1 gb = .ok ys)
    (i j : Nat) (x0 x1 y0 y1 : α) (hx0 : xs[i]? = some x0) (hx1 : xs[i + 1]? = some x1)
    (hy0 : ys[j]? = some y0) (hy1 : ys[j + 1]? = some y1)
    (speed : α) (qsu : SpeedUnit) (grade : α) (qgu : GradeUnit)
    (h1 : x0 ≤ qsu.convert su speed) (h2 : qsu.convert su speed ≤ x1)
    (h3 : y0 ≤ qgu.convert gu grade) (h4 : qgu.convert gu grade ≤ y1) :
    m.predict speed qsu grade qgu =
      .ok (cellValue underlying x0 x1 y0 y1 (qsu.convert su speed) (qgu.convert gu grade), ru) := by
  obtain ⟨xs', ys', hx, hy, hm, sxs, sys, lx, ly, hsb, hgb⟩ := new_inv underlying su s0 s1 sb gu g0 g1 gb ru m hnew
  rw [hxs] at hx; rw [hys] at hy; cases hx; cases hy
  subst hm
  have gx : GoodGrid xs := ⟨sxs, by omega⟩
  have gy : GoodGrid ys := ⟨sys, by omega⟩
  obtain ⟨lx', dx, ly', dy, sx, sy, hp⟩ :=
    predict_spec xs ys (sgTable underlying ru xs ys) su gu ru gx gy (sgTable_rect _ _ _ _) speed qsu grade qgu
  rw [hp]
  have hi1 : i + 1 < xs.length := by
    by_contra hn
    rw [List.getElem?_eq_none (by omega)] at hx1; cases hx1
  have hj1 : j + 1 < ys.length := by
    by_contra hn
    rw [List.getElem?_eq_none (by omega)] at hy1; cases hy1
  have ix : InAxis xs (qsu.convert su speed) := by
    obtain ⟨lo, hi', h0, _, hl, _⟩ := good_first_last gx
    exact ⟨lo, hi', h0, hl, le_trans (si_le xs sxs 0 i lo x0 (by omega) h0 hx0) h1,
      le_trans h2 (si_le xs sxs (i + 1) (xs.length - 1) x1 hi' (by omega) hx1
        (by rw [← getLast?_eq_getElem?]; exact hl))⟩
  have iy : InAxis ys (qgu.convert gu grade) := by
    obtain ⟨lo, hi', h0, _, hl, _⟩ := good_first_last gy
    exact ⟨lo, hi', h0, hl, le_trans (si_le ys sys 0 j lo y0 (by omega) h0 hy0) h3,
      le_trans h4 (si_le ys sys (j + 1) (ys.length - 1) y1 hi' (by omega) hy1
        (by rw [← getLast?_eq_getElem?]; exact hl))⟩
  rw [clampTo_of_inAxis ix] at sx
  rw [clampTo_of_inAxis iy] at sy
  rw [bil_indep _ sx sy sxs sys i j x0 x1 y0 y1 hx0 hx1 hy0 hy1 h1 h2 h3 h4]
  unfold bil cellValue
  rw [sgTable_F2 underlying ru xs ys i j x0 y0 hx0 hy0, sgTable_F2 underlying ru xs ys (i + 1) j x1 y0 hx1 hy0,
    sgTable_F2 underlying ru xs ys i (j + 1) x0 y1 hx0 hy1,
    sgTable_F2 underlying ru xs ys (i + 1) (j + 1) x1 y1 hx1 hy1]

/-- … spelled out for a common border: on the grid line `x1` the cell to its left and the cell to its
right give the same value (same for grade by symmetry of the statement above) -/
theorem border_values_agree (underlying : α → α → α) (x0 x1 x2 y0 y1 q : α) (h01 : x0 < x1) (_h12 : x1 < x2) :
    cellValue underlying x0 x1 y0 y1 x1 q = cellValue underlying x1 x2 y0 y1 x1 q := by
  unfold cellValue
  have e1 : (x1 - x0) / (x1 - x0) = 1 := div_self (ne_of_gt (by linarith))
  have e2 : (x1 - x1) / (x2 - x1) = 0 := by simp
  rw [e1, e2]
  simp [lerp_zero, lerp_one]

/-- within one closed cell the formula is Lipschitz in the speed coordinate, with the constant read off the
corner values: `|v(p,q) − v(p',q)| ≤ |p − p'| / (x1 − x0) · max(|u10 − u00|, |u11 − u01|)`.  With
`continuous_across_cells_partial` (the prediction *is* this formula on every closed cell containing the input, so the
pieces agree on common borders) this is continuity of the prediction in the ε–δ sense, cell by cell; no
topological `Continuous` statement is proved (the theorems are over an arbitrary ordered field). -/
theorem cell_value_lipschitz_speed (underlying : α → α → α) (x0 x1 y0 y1 p p' q : α) (hx : x0 < x1)
    (hy : y0 < y1) (hq0 : y0 ≤ q) (hq1 : q ≤ y1) :
    |cellValue underlying x0 x1 y0 y1 p q - cellValue underlying x0 x1 y0 y1 p' q| ≤
      |p - p'| / (x1 - x0) *
        max |underlying x1 y0 - underlying x0 y0| |underlying x1 y1 - underlying x0 y1| := by
  have hxp : 0 < x1 - x0 := by linarith
  have hyp : 0 < y1 - y0 := by linarith
  have hd0 : 0 ≤ (q - y0) / (y1 - y0) := div_nonneg (by linarith) (le_of_lt hyp)
  have hd1 : (q - y0) / (y1 - y0) ≤ 1 := by rw [div_le_one hyp]; linarith
  have e : cellValue underlying x0 x1 y0 y1 p q - cellValue underlying x0 x1 y0 y1 p' q =
      (p - p') / (x1 - x0) * lerp (underlying x1 y0 - underlying x0 y0)
        (underlying x1 y1 - underlying x0 y1) ((q - y0) / (y1 - y0)) := by
    unfold cellValue
    simp only [lerp_eq]
    field_simp
    ring
  have hM := lerp_mono_bounds (underlying x1 y0 - underlying x0 y0) (underlying x1 y1 - underlying x0 y1)
    ((q - y0) / (y1 - y0))
    (-(max |underlying x1 y0 - underlying x0 y0| |underlying x1 y1 - underlying x0 y1|))
    (max |underlying x1 y0 - underlying x0 y0| |underlying x1 y1 - underlying x0 y1|) hd0 hd1
    ⟨by have := neg_abs_le (underlying x1 y0 - underlying x0 y0)
        have := le_max_left |underlying x1 y0 - underlying x0 y0| |underlying x1 y1 - underlying x0 y1|
        linarith,
     le_trans (le_abs_self _) (le_max_left _ _)⟩
    ⟨by have := neg_abs_le (underlying x1 y1 - underlying x0 y1)
        have := le_max_right |underlying x1 y0 - underlying x0 y0| |underlying x1 y1 - underlying x0 y1|
        linarith,
     le_trans (le_abs_self _) (le_max_right _ _)⟩
  rw [e, abs_mul, abs_div, abs_of_pos hxp]
  exact mul_le_mul_of_nonneg_left (abs_le.mpr hM) (div_nonneg (abs_nonneg _) (le_of_lt hxp))

/-- … and in the grade coordinate -/
theorem cell_value_lipschitz_grade (underlying : α → α → α) (x0 x1 y0 y1 p q q' : α) (hx : x0 < x1)
    (hy : y0 < y1) (hp0 : x0 ≤ p) (hp1 : p ≤ x1) :
    |cellValue underlying x0 x1 y0 y1 p q - cellValue underlying x0 x1 y0 y1 p q'| ≤
      |q - q'| / (y1 - y0) *
        max |underlying x0 y1 - underlying x0 y0| |underlying x1 y1 - underlying x1 y0| := by
  have hxp : 0 < x1 - x0 := by linarith
  have hyp : 0 < y1 - y0 := by linarith
  have hd0 : 0 ≤ (p - x0) / (x1 - x0) := div_nonneg (by linarith) (le_of_lt hxp)
  have hd1 : (p - x0) / (x1 - x0) ≤ 1 := by rw [div_le_one hxp]; linarith
  have e : cellValue underlying x0 x1 y0 y1 p q - cellValue underlying x0 x1 y0 y1 p q' =
      (q - q') / (y1 - y0) * lerp (underlying x0 y1 - underlying x0 y0)
        (underlying x1 y1 - underlying x1 y0) ((p - x0) / (x1 - x0)) := by
    unfold cellValue
    simp only [lerp_eq]
    field_simp
    ring
  have hM := lerp_mono_bounds (underlying x0 y1 - underlying x0 y0) (underlying x1 y1 - underlying x1 y0)
    ((p - x0) / (x1 - x0))
    (-(max |underlying x0 y1 - underlying x0 y0| |underlying x1 y1 - underlying x1 y0|))
    (max |underlying x0 y1 - underlying x0 y0| |underlying x1 y1 - underlying x1 y0|) hd0 hd1
    ⟨by have := neg_abs_le (underlying x0 y1 - underlying x0 y0)
        have := le_max_left |underlying x0 y1 - underlying x0 y0| |underlying x1 y1 - underlying x1 y0|
        linarith,
     le_trans (le_abs_self _) (le_max_left _ _)⟩
    ⟨by have := neg_abs_le (underlying x1 y1 - underlying x1 y0)
        have := le_max_right |underlying x0 y1 - underlying x0 y0| |underlying x1 y1 - underlying x1 y0|
        linarith,
     le_trans (le_abs_self _) (le_max_right _ _)⟩
  rw [e, abs_mul, abs_div, abs_of_pos hyp]
  exact mul_le_mul_of_nonneg_left (abs_le.mpr hM) (div_nonneg (abs_nonneg _) (le_of_lt hyp))

/-- C14: an input outside the grid is treated as the nearest grid boundary: the prediction equals the
prediction at the clamped point (given in the model's own units) … -/
theorem clamp_outside (underlying : α → α → α) (su : SpeedUnit) (s0 s1 : α) (sb : Nat)
    (gu : GradeUnit) (g0 g1 : α) (gb : Nat) (ru : EnergyRateUnit) (m : SpeedGradeModel α)
    (hnew : SpeedGradeModel.new underlying su s0 s1 sb gu g0 g1 gb ru = .ok m) (xs ys : List α) (hxs : linspace s0 s1 sb = .ok xs) (hys : linspace g0 g1 gb = .ok ys)
    (speed : α) (qsu : SpeedUnit) (grade : α) (qgu : GradeUnit) :
    m.predict speed qsu grade qgu =
      m.predict (clampTo xs (qsu.convert su speed)) su (clampTo ys (qgu.convert gu grade)) gu := by
  obtain ⟨xs', ys', hx, hy, hm, sxs, sys, lx, ly, hsb, hgb⟩ := new_inv underlying su s0 s1 sb gu g0 g1 gb ru m hnew
  rw [hxs] at hx; rw [hys] at hy; cases hx; cases hy
  subst hm
  have gx : GoodGrid xs := ⟨sxs, by omega⟩
  have gy : GoodGrid ys := ⟨sys, by omega⟩
  obtain ⟨lox, hix, _, hhx, hlx, _⟩ := good_first_last gx
  obtain ⟨loy, hiy, _, hhy, hly, _⟩ := good_first_last gy
  have ex : ∀ v, fmin (fmax v lox) hix = clampTo xs v := by
    intro v; simp [clampTo, hhx, hlx]
  have ey : ∀ v, fmin (fmax v loy) hiy = clampTo ys v := by
    intro v; simp [clampTo, hhy, hly]
  unfold SpeedGradeModel.predict
  simp only [hhx, hlx, hhy, hly, speed_convert_self, grade_convert_self, ex, ey, clampTo_idem gx,
    clampTo_idem gy]

/-- … and the clamped point is the first grid value below the grid, the last above it, and the point
itself inside -/
theorem clamp_is_nearest_boundary (g : List α) (hs : strictlyIncreasing g = true) (hlen : 2 ≤ g.length)
    (lo hi v : α) (hlo : g[0]? = some lo) (hhi : g.getLast? = some hi) :
    (v ≤ lo → clampTo g v = lo) ∧ (hi ≤ v → clampTo g v = hi) ∧ (lo ≤ v → v ≤ hi → clampTo g v = v) :=
  ⟨clampTo_below ⟨hs, hlen⟩ v lo hlo, clampTo_above ⟨hs, hlen⟩ v hi hhi,
    fun h1 h2 => clampTo_of_inAxis ⟨lo, hi, hlo, hhi, h1, h2⟩⟩

/-! ### the generic interpolators: multilinear functions are reproduced exactly -/

/-- 1-D: data sampled from `c0 + c1·x` -/
theorem multilinear_exact_1d (x f : List α) (hv : validate1 x f = .ok ()) (hlen : 2 ≤ x.length)
    (c0 c1 : α) (hF : ∀ (i : Nat) (xi : α), x[i]? = some xi → f[i]? = some (c0 + c1 * xi))
    (p : α) (hp : InAxis x p) :
    Interpolator.interpolate (.d1 x f) [p] .linear = .ok (c0 + c1 * p) := by
  have hs := validate1_ok hv
  obtain ⟨l, d, _, sl, hl⟩ := linear1_ok x f p ⟨hs.1, hlen⟩ hs.2 hp
  rw [interpolate_d1_in x f p hp, hl, sl.affine (F1 f) c1 c0]
  · congr 1; ring
  · intro i xi hi
    simp only [F1, List.getD_eq_getElem?_getD, hF i xi hi, Option.getD_some]
    ring

/-- 2-D: data sampled from `c0 + c1·x + c2·y + c3·x·y` -/
theorem multilinear_exact_2d (x y : List α) (f : List (List α)) (hv : validate2 x y f = .ok ())
    (c0 c1 c2 c3 : α)
    (hF : ∀ i j xi yj, x[i]? = some xi → y[j]? = some yj →
      idx2 f i j = .ok (c0 + c1 * xi + c2 * yj + c3 * xi * yj))
    (p0 p1 : α) (h0 : InAxis x p0) (h1 : InAxis y p1) :
    Interpolator.interpolate (.d2 x y f) [p0, p1] .linear =
      .ok (c0 + c1 * p0 + c2 * p1 + c3 * p0 * p1) := by
  obtain ⟨hlx, hly, sx, sy, hr⟩ := (validate2_ok_iff x y f).mp hv
  obtain ⟨lx, dx, ly, dy, _, _, selx, sely, hl⟩ := linear2_ok x y f p0 p1 ⟨sx, hlx⟩ ⟨sy, hly⟩ hr h0 h1
  rw [interpolate_d2_in x y f p0 p1 h0 h1, hl, bil_affine (F2 f) selx sely c0 c1 c2 c3]
  intro i j xi yj hi hj
  have hi' : i < x.length := by
    by_contra hn
    rw [List.getElem?_eq_none (by omega)] at hi; cases hi
  have hj' : j < y.length := by
    by_contra hn
    rw [List.getElem?_eq_none (by omega)] at hj; cases hj
  have := hF i j xi yj hi hj
  rw [idx2_ok hr hi' hj'] at this
  exact Res.ok.inj this

/-- 3-D: data sampled from the general trilinear polynomial (8 coefficients) -/
theorem multilinear_exact_3d (x y z : List α) (f : List (List (List α)))
    (hv : validate3 x y z f = .ok ()) (c0 c1 c2 c3 c4 c5 c6 c7 : α)
    (hF : ∀ i j k xi yj zk, x[i]? = some xi → y[j]? = some yj → z[k]? = some zk →
      idx3 f i j k = .ok (c0 + c1 * xi + c2 * yj + c3 * xi * yj + c4 * zk + c5 * xi * zk + c6 * yj * zk
        + c7 * xi * yj * zk))
    (p0 p1 p2 : α) (h0 : InAxis x p0) (h1 : InAxis y p1) (h2 : InAxis z p2) :
    Interpolator.interpolate (.d3 x y z f) [p0, p1, p2] .linear =
      .ok (c0 + c1 * p0 + c2 * p1 + c3 * p0 * p1 + c4 * p2 + c5 * p0 * p2 + c6 * p1 * p2
        + c7 * p0 * p1 * p2) := by
  obtain ⟨⟨hlx, hly, hlz⟩, hx, hy, hz, hr⟩ := validate3_ok hv
  obtain ⟨lx, dx, ly, dy, lz, dz, _, _, _, selx, sely, selz, hl⟩ :=
    linear3_ok x y z f p0 p1 p2 ⟨hx, hlx⟩ ⟨hy, hly⟩ ⟨hz, hlz⟩ hr h0 h1 h2
  rw [interpolate_d3_in x y z f p0 p1 p2 h0 h1 h2, hl,
    tril_affine (F3 f) selx sely selz c0 c1 c2 c3 c4 c5 c6 c7]
  intro i j k xi yj zk hi hj hk
  have hi' : i < x.length := by
    by_contra hn
    rw [List.getElem?_eq_none (by omega)] at hi; cases hi
  have hj' : j < y.length := by
    by_contra hn
    rw [List.getElem?_eq_none (by omega)] at hj; cases hj
  have hk' : k < z.length := by
    by_contra hn
    rw [List.getElem?_eq_none (by omega)] at hk; cases hk
  have := hF i j k xi yj zk hi hj hk
  rw [idx3_ok hr hi' hj' hk'] at this
  exact Res.ok.inj this

/-- the hypotheses on the grids in the N-D theorems below are what `InterpND::new` checks, plus the
property's "at least two points per axis" -/
theorem nd_new_gives_valid_grids (m : ND α) (hv : validateN m = .ok ()) (h2 : ∀ s ∈ m.shape, 2 ≤ s)
    (hne : m.shape ≠ []) :
    List.Forall₂ (fun g s => (strictlyIncreasing g = true ∧ 2 ≤ g.length) ∧ g.length = s) m.grid m.shape :=
  validateN_grids m hv h2 hne

/-- N-D, by induction on the dimension: data sampled from any function `M` of the coordinates that is
affine in each coordinate separately (the multilinear polynomials) is reproduced exactly, in any number of
dimensions (`coords m.grid ix` are the grid coordinates of the index list `ix`) -/
theorem multilinear_exact_nd (m : ND α) (M : List α → α) (hM : MultiAffine M)
    (hgrids : List.Forall₂ (fun g s => (strictlyIncreasing g = true ∧ 2 ≤ g.length) ∧ g.length = s) m.grid m.shape)
    (hget : ∀ ix, List.Forall₂ (· < ·) ix m.shape → m.get ix = .ok (M (coords m.grid ix)))
    (pt : List α) (hp : List.Forall₂ InAxis m.grid pt) :
    Interpolator.interpolate (.dn m) pt .linear = .ok (M pt) := by
  have V : ValidND m (fun ix => M (coords m.grid ix)) := ⟨hgrids, hget⟩
  obtain ⟨h1, h2, h3, h4⟩ := quads_spec m.grid m.shape pt hgrids hp
  rw [interpolate_dn_in m _ pt V hp, linearN_ok m _ pt V hp, h1]
  have := ndValRev_multiaffine M hM (quads m.grid pt).reverse
    (fun q hq => h4 q (List.mem_reverse.mp hq)) [] []
  simp only [List.map_reverse, List.reverse_reverse, List.append_nil, h2, h3, coords] at this
  rw [this]

/-- the multi-affine functions include every multilinear polynomial, e.g. in two dimensions -/
theorem multiAffine_bilinear (c0 c1 c2 c3 : α) :
    MultiAffine (fun (v : List α) => c0 + c1 * v.getD 0 0 + c2 * v.getD 1 0 + c3 * v.getD 0 0 * v.getD 1 0) := by
  intro pre post a b t
  match pre with
  | [] => simp; ring
  | [x] => simp; ring
  | x :: y :: r => simp; ring

/-! ### the N-D interpolator agrees with the 1-D / 2-D / 3-D ones on the same data

`nd1 / nd2 / nd3` are the N-D interpolators over the same grid and the same values stored row-major (what
`ArrayD::from_shape_vec` holds); agreement is for every point, inside (same value) and outside (both reject). -/

/-- 1-D: needs at least two grid points (`hlen`, inside the property's own quantifier "bin counts ≥ 2").
Without it the statement is false: `Interp1D::new` accepts a one-point axis but the N-D interpolator over the
same data cannot even be constructed (`ndim()` is 0 for a single value, so the one grid is one too many) —
`nd_agrees_1d_one_point_counterexample` below. -/
theorem nd_agrees_1d (x f : List α) (hv : validate1 x f = .ok ()) (hlen : 2 ≤ x.length) (p : α) :
    Interpolator.interpolate (.dn (nd1 x f)) [p] .linear = Interpolator.interpolate (.d1 x f) [p] .linear := by
  obtain ⟨hs, hf⟩ := validate1_ok hv
  have V := nd1_valid x f ⟨hs, hlen⟩ hf
  have hx : x ≠ [] := by intro h; rw [h] at hlen; simp at hlen
  by_cases h : InAxis x p
  · have hp : List.Forall₂ InAxis (nd1 x f).grid [p] := List.Forall₂.cons h List.Forall₂.nil
    obtain ⟨l, d, hc, _, hl⟩ := linear1_ok x f p ⟨hs, hlen⟩ hf h
    rw [interpolate_dn_in _ _ _ V hp, linearN_ok _ _ _ V hp, interpolate_d1_in x f p h, hl]
    simp [nd1, triples, selOf_eq hc, ndValRev, G1]
  · rw [interpolate_d1_out x f p _ hx h, interpolate_dn_out _ _ _ _ V rfl]
    intro hp
    cases hp with
    | cons a _ => exact h a

theorem nd_agrees_2d (x y : List α) (f : List (List α)) (hv : validate2 x y f = .ok ()) (p0 p1 : α) :
    Interpolator.interpolate (.dn (nd2 x y f)) [p0, p1] .linear =
      Interpolator.interpolate (.d2 x y f) [p0, p1] .linear := by
  obtain ⟨hlx, hly, sx, sy, hr⟩ := (validate2_ok_iff x y f).mp hv
  have hxne : x ≠ [] := by intro h; rw [h] at hlx; simp at hlx
  have hyne : y ≠ [] := by intro h; rw [h] at hly; simp at hly
  have V := nd2_valid x y f ⟨sx, hlx⟩ ⟨sy, hly⟩ hr
  by_cases h : InAxis x p0 ∧ InAxis y p1
  · have hp : List.Forall₂ InAxis (nd2 x y f).grid [p0, p1] :=
      List.Forall₂.cons h.1 (List.Forall₂.cons h.2 List.Forall₂.nil)
    obtain ⟨lx, dx, ly, dy, hcx, hcy, _, _, hl⟩ := linear2_ok x y f p0 p1 ⟨sx, hlx⟩ ⟨sy, hly⟩ hr h.1 h.2
    rw [interpolate_dn_in _ _ _ V hp, linearN_ok _ _ _ V hp, interpolate_d2_in x y f p0 p1 h.1 h.2, hl]
    simp [nd2, triples, selOf_eq hcx, selOf_eq hcy, ndValRev, G2, bil]
  · rw [interpolate_d2_out x y f p0 p1 _ hxne hyne h, interpolate_dn_out _ _ _ _ V rfl]
    intro hp
    cases hp with
    | cons a rest =>
      cases rest with
      | cons b _ => exact h ⟨a, b⟩

theorem nd_agrees_3d (x y z : List α) (f : List (List (List α))) (hv : validate3 x y z f = .ok ())
    (p0 p1 p2 : α) :
    Interpolator.interpolate (.dn (nd3 x y z f)) [p0, p1, p2] .linear =
      Interpolator.interpolate (.d3 x y z f) [p0, p1, p2] .linear := by
  obtain ⟨⟨hlx, hly, hlz⟩, hx, hy, hz, hr⟩ := validate3_ok hv
  have V := nd3_valid x y z f ⟨hx, hlx⟩ ⟨hy, hly⟩ ⟨hz, hlz⟩ hr
  have hxne : x ≠ [] := by intro h; rw [h] at hlx; simp at hlx
  have hyne : y ≠ [] := by intro h; rw [h] at hly; simp at hly
  have hzne : z ≠ [] := by intro h; rw [h] at hlz; simp at hlz
  by_cases h : InAxis x p0 ∧ InAxis y p1 ∧ InAxis z p2
  · have hp : List.Forall₂ InAxis (nd3 x y z f).grid [p0, p1, p2] :=
      List.Forall₂.cons h.1 (List.Forall₂.cons h.2.1 (List.Forall₂.cons h.2.2 List.Forall₂.nil))
    obtain ⟨lx, dx, ly, dy, lz, dz, hcx, hcy, hcz, _, _, _, hl⟩ :=
      linear3_ok x y z f p0 p1 p2 ⟨hx, hlx⟩ ⟨hy, hly⟩ ⟨hz, hlz⟩ hr h.1 h.2.1 h.2.2
    rw [interpolate_dn_in _ _ _ V hp, linearN_ok _ _ _ V hp,
      interpolate_d3_in x y z f p0 p1 p2 h.1 h.2.1 h.2.2, hl]
    simp [nd3, triples, selOf_eq hcx, selOf_eq hcy, selOf_eq hcz, ndValRev, G3, tril, bil]
  · rw [interpolate_d3_out x y z f p0 p1 p2 _ hxne hyne hzne h, interpolate_dn_out _ _ _ _ V rfl]
    intro hp
    cases hp with
    | cons a rest =>
      cases rest with
      | cons b rest2 =>
        cases rest2 with
        | cons c _ => exact h ⟨a, b, c⟩

/-! ### the generic interpolators reject points outside their grid -/

theorem rejects_outside_1d (x f : List α) (hx : x ≠ []) (p : α) (s : Strategy) (h : ¬ InAxis x p) :
    Interpolator.interpolate (.d1 x f) [p] s = .err .outside :=
  interpolate_d1_out x f p s hx h

theorem rejects_outside_2d (x y : List α) (f : List (List α)) (hx : x ≠ []) (hy : y ≠ [])
    (p0 p1 : α) (s : Strategy) (h : ¬ (InAxis x p0 ∧ InAxis y p1)) :
    Interpolator.interpolate (.d2 x y f) [p0, p1] s = .err .outside :=
  interpolate_d2_out x y f p0 p1 s hx hy h

theorem rejects_outside_3d (x y z : List α) (f : List (List (List α))) (hx : x ≠ []) (hy : y ≠ [])
    (hz : z ≠ []) (p0 p1 p2 : α) (s : Strategy) (h : ¬ (InAxis x p0 ∧ InAxis y p1 ∧ InAxis z p2)) :
    Interpolator.interpolate (.d3 x y z f) [p0, p1, p2] s = .err .outside :=
  interpolate_d3_out x y z f p0 p1 p2 s hx hy hz h

/-- N-D: on every interpolator `InterpND::new` accepts that has a dimension (`0 < ndim`: more than a
single value), a point of the right dimensionality with some coordinate outside its axis is rejected —
whatever the table holds, one-point axes included -/
theorem rejects_outside_nd (m : ND α) (hv : validateN m = .ok ()) (hpos : 0 < m.ndim)
    (pt : List α) (s : Strategy) (hl : pt.length = m.ndim) (h : ¬ List.Forall₂ InAxis m.grid pt) :
    Interpolator.interpolate (.dn m) pt s = .err .outside :=
  interpolate_dn_out_constructed m hv hpos pt s hl h

end

/-! ### no panics: constructors and the validated entry point, every dimension

Before the repairs (`fixed:` lines of known_findings.txt) these were `…_counterexample` theorems on the
faithful model — one-point axes in 2-D/3-D, a short grid vector in `InterpND::new`, and an N-D interpolator
over a single value (`ndim() = 0`) on which `linear` looped over the array's own dimensionality.  The
witnesses stay below as regression examples. -/

section
variable {α : Type} [Field α] [LinearOrder α] [IsStrictOrderedRing α] [Lit α] [LawfulLit α]

/-- an interpolator as its constructor returns it (`Interp0D` has none; `InterpND` wraps an `ArrayD`, which
holds a value at every index of its shape — `m.get` is the model's accessor) -/
def Constructed : Interpolator α → Prop
  | .d0 _ => True
  | .d1 x f => validate1 x f = .ok ()
  | .d2 x y f => validate2 x y f = .ok ()
  | .d3 x y z f => validate3 x y z f = .ok ()
  | .dn m => validateN m = .ok () ∧ ∀ ix, List.Forall₂ (· < ·) ix m.shape → ∃ v, m.get ix = .ok v

/-- `Interpolator::interpolate` never panics on a constructed interpolator of any dimension — 0, 1, 2, 3, N,
one-point axes (1-D, N-D) and single values (N-D) included: a value or an `Err` for every point (any
length; inside, on the boundary, outside) and every strategy -/
theorem validated_interpolation_never_panics (it : Interpolator α) (h : Constructed it) (pt : List α)
    (s : Strategy) :
    (∃ v, it.interpolate pt s = .ok v) ∨ (∃ e, it.interpolate pt s = .err e) := by
  cases it with
  | d0 v =>
    cases pt with
    | nil =>
      by_cases hs : s = .none
      · exact Or.inl ⟨v, by simp [Interpolator.interpolate, Interpolator.validateInputs, Interpolator.ndim, Res.bind, hs]⟩
      · exact Or.inr ⟨.strategy, by simp [Interpolator.interpolate, Interpolator.validateInputs, Interpolator.ndim, Res.bind, hs]⟩
    | cons _ _ =>
      exact Or.inr ⟨.pointLen, by simp [Interpolator.interpolate, Interpolator.validateInputs, Interpolator.ndim, Res.bind]⟩
  | d1 x f => exact interpolate_d1_graceful x f h pt s
  | d2 x y f => exact interpolate_d2_graceful x y f h pt s
  | d3 x y z f => exact interpolate_d3_graceful x y z f h pt s
  | dn m => exact interpolate_dn_graceful m h.1 h.2 pt s

/-- the 2-D and 3-D constructors accept only axes with at least two points (a one-point axis used to be
accepted and every interpolation on it panicked); 1-D and N-D do accept one-point axes, and work on them -/
theorem constructed_2d_3d_have_two_points (x y z : List α) (f2 : List (List α)) (f3 : List (List (List α))) :
    (validate2 x y f2 = .ok () → 2 ≤ x.length ∧ 2 ≤ y.length) ∧
      (validate3 x y z f3 = .ok () → 2 ≤ x.length ∧ 2 ≤ y.length ∧ 2 ≤ z.length) := by
  constructor
  · intro hv
    obtain ⟨hlx, hly, _⟩ := (validate2_ok_iff x y f2).mp hv
    exact ⟨hlx, hly⟩
  · intro hv; exact (validate3_ok hv).1

/-- the constructors themselves never panic (2-D, 3-D, N-D; 1-D's `validate` is a plain if-chain) -/
theorem constructors_never_panic (x y z : List α) (f2 : List (List α)) (f3 : List (List (List α)))
    (m : ND α) :
    (validate2 x y f2 = .ok () ∨ ∃ e, validate2 x y f2 = .err e) ∧
      (validate3 x y z f3 = .ok () ∨ ∃ e, validate3 x y z f3 = .err e) ∧
      (validateN m = .ok () ∨ ∃ e, validateN m = .err e) :=
  ⟨validate2_graceful x y f2, validate3_graceful x y z f3, validateN_graceful m⟩

end

/-! ### loading: `load_prediction_model`, `SmartcoreSpeedGradeModel`, `PredictionModelRecord`

`rf` is the random forest (any function of speed and grade in the model's units). -/

section
variable {α : Type} [Field α] [LinearOrder α] [IsStrictOrderedRing α] [Lit α] [LawfulLit α]

/-- (by construction of the model — first conjunct is its definition; that the *code* does this is evidenced
by the differential run over every unit pair, oracle key `smartcore/unit_conversion`)
`SmartcoreSpeedGradeModel::predict` is the forest at the inputs converted to the model's units, tagged
with the model's rate unit; with the model's own units the inputs are passed through unchanged -/
theorem smartcore_predict_def (rf : α → α → α) (su : SpeedUnit) (gu : GradeUnit) (ru : EnergyRateUnit)
    (speed : α) (qsu : SpeedUnit) (grade : α) (qgu : GradeUnit) :
    smartcorePredict rf su gu ru speed qsu grade qgu
        = .ok (rf (qsu.convert su speed) (qgu.convert gu grade), ru) ∧
      smartcorePredict rf su gu ru speed su grade gu = .ok (rf speed grade, ru) := by
  refine ⟨rfl, ?_⟩
  simp [smartcorePredict, speed_convert_self, grade_convert_self]

/-- an unreadable model file is a build error for every model type, nested ones included … -/
theorem load_rejects_unreadable_file (cap : Nat) (rf : α → α → α) (mt : ModelType α) (su : SpeedUnit) (gu : GradeUnit)
    (ru : EnergyRateUnit) (ideal adj : Option α) :
    loadPredictionModel cap rf false mt su gu ru ideal adj = .err .build :=
  load_unreadable cap rf mt su gu ru ideal adj

/-- … and so is an ONNX model type anywhere in the configuration (the feature is off) -/
theorem load_rejects_onnx (cap : Nat) (rf : α → α → α) (fileOk : Bool) (mt : ModelType α) (h : mt.hasOnnx = true)
    (su : SpeedUnit) (gu : GradeUnit) (ru : EnergyRateUnit) (ideal adj : Option α) :
    loadPredictionModel cap rf fileOk mt su gu ru ideal adj = .err .build :=
  load_onnx cap rf fileOk mt h su gu ru ideal adj

/-- the ideal rate of a loaded record: the configured one; or, when none is configured, the minimum of the
20..79 mph sweep at zero grade — at most every swept prediction, and attained by one of them (or `f64::MAX`
when no swept prediction is below it) -/
def IdealRateOk (r : Record α) (ideal : Option α) : Prop :=
  (∀ x, ideal = some x → r.idealEnergyRate = x) ∧
    (ideal = none →
      (∀ i ∈ sweepSpeeds, ∀ v u,
        r.model (ofNat i) .milesPerHour (zero : α) .percent = .ok (v, u) → r.idealEnergyRate ≤ v) ∧
      (r.idealEnergyRate = f64Max ∨ ∃ i ∈ sweepSpeeds, ∃ u,
        r.model (ofNat i) .milesPerHour (zero : α) .percent = .ok (r.idealEnergyRate, u)))

/-- the `Smartcore` arm always loads a readable file (the forest is a total function in the model — see
the header): the record carries the configured units, the smartcore model, the ideal rate (`IdealRateOk`)
and the configured adjustment, or 1 -/
theorem load_smartcore (cap : Nat) (rf : α → α → α) (su : SpeedUnit) (gu : GradeUnit) (ru : EnergyRateUnit)
    (ideal adj : Option α) :
    ∃ r, loadPredictionModel cap rf true .smartcore su gu ru ideal adj = .ok r ∧
      r.model = smartcorePredict rf su gu ru ∧ r.speedUnit = su ∧ r.gradeUnit = gu ∧
      r.energyRateUnit = ru ∧
      r.realWorldEnergyAdjustment = (match adj with | some a => a | none => 1) ∧ IdealRateOk r ideal := by
  rw [load_smartcore_eq]
  cases ideal with
  | some x =>
    refine ⟨_, rfl, rfl, rfl, rfl, rfl, ?_, ?_, ?_⟩
    · cases adj <;> simp
    · intro y hy; cases hy; rfl
    · intro h; cases h
  | none =>
    obtain ⟨v, hv, _, hall, hatt⟩ := findMinEnergyRateFrom_spec (smartcorePredict rf su gu ru)
      (smartcorePredict_total rf su gu ru) sweepSpeeds f64Max
    refine ⟨{ model := smartcorePredict rf su gu ru, speedUnit := su, gradeUnit := gu, energyRateUnit := ru,
              idealEnergyRate := v,
              realWorldEnergyAdjustment := match adj with | some a => a | none => one }, ?_, rfl, rfl, rfl,
            rfl, ?_, ?_, ?_⟩
    · simp only [findMinEnergyRate, hv]; rfl
    · cases adj <;> simp
    · intro y hy; cases hy
    · intro _; exact ⟨hall, hatt⟩

/-- every record `load_prediction_model` returns — Smartcore, Interpolate, Interpolate of Interpolate, … —
has a model that never fails: a rate in the configured unit for every speed, grade and input unit; and the
record carries the configured units and adjustment -/
theorem loaded_model_never_fails (cap : Nat) (rf : α → α → α) (mt : ModelType α) (su : SpeedUnit) (gu : GradeUnit)
    (ru : EnergyRateUnit) (ideal adj : Option α) (r : Record α)
    (h : loadPredictionModel cap rf true mt su gu ru ideal adj = .ok r) :
    (∀ speed qsu grade qgu, ∃ v, r.model speed qsu grade qgu = .ok (v, ru)) ∧ r.speedUnit = su ∧
      r.gradeUnit = gu ∧ r.energyRateUnit = ru ∧
      r.realWorldEnergyAdjustment = (match adj with | some a => a | none => 1) := by
  obtain ⟨h1, h2, h3, h4, h5⟩ := loaded_spec cap rf mt su gu ru ideal adj r h
  refine ⟨h1, h2, h3, h4, ?_⟩
  rw [h5]; cases adj <;> simp

/-- the `Interpolate` arm over *any* underlying model type (a forest, or another interpolation, to any
depth): the underlying model was loaded with the default ideal rate and adjustment, answers every grid
query, and the loaded model is exactly `InterpolationSpeedGradeModel::new` over the underlying record's rates
(`rateOf urec.model su gu`) with the configured speed bounds / bins and grade bounds / bins in their places —
so every theorem of the speed/grade section (between corners, exact on grid, continuity, clamping, never
fails) holds for the loaded model with `underlying := rateOf urec.model su gu` -/
theorem load_interpolate_is_new (cap : Nat) (rf : α → α → α) (u : ModelType α) (su : SpeedUnit) (gu : GradeUnit)
    (ru : EnergyRateUnit) (s0 s1 : α) (sb : Nat) (g0 g1 : α) (gb : Nat) (ideal adj : Option α) (r : Record α)
    (h : loadPredictionModel cap rf true (.interpolate u s0 s1 sb g0 g1 gb) su gu ru ideal adj = .ok r) :
    ∃ urec m, loadPredictionModel cap rf true u su gu ru none none = .ok urec ∧
      (∀ s g, urec.model s su g gu = .ok (rateOf urec.model su gu s g, ru)) ∧
      SpeedGradeModel.new (rateOf urec.model su gu) su s0 s1 sb gu g0 g1 gb ru = .ok m ∧
      r.model = m.predict ∧ r.speedUnit = su ∧ r.gradeUnit = gu ∧ r.energyRateUnit = ru ∧
      r.realWorldEnergyAdjustment = (match adj with | some a => a | none => 1) ∧ IdealRateOk r ideal ∧
      sb ≤ cap ∧ gb ≤ cap ∧ sb * gb ≤ cap := by
  cases hu : loadPredictionModel cap rf true u su gu ru none none with
  | ok urec =>
    obtain ⟨htot, _, _, hru, hadj⟩ := loaded_spec cap rf u su gu ru none none urec hu
    rw [load_interpolate_eq cap rf u su gu ru s0 s1 sb g0 g1 gb ideal adj urec hu htot hadj hru] at h
    obtain ⟨m, hm', h⟩ := Res.bind_eq_ok h
    obtain ⟨hm, hc1, hc2, hc3⟩ := newAlloc_ok_new cap _ su s0 s1 sb gu g0 g1 gb ru m hm'
    have hmt := new_predict_total (rateOf urec.model su gu) su s0 s1 sb gu g0 g1 gb ru m hm
    have htot' : ∀ s qsu g qgu, ∃ v w, m.predict s qsu g qgu = .ok (v, w) :=
      fun s qsu g qgu => by obtain ⟨v, hv⟩ := hmt s qsu g qgu; exact ⟨v, ru, hv⟩
    refine ⟨urec, m, rfl, ?_, hm, ?_⟩
    · intro s g
      obtain ⟨v, hv⟩ := htot s su g gu
      simp [rateOf, hv]
    · cases ideal with
      | some x =>
        simp only [Res.ok_bind, Res.ok.injEq] at h
        subst h
        refine ⟨rfl, rfl, rfl, rfl, ?_, ⟨?_, ?_⟩, hc1, hc2, hc3⟩
        · cases adj <;> simp
        · intro y hy; cases hy; rfl
        · intro h; cases h
      | none =>
        obtain ⟨v, hv, _, hall, hatt⟩ := findMinEnergyRateFrom_spec m.predict htot' sweepSpeeds f64Max
        simp only [findMinEnergyRate, hv, Res.ok_bind, Res.ok.injEq] at h
        subst h
        refine ⟨rfl, rfl, rfl, rfl, ?_, ⟨?_, ?_⟩, hc1, hc2, hc3⟩
        · cases adj <;> simp
        · intro y hy; cases hy
        · intro _; exact ⟨hall, hatt⟩
  | err e => unfold loadPredictionModel at h; simp only [hu, Res.err_bind] at h; cases h
  | panic st => unfold loadPredictionModel at h; simp only [hu] at h; cases h
  | diverges => unfold loadPredictionModel at h; simp only [hu] at h; cases h

/-- … in particular directly over a forest the underlying rates are the forest itself -/
theorem load_interpolate_over_forest_is_new (cap : Nat) (rf : α → α → α) (su : SpeedUnit) (gu : GradeUnit)
    (ru : EnergyRateUnit) (s0 s1 : α) (sb : Nat) (g0 g1 : α) (gb : Nat) (ideal adj : Option α) (r : Record α)
    (h : loadPredictionModel cap rf true (.interpolate .smartcore s0 s1 sb g0 g1 gb) su gu ru ideal adj = .ok r) :
    ∃ m, SpeedGradeModel.new rf su s0 s1 sb gu g0 g1 gb ru = .ok m ∧ r.model = m.predict := by
  obtain ⟨urec, m, hu, _, hm, hmod, _⟩ :=
    load_interpolate_is_new cap rf .smartcore su gu ru s0 s1 sb g0 g1 gb ideal adj r h
  obtain ⟨r', hr', hmodel, _⟩ := load_smartcore cap rf su gu ru none none
  rw [hr'] at hu; cases hu
  rw [hmodel, rateOf_smartcore] at hm
  exact ⟨m, hm, hmod⟩

/-- the `Interpolate` arm loads whenever its underlying model type loads, the bounds increase, there are at
least two bins per axis and the axes and the table can be allocated; with fewer bins it is an error; with a
bin count (or a product of bin counts) that cannot be allocated it is the allocation error — never a panic
or an abort -/
theorem load_interpolate_succeeds (cap : Nat) (rf : α → α → α) (u : ModelType α) (su : SpeedUnit) (gu : GradeUnit)
    (ru : EnergyRateUnit) (s0 s1 : α) (sb : Nat) (g0 g1 : α) (gb : Nat) (ideal adj : Option α)
    (urec : Record α) (hu : loadPredictionModel cap rf true u su gu ru none none = .ok urec) :
    (s0 < s1 → g0 < g1 → 2 ≤ sb → 2 ≤ gb → sb ≤ cap → gb ≤ cap → sb * gb ≤ cap →
      ∃ r, loadPredictionModel cap rf true (.interpolate u s0 s1 sb g0 g1 gb) su gu ru ideal adj = .ok r) ∧
    (sb < 2 ∨ gb < 2 →
      ∃ e, loadPredictionModel cap rf true (.interpolate u s0 s1 sb g0 g1 gb) su gu ru ideal adj = .err e) ∧
    (cap < sb ∨ cap < gb ∨ cap < sb * gb →
      loadPredictionModel cap rf true (.interpolate u s0 s1 sb g0 g1 gb) su gu ru ideal adj = .err .alloc) := by
  obtain ⟨htot, _, _, hru, hadj⟩ := loaded_spec cap rf u su gu ru none none urec hu
  rw [load_interpolate_eq cap rf u su gu ru s0 s1 sb g0 g1 gb ideal adj urec hu htot hadj hru, newAlloc_eq]
  refine ⟨?_, ?_, ?_⟩
  · intro hs hg hsb hgb hc1 hc2 hc3
    rw [if_neg (by omega)]
    obtain ⟨m, hm⟩ := new_ok (rateOf urec.model su gu) su s0 s1 sb gu g0 g1 gb ru hs hg hsb hgb
    rw [hm, Res.ok_bind]
    cases ideal with
    | some x => exact ⟨_, rfl⟩
    | none =>
      have hmt := new_predict_total (rateOf urec.model su gu) su s0 s1 sb gu g0 g1 gb ru m hm
      have htot' : ∀ s qsu g qgu, ∃ v w, m.predict s qsu g qgu = .ok (v, w) :=
        fun s qsu g qgu => by obtain ⟨v, hv⟩ := hmt s qsu g qgu; exact ⟨v, ru, hv⟩
      obtain ⟨v, hv, _, _, _⟩ := findMinEnergyRateFrom_spec m.predict htot' sweepSpeeds f64Max
      simp only [findMinEnergyRate, hv, Res.ok_bind]
      exact ⟨_, rfl⟩
  · intro h
    by_cases hc : cap < sb ∨ cap < gb ∨ cap < sb * gb
    · rw [if_pos hc]; exact ⟨_, rfl⟩
    · rw [if_neg hc]
      obtain ⟨e, he⟩ := new_rejects_short (rateOf urec.model su gu) su s0 s1 sb gu g0 g1 gb ru h
      rw [he]
      exact ⟨e, rfl⟩
  · intro hc
    rw [if_pos hc]; rfl

/-- `load_prediction_model` never panics or aborts: for every model type (nested to any depth), every
bound, every bin count (zero, one, beyond what can be allocated), readable file or not, it returns a record
or an error -/
theorem load_never_panics (cap : Nat) (rf : α → α → α) (fileOk : Bool) (mt : ModelType α) (su : SpeedUnit)
    (gu : GradeUnit) (ru : EnergyRateUnit) (ideal adj : Option α) :
    (∃ r, loadPredictionModel cap rf fileOk mt su gu ru ideal adj = .ok r) ∨
      (∃ e, loadPredictionModel cap rf fileOk mt su gu ru ideal adj = .err e) := by
  cases fileOk with
  | false => exact Or.inr ⟨_, load_unreadable cap rf mt su gu ru ideal adj⟩
  | true =>
    induction mt generalizing ideal adj with
    | smartcore =>
      obtain ⟨r, hr, _⟩ := load_smartcore cap rf su gu ru ideal adj
      exact Or.inl ⟨r, hr⟩
    | onnx => exact Or.inr ⟨_, load_onnx cap rf true .onnx rfl su gu ru ideal adj⟩
    | interpolate u s0 s1 sb g0 g1 gb ih =>
      rcases ih none none with ⟨urec, hu⟩ | ⟨e, he⟩
      · obtain ⟨htot, _, _, hru, hadj⟩ := loaded_spec cap rf u su gu ru none none urec hu
        rw [load_interpolate_eq cap rf u su gu ru s0 s1 sb g0 g1 gb ideal adj urec hu htot hadj hru, newAlloc_eq]
        by_cases hc : cap < sb ∨ cap < gb ∨ cap < sb * gb
        · rw [if_pos hc]; exact Or.inr ⟨_, rfl⟩
        · rw [if_neg hc]
          rcases new_graceful (rateOf urec.model su gu) su s0 s1 sb gu g0 g1 gb ru with ⟨m, hm⟩ | ⟨e, he⟩
          · rw [hm, Res.ok_bind]
            cases ideal with
            | some x => exact Or.inl ⟨_, rfl⟩
            | none =>
              have hmt := new_predict_total (rateOf urec.model su gu) su s0 s1 sb gu g0 g1 gb ru m hm
              have htot' : ∀ s qsu g qgu, ∃ v w, m.predict s qsu g qgu = .ok (v, w) :=
                fun s qsu g qgu => by obtain ⟨v, hv⟩ := hmt s qsu g qgu; exact ⟨v, ru, hv⟩
              obtain ⟨v, hv, _, _, _⟩ := findMinEnergyRateFrom_spec m.predict htot' sweepSpeeds f64Max
              simp only [findMinEnergyRate, hv, Res.ok_bind]
              exact Or.inl ⟨_, rfl⟩
          · rw [he]; exact Or.inr ⟨e, rfl⟩
      · right
        refine ⟨e, ?_⟩
        unfold loadPredictionModel
        simp only [he, Res.err_bind]

/-- the interpolated model against its underlying model — of any model type: a forest, or another
interpolation, to any depth —, both as loaded: the underlying model was loaded (default ideal rate and
adjustment), and at every grid point (given in the model's units) the two `PredictionModel::predict` results
are the same -/
theorem loaded_interpolation_matches_underlying_on_grid (cap : Nat) (rf : α → α → α) (u : ModelType α)
    (su : SpeedUnit) (gu : GradeUnit) (ru : EnergyRateUnit) (s0 s1 : α) (sb : Nat) (g0 g1 : α) (gb : Nat)
    (i1 a1 : Option α) (ri : Record α)
    (hi : loadPredictionModel cap rf true (.interpolate u s0 s1 sb g0 g1 gb) su gu ru i1 a1 = .ok ri)
    (xs ys : List α) (hxs : linspace s0 s1 sb = .ok xs) (hys : linspace g0 g1 gb = .ok ys)
    (i j : Nat) (x y : α) (hx : xs[i]? = some x) (hy : ys[j]? = some y) :
    ∃ urec, loadPredictionModel cap rf true u su gu ru none none = .ok urec ∧
      ri.model x su y gu = urec.model x su y gu := by
  obtain ⟨urec, m, hu, htot, hm, hmod, _⟩ := load_interpolate_is_new cap rf u su gu ru s0 s1 sb g0 g1 gb i1 a1 ri hi
  refine ⟨urec, hu, ?_⟩
  rw [hmod, htot x y]
  exact exact_on_grid _ su s0 s1 sb gu g0 g1 gb ru m hm xs ys hxs hys i j x y hx hy x su y gu
    (speed_convert_self su x) (grade_convert_self gu y)

/-- … in particular over a forest, against the smartcore model loaded with any ideal rate and adjustment: the
forest's own value at the grid point -/
theorem loaded_interpolation_matches_forest_on_grid (cap : Nat) (rf : α → α → α) (su : SpeedUnit) (gu : GradeUnit)
    (ru : EnergyRateUnit) (s0 s1 : α) (sb : Nat) (g0 g1 : α) (gb : Nat) (i1 a1 i2 a2 : Option α)
    (ri ru' : Record α)
    (hi : loadPredictionModel cap rf true (.interpolate .smartcore s0 s1 sb g0 g1 gb) su gu ru i1 a1 = .ok ri)
    (hu : loadPredictionModel cap rf true .smartcore su gu ru i2 a2 = .ok ru')
    (xs ys : List α) (hxs : linspace s0 s1 sb = .ok xs) (hys : linspace g0 g1 gb = .ok ys)
    (i j : Nat) (x y : α) (hx : xs[i]? = some x) (hy : ys[j]? = some y) :
    ri.model x su y gu = ru'.model x su y gu ∧ ri.model x su y gu = .ok (rf x y, ru) := by
  obtain ⟨m, hm, hmod⟩ := load_interpolate_over_forest_is_new cap rf su gu ru s0 s1 sb g0 g1 gb i1 a1 ri hi
  obtain ⟨r, hr, hrm, _⟩ := load_smartcore cap rf su gu ru i2 a2
  rw [hr] at hu; cases hu
  have h := exact_on_grid rf su s0 s1 sb gu g0 g1 gb ru m hm xs ys hxs hys i j x y hx hy x su y gu
    (speed_convert_self su x) (grade_convert_self gu y)
  rw [hmod, hrm, (smartcore_predict_def rf su gu ru x su y gu).2]
  exact ⟨h, h⟩

/-- (by construction of the model — an unfolding of `Record.predict`; that the *code* does this is evidenced
by the differential run, oracle key `load/record_energy`)
`PredictionModelRecord::predict` (no cache): the model's rate, times the real-world adjustment, times
the distance expressed in the rate's own distance unit; in the rate's own energy unit -/
theorem record_predict_def (r : Record α) (speed : α) (su : SpeedUnit) (grade : α) (gu : GradeUnit)
    (distance : α) (du : DistanceUnit) (rate : α) (u : EnergyRateUnit)
    (h : r.model speed su grade gu = .ok (rate, u)) :
    r.predict speed su grade gu distance du =
      .ok (rate * r.realWorldEnergyAdjustment * du.convert r.energyRateUnit.associatedDistanceUnit distance,
        r.energyRateUnit.associatedEnergyUnit) := by
  simp [Record.predict, h, Res.bind, createEnergy]

end

/-- regression witnesses of the repaired defects -/
example : findNearestIndex [(5 : ℚ)] 5 = .err .singleArr := by decide +kernel
example : (SpeedGradeModel.new (fun (_ _ : ℚ) => (1 : ℚ)) .milesPerHour 0 100 1 .decimal 0 1 5
    .gallonsGasolinePerMile).isOk = false := by decide +kernel
example : (SpeedGradeModel.new (fun (_ _ : ℚ) => (1 : ℚ)) .milesPerHour 0 100 0 .decimal 0 1 5
    .gallonsGasolinePerMile).isOk = false := by decide +kernel
example : validate2 [(1 : ℚ)] [0, 1] [[3, 4]] = .err .gridTooShort := by decide +kernel
example : validateN { grid := [[(0 : ℚ), 1]], shape := [2, 2], get := getFlat [2, 2] [0, 1, 2, 3] } = .err .gridDim ∧
    validateN { grid := ([] : List (List ℚ)), shape := [2], get := getFlat [2] [0, 1] } = .err .gridDim := by
  decide +kernel
example : linspace (0 : ℚ) 1 0 = .ok [] := by decide +kernel
/-- bin counts that cannot be allocated (the reviewer's 4·10¹² and `usize::MAX`, and two allocatable axes
whose table is not): the allocation error, with `cap` = 2⁴⁰ values -/
example : SpeedGradeModel.newAlloc (2 ^ 40) (fun (_ _ : ℚ) => (1 : ℚ)) .milesPerHour 0 100 4000000000000 .decimal
      (-1 / 5) (1 / 5) 41 .gallonsGasolinePerMile = .err .alloc ∧
    SpeedGradeModel.newAlloc (2 ^ 40) (fun (_ _ : ℚ) => (1 : ℚ)) .milesPerHour 0 100 101 .decimal
      (-1 / 5) (1 / 5) 18446744073709551615 .gallonsGasolinePerMile = .err .alloc ∧
    SpeedGradeModel.newAlloc (2 ^ 40) (fun (_ _ : ℚ) => (1 : ℚ)) .milesPerHour 0 100 3000000 .decimal
      (-1 / 5) (1 / 5) 3000000 .gallonsGasolinePerMile = .err .alloc := by
  refine ⟨?_, ?_, ?_⟩ <;>
    exact (new_alloc_never_panics _ _ _ _ _ _ _ _ _ _ _).2.1 (by norm_num)
/-- an N-D interpolator over a single value with no grid / an empty first grid: accepted, and the validated
entry point answers the empty point with the value (it used to index `grid[dim]` out of bounds) -/
example : validateN { grid := ([] : List (List ℚ)), shape := [1], get := getFlat [1] [7] } = .ok () ∧
    Interpolator.interpolate (.dn { grid := ([] : List (List ℚ)), shape := [1], get := getFlat [1] [7] }) []
      .linear = .ok 7 ∧
    Interpolator.interpolate (.dn { grid := [[], [(1 : ℚ), 2]], shape := [1, 1], get := getFlat [1, 1] [7] }) []
      .none = .ok 7 := by decide +kernel
/-- 1-D and N-D accept one-point axes and work on them -/
example : Interpolator.interpolate (.d1 [(5 : ℚ)] [1]) [5] .linear = .ok 1 ∧
    Interpolator.interpolate (.dn { grid := [[(5 : ℚ)], [0, 1]], shape := [1, 2], get := getFlat [1, 2] [3, 4] })
      [5, 1 / 2] .linear = .ok (7 / 2) := by decide +kernel

/-! ### remaining defect of the code, machine-checked on the faithful model (ℚ) -/

/-- the raw (public) `Interp1D/2D/3D/ND::linear` methods do not reject points outside the grid: above the grid
they index out of bounds, below it they extrapolate (`0 + (1-0)·(-1) = -1` is not between the corner values);
only `Interpolator::interpolate` rejects.  Left as a known finding: whether the raw methods should reject,
clamp or extrapolate is an API decision (the only caller in the workspace goes through `interpolate`). -/
theorem raw_linear_outside_counterexample :
    linear2 [(0 : ℚ), 1] [0, 1] [[0, 0], [1, 1]] [2, 0] = .panic .index ∧
      linear2 [(0 : ℚ), 1] [0, 1] [[0, 0], [1, 1]] [-1, 0] = .ok (-1) ∧
      Interpolator.interpolate (.d2 [(0 : ℚ), 1] [0, 1] [[0, 0], [1, 1]]) [2, 0] .linear = .err .outside ∧
      linear1 [(0 : ℚ), 1] [0, 1] 2 = .panic .index ∧ linear1 [(0 : ℚ), 1] [0, 1] (-1) = .ok (-1) ∧
      linear3 [(0 : ℚ), 1] [0, 1] [0, 1] [[[0, 0], [0, 0]], [[1, 1], [1, 1]]] [2, 0, 0] = .panic .index ∧
      linear3 [(0 : ℚ), 1] [0, 1] [0, 1] [[[0, 0], [0, 0]], [[1, 1], [1, 1]]] [-1, 0, 0] = .ok (-1) ∧
      linearN (nd2 [(0 : ℚ), 1] [0, 1] [[0, 0], [1, 1]]) [2, 1 / 2] = .panic .index ∧
      linearN (nd2 [(0 : ℚ), 1] [0, 1] [[0, 0], [1, 1]]) [-1, 1 / 2] = .ok (-1) := by
  decide +kernel

/-- `nd_agrees_1d` without its `2 ≤ x.length`: a one-point 1-D interpolator is accepted and works, the N-D
interpolator over the same data is refused by `InterpND::new` -/
theorem nd_agrees_1d_one_point_counterexample :
    validate1 [(5 : ℚ)] [1] = .ok () ∧ validateN (nd1 [(5 : ℚ)] [1]) = .err .gridDim ∧
      Interpolator.interpolate (.d1 [(5 : ℚ)] [1]) [5] .linear = .ok 1 ∧
      Interpolator.interpolate (.dn (nd1 [(5 : ℚ)] [1])) [5] .linear = .err .pointLen := by
  decide +kernel

/-! ### non-vacuity: the hypotheses are met and the functions compute -/

example : (SpeedGradeModel.new (fun (s g : ℚ) => s + 2 * g) .milesPerHour 0 100 3 .decimal (-1) 1 3
      .gallonsGasolinePerMile).bind (fun m => m.predict 25 .milesPerHour 1 .decimal)
    = .ok (27, .gallonsGasolinePerMile) := by decide +kernel
example : (SpeedGradeModel.new (fun (s g : ℚ) => s * g) .milesPerHour 0 100 3 .decimal (-1) 1 3
      .gallonsGasolinePerMile).bind (fun m => m.predict 500 .kilometersPerHour 30 .percent)
    = .ok (30, .gallonsGasolinePerMile) := by decide +kernel
example : findNearestIndex [(0 : ℚ), 1, 2] 2 = .ok 1 ∧ findNearestIndex [(0 : ℚ), 1, 2] 1 = .ok 0
    ∧ findNearestIndex [(0 : ℚ), 1, 2] (3 / 2) = .ok 1 := by decide +kernel
example : Interpolator.interpolate (.d2 [(0 : ℚ), 1, 3] [0, 2] [[0, 2], [1, 3], [3, 5]]) [2, 1] .linear
    = .ok 3 := by decide +kernel
example : Interpolator.interpolate (.d1 [(0 : ℚ), 1, 3] [1, 3, 7]) [2] .linear = .ok 5 := by decide +kernel
example : Interpolator.interpolate (.dn (nd2 [(0 : ℚ), 1, 3] [0, 2] [[0, 2], [1, 3], [3, 5]])) [2, 1] .linear
    = .ok 3 := by decide +kernel
example : Interpolator.interpolate (.dn (nd2 [(0 : ℚ), 1, 3] [0, 2] [[0, 2], [1, 3], [3, 5]])) [1, 2] .linear
    = .ok 3 := by decide +kernel
example : Interpolator.interpolate (.dn (nd2 [(0 : ℚ), 1, 3] [0, 2] [[0, 2], [1, 3], [3, 5]])) [4, 1] .linear
    = .err .outside := by decide +kernel
example : validateN (nd2 [(0 : ℚ), 1, 3] [0, 2] [[0, 2], [1, 3], [3, 5]]) = .ok () := by decide +kernel
example : (loadPredictionModel 1000 (fun (s g : ℚ) => s + 2 * g) true (.interpolate .smartcore 0 100 3 (-1) 1 3)
      .milesPerHour .decimal .gallonsGasolinePerMile (some 7) none).bind
      (fun r => r.predict 25 .milesPerHour 1 .decimal 2 .miles) = .ok (54, .gallonsGasoline) := by
  decide +kernel
example : (loadPredictionModel 1000 (fun (s g : ℚ) => s + 2 * g) true .smartcore
      .milesPerHour .decimal .gallonsGasolinePerMile none (some 2)).bind
      (fun r => .ok (r.idealEnergyRate, r.realWorldEnergyAdjustment)) = .ok ((20 : ℚ), (2 : ℚ)) := by
  decide +kernel
example : linspace (0 : ℚ) 1 5 = .ok [0, 1 / 4, 1 / 2, 3 / 4, 1] := by decide +kernel
example : Interpolator.interpolate (.d3 [(0 : ℚ), 1] [0, 1] [0, 2] [[[0, 2], [1, 3]], [[1, 3], [2, 4]]])
    [1 / 2, 1 / 2, 1] .linear = .ok 2 := by decide +kernel

/-! ### non-vacuity: the theorems' hypotheses instantiated on realistic values -/

/-- the bundled configuration (0..100 mph in 101 bins, grade -0.2..0.2 in 41 bins) over any underlying
model: `new` returns a model (`hnew`), and the headline theorems apply to it for a query in other units -/
example (underlying : ℚ → ℚ → ℚ) :
    ∃ m v xs ys, SpeedGradeModel.new underlying .milesPerHour 0 100 101 .decimal (-1 / 5) (1 / 5) 41
        .gallonsGasolinePerMile = .ok m ∧
      linspace (0 : ℚ) 100 101 = .ok xs ∧ linspace (-1 / 5 : ℚ) (1 / 5) 41 = .ok ys ∧
      m.predict 250 .kilometersPerHour 3 .percent = .ok (v, .gallonsGasolinePerMile) ∧
      m.predict 250 .kilometersPerHour 3 .percent =
        m.predict (clampTo xs (SpeedUnit.kilometersPerHour.convert .milesPerHour 250)) .milesPerHour
          (clampTo ys (GradeUnit.percent.convert .decimal 3)) .decimal := by
  obtain ⟨m, hm⟩ := new_succeeds underlying .milesPerHour (0 : ℚ) 100 101 .decimal (-1 / 5) (1 / 5) 41
    .gallonsGasolinePerMile (by norm_num) (by norm_num) (by norm_num) (by norm_num)
  obtain ⟨v, hv⟩ := predict_never_fails underlying .milesPerHour 0 100 101 .decimal (-1 / 5) (1 / 5) 41
    .gallonsGasolinePerMile m hm 250 .kilometersPerHour 3 .percent
  obtain ⟨xs, hxs⟩ := linspace_ok (0 : ℚ) 100 101
  obtain ⟨ys, hys⟩ := linspace_ok (-1 / 5 : ℚ) (1 / 5) 41
  exact ⟨m, v, xs, ys, hm, hxs, hys, hv, clamp_outside underlying .milesPerHour 0 100 101 .decimal (-1 / 5) (1 / 5) 41
    .gallonsGasolinePerMile m hm xs ys hxs hys 250 .kilometersPerHour 3 .percent⟩

/-- `multilinear_exact_nd` on a non-uniform grid with a non-constant multilinear function: every hypothesis
(`hM`, `hgrids`, `hget`, `hp`) discharged on concrete data -/
example : Interpolator.interpolate (.dn (nd2 [(0 : ℚ), 1, 3] [0, 2] [[0, 2], [1, 3], [3, 5]])) [2, 1] .linear
    = .ok (0 + 1 * (2 : ℚ) + 1 * 1 + 0 * 2 * 1) := by
  have gx : GoodGrid [(0 : ℚ), 1, 3] := ⟨by decide +kernel, by decide⟩
  have gy : GoodGrid [(0 : ℚ), 2] := ⟨by decide +kernel, by decide⟩
  have hr : Rect2 [[(0 : ℚ), 2], [1, 3], [3, 5]] [(0 : ℚ), 1, 3].length [(0 : ℚ), 2].length := by
    refine ⟨by decide, ?_⟩
    intro r hr; simp at hr; rcases hr with rfl | rfl | rfl <;> rfl
  have V := nd2_valid [(0 : ℚ), 1, 3] [0, 2] [[0, 2], [1, 3], [3, 5]] gx gy hr
  have := multilinear_exact_nd (nd2 [(0 : ℚ), 1, 3] [0, 2] [[0, 2], [1, 3], [3, 5]])
    (fun v => 0 + 1 * v.getD 0 0 + 1 * v.getD 1 0 + 0 * v.getD 0 0 * v.getD 1 0)
    (multiAffine_bilinear 0 1 1 0) V.grids (by
      intro ix hix
      rw [V.get_ok ix hix]
      cases hix with
      | cons h1 rest =>
        cases rest with
        | cons h2 rest2 =>
          cases rest2
          rename_i i j
          simp at h1 h2
          have hi : i = 0 ∨ i = 1 ∨ i = 2 := by omega
          have hj : j = 0 ∨ j = 1 := by omega
          rcases hi with rfl | rfl | rfl <;> rcases hj with rfl | rfl <;>
            simp [G2, F2, coords, nd2] <;> norm_num) [2, 1]
    (List.Forall₂.cons ⟨0, 3, by decide +kernel, by decide +kernel, by norm_num, by norm_num⟩
      (List.Forall₂.cons ⟨0, 2, by decide +kernel, by decide +kernel, by norm_num, by norm_num⟩ List.Forall₂.nil))
  simpa using this

/-- a nested `Interpolate{Interpolate{Smartcore}}` configuration loads (`load_interpolate_succeeds` twice, every
premise discharged), so `load_interpolate_is_new` / `loaded_interpolation_matches_underlying_on_grid` apply to
it; and it computes: the swept ideal rate is attained (20 = rf at 20 mph, grade 0) and a prediction goes
through both levels -/
example : ∃ r, loadPredictionModel 1000 (fun (s g : ℚ) => s + 2 * g) true
      (.interpolate (.interpolate .smartcore 0 100 3 (-1) 1 3) 10 90 5 (-1 / 2) (1 / 2) 3)
      .milesPerHour .decimal .gallonsGasolinePerMile none none = .ok r := by
  obtain ⟨r0, h0, _⟩ := load_smartcore 1000 (fun (s g : ℚ) => s + 2 * g) .milesPerHour .decimal
    .gallonsGasolinePerMile none none
  obtain ⟨r1, h1⟩ := (load_interpolate_succeeds 1000 (fun (s g : ℚ) => s + 2 * g) .smartcore .milesPerHour
    .decimal .gallonsGasolinePerMile 0 100 3 (-1) 1 3 none none r0 h0).1 (by norm_num) (by norm_num)
    (by norm_num) (by norm_num) (by norm_num) (by norm_num) (by norm_num)
  exact (load_interpolate_succeeds 1000 (fun (s g : ℚ) => s + 2 * g) (.interpolate .smartcore 0 100 3 (-1) 1 3)
    .milesPerHour .decimal .gallonsGasolinePerMile 10 90 5 (-1 / 2) (1 / 2) 3 none none r1 h1).1 (by norm_num)
    (by norm_num) (by norm_num) (by norm_num) (by norm_num) (by norm_num) (by norm_num)
example : (loadPredictionModel 1000 (fun (s g : ℚ) => s + 2 * g) true
      (.interpolate (.interpolate .smartcore 0 100 3 (-1) 1 3) 10 90 5 (-1 / 2) (1 / 2) 3)
      .milesPerHour .decimal .gallonsGasolinePerMile none none).bind
      (fun r => (r.model 30 .milesPerHour (1 / 4) .decimal).bind fun p => .ok (r.idealEnergyRate, p.1))
    = .ok ((20 : ℚ), (30 + 1 / 2 : ℚ)) := by decide +kernel

/-- `validated_interpolation_never_panics` on a constructed N-D interpolator over a single value -/
example : ∀ pt s, (∃ v, Interpolator.interpolate
      (.dn { grid := ([] : List (List ℚ)), shape := [1], get := getFlat [1] [7] }) pt s = .ok v) ∨
    (∃ e, Interpolator.interpolate
      (.dn { grid := ([] : List (List ℚ)), shape := [1], get := getFlat [1] [7] }) pt s = .err e) := by
  intro pt s
  have hc : Constructed (.dn { grid := ([] : List (List ℚ)), shape := [1], get := getFlat [1] [7] }) := by
    refine ⟨by decide +kernel, ?_⟩
    intro ix hix
    cases hix with
    | cons h rest =>
      cases rest
      rename_i i
      have : i = 0 := by omega
      subst this
      exact ⟨7, by decide +kernel⟩
  exact validated_interpolation_never_panics _ hc pt s

end C14
end Compass

namespace Compass
namespace C14
open Src

/-! ### Source decision ties

The relational operators at the named comparison sites of the Rust source are re-extracted on every run
by `tools/gen_model.py` into `Compass/Gen/Decisions.lean` (`Src.<site> : Src.Rel`).  Each theorem below
says that the hand-written model decides at that site by exactly the operator the source has there
(`Rel.nat` / `Rel.int` / `Rel.num` interpret the extracted operator; an unrecognised line is `none`).  A
source change that turns `<` into `<=`, `>` into `>=`, … at a site changes the generated constant and this
proof obligation stops checking, whether or not a generated case lands on the tie. -/

theorem src_interp_round_half {α : Type} [Field α] [LinearOrder α] [IsStrictOrderedRing α] [Lit α] [LawfulLit α] (x f : List α) (p : α) :
    Interp.nearest1 x f p =
      match Interp.position (fun v => Interp.eqv v p) x with
      | some i => Interp.idx f i
      | none => (Interp.cellOf x p).bind fun c =>
          if interp_round_half.num c.2 (Lit.lit 1 2 : α) = some true then Interp.idx f c.1
          else Interp.idx f (c.1 + 1) := by
  unfold Interp.nearest1
  cases Interp.position (fun v => Interp.eqv v p) x <;> simp [interp_round_half, Rel.num]

theorem src_find_nearest_step {α : Type} [Field α] [LinearOrder α] [IsStrictOrderedRing α] [Lit α] [LawfulLit α] (arr : List α) (t : α) (fuel low high : Nat) :
    Interp.bsearch arr t (fuel + 1) low high =
      if find_nearest_loop.nat low high = some true then
        match arr[low + (high - low) / 2]? with
        | none => .panic .index
        | some v =>
          if find_nearest_mid.num v t = some true then Interp.bsearch arr t fuel low (low + (high - low) / 2)
          else Interp.bsearch arr t fuel (low + (high - low) / 2 + 1) high
      else .ok low := by
  by_cases h : low < high
  · simp only [Interp.bsearch, h, find_nearest_loop, find_nearest_mid, Rel.nat, Rel.num]
    cases arr[low + (high - low) / 2]? <;> simp
  · simp [Interp.bsearch, h, find_nearest_loop, Rel.nat]

/-- the one `inAxis` of the model is the pair of comparisons the source has in this arm / axis of
`validate_inputs` (`interp.g[0] <= p && p <= interp.g.last()`), operator by operator -/
theorem src_in_grid_1d_x {α : Type} [Field α] [LinearOrder α] [IsStrictOrderedRing α] [Lit α] [LawfulLit α] (g : List α) (p : α) :
    Interp.inAxis g p =
      (Interp.idx g 0).bind fun lo =>
        match g.getLast? with
        | none => .panic .index
        | some hi => .ok ((in_grid_1d_x_low.num lo p == some true) && (in_grid_1d_x_high.num p hi == some true)) := by
  unfold Interp.inAxis
  cases Interp.idx g 0 <;> simp [Interp.Res.bind, in_grid_1d_x_low, in_grid_1d_x_high, Rel.num]
  cases g.getLast? <;> simp

/-- the one `inAxis` of the model is the pair of comparisons the source has in this arm / axis of
`validate_inputs` (`interp.g[0] <= p && p <= interp.g.last()`), operator by operator -/
theorem src_in_grid_2d_x {α : Type} [Field α] [LinearOrder α] [IsStrictOrderedRing α] [Lit α] [LawfulLit α] (g : List α) (p : α) :
    Interp.inAxis g p =
      (Interp.idx g 0).bind fun lo =>
        match g.getLast? with
        | none => .panic .index
        | some hi => .ok ((in_grid_2d_x_low.num lo p == some true) && (in_grid_2d_x_high.num p hi == some true)) := by
  unfold Interp.inAxis
  cases Interp.idx g 0 <;> simp [Interp.Res.bind, in_grid_2d_x_low, in_grid_2d_x_high, Rel.num]
  cases g.getLast? <;> simp

/-- the one `inAxis` of the model is the pair of comparisons the source has in this arm / axis of
`validate_inputs` (`interp.g[0] <= p && p <= interp.g.last()`), operator by operator -/
theorem src_in_grid_2d_y {α : Type} [Field α] [LinearOrder α] [IsStrictOrderedRing α] [Lit α] [LawfulLit α] (g : List α) (p : α) :
    Interp.inAxis g p =
      (Interp.idx g 0).bind fun lo =>
        match g.getLast? with
        | none => .panic .index
        | some hi => .ok ((in_grid_2d_y_low.num lo p == some true) && (in_grid_2d_y_high.num p hi == some true)) := by
  unfold Interp.inAxis
  cases Interp.idx g 0 <;> simp [Interp.Res.bind, in_grid_2d_y_low, in_grid_2d_y_high, Rel.num]
  cases g.getLast? <;> simp

/-- the one `inAxis` of the model is the pair of comparisons the source has in this arm / axis of
`validate_inputs` (`interp.g[0] <= p && p <= interp.g.last()`), operator by operator -/
theorem src_in_grid_3d_x {α : Type} [Field α] [LinearOrder α] [IsStrictOrderedRing α] [Lit α] [LawfulLit α] (g : List α) (p : α) :
    Interp.inAxis g p =
      (Interp.idx g 0).bind fun lo =>
        match g.getLast? with
        | none => .panic .index
        | some hi => .ok ((in_grid_3d_x_low.num lo p == some true) && (in_grid_3d_x_high.num p hi == some true)) := by
  unfold Interp.inAxis
  cases Interp.idx g 0 <;> simp [Interp.Res.bind, in_grid_3d_x_low, in_grid_3d_x_high, Rel.num]
  cases g.getLast? <;> simp

/-- the one `inAxis` of the model is the pair of comparisons the source has in this arm / axis of
`validate_inputs` (`interp.g[0] <= p && p <= interp.g.last()`), operator by operator -/
theorem src_in_grid_3d_y {α : Type} [Field α] [LinearOrder α] [IsStrictOrderedRing α] [Lit α] [LawfulLit α] (g : List α) (p : α) :
    Interp.inAxis g p =
      (Interp.idx g 0).bind fun lo =>
        match g.getLast? with
        | none => .panic .index
        | some hi => .ok ((in_grid_3d_y_low.num lo p == some true) && (in_grid_3d_y_high.num p hi == some true)) := by
  unfold Interp.inAxis
  cases Interp.idx g 0 <;> simp [Interp.Res.bind, in_grid_3d_y_low, in_grid_3d_y_high, Rel.num]
  cases g.getLast? <;> simp

/-- the one `inAxis` of the model is the pair of comparisons the source has in this arm / axis of
`validate_inputs` (`interp.g[0] <= p && p <= interp.g.last()`), operator by operator -/
theorem src_in_grid_3d_z {α : Type} [Field α] [LinearOrder α] [IsStrictOrderedRing α] [Lit α] [LawfulLit α] (g : List α) (p : α) :
    Interp.inAxis g p =
      (Interp.idx g 0).bind fun lo =>
        match g.getLast? with
        | none => .panic .index
        | some hi => .ok ((in_grid_3d_z_low.num lo p == some true) && (in_grid_3d_z_high.num p hi == some true)) := by
  unfold Interp.inAxis
  cases Interp.idx g 0 <;> simp [Interp.Res.bind, in_grid_3d_z_low, in_grid_3d_z_high, Rel.num]
  cases g.getLast? <;> simp

/-- the one `inAxis` of the model is the pair of comparisons the source has in this arm / axis of
`validate_inputs` (`interp.g[0] <= p && p <= interp.g.last()`), operator by operator -/
theorem src_in_grid_nd {α : Type} [Field α] [LinearOrder α] [IsStrictOrderedRing α] [Lit α] [LawfulLit α] (g : List α) (p : α) :
    Interp.inAxis g p =
      (Interp.idx g 0).bind fun lo =>
        match g.getLast? with
        | none => .panic .index
        | some hi => .ok ((in_grid_nd_low.num lo p == some true) && (in_grid_nd_high.num p hi == some true)) := by
  unfold Interp.inAxis
  cases Interp.idx g 0 <;> simp [Interp.Res.bind, in_grid_nd_low, in_grid_nd_high, Rel.num]
  cases g.getLast? <;> simp

/-- every adjacent pair of the list stands in the relation the source has at the site -/
def adjacentAll {α : Type} [LT α] [LE α] [DecidableLT α] [DecidableLE α] (r : Src.Rel) : List α → Bool
  | [] => true
  | [_] => true
  | a :: b :: t => (r.num a b == some true) && adjacentAll r (b :: t)


/-- the model's one `strictlyIncreasing` is the `windows(2).all(|w| w[0] < w[1])` the source has for this axis -/
theorem src_sorted_1d_x {α : Type} [Field α] [LinearOrder α] [IsStrictOrderedRing α] [Lit α] [LawfulLit α] (l : List α) :
    Interp.strictlyIncreasing l = adjacentAll sorted_1d_x l := by
  induction l using Interp.strictlyIncreasing.induct with
  | case1 => rfl
  | case2 => rfl
  | case3 a b r ih => simp [Interp.strictlyIncreasing, adjacentAll, ih, sorted_1d_x, Rel.num]

/-- the model's one `strictlyIncreasing` is the `windows(2).all(|w| w[0] < w[1])` the source has for this axis -/
theorem src_sorted_2d_x {α : Type} [Field α] [LinearOrder α] [IsStrictOrderedRing α] [Lit α] [LawfulLit α] (l : List α) :
    Interp.strictlyIncreasing l = adjacentAll sorted_2d_x l := by
  induction l using Interp.strictlyIncreasing.induct with
  | case1 => rfl
  | case2 => rfl
  | case3 a b r ih => simp [Interp.strictlyIncreasing, adjacentAll, ih, sorted_2d_x, Rel.num]

/-- the model's one `strictlyIncreasing` is the `windows(2).all(|w| w[0] < w[1])` the source has for this axis -/
theorem src_sorted_2d_y {α : Type} [Field α] [LinearOrder α] [IsStrictOrderedRing α] [Lit α] [LawfulLit α] (l : List α) :
    Interp.strictlyIncreasing l = adjacentAll sorted_2d_y l := by
  induction l using Interp.strictlyIncreasing.induct with
  | case1 => rfl
  | case2 => rfl
  | case3 a b r ih => simp [Interp.strictlyIncreasing, adjacentAll, ih, sorted_2d_y, Rel.num]

/-- the model's one `strictlyIncreasing` is the `windows(2).all(|w| w[0] < w[1])` the source has for this axis -/
theorem src_sorted_3d_x {α : Type} [Field α] [LinearOrder α] [IsStrictOrderedRing α] [Lit α] [LawfulLit α] (l : List α) :
    Interp.strictlyIncreasing l = adjacentAll sorted_3d_x l := by
  induction l using Interp.strictlyIncreasing.induct with
  | case1 => rfl
  | case2 => rfl
  | case3 a b r ih => simp [Interp.strictlyIncreasing, adjacentAll, ih, sorted_3d_x, Rel.num]

/-- the model's one `strictlyIncreasing` is the `windows(2).all(|w| w[0] < w[1])` the source has for this axis -/
theorem src_sorted_3d_y {α : Type} [Field α] [LinearOrder α] [IsStrictOrderedRing α] [Lit α] [LawfulLit α] (l : List α) :
    Interp.strictlyIncreasing l = adjacentAll sorted_3d_y l := by
  induction l using Interp.strictlyIncreasing.induct with
  | case1 => rfl
  | case2 => rfl
  | case3 a b r ih => simp [Interp.strictlyIncreasing, adjacentAll, ih, sorted_3d_y, Rel.num]

/-- the model's one `strictlyIncreasing` is the `windows(2).all(|w| w[0] < w[1])` the source has for this axis -/
theorem src_sorted_3d_z {α : Type} [Field α] [LinearOrder α] [IsStrictOrderedRing α] [Lit α] [LawfulLit α] (l : List α) :
    Interp.strictlyIncreasing l = adjacentAll sorted_3d_z l := by
  induction l using Interp.strictlyIncreasing.induct with
  | case1 => rfl
  | case2 => rfl
  | case3 a b r ih => simp [Interp.strictlyIncreasing, adjacentAll, ih, sorted_3d_z, Rel.num]

/-- the model's one `strictlyIncreasing` is the `windows(2).all(|w| w[0] < w[1])` the source has for this axis -/
theorem src_sorted_nd {α : Type} [Field α] [LinearOrder α] [IsStrictOrderedRing α] [Lit α] [LawfulLit α] (l : List α) :
    Interp.strictlyIncreasing l = adjacentAll sorted_nd l := by
  induction l using Interp.strictlyIncreasing.induct with
  | case1 => rfl
  | case2 => rfl
  | case3 a b r ih => simp [Interp.strictlyIncreasing, adjacentAll, ih, sorted_nd, Rel.num]

end C14
end Compass
