/-
Total-correctness complement to `Proofs/ConfigUniform.lean` (distance traversal model): on a
well-formed configuration the calls the search makes do not fail.

`ConfigUniform` needs no well-formedness because its premises are about calls that answer.  Here the
state invariant of `UniformCostOn` earns its keep: with

  `S lastEdge state := state.length = number of features ∧ lastEdge is an edge of the graph`

(true of the initial pair, passed on by every traversal) the frontier models, `forward_traversal` /
`reverse_traversal` and `estimate_traversal_cost` all return on every listed edge / known vertex, with
the verdict `okOf`, the cost `costOf` and the estimate `hOf` — the total form of `UniformCostOn`.
-/
import Compass.Proofs.ConfigUniform
import Compass.Proofs.SearchLimits

namespace Compass

set_option linter.unusedSectionVars false

section
variable {α : Type} [Field α] [LinearOrder α] [IsStrictOrderedRing α] [Lit α] [LawfulLit α]

/-- what the configuration loader guarantees, for the distance model -/
structure Config.WellFormedDistance (c : Config α) (du : DistanceUnit) : Prop where
  trav : c.trav = .distance du
  noAccess : c.access = .noAccess
  noTurn : c.frontier.all FrontierM.prevFree = true
  /-- a distance feature called "distance" exists -/
  slot : ∃ j fu, distSlot c.feats "distance" = some (j, fu)
  /-- the cost model's vectors cover every feature index it iterates over -/
  cost_range : ∀ i ∈ c.cost.indices, i < c.feats.length ∧ i < c.cost.weights.length ∧
    i < c.cost.vehicleRates.length ∧ i < c.cost.networkRates.length
  /-- no frontier model errs on an edge of the graph (road-class tables are long enough) -/
  frontier_total : ∀ e, e < c.edges.length → ∃ b, frontierValid c.frontier e none = .ok b
  /-- the great-circle table holds distances: no entry is the marker "the haversine function refused
  the coordinates" (every vertex lies in [-180, 180] × [-90, 90]).  NOT something the loader
  guarantees — the vertex file is read without a range check —, a premise on the network: with one
  vertex out of range the estimate of that vertex is a traversal error and the run fails, Dijkstra
  included (`Model/Instance.lean`, `estimate`) -/
  gc_nonneg : ∀ x ∈ c.gc, 0 ≤ x

/-- the invariant of the (last edge, state) pairs -/
def Config.StateOK (c : Config α) (le : Option Nat) (st : List α) : Prop :=
  st.length = c.feats.length ∧ ∀ l, le = some l → l < c.edges.length

theorem Config.stateOK_init (c : Config α) : c.StateOK none (initialState c.feats) :=
  ⟨by simp [initialState], fun l h => by cases h⟩

theorem distSlot_some {fs : List (Feat α)} {name : String} {j : Nat} {fu : DistanceUnit}
    (h : distSlot fs name = some (j, fu)) :
    featIndex fs name = some j ∧ ∃ f, fs[j]? = some f ∧ f.kind = .dist fu := by
  unfold distSlot at h
  cases hi : featIndex fs name with
  | none => simp [hi] at h
  | some i =>
    simp only [hi] at h
    cases hf : fs[i]? with
    | none => simp [hf] at h
    | some f =>
      simp only [hf] at h
      cases hk : f.kind with
      | dist u =>
        simp only [hk, Option.some.injEq, Prod.mk.injEq] at h
        obtain ⟨rfl, rfl⟩ := h
        exact ⟨rfl, f, hf, hk⟩
      | time u => simp [hk] at h
      | other => simp [hk] at h

/-- on a state of the right length `add_distance` returns, and keeps the length -/
theorem addDistance_total {fs : List (Feat α)} {name : String} {j : Nat} {fu : DistanceUnit}
    (h : distSlot fs name = some (j, fu)) (st : List α) (hst : st.length = fs.length) (d : α)
    (fromU : DistanceUnit) :
    ∃ st', addDistance fs st name d fromU = some st' ∧ st'.length = st.length := by
  obtain ⟨hi, f, hf, hk⟩ := distSlot_some h
  have hj : j < fs.length := by
    rcases Nat.lt_or_ge j fs.length with h | h
    · exact h
    · rw [List.getElem?_eq_none h] at hf; cases hf
  have hs : st[j]? = some st[j] := List.getElem?_eq_getElem (hst ▸ hj)
  refine ⟨st.set j (st[j] + fromU.convert fu d), ?_, by simp⟩
  unfold addDistance
  simp only [hi, hs, hf, hk]

theorem Config.inRange_of_wf (c : Config α) {du : DistanceUnit} (W : c.WellFormedDistance du)
    {st st' : List α} (h1 : st.length = c.feats.length) (h2 : st'.length = c.feats.length) :
    c.cost.InRange st st' := by
  intro i hi
  obtain ⟨a, b, d, e⟩ := W.cost_range i hi
  exact ⟨h1 ▸ a, h2 ▸ a, d, b, e⟩

/-- **the frontier models answer** on every edge of the graph, with `okOf` -/
theorem Config.valid_total (c : Config α) {du : DistanceUnit} (W : c.WellFormedDistance du)
    {e : Nat} (he : e < c.edges.length) (le : Option Nat) (st : List α) :
    c.inst.valid e st le = .ok (c.okOf e) := by
  obtain ⟨b, hb⟩ := W.frontier_total e he
  simp only [Config.inst, List.getElem?_eq_getElem he]
  rw [frontierValid_prevFree c.frontier W.noTurn e le, hb]
  simp [Config.okOf, hb]

/-- **`forward_traversal` / `reverse_traversal` answer** on every edge of the graph from every pair
satisfying the invariant, charge `costOf`, and pass the invariant on -/
theorem Config.trav_total (c : Config α) {du : DistanceUnit} (W : c.WellFormedDistance du)
    {e : Nat} (he : e < c.edges.length) {le : Option Nat} {st : List α} (hS : c.StateOK le st) :
    ∃ ac tc st', c.inst.trav e le st = .ok (ac, tc, st') ∧ ac + tc = c.costOf e ∧
      c.StateOK (some e) st' := by
  obtain ⟨j, fu, hslot⟩ := W.slot
  obtain ⟨hlen, hle⟩ := hS
  have hee : c.edges[e]? = some c.edges[e] := List.getElem?_eq_getElem he
  -- the access part
  have hacc : ∃ ac, edgeAccess c e le st = .ok (ac, st) := by
    unfold edgeAccess
    cases le with
    | none => exact ⟨_, rfl⟩
    | some l =>
      have hl := hle l rfl
      simp only [List.getElem?_eq_getElem hl, W.noAccess, AccessModel.access]
      have hsome := (C07.access_cost_isSome_iff c.cost (if c.reverse then e else l)
        (if c.reverse then l else e) st st).mpr (c.inRange_of_wf W hlen hlen).toV
      obtain ⟨a, ha⟩ := Option.isSome_iff_exists.1 hsome
      exact ⟨_, by rw [ha]⟩
  obtain ⟨ac, hac⟩ := hacc
  -- the traversal
  obtain ⟨st2, htr, hlen2⟩ := addDistance_total hslot st hlen
    (baseDistanceUnit.convert du c.edges[e].dist) du
  have htrav : c.trav.traverse c.feats c.edges e st = some st2 := by
    simp only [TravModel.traverse, hee, W.trav]
    exact htr
  -- the cost
  have hsome := (C07.traversal_cost_isSome_iff c.cost e st st2).mpr
    (c.inRange_of_wf W hlen (hlen2.trans hlen))
  obtain ⟨total, htot⟩ := Option.isSome_iff_exists.1 hsome
  have hres : edgeTraversal c e le st = .ok (ac, total - ac, st2) := by
    simp only [edgeTraversal, hee, hac, htrav, htot]
  refine ⟨ac, total - ac, st2, hres, ?_, hlen2.trans hlen, fun l hl => ?_⟩
  · exact edgeTraversal_noAccess c W.noAccess e le st _ _ _ hres
  · cases hl; exact he

/-- **`estimate_traversal_cost` answers** on every vertex of the great-circle table from every state
of the right length, with `hOf` -/
theorem Config.h_total (c : Config α) {du : DistanceUnit} (W : c.WellFormedDistance du)
    {v : Nat} (hv : v < c.gc.length) {st : List α} (hlen : st.length = c.feats.length) :
    c.inst.h v st = .ok (c.hOf v) := by
  obtain ⟨j, fu, hslot⟩ := W.slot
  obtain ⟨dst, hd, hlen2⟩ := addDistance_total hslot st hlen
    (DistanceUnit.meters.convert du c.gc[v]) du
  have hest : c.trav.estimate c.feats c.gc[v] st = some dst := by
    simp only [TravModel.estimate, W.trav]
    exact hd
  have hsome := (C07.cost_estimate_isSome_iff c.cost st dst).mpr
    (c.inRange_of_wf W hlen (hlen2.trans hlen)).toV
  obtain ⟨est, hes⟩ := Option.isSome_iff_exists.1 hsome
  have hnn : ¬ (c.gc[v] < (zero : α)) := by
    rw [zero_eq]; exact not_lt.mpr (W.gc_nonneg _ (List.getElem_mem hv))
  have hres : ∃ x, estimate c v st = .ok x := by
    simp only [estimate, List.getElem?_eq_getElem hv, hnn, if_false, hest, hes]
    exact ⟨_, rfl⟩
  obtain ⟨x, hx⟩ := hres
  have := estimate_eq c v st x hx
  simp only [Config.inst]
  rw [hx, this]

/-! ### Run level: a well-formed configuration never ends in a model error

The only errors a run can end in are "no path", the explicit termination (`terminated`, or the
`iteration % 0` panic of a zero-frequency runtime limit) and the two schedule errors of the model's
replay mechanism (no counterpart in the code).  In particular none of `network`, `frontier`,
`traversal`, `access`, `cost`, `state`, `internal` — the "expected vertex missing from solution" and
the backtrack errors included. -/

/-- the error kinds a well-formed run can end in -/
def Benign (k : ErrKind) : Prop :=
  k = .noPath ∨ (∃ ks, k = .terminated ks) ∨ k = .panic "termination-frequency-zero" ∨
    k = .badSchedule ∨ k = .scheduleExhausted

/-- every tree entry carries a pair satisfying the invariant -/
def Config.SolStateOK (c : Config α) (sol : Nat → Option (Branch α)) : Prop :=
  ∀ v b, sol v = some b → c.StateOK (some b.edge) b.state

/-- the graph side of well-formedness: listed edge ids are edges of the graph, and (with a target)
the great-circle table covers the source and every edge's far end -/
structure Config.GraphOK (c : Config α) (source : Nat) (hasTarget : Bool) : Prop where
  adj : c.AdjConsistent
  inc_range : ∀ v e, e ∈ c.inst.incident v → e < c.edges.length
  gc_source : hasTarget = true → source < c.gc.length
  gc_range : hasTarget = true → ∀ e, e < c.edges.length → c.inst.keyV e < c.gc.length

theorem test_error_benign (m : TermM) (sz it : Nat) (k : ErrKind) (h : m.test sz it = .error k) :
    Benign k := by
  rcases SearchLimits.terminated_is_explicit m sz it with h1 | ⟨ks, h1, _⟩ | h1
  · rw [h1.1] at h; cases h
  · rw [h1] at h; cases h; exact Or.inr (Or.inl ⟨ks, rfl⟩)
  · rw [h1.1] at h; cases h; exact Or.inr (Or.inr (Or.inl rfl))

/-- one relaxation returns -/
theorem Config.relax_total (c : Config α) {du : DistanceUnit} (W : c.WellFormedDistance du)
    {hasT : Bool} {le : Option Nat} {st : List α} (hS : c.StateOK le st) (s : SState α) {e : Nat}
    (he : e < c.edges.length) (hk : hasT = true → c.inst.keyV e < c.gc.length)
    (hsol : c.SolStateOK s.sol) :
    ∃ s', relax c.inst hasT le st s e = .ok s' ∧ c.SolStateOK s'.sol := by
  unfold relax
  rw [c.valid_total W he le st]
  cases c.okOf e with
  | false => exact ⟨s, rfl, hsol⟩
  | true =>
    obtain ⟨ac, tc, st', htr, _, hS'⟩ := c.trav_total W he hS
    simp only [htr]
    cases s.g (c.inst.termV e) with
    | none => exact ⟨s, rfl, hsol⟩
    | some gt =>
      simp only
      split
      · have hh : ∃ x, (if hasT = true then c.inst.h (c.inst.keyV e) st else Except.ok (zero : α))
            = .ok x := by
          cases hasT with
          | false => exact ⟨_, rfl⟩
          | true => exact ⟨_, by simp only [if_true]; exact c.h_total W (hk rfl) hS.1⟩
        obtain ⟨x, hx⟩ := hh
        rw [hx]
        refine ⟨_, rfl, ?_⟩
        intro v b hb
        simp only at hb
        by_cases hv : v = c.inst.keyV e
        · subst hv
          rw [SearchTree.upd_same] at hb
          cases hb
          exact hS'
        · rw [SearchTree.upd_other _ _ _ hv] at hb
          exact hsol v b hb
      · exact ⟨s, rfl, hsol⟩

/-- the `for` loop over listed edges returns -/
theorem Config.relaxAll_total (c : Config α) {du : DistanceUnit} (W : c.WellFormedDistance du)
    {hasT : Bool} {le : Option Nat} {st : List α} (hS : c.StateOK le st) :
    ∀ (es : List Nat) (s : SState α), (∀ e ∈ es, e < c.edges.length) →
      (hasT = true → ∀ e ∈ es, c.inst.keyV e < c.gc.length) → c.SolStateOK s.sol →
      ∃ s', relaxAll c.inst hasT le st es s = .ok s' ∧ c.SolStateOK s'.sol
  | [], s, _, _, hsol => ⟨s, rfl, hsol⟩
  | e :: es, s, hes, hks, hsol => by
    obtain ⟨s1, h1, hsol1⟩ := c.relax_total W hS s (hes e List.mem_cons_self)
      (fun h => hks h e List.mem_cons_self) hsol
    obtain ⟨s', h2, hsol'⟩ := c.relaxAll_total W hS es s1
      (fun e' he' => hes e' (List.mem_cons_of_mem _ he'))
      (fun h e' he' => hks h e' (List.mem_cons_of_mem _ he')) hsol1
    exact ⟨s', by simp only [relaxAll, h1, h2], hsol'⟩

/-- the loop ends in a result or a benign error -/
theorem Config.runLoop_benign (c : Config α) {du : DistanceUnit} (W : c.WellFormedDistance du)
    {source : Nat} {target : Option Nat} (G : c.GraphOK source target.isSome) :
    ∀ (sched : List Nat) (s : SState α), SearchTree.TreeInv c.inst source s →
      c.SolStateOK s.sol → ∀ k, runLoop c.inst source target sched s = .error k → Benign k := by
  have hI := c.inst_wf G.adj
  intro sched
  induction sched with
  | nil =>
    intro s hinv hsol k h
    unfold runLoop at h
    split at h
    · rename_i k' hk'
      cases h
      exact test_error_benign _ _ _ _ hk'
    · split at h
      · split at h
        · cases h; exact Or.inl rfl
        · cases h
      · cases h; exact Or.inr (Or.inr (Or.inr (Or.inr rfl)))
  | cons v rest ih =>
    intro s hinv hsol k h
    unfold runLoop at h
    split at h
    · rename_i k' hk'
      cases h
      exact test_error_benign _ _ _ _ hk'
    · split at h
      · split at h
        · cases h; exact Or.inl rfl
        · cases h
      · simp only at h
        split at h
        · cases h; exact Or.inr (Or.inr (Or.inr (Or.inl rfl)))
        · rename_i hpop
          have hpop' : popOk s.queue v = true := by simpa using hpop
          split at h
          · cases h
          · split at h
            · rename_i hcur
              -- the popped vertex is the source or has an entry
              exfalso
              rcases SearchTree.popped_has_entry hinv hpop' with hv | hv
              · simp [hv] at hcur
              · by_cases hvs : v = source
                · simp [hvs] at hcur
                · obtain ⟨b, hb⟩ := Option.isSome_iff_exists.1 hv
                  simp [hvs, hb] at hcur
            · rename_i lastEdge st hcur
              have hS : c.StateOK lastEdge st := by
                by_cases hvs : v = source
                · simp only [hvs, if_true] at hcur
                  cases hcur
                  exact c.stateOK_init
                · simp only [hvs, if_false] at hcur
                  split at hcur
                  · rename_i b hb'
                    cases hcur
                    exact hsol v b hb'
                  · cases hcur
              obtain ⟨s2, h2, hsol2⟩ := c.relaxAll_total W hS (c.inst.incident v)
                { s with queue := s.queue.filter (fun p => !(p.1 == v)) }
                (fun e he => G.inc_range v e he)
                (fun ht e he => G.gc_range ht e (G.inc_range v e he)) hsol
              rw [h2] at h
              simp only at h
              have hinv2 : SearchTree.TreeInv c.inst source s2 :=
                SearchTree.relaxAll_incident_treeInv hI v (hinv.pop v) h2
              exact ih _ hinv2.bump hsol2 k h

/-- **a run on a well-formed configuration returns a result or ends in a benign error** -/
theorem config_run_benign (c : Config α) {du : DistanceUnit} (W : c.WellFormedDistance du)
    {source : Nat} {target : Option Nat} (G : c.GraphOK source target.isSome) (sched : List Nat)
    (k : ErrKind) (h : c.runVertex source target sched = .error k) : Benign k := by
  have hI := c.inst_wf G.adj
  -- the error comes from `run_a_star`
  have hra : runAStar c.inst source target sched = .error k := by
    unfold Config.runVertex at h
    split at h
    · rename_i k' hk'
      cases h
      cases target with
      | none =>
        unfold runVertexOriented at hk'
        split at hk'
        · rename_i k'' hk''; cases hk'; exact hk''
        · cases hk'
      | some t =>
        by_cases hts : t = source
        · subst hts
          obtain ⟨res, hres, _⟩ := SearchTree.runVertexOriented_source c.inst t sched
          rw [hres] at hk'; cases hk'
        · exact SearchTree.runVertexOriented_error hI source t sched _ hts hk'
    · cases h
  unfold runAStar at hra
  split at hra
  · cases hra
  · split at hra
    · rename_i k' hk'
      cases hra
      -- the initial estimate returns
      exfalso
      cases target with
      | none => cases hk'
      | some t =>
        simp only at hk'
        have := c.h_total W (G.gc_source rfl) (c.stateOK_init).1
        simp only [Config.inst] at this hk'
        rw [this] at hk'
        cases hk'
    · rename_i f0 _
      exact c.runLoop_benign W G sched _ (SearchTree.initState_treeInv c.inst source f0)
        (fun v b hb => by cases hb) k hra

end

/-! ### Non-vacuity: `ConfigUniform.Example.exC` is well formed -/

namespace ConfigUniform.Example

theorem exC_wellFormed : exC.WellFormedDistance .meters where
  trav := rfl
  noAccess := rfl
  noTurn := rfl
  slot := ⟨0, .kilometers, by decide +kernel⟩
  cost_range := by
    intro i hi
    simp only [exC, List.mem_singleton] at hi
    subst hi
    simp [exC]
  frontier_total := by
    intro e _
    by_cases h : e = 6 <;> simp [frontierValid, FrontierM.valid, exC, h]
  gc_nonneg := by
    intro x hx
    simp only [exC, List.mem_cons, List.not_mem_nil, or_false] at hx
    rcases hx with rfl | rfl | rfl | rfl | rfl <;> exact le_refl _

theorem exC_graphOK (source : Nat) (hs : source < 5) (hasT : Bool) : exC.GraphOK source hasT where
  adj := adj_of exC rfl rfl rfl
  inc_range := by
    intro v e he
    simp only [Config.inst, exC] at he ⊢
    match v with
    | 0 => simp at he; rcases he with rfl | rfl <;> simp
    | 1 => simp at he; rcases he with rfl | rfl | rfl <;> simp
    | 2 => simp at he; rcases he with rfl | rfl <;> simp
    | 3 => simp at he; subst he; simp
    | n + 4 => simp at he
  gc_source := fun _ => by simpa [exC] using hs
  gc_range := by
    intro _
    have : ∀ e < 8, exC.inst.keyV e < exC.gc.length := by decide +kernel
    intro e he
    exact this e (by simpa [exC] using he)

end ConfigUniform.Example

end Compass
