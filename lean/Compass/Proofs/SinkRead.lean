/-
`SinkRead.parse (Sink.compact j) = some (eraseBits j)`: the reader gives back what the serializer wrote.
Core Lean only.
-/
import Compass.Model.SinkRead
import Compass.Proofs.Sink

namespace Compass
namespace SinkRead
open Sink

theorem hexVal_hexDigit : ∀ n, n < 16 → hexVal (hexDigit n) = some n := by decide

theorem parseStrBody_cons_plain (c : Char) (tail : List Char) (h1 : c ≠ '"') (h2 : c ≠ '\\')
    (h3 : ¬ c.toNat < 32) :
    parseStrBody (c :: tail) =
      match parseStrBody tail with
      | some (s, r) => some (c :: s, r)
      | none => none := by
  rw [parseStrBody.eq_def]
  simp only [h1, h2, h3, if_false]
  cases parseStrBody tail with
  | none => rfl
  | some p => rfl

theorem parseStrBody_escape1 (e ch : Char) (tail : List Char) (he : e ≠ 'u') (hu : unescape1 e = some ch) :
    parseStrBody ('\\' :: e :: tail) =
      match parseStrBody tail with
      | some (s, r) => some (ch :: s, r)
      | none => none := by
  rw [parseStrBody.eq_def]
  simp only [show ¬ ('\\' = '"') by decide, if_false, if_true, he, hu]
  cases parseStrBody tail with
  | none => rfl
  | some p => rfl

theorem parseStrBody_unicode (c : Char) (tail : List Char) (hc : c.toNat < 32) :
    parseStrBody ('\\' :: 'u' :: '0' :: '0' :: hexDigit (c.toNat / 16) :: hexDigit (c.toNat % 16) :: tail) =
      match parseStrBody tail with
      | some (s, r) => some (c :: s, r)
      | none => none := by
  rw [parseStrBody.eq_def]
  simp only [show ¬ ('\\' = '"') by decide, if_false, if_true]
  have h0 : hexVal '0' = some 0 := by decide
  rw [h0, hexVal_hexDigit _ (by omega), hexVal_hexDigit _ (Nat.mod_lt _ (by decide))]
  have hval : ((0 * 16 + 0) * 16 + c.toNat / 16) * 16 + c.toNat % 16 = c.toNat := by omega
  cases parseStrBody tail with
  | none => rfl
  | some p => simp only [hval, Char.ofNat_toNat]

/-- reading an escaped character gives the character back -/
theorem parseStrBody_escapeChar (c : Char) (tail : List Char) :
    parseStrBody (escapeChar c ++ tail) =
      match parseStrBody tail with
      | some (s, r) => some (c :: s, r)
      | none => none := by
  unfold escapeChar
  split
  · rename_i h; subst h
    exact parseStrBody_escape1 '"' '"' tail (by decide) (by decide)
  · split
    · rename_i _ h; subst h
      exact parseStrBody_escape1 '\\' '\\' tail (by decide) (by decide)
    · split
      · rename_i _ _ h; subst h
        exact parseStrBody_escape1 'n' '\n' tail (by decide) (by decide)
      · split
        · rename_i _ _ _ h; subst h
          exact parseStrBody_escape1 'r' '\r' tail (by decide) (by decide)
        · split
          · rename_i _ _ _ _ h; subst h
            exact parseStrBody_escape1 't' '\t' tail (by decide) (by decide)
          · split
            · rename_i _ _ _ _ _ h
              have : c = Char.ofNat 8 := by rw [← h, Char.ofNat_toNat]
              subst this
              exact parseStrBody_escape1 'b' (Char.ofNat 8) tail (by decide) (by decide)
            · split
              · rename_i _ _ _ _ _ _ h
                have : c = Char.ofNat 12 := by rw [← h, Char.ofNat_toNat]
                subst this
                exact parseStrBody_escape1 'f' (Char.ofNat 12) tail (by decide) (by decide)
              · split
                · rename_i h
                  exact parseStrBody_unicode c tail h
                · rename_i h1 h2 _ _ _ _ _ h3
                  exact parseStrBody_cons_plain c tail h1 h2 h3

theorem parseStrBody_escapeChars (cs rest : List Char) :
    parseStrBody (escapeChars cs ++ '"' :: rest) = some (cs, rest) := by
  induction cs with
  | nil => rw [parseStrBody.eq_def]; simp [escapeChars]
  | cons c cs ih =>
    simp only [escapeChars, List.append_assoc]
    rw [parseStrBody_escapeChar, ih]

theorem expect_append (w t : List Char) : expect w (w ++ t) = some t := by
  induction w with
  | nil => cases t <;> rfl
  | cons c cs ih => simp [expect, ih]

theorem expect_ne (w c : Char) (t : List Char) (h : w ≠ c) : expect [w] (c :: t) = none := by
  simp [expect, h]

theorem numChar_not_special (c : Char) (h : isNumChar c = true) :
    c ≠ '"' ∧ c ≠ '[' ∧ c ≠ '{' ∧ c ≠ 'n' ∧ c ≠ 't' ∧ c ≠ 'f' ∧ c ≠ ']' ∧ c ≠ '}' := by
  refine ⟨?_, ?_, ?_, ?_, ?_, ?_, ?_, ?_⟩ <;> (intro e; subst e; revert h; decide)

/-- what may follow a value: nothing, or a character that cannot continue a number -/
def Delim (rest : List Char) : Prop := ∀ c r, rest = c :: r → isNumChar c = false

theorem delim_nil : Delim [] := by intro c r h; cases h
theorem delim_cons (c : Char) (r : List Char) (h : isNumChar c = false) : Delim (c :: r) := by
  intro c' r' e; cases e; exact h

theorem takeWhile_delim (rest : List Char) (h : Delim rest) :
    rest.takeWhile isNumChar = [] ∧ rest.dropWhile isNumChar = rest := by
  cases rest with
  | nil => simp
  | cons c r => simp [h c r rfl]

mutual
/-- fuel that suffices to read a value back -/
def need : Json → Nat
  | .arr xs => 1 + needList xs
  | .obj kvs => 1 + needKvs kvs
  | _ => 1
def needList : List Json → Nat
  | [] => 0
  | x :: xs => 1 + need x + needList xs
def needKvs : List (String × Json) → Nat
  | [] => 0
  | (_, v) :: r => 1 + need v + needKvs r
end

/-- the first character of a value's text is neither `]` nor `}` -/
theorem compact_head (j : Json) (h : numsOk j = true) :
    ∃ c t, compact j = c :: t ∧ c ≠ ']' ∧ c ≠ '}' := by
  cases j with
  | null => exact ⟨'n', _, rfl, by decide, by decide⟩
  | bool b => cases b <;> exact ⟨_, _, rfl, by decide, by decide⟩
  | num l b =>
    simp only [numsOk, lexOk, Bool.and_eq_true] at h
    cases hl : l.toList with
    | nil => simp [hl] at h
    | cons c t =>
      have hc : isNumChar c = true := by
        have := List.all_eq_true.1 h.2 c (by rw [hl]; exact List.mem_cons_self ..)
        exact this
      have := numChar_not_special c hc
      exact ⟨c, t, by simp [compact, hl], this.2.2.2.2.2.2.1, this.2.2.2.2.2.2.2⟩
  | str s => exact ⟨'"', _, rfl, by decide, by decide⟩
  | arr xs => exact ⟨'[', _, rfl, by decide, by decide⟩
  | obj kvs => exact ⟨'{', _, rfl, by decide, by decide⟩

theorem parseValue_num (l : String) (h : lexOk l = true) (fuel : Nat) (rest : List Char)
    (hd : Delim rest) : parseValue (fuel + 1) (l.toList ++ rest) = some (.num l 0, rest) := by
  have hall := lexOk_all l h
  simp only [lexOk, Bool.and_eq_true] at h
  cases hl : l.toList with
  | nil => simp [hl] at h
  | cons c t =>
    have hc : isNumChar c = true := hall c (by rw [hl]; exact List.mem_cons_self ..)
    obtain ⟨h1, h2, h3, h4, h5, h6, _, _⟩ := numChar_not_special c hc
    rw [List.cons_append, parseValue]
    simp only [h1, h2, h3, h4, h5, h6, if_false, hc, if_true]
    have hall' : ∀ a ∈ c :: t, isNumChar a = true := by rw [← hl]; exact hall
    rw [← List.cons_append, List.takeWhile_append_of_pos hall', List.dropWhile_append_of_pos hall',
      (takeWhile_delim rest hd).1, (takeWhile_delim rest hd).2, List.append_nil, ← hl, String.ofList_toList]

theorem txt_null : txt "null" = ['n', 'u', 'l', 'l'] := by decide
theorem txt_true : txt "true" = ['t', 'r', 'u', 'e'] := by decide
theorem txt_false : txt "false" = ['f', 'a', 'l', 's', 'e'] := by decide

theorem joinWith_cons_head (sep x : List Char) (r : List (List Char)) :
    ∃ t, joinWith sep (x :: r) = x ++ t := by
  cases r with
  | nil => exact ⟨[], by simp [joinWith]⟩
  | cons y r' => exact ⟨sep ++ joinWith sep (y :: r'), by simp [joinWith]⟩

theorem succ_of_pos (fuel : Nat) (h : 1 ≤ fuel) : ∃ f, fuel = f + 1 := ⟨fuel - 1, by omega⟩

mutual
/-- the reader gives back a value's text, whatever (delimiting) text follows -/
theorem parseValue_compact : ∀ (j : Json), numsOk j = true → ∀ (fuel : Nat) (rest : List Char),
    need j ≤ fuel → Delim rest → parseValue fuel (compact j ++ rest) = some (eraseBits j, rest)
  | .null, _, fuel, rest, hf, _ => by
    obtain ⟨f, rfl⟩ := succ_of_pos fuel (by simpa [need] using hf)
    simp [compact, txt_null, parseValue, expect, eraseBits]
  | .bool true, _, fuel, rest, hf, _ => by
    obtain ⟨f, rfl⟩ := succ_of_pos fuel (by simpa [need] using hf)
    simp [compact, txt_true, parseValue, expect, eraseBits]
  | .bool false, _, fuel, rest, hf, _ => by
    obtain ⟨f, rfl⟩ := succ_of_pos fuel (by simpa [need] using hf)
    simp [compact, txt_false, parseValue, expect, eraseBits]
  | .num l b, h, fuel, rest, hf, hd => by
    obtain ⟨f, rfl⟩ := succ_of_pos fuel (by simpa [need] using hf)
    simp only [compact, eraseBits]
    exact parseValue_num l (by simpa [numsOk] using h) f rest hd
  | .str s, _, fuel, rest, hf, _ => by
    obtain ⟨f, rfl⟩ := succ_of_pos fuel (by simpa [need] using hf)
    have e : compact (.str s) ++ rest = '"' :: (escapeChars s.toList ++ '"' :: rest) := by
      simp [compact, quoteStr]
    rw [e, parseValue]
    simp only [if_true, parseStrBody_escapeChars, String.ofList_toList, eraseBits]
  | .arr [], _, fuel, rest, hf, _ => by
    obtain ⟨f, rfl⟩ := succ_of_pos fuel (by simp [need] at hf; omega)
    have e : compact (.arr []) ++ rest = '[' :: ']' :: rest := by simp [compact, compactList, joinWith]
    rw [e, parseValue]
    simp [expect, eraseBits, eraseBitsList]
  | .arr (x :: xs), h, fuel, rest, hf, _ => by
    obtain ⟨f, rfl⟩ := succ_of_pos fuel (by simp [need] at hf; omega)
    have hxs : numsOkList (x :: xs) = true := by simpa [numsOk] using h
    have hx : numsOk x = true := by simp only [numsOkList, Bool.and_eq_true] at hxs; exact hxs.1
    have hneed : needList (x :: xs) ≤ f := by simp only [need] at hf; omega
    have e : compact (.arr (x :: xs)) ++ rest
        = '[' :: (joinWith [','] (compactList (x :: xs)) ++ ']' :: rest) := by simp [compact]
    obtain ⟨c0, t0, hc0, hne, _⟩ := compact_head x hx
    obtain ⟨t1, ht1⟩ := joinWith_cons_head [','] (compact x) (compactList xs)
    have hexp : expect [']'] (joinWith [','] (compactList (x :: xs)) ++ ']' :: rest) = none := by
      rw [show compactList (x :: xs) = compact x :: compactList xs from rfl, ht1, hc0]
      simp only [List.cons_append]
      exact expect_ne _ _ _ (fun e => hne e.symm)
    rw [e, parseValue]
    simp only [show ¬ ('[' = '"') by decide, if_false, if_true, hexp,
      parseElems_compact (x :: xs) (by simp) hxs f rest hneed, eraseBits]
  | .obj [], _, fuel, rest, hf, _ => by
    obtain ⟨f, rfl⟩ := succ_of_pos fuel (by simp [need] at hf; omega)
    have e : compact (.obj []) ++ rest = '{' :: '}' :: rest := by simp [compact, compactKvs, joinWith]
    rw [e, parseValue]
    simp [expect, eraseBits, eraseBitsKvs]
  | .obj ((k, v) :: kvs), h, fuel, rest, hf, _ => by
    obtain ⟨f, rfl⟩ := succ_of_pos fuel (by simp [need] at hf; omega)
    have hkvs : numsOkKvs ((k, v) :: kvs) = true := by simpa [numsOk] using h
    have hneed : needKvs ((k, v) :: kvs) ≤ f := by simp only [need] at hf; omega
    have e : compact (.obj ((k, v) :: kvs)) ++ rest
        = '{' :: (joinWith [','] (compactKvs ((k, v) :: kvs)) ++ '}' :: rest) := by simp [compact]
    obtain ⟨t1, ht1⟩ := joinWith_cons_head [','] (quoteStr k ++ ':' :: compact v) (compactKvs kvs)
    have hexp : expect ['}'] (joinWith [','] (compactKvs ((k, v) :: kvs)) ++ '}' :: rest) = none := by
      rw [show compactKvs ((k, v) :: kvs) = (quoteStr k ++ ':' :: compact v) :: compactKvs kvs from rfl, ht1]
      simp only [quoteStr, List.cons_append]
      exact expect_ne '}' '"' _ (by decide)
    rw [e, parseValue]
    simp only [show ¬ ('{' = '"') by decide, show ¬ ('{' = '[') by decide, if_false, if_true, hexp,
      parseMembers_compact ((k, v) :: kvs) (by simp) hkvs f rest hneed, eraseBits]
/-- `v,v,…,v]` -/
theorem parseElems_compact : ∀ (xs : List Json), xs ≠ [] → numsOkList xs = true → ∀ (fuel : Nat) (rest : List Char),
    needList xs ≤ fuel →
    parseElems fuel (joinWith [','] (compactList xs) ++ ']' :: rest) = some (eraseBitsList xs, rest)
  | [], hne, _, _, _, _ => absurd rfl hne
  | [x], _, h, fuel, rest, hf => by
    obtain ⟨f, rfl⟩ := succ_of_pos fuel (by simp [needList] at hf; omega)
    have hx : numsOk x = true := by simpa [numsOkList] using h
    have hnx : need x ≤ f := by simp only [needList] at hf; omega
    simp only [compactList, joinWith]
    rw [parseElems, parseValue_compact x hx f (']' :: rest) hnx (delim_cons _ _ (by decide : isNumChar ']' = false))]
    simp [eraseBitsList]
  | x :: y :: ys, _, h, fuel, rest, hf => by
    obtain ⟨f, rfl⟩ := succ_of_pos fuel (by simp [needList] at hf; omega)
    simp only [numsOkList, Bool.and_eq_true] at h
    have hnx : need x ≤ f := by simp only [needList] at hf; omega
    have hny : needList (y :: ys) ≤ f := by simp only [needList] at hf ⊢; omega
    have e : joinWith [','] (compactList (x :: y :: ys)) ++ ']' :: rest
        = compact x ++ ',' :: (joinWith [','] (compactList (y :: ys)) ++ ']' :: rest) := by
      simp [compactList, joinWith]
    rw [e, parseElems, parseValue_compact x h.1 f _ hnx (delim_cons _ _ (by decide : isNumChar ',' = false))]
    simp only [if_true,
      parseElems_compact (y :: ys) (by simp) (by simp [numsOkList, h.2]) f rest hny, eraseBitsList]
/-- `"k":v,…,"k":v}` -/
theorem parseMembers_compact : ∀ (kvs : List (String × Json)), kvs ≠ [] → numsOkKvs kvs = true →
    ∀ (fuel : Nat) (rest : List Char), needKvs kvs ≤ fuel →
    parseMembers fuel (joinWith [','] (compactKvs kvs) ++ '}' :: rest) = some (eraseBitsKvs kvs, rest)
  | [], hne, _, _, _, _ => absurd rfl hne
  | [(k, v)], _, h, fuel, rest, hf => by
    obtain ⟨f, rfl⟩ := succ_of_pos fuel (by simp [needKvs] at hf; omega)
    have hv : numsOk v = true := by simpa [numsOkKvs] using h
    have hnv : need v ≤ f := by simp only [needKvs] at hf; omega
    have e : joinWith [','] (compactKvs [(k, v)]) ++ '}' :: rest
        = '"' :: (escapeChars k.toList ++ '"' :: ':' :: (compact v ++ '}' :: rest)) := by
      simp [compactKvs, joinWith, quoteStr]
    rw [e, parseMembers]
    simp only [if_true, parseStrBody_escapeChars,
      parseValue_compact v hv f ('}' :: rest) hnv (delim_cons _ _ (by decide : isNumChar '}' = false)),
      show ¬ ('}' = ',') by decide, if_false, String.ofList_toList, eraseBitsKvs]
  | (k, v) :: (k2, v2) :: kvs, _, h, fuel, rest, hf => by
    obtain ⟨f, rfl⟩ := succ_of_pos fuel (by simp [needKvs] at hf; omega)
    simp only [numsOkKvs, Bool.and_eq_true] at h
    have hnv : need v ≤ f := by simp only [needKvs] at hf; omega
    have hnr : needKvs ((k2, v2) :: kvs) ≤ f := by simp only [needKvs] at hf ⊢; omega
    have e : joinWith [','] (compactKvs ((k, v) :: (k2, v2) :: kvs)) ++ '}' :: rest
        = '"' :: (escapeChars k.toList ++ '"' :: ':' :: (compact v ++ ',' ::
            (joinWith [','] (compactKvs ((k2, v2) :: kvs)) ++ '}' :: rest))) := by
      simp [compactKvs, joinWith, quoteStr]
    rw [e, parseMembers]
    simp only [if_true, parseStrBody_escapeChars,
      parseValue_compact v h.1 f _ hnv (delim_cons _ _ (by decide : isNumChar ',' = false)),
      parseMembers_compact ((k2, v2) :: kvs) (by simp) (by simp [numsOkKvs, h.2]) f rest hnr,
      String.ofList_toList, eraseBitsKvs]
end

mutual
theorem need_le_length : ∀ (j : Json), numsOk j = true → need j ≤ (compact j).length
  | .null, _ => by simp [need, compact, txt_null]
  | .bool true, _ => by simp [need, compact, txt_true]
  | .bool false, _ => by simp [need, compact, txt_false]
  | .num l _, h => by
    simp only [numsOk, lexOk, Bool.and_eq_true] at h
    simp only [need, compact]
    cases hl : l.toList with
    | nil => simp [hl] at h
    | cons c t => simp
  | .str s, _ => by simp [need, compact, quoteStr]
  | .arr xs, h => by
    have := needList_le_length xs (by simpa [numsOk] using h)
    simp only [need, compact, List.length_cons, List.length_append, List.length_nil]
    omega
  | .obj kvs, h => by
    have := needKvs_le_length kvs (by simpa [numsOk] using h)
    simp only [need, compact, List.length_cons, List.length_append, List.length_nil]
    omega
theorem needList_le_length : ∀ (xs : List Json), numsOkList xs = true →
    needList xs ≤ (joinWith [','] (compactList xs)).length + 1
  | [], _ => by simp [needList]
  | [x], h => by
    have := need_le_length x (by simpa [numsOkList] using h)
    simp only [needList, compactList, joinWith]
    omega
  | x :: y :: ys, h => by
    simp only [numsOkList, Bool.and_eq_true] at h
    have h1 := need_le_length x h.1
    have h2 := needList_le_length (y :: ys) (by simp [numsOkList, h.2])
    simp only [compactList] at h2
    simp only [needList, compactList, joinWith, List.length_append, List.length_cons, List.length_nil] at h2 ⊢
    omega
theorem needKvs_le_length : ∀ (kvs : List (String × Json)), numsOkKvs kvs = true →
    needKvs kvs ≤ (joinWith [','] (compactKvs kvs)).length + 1
  | [], _ => by simp [needKvs]
  | [(k, v)], h => by
    have := need_le_length v (by simpa [numsOkKvs] using h)
    simp only [needKvs, compactKvs, joinWith, List.length_append, List.length_cons]
    omega
  | (k, v) :: (k2, v2) :: kvs, h => by
    simp only [numsOkKvs, Bool.and_eq_true] at h
    have h1 := need_le_length v h.1
    have h2 := needKvs_le_length ((k2, v2) :: kvs) (by simp [numsOkKvs, h.2])
    simp only [compactKvs] at h2
    simp only [needKvs, compactKvs, joinWith, List.length_append, List.length_cons, List.length_nil] at h2 ⊢
    omega
end

/-- ROUND TRIP: reading the compact text of a value gives the value back (numbers as their lexemes) -/
theorem parse_compact (j : Json) (h : numsOk j = true) : parse (compact j) = some (eraseBits j) := by
  unfold parse
  have := parseValue_compact j h ((compact j).length + 1) [] (by have := need_le_length j h; omega) delim_nil
  rw [List.append_nil] at this
  rw [this]

mutual
theorem depth_eraseBits : ∀ j : Json, depth (eraseBits j) = depth j
  | .null => rfl
  | .bool _ => rfl
  | .num _ _ => rfl
  | .str _ => rfl
  | .arr xs => by simp only [eraseBits, depth, depthList_eraseBits xs]
  | .obj kvs => by simp only [eraseBits, depth, depthKvs_eraseBits kvs]
theorem depthList_eraseBits : ∀ xs : List Json, depthList (eraseBitsList xs) = depthList xs
  | [] => rfl
  | x :: xs => by simp only [eraseBitsList, depthList, depth_eraseBits x, depthList_eraseBits xs]
theorem depthKvs_eraseBits : ∀ kvs : List (String × Json), depthKvs (eraseBitsKvs kvs) = depthKvs kvs
  | [] => rfl
  | (k, v) :: r => by simp only [eraseBitsKvs, depthKvs, depth_eraseBits v, depthKvs_eraseBits r]
end

/-- the record of a response reads back with `serde_json`'s limit exactly when it is nested less than 128 deep -/
theorem parseSerde_compact (j : Json) (h : numsOk j = true) :
    parseSerde (compact j) = if depth j ≤ serdeDepthLimit then some (eraseBits j) else none := by
  unfold parseSerde
  rw [parse_compact j h]
  simp only [depth_eraseBits]

/-! ### CSV: a reader gets back the fields that were written -/

theorem not_special_of_not_needsQuotes (t : List Char) (h : needsQuotes t = false) :
    ∀ c ∈ t, c ≠ ',' ∧ c ≠ '"' ∧ c ≠ '\n' := by
  intro c hc
  unfold needsQuotes at h
  have := List.any_eq_false.1 h c hc
  simp only [Bool.or_eq_true, beq_iff_eq, not_or] at this
  exact ⟨this.1.1.1, this.1.1.2, this.1.2⟩

theorem readAux_plain_run (t rest cur : List Char) (acc : List (List Char)) (h : ∀ c ∈ t, c ≠ ',') :
    readAux (t ++ rest) .plain cur acc = readAux rest .plain (t.reverse ++ cur) acc := by
  induction t generalizing cur with
  | nil => rfl
  | cons c cs ih =>
    have hc : ¬ c = ',' := h c (List.mem_cons_self ..)
    rw [List.cons_append, readAux]
    simp only [hc, if_false]
    rw [ih _ (fun x hx => h x (List.mem_cons_of_mem _ hx))]
    simp

theorem readAux_quoted_run (t tail cur : List Char) (acc : List (List Char)) :
    readAux (doubleQuotes t ++ '"' :: tail) .quoted cur acc = readAux tail .quoteSeen (t.reverse ++ cur) acc := by
  induction t generalizing cur with
  | nil => simp [doubleQuotes, readAux]
  | cons c cs ih =>
    by_cases hc : c = '"'
    · subst hc
      simp only [doubleQuotes, if_true, List.cons_append]
      rw [readAux]
      simp only [if_true]
      rw [readAux]
      simp only [if_true]
      rw [ih]; simp
    · simp only [doubleQuotes, hc, if_false, List.cons_append]
      rw [readAux]
      simp only [hc, if_false]
      rw [ih]; simp

/-- a written field at the end of the row -/
theorem readAux_field_end (t : List Char) (acc : List (List Char)) :
    readAux (csvField t) .start [] acc = some ((t :: acc).reverse) := by
  unfold csvField
  cases hq : needsQuotes t with
  | true =>
    simp only [if_true]
    rw [readAux]
    simp only [if_true]
    have := readAux_quoted_run t [] [] acc
    simp only [List.append_nil] at this
    rw [this]
    simp [readAux]
  | false =>
    simp only [Bool.false_eq_true, if_false]
    cases t with
    | nil => simp [readAux]
    | cons c cs =>
      have hs := not_special_of_not_needsQuotes _ hq
      have hc := hs c (List.mem_cons_self ..)
      rw [readAux]
      simp only [hc.2.1, hc.1, if_false]
      have := readAux_plain_run cs [] [c] acc (fun x hx => (hs x (List.mem_cons_of_mem _ hx)).1)
      simp only [List.append_nil] at this
      rw [this]
      simp [readAux]

/-- a written field followed by a comma -/
theorem readAux_field_comma (t r : List Char) (acc : List (List Char)) :
    readAux (csvField t ++ ',' :: r) .start [] acc = readAux r .start [] (t :: acc) := by
  unfold csvField
  cases hq : needsQuotes t with
  | true =>
    simp only [if_true, List.cons_append, List.append_assoc, List.nil_append]
    rw [readAux]
    simp only [if_true]
    rw [readAux_quoted_run t (',' :: r) [] acc, readAux]
    simp [show ¬ (',' = '"') by decide]
  | false =>
    simp only [Bool.false_eq_true, if_false]
    cases t with
    | nil =>
      rw [List.nil_append, readAux]
      simp [show ¬ (',' = '"') by decide]
    | cons c cs =>
      have hs := not_special_of_not_needsQuotes _ hq
      have hc := hs c (List.mem_cons_self ..)
      rw [List.cons_append, readAux]
      simp only [hc.2.1, hc.1, if_false]
      rw [readAux_plain_run cs (',' :: r) [c] acc (fun x hx => (hs x (List.mem_cons_of_mem _ hx)).1), readAux]
      simp

theorem readAux_join (cells : List (List Char)) (hne : cells ≠ []) (acc : List (List Char)) :
    readAux (joinWith [','] (cells.map csvField)) .start [] acc = some (acc.reverse ++ cells) := by
  induction cells generalizing acc with
  | nil => exact absurd rfl hne
  | cons x r ih =>
    cases r with
    | nil => simp [joinWith, readAux_field_end]
    | cons y r' =>
      have e : joinWith [','] ((x :: y :: r').map csvField)
          = csvField x ++ ',' :: joinWith [','] ((y :: r').map csvField) := by simp [joinWith]
      rw [e, readAux_field_comma, ih (by simp)]
      simp

/-- ROW ROUND TRIP: the escaped, comma-joined fields read back as exactly those fields -/
theorem readRow_join (cells : List (List Char)) (hne : cells ≠ []) :
    readRow (joinWith [','] (cells.map csvField)) = some cells := by
  simpa [readRow] using readAux_join cells hne []

/-! ### CSV: a file cuts back into the records that were written -/

/-- text that leaves the record splitter where it was: outside quotes, no record ended -/
def Balanced (t : List Char) : Prop :=
  ∀ (rest cur : List Char) (acc : List (List Char)),
    splitRecordsAux (t ++ rest) false cur acc = splitRecordsAux rest false (t.reverse ++ cur) acc

theorem balanced_nil : Balanced [] := by intro rest cur acc; rfl

theorem balanced_append (a b : List Char) (ha : Balanced a) (hb : Balanced b) : Balanced (a ++ b) := by
  intro rest cur acc
  rw [List.append_assoc, ha, hb]
  simp

theorem balanced_plain (t : List Char) (h : ∀ c ∈ t, c ≠ '"' ∧ c ≠ '\n') : Balanced t := by
  intro rest cur acc
  induction t generalizing cur with
  | nil => rfl
  | cons c cs ih =>
    have hc := h c (List.mem_cons_self ..)
    rw [List.cons_append, splitRecordsAux]
    simp only [hc.1, hc.2, if_false, false_and]
    rw [ih (fun x hx => h x (List.mem_cons_of_mem _ hx))]
    simp

theorem splitRecordsAux_quoted_run (t rest cur : List Char) (acc : List (List Char)) :
    splitRecordsAux (doubleQuotes t ++ rest) true cur acc
      = splitRecordsAux rest true ((doubleQuotes t).reverse ++ cur) acc := by
  induction t generalizing cur with
  | nil => rfl
  | cons c cs ih =>
    by_cases hc : c = '"'
    · subst hc
      simp only [doubleQuotes, if_true, List.cons_append]
      rw [splitRecordsAux]
      simp only [if_true, Bool.not_true]
      rw [splitRecordsAux]
      simp only [if_true, Bool.not_false]
      rw [ih]; simp
    · simp only [doubleQuotes, hc, if_false, List.cons_append]
      rw [splitRecordsAux]
      simp only [hc, if_false, show (true = false) = False by simp, and_false]
      rw [ih]; simp

theorem balanced_csvField (t : List Char) : Balanced (csvField t) := by
  unfold csvField
  cases hq : needsQuotes t with
  | false =>
    simp only [Bool.false_eq_true, if_false]
    exact balanced_plain t (fun c hc =>
      ⟨(not_special_of_not_needsQuotes t hq c hc).2.1, (not_special_of_not_needsQuotes t hq c hc).2.2⟩)
  | true =>
    simp only [if_true]
    intro rest cur acc
    simp only [List.cons_append, List.append_assoc, List.nil_append]
    rw [splitRecordsAux]
    simp only [if_true, Bool.not_false]
    rw [splitRecordsAux_quoted_run, splitRecordsAux]
    simp

theorem balanced_join (cells : List (List Char)) : Balanced (joinWith [','] (cells.map csvField)) := by
  induction cells with
  | nil => exact balanced_nil
  | cons x r ih =>
    cases r with
    | nil => simpa [joinWith] using balanced_csvField x
    | cons y r' =>
      have e : joinWith [','] ((x :: y :: r').map csvField)
          = csvField x ++ ([','] ++ joinWith [','] ((y :: r').map csvField)) := by simp [joinWith]
      rw [e]
      exact balanced_append _ _ (balanced_csvField x)
        (balanced_append _ _ (balanced_plain [','] (by decide)) ih)

/-- FILE ROUND TRIP: the concatenated records of balanced rows cut back into exactly those rows -/
theorem splitRecordsAux_records (rows : List (List Char)) (h : ∀ r ∈ rows, Balanced r)
    (acc : List (List Char)) :
    splitRecordsAux ((rows.map record).flatten) false [] acc = (acc.reverse ++ rows, []) := by
  induction rows generalizing acc with
  | nil => simp [splitRecordsAux]
  | cons r rs ih =>
    simp only [List.map_cons, List.flatten_cons, record, List.append_assoc, List.singleton_append]
    rw [h r (List.mem_cons_self ..), splitRecordsAux]
    simp only [show ¬ ('\n' = '"') by decide, if_false, and_self, if_true, List.append_nil, List.reverse_reverse]
    rw [ih (fun x hx => h x (List.mem_cons_of_mem _ hx))]
    simp

theorem splitRecords_records (rows : List (List Char)) (h : ∀ r ∈ rows, Balanced r) :
    splitRecords ((rows.map record).flatten) = (rows, []) := by
  simpa [splitRecords] using splitRecordsAux_records rows h []

end SinkRead
end Compass
