/-
What the returned *routes* and *tree entries* of the search satisfy, on top of the tree invariant
(`Proofs/SearchTree.lean`) and label optimality (`Proofs/SearchOpt.lean`):

* A. entry validity (C04 core): every tree entry's edge was accepted by the frontier model and its
  costs / state are what the traversal returned, for the state and last edge its parent carried when
  the entry was written;
* B. route optimality (C02 core): the backtracked route is a valid walk whose summed cost is the
  least cost of a valid walk (A* with an admissible heuristic, Dijkstra, destination-less trees);
* C. the edge-oriented wrapper `search_algorithm::run_edge_oriented` (`Config.runEdge`), forward
  direction (C01 completion).
-/
import Compass.Proofs.SearchTree
import Compass.Proofs.SearchOpt
import Compass.Proofs.Instance

namespace Compass
namespace SearchRoute

set_option linter.unusedSectionVars false

variable {α : Type} [Field α] [LinearOrder α] [IsStrictOrderedRing α] [Lit α] [LawfulLit α]

open SearchTree (TreeInv WF RouteChain PathTo)
open SearchOpt (Walk cost UniformCost Uniform Admissible)

/-! ## A. Entry validity -/

/-- the edge of the entry passed `valid_frontier` and the entry's costs and state are the result of
`perform_edge_traversal`, both for one and the same (state, last edge) pair -/
def EntryOK (I : Inst α) (b : Branch α) : Prop :=
  ∃ (st : List α) (le : Option Nat),
    I.valid b.edge st le = .ok true ∧ I.trav b.edge le st = .ok (b.access, b.traversal, b.state)

/-- every tree entry is `EntryOK` -/
def ValidInv (I : Inst α) (sol : Nat → Option (Branch α)) : Prop :=
  ∀ v b, sol v = some b → EntryOK I b

theorem validInv_empty (I : Inst α) : ValidInv I (fun _ => none) := by
  intro v b h; cases h

theorem validInv_upd {I : Inst α} {sol : Nat → Option (Branch α)} (h : ValidInv I sol) (k : Nat)
    {b : Branch α} (hb : EntryOK I b) : ValidInv I (upd sol k b) := by
  intro v b' hb'
  by_cases hv : v = k
  · subst hv
    rw [SearchTree.upd_same] at hb'
    cases hb'
    exact hb
  · rw [SearchTree.upd_other _ _ _ hv] at hb'
    exact h v b' hb'

/-- one turn of the `for edge_id in incident_edges` loop: an entry is written only in the
`improves` branch, after `valid = .ok true` and `trav = .ok …` -/
theorem relax_validInv {I : Inst α} {hasTarget : Bool} {lastEdge : Option Nat}
    {curState : List α} {s s' : SState α} {e : Nat} (hinv : ValidInv I s.sol)
    (h : relax I hasTarget lastEdge curState s e = .ok s') : ValidInv I s'.sol := by
  unfold relax at h
  split at h
  · cases h
  · cases h; exact hinv
  · rename_i hvalid
    split at h
    · cases h
    · rename_i ac tc st' htrav
      split at h
      · cases h; exact hinv
      · simp only at h
        split at h
        · split at h
          · cases h
          · cases h
            exact validInv_upd hinv _ ⟨curState, lastEdge, hvalid, htrav⟩
        · cases h; exact hinv

theorem relaxAll_validInv {I : Inst α} {hasTarget : Bool} {lastEdge : Option Nat}
    {curState : List α} :
    ∀ (es : List Nat) (s s' : SState α), ValidInv I s.sol →
      relaxAll I hasTarget lastEdge curState es s = .ok s' → ValidInv I s'.sol
  | [], s, s', hinv, h => by
    simp only [relaxAll] at h
    cases h; exact hinv
  | e :: es, s, s', hinv, h => by
    simp only [relaxAll] at h
    split at h
    · cases h
    · rename_i s1 h1
      exact relaxAll_validInv es s1 s' (relax_validInv hinv h1) h

theorem runLoop_validInv {I : Inst α} {source : Nat} {target : Option Nat} :
    ∀ (sched : List Nat) (s s' : SState α), ValidInv I s.sol →
      runLoop I source target sched s = .ok s' → ValidInv I s'.sol := by
  intro sched
  induction sched with
  | nil =>
    intro s s' hinv h
    unfold runLoop at h
    split at h
    · cases h
    · split at h
      · split at h
        · cases h
        · cases h; exact hinv
      · cases h
  | cons v rest ih =>
    intro s s' hinv h
    unfold runLoop at h
    split at h
    · cases h
    · split at h
      · split at h
        · cases h
        · cases h; exact hinv
      · simp only at h
        split at h
        · cases h
        · split at h
          · cases h; exact hinv
          · split at h
            · cases h
            · split at h
              · cases h
              · rename_i s2 hrel
                have h2 : ValidInv I s2.sol := by
                  refine relaxAll_validInv _ _ s2 ?_ hrel
                  exact hinv
                refine ih _ s' ?_ h
                exact h2

/-- **Entry validity** (`ValidInv` of DESIGN §4): every entry of the tree returned by `run_a_star`
records an edge the frontier model accepted, with the costs and state the traversal returned, for
the state and last edge its parent carried when the entry was written.  No hypothesis on the
instance, the source, the target or the schedule. -/
theorem runAStar_validInv (I : Inst α) (source : Nat) (target : Option Nat) (sched : List Nat)
    (s : SState α) (h : runAStar I source target sched = .ok s) :
    ∀ v b, s.sol v = some b → ∃ (st : List α) (le : Option Nat),
      I.valid b.edge st le = .ok true ∧ I.trav b.edge le st = .ok (b.access, b.traversal, b.state) := by
  unfold runAStar at h
  split at h
  · cases h
    exact validInv_empty I
  · split at h
    · cases h
    · exact runLoop_validInv sched _ s (validInv_empty I) h

/-! ### decomposition of `runVertexOriented` -/

/-- a successful `run_vertex_oriented` with a target is a successful `run_a_star` followed by a
successful backtrack from the target -/
theorem runVertexOriented_some {I : Inst α} {source t : Nat} {sched : List Nat}
    {res : SearchResult α} (h : runVertexOriented I source (some t) sched = .ok res) :
    runAStar I source (some t) sched = .ok res.final ∧
    ∃ route, res.route = some route ∧
      backtrack source t res.final.sol (res.final.solSize + 1) = .ok route := by
  unfold runVertexOriented at h
  split at h
  · cases h
  · rename_i s hrun
    simp only at h
    split at h
    · cases h
    · rename_i r hr
      cases h
      exact ⟨hrun, r, rfl, hr⟩

/-- without target: `run_a_star` and no route -/
theorem runVertexOriented_none {I : Inst α} {source : Nat} {sched : List Nat}
    {res : SearchResult α} (h : runVertexOriented I source none sched = .ok res) :
    runAStar I source none sched = .ok res.final ∧ res.route = none := by
  unfold runVertexOriented at h
  split at h
  · cases h
  · rename_i s hrun
    cases h
    exact ⟨hrun, rfl⟩

/-- in both cases the final state is the result of `run_a_star` -/
theorem runVertexOriented_final {I : Inst α} {source : Nat} {target : Option Nat}
    {sched : List Nat} {res : SearchResult α}
    (h : runVertexOriented I source target sched = .ok res) :
    runAStar I source target sched = .ok res.final := by
  cases target with
  | none => exact (runVertexOriented_none h).1
  | some t => exact (runVertexOriented_some h).1

/-- every element of a returned route is a tree entry (no hypothesis on the instance) -/
theorem route_mem_entry {I : Inst α} {source : Nat} {target : Option Nat} {sched : List Nat}
    {res : SearchResult α} (h : runVertexOriented I source target sched = .ok res)
    {route : List (Branch α)} (hr : res.route = some route) :
    ∀ b ∈ route, ∃ v, v ≠ source ∧ res.final.sol v = some b := by
  cases target with
  | none => rw [(runVertexOriented_none h).2] at hr; cases hr
  | some t =>
    obtain ⟨_, route', hr', hbt⟩ := runVertexOriented_some h
    rw [hr'] at hr
    cases hr
    exact SearchTree.pathTo_mem (SearchTree.backtrack_sound hbt)

/-! ### C04 core: trees and routes -/

/-- **`tree_entries_valid` / `route_entries_valid`**: every entry of the returned tree and every
element of the returned route carries an accepted edge and the traversal's own result -/
theorem runVertexOriented_validInv (I : Inst α) (source : Nat) (target : Option Nat)
    (sched : List Nat) (res : SearchResult α)
    (h : runVertexOriented I source target sched = .ok res) :
    (∀ v b, res.final.sol v = some b → EntryOK I b) ∧
    (∀ route, res.route = some route → ∀ b ∈ route, EntryOK I b) := by
  have hinv := runAStar_validInv I source target sched res.final (runVertexOriented_final h)
  refine ⟨hinv, ?_⟩
  intro route hr b hb
  obtain ⟨v, _, hv⟩ := route_mem_entry h hr b hb
  exact hinv v b hv

/-- an `EntryOK` entry under edge-local validity: `ok` holds of its edge -/
theorem EntryOK.ok_of_local {I : Inst α} {ok : Nat → Bool}
    (hloc : ∀ e st le, I.valid e st le = .ok (ok e)) {b : Branch α} (hb : EntryOK I b) :
    ok b.edge = true := by
  obtain ⟨st, le, hv, _⟩ := hb
  rw [hloc] at hv
  injection hv

/-- (A1) with an edge-local frontier model every tree entry's edge is a permitted edge -/
theorem tree_edges_ok {I : Inst α} {ok : Nat → Bool}
    (hloc : ∀ e st le, I.valid e st le = .ok (ok e)) {source : Nat} {target : Option Nat}
    {sched : List Nat} {s : SState α} (h : runAStar I source target sched = .ok s) :
    ∀ v b, s.sol v = some b → ok b.edge = true :=
  fun v b hb => EntryOK.ok_of_local hloc (runAStar_validInv I source target sched s h v b hb)

/-- (A1) with an edge-local frontier model every edge of a returned route and of the returned tree
is a permitted edge -/
theorem route_edges_ok {I : Inst α} {ok : Nat → Bool}
    (hloc : ∀ e st le, I.valid e st le = .ok (ok e)) {source : Nat} {target : Option Nat}
    {sched : List Nat} {res : SearchResult α}
    (h : runVertexOriented I source target sched = .ok res) :
    (∀ v b, res.final.sol v = some b → ok b.edge = true) ∧
    (∀ route, res.route = some route → ∀ e ∈ route.map (·.edge), ok e = true) := by
  obtain ⟨h1, h2⟩ := runVertexOriented_validInv I source target sched res h
  refine ⟨fun v b hb => (h1 v b hb).ok_of_local hloc, ?_⟩
  intro route hr e he
  obtain ⟨b, hb, rfl⟩ := List.mem_map.1 he
  exact (h2 route hr b hb).ok_of_local hloc

/-- an `EntryOK` entry under `UniformCost`: permitted edge, and the entry's cost is the edge's -/
theorem EntryOK.uniform {I : Inst α} {ok : Nat → Bool} {c : Nat → α} (U : UniformCost I ok c)
    {b : Branch α} (hb : EntryOK I b) : ok b.edge = true ∧ b.access + b.traversal = c b.edge := by
  refine ⟨hb.ok_of_local U.valid_eq, ?_⟩
  obtain ⟨st, le, _, ht⟩ := hb
  obtain ⟨ac, tc, st', ht', hc⟩ := U.trav_eq b.edge le st
  rw [ht] at ht'
  simp only [Except.ok.injEq, Prod.mk.injEq] at ht'
  obtain ⟨h1, h2, _⟩ := ht'
  rw [h1, h2]; exact hc

/-- (A2) under `UniformCost` every tree entry has a permitted edge and carries that edge's cost -/
theorem tree_entries_uniform {I : Inst α} {ok : Nat → Bool} {c : Nat → α} (U : UniformCost I ok c)
    {source : Nat} {target : Option Nat} {sched : List Nat} {s : SState α}
    (h : runAStar I source target sched = .ok s) :
    ∀ v b, s.sol v = some b → ok b.edge = true ∧ b.access + b.traversal = c b.edge :=
  fun v b hb => EntryOK.uniform U (runAStar_validInv I source target sched s h v b hb)

/-! ## B. Route optimality -/

/-- `UniformCost` implies the hypotheses of the tree invariant -/
theorem wf_of_uniformCost {I : Inst α} {ok : Nat → Bool} {c : Nat → α} (U : UniformCost I ok c) :
    WF I where
  incident_term := U.incident_term
  cost_pos := by
    intro e le st ac tc st' h
    obtain ⟨ac', tc', st'', h', hc⟩ := U.trav_eq e le st
    rw [h] at h'
    simp only [Except.ok.injEq, Prod.mk.injEq] at h'
    obtain ⟨h1, h2, _⟩ := h'
    rw [h1, h2, hc]; exact U.cost_pos e

/-- the edges of a parent chain form a valid walk source ⇝ `t` -/
theorem pathTo_walk {I : Inst α} {ok : Nat → Bool} {source : Nat} {s : SState α}
    (hinv : TreeInv I source s) (hok : ∀ v b, s.sol v = some b → ok b.edge = true)
    {t : Nat} {r : List (Branch α)} (h : PathTo source s.sol t r) :
    Walk I ok source (r.map (·.edge)) t := by
  induction h with
  | nil => exact rfl
  | @snoc v b r hv hb hr ih =>
    obtain ⟨hkey, hterm, hinc, _⟩ := hinv.entry v b hb
    have hinc' : b.edge ∈ I.incident (I.termV b.edge) := by rw [hterm]; exact hinc
    have hw := Walk.snoc ih (hok v b hb) hinc' hterm
    rw [hkey] at hw
    rw [List.map_append]
    exact hw

/-- summed entry cost = `cost c` of the edge list when every entry carries its edge's cost -/
theorem sum_eq_cost {c : Nat → α} (r : List (Branch α))
    (h : ∀ b ∈ r, b.access + b.traversal = c b.edge) :
    (r.map (fun b => b.access + b.traversal)).sum = cost c (r.map (·.edge)) := by
  induction r with
  | nil => simp [cost]
  | cons b r ih =>
    simp only [List.map_cons, List.sum_cons, cost]
    rw [h b List.mem_cons_self, ih (fun b' hb' => h b' (List.mem_cons_of_mem _ hb'))]

/-- the core of route optimality: a parent chain to a vertex whose label is a lower bound of all
valid walks costs exactly that label, and is itself a valid walk of that cost -/
theorem pathTo_optimal {I : Inst α} {ok : Nat → Bool} {c : Nat → α} {source : Nat} {s : SState α}
    (hinv : TreeInv I source s)
    (hent : ∀ v b, s.sol v = some b → ok b.edge = true ∧ b.access + b.traversal = c b.edge)
    {t : Nat} {r : List (Branch α)} (h : PathTo source s.sol t r) {d : α} (hd : s.g t = some d)
    (hmin : ∀ es, Walk I ok source es t → d ≤ cost c es) :
    Walk I ok source (r.map (·.edge)) t ∧
    (r.map (fun b => b.access + b.traversal)).sum = cost c (r.map (·.edge)) ∧
    (r.map (fun b => b.access + b.traversal)).sum = d := by
  have hw := pathTo_walk hinv (fun v b hb => (hent v b hb).1) h
  have hsum : (r.map (fun b => b.access + b.traversal)).sum = cost c (r.map (·.edge)) := by
    apply sum_eq_cost
    intro b hb
    obtain ⟨v, _, hv⟩ := SearchTree.pathTo_mem h b hb
    exact (hent v b hv).2
  refine ⟨hw, hsum, le_antisymm (SearchTree.pathTo_cost_le hinv h d hd) ?_⟩
  rw [hsum]
  exact hmin _ hw

/-- **Route optimality** (A* with an admissible heuristic, re-opening allowed): for every instance
in the setting `Uniform`, every source, target `t ≠ source`, every accepted schedule: a successful
`run_vertex_oriented` returns a non-empty route whose edges form a valid walk source ⇝ `t`, whose
summed cost (`Σ access + traversal`) is `Σ c e` over its edges, equals the target's label `d`, and
is the least cost of a valid walk source ⇝ `t`. -/
theorem route_optimal {I : Inst α} {ok : Nat → Bool} {c hv : Nat → α} (U : Uniform I ok c hv)
    {source t : Nat} (hts : t ≠ source) (hadm : Admissible I ok c hv t)
    {sched : List Nat} {res : SearchResult α}
    (h : runVertexOriented I source (some t) sched = .ok res) :
    ∃ route d, res.route = some route ∧ route ≠ [] ∧
      Walk I ok source (route.map (·.edge)) t ∧
      (route.map (fun b => b.access + b.traversal)).sum = cost c (route.map (·.edge)) ∧
      res.final.g t = some d ∧
      (route.map (fun b => b.access + b.traversal)).sum = d ∧
      ∀ es, Walk I ok source es t →
        (route.map (fun b => b.access + b.traversal)).sum ≤ cost c es := by
  obtain ⟨hrun, route, hr, hbt⟩ := runVertexOriented_some h
  have hI := wf_of_uniformCost U.toUniformCost
  obtain ⟨hinv, _, route', _, hr', hne, _⟩ :=
    SearchTree.runVertexOriented_route hI source t sched res hts h
  rw [hr] at hr'
  cases hr'
  obtain ⟨d, hd, _, hmin⟩ := SearchOpt.label_optimal U hts hadm hrun
  obtain ⟨hw, hsum, hsd⟩ := pathTo_optimal hinv (tree_entries_uniform U.toUniformCost hrun)
    (SearchTree.backtrack_sound hbt) hd hmin
  exact ⟨route, d, hr, hne, hw, hsum, hd, hsd, fun es hes => hsd ▸ hmin es hes⟩

/-- Dijkstra is the case `h = 0`: no admissibility premise -/
theorem dijkstra_route_optimal {I : Inst α} {ok : Nat → Bool} {c : Nat → α}
    (U : UniformCost I ok c) (h0 : ∀ v st, I.h v st = .ok 0)
    {source t : Nat} (hts : t ≠ source) {sched : List Nat} {res : SearchResult α}
    (h : runVertexOriented I source (some t) sched = .ok res) :
    ∃ route d, res.route = some route ∧ route ≠ [] ∧
      Walk I ok source (route.map (·.edge)) t ∧
      (route.map (fun b => b.access + b.traversal)).sum = cost c (route.map (·.edge)) ∧
      res.final.g t = some d ∧
      (route.map (fun b => b.access + b.traversal)).sum = d ∧
      ∀ es, Walk I ok source es t →
        (route.map (fun b => b.access + b.traversal)).sum ≤ cost c es := by
  have U' : Uniform I ok c (fun _ => 0) := { U with h_eq := h0, h_nonneg := fun _ => le_refl _ }
  exact route_optimal U' hts (fun v es _ => SearchOpt.cost_nonneg U.cost_pos es) h

/-- two successful runs on the same graph, validity and edge costs — any two accepted schedules,
any two admissible vertex heuristics — return routes of equal cost -/
theorem route_cost_unique {I I' : Inst α} {ok : Nat → Bool} {c hv hv' : Nat → α}
    (U : Uniform I ok c hv) (U' : Uniform I' ok c hv')
    (hi : I'.incident = I.incident) (hk : I'.keyV = I.keyV) (ht : I'.termV = I.termV)
    {source t : Nat} (hts : t ≠ source)
    (hadm : Admissible I ok c hv t) (hadm' : Admissible I' ok c hv' t)
    {sched sched' : List Nat} {res res' : SearchResult α}
    (h : runVertexOriented I source (some t) sched = .ok res)
    (h' : runVertexOriented I' source (some t) sched' = .ok res') :
    ∃ route route', res.route = some route ∧ res'.route = some route' ∧
      (route.map (fun b => b.access + b.traversal)).sum =
        (route'.map (fun b => b.access + b.traversal)).sum := by
  obtain ⟨route, d, hr, _, hw, hsum, _, _, hmin⟩ := route_optimal U hts hadm h
  obtain ⟨route', d', hr', _, hw', hsum', _, _, hmin'⟩ := route_optimal U' hts hadm' h'
  refine ⟨route, route', hr, hr', le_antisymm ?_ ?_⟩
  · rw [hsum']
    exact hmin _ ((SearchOpt.Walk.congr hi hk ht _ source t).1 hw')
  · rw [hsum]
    exact hmin' _ ((SearchOpt.Walk.congr hi hk ht _ source t).2 hw)

/-- **A\* = Dijkstra on routes**: a run with an admissible heuristic and a run of the same instance
with the heuristic replaced by 0, under any two accepted schedules, return routes of equal summed
cost -/
theorem astar_route_cost_eq_dijkstra_route_cost {I : Inst α} {ok : Nat → Bool} {c hv : Nat → α}
    (U : Uniform I ok c hv) {source t : Nat} (hts : t ≠ source) (hadm : Admissible I ok c hv t)
    {sched sched' : List Nat} {res res' : SearchResult α}
    (h : runVertexOriented I source (some t) sched = .ok res)
    (h' : runVertexOriented { I with h := fun _ _ => .ok 0 } source (some t) sched' = .ok res') :
    ∃ route route', res.route = some route ∧ res'.route = some route' ∧
      (route.map (fun b => b.access + b.traversal)).sum =
        (route'.map (fun b => b.access + b.traversal)).sum := by
  have U' : Uniform { I with h := fun _ _ => .ok 0 } ok c (fun _ => 0) :=
    { incident_term := U.incident_term, valid_eq := U.valid_eq, trav_eq := U.trav_eq,
      cost_pos := U.cost_pos, h_eq := fun _ _ => rfl, h_nonneg := fun _ => le_refl _ }
  exact route_cost_unique U U' rfl rfl rfl hts hadm
    (fun v es _ => SearchOpt.cost_nonneg U.cost_pos es) h h'

/-- **Destination-less search**: in the returned tree, the parent chain of any vertex `v` is a
valid walk source ⇝ `v` whose summed cost is the label of `v`, the least cost of a valid walk
source ⇝ `v` -/
theorem tree_paths_optimal {I : Inst α} {ok : Nat → Bool} {c : Nat → α} (U : UniformCost I ok c)
    {source : Nat} {sched : List Nat} {s : SState α}
    (hrun : runAStar I source none sched = .ok s) {v : Nat} {r : List (Branch α)}
    (hp : PathTo source s.sol v r) :
    ∃ x, s.g v = some x ∧ Walk I ok source (r.map (·.edge)) v ∧
      (r.map (fun b => b.access + b.traversal)).sum = cost c (r.map (·.edge)) ∧
      (r.map (fun b => b.access + b.traversal)).sum = x ∧
      ∀ es, Walk I ok source es v → (r.map (fun b => b.access + b.traversal)).sum ≤ cost c es := by
  have hinv : TreeInv I source s := by
    rcases SearchTree.runAStar_treeInv (wf_of_uniformCost U) source none sched s hrun with h0 | h
    · cases h0.1
    · exact h
  have hv : v = source ∨ (s.sol v).isSome := by
    cases hp with
    | nil => exact Or.inl rfl
    | snoc _ hb _ => right; rw [hb]; rfl
  obtain ⟨x, hx⟩ := SearchTree.labelled_of_entry hinv hv
  obtain ⟨_, hmin⟩ := SearchOpt.tree_labels_optimal U hrun v x hx
  obtain ⟨hw, hsum, hsx⟩ := pathTo_optimal hinv (tree_entries_uniform U hrun) hp hx hmin
  exact ⟨x, hx, hw, hsum, hsx, fun es hes => hsx ▸ hmin es hes⟩

/-- and such a parent chain exists for every tree vertex: it is what `backtrack` returns -/
theorem tree_paths_exist {I : Inst α} {ok : Nat → Bool} {c : Nat → α} (U : UniformCost I ok c)
    {source : Nat} {sched : List Nat} {s : SState α}
    (hrun : runAStar I source none sched = .ok s) {v : Nat} (hv : (s.sol v).isSome) :
    ∃ r, PathTo source s.sol v r ∧ backtrack source v s.sol (s.solSize + 1) = .ok r := by
  have hinv : TreeInv I source s := by
    rcases SearchTree.runAStar_treeInv (wf_of_uniformCost U) source none sched s hrun with h0 | h
    · cases h0.1
    · exact h
  exact SearchTree.backtrack_ok hinv (Or.inr hv)

/-! ### B′. The same for `UniformCostOn` (premises only on the calls the search really makes)

`WF I` (positive charged cost on *every* call that answers) is a separate premise here: it cannot
be derived from `UniformCostOn`, which only speaks about the pairs satisfying `S`.  Concrete
configurations have it unconditionally (`Config.inst_wf`). -/

open SearchOpt (UniformCostOn UniformOn VertexHOn SolOK)

/-- (A2) under `UniformCostOn` every tree entry has a permitted edge and carries that edge's cost -/
theorem tree_entries_uniform_on {I : Inst α} {S : Option Nat → List α → Prop} {ok : Nat → Bool}
    {c hv : Nat → α} (U : UniformCostOn I S ok c) {source : Nat} {target : Option Nat}
    (hh : target.isSome = true → VertexHOn I S hv) {sched : List Nat} {s : SState α}
    (h : runAStar I source target sched = .ok s) :
    ∀ v b, s.sol v = some b → ok b.edge = true ∧ b.access + b.traversal = c b.edge :=
  fun v b hb => (SearchOpt.runAStar_solOK_on U hh h v b hb).2

/-- **Route optimality** for `UniformOn` -/
theorem route_optimal_on {I : Inst α} {S : Option Nat → List α → Prop} {ok : Nat → Bool}
    {c hv : Nat → α} (hI : WF I) (U : UniformOn I S ok c hv)
    {source t : Nat} (hts : t ≠ source) (hadm : Admissible I ok c hv t)
    {sched : List Nat} {res : SearchResult α}
    (h : runVertexOriented I source (some t) sched = .ok res) :
    ∃ route d, res.route = some route ∧ route ≠ [] ∧
      Walk I ok source (route.map (·.edge)) t ∧
      (route.map (fun b => b.access + b.traversal)).sum = cost c (route.map (·.edge)) ∧
      res.final.g t = some d ∧
      (route.map (fun b => b.access + b.traversal)).sum = d ∧
      ∀ es, Walk I ok source es t →
        (route.map (fun b => b.access + b.traversal)).sum ≤ cost c es := by
  obtain ⟨hrun, route, hr, hbt⟩ := runVertexOriented_some h
  obtain ⟨hinv, _, route', _, hr', hne, _⟩ :=
    SearchTree.runVertexOriented_route hI source t sched res hts h
  rw [hr] at hr'
  cases hr'
  obtain ⟨d, hd, _, hmin⟩ := SearchOpt.label_optimal_on U hts hadm hrun
  obtain ⟨hw, hsum, hsd⟩ := pathTo_optimal hinv
    (tree_entries_uniform_on U.toUniformCostOn (hv := hv) (fun _ => U.h_eq) hrun)
    (SearchTree.backtrack_sound hbt) hd hmin
  exact ⟨route, d, hr, hne, hw, hsum, hd, hsd, fun es hes => hsd ▸ hmin es hes⟩

/-- Dijkstra for `UniformCostOn`: whenever the heuristic answers it answers 0 -/
theorem dijkstra_route_optimal_on {I : Inst α} {S : Option Nat → List α → Prop} {ok : Nat → Bool}
    {c : Nat → α} (hI : WF I) (U : UniformCostOn I S ok c) (h0 : VertexHOn I S (fun _ => 0))
    {source t : Nat} (hts : t ≠ source) {sched : List Nat} {res : SearchResult α}
    (h : runVertexOriented I source (some t) sched = .ok res) :
    ∃ route d, res.route = some route ∧ route ≠ [] ∧
      Walk I ok source (route.map (·.edge)) t ∧
      (route.map (fun b => b.access + b.traversal)).sum = cost c (route.map (·.edge)) ∧
      res.final.g t = some d ∧
      (route.map (fun b => b.access + b.traversal)).sum = d ∧
      ∀ es, Walk I ok source es t →
        (route.map (fun b => b.access + b.traversal)).sum ≤ cost c es := by
  have U' : UniformOn I S ok c (fun _ => 0) := { U with h_eq := h0, h_nonneg := fun _ => le_refl _ }
  exact route_optimal_on hI U' hts (fun v es _ => SearchOpt.cost_nonneg U.cost_pos es) h

/-- destination-less search for `UniformCostOn` -/
theorem tree_paths_optimal_on {I : Inst α} {S : Option Nat → List α → Prop} {ok : Nat → Bool}
    {c : Nat → α} (hI : WF I) (U : UniformCostOn I S ok c)
    {source : Nat} {sched : List Nat} {s : SState α}
    (hrun : runAStar I source none sched = .ok s) {v : Nat} {r : List (Branch α)}
    (hp : PathTo source s.sol v r) :
    ∃ x, s.g v = some x ∧ Walk I ok source (r.map (·.edge)) v ∧
      (r.map (fun b => b.access + b.traversal)).sum = cost c (r.map (·.edge)) ∧
      (r.map (fun b => b.access + b.traversal)).sum = x ∧
      ∀ es, Walk I ok source es v → (r.map (fun b => b.access + b.traversal)).sum ≤ cost c es := by
  have hinv : TreeInv I source s := by
    rcases SearchTree.runAStar_treeInv hI source none sched s hrun with h0 | h
    · cases h0.1
    · exact h
  have hv : v = source ∨ (s.sol v).isSome := by
    cases hp with
    | nil => exact Or.inl rfl
    | snoc _ hb _ => right; rw [hb]; rfl
  obtain ⟨x, hx⟩ := SearchTree.labelled_of_entry hinv hv
  obtain ⟨_, hmin⟩ := SearchOpt.tree_labels_optimal_on U hrun v x hx
  obtain ⟨hw, hsum, hsx⟩ := pathTo_optimal hinv
    (tree_entries_uniform_on U (hv := fun _ => (0 : α)) (target := none) (fun h => by cases h) hrun)
    hp hx hmin
  exact ⟨x, hx, hw, hsum, hsx, fun es hes => hsx ▸ hmin es hes⟩

/-! ## C. The edge-oriented wrapper `search_algorithm::run_edge_oriented` -/

/-- the origin-edge element the wrapper puts in front of the route (and into a destination-less
tree): zero costs, the initial state -/
def originBranch (c : Config α) (source : Nat) (e1 : EdgeRec α) : Branch α :=
  { terminal := e1.src, edge := source, access := zero, traversal := zero,
    state := initialState c.feats }

/-- the destination-edge element the wrapper appends: zero costs, the state it is given -/
def destBranch (tgt : Nat) (e2 : EdgeRec α) (st : List α) : Branch α :=
  { terminal := e2.src, edge := tgt, access := zero, traversal := zero, state := st }

/-- `Config.runVertex` is `runVertexOriented` on the configuration's instance, repackaged -/
theorem runVertex_ok {c : Config α} {source : Nat} {target : Option Nat} {sched : List Nat}
    {r : AlgResult α} (h : c.runVertex source target sched = .ok r) :
    ∃ res, runVertexOriented c.inst source target sched = .ok res ∧
      r.trees = [res.final.sol] ∧
      r.routes = res.route.toList ∧
      r.iterations = res.final.iters := by
  unfold Config.runVertex at h
  split at h
  · cases h
  · rename_i res hres
    cases h
    refine ⟨res, hres, rfl, ?_, rfl⟩
    cases res.route <;> rfl

/-- the wrapper's `fixAll` applies `fix` to every route and fails if one application fails -/
theorem fixAll_ok (fix : List (Branch α) → Except ErrKind (List (Branch α))) :
    ∀ (rts out : List (List (Branch α))),
      Config.runEdge.fixAll fix rts = .ok out → List.Forall₂ (fun rt a => fix rt = .ok a) rts out
  | [], out, h => by
    simp only [Config.runEdge.fixAll] at h
    cases h
    exact List.Forall₂.nil
  | rt :: rest, out, h => by
    simp only [Config.runEdge.fixAll] at h
    split at h
    · rename_i a b ha hb
      cases h
      exact List.Forall₂.cons ha (fixAll_ok fix rest b hb)
    · cases h
    · cases h

/-- **shape, destination given, edges not adjacent**: the wrapper runs the vertex-oriented search
from the origin edge's head to the destination edge's tail, returns its tree unchanged, and puts
the origin element in front of and the destination element (carrying the last inner state) behind
the inner route.  (Either direction.) -/
theorem runEdge_nonadjacent (c : Config α) (source tgt : Nat) (sched : List Nat)
    (r : AlgResult α) (e1 e2 : EdgeRec α) (h1 : c.edges[source]? = some e1)
    (h2 : c.edges[tgt]? = some e2) (hne : source ≠ tgt) (hnadj : e1.dst ≠ e2.src)
    (h : c.runEdge source (some tgt) sched = .ok r) :
    ∃ res inner last, runVertexOriented c.inst e1.dst (some e2.src) sched = .ok res ∧
      res.route = some inner ∧ inner.getLast? = some last ∧
      r.trees = [res.final.sol] ∧ r.iterations = res.final.iters + 2 ∧
      r.routes = [originBranch c source e1 :: inner ++ [destBranch tgt e2 last.state]] := by
  unfold Config.runEdge at h
  simp only [h1, h2, if_neg hne, if_neg hnadj] at h
  split at h
  · cases h
  · rename_i r' hr'
    obtain ⟨res, hres, htrees, hroutes, hiters⟩ := runVertex_ok hr'
    obtain ⟨_, inner, hinner, _⟩ := runVertexOriented_some hres
    rw [hinner] at hroutes
    simp only [Option.toList_some] at hroutes
    split at h
    · cases h
    · split at h
      · cases h
      · rename_i routes hfix
        cases h
        rw [hroutes] at hfix
        have hf := fixAll_ok _ _ _ hfix
        cases hf with
        | cons ha hrest =>
          cases hrest
          rename_i a
          split at ha
          · cases ha
          · rename_i last hlast
            cases ha
            exact ⟨res, inner, last, hres, hinner, hlast, htrees, by rw [hiters], rfl⟩

/-- **shape, destination given, adjacent edges** (`e1.dst = e2.src`): no search; the two edges are
traversed for real with `forward_traversal` (whatever the direction), the destination edge with the
origin edge as its previous edge and from the origin edge's result state -/
theorem runEdge_adjacent (c : Config α) (source tgt : Nat) (sched : List Nat)
    (r : AlgResult α) (e1 e2 : EdgeRec α) (h1 : c.edges[source]? = some e1)
    (h2 : c.edges[tgt]? = some e2) (hne : source ≠ tgt) (hadj' : e1.dst = e2.src)
    (h : c.runEdge source (some tgt) sched = .ok r) :
    ∃ ac1 tc1 st1 ac2 tc2 st2,
      edgeTraversal { c with reverse := false } source none (initialState c.feats)
        = .ok (ac1, tc1, st1) ∧
      edgeTraversal { c with reverse := false } tgt (some source) st1 = .ok (ac2, tc2, st2) ∧
      r.routes = [[{ terminal := e1.src, edge := source, access := ac1, traversal := tc1, state := st1 },
                   { terminal := e2.src, edge := tgt, access := ac2, traversal := tc2, state := st2 }]] ∧
      r.trees = [upd (upd (fun _ => none) e2.dst
                    { terminal := e2.src, edge := tgt, access := ac2, traversal := tc2, state := st2 })
                  e1.dst
                    { terminal := e1.src, edge := source, access := ac1, traversal := tc1, state := st1 }] ∧
      r.iterations = 1 := by
  unfold Config.runEdge at h
  simp only [h1, h2, if_neg hne, if_pos hadj'] at h
  split at h
  · cases h
  · rename_i ac1 tc1 st1 ht1
    split at h
    · cases h
    · rename_i ac2 tc2 st2 ht2
      cases h
      exact ⟨ac1, tc1, st1, ac2, tc2, st2, ht1, ht2, rfl, rfl, rfl⟩

/-- **shape, no destination**: the wrapper runs the destination-less vertex-oriented search from
the origin edge's head and inserts the origin element under that vertex unless it has an entry
(it never has: see `runEdge_none_tree`); there is no route -/
theorem runEdge_none (c : Config α) (source : Nat) (sched : List Nat) (r : AlgResult α)
    (e1 : EdgeRec α) (h1 : c.edges[source]? = some e1)
    (h : c.runEdge source none sched = .ok r) :
    ∃ res, runVertexOriented c.inst e1.dst none sched = .ok res ∧ res.route = none ∧
      r.routes = [] ∧ r.iterations = res.final.iters + 1 ∧
      r.trees = [match res.final.sol e1.dst with
                 | some _ => res.final.sol
                 | none => upd res.final.sol e1.dst (originBranch c source e1)] := by
  unfold Config.runEdge at h
  simp only [h1] at h
  split at h
  · cases h
  · rename_i r' hr'
    obtain ⟨res, hres, htrees, hroutes, hiters⟩ := runVertex_ok hr'
    have hnone := (runVertexOriented_none hres).2
    rw [hnone] at hroutes
    cases h
    refine ⟨res, hres, hnone, ?_, by rw [hiters], ?_⟩
    · rw [hroutes]; rfl
    · rw [htrees]; rfl

/-- the wrapper fails with `network` exactly on an origin edge id that is not in the edge list -/
theorem runEdge_bad_origin (c : Config α) (source : Nat) (target : Option Nat) (sched : List Nat)
    (h1 : c.edges[source]? = none) : c.runEdge source target sched = .error .network := by
  unfold Config.runEdge
  simp only [h1]

/-- origin = destination: the empty result -/
theorem runEdge_same (c : Config α) (source : Nat) (sched : List Nat) (e1 : EdgeRec α)
    (h1 : c.edges[source]? = some e1) :
    c.runEdge source (some source) sched = .ok { trees := [], routes := [], iterations := 0 } := by
  unfold Config.runEdge
  simp only [h1, if_true]

/-- converse repackaging of `runVertex_ok` -/
theorem runVertex_eq {c : Config α} {source : Nat} {target : Option Nat} {sched : List Nat}
    {res : SearchResult α} (h : runVertexOriented c.inst source target sched = .ok res) :
    c.runVertex source target sched =
      .ok { trees := [res.final.sol],
            routes := res.route.toList,
            iterations := res.final.iters } := by
  unfold Config.runVertex
  simp only [h]
  cases res.route <;> rfl

/-! ### forward direction: `keyV` is the head, `termV` the tail of an edge -/

theorem inst_keyV_fwd {c : Config α} (hfwd : c.reverse = false) {e : Nat} {er : EdgeRec α}
    (h : c.edges[e]? = some er) : c.inst.keyV e = er.dst := by
  simp [Config.inst, h, hfwd]

theorem inst_termV_fwd {c : Config α} (hfwd : c.reverse = false) {e : Nat} {er : EdgeRec α}
    (h : c.edges[e]? = some er) : c.inst.termV e = er.src := by
  simp [Config.inst, h, hfwd]

/-! ### wrapping an inner route between an origin and a destination element -/

/-- no element of the parent chain to `t` is expanded from `t` itself (its parent's label is
strictly below the label of `t`) -/
theorem pathTo_terminal_ne {I : Inst α} {source : Nat} {s : SState α} (hinv : TreeInv I source s)
    {t : Nat} {r : List (Branch α)} (h : PathTo source s.sol t r) :
    ∀ b ∈ r, b.terminal ≠ t := by
  intro b hb
  have hent := (SearchTree.pathTo_entry hinv h b hb).1
  have hp : SearchTree.LabelLt s b.terminal (I.keyV b.edge) := SearchTree.parent_label_lt hinv hent
  rcases SearchTree.pathTo_label hinv h b hb with h1 | h1
  · rw [h1] at hp; exact hp.ne
  · exact (hp.trans h1).ne

/-- seams chain: an element whose edge arrives at the inner source in front, an element whose edge
leaves the inner target behind -/
theorem wrap_chain {I : Inst α} {src t : Nat} {s : SState α} {inner : List (Branch α)}
    (hrc : RouteChain I src s t inner) (hne : inner ≠ []) (o d : Branch α)
    (ho : I.keyV o.edge = src) (hd : I.termV d.edge = t) :
    (o :: inner ++ [d]).IsChain (fun a b => I.keyV a.edge = I.termV b.edge) := by
  have hin : inner.IsChain (fun a b => I.keyV a.edge = I.termV b.edge) :=
    List.isChain_iff_getElem.2 (fun i hi => (hrc.chain_getElem i hi).2)
  have h2 : (inner ++ [d]).IsChain (fun a b => I.keyV a.edge = I.termV b.edge) := by
    refine hin.append (List.isChain_singleton _) ?_
    intro x hx y hy
    simp only [List.head?_cons, Option.mem_def, Option.some.injEq] at hy
    subst hy
    rw [hd]
    exact hrc.last_key x hx
  rw [List.cons_append]
  refine h2.cons ?_
  intro y hy
  rw [List.head?_append_of_ne_nil _ hne] at hy
  have hm : y ∈ inner := List.mem_of_mem_head? hy
  rw [(hrc.term_eq y hm).1, hrc.head_terminal y hy]
  exact ho

/-- the wrapped edge list has no repetition: the origin edge arrives at the inner source, which is
never a key vertex of the inner route; the destination edge leaves the inner target, from which no
inner element is expanded (self loops included) -/
theorem wrap_nodup {I : Inst α} {src t : Nat} {s : SState α} {inner : List (Branch α)}
    (hinv : TreeInv I src s) (hp : PathTo src s.sol t inner) (o d : Branch α)
    (ho : I.keyV o.edge = src) (hd : I.termV d.edge = t) (hod : o.edge ≠ d.edge) :
    ((o :: inner ++ [d]).map (·.edge)).Nodup := by
  simp only [List.cons_append, List.map_cons, List.map_append, List.map_nil]
  rw [List.nodup_cons]
  refine ⟨?_, ?_⟩
  · intro h
    rcases List.mem_append.1 h with h | h
    · obtain ⟨b, hb, hbe⟩ := List.mem_map.1 h
      have := (SearchTree.pathTo_entry hinv hp b hb).2
      rw [hbe, ho] at this
      exact this rfl
    · simp only [List.mem_singleton] at h
      exact hod h
  · rw [List.nodup_append]
    refine ⟨SearchTree.pathTo_edges_nodup hinv hp, by simp, ?_⟩
    intro x hx y hy
    simp only [List.mem_singleton] at hy
    subst hy
    obtain ⟨b, hb, rfl⟩ := List.mem_map.1 hx
    intro hbe
    have hterm := (hinv.entry _ b (SearchTree.pathTo_entry hinv hp b hb).1).2.1
    rw [hbe, hd] at hterm
    exact pathTo_terminal_ne hinv hp b hb hterm.symm

/-! ### the edge-oriented route theorems (forward direction) -/

/-- **`edge_oriented_route_walk`, non-adjacent case, full detail.**  Forward search on a
configuration with consistent adjacency, origin edge `source = e1`, destination edge `tgt = e2`,
`source ≠ tgt`, `e1.dst ≠ e2.src`.  A successful `run_edge_oriented` returns exactly one route
`origin :: inner ++ [dest]` where `inner` is the (non-empty) route of the vertex-oriented search
`e1.dst ⇝ e2.src`, the inner tree is returned unchanged, iterations are the inner ones + 2;
`origin` / `dest` carry the origin / destination edge with zero access and traversal cost, `origin`
the initial state and `dest` the state of the last inner element; consecutive edges chain in graph
orientation (`dst` of one = `src` of the next) and no edge id occurs twice. -/
theorem runEdge_nonadjacent_walk (c : Config α) (hadj : c.AdjConsistent) (hfwd : c.reverse = false)
    (source tgt : Nat) (sched : List Nat) (r : AlgResult α) (e1 e2 : EdgeRec α)
    (h1 : c.edges[source]? = some e1) (h2 : c.edges[tgt]? = some e2) (hne : source ≠ tgt)
    (hnadj : e1.dst ≠ e2.src) (h : c.runEdge source (some tgt) sched = .ok r) :
    ∃ (r' : AlgResult α) (inner : List (Branch α)) (last origin dest : Branch α),
      c.runVertex e1.dst (some e2.src) sched = .ok r' ∧ r'.routes = [inner] ∧
      r.trees = r'.trees ∧ r.iterations = r'.iterations + 2 ∧
      inner.getLast? = some last ∧
      r.routes = [origin :: inner ++ [dest]] ∧
      origin.edge = source ∧ origin.terminal = e1.src ∧ origin.access = 0 ∧ origin.traversal = 0 ∧
      origin.state = initialState c.feats ∧
      dest.edge = tgt ∧ dest.terminal = e2.src ∧ dest.access = 0 ∧ dest.traversal = 0 ∧
      dest.state = last.state ∧
      (origin :: inner ++ [dest]).IsChain (fun a b => c.inst.keyV a.edge = c.inst.termV b.edge) ∧
      (∀ b ∈ origin :: inner ++ [dest], c.inst.termV b.edge = b.terminal) ∧
      ((origin :: inner ++ [dest]).map (·.edge)).Nodup := by
  obtain ⟨res, inner, last, hres, hinner, hlast, htrees, hiters, hroutes⟩ :=
    runEdge_nonadjacent c source tgt sched r e1 e2 h1 h2 hne hnadj h
  have hI := c.inst_wf hadj
  have hts : e2.src ≠ e1.dst := fun h => hnadj h.symm
  obtain ⟨hinv, _, inner', _, hinner', hnil, hrc, _, _⟩ :=
    SearchTree.runVertexOriented_route hI e1.dst e2.src sched res hts hres
  rw [hinner] at hinner'
  cases hinner'
  obtain ⟨_, inner', hinner', hbt⟩ := runVertexOriented_some hres
  rw [hinner] at hinner'
  cases hinner'
  have hp := SearchTree.backtrack_sound hbt
  have ho : c.inst.keyV (originBranch c source e1).edge = e1.dst := inst_keyV_fwd hfwd h1
  have hd : c.inst.termV (destBranch tgt e2 last.state).edge = e2.src := inst_termV_fwd hfwd h2
  refine ⟨_, inner, last, originBranch c source e1, destBranch tgt e2 last.state,
    runVertex_eq hres, by rw [hinner]; rfl, htrees, hiters, hlast, hroutes,
    rfl, rfl, zero_eq, zero_eq, rfl, rfl, rfl, zero_eq, zero_eq, rfl,
    wrap_chain hrc hnil _ _ ho hd, ?_, wrap_nodup hinv hp _ _ ho hd hne⟩
  intro b hb
  rw [List.cons_append, List.mem_cons, List.mem_append, List.mem_singleton] at hb
  rcases hb with rfl | hb | rfl
  · exact inst_termV_fwd hfwd h1
  · exact (hrc.term_eq b hb).1
  · exact hd

/-- **adjacent case, full detail** (`e1.dst = e2.src`): one route `[b1, b2]`, `b1` the origin edge
traversed for real from the initial state without previous edge, `b2` the destination edge traversed
for real from `b1`'s state with the origin edge as previous edge; both costs strictly positive; the
two edges chain and are distinct. -/
theorem runEdge_adjacent_walk (c : Config α) (hfwd : c.reverse = false)
    (source tgt : Nat) (sched : List Nat) (r : AlgResult α) (e1 e2 : EdgeRec α)
    (h1 : c.edges[source]? = some e1) (h2 : c.edges[tgt]? = some e2) (hne : source ≠ tgt)
    (hadj' : e1.dst = e2.src) (h : c.runEdge source (some tgt) sched = .ok r) :
    ∃ b1 b2 : Branch α, r.routes = [[b1, b2]] ∧ r.iterations = 1 ∧
      r.trees = [upd (upd (fun _ => none) e2.dst b2) e1.dst b1] ∧
      b1.edge = source ∧ b1.terminal = e1.src ∧ b2.edge = tgt ∧ b2.terminal = e2.src ∧
      c.inst.trav source none (initialState c.feats) = .ok (b1.access, b1.traversal, b1.state) ∧
      c.inst.trav tgt (some source) b1.state = .ok (b2.access, b2.traversal, b2.state) ∧
      0 < b1.access + b1.traversal ∧ 0 < b2.access + b2.traversal ∧
      c.inst.keyV b1.edge = c.inst.termV b2.edge ∧
      c.inst.termV b1.edge = b1.terminal ∧ c.inst.termV b2.edge = b2.terminal := by
  obtain ⟨ac1, tc1, st1, ac2, tc2, st2, ht1, ht2, hroutes, htrees, hiters⟩ :=
    runEdge_adjacent c source tgt sched r e1 e2 h1 h2 hne hadj' h
  have hc : ({ c with reverse := false } : Config α) = c := by
    cases c; simp only at hfwd; subst hfwd; rfl
  rw [hc] at ht1 ht2
  refine ⟨_, _, hroutes, hiters, htrees, rfl, rfl, rfl, rfl, ht1, ht2,
    edgeTraversal_total_pos c _ _ _ _ _ _ ht1, edgeTraversal_total_pos c _ _ _ _ _ _ ht2, ?_, ?_, ?_⟩
  · show c.inst.keyV source = c.inst.termV tgt
    rw [inst_keyV_fwd hfwd h1, inst_termV_fwd hfwd h2]; exact hadj'
  · exact inst_termV_fwd hfwd h1
  · exact inst_termV_fwd hfwd h2

/-- **`edge_oriented_route_walk`** (C01, `search_algorithm::run_edge_oriented`, forward direction),
both cases at once: for distinct origin and destination edges a successful run returns exactly one
route; it has at least two elements, the first carries the origin edge, the last the destination
edge, consecutive edges chain in graph orientation (head of one = tail of the next), every
element's `terminal` is the tail of its edge, and no edge id occurs twice (self loops included). -/
theorem edge_oriented_route_walk (c : Config α) (hadj : c.AdjConsistent) (hfwd : c.reverse = false)
    (source tgt : Nat) (sched : List Nat) (r : AlgResult α) (hne : source ≠ tgt)
    (h : c.runEdge source (some tgt) sched = .ok r) :
    ∃ route, r.routes = [route] ∧ 2 ≤ route.length ∧
      (∃ b, route.head? = some b ∧ b.edge = source) ∧
      (∃ b, route.getLast? = some b ∧ b.edge = tgt) ∧
      (∀ i (hi : i + 1 < route.length),
        c.inst.keyV route[i].edge = c.inst.termV route[i + 1].edge) ∧
      (∀ b ∈ route, c.inst.termV b.edge = b.terminal) ∧
      (route.map (·.edge)).Nodup := by
  cases h1 : c.edges[source]? with
  | none => rw [runEdge_bad_origin c source _ sched h1] at h; cases h
  | some e1 =>
    cases h2 : c.edges[tgt]? with
    | none =>
      unfold Config.runEdge at h
      simp only [h1, h2] at h
      cases h
    | some e2 =>
      by_cases hadj' : e1.dst = e2.src
      · obtain ⟨b1, b2, hroutes, _, _, hb1, _, hb2, _, _, _, _, _, hch, ht1, ht2⟩ :=
          runEdge_adjacent_walk c hfwd source tgt sched r e1 e2 h1 h2 hne hadj' h
        refine ⟨[b1, b2], hroutes, by simp, ⟨b1, rfl, hb1⟩, ⟨b2, rfl, hb2⟩, ?_, ?_, ?_⟩
        · intro i hi
          have hi0 : i = 0 := by simp only [List.length_cons, List.length_nil] at hi; omega
          subst hi0
          exact hch
        · intro b hb
          simp only [List.mem_cons, List.not_mem_nil, or_false] at hb
          rcases hb with rfl | rfl
          · exact ht1
          · exact ht2
        · simp only [List.map_cons, List.map_nil, hb1, hb2]
          simp [hne]
      · obtain ⟨r', inner, last, origin, dest, _, _, _, _, hlast, hroutes, ho, _, _, _, _, hd,
          _, _, _, _, hch, hterm, hnd⟩ :=
          runEdge_nonadjacent_walk c hadj hfwd source tgt sched r e1 e2 h1 h2 hne hadj' h
        have hinner : inner ≠ [] := by
          intro h0; rw [h0] at hlast; cases hlast
        refine ⟨origin :: inner ++ [dest], hroutes, ?_, ⟨origin, rfl, ho⟩, ⟨dest, ?_, hd⟩,
          List.isChain_iff_getElem.1 hch, hterm, hnd⟩
        · have : 0 < inner.length := List.length_pos_iff.2 hinner
          simp only [List.cons_append, List.length_cons, List.length_append, List.length_nil]
          omega
        · rw [List.getLast?_append]
          rfl

/-- **destination-less edge-oriented search**: the (single) returned tree is the inner tree of the
vertex-oriented search from the origin edge's head `e1.dst`, with the origin element inserted under
`e1.dst` — always inserted, because the inner search never gives its own source an entry; every
other entry is the inner one, unchanged; no route; iterations are the inner ones + 1 -/
theorem runEdge_none_tree (c : Config α) (hadj : c.AdjConsistent) (source : Nat)
    (sched : List Nat) (r : AlgResult α) (e1 : EdgeRec α) (h1 : c.edges[source]? = some e1)
    (h : c.runEdge source none sched = .ok r) :
    ∃ (r' : AlgResult α) (innerTree tree : Nat → Option (Branch α)),
      c.runVertex e1.dst none sched = .ok r' ∧ r'.trees = [innerTree] ∧ r'.routes = [] ∧
      r.routes = [] ∧ r.iterations = r'.iterations + 1 ∧ r.trees = [tree] ∧
      innerTree e1.dst = none ∧
      tree = upd innerTree e1.dst (originBranch c source e1) ∧
      tree e1.dst = some (originBranch c source e1) ∧
      (∀ v, v ≠ e1.dst → tree v = innerTree v) := by
  obtain ⟨res, hres, hnone, hroutes, hiters, htrees⟩ := runEdge_none c source sched r e1 h1 h
  obtain ⟨_, hinv⟩ := SearchTree.runVertexOriented_tree (c.inst_wf hadj) e1.dst sched res hres
  have hsrc : res.final.sol e1.dst = none := hinv.sol_source
  rw [hsrc] at htrees
  simp only at htrees
  refine ⟨_, res.final.sol, upd res.final.sol e1.dst (originBranch c source e1),
    runVertex_eq hres, rfl, by rw [hnone]; rfl, hroutes, hiters, htrees, hsrc, rfl,
    SearchTree.upd_same _ _ _, fun v hv => SearchTree.upd_other _ _ _ hv⟩

/-- in a forward search every entry of that tree (the origin entry included) records an edge
joining the entry's `terminal` to the entry's own vertex -/
theorem runEdge_none_tree_joins (c : Config α) (hadj : c.AdjConsistent) (hfwd : c.reverse = false)
    (source : Nat) (sched : List Nat) (r : AlgResult α)
    (h : c.runEdge source none sched = .ok r) :
    ∀ tree ∈ r.trees, ∀ v b, tree v = some b →
      c.inst.keyV b.edge = v ∧ c.inst.termV b.edge = b.terminal := by
  cases h1 : c.edges[source]? with
  | none => rw [runEdge_bad_origin c source _ sched h1] at h; cases h
  | some e1 =>
    obtain ⟨res, hres, _, _, _, htrees⟩ := runEdge_none c source sched r e1 h1 h
    obtain ⟨_, hinv⟩ := SearchTree.runVertexOriented_tree (c.inst_wf hadj) e1.dst sched res hres
    rw [hinv.sol_source] at htrees
    simp only at htrees
    intro tree htree v b hb
    rw [htrees, List.mem_singleton] at htree
    subst htree
    by_cases hv : v = e1.dst
    · subst hv
      rw [SearchTree.upd_same] at hb
      cases hb
      exact ⟨inst_keyV_fwd hfwd h1, inst_termV_fwd hfwd h1⟩
    · rw [SearchTree.upd_other _ _ _ hv] at hb
      obtain ⟨hk, ht, _⟩ := hinv.entry v b hb
      exact ⟨hk, ht⟩

/-- every *inner* element of an edge-oriented route (everything but the origin and destination
elements) is a frontier-accepted, really traversed tree entry of the inner search -/
theorem runEdge_inner_valid (c : Config α) (source tgt : Nat) (sched : List Nat)
    (r : AlgResult α) (e1 e2 : EdgeRec α) (h1 : c.edges[source]? = some e1)
    (h2 : c.edges[tgt]? = some e2) (hne : source ≠ tgt) (hnadj : e1.dst ≠ e2.src)
    (h : c.runEdge source (some tgt) sched = .ok r) :
    (∀ tree ∈ r.trees, ∀ v b, tree v = some b → EntryOK c.inst b) ∧
    ∃ (inner : List (Branch α)) (last : Branch α),
      r.routes = [originBranch c source e1 :: inner ++ [destBranch tgt e2 last.state]] ∧
      ∀ b ∈ inner, EntryOK c.inst b := by
  obtain ⟨res, inner, last, hres, hinner, _, htrees, _, hroutes⟩ :=
    runEdge_nonadjacent c source tgt sched r e1 e2 h1 h2 hne hnadj h
  obtain ⟨hv1, hv2⟩ := runVertexOriented_validInv c.inst e1.dst (some e2.src) sched res hres
  refine ⟨?_, inner, last, hroutes, hv2 inner hinner⟩
  intro tree htree v b hb
  rw [htrees, List.mem_singleton] at htree
  subst htree
  exact hv1 v b hb

/-- the origin and destination elements cost nothing: the summed cost of the wrapped route is the
summed cost of the inner route -/
theorem wrap_cost (c : Config α) (source tgt : Nat) (e1 e2 : EdgeRec α) (st : List α)
    (inner : List (Branch α)) :
    ((originBranch c source e1 :: inner ++ [destBranch tgt e2 st]).map
      (fun b => b.access + b.traversal)).sum = (inner.map (fun b => b.access + b.traversal)).sum := by
  simp only [List.cons_append, List.map_cons, List.map_append, List.map_nil, List.sum_cons,
    List.sum_append, List.sum_nil, originBranch, destBranch, zero_eq]
  ring

/-- **route optimality through the wrapper** (non-adjacent case, either direction): when the
configuration's instance is in the setting `Uniform` with a heuristic admissible for the inner
target `e2.src`, the summed cost of the returned edge-oriented route is the least cost of a valid
walk from the origin edge's head to the destination edge's tail, attained by its inner part -/
theorem runEdge_route_optimal (c : Config α) {ok : Nat → Bool} {cst hv : Nat → α}
    (U : Uniform c.inst ok cst hv) (source tgt : Nat) (sched : List Nat) (r : AlgResult α)
    (e1 e2 : EdgeRec α) (h1 : c.edges[source]? = some e1) (h2 : c.edges[tgt]? = some e2)
    (hne : source ≠ tgt) (hnadj : e1.dst ≠ e2.src)
    (hadm : Admissible c.inst ok cst hv e2.src)
    (h : c.runEdge source (some tgt) sched = .ok r) :
    ∃ (route inner : List (Branch α)) (last : Branch α), r.routes = [route] ∧
      route = originBranch c source e1 :: inner ++ [destBranch tgt e2 last.state] ∧
      Walk c.inst ok e1.dst (inner.map (·.edge)) e2.src ∧
      (route.map (fun b => b.access + b.traversal)).sum = cost cst (inner.map (·.edge)) ∧
      ∀ es, Walk c.inst ok e1.dst es e2.src →
        (route.map (fun b => b.access + b.traversal)).sum ≤ cost cst es := by
  obtain ⟨res, inner, last, hres, hinner, _, _, _, hroutes⟩ :=
    runEdge_nonadjacent c source tgt sched r e1 e2 h1 h2 hne hnadj h
  obtain ⟨inner', d, hinner', _, hw, hsum, _, _, hmin⟩ :=
    route_optimal U (fun h => hnadj h.symm) hadm hres
  rw [hinner] at hinner'
  cases hinner'
  refine ⟨_, inner, last, hroutes, rfl, hw, ?_, ?_⟩
  · rw [wrap_cost]; exact hsum
  · intro es hes
    rw [wrap_cost]; exact hmin es hes

/-- `runEdge_route_optimal` with the premises a concrete configuration can meet (`UniformOn`; `WF`
holds of every configuration with consistent adjacency) -/
theorem runEdge_route_optimal_on (c : Config α) (hadj : c.AdjConsistent)
    {S : Option Nat → List α → Prop} {ok : Nat → Bool} {cst hv : Nat → α}
    (U : UniformOn c.inst S ok cst hv) (source tgt : Nat) (sched : List Nat) (r : AlgResult α)
    (e1 e2 : EdgeRec α) (h1 : c.edges[source]? = some e1) (h2 : c.edges[tgt]? = some e2)
    (hne : source ≠ tgt) (hnadj : e1.dst ≠ e2.src)
    (hadm : Admissible c.inst ok cst hv e2.src)
    (h : c.runEdge source (some tgt) sched = .ok r) :
    ∃ (route inner : List (Branch α)) (last : Branch α), r.routes = [route] ∧
      route = originBranch c source e1 :: inner ++ [destBranch tgt e2 last.state] ∧
      Walk c.inst ok e1.dst (inner.map (·.edge)) e2.src ∧
      (route.map (fun b => b.access + b.traversal)).sum = cost cst (inner.map (·.edge)) ∧
      ∀ es, Walk c.inst ok e1.dst es e2.src →
        (route.map (fun b => b.access + b.traversal)).sum ≤ cost cst es := by
  obtain ⟨res, inner, last, hres, hinner, _, _, _, hroutes⟩ :=
    runEdge_nonadjacent c source tgt sched r e1 e2 h1 h2 hne hnadj h
  obtain ⟨inner', d, hinner', _, hw, hsum, _, _, hmin⟩ :=
    route_optimal_on (c.inst_wf hadj) U (fun h => hnadj h.symm) hadm hres
  rw [hinner] at hinner'
  cases hinner'
  refine ⟨_, inner, last, hroutes, rfl, hw, ?_, ?_⟩
  · rw [wrap_cost]; exact hsum
  · intro es hes
    rw [wrap_cost]; exact hmin es hes

/-- a successful `run_a_star` towards a target other than the source extends to a successful
`run_vertex_oriented` with the same final state (the backtrack cannot fail) -/
theorem runVertexOriented_of_runAStar {I : Inst α} (hI : WF I) {source t : Nat} (hts : t ≠ source)
    {sched : List Nat} {s : SState α} (h : runAStar I source (some t) sched = .ok s) :
    ∃ res, runVertexOriented I source (some t) sched = .ok res ∧ res.final = s := by
  cases hr : runVertexOriented I source (some t) sched with
  | error k =>
    have := SearchTree.runVertexOriented_error hI source t sched k hts hr
    rw [h] at this
    cases this
  | ok res =>
    have := (runVertexOriented_some hr).1
    rw [h] at this
    injection this with this
    exact ⟨res, rfl, this.symm⟩

/-! ## D. Non-vacuity

* `SearchTree.Example.inst` (parallel pair, self loop): entry validity on an actual run;
* `SearchOpt.Example.exInst` (forbidden shortcut edge 6, admissible but inconsistent heuristic, the
  run re-labels two vertices): A1/A2 and route optimality on an actual A* run;
* `exConfig`, a concrete configuration (distance traversal model, raw distance cost, two self
  loops, a cycle): the three cases of the edge-oriented wrapper on actual runs. -/

namespace Example

open SearchOpt.Example

/-- the run of `SearchTree.Example` succeeds -/
theorem tree_run_ok :
    ∃ res, runVertexOriented SearchTree.Example.inst 0 (some 2) [0, 1, 2] = .ok res := by
  cases h : runVertexOriented SearchTree.Example.inst 0 (some 2) [0, 1, 2] with
  | error k =>
    have : SearchTree.Example.routeEdges
        (runVertexOriented SearchTree.Example.inst 0 (some 2) [0, 1, 2]) = some [0, 3] := by
      decide +kernel
    rw [h] at this
    simp [SearchTree.Example.routeEdges] at this
  | ok res => exact ⟨res, rfl⟩

/-- A on an actual run: the target's entry exists and is `EntryOK` -/
example : ∃ res b, runVertexOriented SearchTree.Example.inst 0 (some 2) [0, 1, 2] = .ok res ∧
    res.final.sol 2 = some b ∧ EntryOK SearchTree.Example.inst b := by
  obtain ⟨res, hres⟩ := tree_run_ok
  obtain ⟨_, hsome, _⟩ := SearchTree.runVertexOriented_route SearchTree.Example.inst_wf 0 2
    [0, 1, 2] res (by decide) hres
  obtain ⟨b, hb⟩ := Option.isSome_iff_exists.1 hsome
  exact ⟨res, b, hres, hb, (runVertexOriented_validInv _ 0 (some 2) [0, 1, 2] res hres).1 2 b hb⟩

/-- the A* run of `SearchOpt.Example` as a `run_vertex_oriented` run -/
theorem opt_run_ok : ∃ res, runVertexOriented exInst 0 (some 3) [0, 1, 2, 3] = .ok res ∧
    res.final.g 3 = some 3 := by
  obtain ⟨s, hs, hg⟩ := ex_run_ok
  obtain ⟨res, hres, hfin⟩ := runVertexOriented_of_runAStar
    (wf_of_uniformCost ex_uniform.toUniformCost) (by decide) hs
  exact ⟨res, hres, by rw [hfin]; exact hg⟩

/-- A1/A2 on that run: the forbidden edge 6 is in no tree entry and not in the route -/
example : ∃ res route, runVertexOriented exInst 0 (some 3) [0, 1, 2, 3] = .ok res ∧
    res.route = some route ∧ (∀ v b, res.final.sol v = some b → b.edge ≠ 6) ∧
    6 ∉ route.map (·.edge) := by
  obtain ⟨res, hres, _⟩ := opt_run_ok
  obtain ⟨route, _, hr, _⟩ := route_optimal ex_uniform (by decide) ex_admissible hres
  obtain ⟨h1, h2⟩ := route_edges_ok ex_uniform.valid_eq hres
  refine ⟨res, route, hres, hr, ?_, ?_⟩
  · intro v b hb h6
    have := h1 v b hb
    rw [h6] at this
    exact absurd this (by decide)
  · intro h6
    exact absurd (h2 route hr 6 h6) (by decide)

/-- B on that run: the returned route is a valid walk `0 ⇝ 3` of summed cost 3, and every valid
walk `0 ⇝ 3` costs at least 3 (the shortcut edge 6 of cost 1 is forbidden) -/
example : ∃ res route, runVertexOriented exInst 0 (some 3) [0, 1, 2, 3] = .ok res ∧
    res.route = some route ∧ Walk exInst exOk 0 (route.map (·.edge)) 3 ∧
    (route.map (fun b => b.access + b.traversal)).sum = 3 ∧
    ∀ es, Walk exInst exOk 0 es 3 → 3 ≤ cost exCost es := by
  obtain ⟨res, hres, hg⟩ := opt_run_ok
  obtain ⟨route, d, hr, _, hw, _, hd, hsum, hmin⟩ :=
    route_optimal ex_uniform (by decide) ex_admissible hres
  rw [hg] at hd
  have hd3 : (3 : ℚ) = d := by simpa using hd
  subst hd3
  exact ⟨res, route, hres, hr, hw, hsum, fun es hes => hsum ▸ hmin es hes⟩

/-- six edges on four vertices: 0: 0→1, 1: 1→2, 2: 2→3, 3: 1→1 (self loop at the origin edge's
head), 4: 3→1 (closes a cycle), 5: 2→2 (self loop at the destination edge's tail); distance
traversal model in metres, cost = raw distance -/
def exConfig : Config ℚ where
  nV := 4
  edges := [⟨0, 1, 1000⟩, ⟨1, 2, 2000⟩, ⟨2, 3, 500⟩, ⟨1, 1, 100⟩, ⟨3, 1, 700⟩, ⟨2, 2, 50⟩]
  outAdj := [[0], [1, 3], [2, 5], [4]]
  inAdj := [[], [0, 3, 4], [1, 5], [2]]
  feats := [{ name := "distance", kind := .dist .meters, init := 0 }]
  trav := .distance .meters
  access := .noAccess
  cost := { indices := [0], weights := [1], vehicleRates := [.raw], networkRates := [.zero],
            agg := .sum }
  frontier := []
  term := .iters 100
  reverse := false
  gc := [0, 0, 0, 0]
  wf := none

theorem exConfig_adj : exConfig.AdjConsistent := by
  intro v e he
  match v with
  | 0 => simp [Config.inst, exConfig] at he; subst he; rfl
  | 1 => simp [Config.inst, exConfig] at he; rcases he with rfl | rfl <;> rfl
  | 2 => simp [Config.inst, exConfig] at he; rcases he with rfl | rfl <;> rfl
  | 3 => simp [Config.inst, exConfig] at he; subst he; rfl
  | n + 4 => simp [Config.inst, exConfig] at he

/-- decidable observations of a wrapper result (trees are functions) -/
def routeEdgesOf (r : Except ErrKind (AlgResult ℚ)) : Option (List (List Nat)) :=
  match r with
  | .ok res => some (res.routes.map (·.map (·.edge)))
  | .error _ => none

def routeCostsOf (r : Except ErrKind (AlgResult ℚ)) : Option (List (List ℚ)) :=
  match r with
  | .ok res => some (res.routes.map (·.map (fun b => b.access + b.traversal)))
  | .error _ => none

/-- (terminal, edge) of the entries of each tree at the listed vertices -/
def treeEntriesOf (r : Except ErrKind (AlgResult ℚ)) (vs : List Nat) :
    Option (List (List (Option (Nat × Nat)))) :=
  match r with
  | .ok res =>
    some (res.trees.map (fun t => vs.map (fun v => (t v).map (fun b => (b.terminal, b.edge)))))
  | .error _ => none

theorem ok_of_routeEdgesOf {r : Except ErrKind (AlgResult ℚ)} {l : List (List Nat)}
    (h : routeEdgesOf r = some l) : ∃ res, r = .ok res := by
  cases r with
  | error k => simp [routeEdgesOf] at h
  | ok res => exact ⟨res, rfl⟩

/-- non-adjacent case, origin edge 0 (0→1), destination edge 2 (2→3): the route is `[0, 1, 2]` with
costs `[0, 2000, 0]`, and `edge_oriented_route_walk` applies to it -/
example : routeEdgesOf (exConfig.runEdge 0 (some 2) [1, 2]) = some [[0, 1, 2]] ∧
    routeCostsOf (exConfig.runEdge 0 (some 2) [1, 2]) = some [[0, 2000, 0]] := by
  decide +kernel

example : ∃ r route, exConfig.runEdge 0 (some 2) [1, 2] = .ok r ∧ r.routes = [route] ∧
    (route.map (·.edge)).Nodup ∧
    (∀ i (hi : i + 1 < route.length),
      exConfig.inst.keyV route[i].edge = exConfig.inst.termV route[i + 1].edge) := by
  obtain ⟨r, hr⟩ := ok_of_routeEdgesOf
    (show routeEdgesOf (exConfig.runEdge 0 (some 2) [1, 2]) = some [[0, 1, 2]] by decide +kernel)
  obtain ⟨route, h1, _, _, _, h5, _, h7⟩ :=
    edge_oriented_route_walk exConfig exConfig_adj rfl 0 2 [1, 2] r (by decide) hr
  exact ⟨r, route, hr, h1, h7, h5⟩

/-- a longer inner route through the cycle: origin edge 0 (0→1), destination edge 4 (3→1) whose
head is the inner source; route `[0, 1, 2, 4]` -/
example : routeEdgesOf (exConfig.runEdge 0 (some 4) [1, 2, 3]) = some [[0, 1, 2, 4]] := by
  decide +kernel

/-- self loops as origin edge (3: 1→1) and as destination edge (5: 2→2) are covered by the
theorem (no exclusion): routes `[3, 1, 2]` and `[0, 1, 5]` -/
example : routeEdgesOf (exConfig.runEdge 3 (some 2) [1, 2]) = some [[3, 1, 2]] ∧
    routeEdgesOf (exConfig.runEdge 0 (some 5) [1, 2]) = some [[0, 1, 5]] := by
  decide +kernel

/-- adjacent case, origin edge 0 (0→1), destination edge 1 (1→2): both edges really traversed -/
example : routeEdgesOf (exConfig.runEdge 0 (some 1) []) = some [[0, 1]] ∧
    routeCostsOf (exConfig.runEdge 0 (some 1) []) = some [[1000, 2000]] := by
  decide +kernel

example : ∃ r b1 b2, exConfig.runEdge 0 (some 1) [] = .ok r ∧ r.routes = [[b1, b2]] ∧
    0 < b1.access + b1.traversal ∧ 0 < b2.access + b2.traversal := by
  obtain ⟨r, hr⟩ := ok_of_routeEdgesOf
    (show routeEdgesOf (exConfig.runEdge 0 (some 1) []) = some [[0, 1]] by decide +kernel)
  obtain ⟨b1, b2, h1, _, _, _, _, _, _, _, _, hp1, hp2, _⟩ :=
    runEdge_adjacent_walk exConfig rfl 0 1 [] r ⟨0, 1, 1000⟩ ⟨1, 2, 2000⟩ rfl rfl (by decide) rfl hr
  exact ⟨r, b1, b2, hr, h1, hp1, hp2⟩

/-- destination-less case, origin edge 4 (3→1): the tree gets the origin entry `1 ↦ (3, edge 4)`.
Its `terminal` 3 is reachable from the inner source 1, so the parent pointers of the returned tree
form a cycle `1 → 3 → 2 → 1`: `SearchTree.tree_rooted` holds of the inner tree, not of the tree the
wrapper returns (a root must be recognised as "the origin edge's head", not as "has no entry"). -/
example : treeEntriesOf (exConfig.runEdge 4 none [1, 2, 3]) [0, 1, 2, 3] =
    some [[none, some (3, 4), some (1, 1), some (2, 2)]] := by
  decide +kernel

example : ∃ r tree, exConfig.runEdge 4 none [1, 2, 3] = .ok r ∧ r.trees = [tree] ∧
    tree 1 = some (originBranch exConfig 4 ⟨3, 1, 700⟩) ∧ r.routes = [] := by
  cases hr : exConfig.runEdge 4 none [1, 2, 3] with
  | error k =>
    have : treeEntriesOf (exConfig.runEdge 4 none [1, 2, 3]) [] = some [[]] := by decide +kernel
    rw [hr] at this
    simp [treeEntriesOf] at this
  | ok r =>
    obtain ⟨_, _, tree, _, _, _, h4, _, h6, _, _, h9, _⟩ :=
      runEdge_none_tree exConfig exConfig_adj 4 [1, 2, 3] r ⟨3, 1, 700⟩ rfl hr
    exact ⟨r, tree, rfl, h6, h9, h4⟩

/-! the hypothesis `c.reverse = false` of `edge_oriented_route_walk` is needed: the failing reverse
run on this network is `C01.edge_oriented_reverse_counterexample` (Props/C01.lean).
(`SearchApp::run_edge_oriented` always passes `Direction::Forward`.) -/

/-- the frontier model is never asked about the destination (or origin) edge: with edge 2 cut
(`valid 2 = .ok false`) the wrapper still returns the route `[0, 1, 2]` ending with edge 2.  So A1
(`route_edges_ok`) is a statement about the *inner* elements only (`runEdge_inner_valid`). -/
example :
    ({ exConfig with frontier := [.edgeCut [2]] } : Config ℚ).inst.valid 2 [0] (some 1) = .ok false ∧
    routeEdgesOf (({ exConfig with frontier := [.edgeCut [2]] } : Config ℚ).runEdge 0 (some 2) [1, 2])
      = some [[0, 1, 2]] := by
  decide +kernel

/-- nor about the turn at a seam: the inner search starts without previous edge, so with the turn
(0, 1) restricted (`valid 1 _ (some 0) = .ok false`) the wrapper still returns `[0, 1, 2]`, which
takes edge 1 right after edge 0 -/
example :
    ({ exConfig with frontier := [.turnRestriction [(0, 1)]] } : Config ℚ).inst.valid 1 [0] (some 0)
      = .ok false ∧
    routeEdgesOf (({ exConfig with frontier := [.turnRestriction [(0, 1)]] } : Config ℚ).runEdge 0
      (some 2) [1, 2]) = some [[0, 1, 2]] := by
  decide +kernel

/-- the same in the adjacent case: origin edge 0, destination edge 1, turn (0, 1) restricted, route
`[0, 1]` -/
example :
    routeEdgesOf (({ exConfig with frontier := [.turnRestriction [(0, 1)]] } : Config ℚ).runEdge 0
      (some 1) []) = some [[0, 1]] := by
  decide +kernel

end Example

end SearchRoute
end Compass
