/-
Proofs about the batch model (`Model/Batch.lean`): the code with explicit panic / divergence outcomes computes
the total functions; chunking is invisible; load balancing is a partition; the result of `run` is, as a
multiset, the union of the per-query answers; worker interleavings do not matter.
-/
import Compass.Model.Batch
import Compass.Proofs.GridSearch
import Mathlib.Data.List.Perm.Basic
import Mathlib.Data.List.Flatten

namespace Compass
namespace Batch
open MultiSet (Outcome)
open GridSearch (PipeErr noRequest flatten1 flattenInPlace jsonArrayFlatten mapOp jsonArrayOp applyOps
  applyInputPlugins)

/-! ### the code is the function: plugins -/

theorem injectGuard_none_isObject {key : String} {overwrite : Bool} {q : Json}
    (h : injectGuard key overwrite q = none) : ∃ kvs, q = .obj kvs := by
  unfold injectGuard at h
  cases q <;> cases overwrite <;> simp_all [Json.isObject]

/-- every plugin of the model is total: no panic, no divergence (grid search: C17) -/
theorem processO_eq (p : Plugin) (q : Json) : processO p q = .ok (processT p q) := by
  cases p with
  | gridSearch =>
    simp only [processO, processT, GridSearch.processO_eq]
    cases GridSearch.process q <;> rfl
  | inject key value overwrite =>
    simp only [processO, processT]
    cases hg : injectGuard key overwrite q with
    | some e => rfl
    | none =>
      obtain ⟨kvs, rfl⟩ := injectGuard_none_isObject hg
      simp [Json.indexAssign]
  | lbNumeric col fmt =>
    simp only [processO, processT]
    cases customWeight (.lbNumeric col fmt) q <;> rfl
  | lbCategorical col m d fmt =>
    simp only [processO, processT]
    cases customWeight (.lbCategorical col m d fmt) q <;> rfl
  | table t =>
    simp only [processO, processT]
    cases lookupStr t q.toCompact with
    | none => rfl
    | some e => cases e <;> rfl
  | userSplit key => rfl
  | userFailOn m => rfl
  | userBreaker key => rfl

/-! ### the code is the function: pipeline -/

section pipeline
variable {ε : Type}

theorem mapOpO_eq (opO : Json → Outcome (Except ε Json)) (op : Json → Except ε Json)
    (h : ∀ q, opO q = .ok (op q)) : ∀ l, mapOpO opO l = .ok (mapOp op l)
  | [] => rfl
  | q :: r => by
    simp only [mapOpO, mapOp, h q]
    cases op q with
    | error e => rfl
    | ok q' =>
      simp only [mapOpO_eq opO op h r]
      cases mapOp op r <;> rfl

theorem jsonArrayOpO_eq (opO : Json → Outcome (Except ε Json)) (op : Json → Except ε Json)
    (h : ∀ q, opO q = .ok (op q)) (s : Json) : jsonArrayOpO opO s = .ok (jsonArrayOp op s) := by
  cases s with
  | arr qs =>
    simp only [jsonArrayOpO, jsonArrayOp, mapOpO_eq opO op h qs]
    cases mapOp op qs <;> rfl
  | _ => rfl

theorem applyOpsO_eq {ι : Type} (fO : ι → Json → Outcome (Except ε Json)) (f : ι → Json → Except ε Json)
    (h : ∀ i q, fO i q = .ok (f i q)) :
    ∀ (ps : List ι) (s : Json), applyOpsO (ps.map fO) s = .ok (applyOps (ps.map f) s)
  | [], _ => rfl
  | p :: ps, s => by
    simp only [List.map_cons, applyOpsO, applyOps, jsonArrayOpO_eq (fO p) (f p) (h p) s]
    cases jsonArrayOp (f p) s with
    | error e => rfl
    | ok s' => exact applyOpsO_eq fO f h ps s'

theorem applyInputPluginsO_eq {ι : Type} (fO : ι → Json → Outcome (Except ε Json))
    (f : ι → Json → Except ε Json) (h : ∀ i q, fO i q = .ok (f i q)) (ps : List ι) (q : Json) :
    applyInputPluginsO (ps.map fO) q = .ok (applyInputPlugins (ps.map f) q) := by
  simp only [applyInputPluginsO, applyInputPlugins, applyOpsO_eq fO f h ps]
  cases q.isObject with
  | false => rfl
  | true =>
    simp only [if_true]
    cases applyOps (ps.map f) (.arr [q]) with
    | error e => rfl
    | ok s =>
      simp only
      cases (jsonArrayFlatten s : Except (PipeErr ε) (List Json)) <;> rfl

end pipeline

theorem prepO_eq (plugins : List Plugin) (q : Json) : prepO plugins q = .ok (prepT plugins q) := by
  simp only [prepO, prepT, applyInputPluginsO_eq processO processT processO_eq plugins q]
  cases applyInputPlugins (plugins.map processT) q <;> rfl

theorem processChunkO_eq (plugins : List Plugin) :
    ∀ l, processChunkO plugins l = .ok (processChunkT plugins l)
  | [] => rfl
  | q :: r => by
    simp only [processChunkO, processChunkT, prepO_eq, processChunkO_eq plugins r]
    cases prepT plugins q <;> rfl

theorem mapChunksO_eq (plugins : List Plugin) :
    ∀ cs, mapChunksO plugins cs = .ok (cs.map (processChunkT plugins))
  | [] => rfl
  | c :: cs => by simp only [mapChunksO, processChunkO_eq, mapChunksO_eq plugins cs, List.map_cons]

/-! ### partition into processed / error responses -/

/-- the expanded queries of the queries that pass input processing, in order -/
def oks (plugins : List Plugin) (l : List Json) : List (List Json) :=
  l.filterMap (fun q => match prepT plugins q with | .ok qs => some qs | .error _ => none)

/-- the error responses of the queries that fail input processing, in order -/
def errs (plugins : List Plugin) (l : List Json) : List Json :=
  l.filterMap (fun q => match prepT plugins q with | .ok _ => none | .error e => some e)

theorem processChunkT_eq (plugins : List Plugin) :
    ∀ l, processChunkT plugins l = (oks plugins l, errs plugins l)
  | [] => rfl
  | q :: r => by
    simp only [processChunkT, processChunkT_eq plugins r, oks, errs, List.filterMap_cons]
    cases prepT plugins q <;> rfl

theorem oks_append (plugins : List Plugin) (a b : List Json) :
    oks plugins (a ++ b) = oks plugins a ++ oks plugins b := by simp [oks]

theorem errs_append (plugins : List Plugin) (a b : List Json) :
    errs plugins (a ++ b) = errs plugins a ++ errs plugins b := by simp [errs]

theorem oks_flatten (plugins : List Plugin) :
    ∀ cs : List (List Json), (cs.map (oks plugins)).flatten = oks plugins cs.flatten
  | [] => rfl
  | c :: cs => by simp [oks_append, oks_flatten plugins cs]

theorem errs_flatten (plugins : List Plugin) :
    ∀ cs : List (List Json), (cs.map (errs plugins)).flatten = errs plugins cs.flatten
  | [] => rfl
  | c :: cs => by simp [errs_append, errs_flatten plugins cs]

/-! ### chunking -/

theorem chunkSize_pos (len p : Nat) : 1 ≤ chunkSize len p := by
  unfold chunkSize; exact Nat.le_max_right _ _

theorem chunksAux_flatten {α : Type} (n : Nat) (hn : 1 ≤ n) :
    ∀ (fuel : Nat) (l : List α), l.length ≤ fuel → (chunksAux n fuel l).flatten = l
  | 0, l, h => by
    have : l = [] := List.eq_nil_of_length_eq_zero (by omega)
    subst this; rfl
  | fuel + 1, [], _ => rfl
  | fuel + 1, x :: r, h => by
    simp only [chunksAux, List.flatten_cons]
    rw [chunksAux_flatten n hn fuel ((x :: r).drop n) (by
      simp only [List.length_drop, List.length_cons] at h ⊢; omega)]
    exact List.take_append_drop n (x :: r)

/-- the chunks, joined, are the batch: chunking loses, duplicates and reorders nothing -/
theorem chunks_flatten {α : Type} (n : Nat) (hn : 1 ≤ n) (l : List α) : (chunks n l).flatten = l :=
  chunksAux_flatten n hn l.length l (Nat.le_refl _)

/-! ### load balancing -/

section balance
variable {α : Type} (W : WOps α)

theorem minBinAux_lt : ∀ (r : List α) (i best : Nat) (bv : α), best < i →
    minBinAux W i best bv r < i + r.length
  | [], i, best, _, h => by simp [minBinAux]; omega
  | x :: r, i, best, bv, h => by
    simp only [minBinAux, List.length_cons]
    split
    · have := minBinAux_lt r (i + 1) i x (by omega); omega
    · have := minBinAux_lt r (i + 1) best bv (by omega); omega

theorem minBin_lt {t : List α} {i : Nat} (h : minBin W t = some i) : i < t.length := by
  cases t with
  | nil => simp [minBin] at h
  | cons x r =>
    simp only [minBin, Option.some.injEq] at h
    have := minBinAux_lt W r 1 0 x (by omega)
    simp only [List.length_cons]; omega

theorem minBin_isSome {t : List α} (h : t ≠ []) : ∃ i, minBin W t = some i := by
  cases t with
  | nil => exact absurd rfl h
  | cons x r => exact ⟨_, rfl⟩

theorem addAt_some : ∀ (t : List α) (i : Nat) (w : α), i < t.length →
    ∃ t', addAt W i w t = some t' ∧ t'.length = t.length
  | [], _, _, h => by simp at h
  | x :: r, 0, w, _ => ⟨_, rfl, rfl⟩
  | x :: r, i + 1, w, h => by
    obtain ⟨t', h1, h2⟩ := addAt_some r i w (by simpa using h)
    exact ⟨x :: t', by simp [addAt, h1], by simp [h2]⟩

theorem pushAt_some {β : Type} : ∀ (b : List (List β)) (i : Nat) (q : β), i < b.length →
    ∃ b', pushAt i q b = some b' ∧ b'.length = b.length ∧ b'.flatten.Perm (b.flatten ++ [q])
  | [], _, _, h => by simp at h
  | x :: r, 0, q, _ => ⟨_, rfl, rfl, by
      simp only [List.flatten_cons, List.append_assoc]
      exact List.Perm.append_left x List.perm_append_comm⟩
  | x :: r, i + 1, q, h => by
    obtain ⟨b', h1, h2, h3⟩ := pushAt_some r i q (by simpa using h)
    refine ⟨x :: b', by simp [pushAt, h1], by simp [h2], ?_⟩
    simp only [List.flatten_cons, List.append_assoc]
    exact List.Perm.append_left x h3

/-- the loop: with `p ≥ 1` bins it never fails, keeps `p` bins, and adds every query to exactly one bin -/
theorem balanceLoopO_spec : ∀ (qs : List Json) (totals : List α) (bins : List (List Json)),
    totals.length = bins.length → bins ≠ [] →
    ∃ bins', balanceLoopO W qs totals bins = .ok (.ok bins') ∧ bins'.length = bins.length ∧
      bins'.flatten.Perm (bins.flatten ++ qs)
  | [], totals, bins, _, _ => ⟨bins, rfl, rfl, by simp⟩
  | q :: r, totals, bins, hl, hne => by
    have hb : 0 < bins.length := List.length_pos_iff.mpr hne
    have ht : totals ≠ [] := by
      intro h; rw [h] at hl; simp at hl; omega
    obtain ⟨i, hi⟩ := minBin_isSome W ht
    have hlt := minBin_lt W hi
    obtain ⟨t', ht1, ht2⟩ := addAt_some W totals i (weightOf W q) hlt
    obtain ⟨b', hb1, hb2, hb3⟩ := pushAt_some bins i q (by omega)
    have hne' : b' ≠ [] := by
      intro h; rw [h] at hb2; simp at hb2; omega
    obtain ⟨bins', h1, h2, h3⟩ := balanceLoopO_spec r t' b' (by omega) hne'
    refine ⟨bins', ?_, by omega, ?_⟩
    · simp only [balanceLoopO, hi, ht1, hb1, h1]
    · refine h3.trans ?_
      have : (b'.flatten ++ r).Perm ((bins.flatten ++ [q]) ++ r) := List.Perm.append_right r hb3
      simpa using this

/-- with no bins at all the first `min_bin` fails -/
theorem balanceLoopO_zero (q : Json) (r : List Json) :
    balanceLoopO W (q :: r) [] [] = .ok (.error .minBinEmpty) := rfl

theorem flatten_replicate_nil {β : Type} (n : Nat) : (List.replicate n ([] : List β)).flatten = [] := by
  induction n with
  | zero => rfl
  | succ n ih => simp [List.replicate_succ, ih]

theorem balanceO_spec (p : Nat) (hp : 1 ≤ p) (qs : List Json) :
    ∃ bins, balanceO W p qs = .ok (.ok bins) ∧ bins.flatten.Perm qs ∧
      (qs ≠ [] → bins.length = min p qs.length) ∧ (qs = [] → bins = []) := by
  unfold balanceO
  by_cases he : qs.isEmpty = true
  · have : qs = [] := List.isEmpty_iff.mp he
    subst this
    exact ⟨[], by simp, by simp, by simp, by simp⟩
  · simp only [he]
    have hlen : 0 < qs.length := by
      cases qs with
      | nil => simp at he
      | cons _ _ => simp
    have hn : 1 ≤ min p qs.length := by omega
    have hne : List.replicate (min p qs.length) ([] : List Json) ≠ [] := by
      intro h
      have := congrArg List.length h
      simp only [List.length_replicate, List.length_nil] at this
      omega
    obtain ⟨bins, h1, h2, h3⟩ := balanceLoopO_spec W qs (List.replicate (min p qs.length) W.zero)
      (List.replicate (min p qs.length) []) (by simp) hne
    refine ⟨bins, by simpa using h1, ?_, fun _ => by simpa using h2, fun h => by simp [h] at he⟩
    simpa [flatten_replicate_nil] using h3

/-- parallelism 0: `Err` for the whole batch as soon as one query is processed, `Ok([])` otherwise -/
theorem balanceO_zero (qs : List Json) :
    balanceO W 0 qs = if qs.isEmpty then .ok (.ok []) else .ok (.error .minBinEmpty) := by
  unfold balanceO
  cases qs with
  | nil => rfl
  | cons q r => simp [balanceLoopO, minBin]

end balance

/-! ### `run` -/

/-- the queries that reach the search, in batch order -/
def processed (plugins : List Plugin) (batch : List Json) : List Json := (oks plugins batch).flatten

/-- everything up to load balancing, as a total function of the batch (chunking has disappeared) -/
theorem runO_eq {α : Type} (W : WOps α) (cfg : Config) (respond : Json → Json) (batch : List Json) :
    runO W cfg respond batch =
      match balanceO W cfg.parallelism (processed cfg.plugins batch) with
      | .panic s => .panic s
      | .diverges => .diverges
      | .ok (.error e) => .ok (.error e)
      | .ok (.ok bins) => .ok (.ok (assemble cfg.persist respond bins (errs cfg.plugins batch))) := by
  have hn := chunkSize_pos batch.length cfg.selfPar
  have hc : parChunksO (chunkSize batch.length cfg.selfPar) batch
      = .ok (chunks (chunkSize batch.length cfg.selfPar) batch) := by
    unfold parChunksO
    rw [if_neg (by omega)]
  simp only [runO, hc, mapChunksO_eq, List.map_map]
  have h1 : (List.map ((fun x => x.1) ∘ processChunkT cfg.plugins)
      (chunks (chunkSize batch.length cfg.selfPar) batch)).flatten = oks cfg.plugins batch := by
    have : ((fun x : List (List Json) × List Json => x.1) ∘ processChunkT cfg.plugins)
        = oks cfg.plugins := by
      funext c; simp [processChunkT_eq]
    rw [this, oks_flatten, chunks_flatten _ hn]
  have h2 : (List.map ((fun x => x.2) ∘ processChunkT cfg.plugins)
      (chunks (chunkSize batch.length cfg.selfPar) batch)).flatten = errs cfg.plugins batch := by
    have : ((fun x : List (List Json) × List Json => x.2) ∘ processChunkT cfg.plugins)
        = errs cfg.plugins := by
      funext c; simp [processChunkT_eq]
    rw [this, errs_flatten, chunks_flatten _ hn]
  rw [h1, h2]
  rfl

/-- what a batch returns, query by query -/
def answers (plugins : List Plugin) (respond : Json → Json) (batch : List Json) : List Json :=
  batch.flatMap (answer plugins respond)

def answersErr (plugins : List Plugin) (batch : List Json) : List Json :=
  batch.flatMap (answerErr plugins)

theorem answersErr_eq (plugins : List Plugin) : ∀ batch, answersErr plugins batch = errs plugins batch
  | [] => rfl
  | q :: r => by
    have ih := answersErr_eq plugins r
    simp only [answersErr, List.flatMap_cons, errs, List.filterMap_cons, answerErr] at ih ⊢
    cases prepT plugins q <;> simp [ih]

/-- responses of the processed queries followed by the error responses: a permutation of the per-query
answers -/
theorem answers_perm (plugins : List Plugin) (respond : Json → Json) : ∀ batch,
    ((processed plugins batch).map respond ++ errs plugins batch).Perm (answers plugins respond batch)
  | [] => by simp [processed, oks, errs, answers]
  | q :: r => by
    have ih := answers_perm plugins respond r
    simp only [processed, oks, errs, answers, List.filterMap_cons, List.flatMap_cons, answer] at ih ⊢
    cases prepT plugins q with
    | ok qs =>
      simp only [List.flatten_cons, List.map_append, List.append_assoc]
      exact List.Perm.append_left _ ih
    | error e =>
      simp only [List.singleton_append]
      exact (List.perm_middle).trans (List.Perm.cons e ih)

theorem assemble_perm (persist : Bool) (respond : Json → Json) (bins : List (List Json))
    (qs errors : List Json) (hb : bins.flatten.Perm qs) (he : qs = [] → bins = []) :
    (assemble persist respond bins errors).Perm
      (if persist then qs.map respond ++ errors else errors) := by
  unfold assemble
  by_cases hbe : bins.isEmpty = true
  · have : bins = [] := List.isEmpty_iff.mp hbe
    subst this
    have : qs = [] := by simpa using hb.symm
    subst this
    cases persist <;> simp
  · simp only [hbe]
    cases persist with
    | false => simp
    | true =>
      simp only [Bool.false_eq_true, if_true, if_false]
      refine List.Perm.append_right errors ?_
      have : (bins.map (fun b => b.map respond)).flatten = bins.flatten.map respond := by
        induction bins with
        | nil => rfl
        | cons b bs ih => simp [List.flatten_cons]
      rw [this]
      exact hb.map respond

/-! ### the code against the item-by-item semantics -/

theorem itemwise_nil (ops : List (Json → Except PErr Json)) : itemwise ops [] = [] := by
  cases ops <;> rfl

theorem itemwise_append (ops : List (Json → Except PErr Json)) (a b : List Json) :
    itemwise ops (a ++ b) = itemwise ops a ++ itemwise ops b := by
  cases ops <;> simp [itemwise]

theorem flatten1_eq : ∀ rs : List Json, flatten1 rs = rs.flatMap expand1
  | [] => rfl
  | r :: rs => by
    cases r <;> simp [flatten1, expand1, flatten1_eq rs]

theorem flatMap_expand1_of_no_array : ∀ rs : List Json, rs.all (fun v => !v.isArray) = true →
    rs.flatMap expand1 = rs
  | [], _ => rfl
  | r :: rs, h => by
    simp only [List.all_cons, Bool.and_eq_true] at h
    have ih := flatMap_expand1_of_no_array rs h.2
    cases r <;> simp_all [expand1, Json.isArray]

theorem flattenInPlace_arr {ε : Type} (rs : List Json) :
    (flattenInPlace (.arr rs) : Except (PipeErr ε) Json) = .ok (.arr (rs.flatMap expand1)) := by
  unfold flattenInPlace
  by_cases h : rs.all (fun v => !v.isArray) = true
  · simp only [h, if_true]; rw [flatMap_expand1_of_no_array rs h]
  · simp only [h]; rw [flatten1_eq]; rfl

/-- one successful `json_array_op` is one item-by-item step -/
theorem itemwise_step (op : Json → Except PErr Json) (ops : List (Json → Except PErr Json)) :
    ∀ (items rs : List Json), mapOp op items = .ok rs →
      itemwise (op :: ops) items = itemwise ops (rs.flatMap expand1)
  | [], rs, h => by
    simp only [mapOp, Except.ok.injEq] at h
    subst h
    simp [itemwise, itemwise_nil]
  | q :: r, rs, h => by
    simp only [mapOp] at h
    cases hq : op q with
    | error e => simp [hq] at h
    | ok q' =>
      simp only [hq] at h
      cases hr : mapOp op r with
      | error e => simp [hr] at h
      | ok r' =>
        simp only [hr, Except.ok.injEq] at h
        subst h
        have ih := itemwise_step op ops r r' hr
        simp only [itemwise, List.flatMap_cons, hq] at ih ⊢
        rw [ih, itemwise_append]

/-- when no plugin fails and the final state is an array of objects, the code computes the item-by-item
expansion -/
theorem applyOps_itemwise : ∀ (ops : List (Json → Except PErr Json)) (items final : List Json),
    applyOps ops (.arr items) = .ok (.arr final) → final.all Json.isObject = true →
    itemwise ops items = final.map .ok
  | [], items, final, h, hall => by
    simp only [applyOps, Except.ok.injEq, Json.arr.injEq] at h
    subst h
    simp only [itemwise]
    apply List.map_congr_left
    intro q hq
    simp [List.all_eq_true.mp hall q hq]
  | op :: ops, items, final, h, hall => by
    simp only [applyOps, jsonArrayOp] at h
    cases hm : mapOp op items with
    | error e => simp [hm] at h
    | ok rs =>
      simp only [hm, flattenInPlace_arr] at h
      rw [itemwise_step op ops items rs hm]
      exact applyOps_itemwise ops _ final h hall

theorem jsonArrayFlatten_ok {ε : Type} {s : Json} {qs : List Json}
    (h : (jsonArrayFlatten s : Except (PipeErr ε) (List Json)) = .ok qs) :
    s = .arr qs ∧ qs.all Json.isObject = true := by
  unfold jsonArrayFlatten at h
  cases s with
  | arr xs =>
    by_cases ha : xs.all Json.isObject = true
    · simp only [ha, if_true, Except.ok.injEq] at h
      subst h; exact ⟨rfl, ha⟩
    · simp [ha] at h
  | _ => simp at h

/-- `with_request` on a packaged response: only a placeholder request is replaced -/
theorem fixRequest_response (q r k : Json) :
    fixRequest q (.obj [("request", r), ("error", k)])
      = .obj [("request", if GridSearch.isNoRequest r then q else r), ("error", k)] := by
  simp only [fixRequest]
  split <;> rfl

@[simp] theorem fixRequest_self (q k : Json) :
    fixRequest q (.obj [("request", q), ("error", k)]) = .obj [("request", q), ("error", k)] := by
  rw [fixRequest_response]; split <;> rfl

/-- a query that passes input processing is an object -/
theorem prepT_ok_isObject {plugins : List Plugin} {q : Json} {qs : List Json}
    (h : prepT plugins q = .ok qs) : q.isObject = true := by
  cases ho : q.isObject with
  | true => rfl
  | false => simp [prepT, applyInputPlugins, ho] at h

/-- … and one that is not an object is answered with the error response that echoes it -/
theorem prepT_non_object (plugins : List Plugin) (q : Json) (h : q.isObject = false) :
    prepT plugins q = .error (.obj [("request", q), ("error", .str "UnexpectedQueryStructure")]) := by
  simp [prepT, applyInputPlugins, h, errorResponse]

theorem prepT_ok_itemwise (plugins : List Plugin) (q : Json) (qs : List Json)
    (h : prepT plugins q = .ok qs) : itemwise (plugins.map processT) [q] = qs.map .ok := by
  have ho := prepT_ok_isObject h
  unfold prepT applyInputPlugins at h
  simp only [ho, if_true] at h
  cases ha : applyOps (plugins.map processT) (.arr [q]) with
  | error e => simp [ha] at h
  | ok s =>
    simp only [ha] at h
    cases hf : (jsonArrayFlatten s : Except (PipeErr PErr) (List Json)) with
    | error e => simp [hf] at h
    | ok qs' =>
      simp only [hf, Except.ok.injEq] at h
      subst h
      obtain ⟨rfl, hall⟩ := jsonArrayFlatten_ok hf
      exact applyOps_itemwise _ _ _ ha hall

/-! ### plugins that keep the query state an array of objects -/

/-- on an object, the plugin answers with an object or a non-empty array of objects (or fails) -/
def ObjOp (op : Json → Except PErr Json) : Prop :=
  ∀ q r, q.isObject = true → op q = .ok r →
    r.isObject = true ∨ ∃ xs, r = .arr xs ∧ xs ≠ [] ∧ xs.all Json.isObject = true

theorem expand1_objects {r : Json}
    (h : r.isObject = true ∨ ∃ xs, r = .arr xs ∧ xs ≠ [] ∧ xs.all Json.isObject = true) :
    expand1 r ≠ [] ∧ (expand1 r).all Json.isObject = true := by
  rcases h with h | ⟨xs, rfl, h1, h2⟩
  · cases r <;> simp_all [expand1, Json.isObject]
  · exact ⟨h1, h2⟩

theorem mapOp_objects {op : Json → Except PErr Json} (hop : ObjOp op) :
    ∀ (items rs : List Json), items.all Json.isObject = true → mapOp op items = .ok rs →
      (rs.flatMap expand1).all Json.isObject = true ∧ (items ≠ [] → rs.flatMap expand1 ≠ [])
  | [], rs, _, h => by
    simp only [mapOp, Except.ok.injEq] at h
    subst h; simp
  | q :: r, rs, hall, h => by
    simp only [List.all_cons, Bool.and_eq_true] at hall
    simp only [mapOp] at h
    cases hq : op q with
    | error e => simp [hq] at h
    | ok q' =>
      simp only [hq] at h
      cases hr : mapOp op r with
      | error e => simp [hr] at h
      | ok r' =>
        simp only [hr, Except.ok.injEq] at h
        subst h
        obtain ⟨h1, h2⟩ := expand1_objects (hop q q' hall.1 hq)
        obtain ⟨ih1, _⟩ := mapOp_objects hop r r' hall.2 hr
        refine ⟨by simp [List.flatMap_cons, List.all_append, h2, ih1], fun _ => ?_⟩
        simp only [List.flatMap_cons]
        intro hnil
        exact h1 (List.append_eq_nil_iff.mp hnil).1

/-- under object-preserving plugins the state stays a non-empty array of objects -/
theorem applyOps_objects : ∀ (ops : List (Json → Except PErr Json)), (∀ op ∈ ops, ObjOp op) →
    ∀ (items : List Json) (s : Json), items.all Json.isObject = true → items ≠ [] →
      applyOps ops (.arr items) = .ok s →
      ∃ final, s = .arr final ∧ final.all Json.isObject = true ∧ final ≠ []
  | [], _, items, s, hall, hne, h => by
    simp only [applyOps, Except.ok.injEq] at h
    subst h; exact ⟨items, rfl, hall, hne⟩
  | op :: ops, hops, items, s, hall, hne, h => by
    simp only [applyOps, jsonArrayOp] at h
    cases hm : mapOp op items with
    | error e => simp [hm] at h
    | ok rs =>
      simp only [hm, flattenInPlace_arr] at h
      obtain ⟨h1, h2⟩ := mapOp_objects (hops op (by simp)) items rs hall hm
      exact applyOps_objects ops (fun o ho => hops o (by simp [ho])) _ s h1 (h2 hne) h

theorem mapOp_error {ε : Type} {op : Json → Except ε Json} : ∀ {items : List Json} {pe : PipeErr ε},
    mapOp op items = .error pe → ∃ x e, x ∈ items ∧ op x = .error e ∧ pe = .plugin x e
  | [], pe, h => by simp [mapOp] at h
  | q :: r, pe, h => by
    simp only [mapOp] at h
    cases hq : op q with
    | error e =>
      simp only [hq, Except.error.injEq] at h
      exact ⟨q, e, by simp, hq, h.symm⟩
    | ok q' =>
      simp only [hq] at h
      cases hr : mapOp op r with
      | ok r' => simp [hr] at h
      | error e =>
        simp only [hr, Except.error.injEq] at h
        subst h
        obtain ⟨x, e', hx, h1, h2⟩ := mapOp_error hr
        exact ⟨x, e', by simp [hx], h1, h2⟩

/-- the only way the plugin stage fails on an array state: some plugin fails on some query of the state the
earlier plugins produced — and the error names exactly that query -/
theorem applyOps_error : ∀ (ops : List (Json → Except PErr Json)) (items : List Json)
    (pe : PipeErr PErr), applyOps ops (.arr items) = .error pe →
    ∃ pre op post xs x e, ops = pre ++ op :: post ∧ applyOps pre (.arr items) = .ok (.arr xs) ∧
      x ∈ xs ∧ op x = .error e ∧ pe = .plugin x e
  | [], items, pe, h => by simp [applyOps] at h
  | op :: ops, items, pe, h => by
    simp only [applyOps, jsonArrayOp] at h
    cases hm : mapOp op items with
    | error e =>
      simp only [hm, Except.error.injEq] at h
      subst h
      obtain ⟨x, e', hx, h1, h2⟩ := mapOp_error hm
      exact ⟨[], op, ops, items, x, e', rfl, rfl, hx, h1, h2⟩
    | ok rs =>
      simp only [hm, flattenInPlace_arr] at h
      obtain ⟨pre, op', post, xs, x, e, h1, h2, h3, h4, h5⟩ := applyOps_error ops _ pe h
      refine ⟨op :: pre, op', post, xs, x, e, by simp [h1], ?_, h3, h4, h5⟩
      simp only [applyOps, jsonArrayOp, hm, flattenInPlace_arr, h2]

/-- every built-in plugin keeps objects objects (grid search: an object, or its non-empty expansion) -/
theorem splitChild_isObject (base : List (String × Json)) (v : Json) :
    (splitChild base v).isObject = true := by
  cases v <;> rfl

theorem processT_objOp (p : Plugin) (hp : p.wellBehaved = true) : ObjOp (processT p) := by
  intro q r ho h
  cases p with
  | gridSearch =>
    simp only [processT] at h
    cases hg : GridSearch.process q with
    | error e => simp [hg] at h
    | ok v =>
      simp only [hg, Except.ok.injEq] at h
      subst h
      unfold GridSearch.process at hg
      cases hpl : GridSearch.plan q with
      | error e => simp [hpl] at hg
      | ok o =>
        cases o with
        | none => simp only [hpl, Except.ok.injEq] at hg; subst hg; exact Or.inl ho
        | some pl =>
          obtain ⟨kvs, sec, hgq, _, hax, hi⟩ := GridSearch.plan_wf hpl
          simp only [hpl, hi, Except.ok.injEq] at hg
          subst hg
          right
          refine ⟨_, rfl, ?_, by simp [GridSearch.expand, Json.isObject]⟩
          obtain ⟨_, h2⟩ := GridSearch.degenerate_false hgq.notDegenerate
          have hpos : 0 < MultiSet.prod (pl.axes.map (·.2.length)) := by
            apply MultiSet.prod_pos
            intro n hn
            obtain ⟨a, ha, rfl⟩ := List.mem_map.mp hn
            rw [hax] at ha
            exact List.length_pos_iff.mpr (h2 a ha)
          intro hnil
          have := congrArg List.length hnil
          simp only [GridSearch.expand, List.length_map, MultiSet.combos_length, List.length_nil] at this
          omega
  | inject key value overwrite =>
    simp only [processT] at h
    cases hg : injectGuard key overwrite q with
    | some e => simp [hg] at h
    | none =>
      simp only [hg] at h
      cases q <;> simp at h
      subst h; exact Or.inl rfl
  | lbNumeric col fmt =>
    simp only [processT] at h
    cases hc : customWeight (.lbNumeric col fmt) q with
    | error e => simp [hc] at h
    | ok b =>
      simp only [hc, addWeight] at h
      cases q <;> simp at h
      subst h; exact Or.inl rfl
  | lbCategorical col m d fmt =>
    simp only [processT] at h
    cases hc : customWeight (.lbCategorical col m d fmt) q with
    | error e => simp [hc] at h
    | ok b =>
      simp only [hc, addWeight] at h
      cases q <;> simp at h
      subst h; exact Or.inl rfl
  | table t => simp [Plugin.wellBehaved] at hp
  | userBreaker key => simp [Plugin.wellBehaved] at hp
  | userFailOn m =>
    simp only [processT, userT] at h
    cases hm : q.get? m with
    | some v => simp [hm] at h
    | none => simp only [hm, Except.ok.injEq] at h; subst h; exact Or.inl ho
  | userSplit key =>
    simp only [processT, userT] at h
    cases q with
    | obj kvs =>
      simp only at h
      split at h
      · simp only [Except.ok.injEq] at h
        subst h
        right
        refine ⟨_, rfl, by simp, ?_⟩
        simp [List.all_map, Function.comp_def, splitChild_isObject]
      · simp only [Except.ok.injEq] at h; subst h; exact Or.inl rfl
    | _ => simp [Json.isObject] at ho

/-- the plugin stage leaves an array -/
theorem applyOps_ok_arr : ∀ (ops : List (Json → Except PErr Json)) (items : List Json) (s : Json),
    applyOps ops (.arr items) = .ok s → ∃ final, s = .arr final
  | [], items, s, h => by
    simp only [applyOps, Except.ok.injEq] at h
    exact ⟨items, h.symm⟩
  | op :: ops, items, s, h => by
    simp only [applyOps, jsonArrayOp] at h
    cases hm : mapOp op items with
    | error e => simp [hm] at h
    | ok rs =>
      simp only [hm, flattenInPlace_arr] at h
      exact applyOps_ok_arr ops _ s h

theorem isNoRequest_noRequest : GridSearch.isNoRequest noRequest = true := rfl

/-! ### worker interleavings -/

/-- what worker `w` will have produced once it is done -/
def Worker.total (respond : Json → Json) (w : Worker) : List Json := w.done ++ w.todo.map respond

theorem Worker.step_total (respond : Json → Json) (w : Worker) :
    (w.step respond).total respond = w.total respond := by
  unfold Worker.step Worker.total
  cases h : w.todo with
  | nil => simp [h]
  | cons q r => simp

theorem stepAt_total (respond : Json → Json) : ∀ (i : Nat) (ws : List Worker),
    (stepAt respond i ws).map (Worker.total respond) = ws.map (Worker.total respond)
  | i, [] => by cases i <;> rfl
  | 0, w :: ws => by simp [stepAt, Worker.step_total]
  | i + 1, w :: ws => by simp [stepAt, stepAt_total respond i ws]

/-- the invariant of every schedule: no step changes what each worker will end up with -/
theorem exec_total (respond : Json → Json) : ∀ (sched : Sched) (ws : List Worker),
    (exec respond sched ws).map (Worker.total respond) = ws.map (Worker.total respond)
  | [], _ => rfl
  | i :: s, ws => by
    simp only [exec, List.foldl_cons]
    have := exec_total respond s (stepAt respond i ws)
    simp only [exec] at this
    rw [this, stepAt_total]

theorem finished_total (respond : Json → Json) : ∀ (ws : List Worker), finished ws = true →
    ws.map (Worker.total respond) = ws.map (·.done)
  | [], _ => rfl
  | w :: ws, h => by
    simp only [finished, List.all_cons, Bool.and_eq_true, List.isEmpty_iff] at h
    have ih := finished_total respond ws (by simpa [finished] using h.2)
    simp [Worker.total, h.1, ih]

theorem initWorkers_total (respond : Json → Json) (bins : List (List Json)) :
    (initWorkers bins).map (Worker.total respond) = bins.map (fun b => b.map respond) := by
  simp [initWorkers, Worker.total, Function.comp_def]

/-- running worker `i` alone for `k` steps -/
theorem exec_replicate_drain (respond : Json → Json) : ∀ (pre : List Worker) (w : Worker)
    (post : List Worker),
    exec respond (List.replicate w.todo.length pre.length) (pre ++ w :: post)
      = pre ++ { done := w.done ++ w.todo.map respond, todo := [] } :: post := by
  intro pre w post
  have hstep : ∀ (pre : List Worker) (w : Worker) (post : List Worker),
      stepAt respond pre.length (pre ++ w :: post) = pre ++ w.step respond :: post := by
    intro pre
    induction pre with
    | nil => intro w post; rfl
    | cons p ps ih => intro w post; simp [stepAt, ih]
  obtain ⟨d, t⟩ := w
  induction t generalizing d with
  | nil => simp [exec]
  | cons q r ih =>
    simp only [List.length_cons, List.replicate_succ, exec, List.foldl_cons, hstep]
    have := ih (d ++ [respond q])
    simp only [exec] at this
    simp only [Worker.step]
    rw [this]
    simp

/-- the bins fully processed -/
def Worker.drain (respond : Json → Json) (w : Worker) : Worker :=
  { done := w.done ++ w.todo.map respond, todo := [] }

theorem exec_append (respond : Json → Json) (s₁ s₂ : Sched) (ws : List Worker) :
    exec respond (s₁ ++ s₂) ws = exec respond s₂ (exec respond s₁ ws) := by
  simp [exec, List.foldl_append]

/-- some schedule drains every worker (one worker after the other) -/
theorem exists_draining_sched (respond : Json → Json) : ∀ (ws pre : List Worker),
    ∃ sched, exec respond sched (pre ++ ws) = pre ++ ws.map (Worker.drain respond)
  | [], pre => ⟨[], by simp [exec]⟩
  | w :: post, pre => by
    obtain ⟨s₂, h₂⟩ := exists_draining_sched respond post (pre ++ [w.drain respond])
    refine ⟨List.replicate w.todo.length pre.length ++ s₂, ?_⟩
    rw [exec_append, exec_replicate_drain]
    simpa [Worker.drain] using h₂

theorem finished_drain (respond : Json → Json) (ws : List Worker) :
    finished (ws.map (Worker.drain respond)) = true := by
  simp [finished, Worker.drain]

/-! ### shared state -/

theorem stepAtS_snd {σ : Type} (respondS : RespondS σ) (respond : Json → Json) (I : σ → Prop)
    (h : ∀ s q, I s → (respondS s q).1 = respond q ∧ I (respondS s q).2) :
    ∀ (i : Nat) (ws : List Worker) (s : σ), I s →
      (stepAtS respondS i (s, ws)).2 = stepAt respond i ws ∧ I (stepAtS respondS i (s, ws)).1
  | i, [], s, hs => by cases i <;> exact ⟨rfl, hs⟩
  | 0, w :: ws, s, hs => by
    cases hw : w.todo with
    | nil => simp [stepAtS, stepAt, Worker.step, hw, hs]
    | cons q r =>
      obtain ⟨h1, h2⟩ := h s q hs
      simp [stepAtS, stepAt, Worker.step, hw, h1, h2]
  | i + 1, w :: ws, s, hs => by
    obtain ⟨h1, h2⟩ := stepAtS_snd respondS respond I h i ws s hs
    simp [stepAtS, stepAt, h1, h2]

theorem execS_snd {σ : Type} (respondS : RespondS σ) (respond : Json → Json) (I : σ → Prop)
    (h : ∀ s q, I s → (respondS s q).1 = respond q ∧ I (respondS s q).2) :
    ∀ (sched : Sched) (ws : List Worker) (s : σ), I s →
      (execS respondS sched (s, ws)).2 = exec respond sched ws
  | [], _, _, _ => rfl
  | i :: sched, ws, s, hs => by
    obtain ⟨h1, h2⟩ := stepAtS_snd respondS respond I h i ws s hs
    simp only [execS, exec, List.foldl_cons]
    have := execS_snd respondS respond I h sched (stepAt respond i ws) (stepAtS respondS i (s, ws)).1 h2
    simp only [execS, exec] at this
    rw [← this, ← h1]

/-- the invariant of a collision-free cache: every stored value is the prediction of every input with
that rounded key -/
def CacheOk (round f : Nat → Nat) (cache : List (Nat × Nat)) : Prop :=
  ∀ p ∈ cache, ∀ x, round x = p.1 → f x = p.2

theorem cachedPredict_ok (round f : Nat → Nat) (hinj : ∀ x y, round x = round y → f x = f y)
    (cache : List (Nat × Nat)) (hc : CacheOk round f cache) (x : Nat) :
    (cachedPredict round f cache x).1 = f x ∧ CacheOk round f (cachedPredict round f cache x).2 := by
  unfold cachedPredict
  cases hf : cache.find? (fun p => p.1 == round x) with
  | some p =>
    have hm := List.mem_of_find?_eq_some hf
    have hk : p.1 = round x := by simpa using List.find?_some hf
    exact ⟨(hc p hm x hk.symm).symm, hc⟩
  | none =>
    refine ⟨rfl, ?_⟩
    intro p hp y hy
    rcases List.mem_cons.mp hp with rfl | hp
    · exact hinj y x hy
    · exact hc p hp y hy

end Batch
end Compass
