/-
Facts about concrete configurations (`Model/Instance.lean`): the abstract instance built from a
configuration satisfies the hypotheses of the search theorems.
-/
import Compass.Proofs.Num
import Compass.Proofs.Cost
import Compass.Proofs.SearchTree
import Compass.Model.Instance

namespace Compass

section
variable {α : Type} [Field α] [LinearOrder α] [IsStrictOrderedRing α] [Lit α] [LawfulLit α]

-- `minCost_pos` and `enforceStrictlyPositive_pos` live in `Proofs/Cost.lean`

theorem enforceStrictlyPositive_ge (c : α) : (minCost : α) ≤ enforceStrictlyPositive c ∨ enforceStrictlyPositive c = c := by
  unfold enforceStrictlyPositive
  split
  · left; exact le_refl _
  · right; rfl

/-- `CostModel::traversal_cost` never returns a non-positive cost -/
theorem CostModel.traversalCost_pos (m : CostModel α) (e : Nat) (p n : List α) (t : α)
    (h : m.traversalCost e p n = some t) : 0 < t := by
  unfold CostModel.traversalCost at h
  split at h
  · simp only [Option.some.injEq] at h; rw [← h]; exact enforceStrictlyPositive_pos _
  · simp at h

/-- `CostModel::access_cost` never returns a non-positive cost -/
theorem CostModel.accessCost_pos (m : CostModel α) (pe ne : Nat) (p n : List α) (t : α)
    (h : m.accessCost pe ne p n = some t) : 0 < t := by
  unfold CostModel.accessCost at h
  split at h
  · simp only [Option.some.injEq] at h; rw [← h]; exact enforceStrictlyPositive_pos _
  · simp at h

/-- the cost charged for an edge (`EdgeTraversal::total_cost` = access + (total − access)) is the
strictly positive total returned by `CostModel::traversal_cost` -/
theorem edgeTraversal_total_pos (c : Config α) (e : Nat) (last : Option Nat) (st : List α)
    (ac tc : α) (st' : List α) (h : edgeTraversal c e last st = .ok (ac, tc, st')) : 0 < ac + tc := by
  unfold edgeTraversal at h
  split at h
  · simp at h
  · split at h
    · simp at h
    · split at h
      · simp at h
      · split at h
        · simp at h
        · rename_i total htot
          simp only [Except.ok.injEq, Prod.mk.injEq] at h
          obtain ⟨h1, h2, _⟩ := h
          rw [← h1, ← h2]
          have := CostModel.traversalCost_pos _ _ _ _ _ htot
          linarith

/-- the adjacency lists agree with the edge list (what the graph loader guarantees, C15) -/
def Config.AdjConsistent (c : Config α) : Prop :=
  ∀ v e, e ∈ c.inst.incident v → c.inst.termV e = v

/-- a configuration with consistent adjacency gives an instance meeting the hypotheses of the
search theorems: the positivity of edge costs is *proved* from the cost model (C07) -/
theorem Config.inst_wf (c : Config α) (hadj : c.AdjConsistent) : SearchTree.WF c.inst where
  incident_term := hadj
  cost_pos := by
    intro e le st ac tc st' h
    exact edgeTraversal_total_pos c e le st ac tc st' h

end

end Compass
