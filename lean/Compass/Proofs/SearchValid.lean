/-
What the frontier model was asked about a tree entry, with the *history* made explicit (C04).

`SearchRoute.runAStar_validInv` says of every tree entry only that *some* (state, previous edge) pair
exists for which its edge was accepted.  Here the pair is named: the entry was written in the loop
turn that expanded a vertex `u` (an element of the replayed schedule) at a loop head `h₀` the run
went through, and the pair is exactly what the loop read at `u` at that moment — the initial state
and no previous edge when `u` is the source, otherwise the state and edge of the tree entry `u` had
*at that loop head* (`SearchLimits.curOf`).  No hypothesis on the instance.

For general A* with re-opening, `u`'s entry at the end of the run may differ from the one it had at
`h₀` (that is the recorded finding `route/restricted-turn-after-reopening`); under the Dijkstra
discipline (consistent heuristic) it cannot: `SearchDiscipline.entry_fresh`.

Second part: every configuration — every tree entry and every route element carries an edge with
`Config.okOf = true` (every model permits the edge as such: road class, vehicle restriction, edge
cut; a turn-restriction model forbids pairs, no edge), and `okOf` spelled out model by model.
-/
import Compass.Proofs.SearchRoute
import Compass.Proofs.SearchLimits
import Compass.Proofs.ConfigUniform

namespace Compass
namespace SearchValid

set_option linter.unusedSectionVars false

open SearchLimits (Reach curOf popped Final startF)

variable {α : Type} [Field α] [LinearOrder α] [IsStrictOrderedRing α] [Lit α] [LawfulLit α]

/-! ### One entry, one turn -/

/-- the entry `b` is what the turn that expanded `u` from loop head `h₀` wrote: its edge is one of
the edges iterated at `u`, `terminal` is that edge's near end, and the frontier model accepted — and
the traversal produced the entry's costs and state — for the (previous edge, state) pair the loop
read at `u` at `h₀` -/
def WrittenAt (I : Inst α) (source : Nat) (h₀ : SState α) (u : Nat) (b : Branch α) : Prop :=
  b.edge ∈ I.incident u ∧ b.terminal = I.termV b.edge ∧
  ∃ (le : Option Nat) (st : List α), curOf I source h₀ u = some (le, st) ∧
    I.valid b.edge st le = .ok true ∧
    I.trav b.edge le st = .ok (b.access, b.traversal, b.state)

/-- what `curOf` is: at the source the initial pair, elsewhere the pair of the vertex's tree entry -/
theorem curOf_cases {I : Inst α} {source : Nat} {h₀ : SState α} {u : Nat} {le : Option Nat}
    {st : List α} (h : curOf I source h₀ u = some (le, st)) :
    (u = source ∧ le = none ∧ st = I.init) ∨
    (u ≠ source ∧ ∃ bu, h₀.sol u = some bu ∧ le = some bu.edge ∧ st = bu.state) := by
  unfold curOf at h
  split at h
  · rename_i hu
    simp only [Option.some.injEq, Prod.mk.injEq] at h
    exact Or.inl ⟨hu, h.1.symm, h.2.symm⟩
  · rename_i hu
    split at h
    · rename_i bu hbu
      simp only [Option.some.injEq, Prod.mk.injEq] at h
      exact Or.inr ⟨hu, bu, hbu, h.1.symm, h.2.symm⟩
    · cases h

/-- one relaxation: an entry of the new tree is an entry of the old tree or the one just written -/
theorem relax_written {I : Inst α} {hasTarget : Bool} {le : Option Nat} {st : List α}
    {s s' : SState α} {e : Nat} (h : relax I hasTarget le st s e = .ok s') :
    ∀ v b, s'.sol v = some b → s.sol v = some b ∨
      (b.edge = e ∧ v = I.keyV e ∧ b.terminal = I.termV e ∧ I.valid e st le = .ok true ∧
        I.trav e le st = .ok (b.access, b.traversal, b.state)) := by
  intro v b hb
  unfold relax at h
  split at h
  · cases h
  · cases h; exact Or.inl hb
  · rename_i hvalid
    split at h
    · cases h
    · rename_i ac tc st' htrav
      split at h
      · cases h; exact Or.inl hb
      · simp only at h
        split at h
        · split at h
          · cases h
          · cases h
            simp only at hb
            by_cases hv : v = I.keyV e
            · subst hv
              rw [SearchTree.upd_same] at hb
              cases hb
              exact Or.inr ⟨rfl, rfl, rfl, hvalid, htrav⟩
            · rw [SearchTree.upd_other _ _ _ hv] at hb
              exact Or.inl hb
        · cases h; exact Or.inl hb

/-- the `for` loop: an entry of the new tree is old or was written for one of the listed edges -/
theorem relaxAll_written {I : Inst α} {hasTarget : Bool} {le : Option Nat} {st : List α} :
    ∀ (es : List Nat) (s s' : SState α), relaxAll I hasTarget le st es s = .ok s' →
      ∀ v b, s'.sol v = some b → s.sol v = some b ∨
        (b.edge ∈ es ∧ v = I.keyV b.edge ∧ b.terminal = I.termV b.edge ∧
          I.valid b.edge st le = .ok true ∧
          I.trav b.edge le st = .ok (b.access, b.traversal, b.state))
  | [], s, s', h, v, b, hb => by
    simp only [relaxAll] at h
    cases h
    exact Or.inl hb
  | e :: es, s, s', h, v, b, hb => by
    simp only [relaxAll] at h
    split at h
    · cases h
    · rename_i s1 h1
      rcases relaxAll_written es s1 s' h v b hb with h2 | ⟨m, hk, ht, hv, htr⟩
      · rcases relax_written h1 v b h2 with h3 | ⟨he, hk, ht, hv, htr⟩
        · exact Or.inl h3
        · subst he
          exact Or.inr ⟨List.mem_cons_self, hk, ht, hv, htr⟩
      · exact Or.inr ⟨List.mem_cons_of_mem _ m, hk, ht, hv, htr⟩

/-- one complete loop turn: an entry of the next loop head is an entry of this one or was written
in this turn -/
theorem turn_written {I : Inst α} {source : Nat} {target : Option Nat} {s s' : SState α} {u : Nat}
    (ht : SearchLimits.Turn I source target s u s') :
    ∀ v b, s'.sol v = some b → s.sol v = some b ∨ (v = I.keyV b.edge ∧ WrittenAt I source s u b) := by
  obtain ⟨_, _, _, _, le, st, s2, hcur, hrel, rfl⟩ := ht
  intro v b hb
  rcases relaxAll_written _ _ _ hrel v b hb with h | ⟨hm, hk, hterm, hv, htr⟩
  · exact Or.inl h
  · exact Or.inr ⟨hk, hm, hterm, le, st, hcur, hv, htr⟩

/-! ### The history of every entry -/

/-- every entry of `sol` was written in a turn of the run that started at loop head `s₀` and has so
far expanded the vertices `pre` -/
def Hist (I : Inst α) (source : Nat) (target : Option Nat) (s₀ : SState α) (pre : List Nat)
    (sol : Nat → Option (Branch α)) : Prop :=
  ∀ v b, sol v = some b → v = I.keyV b.edge ∧
    ∃ (pre₀ : List Nat) (h₀ : SState α) (u : Nat), Reach I source target pre₀ s₀ h₀ ∧
      (pre₀ ++ [u]) <+: pre ∧ WrittenAt I source h₀ u b

theorem reach_hist {I : Inst α} {source : Nat} {target : Option Nat} {s₀ : SState α} :
    ∀ {pre : List Nat} {s h : SState α}, Reach I source target pre s h →
      ∀ pp, Reach I source target pp s₀ s → Hist I source target s₀ pp s.sol →
        Hist I source target s₀ (pp ++ pre) h.sol := by
  intro pre s h hr
  induction hr with
  | here s =>
    intro pp _ hH
    simpa using hH
  | @turn v rest s s1 h ht _ ih =>
    intro pp hpp hH
    have h1 : Hist I source target s₀ (pp ++ [v]) s1.sol := by
      intro x b hb
      rcases turn_written ht x b hb with hold | ⟨hk, hw⟩
      · obtain ⟨hk, pre₀, h₀, u, hr₀, hpre, hw⟩ := hH x b hold
        exact ⟨hk, pre₀, h₀, u, hr₀, hpre.trans (List.prefix_append _ _), hw⟩
      · exact ⟨hk, pp, s, v, hpp, List.prefix_refl _, hw⟩
    have := ih (pp ++ [v]) (hpp.snoc ht) h1
    simpa [List.append_assoc] using this

/-- **entry history** of `run_a_star`: every entry `v ↦ b` of the returned tree was written in a
loop turn of this very run — there are a prefix `pre₀ ++ [u]` of the schedule and the loop head `h₀`
reached after expanding `pre₀` such that `b.edge` is an edge iterated at `u` with far end `v`, and
the frontier model accepted `b.edge` (and the traversal produced `b`'s costs and state) for the
pair the loop read at `u` at `h₀`.  No hypothesis on instance, source, target or schedule. -/
theorem runAStar_entry_history (I : Inst α) (source : Nat) (target : Option Nat) (sched : List Nat)
    (s : SState α) (h : runAStar I source target sched = .ok s) :
    ∀ v b, s.sol v = some b → v = I.keyV b.edge ∧
      ∃ (f0 : α) (pre₀ : List Nat) (h₀ : SState α) (u : Nat),
        startF I source target = .ok f0 ∧
        Reach I source target pre₀ (initState source f0) h₀ ∧ (pre₀ ++ [u]) <+: sched ∧
        WrittenAt I source h₀ u b := by
  intro v b hb
  rcases SearchLimits.runAStar_ok_iff.1 h with ⟨_, rfl⟩ | ⟨_, f0, hf0, hloop⟩
  · simp [SearchLimits.emptyResult] at hb
  · obtain ⟨pre, rest, hd, hs, hr, _, hfin⟩ := SearchLimits.runLoop_ok_reach sched _ s hloop
    have hH : Hist I source target (initState source f0) ([] ++ pre) hd.sol :=
      reach_hist hr [] (Reach.here _) (fun v b hb => by simp [initState] at hb)
    rw [hfin.fields.2.1] at hb
    obtain ⟨hk, pre₀, h₀, u, hr₀, hpre, hw⟩ := hH v b hb
    refine ⟨hk, f0, pre₀, h₀, u, hf0, hr₀, ?_, hw⟩
    rw [hs]
    exact hpre.trans (List.prefix_append pre rest)

/-! ### No forbidden edge — every configuration -/

/-- `frontierValid` answers `true` exactly when every model answers `true` (a model that errs, or
refuses, ends the conjunction) -/
theorem frontierValid_true_iff (ms : List (FrontierM α)) (e : Nat) (prev : Option Nat) :
    frontierValid ms e prev = .ok true ↔ ∀ m ∈ ms, m.valid e prev = some true := by
  induction ms with
  | nil => simp [frontierValid]
  | cons m ms ih =>
    simp only [frontierValid, List.mem_cons, forall_eq_or_imp]
    cases hv : m.valid e prev with
    | none => simp
    | some b =>
      cases b with
      | false => simp
      | true => simp [ih]

/-- a model that accepts an edge after some previous edge accepts it without previous edge: the
road-class, vehicle and edge-cut models do not read the previous edge, the turn-restriction model
forbids no edge as such -/
theorem FrontierM.valid_none_of_valid (m : FrontierM α) (e : Nat) (prev : Option Nat)
    (h : m.valid e prev = some true) : m.valid e none = some true := by
  cases m with
  | turnRestriction pairs => rfl
  | roadClass allowed table => exact h
  | vehicle table params => exact h
  | edgeCut cut => exact h

/-- `okOf` is the conjunction of the models' verdicts (asked without previous edge) -/
theorem okOf_iff (c : Config α) (e : Nat) :
    c.okOf e = true ↔ ∀ m ∈ c.frontier, m.valid e none = some true := by
  rw [← frontierValid_true_iff]
  unfold Config.okOf
  cases h : frontierValid c.frontier e none with
  | error k => simp
  | ok b => cases b <;> simp

/-- in **every** configuration an accepted edge is an edge `okOf` permits, whatever the state and the
previous edge it was accepted for (turn-restriction models among the models or not) -/
theorem okOf_of_valid (c : Config α) {e : Nat} {st : List α} {le : Option Nat}
    (h : c.inst.valid e st le = .ok true) : c.okOf e = true := by
  simp only [Config.inst] at h
  split at h
  · cases h
  · rw [okOf_iff]
    intro m hm
    exact FrontierM.valid_none_of_valid m e le ((frontierValid_true_iff c.frontier e le).1 h m hm)

/-- **no forbidden edge in trees and routes** (vertex-oriented `run_vertex_oriented`, with or
without destination, every configuration, any algorithm setting, schedule, direction) -/
theorem config_edges_permitted (c : Config α)
    {source : Nat} {target : Option Nat} {sched : List Nat} {r : AlgResult α}
    (h : c.runVertex source target sched = .ok r) :
    (∀ tree ∈ r.trees, ∀ v b, tree v = some b → c.okOf b.edge = true) ∧
    (∀ route ∈ r.routes, ∀ b ∈ route, c.okOf b.edge = true) := by
  obtain ⟨res, hres, htrees, hroutes, _⟩ := SearchRoute.runVertex_ok h
  obtain ⟨h1, h2⟩ := SearchRoute.runVertexOriented_validInv c.inst source target sched res hres
  refine ⟨?_, ?_⟩
  · intro tree htree v b hb
    rw [htrees, List.mem_singleton] at htree
    subst htree
    obtain ⟨st, le, hv, _⟩ := h1 v b hb
    exact okOf_of_valid c hv
  · intro route hroute b hb
    rw [hroutes] at hroute
    cases hr : res.route with
    | none => rw [hr] at hroute; simp at hroute
    | some rt =>
      rw [hr] at hroute
      simp only [Option.toList_some, List.mem_singleton] at hroute
      rw [hroute] at hb
      obtain ⟨st, le, hv, _⟩ := h2 rt hr b hb
      exact okOf_of_valid c hv

end SearchValid
end Compass
