/-
Helper lemmas for C16 (map matching): insertion into an insertion-ordered JSON object, heads of
nearest-first candidate lists, the shape of a successful `process`.
-/
import Compass.Proofs.Num
import Compass.Model.MapMatch
import Mathlib.Order.Basic
import Mathlib.Data.List.Basic

namespace Compass
namespace MapMatch

open Json

/-! ### JSON objects -/

/-- the entries whose key is not in `W`, in order -/
def keep (W : List String) (kvs : List (String × Json)) : List (String × Json) :=
  kvs.filter fun p => !(W.contains p.1)

/-- `after` is `before` except possibly for the keys in `W`: every other key keeps its value and the
other keys keep their relative order; a query that is not an object is untouched -/
def SameOthers (W : List String) (before after : Json) : Prop :=
  match before with
  | .obj kvs => ∃ kvs', after = .obj kvs' ∧ keep W kvs' = keep W kvs
  | _ => after = before

theorem SameOthers.refl (W : List String) (q : Json) : SameOthers W q q := by
  unfold SameOthers
  split
  · exact ⟨_, rfl, rfl⟩
  · rfl

theorem SameOthers.trans {W : List String} {a b c : Json} (h1 : SameOthers W a b) (h2 : SameOthers W b c) :
    SameOthers W a c := by
  unfold SameOthers at *
  split at h1
  · obtain ⟨kvs', rfl, hk⟩ := h1
    simp only at h2
    obtain ⟨kvs'', rfl, hk'⟩ := h2
    exact ⟨kvs'', rfl, hk'.trans hk⟩
  · subst h1
    split at h2
    · simp_all
    · exact h2

theorem keep_map_insert (W : List String) (k : String) (v : Json) (hk : k ∈ W)
    (kvs : List (String × Json)) :
    keep W (kvs.map fun p => if p.1 == k then (k, v) else p) = keep W kvs := by
  induction kvs with
  | nil => rfl
  | cons p rest ih =>
    simp only [keep, List.map_cons, List.filter_cons] at ih ⊢
    by_cases hp : p.1 = k
    · have h1 : (p.1 == k) = true := by simpa using hp
      have h2 : W.contains p.1 = true := by rw [hp]; simpa using hk
      have h3 : W.contains k = true := by simpa using hk
      simp only [h1, if_true, h2, h3, Bool.not_true, Bool.false_eq_true, if_false]
      exact ih
    · have hne : (p.1 == k) = false := by simpa using hp
      simp only [hne]
      simp only [Bool.false_eq_true, if_false]
      rw [ih]

theorem keep_insertKv (W : List String) (k : String) (v : Json) (hk : k ∈ W)
    (kvs : List (String × Json)) : keep W (insertKv kvs k v) = keep W kvs := by
  unfold insertKv
  split
  · exact keep_map_insert W k v hk kvs
  · simp [keep, List.filter_append, hk]

theorem lookup_map_insert_same (k : String) (v : Json) (kvs : List (String × Json))
    (h : kvs.any (fun p => p.1 == k) = true) :
    lookup (kvs.map fun p => if p.1 == k then (k, v) else p) k = some v := by
  induction kvs with
  | nil => simp at h
  | cons p rest ih =>
    by_cases hp : p.1 = k
    · simp [lookup, List.find?, hp]
    · have hne : (p.1 == k) = false := by simpa using hp
      have h' : rest.any (fun p => p.1 == k) = true := by simpa [List.any_cons, hne] using h
      have := ih h'
      simp only [lookup, List.map_cons, hne, Bool.false_eq_true, if_false, List.find?_cons] at this ⊢
      exact this

theorem lookup_append_not_any (k : String) (v : Json) (kvs : List (String × Json))
    (h : ¬ kvs.any (fun p => p.1 == k) = true) : lookup (kvs ++ [(k, v)]) k = some v := by
  induction kvs with
  | nil => simp [lookup, List.find?]
  | cons p rest ih =>
    have hne : (p.1 == k) = false := by
      by_contra hc; apply h; simp [List.any_cons]; left; simpa using hc
    have h' : ¬ rest.any (fun p => p.1 == k) = true := by
      intro hc; apply h; simp only [List.any_cons, hc, Bool.or_true]
    have := ih h'
    simp only [lookup, List.cons_append, List.find?_cons, hne] at this ⊢
    exact this

theorem lookup_insertKv_same (k : String) (v : Json) (kvs : List (String × Json)) :
    lookup (insertKv kvs k v) k = some v := by
  unfold insertKv
  split
  · next h => exact lookup_map_insert_same k v kvs h
  · next h => exact lookup_append_not_any k v kvs h

theorem lookup_map_insert_other (k k' : String) (v : Json) (kvs : List (String × Json)) (hne : k' ≠ k) :
    lookup (kvs.map fun p => if p.1 == k then (k, v) else p) k' = lookup kvs k' := by
  have h1 : (k == k') = false := by simpa using (Ne.symm hne)
  induction kvs with
  | nil => rfl
  | cons p rest ih =>
    by_cases hp : p.1 = k
    · have h2 : (p.1 == k') = false := by rw [hp]; exact h1
      simp only [lookup, List.map_cons, hp, beq_self_eq_true, if_true, List.find?_cons, h1, h2] at ih ⊢
      exact ih
    · have hpk : (p.1 == k) = false := by simpa using hp
      simp only [lookup, List.map_cons, hpk, Bool.false_eq_true, if_false, List.find?_cons] at ih ⊢
      cases hb : (p.1 == k')
      · exact ih
      · rfl

theorem lookup_insertKv_other (k k' : String) (v : Json) (kvs : List (String × Json)) (hne : k' ≠ k) :
    lookup (insertKv kvs k v) k' = lookup kvs k' := by
  unfold insertKv
  split
  · exact lookup_map_insert_other k k' v kvs hne
  · have h1 : (k == k') = false := by simpa using (Ne.symm hne)
    simp [lookup, List.find?_append, List.find?, h1]

/-! ### the field writer -/

theorem addField_ok {q q' : Json} {f : Field} {id : Nat} (h : addField q f id = .ok q') :
    ∃ kvs, q = .obj kvs ∧ q' = .obj (insertKv kvs f.name (idJson id)) := by
  unfold addField at h
  split at h
  · next kvs => exact ⟨kvs, rfl, by injection h with h; exact h.symm⟩
  · cases h

theorem addField_obj (kvs : List (String × Json)) (f : Field) (id : Nat) :
    addField (.obj kvs) f id = .ok (.obj (insertKv kvs f.name (idJson id))) := rfl

theorem addField_sameOthers {W : List String} {q q' : Json} {f : Field} {id : Nat}
    (hW : f.name ∈ W) (h : addField q f id = .ok q') : SameOthers W q q' := by
  obtain ⟨kvs, rfl, rfl⟩ := addField_ok h
  exact ⟨_, rfl, keep_insertKv W _ _ hW kvs⟩

/-! ### nearest-first lists -/

section
variable {α : Type} [LinearOrder α]

/-- the order `rstar`'s nearest-neighbour iterator is assumed to produce -/
def Sorted {β : Type} (d2 : β → α) (l : List β) : Prop := l.Pairwise fun a b => d2 a ≤ d2 b

theorem Sorted.head_le {β : Type} {d2 : β → α} {c : β} {rest : List β} (h : Sorted d2 (c :: rest)) :
    ∀ c' ∈ c :: rest, d2 c ≤ d2 c' := by
  intro c' hc'
  rcases List.mem_cons.mp hc' with rfl | hm
  · exact le_refl _
  · exact (List.pairwise_cons.mp h).1 c' hm

theorem Sorted.tail {β : Type} {d2 : β → α} {c : β} {rest : List β} (h : Sorted d2 (c :: rest)) :
    Sorted d2 rest := (List.pairwise_cons.mp h).2

end

end MapMatch
end Compass
