/-
Helper lemmas for C16 (map matching): insertion into an insertion-ordered JSON object, heads of
nearest-first candidate lists, the shape of a successful `process`.
-/
import Compass.Proofs.Num
import Compass.Model.MapMatch
import Compass.Model.MapMatchIO
import Std.Data.String.ToNat
import Mathlib.Order.Basic
import Mathlib.Data.List.Basic

namespace Compass
namespace MapMatch

open Json

set_option linter.unusedSectionVars false

/-! ### JSON objects -/

/-- the entries whose key is not in `W`, in order -/
def keep (W : List String) (kvs : List (String × Json)) : List (String × Json) :=
  kvs.filter fun p => !(W.contains p.1)

/-- `after` is `before` except possibly for the keys in `W`: every other key keeps its value and the
other keys keep their relative order; a query that is not an object is untouched -/
def SameOthers (W : List String) (before after : Json) : Prop :=
  match before with
  | .obj kvs => ∃ kvs', after = .obj kvs' ∧ keep W kvs' = keep W kvs
  | _ => after = before

theorem SameOthers.refl (W : List String) (q : Json) : SameOthers W q q := by
  unfold SameOthers
  split
  · exact ⟨_, rfl, rfl⟩
  · rfl

theorem SameOthers.trans {W : List String} {a b c : Json} (h1 : SameOthers W a b) (h2 : SameOthers W b c) :
    SameOthers W a c := by
  unfold SameOthers at *
  split at h1
  · obtain ⟨kvs', rfl, hk⟩ := h1
    simp only at h2
    obtain ⟨kvs'', rfl, hk'⟩ := h2
    exact ⟨kvs'', rfl, hk'.trans hk⟩
  · subst h1
    split at h2
    · simp_all
    · exact h2

theorem keep_map_insert (W : List String) (k : String) (v : Json) (hk : k ∈ W)
    (kvs : List (String × Json)) :
    keep W (kvs.map fun p => if p.1 == k then (k, v) else p) = keep W kvs := by
  induction kvs with
  | nil => rfl
  | cons p rest ih =>
    simp only [keep, List.map_cons, List.filter_cons] at ih ⊢
    by_cases hp : p.1 = k
    · have h1 : (p.1 == k) = true := by simpa using hp
      have h2 : W.contains p.1 = true := by rw [hp]; simpa using hk
      have h3 : W.contains k = true := by simpa using hk
      simp only [h1, if_true, h2, h3, Bool.not_true, Bool.false_eq_true, if_false]
      exact ih
    · have hne : (p.1 == k) = false := by simpa using hp
      simp only [hne]
      simp only [Bool.false_eq_true, if_false]
      rw [ih]

theorem keep_insertKv (W : List String) (k : String) (v : Json) (hk : k ∈ W)
    (kvs : List (String × Json)) : keep W (insertKv kvs k v) = keep W kvs := by
  unfold insertKv
  split
  · exact keep_map_insert W k v hk kvs
  · simp [keep, List.filter_append, hk]

theorem lookup_map_insert_same (k : String) (v : Json) (kvs : List (String × Json))
    (h : kvs.any (fun p => p.1 == k) = true) :
    lookup (kvs.map fun p => if p.1 == k then (k, v) else p) k = some v := by
  induction kvs with
  | nil => simp at h
  | cons p rest ih =>
    by_cases hp : p.1 = k
    · simp [lookup, List.find?, hp]
    · have hne : (p.1 == k) = false := by simpa using hp
      have h' : rest.any (fun p => p.1 == k) = true := by simpa [List.any_cons, hne] using h
      have := ih h'
      simp only [lookup, List.map_cons, hne, Bool.false_eq_true, if_false, List.find?_cons] at this ⊢
      exact this

theorem lookup_append_not_any (k : String) (v : Json) (kvs : List (String × Json))
    (h : ¬ kvs.any (fun p => p.1 == k) = true) : lookup (kvs ++ [(k, v)]) k = some v := by
  induction kvs with
  | nil => simp [lookup, List.find?]
  | cons p rest ih =>
    have hne : (p.1 == k) = false := by
      by_contra hc; apply h; simp [List.any_cons]; left; simpa using hc
    have h' : ¬ rest.any (fun p => p.1 == k) = true := by
      intro hc; apply h; simp only [List.any_cons, hc, Bool.or_true]
    have := ih h'
    simp only [lookup, List.cons_append, List.find?_cons, hne] at this ⊢
    exact this

theorem lookup_insertKv_same (k : String) (v : Json) (kvs : List (String × Json)) :
    lookup (insertKv kvs k v) k = some v := by
  unfold insertKv
  split
  · next h => exact lookup_map_insert_same k v kvs h
  · next h => exact lookup_append_not_any k v kvs h

theorem lookup_map_insert_other (k k' : String) (v : Json) (kvs : List (String × Json)) (hne : k' ≠ k) :
    lookup (kvs.map fun p => if p.1 == k then (k, v) else p) k' = lookup kvs k' := by
  have h1 : (k == k') = false := by simpa using (Ne.symm hne)
  induction kvs with
  | nil => rfl
  | cons p rest ih =>
    by_cases hp : p.1 = k
    · have h2 : (p.1 == k') = false := by rw [hp]; exact h1
      simp only [lookup, List.map_cons, hp, beq_self_eq_true, if_true, List.find?_cons, h1, h2] at ih ⊢
      exact ih
    · have hpk : (p.1 == k) = false := by simpa using hp
      simp only [lookup, List.map_cons, hpk, Bool.false_eq_true, if_false, List.find?_cons] at ih ⊢
      cases hb : (p.1 == k')
      · exact ih
      · rfl

theorem lookup_insertKv_other (k k' : String) (v : Json) (kvs : List (String × Json)) (hne : k' ≠ k) :
    lookup (insertKv kvs k v) k' = lookup kvs k' := by
  unfold insertKv
  split
  · exact lookup_map_insert_other k k' v kvs hne
  · have h1 : (k == k') = false := by simpa using (Ne.symm hne)
    simp [lookup, List.find?_append, List.find?, h1]

/-! ### the field writer -/

theorem addField_ok {q q' : Json} {f : Field} {id : Nat} (h : addField q f id = .ok q') :
    ∃ kvs, q = .obj kvs ∧ q' = .obj (insertKv kvs f.name (idJson id)) := by
  unfold addField at h
  split at h
  · next kvs => exact ⟨kvs, rfl, by injection h with h; exact h.symm⟩
  · cases h

theorem addField_obj (kvs : List (String × Json)) (f : Field) (id : Nat) :
    addField (.obj kvs) f id = .ok (.obj (insertKv kvs f.name (idJson id))) := rfl

theorem addField_sameOthers {W : List String} {q q' : Json} {f : Field} {id : Nat}
    (hW : f.name ∈ W) (h : addField q f id = .ok q') : SameOthers W q q' := by
  obtain ⟨kvs, rfl, rfl⟩ := addField_ok h
  exact ⟨_, rfl, keep_insertKv W _ _ hW kvs⟩

/-! ### nearest-first lists -/

section
variable {α : Type} [LinearOrder α]

/-- the order `rstar`'s nearest-neighbour iterator is assumed to produce -/
def Sorted {β : Type} (d2 : β → α) (l : List β) : Prop := l.Pairwise fun a b => d2 a ≤ d2 b

theorem Sorted.head_le {β : Type} {d2 : β → α} {c : β} {rest : List β} (h : Sorted d2 (c :: rest)) :
    ∀ c' ∈ c :: rest, d2 c ≤ d2 c' := by
  intro c' hc'
  rcases List.mem_cons.mp hc' with rfl | hm
  · exact le_refl _
  · exact (List.pairwise_cons.mp h).1 c' hm

theorem Sorted.tail {β : Type} {d2 : β → α} {c : β} {rest : List β} (h : Sorted d2 (c :: rest)) :
    Sorted d2 rest := (List.pairwise_cons.mp h).2

end


/-! ### shapes of the two `process` functions (used by Props/C16) -/

section
variable {α : Type} [_root_.Field α] [LinearOrder α] [IsStrictOrderedRing α] [Lit α] [LawfulLit α]

/-! ### shape of a successful vertex match -/

theorem matchVertexInto_ok {tol : Option (α × DistanceUnit)} {q q' : Json} {f : Field} {cands : List (VCand α)}
    (h : matchVertexInto tol q f cands = .ok q') :
    ∃ c rest kvs, cands = c :: rest ∧ validateTolerance tol c = .ok () ∧ q = .obj kvs ∧
      q' = .obj (insertKv kvs f.name (idJson c.id)) := by
  unfold matchVertexInto nearestVertex at h
  cases cands with
  | nil => simp at h
  | cons c rest =>
    simp only [List.head?_cons] at h
    split at h
    · cases h
    · next hv =>
      obtain ⟨kvs, rfl, rfl⟩ := addField_ok h
      exact ⟨c, rest, kvs, rfl, hv, rfl, rfl⟩

/-- everything that is true when `RTreePlugin::process` returns `Ok` -/
theorem vertexProcess_ok {tol : Option (α × DistanceUnit)} {q : Json} {oc dc : List (VCand α)}
    (h : (vertexProcess tol q oc dc).err = none) :
    ∃ co ro kvs, oc = co :: ro ∧ validateTolerance tol co = .ok () ∧ q = .obj kvs ∧
      ((destinationCoordinate q = .ok false ∧
          (vertexProcess tol q oc dc).query =
            .obj (insertKv kvs Field.originVertex.name (idJson co.id))) ∨
       (destinationCoordinate q = .ok true ∧ ∃ cd rd, dc = cd :: rd ∧ validateTolerance tol cd = .ok () ∧
          (vertexProcess tol q oc dc).query =
            .obj (insertKv (insertKv kvs Field.originVertex.name (idJson co.id))
              Field.destinationVertex.name (idJson cd.id)))) := by
  unfold vertexProcess at h ⊢
  cases ho : originCoordinate q with
  | error e => simp [ho] at h
  | ok _ =>
    cases hd : destinationCoordinate q with
    | error e => simp [ho, hd] at h
    | ok hasDst =>
      cases hm : matchVertexInto tol q .originVertex oc with
      | error e => simp [ho, hd, hm] at h
      | ok q1 =>
        obtain ⟨co, ro, kvs, rfl, hv, rfl, rfl⟩ := matchVertexInto_ok hm
        refine ⟨co, ro, kvs, rfl, hv, rfl, ?_⟩
        cases hasDst with
        | false => left; simp
        | true =>
          right
          cases hm2 : matchVertexInto tol
              (.obj (insertKv kvs Field.originVertex.name (idJson co.id))) .destinationVertex dc with
          | error e => simp [ho, hd, hm, hm2] at h
          | ok q2 =>
            obtain ⟨cd, rd, kvs2, rfl, hv2, hq, rfl⟩ := matchVertexInto_ok hm2
            injection hq with hq
            subst hq
            exact ⟨rfl, cd, rd, rfl, hv2, by simp [hm2]⟩

/-- what the code's tolerance test demands of the chosen vertex: a great-circle distance exists and,
converted into the tolerance's unit, is at most the tolerance -/
def Passes (tol : Option (α × DistanceUnit)) (c : VCand α) : Prop :=
  match tol with
  | none => True
  | some (t, u) => ∃ g, c.gc = some g ∧ DistanceUnit.meters.convert u g ≤ t

theorem validateTolerance_ok_iff (tol : Option (α × DistanceUnit)) (c : VCand α) :
    validateTolerance tol c = .ok () ↔ Passes tol c := by
  unfold validateTolerance Passes
  cases tol with
  | none => simp
  | some tu =>
    obtain ⟨t, u⟩ := tu
    cases hg : c.gc with
    | none => simp
    | some g =>
      simp only [Option.some.injEq, exists_eq_left']
      split
      · next h => simp [h]
      · next h => simp [h]

theorem validateTolerance_beyond_iff (t : α) (u : DistanceUnit) (c : VCand α) :
    validateTolerance (some (t, u)) c = .error .beyondTolerance ↔
      ∃ g, c.gc = some g ∧ t < DistanceUnit.meters.convert u g := by
  unfold validateTolerance
  cases hg : c.gc with
  | none => simp
  | some g =>
    simp only [Option.some.injEq, exists_eq_left']
    split
    · next h => simp [not_lt.mpr h]
    · next h => simp [not_le.mp h]

theorem meters_factor_wf : ∀ u : DistanceUnit, (DistanceUnit.factor .meters u).wf = true := by
  intro u; cases u <;> decide

/-- passes the road-class filter and the vehicle restrictions -/
def Admissible (classes : Option (List Nat)) (hasLookup : Bool) (c : ECand α) : Prop :=
  validClass classes hasLookup c = .ok true ∧ c.vehOk = true

theorem validClass_error (classes : Option (List Nat)) (hasLookup : Bool) (c : ECand α) (e : Err)
    (h : validClass classes hasLookup c = .error e) :
    e = .roadClassMissing ∧ hasLookup = true ∧ classes.isSome ∧ c.cls = none := by
  unfold validClass at h
  split at h
  · split at h
    · next hc => injection h with h; exact ⟨h.symm, rfl, rfl, hc⟩
    · cases h
  · cases h

/-- the road-class lookup has an entry for each of these candidates — asked only when it is consulted at all,
i.e. when a lookup is loaded AND the query filters by road class (`cls` is `none` for every candidate of a
plugin without a lookup).  For a plugin made by the builder this holds of every edge of the network
(`edge_builder_consistent`: the lookup has the network's size). -/
def LookupCovers (classes : Option (List Nat)) (hasLookup : Bool) (l : List (ECand α)) : Prop :=
  hasLookup = true → classes.isSome → ∀ c ∈ l, c.cls ≠ none

theorem LookupCovers.tail {classes : Option (List Nat)} {hasLookup : Bool} {c : ECand α} {l : List (ECand α)}
    (h : LookupCovers classes hasLookup (c :: l)) : LookupCovers classes hasLookup l :=
  fun a b c' hc' => h a b c' (List.mem_cons_of_mem _ hc')

/-- what the edge matcher's tolerance test demands of the chosen edge: a great-circle distance exists and,
converted into the tolerance's unit, is at most the tolerance -/
def EPasses (tol : Option (α × DistanceUnit)) (c : ECand α) : Prop :=
  match tol with
  | none => True
  | some (t, u) => ∃ g, c.gc = some g ∧ DistanceUnit.meters.convert u g ≤ t

theorem withinTolerance_ok_true_iff (tol : Option (α × DistanceUnit)) (c : ECand α) :
    withinTolerance tol c = .ok true ↔ EPasses tol c := by
  unfold withinTolerance EPasses
  cases tol with
  | none => simp
  | some tu =>
    obtain ⟨t, u⟩ := tu
    cases hg : c.gc with
    | none => simp
    | some g => simp

/-- `cands` has a nearest admissible candidate, with id `id`, and it passes the tolerance test: the candidates
before it are inadmissible (and have a road class where one is asked for) -/
def Matchable (tol : Option (α × DistanceUnit)) (classes : Option (List Nat)) (hasLookup : Bool)
    (cands : List (ECand α)) (id : Nat) : Prop :=
  ∃ pre c post, cands = pre ++ c :: post ∧ c.id = id ∧ LookupCovers classes hasLookup pre ∧
    (∀ c' ∈ pre, ¬ Admissible classes hasLookup c') ∧ Admissible classes hasLookup c ∧ EPasses tol c

theorem matchVertexInto_sameOthers {W : List String} {tol : Option (α × DistanceUnit)} {q q' : Json} {f : Field}
    {cands : List (VCand α)} (hW : f.name ∈ W) (h : matchVertexInto tol q f cands = .ok q') :
    SameOthers W q q' := by
  obtain ⟨c, rest, kvs, rfl, _, rfl, rfl⟩ := matchVertexInto_ok h
  exact ⟨_, rfl, keep_insertKv W _ _ hW kvs⟩

theorem destinationCoordinate_false_iff (q : Json) :
    destinationCoordinate q = .ok false ↔ q.get? "destination_x" = none ∧ q.get? "destination_y" = none := by
  unfold destinationCoordinate
  simp only [Field.name]
  constructor
  · intro h
    split at h
    · next h1 h2 => exact ⟨h1, h2⟩
    · cases h
    · cases h
    · split at h
      · cases h
      · split at h <;> cases h
  · rintro ⟨h1, h2⟩
    rw [h1, h2]

end


/-! ### ids written by the matchers read back (`InputJsonExtensions` readers) -/

theorem allDigits_toString (n : Nat) : Json.allDigits (toString n) = true := by
  unfold Json.allDigits
  rw [Nat.toString_eq_repr]
  simp only [Bool.and_eq_true, Bool.not_eq_true', List.all_eq_true]
  refine ⟨?_, ?_⟩
  · have := @Nat.repr_ne_empty n
    simp [String.isEmpty_iff, this]
  · intro c hc
    rw [Nat.toList_repr] at hc
    exact Nat.isDigit_of_mem_toDigits (by omega) (by omega) hc

/-- `Value::from(n).as_u64() == Some(n)` for every `u64` -/
theorem asU64_idJson (n : Nat) (h : n < 2 ^ 64) : Json.asU64? (idJson n) = some n := by
  unfold idJson Json.asU64?
  simp only [allDigits_toString, if_true]
  rw [Nat.toString_eq_repr, Nat.toNat?_repr]
  have h' : n < 18446744073709551616 := by simpa using h
  simp [h']

theorem isNumber_iff_asF64Bits (v : Json) : v.isNumber = true ↔ ∃ b, v.asF64Bits? = some b := by
  cases v <;> simp [Json.isNumber, Json.asF64Bits?]

/-- `insertKv` on a key that is present leaves the sequence of keys as it is -/
theorem keys_insertKv_of_mem (kvs : List (String × Json)) (k : String) (v : Json)
    (h : kvs.any (fun p => p.1 == k) = true) : (insertKv kvs k v).map Prod.fst = kvs.map Prod.fst := by
  unfold insertKv
  rw [if_pos h, List.map_map]
  apply List.map_congr_left
  intro p _
  by_cases hp : p.1 = k
  · simp [hp]
  · simp [hp]

theorem keys_insertKv_of_not_mem (kvs : List (String × Json)) (k : String) (v : Json)
    (h : ¬ kvs.any (fun p => p.1 == k) = true) : (insertKv kvs k v).map Prod.fst = kvs.map Prod.fst ++ [k] := by
  unfold insertKv
  rw [if_neg h]; simp

end MapMatch
end Compass
