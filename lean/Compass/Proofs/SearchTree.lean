/-
Tree invariant of the search loop (`Model/Search.lean`: `relax`, `relaxAll`, `runLoop`, `runAStar`)
and what it gives for `backtrack` / `runVertexOriented`.

Everything holds for every instance satisfying `WF` (incident consistency, strictly positive edge
cost), every source, optional target and every schedule, over any linearly ordered field.
-/
import Compass.Proofs.Num
import Compass.Model.Search
import Mathlib.Data.List.Chain
import Mathlib.Data.List.Nodup
import Mathlib.Data.List.Perm.Subperm
import Mathlib.Logic.Function.Iterate

namespace Compass
namespace SearchTree

set_option linter.unusedSectionVars false

variable {α : Type} [Field α] [LinearOrder α] [IsStrictOrderedRing α] [Lit α] [LawfulLit α]

/-! ### Hypotheses on the instance -/

/-- the two hypotheses on a search instance: (H1) incident consistency, (H2) positive edge cost -/
structure WF (I : Inst α) : Prop where
  incident_term : ∀ v e, e ∈ I.incident v → I.termV e = v
  cost_pos : ∀ e le st ac tc st', I.trav e le st = .ok (ac, tc, st') → 0 < ac + tc

/-! ### Small lemmas: `upd`, `pushIncrease`, `improves` -/

theorem upd_same {β : Type} (m : Nat → Option β) (k : Nat) (v : β) : upd m k v k = some v := by
  simp [upd]

theorem upd_other {β : Type} (m : Nat → Option β) (k : Nat) (v : β) {x : Nat} (h : x ≠ k) :
    upd m k v x = m x := by
  simp [upd, h]

theorem upd_isSome {β : Type} (m : Nat → Option β) (k : Nat) (v : β) (x : Nat) :
    (upd m k v x).isSome ↔ x = k ∨ (m x).isSome := by
  by_cases h : x = k
  · simp [upd, h]
  · simp [upd, h]

theorem mem_pushIncrease {q : List (Nat × α)} {v : Nat} {f : α} {p : Nat × α}
    (h : p ∈ pushIncrease q v f) : p.1 = v ∨ p ∈ q := by
  unfold pushIncrease at h
  split at h
  · rcases List.mem_append.1 h with h | h
    · exact Or.inr h
    · left; simp at h; rw [h]
  · split at h
    · rcases List.mem_map.1 h with ⟨p', hp', rfl⟩
      by_cases hk : (p'.1 == v) = true
      · left; simp [hk]
      · right; simp [hk, hp']
    · exact Or.inr h

theorem improves_some (t x : α) : improves t (some x) = true ↔ t < x := by
  simp [improves]

/-! ### The invariant -/

/-- tree invariant of a loop state of `run_a_star` -/
structure TreeInv (I : Inst α) (source : Nat) (s : SState α) : Prop where
  /-- the source is labelled zero -/
  g_source : s.g source = some 0
  /-- the source never gets a tree entry -/
  sol_source : s.sol source = none
  /-- every tree entry `v ↦ b` joins its parent `b.terminal` to `v` with a positive cost that the
  labels respect, and the parent is the source or has an entry itself -/
  entry : ∀ v b, s.sol v = some b →
    I.keyV b.edge = v ∧ I.termV b.edge = b.terminal ∧ b.edge ∈ I.incident b.terminal ∧
    0 < b.access + b.traversal ∧
    (∃ gu gv, s.g b.terminal = some gu ∧ s.g v = some gv ∧ gu + (b.access + b.traversal) ≤ gv) ∧
    (b.terminal = source ∨ (s.sol b.terminal).isSome)
  /-- every labelled vertex other than the source has a tree entry -/
  labelled : ∀ v gv, s.g v = some gv → v = source ∨ (s.sol v).isSome
  /-- every queue entry has a label -/
  queue_labelled : ∀ p ∈ s.queue, (s.g p.1).isSome
  /-- every queue entry is the source or has a tree entry -/
  queue_entry : ∀ p ∈ s.queue, p.1 = source ∨ (s.sol p.1).isSome
  /-- `solSize` is the number of tree entries -/
  keys : ∃ keys : List Nat, keys.Nodup ∧ keys.length = s.solSize ∧ ∀ v, (s.sol v).isSome ↔ v ∈ keys
  /-- labels are non-negative -/
  g_nonneg : ∀ v gv, s.g v = some gv → 0 ≤ gv

/-- the invariant only reads `g`, `sol`, `solSize` and the members of the queue: dropping queue
entries and changing `iters` keep it -/
theorem TreeInv.of_eq {I : Inst α} {source : Nat} {s s' : SState α} (h : TreeInv I source s)
    (hg : s'.g = s.g) (hsol : s'.sol = s.sol) (hsize : s'.solSize = s.solSize)
    (hq : ∀ p ∈ s'.queue, p ∈ s.queue) : TreeInv I source s' where
  g_source := by rw [hg]; exact h.g_source
  sol_source := by rw [hsol]; exact h.sol_source
  entry := by rw [hg, hsol]; exact h.entry
  labelled := by rw [hg, hsol]; exact h.labelled
  queue_labelled := by rw [hg]; exact fun p hp => h.queue_labelled p (hq p hp)
  queue_entry := by rw [hsol]; exact fun p hp => h.queue_entry p (hq p hp)
  keys := by rw [hsol, hsize]; exact h.keys
  g_nonneg := by rw [hg]; exact h.g_nonneg

/-- removing a queue entry (the `pop`) keeps the invariant -/
theorem TreeInv.pop {I : Inst α} {source : Nat} {s : SState α} (h : TreeInv I source s) (v : Nat) :
    TreeInv I source { s with queue := s.queue.filter (fun p => !(p.1 == v)) } :=
  h.of_eq rfl rfl rfl (fun _ hp => (List.mem_filter.1 hp).1)

/-- `iterations += 1` keeps the invariant -/
theorem TreeInv.bump {I : Inst α} {source : Nat} {s : SState α} (h : TreeInv I source s) :
    TreeInv I source { s with iters := s.iters + 1 } :=
  h.of_eq rfl rfl rfl (fun _ hp => hp)

/-- the invariant holds before the loop -/
theorem initState_treeInv (I : Inst α) (source : Nat) (f0 : α) :
    TreeInv I source (initState source f0) where
  g_source := by simp [initState, upd]
  sol_source := rfl
  entry := by intro v b h; simp [initState] at h
  labelled := by
    intro v gv h
    by_cases hv : v = source
    · exact Or.inl hv
    · simp [initState, upd, hv] at h
  queue_labelled := by
    intro p hp
    simp [initState] at hp
    simp [initState, upd, hp]
  queue_entry := by
    intro p hp
    simp [initState] at hp
    simp [hp]
  keys := ⟨[], List.nodup_nil, rfl, by intro v; simp [initState]⟩
  g_nonneg := by
    intro v gv h
    by_cases hv : v = source
    · simp [initState, upd, hv] at h; simp [← h]
    · simp [initState, upd, hv] at h

/-! ### `relax` keeps the invariant -/

/-- the three inserts and the `push_increase` of an improving relaxation keep the invariant -/
theorem update_treeInv {I : Inst α} {source : Nat} {s : SState α} (hinv : TreeInv I source s)
    (e : Nat) (ac tc : α) (st' : List α) (gt hv : α)
    (hgt : s.g (I.termV e) = some gt) (hc : 0 < ac + tc) (he : e ∈ I.incident (I.termV e))
    (himp : improves (gt + (ac + tc)) (s.g (I.keyV e)) = true) :
    TreeInv I source
      { s with
        g := upd s.g (I.keyV e) (gt + (ac + tc)),
        sol := upd s.sol (I.keyV e)
          { terminal := I.termV e, edge := e, access := ac, traversal := tc, state := st' },
        solSize := (match s.sol (I.keyV e) with | none => s.solSize + 1 | some _ => s.solSize),
        queue := pushIncrease s.queue (I.keyV e) (gt + (ac + tc) + hv) } := by
  have hgt0 : 0 ≤ gt := hinv.g_nonneg _ _ hgt
  have hks : I.keyV e ≠ source := by
    intro hk
    rw [hk, hinv.g_source, improves_some] at himp
    linarith
  have hkt : I.termV e ≠ I.keyV e := by
    intro hk
    rw [← hk, hgt, improves_some] at himp
    linarith
  have hsk : source ≠ I.keyV e := fun h => hks h.symm
  refine
    { g_source := ?_, sol_source := ?_, entry := ?_, labelled := ?_, queue_labelled := ?_,
      queue_entry := ?_, keys := ?_, g_nonneg := ?_ }
  · show upd s.g (I.keyV e) _ source = some 0
    rw [upd_other _ _ _ hsk]; exact hinv.g_source
  · show upd s.sol (I.keyV e) _ source = none
    rw [upd_other _ _ _ hsk]; exact hinv.sol_source
  · intro v b hb
    change upd s.sol (I.keyV e) _ v = some b at hb
    show _ ∧ _ ∧ _ ∧ _ ∧
      (∃ gu gv, upd s.g (I.keyV e) _ b.terminal = some gu ∧ upd s.g (I.keyV e) _ v = some gv ∧ _) ∧
      (_ ∨ (upd s.sol (I.keyV e) _ b.terminal).isSome)
    by_cases hv : v = I.keyV e
    · subst hv
      rw [upd_same] at hb
      cases hb
      refine ⟨rfl, rfl, he, hc, ⟨gt, gt + (ac + tc), ?_, ?_, le_refl _⟩, ?_⟩
      · show upd s.g (I.keyV e) _ (I.termV e) = some gt
        rw [upd_other _ _ _ hkt]; exact hgt
      · exact upd_same _ _ _
      · show I.termV e = source ∨ (upd s.sol (I.keyV e) _ (I.termV e)).isSome
        rw [upd_other _ _ _ hkt]; exact hinv.labelled _ _ hgt
    · rw [upd_other _ _ _ hv] at hb
      obtain ⟨h1, h2, h3, h4, ⟨gu, gv, hgu, hgv, hle⟩, h6⟩ := hinv.entry v b hb
      refine ⟨h1, h2, h3, h4, ?_, ?_⟩
      · by_cases hbt : b.terminal = I.keyV e
        · refine ⟨gt + (ac + tc), gv, ?_, ?_, ?_⟩
          · rw [hbt]; exact upd_same _ _ _
          · rw [upd_other _ _ _ hv]; exact hgv
          · rw [← hbt, hgu, improves_some] at himp
            linarith
        · refine ⟨gu, gv, ?_, ?_, hle⟩
          · rw [upd_other _ _ _ hbt]; exact hgu
          · rw [upd_other _ _ _ hv]; exact hgv
      · rcases h6 with h6 | h6
        · exact Or.inl h6
        · right; rw [upd_isSome]; exact Or.inr h6
  · intro v gv hgv
    change upd s.g (I.keyV e) _ v = some gv at hgv
    show v = source ∨ (upd s.sol (I.keyV e) _ v).isSome
    rw [upd_isSome]
    by_cases hv : v = I.keyV e
    · exact Or.inr (Or.inl hv)
    · rw [upd_other _ _ _ hv] at hgv
      rcases hinv.labelled v gv hgv with h | h
      · exact Or.inl h
      · exact Or.inr (Or.inr h)
  · intro p hp
    change p ∈ pushIncrease s.queue (I.keyV e) _ at hp
    show (upd s.g (I.keyV e) _ p.1).isSome
    rw [upd_isSome]
    rcases mem_pushIncrease hp with h | h
    · exact Or.inl h
    · exact Or.inr (hinv.queue_labelled p h)
  · intro p hp
    change p ∈ pushIncrease s.queue (I.keyV e) _ at hp
    show p.1 = source ∨ (upd s.sol (I.keyV e) _ p.1).isSome
    rw [upd_isSome]
    rcases mem_pushIncrease hp with h | h
    · exact Or.inr (Or.inl h)
    · rcases hinv.queue_entry p h with h | h
      · exact Or.inl h
      · exact Or.inr (Or.inr h)
  · obtain ⟨keys, hnd, hlen, hmem⟩ := hinv.keys
    show ∃ keys : List Nat, keys.Nodup ∧
      keys.length = (match s.sol (I.keyV e) with | none => s.solSize + 1 | some _ => s.solSize) ∧
      ∀ v, (upd s.sol (I.keyV e) _ v).isSome ↔ v ∈ keys
    cases hk : s.sol (I.keyV e) with
    | none =>
      have hnot : I.keyV e ∉ keys := by
        intro hm
        have := (hmem _).2 hm
        rw [hk] at this
        simp at this
      refine ⟨I.keyV e :: keys, List.nodup_cons.2 ⟨hnot, hnd⟩, by simp [hlen], ?_⟩
      intro v
      rw [upd_isSome, List.mem_cons, hmem]
    | some b0 =>
      have hin : I.keyV e ∈ keys := (hmem _).1 (by rw [hk]; rfl)
      refine ⟨keys, hnd, by simp [hlen], ?_⟩
      intro v
      rw [upd_isSome, hmem]
      constructor
      · rintro (h | h)
        · rw [h]; exact hin
        · exact h
      · exact Or.inr
  · intro v gv hgv
    change upd s.g (I.keyV e) _ v = some gv at hgv
    by_cases hv : v = I.keyV e
    · rw [hv, upd_same] at hgv
      cases hgv
      linarith
    · rw [upd_other _ _ _ hv] at hgv
      exact hinv.g_nonneg v gv hgv

/-- one turn of the `for edge_id in incident_edges` loop keeps the invariant (no assumption on the
outcome of `valid`, `trav`, `h`: an error is not an `.ok` state) -/
theorem relax_treeInv {I : Inst α} (hI : WF I) {source : Nat} {hasTarget : Bool}
    {lastEdge : Option Nat} {curState : List α} {s s' : SState α} {e : Nat}
    (hinv : TreeInv I source s) (he : e ∈ I.incident (I.termV e))
    (h : relax I hasTarget lastEdge curState s e = .ok s') : TreeInv I source s' := by
  unfold relax at h
  split at h
  · cases h
  · cases h; exact hinv
  · split at h
    · cases h
    · rename_i ac tc st' htrav
      have hc : 0 < ac + tc := hI.cost_pos _ _ _ _ _ _ htrav
      split at h
      · cases h; exact hinv
      · rename_i gt hgt
        simp only at h
        split at h
        · rename_i himp
          split at h
          · cases h
          · rename_i hv hh
            cases h
            exact update_treeInv hinv e ac tc st' gt hv hgt hc he himp
        · cases h; exact hinv

/-- the form asked for: the expanded vertex `cur` is the source or has an entry, is labelled, and
the relaxed edge is one of its incident edges -/
theorem relax_treeInv' {I : Inst α} (hI : WF I) {source : Nat} {hasTarget : Bool}
    {lastEdge : Option Nat} {curState : List α} {s s' : SState α} {e cur : Nat}
    (hinv : TreeInv I source s) (he : e ∈ I.incident cur) (_hterm : I.termV e = cur)
    (_hcur : cur = source ∨ (s.sol cur).isSome) (_hg : (s.g cur).isSome)
    (h : relax I hasTarget lastEdge curState s e = .ok s') : TreeInv I source s' :=
  relax_treeInv hI hinv (by rw [hI.incident_term _ _ he]; exact he) h

/-- the whole `for` loop keeps the invariant -/
theorem relaxAll_treeInv {I : Inst α} (hI : WF I) {source : Nat} {hasTarget : Bool}
    {lastEdge : Option Nat} {curState : List α} :
    ∀ (es : List Nat) (s s' : SState α), (∀ e ∈ es, e ∈ I.incident (I.termV e)) →
      TreeInv I source s → relaxAll I hasTarget lastEdge curState es s = .ok s' →
      TreeInv I source s'
  | [], s, s', _, hinv, h => by
    simp only [relaxAll] at h
    cases h; exact hinv
  | e :: es, s, s', hes, hinv, h => by
    simp only [relaxAll] at h
    split at h
    · cases h
    · rename_i s1 h1
      exact relaxAll_treeInv hI es s1 s' (fun e' he' => hes e' (List.mem_cons_of_mem _ he'))
        (relax_treeInv hI hinv (hes e List.mem_cons_self) h1) h

/-- relaxing all incident edges of a vertex keeps the invariant -/
theorem relaxAll_incident_treeInv {I : Inst α} (hI : WF I) {source : Nat} {hasTarget : Bool}
    {lastEdge : Option Nat} {curState : List α} (v : Nat) {s s' : SState α}
    (hinv : TreeInv I source s)
    (h : relaxAll I hasTarget lastEdge curState (I.incident v) s = .ok s') :
    TreeInv I source s' :=
  relaxAll_treeInv hI _ s s'
    (fun e he => by rw [hI.incident_term _ _ he]; exact he) hinv h

/-! ### The loop keeps the invariant -/

theorem popOk_mem {q : List (Nat × α)} {v : Nat} (h : popOk q v = true) : ∃ p ∈ q, p.1 = v := by
  unfold popOk at h
  split at h
  · cases h
  · rename_i v' f hf
    have h1 := List.mem_of_find?_eq_some hf
    have h2 := List.find?_some hf
    exact ⟨_, h1, by simpa using h2⟩

/-- a vertex the queue may pop is the source or has a tree entry: the loop's own
`InternalError("expected vertex id … missing from solution")` branch is never taken -/
theorem popped_has_entry {I : Inst α} {source : Nat} {s : SState α} (hinv : TreeInv I source s)
    {v : Nat} (h : popOk s.queue v = true) : v = source ∨ (s.sol v).isSome := by
  obtain ⟨p, hp, hpv⟩ := popOk_mem h
  rw [← hpv]
  exact hinv.queue_entry p hp

/-- `runLoop` keeps the invariant for every schedule; and when there is a target, the final state
(reached by popping the target) has a tree entry for it -/
theorem runLoop_treeInv {I : Inst α} (hI : WF I) {source : Nat} {target : Option Nat} :
    ∀ (sched : List Nat) (s s' : SState α), TreeInv I source s →
      runLoop I source target sched s = .ok s' →
      TreeInv I source s' ∧ (∀ t, target = some t → t = source ∨ (s'.sol t).isSome) := by
  intro sched
  induction sched with
  | nil =>
    intro s s' hinv h
    unfold runLoop at h
    split at h
    · cases h
    · split at h
      · split at h
        · cases h
        · cases h; exact ⟨hinv, fun t ht => by cases ht⟩
      · cases h
  | cons v rest ih =>
    intro s s' hinv h
    unfold runLoop at h
    split at h
    · cases h
    · split at h
      · split at h
        · cases h
        · cases h; exact ⟨hinv, fun t ht => by cases ht⟩
      · simp only at h
        split at h
        · cases h
        · rename_i hpop
          split at h
          · rename_i htgt
            cases h
            refine ⟨hinv.pop v, ?_⟩
            intro t ht
            have htv : t = v := by
              rw [ht] at htgt
              simpa using htgt
            subst htv
            have hpop' : popOk s.queue t = true := by simpa using hpop
            obtain ⟨p, hp, hpt⟩ := popOk_mem hpop'
            rw [← hpt]
            exact hinv.queue_entry p hp
          · split at h
            · cases h
            · rename_i lastEdge st hcur
              split at h
              · cases h
              · rename_i s2 hrel
                have h2 : TreeInv I source s2 :=
                  relaxAll_incident_treeInv hI v (hinv.pop v) hrel
                exact ih _ s' h2.bump h

/-- every `.ok` result of `run_a_star` is the empty result of the `target = source` shortcut or
satisfies the invariant (and then a target has a tree entry) -/
theorem runAStar_treeInv' {I : Inst α} (hI : WF I) (source : Nat) (target : Option Nat)
    (sched : List Nat) (s : SState α) (h : runAStar I source target sched = .ok s) :
    (target = some source ∧ s.queue = [] ∧ s.g = (fun _ => none) ∧ s.sol = (fun _ => none) ∧
        s.solSize = 0 ∧ s.iters = 0) ∨
    (target ≠ some source ∧ TreeInv I source s ∧
      ∀ t, target = some t → (s.sol t).isSome) := by
  unfold runAStar at h
  split at h
  · rename_i ht
    cases h
    exact Or.inl ⟨by simpa using ht, rfl, rfl, rfl, rfl, rfl⟩
  · rename_i ht
    have hts : target ≠ some source := by simpa using ht
    split at h
    · cases h
    · rename_i f0 hf0
      obtain ⟨h1, h2⟩ := runLoop_treeInv hI sched _ s (initState_treeInv I source f0) h
      refine Or.inr ⟨hts, h1, ?_⟩
      intro t htt
      rcases h2 t htt with h3 | h3
      · exact absurd (by rw [htt, h3]) hts
      · exact h3

theorem runAStar_treeInv {I : Inst α} (hI : WF I) (source : Nat) (target : Option Nat)
    (sched : List Nat) (s : SState α) (h : runAStar I source target sched = .ok s) :
    (target = some source ∧ s.queue = [] ∧ s.g = (fun _ => none) ∧ s.sol = (fun _ => none) ∧
        s.solSize = 0 ∧ s.iters = 0) ∨
    TreeInv I source s := by
  rcases runAStar_treeInv' hI source target sched s h with h | h
  · exact Or.inl h
  · exact Or.inr h.2.1

/-! ### Consequences: labels strictly decrease towards the root -/

/-- both labelled, and the label of `u` is strictly below the label of `v` -/
def LabelLt (s : SState α) (u v : Nat) : Prop :=
  ∃ gu gv, s.g u = some gu ∧ s.g v = some gv ∧ gu < gv

theorem LabelLt.trans {s : SState α} {u v w : Nat} (h1 : LabelLt s u v) (h2 : LabelLt s v w) :
    LabelLt s u w := by
  obtain ⟨a, b, ha, hb, hab⟩ := h1
  obtain ⟨b', c, hb', hc, hbc⟩ := h2
  rw [hb] at hb'
  cases hb'
  exact ⟨a, c, ha, hc, lt_trans hab hbc⟩

theorem LabelLt.irrefl {s : SState α} {v : Nat} (h : LabelLt s v v) : False := by
  obtain ⟨a, b, ha, hb, hab⟩ := h
  rw [ha] at hb
  cases hb
  exact lt_irrefl _ hab

theorem LabelLt.ne {s : SState α} {u v : Nat} (h : LabelLt s u v) : u ≠ v := by
  intro huv
  subst huv
  exact h.irrefl

/-- the parent of a tree entry has a strictly smaller label (strict because costs are positive) -/
theorem parent_label_lt {I : Inst α} {source : Nat} {s : SState α} (hinv : TreeInv I source s)
    {v : Nat} {b : Branch α} (h : s.sol v = some b) :
    ∃ gu gv, s.g b.terminal = some gu ∧ s.g v = some gv ∧ gu < gv := by
  obtain ⟨_, _, _, hc, ⟨gu, gv, hgu, hgv, hle⟩, _⟩ := hinv.entry v b h
  exact ⟨gu, gv, hgu, hgv, by linarith⟩

/-- `u` is a proper ancestor of `v` in the tree -/
inductive Anc (sol : Nat → Option (Branch α)) : Nat → Nat → Prop
  | parent {v : Nat} {b : Branch α} : sol v = some b → Anc sol b.terminal v
  | step {u v : Nat} {b : Branch α} : sol v = some b → Anc sol u b.terminal → Anc sol u v

theorem anc_label_lt {I : Inst α} {source : Nat} {s : SState α} (hinv : TreeInv I source s)
    {u v : Nat} (h : Anc s.sol u v) : LabelLt s u v := by
  induction h with
  | parent hb => exact parent_label_lt hinv hb
  | step hb _ ih => exact ih.trans (parent_label_lt hinv hb)

/-- no vertex is its own ancestor -/
theorem acyclic {I : Inst α} {source : Nat} {s : SState α} (hinv : TreeInv I source s) (v : Nat) :
    ¬ Anc s.sol v v :=
  fun h => (anc_label_lt hinv h).irrefl

/-! ### Consequences: backtracking -/

/-- `r` is the list of tree entries met walking up from `t` to the source, in travel order of the
search direction (the entry leaving the source first, the entry of `t` last) -/
inductive PathTo (source : Nat) (sol : Nat → Option (Branch α)) : Nat → List (Branch α) → Prop
  | nil : PathTo source sol source []
  | snoc {v : Nat} {b : Branch α} {r : List (Branch α)} :
      v ≠ source → sol v = some b → PathTo source sol b.terminal r →
      PathTo source sol v (r ++ [b])

/-- the walk of `backtrackAux`: with `visited` the edges of strict descendants and enough fuel, it
succeeds and returns a `PathTo` prefixed to the accumulator -/
theorem backtrackAux_ok {I : Inst α} {source : Nat} {s : SState α} (hinv : TreeInv I source s) :
    ∀ (fuel v : Nat) (visited : List Nat) (acc : List (Branch α)),
      (v = source ∨ (s.sol v).isSome) →
      s.solSize < fuel + visited.length →
      (visited.map I.keyV).Nodup →
      (∀ e ∈ visited, (s.sol (I.keyV e)).isSome ∧ LabelLt s v (I.keyV e)) →
      ∃ r, PathTo source s.sol v r ∧
        backtrackAux source s.sol fuel v visited acc = .ok (r ++ acc) := by
  intro fuel
  induction fuel with
  | zero =>
    intro v visited acc _ hfuel hnd hvis
    exfalso
    obtain ⟨keys, hknd, hklen, hkmem⟩ := hinv.keys
    have hsub : visited.map I.keyV ⊆ keys := by
      intro x hx
      obtain ⟨e, he, rfl⟩ := List.mem_map.1 hx
      exact (hkmem _).1 (hvis e he).1
    have := (hnd.subperm hsub).length_le
    simp at this
    omega
  | succ fuel ih =>
    intro v visited acc hv hfuel hnd hvis
    unfold backtrackAux
    by_cases hvs : v = source
    · subst hvs
      exact ⟨[], PathTo.nil, by simp⟩
    · rw [if_neg hvs]
      have hsome : (s.sol v).isSome := hv.resolve_left hvs
      obtain ⟨b, hb⟩ := Option.isSome_iff_exists.1 hsome
      rw [hb]
      obtain ⟨hkey, _, _, _, _, hterm⟩ := hinv.entry v b hb
      have hplt : LabelLt s b.terminal v := parent_label_lt hinv hb
      have hnotin : I.keyV b.edge ∉ visited.map I.keyV := by
        intro hx
        obtain ⟨e, he, hek⟩ := List.mem_map.1 hx
        have := (hvis e he).2
        rw [hek, hkey] at this
        exact this.irrefl
      have hnv : b.edge ∉ visited := fun hx => hnotin (List.mem_map_of_mem hx)
      have hcont : visited.contains b.edge = false := by simpa using hnv
      simp only [hcont]
      obtain ⟨r, hr, hrun⟩ := ih b.terminal (b.edge :: visited) (b :: acc) hterm
        (by simp only [List.length_cons]; omega)
        (by rw [List.map_cons]; exact List.nodup_cons.2 ⟨hnotin, hnd⟩)
        (by
          intro e he
          rcases List.mem_cons.1 he with rfl | he
          · rw [hkey]; exact ⟨hsome, hplt⟩
          · exact ⟨(hvis e he).1, hplt.trans (hvis e he).2⟩)
      refine ⟨r ++ [b], PathTo.snoc hvs hb hr, ?_⟩
      simp only [Bool.false_eq_true, if_false]
      rw [hrun]
      simp

/-- backtracking from the source or from any vertex with a tree entry succeeds with the fuel
`solSize + 1`: never `panic "backtrack-fuel"`, never `internal` -/
theorem backtrack_ok {I : Inst α} {source : Nat} {s : SState α} (hinv : TreeInv I source s)
    {t : Nat} (ht : t = source ∨ (s.sol t).isSome) :
    ∃ route, PathTo source s.sol t route ∧
      backtrack source t s.sol (s.solSize + 1) = .ok route := by
  obtain ⟨r, hr, hrun⟩ := backtrackAux_ok hinv (s.solSize + 1) t [] [] ht (by simp) (by simp)
    (by simp)
  exact ⟨r, hr, by simpa [backtrack] using hrun⟩

/-- explicit negative form of `backtrack_ok`: no error outcome at all (in particular neither
`panic "backtrack-fuel"` nor `internal`) -/
theorem backtrack_never_fails {I : Inst α} {source : Nat} {s : SState α}
    (hinv : TreeInv I source s) {t : Nat} (ht : t = source ∨ (s.sol t).isSome) (k : ErrKind) :
    backtrack source t s.sol (s.solSize + 1) ≠ .error k := by
  obtain ⟨route, _, h⟩ := backtrack_ok hinv ht
  rw [h]
  exact fun h' => by cases h'

/-- the route of a successful backtrack is the `PathTo` (whatever the fuel) -/
theorem backtrackAux_sound {source : Nat} {sol : Nat → Option (Branch α)} :
    ∀ (fuel v : Nat) (visited : List Nat) (acc out : List (Branch α)),
      backtrackAux source sol fuel v visited acc = .ok out →
      ∃ r, PathTo source sol v r ∧ out = r ++ acc := by
  intro fuel
  induction fuel with
  | zero => intro v visited acc out h; simp [backtrackAux] at h
  | succ fuel ih =>
    intro v visited acc out h
    unfold backtrackAux at h
    split at h
    · rename_i hv
      cases h
      subst hv
      exact ⟨[], PathTo.nil, by simp⟩
    · rename_i hv
      split at h
      · cases h
      · rename_i b hb
        split at h
        · cases h
        · obtain ⟨r, hr, hout⟩ := ih _ _ _ _ h
          exact ⟨r ++ [b], PathTo.snoc hv hb hr, by simp [hout]⟩

theorem backtrack_sound {source t : Nat} {sol : Nat → Option (Branch α)} {fuel : Nat}
    {route : List (Branch α)} (h : backtrack source t sol fuel = .ok route) :
    PathTo source sol t route := by
  obtain ⟨r, hr, hout⟩ := backtrackAux_sound fuel t [] [] route h
  simp at hout
  rw [hout]; exact hr

/-! ### Consequences: shape of the route -/

theorem pathTo_nil_iff {source : Nat} {sol : Nat → Option (Branch α)} {t : Nat}
    {r : List (Branch α)} (h : PathTo source sol t r) : r = [] ↔ t = source := by
  cases h with
  | nil => simp
  | snoc hv _ _ => simp [hv]

theorem pathTo_head {source : Nat} {sol : Nat → Option (Branch α)} {t : Nat}
    {r : List (Branch α)} (h : PathTo source sol t r) :
    ∀ b, r.head? = some b → b.terminal = source := by
  induction h with
  | nil => intro b hb; simp at hb
  | @snoc v b r hv hb hr ih =>
    intro b' hb'
    cases r with
    | nil =>
      simp at hb'
      subst hb'
      exact (pathTo_nil_iff hr).1 rfl
    | cons x xs =>
      apply ih
      simpa using hb'

theorem pathTo_last {I : Inst α} {source : Nat} {s : SState α} (hinv : TreeInv I source s)
    {t : Nat} {r : List (Branch α)} (h : PathTo source s.sol t r) :
    ∀ b, r.getLast? = some b → I.keyV b.edge = t := by
  cases h with
  | nil => intro b hb; simp at hb
  | @snoc v b r hv hb hr =>
    intro b' hb'
    simp at hb'
    subst hb'
    exact (hinv.entry _ _ hb).1

theorem pathTo_chain {I : Inst α} {source : Nat} {s : SState α} (hinv : TreeInv I source s)
    {t : Nat} {r : List (Branch α)} (h : PathTo source s.sol t r) :
    r.IsChain (fun a b => I.keyV a.edge = b.terminal) := by
  induction h with
  | nil => exact List.isChain_nil
  | @snoc v b r hv hb hr ih =>
    refine List.IsChain.append ih (List.isChain_singleton _) ?_
    intro x hx y hy
    simp at hy
    subst hy
    exact pathTo_last hinv hr x hx

theorem pathTo_mem {source : Nat} {sol : Nat → Option (Branch α)} {t : Nat}
    {r : List (Branch α)} (h : PathTo source sol t r) :
    ∀ b ∈ r, ∃ v, v ≠ source ∧ sol v = some b := by
  induction h with
  | nil => intro b hb; simp at hb
  | @snoc v b r hv hb hr ih =>
    intro b' hb'
    rcases List.mem_append.1 hb' with h | h
    · exact ih b' h
    · simp at h
      subst h
      exact ⟨v, hv, hb⟩

theorem pathTo_entry {I : Inst α} {source : Nat} {s : SState α} (hinv : TreeInv I source s)
    {t : Nat} {r : List (Branch α)} (h : PathTo source s.sol t r) :
    ∀ b ∈ r, s.sol (I.keyV b.edge) = some b ∧ I.keyV b.edge ≠ source := by
  intro b hb
  obtain ⟨v, hv, hsol⟩ := pathTo_mem h b hb
  rw [(hinv.entry v b hsol).1]
  exact ⟨hsol, hv⟩

/-- every key vertex on the path to `t` is `t` or has a strictly smaller label than `t` -/
theorem pathTo_label {I : Inst α} {source : Nat} {s : SState α} (hinv : TreeInv I source s)
    {t : Nat} {r : List (Branch α)} (h : PathTo source s.sol t r) :
    ∀ b ∈ r, I.keyV b.edge = t ∨ LabelLt s (I.keyV b.edge) t := by
  induction h with
  | nil => intro b hb; simp at hb
  | @snoc v b r hv hb hr ih =>
    intro b' hb'
    rcases List.mem_append.1 hb' with h | h
    · right
      have hp : LabelLt s b.terminal v := parent_label_lt hinv hb
      rcases ih b' h with h1 | h1
      · rw [h1]; exact hp
      · exact h1.trans hp
    · simp at h
      subst h
      exact Or.inl (hinv.entry _ _ hb).1

theorem pathTo_keys_nodup {I : Inst α} {source : Nat} {s : SState α} (hinv : TreeInv I source s)
    {t : Nat} {r : List (Branch α)} (h : PathTo source s.sol t r) :
    (r.map (fun b => I.keyV b.edge)).Nodup := by
  induction h with
  | nil => simp
  | @snoc v b r hv hb hr ih =>
    rw [List.map_append, List.nodup_append]
    refine ⟨ih, by simp, ?_⟩
    intro x hx y hy
    simp at hy
    rw [hy, (hinv.entry _ _ hb).1]
    obtain ⟨b', hb', rfl⟩ := List.mem_map.1 hx
    have hp : LabelLt s b.terminal v := parent_label_lt hinv hb
    rcases pathTo_label hinv hr b' hb' with h1 | h1
    · rw [h1]; exact hp.ne
    · exact (h1.trans hp).ne

theorem pathTo_edges_nodup {I : Inst α} {source : Nat} {s : SState α} (hinv : TreeInv I source s)
    {t : Nat} {r : List (Branch α)} (h : PathTo source s.sol t r) :
    (r.map (·.edge)).Nodup := by
  apply List.Nodup.of_map I.keyV
  rw [List.map_map]
  exact pathTo_keys_nodup hinv h

theorem pathTo_length_le {I : Inst α} {source : Nat} {s : SState α} (hinv : TreeInv I source s)
    {t : Nat} {r : List (Branch α)} (h : PathTo source s.sol t r) : r.length ≤ s.solSize := by
  obtain ⟨keys, _, hklen, hkmem⟩ := hinv.keys
  have hsub : r.map (fun b => I.keyV b.edge) ⊆ keys := by
    intro x hx
    obtain ⟨b, hb, rfl⟩ := List.mem_map.1 hx
    apply (hkmem _).1
    rw [(pathTo_entry hinv h b hb).1]; rfl
  have := ((pathTo_keys_nodup hinv h).subperm hsub).length_le
  simpa [hklen] using this

/-- the summed cost of the path is at most the label of its end (telescoping `gu + c ≤ gv`) -/
theorem pathTo_cost_le {I : Inst α} {source : Nat} {s : SState α} (hinv : TreeInv I source s)
    {t : Nat} {r : List (Branch α)} (h : PathTo source s.sol t r) :
    ∀ gt, s.g t = some gt → (r.map (fun b => b.access + b.traversal)).sum ≤ gt := by
  induction h with
  | nil =>
    intro gt hgt
    rw [hinv.g_source] at hgt
    cases hgt
    simp
  | @snoc v b r hv hb hr ih =>
    intro gt hgt
    obtain ⟨_, _, _, _, ⟨gu, gv, hgu, hgv, hle⟩, _⟩ := hinv.entry v b hb
    rw [hgt] at hgv
    cases hgv
    have := ih gu hgu
    simp only [List.map_append, List.sum_append, List.map_cons, List.map_nil, List.sum_cons,
      List.sum_nil, add_zero]
    linarith

/-- all the facts about a backtracked route -/
structure RouteChain (I : Inst α) (source : Nat) (s : SState α) (t : Nat)
    (route : List (Branch α)) : Prop where
  /-- the route is empty exactly when the target is the source -/
  nil_iff : route = [] ↔ t = source
  /-- the first entry leaves the source -/
  head_terminal : ∀ b, route.head? = some b → b.terminal = source
  /-- the last entry is stored under the target -/
  last_key : ∀ b, route.getLast? = some b → I.keyV b.edge = t
  /-- consecutive entries chain -/
  chain : route.IsChain (fun a b => I.keyV a.edge = b.terminal)
  /-- each entry is expanded from its edge's `termV` end, of which the edge is an incident edge -/
  term_eq : ∀ b ∈ route, I.termV b.edge = b.terminal ∧ b.edge ∈ I.incident b.terminal
  /-- each entry is the tree entry of its key vertex -/
  entry : ∀ b ∈ route, s.sol (I.keyV b.edge) = some b
  /-- no key vertex is the source -/
  key_ne_source : ∀ b ∈ route, I.keyV b.edge ≠ source
  /-- key vertices are pairwise distinct -/
  keys_nodup : (route.map (fun b => I.keyV b.edge)).Nodup
  /-- edge ids are pairwise distinct -/
  edges_nodup : (route.map (·.edge)).Nodup
  /-- the route is no longer than the tree is large -/
  length_le : route.length ≤ s.solSize

theorem pathTo_routeChain {I : Inst α} {source : Nat} {s : SState α} (hinv : TreeInv I source s)
    {t : Nat} {r : List (Branch α)} (h : PathTo source s.sol t r) : RouteChain I source s t r where
  nil_iff := pathTo_nil_iff h
  head_terminal := pathTo_head h
  last_key := pathTo_last hinv h
  chain := pathTo_chain hinv h
  term_eq := by
    intro b hb
    obtain ⟨_, h2, h3, _⟩ := hinv.entry _ b (pathTo_entry hinv h b hb).1
    exact ⟨h2, h3⟩
  entry := fun b hb => (pathTo_entry hinv h b hb).1
  key_ne_source := fun b hb => (pathTo_entry hinv h b hb).2
  keys_nodup := pathTo_keys_nodup hinv h
  edges_nodup := pathTo_edges_nodup hinv h
  length_le := pathTo_length_le hinv h

/-- index form of `RouteChain.chain`, with the `termV` reading of `terminal` -/
theorem RouteChain.chain_getElem {I : Inst α} {source : Nat} {s : SState α} {t : Nat}
    {route : List (Branch α)} (h : RouteChain I source s t route) (i : Nat)
    (hi : i + 1 < route.length) :
    I.keyV route[i].edge = route[i + 1].terminal ∧
    I.keyV route[i].edge = I.termV route[i + 1].edge := by
  have h1 := List.isChain_iff_getElem.1 h.chain i hi
  exact ⟨h1, by rw [(h.term_eq _ (List.getElem_mem hi)).1]; exact h1⟩

/-- `route_chain`: whatever `backtrack` returns on a state satisfying the invariant is a walk
source ⇝ `t` through tree entries -/
theorem route_chain {I : Inst α} {source : Nat} {s : SState α} (hinv : TreeInv I source s)
    {t fuel : Nat} {route : List (Branch α)}
    (h : backtrack source t s.sol fuel = .ok route) : RouteChain I source s t route :=
  pathTo_routeChain hinv (backtrack_sound h)

/-- `route_cost_le_label`: the summed cost of the route is at most the label of `t` -/
theorem route_cost_le_label {I : Inst α} {source : Nat} {s : SState α} (hinv : TreeInv I source s)
    {t fuel : Nat} {route : List (Branch α)} {gt : α}
    (h : backtrack source t s.sol fuel = .ok route) (hgt : s.g t = some gt) :
    (route.map (fun b => b.access + b.traversal)).sum ≤ gt :=
  pathTo_cost_le hinv (backtrack_sound h) gt hgt

/-- a vertex with a tree entry (or the source) is labelled -/
theorem labelled_of_entry {I : Inst α} {source : Nat} {s : SState α} (hinv : TreeInv I source s)
    {t : Nat} (ht : t = source ∨ (s.sol t).isSome) : ∃ gt, s.g t = some gt := by
  rcases ht with rfl | ht
  · exact ⟨0, hinv.g_source⟩
  · obtain ⟨b, hb⟩ := Option.isSome_iff_exists.1 ht
    obtain ⟨_, _, _, _, ⟨_, gv, _, hgv, _⟩, _⟩ := hinv.entry t b hb
    exact ⟨gv, hgv⟩

/-- `backtrack_ok`, `route_chain` and `route_cost_le_label` in one statement -/
theorem backtrack_spec {I : Inst α} {source : Nat} {s : SState α} (hinv : TreeInv I source s)
    {t : Nat} (ht : t = source ∨ (s.sol t).isSome) :
    ∃ route gt, backtrack source t s.sol (s.solSize + 1) = .ok route ∧
      RouteChain I source s t route ∧ s.g t = some gt ∧
      (route.map (fun b => b.access + b.traversal)).sum ≤ gt := by
  obtain ⟨route, hp, hrun⟩ := backtrack_ok hinv ht
  obtain ⟨gt, hgt⟩ := labelled_of_entry hinv ht
  exact ⟨route, gt, hrun, pathTo_routeChain hinv hp, hgt, pathTo_cost_le hinv hp gt hgt⟩

/-! ### Consequences: the tree is rooted at the source -/

/-- the parent map of the tree (identity where there is no entry) -/
def parent (sol : Nat → Option (Branch α)) (v : Nat) : Nat :=
  match sol v with
  | some b => b.terminal
  | none => v

theorem parent_of_entry {sol : Nat → Option (Branch α)} {v : Nat} {b : Branch α}
    (h : sol v = some b) : parent sol v = b.terminal := by
  simp [parent, h]

/-- along a `PathTo` of length `n`: `n` parent steps reach the source, every earlier iterate is a
non-source vertex with an entry, and each step strictly lowers the label -/
theorem pathTo_iterate {I : Inst α} {source : Nat} {s : SState α} (hinv : TreeInv I source s)
    {t : Nat} {r : List (Branch α)} (h : PathTo source s.sol t r) :
    (parent s.sol)^[r.length] t = source ∧
    ∀ i, i < r.length →
      (parent s.sol)^[i] t ≠ source ∧ (s.sol ((parent s.sol)^[i] t)).isSome ∧
      LabelLt s ((parent s.sol)^[i + 1] t) ((parent s.sol)^[i] t) := by
  induction h with
  | nil => exact ⟨rfl, fun i hi => by simp at hi⟩
  | @snoc v b r hv hb hr ih =>
    have hpar : parent s.sol v = b.terminal := parent_of_entry hb
    refine ⟨?_, ?_⟩
    · rw [List.length_append, List.length_singleton, Function.iterate_succ_apply, hpar]
      exact ih.1
    · intro i hi
      rw [List.length_append, List.length_singleton] at hi
      cases i with
      | zero =>
        refine ⟨hv, by simp [hb], ?_⟩
        simp only [Function.iterate_succ_apply, Function.iterate_zero, id_eq, hpar]
        exact parent_label_lt hinv hb
      | succ i =>
        have := ih.2 i (by omega)
        simp only [Function.iterate_succ_apply, hpar] at this ⊢
        exact this

/-- `tree_rooted`: from any vertex with a tree entry, iterating `parent` reaches the source after
`n` steps with `1 ≤ n ≤ solSize`, passing only through non-source vertices with entries, with
strictly decreasing labels and therefore without repeating a vertex -/
theorem tree_rooted {I : Inst α} {source : Nat} {s : SState α} (hinv : TreeInv I source s)
    {v : Nat} (hv : (s.sol v).isSome) :
    ∃ n, 0 < n ∧ n ≤ s.solSize ∧ (parent s.sol)^[n] v = source ∧
      (∀ i, i < n → (parent s.sol)^[i] v ≠ source ∧ (s.sol ((parent s.sol)^[i] v)).isSome) ∧
      (∀ i j, i < j → j ≤ n → LabelLt s ((parent s.sol)^[j] v) ((parent s.sol)^[i] v)) ∧
      (∀ i j, i < j → j ≤ n → (parent s.sol)^[i] v ≠ (parent s.sol)^[j] v) := by
  obtain ⟨r, hp, _⟩ := backtrack_ok hinv (Or.inr hv)
  obtain ⟨h1, h2⟩ := pathTo_iterate hinv hp
  have hvs : v ≠ source := by
    intro h
    rw [h, hinv.sol_source] at hv
    simp at hv
  have hlen : 0 < r.length := by
    rcases Nat.eq_zero_or_pos r.length with h | h
    · exact absurd ((pathTo_nil_iff hp).1 (List.length_eq_zero_iff.1 h)) hvs
    · exact h
  have hlt : ∀ i j, i < j → j ≤ r.length →
      LabelLt s ((parent s.sol)^[j] v) ((parent s.sol)^[i] v) := by
    intro i j hij
    induction j with
    | zero => omega
    | succ j ih =>
      intro hj
      have hstep := (h2 j (by omega)).2.2
      rcases Nat.lt_succ_iff_lt_or_eq.1 hij with h | h
      · exact hstep.trans (ih h (by omega))
      · rw [h]; exact hstep
  refine ⟨r.length, hlen, pathTo_length_le hinv hp, h1,
    fun i hi => ⟨(h2 i hi).1, (h2 i hi).2.1⟩, hlt, ?_⟩
  intro i j hij hj
  exact (hlt i j hij hj).ne.symm

/-! ### `runVertexOriented` -/

/-- with a target other than the source, a successful `run_vertex_oriented` returns a route, the
final state satisfies the invariant, the route is the backtrack of the target's tree entry with all
`RouteChain` facts, and its summed cost is at most the target's label -/
theorem runVertexOriented_route {I : Inst α} (hI : WF I) (source t : Nat) (sched : List Nat)
    (res : SearchResult α) (hts : t ≠ source)
    (h : runVertexOriented I source (some t) sched = .ok res) :
    TreeInv I source res.final ∧ (res.final.sol t).isSome ∧
    ∃ route gt, res.route = some route ∧ route ≠ [] ∧
      RouteChain I source res.final t route ∧ res.final.g t = some gt ∧
      (route.map (fun b => b.access + b.traversal)).sum ≤ gt := by
  unfold runVertexOriented at h
  split at h
  · cases h
  · rename_i s hrun
    rcases runAStar_treeInv' hI source (some t) sched s hrun with h0 | ⟨_, hinv, hent⟩
    · exact absurd (Option.some.inj h0.1) hts
    · have htent : (s.sol t).isSome := hent t rfl
      simp only at h
      split at h
      · cases h
      · rename_i r hr
        cases h
        obtain ⟨gt, hgt⟩ := labelled_of_entry hinv (Or.inr htent)
        have hrc := route_chain hinv hr
        exact ⟨hinv, htent, r, gt, rfl, fun h => hts (hrc.nil_iff.1 h), hrc, hgt,
          route_cost_le_label hinv hr hgt⟩

/-- with a target other than the source, `run_vertex_oriented` fails only where `run_a_star`
fails: the backtrack adds no error of its own -/
theorem runVertexOriented_error {I : Inst α} (hI : WF I) (source t : Nat) (sched : List Nat)
    (k : ErrKind) (hts : t ≠ source)
    (h : runVertexOriented I source (some t) sched = .error k) :
    runAStar I source (some t) sched = .error k := by
  unfold runVertexOriented at h
  split at h
  · rename_i k' hk
    cases h; exact hk
  · rename_i s hrun
    rcases runAStar_treeInv' hI source (some t) sched s hrun with h0 | ⟨_, hinv, hent⟩
    · exact absurd (Option.some.inj h0.1) hts
    · obtain ⟨route, _, hbt⟩ := backtrack_ok hinv (Or.inr (hent t rfl))
      simp only [hbt] at h
      cases h

/-- target = source: the empty result and the empty route -/
theorem runVertexOriented_source (I : Inst α) (source : Nat) (sched : List Nat) :
    ∃ res, runVertexOriented I source (some source) sched = .ok res ∧ res.route = some [] ∧
      res.final.solSize = 0 := by
  simp [runVertexOriented, runAStar, backtrack, backtrackAux]

/-- no target: no route, and the tree satisfies the invariant -/
theorem runVertexOriented_tree {I : Inst α} (hI : WF I) (source : Nat) (sched : List Nat)
    (res : SearchResult α) (h : runVertexOriented I source none sched = .ok res) :
    res.route = none ∧ TreeInv I source res.final := by
  unfold runVertexOriented at h
  split at h
  · cases h
  · rename_i s hrun
    cases h
    rcases runAStar_treeInv hI source none sched s hrun with h0 | hinv
    · cases h0.1
    · exact ⟨rfl, hinv⟩

/-! ### Non-vacuity: a concrete instance over ℚ

Four vertices, six edges with positive costs, among them a parallel pair (0, 1 : 0→1) and a self
loop (2 : 1→1).  The hypotheses `WF` hold, the schedule `[0, 1, 2]` is accepted and
`runVertexOriented` returns the two-edge route `[0, 3]` (cost 3 = label of the target, the direct
edge 4 of cost 5 is replaced when vertex 1 is expanded). -/

namespace Example

/-- edges: 0: 0→1 (1), 1: 0→1 (3, parallel), 2: 1→1 (1, self loop), 3: 1→2 (2), 4: 0→2 (5), 5: 2→3 (1) -/
def src : Nat → Nat
  | 0 => 0 | 1 => 0 | 2 => 1 | 3 => 1 | 4 => 0 | 5 => 2 | _ => 9
def dst : Nat → Nat
  | 0 => 1 | 1 => 1 | 2 => 1 | 3 => 2 | 4 => 2 | 5 => 3 | _ => 9
def cost : Nat → ℚ
  | 0 => 1 | 1 => 3 | 2 => 1 | 3 => 2 | 4 => 5 | 5 => 1 | _ => 1
def out : Nat → List Nat
  | 0 => [0, 1, 4] | 1 => [2, 3] | 2 => [5] | _ => []

def inst : Inst ℚ where
  incident := out
  keyV := dst
  termV := src
  init := []
  valid := fun _ _ _ => .ok true
  trav := fun e _ _ => .ok (0, cost e, [])
  h := fun _ _ => .ok 0
  term := fun _ _ => .ok ()

def routeEdges (r : Except ErrKind (SearchResult ℚ)) : Option (List Nat) :=
  match r with
  | .ok res => res.route.map (·.map (·.edge))
  | .error _ => none

-- #eval routeEdges (runVertexOriented inst 0 (some 2) [0, 1, 2])   -- some [0, 3]

example : routeEdges (runVertexOriented inst 0 (some 2) [0, 1, 2]) = some [0, 3] := by
  decide +kernel

theorem inst_wf : WF inst where
  incident_term := by
    intro v e h
    change e ∈ out v at h
    change src e = v
    unfold out at h
    split at h <;> simp at h
    · rcases h with rfl | rfl | rfl <;> rfl
    · rcases h with rfl | rfl <;> rfl
    · subst h; rfl
  cost_pos := by
    intro e le st ac tc st' h
    simp only [inst, Except.ok.injEq, Prod.mk.injEq] at h
    obtain ⟨rfl, rfl, _⟩ := h
    unfold cost
    split <;> norm_num

def labelOf (r : Except ErrKind (SearchResult ℚ)) (v : Nat) : Option ℚ :=
  match r with
  | .ok res => res.final.g v
  | .error _ => none

def errOf (r : Except ErrKind (SearchResult ℚ)) : Option ErrKind :=
  match r with
  | .ok _ => none
  | .error k => some k

example : labelOf (runVertexOriented inst 0 (some 2) [0, 1, 2]) 2 = some 3 := by decide +kernel
example : errOf (runVertexOriented inst 0 (some 2) [0, 2]) = some .badSchedule := by decide +kernel
example : errOf (runVertexOriented inst 0 (some 3) [0, 1, 2]) = some .scheduleExhausted := by decide +kernel
example : errOf (runVertexOriented inst 3 (some 0) [3]) = some .noPath := by decide +kernel

example : ∃ res route, runVertexOriented inst 0 (some 2) [0, 1, 2] = .ok res ∧
    res.route = some route ∧ route.map (·.edge) = [0, 3] ∧
    RouteChain inst 0 res.final 2 route := by
  cases h : runVertexOriented inst 0 (some 2) [0, 1, 2] with
  | error k =>
    have : routeEdges (runVertexOriented inst 0 (some 2) [0, 1, 2]) = some [0, 3] := by decide +kernel
    rw [h] at this
    simp [routeEdges] at this
  | ok res =>
    have h1 : routeEdges (runVertexOriented inst 0 (some 2) [0, 1, 2]) = some [0, 3] := by decide +kernel
    obtain ⟨_, _, route, gt, hr, _, hrc, _, _⟩ := runVertexOriented_route inst_wf 0 2 [0, 1, 2] res (by decide) h
    rw [h] at h1
    simp [routeEdges, hr] at h1
    exact ⟨res, route, rfl, hr, by simpa using h1, hrc⟩

end Example

end SearchTree
end Compass
