/-
Lemmas for C13 (k-shortest paths, `Model/Ksp.lean`): the single-via loop (`svLoop`) as an
invariant-preserving iteration, what a candidate route is (`svCandidate`, `reorient`,
`routeContainsLoop`), and the comparison of two similarity settings on the same replay.
Everything is for an arbitrary similarity test `sim : List Nat → List Nat → Except ErrKind Bool`.
-/
import Compass.Proofs.SearchRoute
import Compass.Model.Ksp

namespace Compass
namespace Ksp

set_option linter.unusedSectionVars false

variable {α : Type} [Field α] [LinearOrder α] [IsStrictOrderedRing α] [Lit α] [LawfulLit α]

open SearchTree (TreeInv WF RouteChain PathTo)

/-! ### small list facts -/

theorem hasDup_false_iff (l : List Nat) : hasDup l = false ↔ l.Nodup := by
  induction l with
  | nil => simp [hasDup]
  | cons x xs ih =>
    simp only [hasDup, Bool.or_eq_false_iff, List.nodup_cons, ih]
    constructor
    · rintro ⟨h1, h2⟩
      exact ⟨by simpa using h1, h2⟩
    · rintro ⟨h1, h2⟩
      exact ⟨by simpa using h1, h2⟩

theorem sameIds_iff (a b : List (Branch α)) :
    sameIds a b = true ↔ a.map (·.edge) = b.map (·.edge) := by
  simp [sameIds]

theorem sameIds_self (a : List (Branch α)) : sameIds a a = true := by
  simp [sameIds]

/-! ### the similarity scan `rejectedBy` -/

/-- the scan only looks at edge ids of the candidate -/
theorem rejectedBy_congr (sim : List Nat → List Nat → Except ErrKind Bool)
    {this this' : List (Branch α)} (h : this.map (·.edge) = this'.map (·.edge))
    (sol : List (List (Branch α))) : rejectedBy sim this sol = rejectedBy sim this' sol := by
  induction sol with
  | nil => rfl
  | cons s rest ih =>
    have hs : sameIds this' s = sameIds this s := by simp only [sameIds, h]
    rw [rejectedBy, rejectedBy, ← h, hs, ih]

/-- a candidate passes the scan exactly when every accepted route is neither identical in ids nor
similar — and every similarity evaluation succeeded -/
theorem rejectedBy_false_iff (sim : List Nat → List Nat → Except ErrKind Bool)
    (this : List (Branch α)) (sol : List (List (Branch α))) :
    rejectedBy sim this sol = .ok false ↔
      ∀ s ∈ sol, sim (this.map (·.edge)) (s.map (·.edge)) = .ok false ∧ sameIds this s = false := by
  induction sol with
  | nil => simp [rejectedBy]
  | cons s rest ih =>
    simp only [rejectedBy, List.mem_cons, forall_eq_or_imp]
    cases hs : sim (this.map (·.edge)) (s.map (·.edge)) with
    | error k => simp
    | ok too =>
      cases hid : sameIds this s <;> cases too <;> simp [ih]

/-- scanning one more accepted route: an earlier verdict (or error) stands -/
theorem rejectedBy_append (sim : List Nat → List Nat → Except ErrKind Bool)
    (this : List (Branch α)) (sol : List (List (Branch α))) (x : List (Branch α)) :
    rejectedBy sim this (sol ++ [x]) =
      match rejectedBy sim this sol with
      | .error k => .error k
      | .ok true => .ok true
      | .ok false =>
        match sim (this.map (·.edge)) (x.map (·.edge)) with
        | .error k => .error k
        | .ok too => .ok (sameIds this x || too) := by
  induction sol with
  | nil =>
    simp only [List.nil_append, rejectedBy]
    cases sim (this.map (·.edge)) (x.map (·.edge)) with
    | error k => rfl
    | ok too =>
      by_cases hc : (sameIds this x || too) = true
      · simp [hc]
      · simp only [hc, if_false]; simp at hc; simp [hc]
  | cons s rest ih =>
    simp only [List.cons_append, rejectedBy]
    cases sim (this.map (·.edge)) (s.map (·.edge)) with
    | error k => rfl
    | ok too =>
      by_cases hc : (sameIds this s || too) = true
      · simp [hc]
      · simp only [hc, if_false]; exact ih

/-! ### the loop as an invariant-preserving iteration -/

section loop
variable {cf : Config α} {sim : List Nat → List Nat → Except ErrKind Bool} {term : KspTerm}
  {k source target : Nat} {fwd rev : SState α}

/-- whatever holds of the initial solution and is kept by accepting a candidate that came out of
`svCandidate` for a popped intersection vertex, passed the loop test and passed the similarity scan,
holds of the final solution -/
theorem svLoop_invariant (P : List (List (Branch α)) → Prop)
    (hstep : ∀ sol v this, P sol → svCandidate cf source target fwd rev v = .ok this →
      routeContainsLoop cf this = .ok false → rejectedBy sim this sol = .ok false →
      P (sol ++ [this])) :
    ∀ (pops : List Nat) (queue : List (Nat × α)) (sol : List (List (Branch α))) (it : Nat)
      (res : List (List (Branch α)) × Nat), P sol →
      svLoop cf sim term k source target fwd rev pops queue sol it = .ok res → P res.1 := by
  intro pops
  induction pops with
  | nil =>
    intro queue sol it res hP h
    unfold svLoop at h
    split at h
    · cases h; exact hP
    · split at h
      · cases h; exact hP
      · cases h
  | cons v rest ih =>
    intro queue sol it res hP h
    unfold svLoop at h
    split at h
    · cases h; exact hP
    · split at h
      · cases h; exact hP
      · simp only at h
        split at h
        · cases h
        · split at h
          · cases h
          · rename_i this hcand
            split at h
            · cases h
            · rename_i hasLoop hloop
              split at h
              · cases h
              · rename_i rej hrej
                refine ih _ _ _ res ?_ h
                cases hasLoop <;> cases rej <;> simp <;> try exact hP
                exact hstep sol v this hP hcand hloop hrej

/-- the solution only grows -/
theorem svLoop_length_le :
    ∀ (pops : List Nat) (queue : List (Nat × α)) (sol : List (List (Branch α))) (it : Nat)
      (res : List (List (Branch α)) × Nat),
      svLoop cf sim term k source target fwd rev pops queue sol it = .ok res →
      sol.length ≤ res.1.length := by
  intro pops queue sol it res h
  exact svLoop_invariant (cf := cf) (sim := sim) (term := term) (k := k) (source := source)
    (target := target) (fwd := fwd) (rev := rev) (fun s => sol.length ≤ s.length)
    (fun s v this hs _ _ _ => by simp only [List.length_append, List.length_singleton]; omega)
    pops queue sol it res (le_refl _) h

/-- the head of the solution is never replaced -/
theorem svLoop_head (first : List (Branch α)) :
    ∀ (pops : List Nat) (queue : List (Nat × α)) (sol : List (List (Branch α))) (it : Nat)
      (res : List (List (Branch α)) × Nat), sol.head? = some first →
      svLoop cf sim term k source target fwd rev pops queue sol it = .ok res →
      res.1.head? = some first := by
  intro pops queue sol it res h0 h
  exact svLoop_invariant (cf := cf) (sim := sim) (term := term) (k := k) (source := source)
    (target := target) (fwd := fwd) (rev := rev) (fun s => s.head? = some first)
    (fun s v this hs _ _ _ => by
      cases s with
      | nil => simp at hs
      | cons a r => simpa using hs)
    pops queue sol it res h0 h

/-- a popped vertex is a queue entry, so the filtered queue is strictly shorter -/
theorem filter_popped_lt {q : List (Nat × α)} {v : Nat} (h : popOk q v = true) :
    (q.filter (fun p => !(p.1 == v))).length < q.length := by
  obtain ⟨p, hp, hpv⟩ := SearchTree.popOk_mem h
  apply List.length_filter_lt_length_iff_exists.2
  exact ⟨p, hp, by simp [hpv]⟩

/-- **structural termination**: every turn of the loop removes one entry of the intersection queue,
so the number of turns (`ksp_it`) is at most the number of intersection entries -/
theorem svLoop_turns :
    ∀ (pops : List Nat) (queue : List (Nat × α)) (sol : List (List (Branch α))) (it : Nat)
      (res : List (List (Branch α)) × Nat),
      svLoop cf sim term k source target fwd rev pops queue sol it = .ok res →
      it ≤ res.2 ∧ res.2 ≤ it + queue.length := by
  intro pops
  induction pops with
  | nil =>
    intro queue sol it res h
    unfold svLoop at h
    split at h
    · cases h; simp
    · split at h
      · cases h; simp
      · cases h
  | cons v rest ih =>
    intro queue sol it res h
    unfold svLoop at h
    split at h
    · cases h; simp
    · split at h
      · cases h; simp
      · simp only at h
        split at h
        · cases h
        · rename_i hpop
          have hlt := filter_popped_lt (q := queue) (v := v) (by simpa using hpop)
          split at h
          · cases h
          · split at h
            · cases h
            · split at h
              · cases h
              · obtain ⟨h1, h2⟩ := ih _ _ _ res h
                constructor <;> omega

/-- when the loop ends with fewer routes than it may stop at, the queue was exhausted or the
criterion fired: with `Exact` (and every criterion whose side condition holds) a solution never
grows beyond `k` once `1 ≤ k` -/
theorem svLoop_exact_le (hk : 1 ≤ k) :
    ∀ (pops : List Nat) (queue : List (Nat × α)) (sol : List (List (Branch α))) (it : Nat)
      (res : List (List (Branch α)) × Nat), sol.length ≤ k →
      svLoop cf sim .exact k source target fwd rev pops queue sol it = .ok res →
      res.1.length ≤ k := by
  intro pops
  induction pops with
  | nil =>
    intro queue sol it res hl h
    unfold svLoop at h
    split at h
    · cases h; exact hl
    · split at h
      · cases h; exact hl
      · cases h
  | cons v rest ih =>
    intro queue sol it res hl h
    unfold svLoop at h
    split at h
    · cases h; exact hl
    · rename_i hterm
      have hne : sol.length ≠ k := by simpa [KspTerm.terminate] using hterm
      split at h
      · cases h; exact hl
      · simp only at h
        split at h
        · cases h
        · split at h
          · cases h
          · split at h
            · cases h
            · split at h
              · cases h
              · refine ih _ _ _ res ?_ h
                split
                · simp only [List.length_append, List.length_singleton]; omega
                · exact hl

end loop

/-! ### one turn of the loop, inverted -/

section inversion
variable {cf : Config α} {sim : List Nat → List Nat → Except ErrKind Bool} {term : KspTerm}
  {k source target : Nat} {fwd rev : SState α}

/-- a successful loop on an empty replay stopped at once -/
theorem svLoop_nil_ok {queue : List (Nat × α)} {sol : List (List (Branch α))} {it : Nat}
    {res : List (List (Branch α)) × Nat}
    (h : svLoop cf sim term k source target fwd rev [] queue sol it = .ok res) :
    res = (sol, it) ∧ (term.terminate k sol.length = true ∨ queue.isEmpty = true) := by
  unfold svLoop at h
  split at h
  · rename_i ht; cases h; exact ⟨rfl, Or.inl ht⟩
  · split at h
    · rename_i hq; cases h; exact ⟨rfl, Or.inr hq⟩
    · cases h

/-- a successful loop whose replay starts with `v`: it stopped at once (criterion or empty queue),
or it popped `v`, built the candidate, tested it, and went on -/
theorem svLoop_cons_ok {v : Nat} {rest : List Nat} {queue : List (Nat × α)}
    {sol : List (List (Branch α))} {it : Nat} {res : List (List (Branch α)) × Nat}
    (h : svLoop cf sim term k source target fwd rev (v :: rest) queue sol it = .ok res) :
    (term.terminate k sol.length = true ∧ res = (sol, it)) ∨
    (term.terminate k sol.length = false ∧ queue.isEmpty = true ∧ res = (sol, it)) ∨
    (term.terminate k sol.length = false ∧ queue.isEmpty = false ∧ popOk queue v = true ∧
      ∃ this hasLoop rej, svCandidate cf source target fwd rev v = .ok this ∧
        routeContainsLoop cf this = .ok hasLoop ∧ rejectedBy sim this sol = .ok rej ∧
        svLoop cf sim term k source target fwd rev rest (queue.filter (fun p => !(p.1 == v)))
          (if !hasLoop && !rej then sol ++ [this] else sol) (it + 1) = .ok res) := by
  unfold svLoop at h
  split at h
  · rename_i ht; cases h; exact Or.inl ⟨ht, rfl⟩
  · rename_i ht
    have ht' : term.terminate k sol.length = false := by simpa using ht
    split at h
    · rename_i hq; cases h; exact Or.inr (Or.inl ⟨ht', hq, rfl⟩)
    · rename_i hq
      have hq' : queue.isEmpty = false := by simpa using hq
      simp only at h
      split at h
      · cases h
      · rename_i hpop
        have hpop' : popOk queue v = true := by simpa using hpop
        split at h
        · cases h
        · rename_i this hcand
          split at h
          · cases h
          · rename_i hasLoop hloop
            split at h
            · cases h
            · rename_i rej hrej
              exact Or.inr (Or.inr ⟨ht', hq', hpop', this, hasLoop, rej, hcand, hloop, hrej, h⟩)

end inversion

/-! ### `AcceptAll` against any similarity test, on the same replay -/

/-- the similarity test of `AcceptAll`: never similar, never an error -/
def simAcceptAll : List Nat → List Nat → Except ErrKind Bool := fun _ _ => .ok false

/-- under `AcceptAll` the scan rejects exactly for an identical id sequence -/
theorem rejectedBy_acceptAll (this : List (Branch α)) (sol : List (List (Branch α))) :
    rejectedBy simAcceptAll this sol = .ok (sol.any (fun s => sameIds this s)) := by
  induction sol with
  | nil => rfl
  | cons s rest ih =>
    simp only [rejectedBy, simAcceptAll, Bool.or_false, List.any_cons]
    by_cases hc : sameIds this s = true
    · simp [hc]
    · have hc' : sameIds this s = false := by simpa using hc
      simp only [hc', Bool.false_eq_true, if_false, Bool.false_or]
      exact ih

/-- what links the two runs: every route accepted under `AcceptAll` is one the other setting
rejects from now on (if its scan does not fail) — because it accepted it, or rejected it earlier -/
def Covered (simT : List Nat → List Nat → Except ErrKind Bool)
    (solA solT : List (List (Branch α))) : Prop :=
  ∀ s ∈ solA, ∀ r, rejectedBy simT s solT = .ok r → r = true

theorem covered_init (simT : List Nat → List Nat → Except ErrKind Bool) (tsp : List (Branch α)) :
    Covered simT [tsp] [tsp] := by
  intro s hs r hr
  simp only [List.mem_singleton] at hs
  subst hs
  simp only [rejectedBy, sameIds_self, Bool.true_or, if_true] at hr
  split at hr
  · cases hr
  · cases hr; rfl

theorem covered_keep {simT : List Nat → List Nat → Except ErrKind Bool}
    {solA solT : List (List (Branch α))} (h : Covered simT solA solT) (x : List (Branch α)) :
    Covered simT solA (solT ++ [x]) := by
  intro s hs r hr
  rw [rejectedBy_append] at hr
  split at hr
  · cases hr
  · cases hr; rfl
  · rename_i hfalse
    exact absurd (h s hs false hfalse) (by simp)

theorem covered_self {simT : List Nat → List Nat → Except ErrKind Bool}
    {solT : List (List (Branch α))} {this : List (Branch α)}
    (hacc : rejectedBy simT this solT = .ok false) :
    ∀ r, rejectedBy simT this (solT ++ [this]) = .ok r → r = true := by
  intro r hr
  rw [rejectedBy_append, hacc] at hr
  simp only [sameIds_self, Bool.true_or] at hr
  split at hr
  · cases hr
  · cases hr; rfl

theorem take_length_mono {β : Type} (k : Nat) {a b : List β} (h : a.length ≤ b.length) :
    (a.take k).length ≤ (b.take k).length := by
  simp only [List.length_take]; omega

theorem terminate_length {term : KspTerm} {k n : Nat} (h : term.terminate k n = true) : n = k := by
  cases term <;> simp [KspTerm.terminate] at h <;> first | exact h | exact h.1

section compare
variable {cf : Config α} {simT : List Nat → List Nat → Except ErrKind Bool} {term : KspTerm}
  {k source target : Nat} {fwd rev : SState α}

/-- **`AcceptAll` returns at least as many routes**: replaying the same pop sequence from the same
queue, the run under `AcceptAll` ends with at least as many routes (after `take(k)`) as the run
under any similarity test, whatever the termination criterion and `k` -/
theorem svLoop_acceptAll_ge :
    ∀ (pops : List Nat) (queue : List (Nat × α)) (solA solT : List (List (Branch α)))
      (itA itT : Nat) (resA resT : List (List (Branch α)) × Nat),
      Covered simT solA solT → solT.length ≤ solA.length →
      svLoop cf simAcceptAll term k source target fwd rev pops queue solA itA = .ok resA →
      svLoop cf simT term k source target fwd rev pops queue solT itT = .ok resT →
      (resT.1.take k).length ≤ (resA.1.take k).length := by
  intro pops
  induction pops with
  | nil =>
    intro queue solA solT itA itT resA resT hcov hlen hA hT
    obtain ⟨rA, hA'⟩ := svLoop_nil_ok hA
    obtain ⟨rT, hT'⟩ := svLoop_nil_ok hT
    subst rA; subst rT
    exact take_length_mono k hlen
  | cons v rest ih =>
    intro queue solA solT itA itT resA resT hcov hlen hA hT
    have hgrowA := svLoop_length_le _ _ _ _ _ hA
    rcases svLoop_cons_ok hA with ⟨htA, rA⟩ | ⟨htA, hqA, rA⟩ | ⟨htA, hqA, hpA, this, hasLoop, rejA, hcA, hlA, hrA, hA'⟩
    · -- AcceptAll stopped at k routes
      subst rA
      have hk := terminate_length htA
      simp only [List.length_take]
      omega
    · -- the queue is empty for both
      subst rA
      rcases svLoop_cons_ok hT with ⟨_, rT⟩ | ⟨_, _, rT⟩ | ⟨_, hqT, _⟩
      · subst rT; exact take_length_mono k hlen
      · subst rT; exact take_length_mono k hlen
      · rw [hqA] at hqT; cases hqT
    · rcases svLoop_cons_ok hT with ⟨htT, rT⟩ | ⟨_, hqT, _⟩ | ⟨htT, hqT, hpT, this', hasLoop', rejT, hcT, hlT, hrT, hT'⟩
      · -- the other run stopped at k routes: AcceptAll already has at least k and only grows
        subst rT
        have hk := terminate_length htT
        simp only [List.length_take]
        omega
      · rw [hqA] at hqT; cases hqT
      · -- both pop `v` and build the same candidate
        rw [hcA] at hcT; cases hcT
        rw [hlA] at hlT; cases hlT
        rw [rejectedBy_acceptAll] at hrA
        cases hrA
        cases hasLoop with
        | true => exact ih _ _ _ _ _ _ _ hcov hlen hA' hT'
        | false =>
          cases rejT with
          | true =>
            -- rejected by the other setting: AcceptAll may or may not keep it
            refine ih _ _ _ _ _ _ _ ?_ ?_ hA' hT'
            · intro s hs r hr
              simp only [Bool.not_false, Bool.true_and, Bool.not_true, Bool.and_false,
                Bool.false_eq_true, if_false] at hr
              split at hs
              · rcases List.mem_append.1 hs with hs | hs
                · exact hcov s hs r hr
                · simp only [List.mem_singleton] at hs
                  subst hs
                  rw [hrT] at hr; cases hr; rfl
              · exact hcov s hs r hr
            · simp only [Bool.not_false, Bool.true_and, Bool.not_true, Bool.and_false,
                Bool.false_eq_true, if_false]
              split
              · simp only [List.length_append, List.length_singleton]; omega
              · exact hlen
          | false =>
            -- accepted by the other setting: AcceptAll cannot hold an identical route
            have hnotA : (solA.any fun s => sameIds this s) = false := by
              by_contra hne
              have hany : (solA.any fun s => sameIds this s) = true := by simpa using hne
              obtain ⟨s, hs, hid⟩ := List.any_eq_true.1 hany
              have hids := (sameIds_iff this s).1 hid
              have := hcov s hs false (by rw [← rejectedBy_congr simT hids]; exact hrT)
              cases this
            simp only [hnotA, Bool.not_false, Bool.and_self, if_true] at hA' hT'
            refine ih _ _ _ _ _ _ _ ?_ ?_ hA' hT'
            · intro s hs r hr
              rcases List.mem_append.1 hs with hs | hs
              · exact covered_keep hcov this s hs r hr
              · simp only [List.mem_singleton] at hs
                subst hs
                exact covered_self hrT r hr
            · simp only [List.length_append, List.length_singleton]; omega

end compare

end Ksp
end Compass
