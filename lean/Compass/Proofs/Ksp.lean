/-
Lemmas for C13 (k-shortest paths, `Model/Ksp.lean`): the single-via loop (`svLoop`) as an
invariant-preserving iteration, what a candidate route is (`svCandidate`, `reorient`,
`routeContainsLoop`), and the comparison of two similarity settings on the same replay.
Everything is for an arbitrary similarity test `sim : List Nat → List Nat → Except ErrKind Bool`.
-/
import Compass.Proofs.SearchRoute
import Compass.Proofs.SearchDiscipline
import Compass.Proofs.SearchLimits
import Compass.Proofs.ConfigUniform
import Compass.Model.Ksp

namespace Compass
namespace Ksp

set_option linter.unusedSectionVars false

variable {α : Type} [Field α] [LinearOrder α] [IsStrictOrderedRing α] [Lit α] [LawfulLit α]

open SearchTree (TreeInv WF RouteChain PathTo)

/-! ### small list facts -/

theorem hasDup_false_iff (l : List Nat) : hasDup l = false ↔ l.Nodup := by
  induction l with
  | nil => simp [hasDup]
  | cons x xs ih =>
    simp only [hasDup, Bool.or_eq_false_iff, List.nodup_cons, ih]
    constructor
    · rintro ⟨h1, h2⟩
      exact ⟨by simpa using h1, h2⟩
    · rintro ⟨h1, h2⟩
      exact ⟨by simpa using h1, h2⟩

theorem sameIds_iff (a b : List (Branch α)) :
    sameIds a b = true ↔ a.map (·.edge) = b.map (·.edge) := by
  simp [sameIds]

theorem sameIds_self (a : List (Branch α)) : sameIds a a = true := by
  simp [sameIds]

/-! ### the similarity scan `rejectedBy` -/

/-- the scan only looks at edge ids of the candidate -/
theorem rejectedBy_congr (sim : List Nat → List Nat → Except ErrKind Bool)
    {this this' : List (Branch α)} (h : this.map (·.edge) = this'.map (·.edge))
    (sol : List (List (Branch α))) : rejectedBy sim this sol = rejectedBy sim this' sol := by
  induction sol with
  | nil => rfl
  | cons s rest ih =>
    have hs : sameIds this' s = sameIds this s := by simp only [sameIds, h]
    rw [rejectedBy, rejectedBy, ← h, hs, ih]

/-- a candidate passes the scan exactly when every accepted route is neither identical in ids nor
similar — and every similarity evaluation succeeded -/
theorem rejectedBy_false_iff (sim : List Nat → List Nat → Except ErrKind Bool)
    (this : List (Branch α)) (sol : List (List (Branch α))) :
    rejectedBy sim this sol = .ok false ↔
      ∀ s ∈ sol, sim (this.map (·.edge)) (s.map (·.edge)) = .ok false ∧ sameIds this s = false := by
  induction sol with
  | nil => simp [rejectedBy]
  | cons s rest ih =>
    simp only [rejectedBy, List.mem_cons, forall_eq_or_imp]
    cases hs : sim (this.map (·.edge)) (s.map (·.edge)) with
    | error k => simp
    | ok too =>
      cases hid : sameIds this s <;> cases too <;> simp [ih]

/-- scanning one more accepted route: an earlier verdict (or error) stands -/
theorem rejectedBy_append (sim : List Nat → List Nat → Except ErrKind Bool)
    (this : List (Branch α)) (sol : List (List (Branch α))) (x : List (Branch α)) :
    rejectedBy sim this (sol ++ [x]) =
      match rejectedBy sim this sol with
      | .error k => .error k
      | .ok true => .ok true
      | .ok false =>
        match sim (this.map (·.edge)) (x.map (·.edge)) with
        | .error k => .error k
        | .ok too => .ok (sameIds this x || too) := by
  induction sol with
  | nil =>
    simp only [List.nil_append, rejectedBy]
    cases sim (this.map (·.edge)) (x.map (·.edge)) with
    | error k => rfl
    | ok too =>
      by_cases hc : (sameIds this x || too) = true
      · simp [hc]
      · simp only [hc, if_false]; simp at hc; simp [hc]
  | cons s rest ih =>
    simp only [List.cons_append, rejectedBy]
    cases sim (this.map (·.edge)) (s.map (·.edge)) with
    | error k => rfl
    | ok too =>
      by_cases hc : (sameIds this s || too) = true
      · simp [hc]
      · simp only [hc, if_false]; exact ih

/-! ### one turn of the loop, inverted -/

section inversion
variable {cf : Config α} {sim : List Nat → List Nat → Except ErrKind Bool} {term : KspTerm}
  {k source target : Nat} {fwd rev : SState α}

/-- a successful loop on an empty replay stopped at once -/
theorem svLoop_nil_ok {queue : List (Nat × α)} {sol : List (List (Branch α))} {it : Nat}
    {res : List (List (Branch α)) × Nat}
    (h : svLoop cf sim term k source target fwd rev [] queue sol it = .ok res) :
    res = (sol, it) ∧ (term.terminate k sol.length = true ∨ queue.isEmpty = true) := by
  unfold svLoop at h
  split at h
  · rename_i ht; cases h; exact ⟨rfl, Or.inl ht⟩
  · split at h
    · rename_i hq; cases h; exact ⟨rfl, Or.inr hq⟩
    · cases h

/-- the solution after a turn that produced the candidate `this` -/
def afterTurn (cf : Config α) (sol : List (List (Branch α))) (this : List (Branch α))
    (hasLoop rej : Bool) : List (List (Branch α)) :=
  if !hasLoop && routePermitted cf this (initialState cf.feats) none && !rej then sol ++ [this]
  else sol

/-- a successful loop whose replay starts with `v`: it stopped at once (criterion or empty queue),
or it popped `v` and either dropped the candidate (its re-traversal failed) or built it, tested it,
and went on -/
theorem svLoop_cons_ok {v : Nat} {rest : List Nat} {queue : List (Nat × α)}
    {sol : List (List (Branch α))} {it : Nat} {res : List (List (Branch α)) × Nat}
    (h : svLoop cf sim term k source target fwd rev (v :: rest) queue sol it = .ok res) :
    (term.terminate k sol.length = true ∧ res = (sol, it)) ∨
    (term.terminate k sol.length = false ∧ queue.isEmpty = true ∧ res = (sol, it)) ∨
    (term.terminate k sol.length = false ∧ queue.isEmpty = false ∧ popOk queue v = true ∧
      svCandidate cf source target fwd rev v = .ok none ∧
      svLoop cf sim term k source target fwd rev rest (queue.filter (fun p => !(p.1 == v)))
        sol (it + 1) = .ok res) ∨
    (term.terminate k sol.length = false ∧ queue.isEmpty = false ∧ popOk queue v = true ∧
      ∃ this hasLoop rej, svCandidate cf source target fwd rev v = .ok (some this) ∧
        routeContainsLoop cf this = .ok hasLoop ∧ rejectedBy sim this sol = .ok rej ∧
        svLoop cf sim term k source target fwd rev rest (queue.filter (fun p => !(p.1 == v)))
          (afterTurn cf sol this hasLoop rej) (it + 1) = .ok res) := by
  unfold svLoop at h
  split at h
  · rename_i ht; cases h; exact Or.inl ⟨ht, rfl⟩
  · rename_i ht
    have ht' : term.terminate k sol.length = false := by simpa using ht
    split at h
    · rename_i hq; cases h; exact Or.inr (Or.inl ⟨ht', hq, rfl⟩)
    · rename_i hq
      have hq' : queue.isEmpty = false := by simpa using hq
      simp only at h
      split at h
      · cases h
      · rename_i hpop
        have hpop' : popOk queue v = true := by simpa using hpop
        split at h
        · cases h
        · rename_i hcand
          exact Or.inr (Or.inr (Or.inl ⟨ht', hq', hpop', hcand, h⟩))
        · rename_i this hcand
          split at h
          · cases h
          · rename_i hasLoop hloop
            split at h
            · cases h
            · rename_i rej hrej
              exact Or.inr (Or.inr (Or.inr
                ⟨ht', hq', hpop', this, hasLoop, rej, hcand, hloop, hrej, h⟩))

/-- `afterTurn` either appends the candidate — then it passed the loop test, the frontier
validation and the scan — or leaves the solution alone -/
theorem afterTurn_cases (cf : Config α) (sol : List (List (Branch α))) (this : List (Branch α))
    (hasLoop rej : Bool) :
    (afterTurn cf sol this hasLoop rej = sol ++ [this] ∧ hasLoop = false ∧
      routePermitted cf this (initialState cf.feats) none = true ∧ rej = false) ∨
    afterTurn cf sol this hasLoop rej = sol := by
  unfold afterTurn
  split
  · rename_i h
    simp only [Bool.and_eq_true, Bool.not_eq_eq_eq_not, Bool.not_true] at h
    exact Or.inl ⟨rfl, h.1.1, h.1.2, h.2⟩
  · exact Or.inr rfl

end inversion

/-! ### the loop as an invariant-preserving iteration -/

section loop
variable {cf : Config α} {sim : List Nat → List Nat → Except ErrKind Bool} {term : KspTerm}
  {k source target : Nat} {fwd rev : SState α}

/-- whatever holds of the initial solution and is kept by accepting a candidate that came out of
`svCandidate` for a popped vertex of the queue the loop started from, passed the loop test, passed
the frontier validation and passed the similarity scan, holds of the final solution -/
theorem svLoop_invariant_mem (P : List (List (Branch α)) → Prop) (Q : Nat → Prop)
    (hstep : ∀ sol v this, P sol → Q v → svCandidate cf source target fwd rev v = .ok (some this) →
      routeContainsLoop cf this = .ok false →
      routePermitted cf this (initialState cf.feats) none = true →
      rejectedBy sim this sol = .ok false → P (sol ++ [this])) :
    ∀ (pops : List Nat) (queue : List (Nat × α)) (sol : List (List (Branch α))) (it : Nat)
      (res : List (List (Branch α)) × Nat), (∀ p ∈ queue, Q p.1) → P sol →
      svLoop cf sim term k source target fwd rev pops queue sol it = .ok res → P res.1 := by
  intro pops
  induction pops with
  | nil =>
    intro queue sol it res _ hP h
    obtain ⟨rfl, _⟩ := svLoop_nil_ok h
    exact hP
  | cons v rest ih =>
    intro queue sol it res hq hP h
    have hq' : ∀ p ∈ queue.filter (fun p => !(p.1 == v)), Q p.1 :=
      fun p hp => hq p (List.mem_filter.1 hp).1
    rcases svLoop_cons_ok h with ⟨_, rfl⟩ | ⟨_, _, rfl⟩ | ⟨_, _, _, _, h'⟩ |
      ⟨_, _, hpop, this, hasLoop, rej, hc, hl, hr, h'⟩
    · exact hP
    · exact hP
    · exact ih _ _ _ res hq' hP h'
    · obtain ⟨p, hp, hpv⟩ := SearchTree.popOk_mem hpop
      have hQv : Q v := hpv ▸ hq p hp
      refine ih _ _ _ res hq' ?_ h'
      rcases afterTurn_cases cf sol this hasLoop rej with ⟨e, h1, h2, h3⟩ | e
      · rw [e]; subst h1; subst h3
        exact hstep sol v this hP hQv hc hl h2 hr
      · rw [e]; exact hP

/-- the same without the queue knowledge -/
theorem svLoop_invariant (P : List (List (Branch α)) → Prop)
    (hstep : ∀ sol v this, P sol → svCandidate cf source target fwd rev v = .ok (some this) →
      routeContainsLoop cf this = .ok false →
      routePermitted cf this (initialState cf.feats) none = true →
      rejectedBy sim this sol = .ok false → P (sol ++ [this])) :
    ∀ (pops : List Nat) (queue : List (Nat × α)) (sol : List (List (Branch α))) (it : Nat)
      (res : List (List (Branch α)) × Nat), P sol →
      svLoop cf sim term k source target fwd rev pops queue sol it = .ok res → P res.1 :=
  fun pops queue sol it res hP h =>
    svLoop_invariant_mem P (fun _ => True) (fun sol v this hs _ => hstep sol v this hs)
      pops queue sol it res (fun _ _ => trivial) hP h

/-- the solution only grows -/
theorem svLoop_length_le :
    ∀ (pops : List Nat) (queue : List (Nat × α)) (sol : List (List (Branch α))) (it : Nat)
      (res : List (List (Branch α)) × Nat),
      svLoop cf sim term k source target fwd rev pops queue sol it = .ok res →
      sol.length ≤ res.1.length := by
  intro pops queue sol it res h
  exact svLoop_invariant (cf := cf) (sim := sim) (term := term) (k := k) (source := source)
    (target := target) (fwd := fwd) (rev := rev) (fun s => sol.length ≤ s.length)
    (fun s v this hs _ _ _ _ => by simp only [List.length_append, List.length_singleton]; omega)
    pops queue sol it res (le_refl _) h

/-- the head of the solution is never replaced -/
theorem svLoop_head (first : List (Branch α)) :
    ∀ (pops : List Nat) (queue : List (Nat × α)) (sol : List (List (Branch α))) (it : Nat)
      (res : List (List (Branch α)) × Nat), sol.head? = some first →
      svLoop cf sim term k source target fwd rev pops queue sol it = .ok res →
      res.1.head? = some first := by
  intro pops queue sol it res h0 h
  exact svLoop_invariant (cf := cf) (sim := sim) (term := term) (k := k) (source := source)
    (target := target) (fwd := fwd) (rev := rev) (fun s => s.head? = some first)
    (fun s v this hs _ _ _ _ => by
      cases s with
      | nil => simp at hs
      | cons a r => simpa using hs)
    pops queue sol it res h0 h

/-- every route of the solution the loop was entered with is still there at the end -/
theorem svLoop_subset :
    ∀ (pops : List Nat) (queue : List (Nat × α)) (sol : List (List (Branch α))) (it : Nat)
      (res : List (List (Branch α)) × Nat),
      svLoop cf sim term k source target fwd rev pops queue sol it = .ok res →
      ∀ x ∈ sol, x ∈ res.1 := by
  intro pops queue sol it res h
  exact svLoop_invariant (cf := cf) (sim := sim) (term := term) (k := k) (source := source)
    (target := target) (fwd := fwd) (rev := rev) (fun s => ∀ x ∈ sol, x ∈ s)
    (fun s v this hs _ _ _ _ x hx => List.mem_append_left _ (hs x hx))
    pops queue sol it res (fun x hx => hx) h

/-- a popped vertex is a queue entry, so the filtered queue is strictly shorter -/
theorem filter_popped_lt {q : List (Nat × α)} {v : Nat} (h : popOk q v = true) :
    (q.filter (fun p => !(p.1 == v))).length < q.length := by
  obtain ⟨p, hp, hpv⟩ := SearchTree.popOk_mem h
  apply List.length_filter_lt_length_iff_exists.2
  exact ⟨p, hp, by simp [hpv]⟩

/-- **structural termination**: every turn of the loop — a dropped candidate included — removes
one entry of the intersection queue, so the number of turns (`ksp_it`) is at most the number of
intersection entries -/
theorem svLoop_turns :
    ∀ (pops : List Nat) (queue : List (Nat × α)) (sol : List (List (Branch α))) (it : Nat)
      (res : List (List (Branch α)) × Nat),
      svLoop cf sim term k source target fwd rev pops queue sol it = .ok res →
      it ≤ res.2 ∧ res.2 ≤ it + queue.length := by
  intro pops
  induction pops with
  | nil =>
    intro queue sol it res h
    obtain ⟨rfl, _⟩ := svLoop_nil_ok h
    simp
  | cons v rest ih =>
    intro queue sol it res h
    rcases svLoop_cons_ok h with ⟨_, rfl⟩ | ⟨_, _, rfl⟩ | ⟨_, _, hpop, _, h'⟩ |
      ⟨_, _, hpop, this, hasLoop, rej, _, _, _, h'⟩
    · simp
    · simp
    · have hlt := filter_popped_lt hpop
      obtain ⟨h1, h2⟩ := ih _ _ _ res h'
      constructor <;> omega
    · have hlt := filter_popped_lt hpop
      obtain ⟨h1, h2⟩ := ih _ _ _ res h'
      constructor <;> omega

/-- with `Exact` a solution never grows beyond `k` once `1 ≤ k` -/
theorem svLoop_exact_le (hk : 1 ≤ k) :
    ∀ (pops : List Nat) (queue : List (Nat × α)) (sol : List (List (Branch α))) (it : Nat)
      (res : List (List (Branch α)) × Nat), sol.length ≤ k →
      svLoop cf sim .exact k source target fwd rev pops queue sol it = .ok res →
      res.1.length ≤ k := by
  intro pops
  induction pops with
  | nil =>
    intro queue sol it res hl h
    obtain ⟨rfl, _⟩ := svLoop_nil_ok h
    exact hl
  | cons v rest ih =>
    intro queue sol it res hl h
    rcases svLoop_cons_ok h with ⟨_, rfl⟩ | ⟨_, _, rfl⟩ | ⟨_, _, _, _, h'⟩ |
      ⟨hterm, _, _, this, hasLoop, rej, _, _, _, h'⟩
    · exact hl
    · exact hl
    · exact ih _ _ _ res hl h'
    · have hne : sol.length ≠ k := by simpa [KspTerm.terminate] using hterm
      refine ih _ _ _ res ?_ h'
      rcases afterTurn_cases cf sol this hasLoop rej with ⟨e, _⟩ | e
      · rw [e]; simp only [List.length_append, List.length_singleton]; omega
      · rw [e]; exact hl

end loop

/-! ### `AcceptAll` against any similarity test, on the same replay -/

/-- the similarity test of `AcceptAll`: never similar, never an error -/
def simAcceptAll : List Nat → List Nat → Except ErrKind Bool := fun _ _ => .ok false

/-- under `AcceptAll` the scan rejects exactly for an identical id sequence -/
theorem rejectedBy_acceptAll (this : List (Branch α)) (sol : List (List (Branch α))) :
    rejectedBy simAcceptAll this sol = .ok (sol.any (fun s => sameIds this s)) := by
  induction sol with
  | nil => rfl
  | cons s rest ih =>
    simp only [rejectedBy, simAcceptAll, Bool.or_false, List.any_cons]
    by_cases hc : sameIds this s = true
    · simp [hc]
    · have hc' : sameIds this s = false := by simpa using hc
      simp only [hc', Bool.false_eq_true, if_false, Bool.false_or]
      exact ih

/-- what links the two runs: every route accepted under `AcceptAll` is one the other setting
rejects from now on (if its scan does not fail) — because it accepted it, or rejected it earlier -/
def Covered (simT : List Nat → List Nat → Except ErrKind Bool)
    (solA solT : List (List (Branch α))) : Prop :=
  ∀ s ∈ solA, ∀ r, rejectedBy simT s solT = .ok r → r = true

theorem covered_init (simT : List Nat → List Nat → Except ErrKind Bool) (tsp : List (Branch α)) :
    Covered simT [tsp] [tsp] := by
  intro s hs r hr
  simp only [List.mem_singleton] at hs
  subst hs
  simp only [rejectedBy, sameIds_self, Bool.true_or, if_true] at hr
  split at hr
  · cases hr
  · cases hr; rfl

theorem covered_keep {simT : List Nat → List Nat → Except ErrKind Bool}
    {solA solT : List (List (Branch α))} (h : Covered simT solA solT) (x : List (Branch α)) :
    Covered simT solA (solT ++ [x]) := by
  intro s hs r hr
  rw [rejectedBy_append] at hr
  split at hr
  · cases hr
  · cases hr; rfl
  · rename_i hfalse
    exact absurd (h s hs false hfalse) (by simp)

theorem covered_self {simT : List Nat → List Nat → Except ErrKind Bool}
    {solT : List (List (Branch α))} {this : List (Branch α)}
    (hacc : rejectedBy simT this solT = .ok false) :
    ∀ r, rejectedBy simT this (solT ++ [this]) = .ok r → r = true := by
  intro r hr
  rw [rejectedBy_append, hacc] at hr
  simp only [sameIds_self, Bool.true_or] at hr
  split at hr
  · cases hr
  · cases hr; rfl

theorem take_length_mono {β : Type} (k : Nat) {a b : List β} (h : a.length ≤ b.length) :
    (a.take k).length ≤ (b.take k).length := by
  simp only [List.length_take]; omega

theorem terminate_length {term : KspTerm} {k n : Nat} (h : term.terminate k n = true) : n = k := by
  cases term <;> simp [KspTerm.terminate] at h <;> first | exact h | exact h.1

section compare
variable {cf : Config α} {simT : List Nat → List Nat → Except ErrKind Bool} {term : KspTerm}
  {k source target : Nat} {fwd rev : SState α}

/-- **`AcceptAll` returns at least as many routes**: replaying the same pop sequence from the same
queue, the run under `AcceptAll` ends with at least as many routes (after `take(k)`) as the run
under any similarity test, whatever the termination criterion and `k` -/
theorem svLoop_acceptAll_ge :
    ∀ (pops : List Nat) (queue : List (Nat × α)) (solA solT : List (List (Branch α)))
      (itA itT : Nat) (resA resT : List (List (Branch α)) × Nat),
      Covered simT solA solT → solT.length ≤ solA.length →
      svLoop cf simAcceptAll term k source target fwd rev pops queue solA itA = .ok resA →
      svLoop cf simT term k source target fwd rev pops queue solT itT = .ok resT →
      (resT.1.take k).length ≤ (resA.1.take k).length := by
  intro pops
  induction pops with
  | nil =>
    intro queue solA solT itA itT resA resT hcov hlen hA hT
    obtain ⟨rA, hA'⟩ := svLoop_nil_ok hA
    obtain ⟨rT, hT'⟩ := svLoop_nil_ok hT
    subst rA; subst rT
    exact take_length_mono k hlen
  | cons v rest ih =>
    intro queue solA solT itA itT resA resT hcov hlen hA hT
    have hgrowA := svLoop_length_le _ _ _ _ _ hA
    rcases svLoop_cons_ok hA with ⟨htA, rA⟩ | ⟨htA, hqA, rA⟩ | ⟨htA, hqA, hpA, hcA, hA'⟩ |
      ⟨htA, hqA, hpA, this, hasLoop, rejA, hcA, hlA, hrA, hA'⟩
    · -- AcceptAll stopped at k routes
      subst rA
      have hk := terminate_length htA
      simp only [List.length_take]
      omega
    · -- the queue is empty for both
      subst rA
      rcases svLoop_cons_ok hT with ⟨_, rT⟩ | ⟨_, _, rT⟩ | ⟨_, hqT, _⟩ | ⟨_, hqT, _⟩
      · subst rT; exact take_length_mono k hlen
      · subst rT; exact take_length_mono k hlen
      · rw [hqA] at hqT; cases hqT
      · rw [hqA] at hqT; cases hqT
    · -- the candidate is dropped, in both runs
      rcases svLoop_cons_ok hT with ⟨htT, rT⟩ | ⟨_, hqT, _⟩ | ⟨_, _, _, _, hT'⟩ |
        ⟨_, _, _, this', _, _, hcT, _⟩
      · subst rT
        have hk := terminate_length htT
        simp only [List.length_take]
        omega
      · rw [hqA] at hqT; cases hqT
      · exact ih _ _ _ _ _ _ _ hcov hlen hA' hT'
      · rw [hcA] at hcT; cases hcT
    · rcases svLoop_cons_ok hT with ⟨htT, rT⟩ | ⟨_, hqT, _⟩ | ⟨_, _, _, hcT, _⟩ |
        ⟨htT, hqT, hpT, this', hasLoop', rejT, hcT, hlT, hrT, hT'⟩
      · -- the other run stopped at k routes: AcceptAll already has at least k and only grows
        subst rT
        have hk := terminate_length htT
        simp only [List.length_take]
        omega
      · rw [hqA] at hqT; cases hqT
      · rw [hcA] at hcT; cases hcT
      · -- both pop `v` and build the same candidate
        rw [hcA] at hcT; cases hcT
        rw [hlA] at hlT; cases hlT
        rw [rejectedBy_acceptAll] at hrA
        cases hrA
        rcases afterTurn_cases cf solT this hasLoop rejT with ⟨eT, h1, h2, h3⟩ | eT
        · -- accepted by the other setting: AcceptAll cannot hold an identical route
          subst h1; subst h3
          have hnotA : (solA.any fun s => sameIds this s) = false := by
            by_contra hne
            have hany : (solA.any fun s => sameIds this s) = true := by simpa using hne
            obtain ⟨s, hs, hid⟩ := List.any_eq_true.1 hany
            have hids := (sameIds_iff this s).1 hid
            have := hcov s hs false (by rw [← rejectedBy_congr simT hids]; exact hrT)
            cases this
          have eA : afterTurn cf solA this false (solA.any fun s => sameIds this s) =
              solA ++ [this] := by
            simp [afterTurn, hnotA, h2]
          rw [eA] at hA'; rw [eT] at hT'
          refine ih _ _ _ _ _ _ _ ?_ ?_ hA' hT'
          · intro s hs r hr
            rcases List.mem_append.1 hs with hs | hs
            · exact covered_keep hcov this s hs r hr
            · simp only [List.mem_singleton] at hs
              subst hs
              exact covered_self hrT r hr
          · simp only [List.length_append, List.length_singleton]; omega
        · -- not accepted by the other setting: AcceptAll may or may not keep it
          rw [eT] at hT'
          rcases afterTurn_cases cf solA this hasLoop (solA.any fun s => sameIds this s) with
            ⟨eA, h1, h2, _⟩ | eA
          · rw [eA] at hA'
            -- then the other setting rejected it in its scan
            have hrejT : rejT = true := by
              cases hrej : rejT with
              | true => rfl
              | false =>
                exfalso
                have : afterTurn cf solT this hasLoop rejT = solT ++ [this] := by
                  simp [afterTurn, h1, h2, hrej]
                rw [this] at eT
                have := congrArg List.length eT
                simp at this
            subst hrejT
            refine ih _ _ _ _ _ _ _ ?_ ?_ hA' hT'
            · intro s hs r hr
              rcases List.mem_append.1 hs with hs | hs
              · exact hcov s hs r hr
              · simp only [List.mem_singleton] at hs
                subst hs
                rw [hrT] at hr; cases hr; rfl
            · simp only [List.length_append, List.length_singleton]; omega
          · rw [eA] at hA'
            exact ih _ _ _ _ _ _ _ hcov hlen hA' hT'

end compare

/-! ### `AcceptAll` against any similarity test, whatever the two pop orders -/

section anyorder
variable {cf : Config α} {sim : List Nat → List Nat → Except ErrKind Bool} {term : KspTerm}
  {k source target : Nat} {fwd rev : SState α}

/-- **`AcceptAll` drains the queue**: when its run does not end on the criterion, every queue entry
was popped, so every loop-free permitted candidate of a queue vertex is in the final solution up to
edge ids -/
theorem svLoop_acceptAll_complete :
    ∀ (pops : List Nat) (queue : List (Nat × α)) (sol : List (List (Branch α))) (it : Nat)
      (res : List (List (Branch α)) × Nat),
      svLoop cf simAcceptAll term k source target fwd rev pops queue sol it = .ok res →
      term.terminate k res.1.length = false →
      ∀ p ∈ queue, ∀ this, svCandidate cf source target fwd rev p.1 = .ok (some this) →
        routeContainsLoop cf this = .ok false →
        routePermitted cf this (initialState cf.feats) none = true →
        ∃ s ∈ res.1, s.map (·.edge) = this.map (·.edge) := by
  intro pops
  induction pops with
  | nil =>
    intro queue sol it res h hterm p hp
    obtain ⟨rfl, hstop⟩ := svLoop_nil_ok h
    rcases hstop with hstop | hstop
    · rw [hstop] at hterm; cases hterm
    · rw [List.isEmpty_iff] at hstop; subst hstop; simp at hp
  | cons v rest ih =>
    intro queue sol it res h hterm p hp this hcand hloop hperm
    rcases svLoop_cons_ok h with ⟨ht, rfl⟩ | ⟨_, hq, rfl⟩ | ⟨_, _, _, hc, h'⟩ |
      ⟨_, _, _, this', hasLoop, rej, hc, hl, hr, h'⟩
    · rw [ht] at hterm; cases hterm
    · rw [List.isEmpty_iff] at hq; subst hq; simp at hp
    · by_cases hpv : p.1 = v
      · rw [hpv, hc] at hcand; cases hcand
      · have hmem : p ∈ queue.filter (fun q => !(q.1 == v)) :=
          List.mem_filter.2 ⟨hp, by simpa using hpv⟩
        exact ih _ _ _ res h' hterm p hmem this hcand hloop hperm
    · by_cases hpv : p.1 = v
      · -- this entry is the one popped now
        rw [hpv, hc] at hcand; cases hcand
        rw [hl] at hloop; cases hloop
        rw [rejectedBy_acceptAll] at hr; cases hr
        have hsub := svLoop_subset _ _ _ _ _ h'
        by_cases hany : (sol.any fun s => sameIds this s) = true
        · obtain ⟨s, hs, hid⟩ := List.any_eq_true.1 hany
          refine ⟨s, hsub s ?_, ((sameIds_iff this s).1 hid).symm⟩
          rcases afterTurn_cases cf sol this false (sol.any fun s => sameIds this s) with
            ⟨e, _⟩ | e
          · rw [e]; exact List.mem_append_left _ hs
          · rw [e]; exact hs
        · have hany' : (sol.any fun s => sameIds this s) = false := by simpa using hany
          refine ⟨this, hsub this ?_, rfl⟩
          simp [afterTurn, hany', hperm]
      · have hmem : p ∈ queue.filter (fun q => !(q.1 == v)) :=
          List.mem_filter.2 ⟨hp, by simpa using hpv⟩
        exact ih _ _ _ res h' hterm p hmem this hcand hloop hperm

end anyorder

/-- **`AcceptAll` returns at least as many routes, whatever the two pop orders**: from the same
queue and initial route, a run under `AcceptAll` (replaying any accepted pop sequence) ends with at
least as many routes after `take(k)` as a run under any similarity test (replaying any other) -/
theorem svLoop_acceptAll_ge_any_order {cf : Config α}
    {sim : List Nat → List Nat → Except ErrKind Bool} {term : KspTerm} {k source target : Nat}
    {fwd rev : SState α} {popsA popsT : List Nat} {queue : List (Nat × α)} {tsp : List (Branch α)}
    {resA resT : List (List (Branch α)) × Nat}
    (hA : svLoop cf simAcceptAll term k source target fwd rev popsA queue [tsp] 0 = .ok resA)
    (hT : svLoop cf sim term k source target fwd rev popsT queue [tsp] 0 = .ok resT) :
    (resT.1.take k).length ≤ (resA.1.take k).length := by
  cases hterm : term.terminate k resA.1.length with
  | true =>
    have := terminate_length hterm
    simp only [List.length_take]
    omega
  | false =>
    apply take_length_mono
    -- every route of the other run is, up to ids, a route of the AcceptAll run
    have hcomplete := svLoop_acceptAll_complete _ _ _ _ _ hA hterm
    have hsubT : ∀ r ∈ resT.1, ∃ s ∈ resA.1, s.map (·.edge) = r.map (·.edge) := by
      refine svLoop_invariant_mem (cf := cf) (sim := sim) (term := term) (k := k) (source := source)
        (target := target) (fwd := fwd) (rev := rev)
        (fun sol => ∀ r ∈ sol, ∃ s ∈ resA.1, s.map (·.edge) = r.map (·.edge))
        (fun v => ∃ p ∈ queue, p.1 = v) ?_ popsT queue [tsp] 0 resT (fun p hp => ⟨p, hp, rfl⟩) ?_ hT
      · intro sol v this hs ⟨p, hp, hpv⟩ hc hl hperm _ r hr
        rcases List.mem_append.1 hr with hm | hm
        · exact hs r hm
        · simp only [List.mem_singleton] at hm
          subst hm
          exact hcomplete p hp r (hpv ▸ hc) hl hperm
      · intro r hr
        simp only [List.mem_singleton] at hr
        subst hr
        exact ⟨r, svLoop_subset _ _ _ _ _ hA r (by simp), rfl⟩
    -- the other run's routes have pairwise distinct ids
    have hndT : (resT.1.map (fun r => r.map (·.edge))).Nodup := by
      have hp := svLoop_invariant (cf := cf) (sim := sim) (term := term) (k := k) (source := source)
        (target := target) (fwd := fwd) (rev := rev)
        (fun s => s.Pairwise (fun earlier later => later.map (·.edge) ≠ earlier.map (·.edge)))
        (fun s v this hs _ _ _ hrej => by
          rw [List.pairwise_append]
          refine ⟨hs, List.pairwise_singleton _ _, ?_⟩
          intro a ha b hb
          simp only [List.mem_singleton] at hb
          subst hb
          intro heq
          have := ((rejectedBy_false_iff sim b s).1 hrej a ha).2
          rw [(sameIds_iff b a).2 heq] at this
          cases this)
        popsT queue [tsp] 0 resT (List.pairwise_singleton _ _) hT
      rw [List.Nodup, List.pairwise_map]
      exact hp.imp (fun h => fun heq => h heq.symm)
    have hsub : resT.1.map (fun r => r.map (·.edge)) ⊆ resA.1.map (fun r => r.map (·.edge)) := by
      intro ids hids
      obtain ⟨r, hr, rfl⟩ := List.mem_map.1 hids
      obtain ⟨s, hs, hse⟩ := hsubT r hr
      exact List.mem_map.2 ⟨s, hs, hse⟩
    have := (hndT.subperm hsub).length_le
    simpa using this

/-! ### what a candidate route is -/

/-- contiguous walk `u ⇝ v` in *graph orientation* over the edge list: every edge id is in range,
each edge leaves where the previous one arrived -/
def GWalk (edges : List (EdgeRec α)) : Nat → List Nat → Nat → Prop
  | u, [], v => u = v
  | u, e :: es, v => ∃ er, edges[e]? = some er ∧ er.src = u ∧ GWalk edges er.dst es v

theorem GWalk.append {edges : List (EdgeRec α)} :
    ∀ {es fs : List Nat} {u v w : Nat}, GWalk edges u es v → GWalk edges v fs w →
      GWalk edges u (es ++ fs) w
  | [], _, u, v, w, h, h' => by
    simp only [GWalk] at h
    subst h
    exact h'
  | e :: es, _, u, v, w, h, h' => by
    obtain ⟨er, h1, h2, h3⟩ := h
    exact ⟨er, h1, h2, GWalk.append h3 h'⟩

theorem GWalk.single {edges : List (EdgeRec α)} {e : Nat} {er : EdgeRec α}
    (h : edges[e]? = some er) : GWalk edges er.src [e] er.dst :=
  ⟨er, h, rfl, rfl⟩

/-- instance orientation of the forward configuration -/
theorem fwd_termV (c : Config α) {e : Nat} {er : EdgeRec α} (h : c.edges[e]? = some er) :
    c.fwd.inst.termV e = er.src ∧ c.fwd.inst.keyV e = er.dst := by
  simp [Config.inst, Config.fwd, h]

/-- instance orientation of the reverse configuration -/
theorem rev_termV (c : Config α) (g : List α) {e : Nat} {er : EdgeRec α}
    (h : c.edges[e]? = some er) :
    (c.rev g).inst.termV e = er.dst ∧ (c.rev g).inst.keyV e = er.src := by
  simp [Config.inst, Config.rev, h]

/-- a successful edge traversal names an edge of the edge list -/
theorem edge_of_traversal {c : Config α} {e : Nat} {le : Option Nat} {st : List α}
    {r : α × α × List α} (h : edgeTraversal c e le st = .ok r) : ∃ er, c.edges[e]? = some er := by
  unfold edgeTraversal at h
  split at h
  · cases h
  · rename_i er her; exact ⟨er, her⟩

/-- a walk in the forward search direction is a walk in graph orientation -/
theorem gwalk_of_fwd_walk (c : Config α) {ok : Nat → Bool} :
    ∀ {es : List Nat} {u v : Nat}, SearchOpt.Walk c.fwd.inst ok u es v →
      (∀ e ∈ es, ∃ er, c.edges[e]? = some er) → GWalk c.edges u es v
  | [], u, v, h, _ => h
  | e :: es, u, v, h, hex => by
    obtain ⟨_, _, h3, h4⟩ := h
    obtain ⟨er, her⟩ := hex e List.mem_cons_self
    obtain ⟨ht, hk⟩ := fwd_termV c her
    rw [ht] at h3
    rw [hk] at h4
    exact ⟨er, her, h3, gwalk_of_fwd_walk c h4 (fun e' he' => hex e' (List.mem_cons_of_mem _ he'))⟩

/-- a walk in the reverse search direction, read backwards, is a walk in graph orientation -/
theorem gwalk_of_rev_walk (c : Config α) (g : List α) {ok : Nat → Bool} :
    ∀ {es : List Nat} {u v : Nat}, SearchOpt.Walk (c.rev g).inst ok u es v →
      (∀ e ∈ es, ∃ er, c.edges[e]? = some er) → GWalk c.edges v es.reverse u
  | [], u, v, h, _ => by simp only [SearchOpt.Walk] at h; subst h; rfl
  | e :: es, u, v, h, hex => by
    obtain ⟨_, _, h3, h4⟩ := h
    obtain ⟨er, her⟩ := hex e List.mem_cons_self
    obtain ⟨ht, hk⟩ := rev_termV c g her
    rw [ht] at h3
    rw [hk] at h4
    have ih := gwalk_of_rev_walk c g h4 (fun e' he' => hex e' (List.mem_cons_of_mem _ he'))
    rw [List.reverse_cons]
    have := GWalk.single her
    rw [h3] at this
    exact GWalk.append ih this

/-- the state and costs of a list of route elements are the forward re-accumulation from a given
previous edge and state: each element is `EdgeTraversal::forward_traversal` of its edge from the
element before it -/
def Reaccumulated (cf : Config α) : Option Nat → List α → List (Branch α) → Prop
  | _, _, [] => True
  | prev, st, b :: bs =>
    edgeTraversal cf b.edge prev st = .ok (b.access, b.traversal, b.state) ∧
    Reaccumulated cf (some b.edge) b.state bs

theorem retraverse_spec (cf : Config α) :
    ∀ (es : List Nat) (prev : Option Nat) (st : List α) (r : List (Branch α)),
      retraverse cf es prev st = .ok r → r.map (·.edge) = es ∧ Reaccumulated cf prev st r
  | [], prev, st, r, h => by
    simp only [retraverse] at h
    cases h
    exact ⟨rfl, trivial⟩
  | e :: es, prev, st, r, h => by
    unfold retraverse at h
    split at h
    · cases h
    · rename_i ac tc st' htr
      split at h
      · cases h
      · rename_i restr hrest
        cases h
        obtain ⟨h1, h2⟩ := retraverse_spec cf es (some e) st' restr hrest
        exact ⟨by simp [h1], htr, h2⟩

/-- every edge of a re-accumulated list is in the edge list -/
theorem Reaccumulated.edges_exist {cf : Config α} :
    ∀ {r : List (Branch α)} {prev : Option Nat} {st : List α}, Reaccumulated cf prev st r →
      ∀ b ∈ r, ∃ er, cf.edges[b.edge]? = some er
  | [], _, _, _, b, hb => by simp at hb
  | x :: xs, _, _, h, b, hb => by
    rcases List.mem_cons.1 hb with rfl | hb
    · exact edge_of_traversal h.1
    · exact Reaccumulated.edges_exist h.2 b hb

/-- the last edge and state a route hands to what follows it -/
def lastEdge (r : List (Branch α)) : Option Nat := r.getLast?.map (·.edge)

def lastState (cf : Config α) (r : List (Branch α)) : List α :=
  match r.getLast? with
  | some l => l.state
  | none => initialState cf.feats

/-- **shape of a candidate**: the forward backtrack to the intersection vertex, followed by the
reverse backtrack read backwards and re-traversed forwards from the forward half's last edge and
state -/
theorem svCandidate_spec {cf : Config α} {source target : Nat} {fwd rev : SState α} {v : Nat}
    {this : List (Branch α)} (h : svCandidate cf source target fwd rev v = .ok (some this)) :
    ∃ fwdRoute revBack revRoute,
      backtrack source v fwd.sol (fwd.solSize + 1) = .ok fwdRoute ∧
      backtrack target v rev.sol (rev.solSize + 1) = .ok revBack ∧
      this = fwdRoute ++ revRoute ∧
      revRoute.map (·.edge) = (revBack.map (·.edge)).reverse ∧
      Reaccumulated cf (lastEdge fwdRoute) (lastState cf fwdRoute) revRoute := by
  unfold svCandidate at h
  split at h
  · cases h
  · rename_i fwdRoute hf
    split at h
    · cases h
    · rename_i revBack hr
      split at h
      · cases h
      · rename_i revRoute hre
        cases h
        refine ⟨fwdRoute, revBack, revRoute, hf, hr, rfl, ?_⟩
        unfold reorient at hre
        split at hre
        · rename_i hlast
          obtain ⟨h1, h2⟩ := retraverse_spec cf _ _ _ _ hre
          refine ⟨by rw [h1, List.map_reverse], ?_⟩
          simpa [lastEdge, lastState, hlast] using h2
        · rename_i last hlast
          obtain ⟨h1, h2⟩ := retraverse_spec cf _ _ _ _ hre
          refine ⟨by rw [h1, List.map_reverse], ?_⟩
          simpa [lastEdge, lastState, hlast] using h2

/-! ### the frontier validation -/

/-- the frontier model accepts every element of the list given the state and edge of the element
before it (`st`, `prev` for the first) -/
def PermittedFrom (cf : Config α) : List α → Option Nat → List (Branch α) → Prop
  | _, _, [] => True
  | st, prev, b :: bs =>
    cf.inst.valid b.edge st prev = .ok true ∧ PermittedFrom cf b.state (some b.edge) bs

theorem routePermitted_iff (cf : Config α) :
    ∀ (r : List (Branch α)) (st : List α) (prev : Option Nat),
      routePermitted cf r st prev = true ↔ PermittedFrom cf st prev r
  | [], _, _ => by simp [routePermitted, PermittedFrom]
  | b :: bs, st, prev => by
    unfold routePermitted PermittedFrom
    split
    · rename_i h
      rw [routePermitted_iff cf bs b.state (some b.edge)]
      simp [h]
    · rename_i h
      constructor
      · intro hf; cases hf
      · intro hp; exact absurd hp.1 (by simpa using h)

/-- index form: the first element against the initial data, each later element against the state
and edge of the element before it -/
theorem PermittedFrom.getElem {cf : Config α} :
    ∀ {r : List (Branch α)} {st : List α} {prev : Option Nat}, PermittedFrom cf st prev r →
      (∀ b, r.head? = some b → cf.inst.valid b.edge st prev = .ok true) ∧
      ∀ i (hi : i + 1 < r.length),
        cf.inst.valid r[i + 1].edge r[i].state (some r[i].edge) = .ok true
  | [], _, _, _ => ⟨fun b hb => by simp at hb, fun i hi => by simp at hi⟩
  | x :: xs, st, prev, h => by
    obtain ⟨h1, h2⟩ := h
    obtain ⟨ih1, ih2⟩ := PermittedFrom.getElem h2
    refine ⟨fun b hb => by simp at hb; subst hb; exact h1, ?_⟩
    intro i hi
    cases i with
    | zero =>
      cases xs with
      | nil => simp at hi
      | cons y ys => exact ih1 y rfl
    | succ i =>
      simp only [List.length_cons] at hi
      exact ih2 i (by omega)

/-- a turn-restriction model among the configuration's frontier models: a permitted route takes
none of its listed turns -/
theorem frontierValid_turn {ms : List (FrontierM α)} {pairs : List (Nat × Nat)}
    (hm : FrontierM.turnRestriction pairs ∈ ms) {e p : Nat}
    (h : frontierValid ms e (some p) = .ok true) : (p, e) ∉ pairs := by
  induction ms with
  | nil => simp at hm
  | cons m ms ih =>
    unfold frontierValid at h
    split at h
    · cases h
    · cases h
    · rename_i hv
      rcases List.mem_cons.1 hm with rfl | hm'
      · simp only [FrontierM.valid, Option.some.injEq, Bool.not_eq_eq_eq_not, Bool.not_true,
          List.any_eq_false, Bool.and_eq_true, beq_iff_eq, not_and] at hv
        intro hmem
        exact hv (p, e) hmem rfl rfl
      · exact ih hm' h

theorem PermittedFrom.no_restricted_turn {cf : Config α} {pairs : List (Nat × Nat)}
    (hm : FrontierM.turnRestriction pairs ∈ cf.frontier) {r : List (Branch α)} {st : List α}
    {prev : Option Nat} (h : PermittedFrom cf st prev r) :
    ∀ i (hi : i + 1 < r.length), (r[i].edge, r[i + 1].edge) ∉ pairs := by
  intro i hi
  have hv := (PermittedFrom.getElem h).2 i hi
  simp only [Config.inst] at hv
  split at hv
  · cases hv
  · exact frontierValid_turn hm hv

/-! ### the loop test -/

theorem srcVertices_spec (cf : Config α) :
    ∀ (r : List (Branch α)) (vs : List Nat), srcVertices cf r = .ok vs →
      vs.length = r.length ∧
      ∀ b ∈ r, ∃ er, cf.edges[b.edge]? = some er ∧ er.src ∈ vs
  | [], vs, h => by
    simp only [srcVertices] at h
    cases h
    exact ⟨rfl, fun b hb => by simp at hb⟩
  | x :: xs, vs, h => by
    unfold srcVertices at h
    split at h
    · cases h
    · rename_i er her
      split at h
      · cases h
      · rename_i vs' hvs'
        cases h
        obtain ⟨h1, h2⟩ := srcVertices_spec cf xs vs' hvs'
        refine ⟨by simp [h1], ?_⟩
        intro b hb
        rcases List.mem_cons.1 hb with rfl | hb
        · exact ⟨er, her, List.mem_cons_self⟩
        · obtain ⟨er', h3, h4⟩ := h2 b hb
          exact ⟨er', h3, List.mem_cons_of_mem _ h4⟩

/-- pairwise distinct source vertices: no edge occurs twice either -/
theorem srcVertices_nodup_edges (cf : Config α) :
    ∀ (r : List (Branch α)) (vs : List Nat), srcVertices cf r = .ok vs → vs.Nodup →
      (r.map (·.edge)).Nodup
  | [], _, _, _ => by simp
  | x :: xs, vs, h, hnd => by
    unfold srcVertices at h
    split at h
    · cases h
    · rename_i er her
      split at h
      · cases h
      · rename_i vs' hvs'
        cases h
        rw [List.nodup_cons] at hnd
        rw [List.map_cons, List.nodup_cons]
        refine ⟨?_, srcVertices_nodup_edges cf xs vs' hvs' hnd.2⟩
        intro hmem
        obtain ⟨b, hb, hbe⟩ := List.mem_map.1 hmem
        obtain ⟨er', h3, h4⟩ := (srcVertices_spec cf xs vs' hvs').2 b hb
        rw [hbe, her] at h3
        cases h3
        exact hnd.1 h4

/-- `route_contains_loop = false`: the source vertices of the route's edges are pairwise distinct -/
theorem routeContainsLoop_false {cf : Config α} {r : List (Branch α)}
    (h : routeContainsLoop cf r = .ok false) :
    ∃ vs, srcVertices cf r = .ok vs ∧ vs.Nodup ∧ (r.map (·.edge)).Nodup := by
  unfold routeContainsLoop at h
  split at h
  · cases h
  · rename_i vs hvs
    simp only [Except.ok.injEq] at h
    have hnd := (hasDup_false_iff vs).1 h
    exact ⟨vs, hvs, hnd, srcVertices_nodup_edges cf r vs hvs hnd⟩

/-! ### the two trees -/

/-- what the two underlying runs establish about their trees -/
structure Trees (c : Config α) (g : List α) (source target : Nat) (fwd rev : SState α) : Prop where
  fwd_inv : TreeInv c.fwd.inst source fwd
  rev_inv : TreeInv (c.rev g).inst target rev
  fwd_edges : ∀ v b, fwd.sol v = some b → ∃ er, c.edges[b.edge]? = some er
  rev_edges : ∀ v b, rev.sol v = some b → ∃ er, c.edges[b.edge]? = some er
  target_entry : (fwd.sol target).isSome

/-- two successful underlying runs between distinct vertices give `Trees` -/
theorem trees_of_runs (c : Config α) (g : List α) (hf : c.fwd.AdjConsistent)
    (hr : (c.rev g).AdjConsistent) {source target : Nat} (hts : target ≠ source)
    {fs rs : List Nat} {fres rres : SearchResult α}
    (h1 : runVertexOriented c.fwd.inst source (some target) fs = .ok fres)
    (h2 : runVertexOriented (c.rev g).inst target (some source) rs = .ok rres) :
    Trees c g source target fres.final rres.final := by
  obtain ⟨hinvF, hent, _⟩ :=
    SearchTree.runVertexOriented_route (c.fwd.inst_wf hf) source target fs fres hts h1
  obtain ⟨hinvR, _, _⟩ :=
    SearchTree.runVertexOriented_route ((c.rev g).inst_wf hr) target source rs rres
      (fun h => hts h.symm) h2
  have hvF := SearchRoute.runAStar_validInv _ _ _ _ _ (SearchRoute.runVertexOriented_some h1).1
  have hvR := SearchRoute.runAStar_validInv _ _ _ _ _ (SearchRoute.runVertexOriented_some h2).1
  refine ⟨hinvF, hinvR, ?_, ?_, hent⟩
  · intro v b hb
    obtain ⟨st, le, _, htr⟩ := hvF v b hb
    exact edge_of_traversal (c := c.fwd) htr
  · intro v b hb
    obtain ⟨st, le, _, htr⟩ := hvR v b hb
    exact edge_of_traversal (c := c.rev g) htr

/-- the `terminal` vertices along a parent chain are pairwise distinct -/
theorem pathTo_terminals_nodup {I : Inst α} {source : Nat} {s : SState α}
    (hinv : TreeInv I source s) {t : Nat} {r : List (Branch α)}
    (h : PathTo source s.sol t r) : (r.map (·.terminal)).Nodup := by
  induction h with
  | nil => simp
  | @snoc v b r hv hb hr ih =>
    rw [List.map_append, List.nodup_append]
    refine ⟨ih, by simp, ?_⟩
    intro x hx y hy
    simp only [List.map_cons, List.map_nil, List.mem_singleton] at hy
    subst hy
    obtain ⟨b', hb', rfl⟩ := List.mem_map.1 hx
    have hent := (SearchTree.pathTo_entry hinv hr b' hb').1
    have h1 : SearchTree.LabelLt s b'.terminal (I.keyV b'.edge) :=
      SearchTree.parent_label_lt hinv hent
    rcases SearchTree.pathTo_label hinv hr b' hb' with h2 | h2
    · rw [h2] at h1; exact h1.ne
    · exact (h1.trans h2).ne

theorem srcVertices_eq (cf : Config α) (f : Branch α → Nat) :
    ∀ (r : List (Branch α)), (∀ b ∈ r, ∃ er, cf.edges[b.edge]? = some er ∧ er.src = f b) →
      srcVertices cf r = .ok (r.map f)
  | [], _ => rfl
  | x :: xs, h => by
    obtain ⟨er, her, hsrc⟩ := h x List.mem_cons_self
    unfold srcVertices
    rw [her]
    simp only
    rw [srcVertices_eq cf f xs (fun b hb => h b (List.mem_cons_of_mem _ hb))]
    simp [hsrc]

section candidates
variable {c : Config α} {g : List α} {source target : Nat} {fwd rev : SState α}

/-- a forward backtrack is a walk in graph orientation from the origin, passes the loop test, and
consists of tree entries -/
theorem fwd_backtrack_walk' (hinv : TreeInv c.fwd.inst source fwd)
    (hedges : ∀ v b, fwd.sol v = some b → ∃ er, c.edges[b.edge]? = some er) {v fuel : Nat}
    {r : List (Branch α)} (h : backtrack source v fwd.sol fuel = .ok r) :
    GWalk c.edges source (r.map (·.edge)) v ∧ routeContainsLoop c.fwd r = .ok false ∧
    ∀ b ∈ r, ∃ u, fwd.sol u = some b := by
  have hp := SearchTree.backtrack_sound h
  have hex : ∀ b ∈ r, ∃ er, c.edges[b.edge]? = some er := by
    intro b hb
    obtain ⟨u, _, hu⟩ := SearchTree.pathTo_mem hp b hb
    exact hedges u b hu
  have hw := SearchRoute.pathTo_walk (ok := fun _ => true) hinv (fun _ _ _ => rfl) hp
  refine ⟨gwalk_of_fwd_walk c hw ?_, ?_, ?_⟩
  · intro e he
    obtain ⟨b, hb, rfl⟩ := List.mem_map.1 he
    exact hex b hb
  · have hsv : srcVertices c.fwd r = .ok (r.map (·.terminal)) := by
      apply srcVertices_eq
      intro b hb
      obtain ⟨er, her⟩ := hex b hb
      refine ⟨er, her, ?_⟩
      obtain ⟨u, _, hu⟩ := SearchTree.pathTo_mem hp b hb
      obtain ⟨_, hterm, _⟩ := hinv.entry u b hu
      rw [← hterm, (fwd_termV c her).1]
    unfold routeContainsLoop
    rw [hsv]
    simp only [Except.ok.injEq]
    exact (hasDup_false_iff _).2 (pathTo_terminals_nodup hinv hp)
  · intro b hb
    obtain ⟨u, _, hu⟩ := SearchTree.pathTo_mem hp b hb
    exact ⟨u, hu⟩

theorem fwd_backtrack_walk (T : Trees c g source target fwd rev) {v fuel : Nat}
    {r : List (Branch α)} (h : backtrack source v fwd.sol fuel = .ok r) :
    GWalk c.edges source (r.map (·.edge)) v ∧ routeContainsLoop c.fwd r = .ok false ∧
    ∀ b ∈ r, ∃ u, fwd.sol u = some b :=
  fwd_backtrack_walk' T.fwd_inv T.fwd_edges h

/-- **every candidate is a contiguous origin → destination walk in graph orientation**: forward
half by the forward tree, reverse half by the reverse tree read backwards, junction at the
intersection vertex; its second half is the forward re-accumulation from the first half's last
edge and state -/
theorem svCandidate_walk (T : Trees c g source target fwd rev) {v : Nat} {this : List (Branch α)}
    (h : svCandidate c.fwd source target fwd rev v = .ok (some this)) :
    GWalk c.edges source (this.map (·.edge)) target ∧
    ∃ fwdRoute revRoute, this = fwdRoute ++ revRoute ∧
      backtrack source v fwd.sol (fwd.solSize + 1) = .ok fwdRoute ∧
      GWalk c.edges source (fwdRoute.map (·.edge)) v ∧
      GWalk c.edges v (revRoute.map (·.edge)) target ∧
      (∀ b ∈ fwdRoute, ∃ u, fwd.sol u = some b) ∧
      Reaccumulated c.fwd (lastEdge fwdRoute) (lastState c.fwd fwdRoute) revRoute := by
  obtain ⟨fwdRoute, revBack, revRoute, hf, hr, rfl, hids, hre⟩ := svCandidate_spec h
  obtain ⟨hwF, _, hentF⟩ := fwd_backtrack_walk T hf
  have hp := SearchTree.backtrack_sound hr
  have hex : ∀ e ∈ revBack.map (·.edge), ∃ er, c.edges[e]? = some er := by
    intro e he
    obtain ⟨b, hb, rfl⟩ := List.mem_map.1 he
    obtain ⟨u, _, hu⟩ := SearchTree.pathTo_mem hp b hb
    exact T.rev_edges u b hu
  have hw := SearchRoute.pathTo_walk (ok := fun _ => true) T.rev_inv (fun _ _ _ => rfl) hp
  have hwR := gwalk_of_rev_walk c g hw hex
  rw [← hids] at hwR
  refine ⟨?_, fwdRoute, revRoute, rfl, hf, hwF, hwR, hentF, hre⟩
  rw [List.map_append]
  exact GWalk.append hwF hwR

end candidates

/-- adjacency consistency of the reverse configuration does not depend on the great-circle table -/
theorem rev_adj_irrel (c : Config α) (g g' : List α) (h : (c.rev g).AdjConsistent) :
    (c.rev g').AdjConsistent := h

/-- what the forward run alone establishes -/
theorem fwd_tree_of_run (c : Config α) (hf : c.fwd.AdjConsistent) {source target : Nat}
    (hts : target ≠ source) {fs : List Nat} {fres : SearchResult α}
    (h1 : runVertexOriented c.fwd.inst source (some target) fs = .ok fres) :
    TreeInv c.fwd.inst source fres.final ∧
    (∀ v b, fres.final.sol v = some b → ∃ er, c.edges[b.edge]? = some er) := by
  obtain ⟨hinvF, _, _⟩ :=
    SearchTree.runVertexOriented_route (c.fwd.inst_wf hf) source target fs fres hts h1
  have hvF := SearchRoute.runAStar_validInv _ _ _ _ _ (SearchRoute.runVertexOriented_some h1).1
  refine ⟨hinvF, ?_⟩
  intro v b hb
  obtain ⟨st, le, _, htr⟩ := hvF v b hb
  exact edge_of_traversal (c := c.fwd) htr

/-- the index form back to `PermittedFrom` -/
theorem permittedFrom_of_links {cf : Config α} :
    ∀ {r : List (Branch α)} {st : List α} {prev : Option Nat},
      (∀ b, r.head? = some b → cf.inst.valid b.edge st prev = .ok true) →
      (∀ i (hi : i + 1 < r.length),
        cf.inst.valid r[i + 1].edge r[i].state (some r[i].edge) = .ok true) →
      PermittedFrom cf st prev r
  | [], _, _, _, _ => trivial
  | x :: xs, st, prev, h1, h2 => by
    refine ⟨h1 x rfl, permittedFrom_of_links ?_ ?_⟩
    · intro b hb
      cases xs with
      | nil => simp at hb
      | cons y ys =>
        simp only [List.head?_cons, Option.some.injEq] at hb
        subst hb
        exact h2 0 (by simp)
    · intro i hi
      exact h2 (i + 1) (by simp only [List.length_cons]; omega)

/-! ### `singleVia`, inverted -/

theorem singleVia_ok {c : Config α} {g : List α}
    {sim : List Nat → List Nat → Except ErrKind Bool} {term : KspTerm} {source target k : Nat}
    {fs rs pops : List Nat} {r : AlgResult α}
    (h : singleVia c g sim term source target k fs rs pops = .ok r) :
    ∃ fres tsp,
      runVertexOriented c.fwd.inst source (some target) fs = .ok fres ∧
      backtrack source target fres.final.sol (fres.final.solSize + 1) = .ok tsp ∧
      (((∃ e, runVertexOriented (c.rev g).inst target (some source) rs = .error e ∧
            e.stopsQuery = false) ∧
          r = { trees := [fres.final.sol], routes := [tsp].take k,
                iterations := fres.final.iters }) ∨
       ∃ rres sol it,
        runVertexOriented (c.rev g).inst target (some source) rs = .ok rres ∧
        svLoop c.fwd sim term k source target fres.final rres.final pops
          (interQueue c.nV fres.final.sol rres.final.sol) [tsp] 0 = .ok (sol, it) ∧
        r = { trees := [fres.final.sol, rres.final.sol], routes := sol.take k,
              iterations := fres.final.iters + rres.final.iters + it }) := by
  unfold singleVia at h
  simp only at h
  split at h
  · cases h
  · rename_i fres hfres
    split at h
    · rename_i e hrres
      split at h
      · cases h
      · rename_i hstop
        split at h
        · cases h
        · rename_i tsp htsp
          cases h
          exact ⟨fres, tsp, hfres, htsp, Or.inl ⟨⟨e, hrres, by simpa using hstop⟩, rfl⟩⟩
    · rename_i rres hrres
      simp only [List.length_singleton, bne_self_eq_false, Bool.false_eq_true, if_false] at h
      split at h
      · cases h
      · rename_i tsp htsp
        split at h
        · cases h
        · rename_i sol it hloop
          cases h
          exact ⟨fres, tsp, hfres, htsp, Or.inr ⟨rres, sol, it, hrres, hloop, rfl⟩⟩

/-- the tsp is the route the underlying forward run returned -/
theorem tsp_eq_route {I : Inst α} {source target : Nat} {fs : List Nat} {fres : SearchResult α}
    (h : runVertexOriented I source (some target) fs = .ok fres) {tsp : List (Branch α)}
    (ht : backtrack source target fres.final.sol (fres.final.solSize + 1) = .ok tsp) :
    fres.route = some tsp := by
  obtain ⟨_, route, hr, hbt⟩ := SearchRoute.runVertexOriented_some h
  rw [ht] at hbt
  cases hbt
  exact hr

/-! ### where an error can come from -/

theorem rejectedBy_error {sim : List Nat → List Nat → Except ErrKind Bool}
    {this : List (Branch α)} {e : ErrKind} :
    ∀ {sol : List (List (Branch α))}, rejectedBy sim this sol = .error e →
      ∃ a b, sim a b = .error e
  | [], h => by cases h
  | s :: rest, h => by
    unfold rejectedBy at h
    split at h
    · rename_i k hk; cases h; exact ⟨_, _, hk⟩
    · split at h
      · cases h
      · exact rejectedBy_error h

/-- the failing call of the scan is on the candidate and an accepted route -/
theorem rejectedBy_error' {sim : List Nat → List Nat → Except ErrKind Bool}
    {this : List (Branch α)} {e : ErrKind} :
    ∀ {sol : List (List (Branch α))}, rejectedBy sim this sol = .error e →
      ∃ s ∈ sol, sim (this.map (·.edge)) (s.map (·.edge)) = .error e
  | [], h => by cases h
  | s :: rest, h => by
    unfold rejectedBy at h
    split at h
    · rename_i k hk; cases h; exact ⟨s, List.mem_cons_self, hk⟩
    · split at h
      · cases h
      · obtain ⟨s', hs', h'⟩ := rejectedBy_error' h
        exact ⟨s', List.mem_cons_of_mem _ hs', h'⟩

/-- every id of the list is an edge of the graph: what the similarity functions are applied to -/
def GraphIds (edges : List (EdgeRec α)) (l : List Nat) : Prop := ∀ e ∈ l, ∃ er, edges[e]? = some er

theorem retraverse_error {cf : Config α} {e : ErrKind} :
    ∀ {es : List Nat} {prev : Option Nat} {st : List α}, retraverse cf es prev st = .error e →
      ∃ e' prev' st', edgeTraversal cf e' prev' st' = .error e
  | [], _, _, h => by cases h
  | x :: xs, prev, st, h => by
    unfold retraverse at h
    split at h
    · rename_i k hk; cases h; exact ⟨_, _, _, hk⟩
    · split at h
      · rename_i k hk; cases h; exact retraverse_error hk
      · cases h

theorem mem_interQueue {nV : Nat} {f r : Nat → Option (Branch α)} {p : Nat × α}
    (h : p ∈ interQueue nV f r) : (f p.1).isSome ∧ (r p.1).isSome := by
  unfold interQueue at h
  obtain ⟨v, _, hv⟩ := List.mem_filterMap.1 h
  split at hv
  · cases hv
  · split at hv
    · cases hv
    · split at hv
      · rename_i _ fb hfb _ _ _ hrv
        cases hv
        exact ⟨by simp [hfb], hrv⟩
      · cases hv

theorem srcVertices_total (cf : Config α) (r : List (Branch α))
    (h : ∀ b ∈ r, ∃ er, cf.edges[b.edge]? = some er) : ∃ vs, srcVertices cf r = .ok vs := by
  refine ⟨_, srcVertices_eq cf (fun b => match cf.edges[b.edge]? with
    | some er => er.src | none => 0) r ?_⟩
  intro b hb
  obtain ⟨er, her⟩ := h b hb
  exact ⟨er, her, by simp [her]⟩

section errors
variable {c : Config α} {g : List α} {source target : Nat} {fwd rev : SState α}

/-- for an intersection vertex both backtracks succeed and a failing re-traversal only drops the
candidate: building a candidate never fails -/
theorem svCandidate_total (T : Trees c g source target fwd rev) {v : Nat}
    (hvf : (fwd.sol v).isSome) (hvr : (rev.sol v).isSome) :
    ∃ o, svCandidate c.fwd source target fwd rev v = .ok o := by
  obtain ⟨fr, _, hfr⟩ := SearchTree.backtrack_ok T.fwd_inv (t := v) (Or.inr hvf)
  obtain ⟨rb, _, hrb⟩ := SearchTree.backtrack_ok T.rev_inv (t := v) (Or.inr hvr)
  unfold svCandidate
  rw [hfr, hrb]
  simp only
  split
  · exact ⟨none, rfl⟩
  · exact ⟨_, rfl⟩

/-- the loop test never fails on a candidate -/
theorem candidate_loop_test_total (T : Trees c g source target fwd rev) {v : Nat}
    {this : List (Branch α)} (h : svCandidate c.fwd source target fwd rev v = .ok (some this)) :
    ∃ b, routeContainsLoop c.fwd this = .ok b := by
  obtain ⟨_, fr, rr, rfl, _, _, _, hent, hre⟩ := svCandidate_walk T h
  have hex : ∀ b ∈ fr ++ rr, ∃ er, c.fwd.edges[b.edge]? = some er := by
    intro b hb
    rcases List.mem_append.1 hb with hb | hb
    · obtain ⟨u, hu⟩ := hent b hb
      exact T.fwd_edges u b hu
    · exact hre.edges_exist b hb
  obtain ⟨vs, hvs⟩ := srcVertices_total c.fwd _ hex
  exact ⟨hasDup vs, by simp [routeContainsLoop, hvs]⟩

/-- a candidate consists of edges of the graph -/
theorem candidate_graphIds (T : Trees c g source target fwd rev) {v : Nat}
    {this : List (Branch α)} (h : svCandidate c.fwd source target fwd rev v = .ok (some this)) :
    GraphIds c.edges (this.map (·.edge)) := by
  obtain ⟨_, fr, rr, rfl, _, _, _, hent, hre⟩ := svCandidate_walk T h
  intro e he
  obtain ⟨b, hb, rfl⟩ := List.mem_map.1 he
  rcases List.mem_append.1 hb with hb | hb
  · obtain ⟨u, hu⟩ := hent b hb
    exact T.fwd_edges u b hu
  · exact hre.edges_exist b hb

variable {sim : List Nat → List Nat → Except ErrKind Bool} {term : KspTerm} {k : Nat}

theorem svLoop_error (T : Trees c g source target fwd rev) :
    ∀ (pops : List Nat) (queue : List (Nat × α)) (sol : List (List (Branch α))) (it : Nat)
      (e : ErrKind), (∀ p ∈ queue, (fwd.sol p.1).isSome ∧ (rev.sol p.1).isSome) →
      (∀ s ∈ sol, GraphIds c.edges (s.map (·.edge))) →
      svLoop c.fwd sim term k source target fwd rev pops queue sol it = .error e →
      e = .scheduleExhausted ∨ e = .badSchedule ∨
        (∃ a b, GraphIds c.edges a ∧ GraphIds c.edges b ∧ sim a b = .error e) := by
  intro pops
  induction pops with
  | nil =>
    intro queue sol it e _ _ h
    unfold svLoop at h
    split at h
    · cases h
    · split at h
      · cases h
      · cases h; exact Or.inl rfl
  | cons v rest ih =>
    intro queue sol it e hq hsol h
    unfold svLoop at h
    split at h
    · cases h
    · split at h
      · cases h
      · simp only at h
        split at h
        · cases h; exact Or.inr (Or.inl rfl)
        · rename_i hpop
          obtain ⟨p, hp, hpv⟩ := SearchTree.popOk_mem (q := queue) (v := v) (by simpa using hpop)
          have hv := hq p hp
          rw [hpv] at hv
          have hq' : ∀ p ∈ queue.filter (fun p => !(p.1 == v)),
              (fwd.sol p.1).isSome ∧ (rev.sol p.1).isSome :=
            fun p hp => hq p (List.mem_filter.1 hp).1
          obtain ⟨o, ho⟩ := svCandidate_total T hv.1 hv.2
          rw [ho] at h
          cases o with
          | none => exact ih _ _ _ e hq' hsol h
          | some this =>
            simp only at h
            obtain ⟨bl, hbl⟩ := candidate_loop_test_total T ho
            have hthis := candidate_graphIds T ho
            rw [hbl] at h
            simp only at h
            split at h
            · rename_i k' hk'
              cases h
              obtain ⟨s, hs, hse⟩ := rejectedBy_error' hk'
              exact Or.inr (Or.inr ⟨_, _, hthis, hsol s hs, hse⟩)
            · refine ih _ _ _ e hq' ?_ h
              intro s hs
              split at hs
              · rcases List.mem_append.1 hs with hs | hs
                · exact hsol s hs
                · simp only [List.mem_singleton] at hs
                  subst hs; exact hthis
              · exact hsol s hs

end errors

/-- **which failures propagate** (after the repairs): with consistent adjacency and distinct origin
and destination, `single_via_paths_algorithm::run` fails only with the error of the FORWARD search
— the query is then not answerable by the underlying search either — or with an error of the
similarity function (or the replay was not one the queue could produce).  A failed reverse search
yields the shortest route alone, a failed re-traversal drops the candidate, and backtracking, the
tree-count checks, the loop test and the frontier validation never fail. -/
theorem singleVia_error {c : Config α} {g : List α} (hf : c.fwd.AdjConsistent)
    (hr : (c.rev g).AdjConsistent) {sim : List Nat → List Nat → Except ErrKind Bool}
    {term : KspTerm} {source target k : Nat} (hts : target ≠ source) {fs rs pops : List Nat}
    {e : ErrKind} (h : singleVia c g sim term source target k fs rs pops = .error e) :
    runVertexOriented c.fwd.inst source (some target) fs = .error e ∨
    (runVertexOriented (c.rev g).inst target (some source) rs = .error e ∧ e.stopsQuery = true) ∨
    e = .scheduleExhausted ∨ e = .badSchedule ∨
      (∃ a b, GraphIds c.edges a ∧ GraphIds c.edges b ∧ sim a b = .error e) := by
  unfold singleVia at h
  simp only at h
  split at h
  · rename_i k' hk'; cases h; exact Or.inl hk'
  · rename_i fres hfres
    obtain ⟨hinvF, hent, _⟩ :=
      SearchTree.runVertexOriented_route (c.fwd.inst_wf hf) source target fs fres hts hfres
    obtain ⟨tsp, _, htsp⟩ := SearchTree.backtrack_ok hinvF (t := target) (Or.inr hent)
    split at h
    · rename_i e' hrres
      split at h
      · rename_i hstop
        cases h
        exact Or.inr (Or.inl ⟨hrres, hstop⟩)
      · rw [htsp] at h
        cases h
    · rename_i rres hrres
      have T := trees_of_runs c g hf hr hts hfres hrres
      simp only [List.length_singleton, bne_self_eq_false, Bool.false_eq_true, if_false] at h
      rw [htsp] at h
      simp only at h
      split at h
      · rename_i k' hk'
        cases h
        refine Or.inr (Or.inr (svLoop_error T _ _ _ _ _ (fun p hp => mem_interQueue hp) ?_ hk'))
        intro s hs
        simp only [List.mem_singleton] at hs
        subst hs
        obtain ⟨_, _, hentT⟩ := fwd_backtrack_walk' T.fwd_inv T.fwd_edges htsp
        intro x hx
        obtain ⟨b, hb, rfl⟩ := List.mem_map.1 hx
        obtain ⟨u, hu⟩ := hentT b hb
        exact T.fwd_edges u b hu
      · cases h

/-! ### similarity: rank, decision, totality -/

section similarity
variable [HasSqrt α]

theorem distsOf_ok {dist : Nat → Except ErrKind α} :
    ∀ (es : List Nat), (∀ e ∈ es, ∃ d, dist e = .ok d) → ∃ m, distsOf dist es = .ok m
  | [], _ => ⟨[], rfl⟩
  | e :: es, h => by
    obtain ⟨d, hd⟩ := h e List.mem_cons_self
    obtain ⟨m, hm⟩ := distsOf_ok es (fun e' he' => h e' (List.mem_cons_of_mem _ he'))
    exact ⟨(e, d) :: m, by simp [distsOf, hd, hm]⟩

theorem distsOf_error {dist : Nat → Except ErrKind α} {k : ErrKind} :
    ∀ {es : List Nat}, distsOf dist es = .error k → ∃ e ∈ es, dist e = .error k
  | [], h => by cases h
  | e :: es, h => by
    unfold distsOf at h
    split at h
    · rename_i k' hk'; cases h; exact ⟨e, List.mem_cons_self, hk'⟩
    · split at h
      · rename_i k' hk'
        cases h
        obtain ⟨e', he', h'⟩ := distsOf_error hk'
        exact ⟨e', List.mem_cons_of_mem _ he', h'⟩
      · cases h

/-- the cosine of two routes is computed whenever every edge has a weight -/
theorem cosSimilarity_ok {dist : Nat → Except ErrKind α} {a b : List Nat}
    (h : ∀ e ∈ a ++ b, ∃ d, dist e = .ok d) : ∃ r, cosSimilarity dist a b = .ok r := by
  obtain ⟨am, ham⟩ := distsOf_ok a (fun e he => h e (List.mem_append_left _ he))
  obtain ⟨bm, hbm⟩ := distsOf_ok b (fun e he => h e (List.mem_append_right _ he))
  unfold cosSimilarity
  rw [ham, hbm]
  exact ⟨_, rfl⟩

theorem cosSimilarity_error {dist : Nat → Except ErrKind α} {a b : List Nat} {k : ErrKind}
    (h : cosSimilarity dist a b = .error k) : ∃ e ∈ a ++ b, dist e = .error k := by
  unfold cosSimilarity at h
  split at h
  · rename_i k' hk'
    cases h
    obtain ⟨e, he, h'⟩ := distsOf_error hk'
    exact ⟨e, List.mem_append_left _ he, h'⟩
  · split at h
    · rename_i k' hk'
      cases h
      obtain ⟨e, he, h'⟩ := distsOf_error hk'
      exact ⟨e, List.mem_append_right _ he, h'⟩
    · cases h

/-- `test_similarity` is `is_similar` of `rank_similarity` -/
theorem SimFn.test_eq (f : SimFn α) (edges : List (EdgeRec α)) (a b : List Nat) :
    f.test edges a b = (match f.rank edges a b with
                        | .error k => .error k
                        | .ok r => .ok (f.isSimilar r)) := by
  cases f with
  | acceptAll => rfl
  | edgeIdCosine thr =>
    simp only [SimFn.test, SimFn.rank, SimFn.isSimilar]
    cases cosSimilarity (fun _ => Except.ok (one : α)) a b <;> rfl
  | distanceWeightedCosine thr =>
    simp only [SimFn.test, SimFn.rank, SimFn.isSimilar]
    split <;> simp_all

/-- the similarity functions never fail on routes whose edges are in the graph -/
theorem SimFn.rank_ok (f : SimFn α) (edges : List (EdgeRec α)) {a b : List Nat}
    (h : ∀ e ∈ a ++ b, ∃ er, edges[e]? = some er) : ∃ r, f.rank edges a b = .ok r := by
  cases f with
  | acceptAll => exact ⟨_, rfl⟩
  | edgeIdCosine thr => exact cosSimilarity_ok (fun e _ => ⟨one, rfl⟩)
  | distanceWeightedCosine thr =>
    apply cosSimilarity_ok
    intro e he
    obtain ⟨er, her⟩ := h e he
    exact ⟨er.dist, by simp [her]⟩

theorem SimFn.test_ok (f : SimFn α) (edges : List (EdgeRec α)) {a b : List Nat}
    (h : ∀ e ∈ a ++ b, ∃ er, edges[e]? = some er) : ∃ x, f.test edges a b = .ok x := by
  obtain ⟨r, hr⟩ := SimFn.rank_ok f edges h
  rw [SimFn.test_eq f, hr]
  exact ⟨_, rfl⟩

/-- they fail only on an edge id outside the graph, only for the distance-weighted variant, and then
with the network error -/
theorem SimFn.rank_error (f : SimFn α) (edges : List (EdgeRec α)) {a b : List Nat} {k : ErrKind}
    (h : f.rank edges a b = .error k) :
    k = .network ∧ (∃ thr, f = .distanceWeightedCosine thr) ∧ ∃ e ∈ a ++ b, edges[e]? = none := by
  cases f with
  | acceptAll => cases h
  | edgeIdCosine thr =>
    obtain ⟨e, _, he⟩ := cosSimilarity_error h
    cases he
  | distanceWeightedCosine thr =>
    obtain ⟨e, hmem, he⟩ := cosSimilarity_error h
    split at he
    · cases he
    · rename_i hnone
      cases he
      exact ⟨rfl, ⟨thr, rfl⟩, e, hmem, hnone⟩

end similarity

/-! ### Yen's algorithm (as repaired) -/

section yen

/-! #### small facts -/

theorem GWalk.split {edges : List (EdgeRec α)} :
    ∀ {es fs : List Nat} {u v : Nat}, GWalk edges u (es ++ fs) v →
      ∃ w, GWalk edges u es w ∧ GWalk edges w fs v
  | [], _, u, v, h => ⟨u, rfl, h⟩
  | e :: es, _, u, v, h => by
    obtain ⟨er, h1, h2, h3⟩ := h
    obtain ⟨w, h4, h5⟩ := GWalk.split h3
    exact ⟨w, ⟨er, h1, h2, h4⟩, h5⟩

/-- a walk ends where its last edge arrives -/
theorem GWalk.last_dst {edges : List (EdgeRec α)} :
    ∀ {es : List Nat} {u v : Nat}, GWalk edges u es v → ∀ e er, es.getLast? = some e →
      edges[e]? = some er → v = er.dst
  | [], _, _, _, e, er, hl, _ => by simp at hl
  | [x], u, v, h, e, er, hl, he => by
    obtain ⟨er', h1, _, h3⟩ := h
    simp only [List.getLast?_singleton, Option.some.injEq] at hl
    subst hl
    rw [h1] at he; cases he
    exact h3.symm
  | x :: y :: es, u, v, h, e, er, hl, he => by
    obtain ⟨er', _, _, h3⟩ := h
    exact GWalk.last_dst h3 e er (by simpa using hl) he

/-- a non-empty walk leaves from the source of its first edge -/
theorem GWalk.head_src {edges : List (EdgeRec α)} {e : Nat} {es : List Nat} {u v : Nat}
    (h : GWalk edges u (e :: es) v) : ∃ er, edges[e]? = some er ∧ er.src = u := by
  obtain ⟨er, h1, h2, _⟩ := h
  exact ⟨er, h1, h2⟩

theorem GWalk.edges_exist {edges : List (EdgeRec α)} :
    ∀ {es : List Nat} {u v : Nat}, GWalk edges u es v → ∀ e ∈ es, ∃ er, edges[e]? = some er
  | [], _, _, _, e, he => by simp at he
  | x :: xs, _, _, h, e, he => by
    obtain ⟨er, h1, _, h3⟩ := h
    rcases List.mem_cons.1 he with rfl | he
    · exact ⟨er, h1⟩
    · exact GWalk.edges_exist h3 e he

theorem yenDissimilar_true_iff (sim : List Nat → List Nat → Except ErrKind Bool)
    (cand : List (Branch α)) (acc : List (List (Branch α))) :
    yenDissimilar sim cand acc = .ok true ↔
      ∀ a ∈ acc, sim (a.map (·.edge)) (cand.map (·.edge)) = .ok false := by
  induction acc with
  | nil => simp [yenDissimilar]
  | cons t rest ih =>
    simp only [yenDissimilar, List.mem_cons, forall_eq_or_imp]
    cases hs : sim (t.map (·.edge)) (cand.map (·.edge)) with
    | error k => simp
    | ok x => cases x <;> simp [ih]

theorem yenDissimilar_error {sim : List Nat → List Nat → Except ErrKind Bool}
    {cand : List (Branch α)} {e : ErrKind} :
    ∀ {acc : List (List (Branch α))}, yenDissimilar sim cand acc = .error e →
      ∃ a b, sim a b = .error e
  | [], h => by cases h
  | t :: rest, h => by
    unfold yenDissimilar at h
    split at h
    · rename_i k hk; cases h; exact ⟨_, _, hk⟩
    · cases h
    · exact yenDissimilar_error h

/-- the failing call is on an accepted route and the candidate -/
theorem yenDissimilar_error' {sim : List Nat → List Nat → Except ErrKind Bool}
    {cand : List (Branch α)} {e : ErrKind} :
    ∀ {acc : List (List (Branch α))}, yenDissimilar sim cand acc = .error e →
      ∃ t ∈ acc, sim (t.map (·.edge)) (cand.map (·.edge)) = .error e
  | [], h => by cases h
  | t :: rest, h => by
    unfold yenDissimilar at h
    split at h
    · rename_i k hk; cases h; exact ⟨t, List.mem_cons_self, hk⟩
    · cases h
    · obtain ⟨t', ht', h'⟩ := yenDissimilar_error' h
      exact ⟨t', List.mem_cons_of_mem _ ht', h'⟩

theorem yenBetter_cases (best : Option (List (Branch α) × α)) (cand : List (Branch α)) (cost : α) :
    (∃ x, yenBetter best cand cost = some (cand, x)) ∨ (yenBetter best cand cost = best ∧ best ≠ none) := by
  unfold yenBetter
  cases best with
  | none => exact Or.inl ⟨cost, rfl⟩
  | some p =>
    obtain ⟨bp, bc⟩ := p
    simp only
    split
    · exact Or.inl ⟨cost, rfl⟩
    · exact Or.inr ⟨rfl, by simp⟩

/-- the cut configuration differs from the forward configuration in its frontier model only -/
theorem cutCfg_adj (c : Config α) (cut : List Nat) (h : c.fwd.AdjConsistent) :
    (cutCfg c cut).fwd.AdjConsistent := h

/-- an edge accepted by the cut configuration's frontier model is not a cut edge -/
theorem not_cut_of_valid (c : Config α) (cut : List Nat) {e : Nat} {st : List α} {le : Option Nat}
    (h : (cutCfg c cut).inst.valid e st le = .ok true) : e ∉ cut := by
  simp only [Config.inst, cutCfg] at h
  split at h
  · cases h
  · unfold frontierValid at h
    split at h
    · cases h
    · cases h
    · rename_i hv
      simp only [FrontierM.valid, Option.some.injEq, Bool.not_eq_eq_eq_not, Bool.not_true] at hv
      intro hmem
      have : cut.contains e = true := by simpa using hmem
      rw [this] at hv; cases hv

/-! #### one spur turn, inverted -/

variable {c : Config α} {sim : List Nat → List Nat → Except ErrKind Bool} {target : Nat}

/-- the cost the code sums for a candidate -/
def candCost (cand : List (Branch α)) : α := sumList (cand.map (fun b => b.access + b.traversal))

/-- a successful spur turn: one more underlying search, the next schedule consumed, and either no
change of the best candidate or a candidate that passed every test -/
theorem yenSpur_ok {prev : List (Branch α)} {accepted : List (List (Branch α))} {st st' : YenState α}
    {i : Nat} (h : yenSpur c sim target prev accepted st i = .ok st') :
    st'.iterations = st.iterations + 1 ∧ st'.scheds = st.scheds.tail ∧
    (st'.best = st.best ∨
     ∃ spurEt er res spurPath spurRoute,
      (prev.take (i + 1)).getLast? = some spurEt ∧ c.edges[spurEt.edge]? = some er ∧
      runVertexOriented (cutCfg c (yenCut accepted (prev.take (i + 1)) i)).inst er.dst (some target)
        (st.scheds.headD []) = .ok res ∧
      res.route = some spurPath ∧
      reorient c.fwd (prev.take (i + 1)) spurPath.reverse = .ok spurRoute ∧
      routeContainsLoop c.fwd (prev.take (i + 1) ++ spurRoute) = .ok false ∧
      routePermitted c.fwd (prev.take (i + 1) ++ spurRoute) (initialState c.fwd.feats) none = true ∧
      yenDissimilar sim (prev.take (i + 1) ++ spurRoute) accepted = .ok true ∧
      st'.best = yenBetter st.best (prev.take (i + 1) ++ spurRoute)
        (candCost (prev.take (i + 1) ++ spurRoute))) := by
  unfold yenSpur at h
  simp only at h
  split at h
  · cases h
  · rename_i spurEt hlast
    split at h
    · cases h
    · rename_i er her
      split at h
      · rename_i k hk
        split at h
        · cases h
        · cases h; exact ⟨rfl, rfl, Or.inl rfl⟩
      · rename_i res hres
        split at h
        · cases h
        · rename_i spurPath hroute
          split at h
          · cases h; exact ⟨rfl, rfl, Or.inl rfl⟩
          · rename_i spurRoute hre
            split at h
            · cases h
            · cases h; exact ⟨rfl, rfl, Or.inl rfl⟩
            · rename_i hloop
              split at h
              · cases h; exact ⟨rfl, rfl, Or.inl rfl⟩
              · rename_i hperm
                split at h
                · cases h
                · cases h; exact ⟨rfl, rfl, Or.inl rfl⟩
                · rename_i hdis
                  cases h
                  refine ⟨rfl, rfl, Or.inr ⟨spurEt, er, res, spurPath, spurRoute, hlast, her, hres,
                    hroute, hre, hloop, by simpa using hperm, hdis, rfl⟩⟩

/-! #### what an accepted route is -/

/-- every accepted route is a contiguous walk origin ⇝ destination in graph orientation none of
whose edges leaves the destination -/
structure YenGood (c : Config α) (source target : Nat) (p : List (Branch α)) : Prop where
  walk : GWalk c.edges source (p.map (·.edge)) target
  src_ne : ∀ b ∈ p, ∀ er, c.edges[b.edge]? = some er → er.src ≠ target

/-- every accepted alternative, relative to the routes accepted before it -/
structure YenAlt (c : Config α) (sim : List Nat → List Nat → Except ErrKind Bool)
    (source target : Nat) (accepted : List (List (Branch α))) (cand : List (Branch α)) : Prop where
  good : YenGood c source target cand
  /-- it passed `route_contains_loop` -/
  loopfree : routeContainsLoop c.fwd cand = .ok false
  /-- it passed `route_is_permitted` -/
  permitted : PermittedFrom c.fwd (initialState c.fwd.feats) none cand
  /-- it is dissimilar to every route accepted before it -/
  dissimilar : ∀ a ∈ accepted, sim (a.map (·.edge)) (cand.map (·.edge)) = .ok false
  /-- its edge sequence differs from that of every route accepted before it -/
  fresh : ∀ a ∈ accepted, a.map (·.edge) ≠ cand.map (·.edge)
  /-- it is a root path of an accepted route followed by a forward re-accumulation -/
  shape : ∃ prev ∈ accepted, ∃ i spurRoute, cand = prev.take (i + 1) ++ spurRoute ∧
    Reaccumulated c.fwd (lastEdge (prev.take (i + 1))) (lastState c.fwd (prev.take (i + 1))) spurRoute

/-- **the candidate of a spur turn that passed every test is a proper alternative** -/
theorem spur_candidate {source : Nat} (hf : c.fwd.AdjConsistent)
    {prev : List (Branch α)} {accepted : List (List (Branch α))}
    (hacc : ∀ p ∈ accepted, YenGood c source target p) (hprev : prev ∈ accepted)
    {i : Nat} (hi : i + 2 < prev.length) {sched : List Nat}
    {spurEt : Branch α} {er : EdgeRec α} {res : SearchResult α} {spurPath spurRoute : List (Branch α)}
    (hlast : (prev.take (i + 1)).getLast? = some spurEt) (her : c.edges[spurEt.edge]? = some er)
    (hres : runVertexOriented (cutCfg c (yenCut accepted (prev.take (i + 1)) i)).inst er.dst
      (some target) sched = .ok res)
    (hroute : res.route = some spurPath)
    (hre : reorient c.fwd (prev.take (i + 1)) spurPath.reverse = .ok spurRoute)
    (hloop : routeContainsLoop c.fwd (prev.take (i + 1) ++ spurRoute) = .ok false)
    (hperm : routePermitted c.fwd (prev.take (i + 1) ++ spurRoute) (initialState c.fwd.feats) none = true)
    (hdis : yenDissimilar sim (prev.take (i + 1) ++ spurRoute) accepted = .ok true) :
    YenAlt c sim source target accepted (prev.take (i + 1) ++ spurRoute) := by
  have hG := hacc prev hprev
  -- the previous route splits into the root path and a rest of at least two edges
  have hsplit : prev = prev.take (i + 1) ++ prev.drop (i + 1) := (List.take_append_drop _ _).symm
  have hdroplen : (prev.drop (i + 1)).length = prev.length - (i + 1) := List.length_drop
  obtain ⟨x, xs, hrest⟩ : ∃ x xs, prev.drop (i + 1) = x :: xs := by
    cases hd : prev.drop (i + 1) with
    | nil => rw [hd] at hdroplen; simp at hdroplen; omega
    | cons x xs => exact ⟨x, xs, rfl⟩
  have hxmem : x ∈ prev := by
    have : x ∈ prev.drop (i + 1) := by rw [hrest]; exact List.mem_cons_self
    exact List.mem_of_mem_drop this
  have hw := hG.walk
  rw [hsplit, List.map_append] at hw
  obtain ⟨w, hw1, hw2⟩ := GWalk.split hw
  have hlast' : ((prev.take (i + 1)).map (·.edge)).getLast? = some spurEt.edge := by
    rw [List.getLast?_map, hlast]; rfl
  have hwdst : w = er.dst := GWalk.last_dst hw1 spurEt.edge er hlast' her
  rw [hrest, List.map_cons] at hw2
  obtain ⟨er2, he2, hs2⟩ := GWalk.head_src hw2
  have hwt : er.dst ≠ target := by
    rw [← hwdst, ← hs2]
    exact hG.src_ne x hxmem er2 he2
  -- the spur search
  set cut := yenCut accepted (prev.take (i + 1)) i with hcut
  have hres' : runVertexOriented (cutCfg c cut).fwd.inst er.dst (some target) sched = .ok res := hres
  obtain ⟨hinv, hedges⟩ := fwd_tree_of_run (cutCfg c cut) (cutCfg_adj c cut hf) (Ne.symm hwt) hres'
  obtain ⟨hastar, route, hr, hbt⟩ := SearchRoute.runVertexOriented_some hres
  rw [hroute] at hr; cases hr
  obtain ⟨hwS, _, hentS⟩ := fwd_backtrack_walk' (c := cutCfg c cut) hinv hedges hbt
  have hwS' : GWalk c.edges er.dst (spurPath.map (·.edge)) target := hwS
  have hpath := SearchTree.backtrack_sound hbt
  have hterm := SearchRoute.pathTo_terminal_ne hinv hpath
  have hne : spurPath ≠ [] := fun h0 => hwt ((SearchTree.pathTo_nil_iff hpath).1 h0).symm
  -- the re-traversed spur part
  have hspec : spurRoute.map (·.edge) = spurPath.map (·.edge) ∧
      Reaccumulated c.fwd (lastEdge (prev.take (i + 1))) (lastState c.fwd (prev.take (i + 1))) spurRoute := by
    unfold reorient at hre
    rw [hlast] at hre
    simp only at hre
    obtain ⟨h1, h2⟩ := retraverse_spec c.fwd _ _ _ _ hre
    refine ⟨by rw [h1, List.reverse_reverse], ?_⟩
    simpa [lastEdge, lastState, hlast] using h2
  have hsrcS : ∀ b ∈ spurPath, ∀ er', c.edges[b.edge]? = some er' → er'.src ≠ target := by
    intro b hb er' her'
    obtain ⟨u, hu⟩ := hentS b hb
    obtain ⟨_, htv, _⟩ := hinv.entry u b hu
    have : (cutCfg c cut).fwd.inst.termV b.edge = er'.src := (fwd_termV (cutCfg c cut) her').1
    rw [← this, htv]
    exact hterm b hb
  refine ⟨⟨?_, ?_⟩, hloop, (routePermitted_iff c.fwd _ _ _).1 hperm,
    (yenDissimilar_true_iff sim _ accepted).1 hdis, ?_, ⟨prev, hprev, i, spurRoute, rfl, hspec.2⟩⟩
  · rw [List.map_append, hspec.1]
    exact GWalk.append hw1 (hwdst ▸ hwS')
  · intro b hb er' her'
    rcases List.mem_append.1 hb with hb | hb
    · exact hG.src_ne b (List.mem_of_mem_take hb) er' her'
    · have : b.edge ∈ spurPath.map (·.edge) := by
        rw [← hspec.1]; exact List.mem_map.2 ⟨b, hb, rfl⟩
      obtain ⟨b', hb', hbe⟩ := List.mem_map.1 this
      exact hsrcS b' hb' er' (by rw [hbe]; exact her')
  · -- a route with the same edge sequence would have had its next edge cut
    intro a ha heq
    obtain ⟨y, ys, hy⟩ : ∃ y ys, spurPath = y :: ys := by
      cases hsp : spurPath with
      | nil => exact absurd hsp hne
      | cons y ys => exact ⟨y, ys, rfl⟩
    have hrootlen : (prev.take (i + 1)).length = i + 1 := by
      rw [List.length_take]; omega
    have hids : a.map (·.edge) = (prev.take (i + 1)).map (·.edge) ++ (y.edge :: ys.map (·.edge)) := by
      rw [heq, List.map_append, hspec.1, hy]; rfl
    have htake : (a.take (i + 1)).map (·.edge) = (prev.take (i + 1)).map (·.edge) := by
      have h1 : (a.map (·.edge)).take (i + 1) = (prev.take (i + 1)).map (·.edge) := by
        rw [hids]; exact List.take_left' (by simp only [List.length_map]; exact hrootlen)
      rw [List.map_take]; exact h1
    have hget : a[i + 1]?.map (·.edge) = some y.edge := by
      have : (a.map (·.edge))[i + 1]? = some y.edge := by
        have hl : ((prev.take (i + 1)).map (·.edge)).length = i + 1 := by
          simp only [List.length_map]; exact hrootlen
        rw [hids, List.getElem?_append_right (by omega), hl]
        simp
      rw [List.getElem?_map] at this
      exact this
    have hincut : y.edge ∈ cut := by
      rw [hcut]
      unfold yenCut
      refine List.mem_filterMap.2 ⟨a, ha, ?_⟩
      have : sameIds (prev.take (i + 1)) (a.take (i + 1)) = true :=
        (sameIds_iff _ _).2 htake.symm
      rw [if_pos this]
      exact hget
    obtain ⟨u, hu⟩ := hentS y (by rw [hy]; exact List.mem_cons_self)
    obtain ⟨st0, le0, hv, _⟩ := SearchRoute.runAStar_validInv _ _ _ _ _ hastar u y hu
    exact not_cut_of_valid c cut hv hincut

/-! #### the spur loop -/

section spurloop
variable {source : Nat}

/-- the best candidate stays a proper alternative through a spur turn -/
theorem yenSpur_best (hf : c.fwd.AdjConsistent) {prev : List (Branch α)}
    {accepted : List (List (Branch α))} (hacc : ∀ p ∈ accepted, YenGood c source target p)
    (hprev : prev ∈ accepted) {i : Nat} (hi : i + 2 < prev.length) {st st' : YenState α}
    (hbest : ∀ bp bc, st.best = some (bp, bc) → YenAlt c sim source target accepted bp)
    (h : yenSpur c sim target prev accepted st i = .ok st') :
    ∀ bp bc, st'.best = some (bp, bc) → YenAlt c sim source target accepted bp := by
  obtain ⟨_, _, hcase⟩ := yenSpur_ok h
  rcases hcase with hsame | ⟨spurEt, er, res, spurPath, spurRoute, h1, h2, h3, h4, h5, h6, h7, h8, h9⟩
  · rw [hsame]; exact hbest
  · have halt := spur_candidate (sim := sim) hf hacc hprev hi h1 h2 h3 h4 h5 h6 h7 h8
    intro bp bc hb
    rw [h9] at hb
    rcases yenBetter_cases st.best (prev.take (i + 1) ++ spurRoute)
      (candCost (prev.take (i + 1) ++ spurRoute)) with ⟨x, hx⟩ | ⟨hx, _⟩
    · rw [hx] at hb
      simp only [Option.some.injEq, Prod.mk.injEq] at hb
      rw [← hb.1]; exact halt
    · rw [hx] at hb; exact hbest bp bc hb

theorem yenFor_best (hf : c.fwd.AdjConsistent) {prev : List (Branch α)}
    {accepted : List (List (Branch α))} (hacc : ∀ p ∈ accepted, YenGood c source target p)
    (hprev : prev ∈ accepted) :
    ∀ (is : List Nat) (st st' : YenState α), (∀ i ∈ is, i + 2 < prev.length) →
      (∀ bp bc, st.best = some (bp, bc) → YenAlt c sim source target accepted bp) →
      yenFor c sim target prev accepted is st = .ok st' →
      ∀ bp bc, st'.best = some (bp, bc) → YenAlt c sim source target accepted bp
  | [], st, st', _, hbest, h => by cases h; exact hbest
  | i :: is, st, st', his, hbest, h => by
    unfold yenFor at h
    split at h
    · cases h
    · rename_i st1 h1
      exact yenFor_best hf hacc hprev is st1 st'
        (fun j hj => his j (List.mem_cons_of_mem _ hj))
        (yenSpur_best hf hacc hprev (his i List.mem_cons_self) hbest h1) h

/-- **which failures a spur turn propagates**: only a spur search stopped by a limit (or a panic)
and an error of the similarity function — never "no path", never an error of the re-traversal, the
loop test or the frontier validation -/
theorem yenSpur_error (hf : c.fwd.AdjConsistent) {prev : List (Branch α)}
    {accepted : List (List (Branch α))} (hacc : ∀ p ∈ accepted, YenGood c source target p)
    (hprev : prev ∈ accepted) {i : Nat} (hi : i + 2 < prev.length) {st : YenState α} {e : ErrKind}
    (h : yenSpur c sim target prev accepted st i = .error e) :
    (∃ cut v sched, runVertexOriented (cutCfg c cut).inst v (some target) sched = .error e ∧
      e.stopsQuery = true) ∨ (∃ a b, GraphIds c.edges a ∧ GraphIds c.edges b ∧ sim a b = .error e) := by
  have hG := hacc prev hprev
  have hlen : (prev.take (i + 1)).length = i + 1 := by rw [List.length_take]; omega
  have hrootex : ∀ b ∈ prev.take (i + 1), ∃ er, c.fwd.edges[b.edge]? = some er := by
    intro b hb
    exact GWalk.edges_exist hG.walk b.edge (List.mem_map.2 ⟨b, List.mem_of_mem_take hb, rfl⟩)
  unfold yenSpur at h
  simp only at h
  split at h
  · rename_i hnone
    rw [List.getLast?_eq_none_iff] at hnone
    rw [hnone] at hlen; simp at hlen
  · rename_i spurEt hlast
    have hmem : spurEt ∈ prev.take (i + 1) := List.mem_of_getLast? hlast
    split at h
    · rename_i hnone
      obtain ⟨er, her⟩ := hrootex spurEt hmem
      have her' : c.edges[spurEt.edge]? = some er := her
      rw [her'] at hnone; cases hnone
    · rename_i er her
      split at h
      · rename_i k hk
        split at h
        · rename_i hstop
          cases h
          exact Or.inl ⟨_, _, _, hk, hstop⟩
        · cases h
      · rename_i res hres
        split at h
        · rename_i hnone
          obtain ⟨_, route, hr, _⟩ := SearchRoute.runVertexOriented_some hres
          rw [hr] at hnone; cases hnone
        · rename_i spurPath hroute
          split at h
          · cases h
          · rename_i spurRoute hre
            -- the loop test cannot fail: every edge of the candidate is in the edge list
            have hex : ∀ b ∈ prev.take (i + 1) ++ spurRoute, ∃ er, c.fwd.edges[b.edge]? = some er := by
              intro b hb
              rcases List.mem_append.1 hb with hb | hb
              · exact hrootex b hb
              · unfold reorient at hre
                rw [hlast] at hre
                simp only at hre
                exact (retraverse_spec c.fwd _ _ _ _ hre).2.edges_exist b hb
            obtain ⟨vs, hvs⟩ := srcVertices_total c.fwd _ hex
            have hl : routeContainsLoop c.fwd (prev.take (i + 1) ++ spurRoute) = .ok (hasDup vs) := by
              simp [routeContainsLoop, hvs]
            rw [hl] at h
            cases hd : hasDup vs with
            | true => rw [hd] at h; cases h
            | false =>
              rw [hd] at h
              simp only at h
              split at h
              · cases h
              · split at h
                · rename_i k hk
                  cases h
                  obtain ⟨t, ht, hte⟩ := yenDissimilar_error' hk
                  refine Or.inr ⟨_, _, ?_, ?_, hte⟩
                  · exact GWalk.edges_exist (hacc t ht).walk
                  · intro x hx
                    obtain ⟨b, hb, rfl⟩ := List.mem_map.1 hx
                    exact hex b hb
                · cases h
                · cases h

theorem yenFor_error (hf : c.fwd.AdjConsistent) {prev : List (Branch α)}
    {accepted : List (List (Branch α))} (hacc : ∀ p ∈ accepted, YenGood c source target p)
    (hprev : prev ∈ accepted) {e : ErrKind} :
    ∀ (is : List Nat) (st : YenState α), (∀ i ∈ is, i + 2 < prev.length) →
      yenFor c sim target prev accepted is st = .error e →
      (∃ cut v sched, runVertexOriented (cutCfg c cut).inst v (some target) sched = .error e ∧
        e.stopsQuery = true) ∨ (∃ a b, GraphIds c.edges a ∧ GraphIds c.edges b ∧ sim a b = .error e)
  | [], st, _, h => by cases h
  | i :: is, st, his, h => by
    unfold yenFor at h
    split at h
    · rename_i k hk
      cases h
      exact yenSpur_error hf hacc hprev (his i List.mem_cons_self) hk
    · exact yenFor_error hf hacc hprev is _ (fun j hj => his j (List.mem_cons_of_mem _ hj)) h

end spurloop

/-! #### the `while` loop -/

section whileloop
variable {source : Nat}

/-- the accepted list: the underlying search's route, then proper alternatives, each relative to
the routes accepted before it -/
inductive YenAcc (c : Config α) (sim : List Nat → List Nat → Except ErrKind Bool)
    (source target : Nat) (first : List (Branch α)) : List (List (Branch α)) → Prop
  | base : YenGood c source target first → YenAcc c sim source target first [first]
  | snoc {acc : List (List (Branch α))} {bp : List (Branch α)} :
      YenAcc c sim source target first acc → YenAlt c sim source target acc bp →
      YenAcc c sim source target first (acc ++ [bp])

variable {first : List (Branch α)}

theorem YenAcc.good {acc : List (List (Branch α))} (h : YenAcc c sim source target first acc) :
    ∀ p ∈ acc, YenGood c source target p := by
  induction h with
  | base hg => intro p hp; simp only [List.mem_singleton] at hp; subst hp; exact hg
  | snoc _ halt ih =>
    intro p hp
    rcases List.mem_append.1 hp with hp | hp
    · exact ih p hp
    · simp only [List.mem_singleton] at hp; subst hp; exact halt.good

theorem YenAcc.ne_nil {acc : List (List (Branch α))} (h : YenAcc c sim source target first acc) :
    acc ≠ [] := by
  cases h <;> simp

theorem YenAcc.head {acc : List (List (Branch α))} (h : YenAcc c sim source target first acc) :
    acc.head? = some first := by
  induction h with
  | base _ => rfl
  | @snoc acc bp _ _ ih =>
    cases acc with
    | nil => simp at ih
    | cons a r => simpa using ih

/-- pairwise: later routes differ in edge sequence from, and are dissimilar to, earlier ones -/
theorem YenAcc.pairwise {acc : List (List (Branch α))} (h : YenAcc c sim source target first acc) :
    acc.Pairwise (fun earlier later =>
      earlier.map (·.edge) ≠ later.map (·.edge) ∧
      sim (earlier.map (·.edge)) (later.map (·.edge)) = .ok false) := by
  induction h with
  | base _ => exact List.pairwise_singleton _ _
  | snoc _ halt ih =>
    rw [List.pairwise_append]
    refine ⟨ih, List.pairwise_singleton _ _, ?_⟩
    intro a ha b hb
    simp only [List.mem_singleton] at hb
    subst hb
    exact ⟨halt.fresh a ha, halt.dissimilar a ha⟩

/-- every route after the first is a proper alternative of a prefix of the list -/
theorem YenAcc.tail_alt {acc : List (List (Branch α))} (h : YenAcc c sim source target first acc) :
    ∀ p ∈ acc.tail, ∃ before, before <+: acc ∧ YenAlt c sim source target before p := by
  induction h with
  | base _ => intro p hp; simp at hp
  | @snoc acc bp hacc halt ih =>
    intro p hp
    have hne := hacc.ne_nil
    cases acc with
    | nil => exact absurd rfl hne
    | cons a r =>
      simp only [List.cons_append, List.tail_cons] at hp
      rcases List.mem_append.1 hp with hp | hp
      · obtain ⟨before, hb1, hb2⟩ := ih p (by simpa using hp)
        exact ⟨before, hb1.trans (List.prefix_append _ _), hb2⟩
      · simp only [List.mem_singleton] at hp
        subst hp
        exact ⟨a :: r, List.prefix_append _ _, halt⟩

variable {term : KspTerm} {k : Nat} {tree : Nat → Option (Branch α)}

/-- **what the loop returns**: the first `k` routes of an accepted list that extends the one it was
entered with -/
theorem yenWhile_ok (hf : c.fwd.AdjConsistent) :
    ∀ (fuel : Nat) (acc : List (List (Branch α))) (its : Nat) (scheds : List (List Nat))
      (r : AlgResult α), YenAcc c sim source target first acc →
      yenWhile c sim term target k tree fuel acc its scheds = .ok r →
      ∃ acc', YenAcc c sim source target first acc' ∧ acc <+: acc' ∧
        r.routes = acc'.take k ∧ r.trees = [tree]
  | 0, _, _, _, _, _, h => by cases h
  | fuel + 1, acc, its, scheds, r, hacc, h => by
    unfold yenWhile at h
    split at h
    · split at h
      · cases h; exact ⟨acc, hacc, List.prefix_refl _, rfl, rfl⟩
      · split at h
        · cases h
        · rename_i prev hprev
          have hprevmem : prev ∈ acc := List.mem_of_getLast? hprev
          split at h
          · cases h
          · rename_i st' hfor
            have hbest := yenFor_best (sim := sim) hf hacc.good hprevmem
              (List.range (prev.length - 2)) _ st'
              (fun i hi => by have := List.mem_range.1 hi; omega)
              (fun bp bc hb => by cases hb) hfor
            split at h
            · rename_i bp bc hb
              obtain ⟨acc', h1, h2, h3, h4⟩ := yenWhile_ok hf fuel (acc ++ [bp]) _ _ r
                (YenAcc.snoc hacc (hbest bp bc hb)) h
              exact ⟨acc', h1, (List.prefix_append _ _).trans h2, h3, h4⟩
            · cases h; exact ⟨acc, hacc, List.prefix_refl _, rfl, rfl⟩
    · cases h; exact ⟨acc, hacc, List.prefix_refl _, rfl, rfl⟩

/-- **the loop ends**: every turn that goes on has lengthened the accepted list, so it never needs
more turns than routes are missing -/
theorem yenWhile_terminates :
    ∀ (fuel : Nat) (acc : List (List (Branch α))) (its : Nat) (scheds : List (List Nat)),
      k - acc.length < fuel →
      ∀ why, yenWhile c sim term target k tree fuel acc its scheds ≠ .diverges why
  | 0, _, _, _, h, _ => by omega
  | fuel + 1, acc, its, scheds, hfuel, why => by
    unfold yenWhile
    split
    · rename_i hlt
      split
      · exact fun h => by cases h
      · split
        · exact fun h => by cases h
        · split
          · exact fun h => by cases h
          · split
            · apply yenWhile_terminates fuel
              simp only [List.length_append, List.length_singleton]
              omega
            · exact fun h => by cases h
    · exact fun h => by cases h

/-- **which failures the loop propagates** -/
theorem yenWhile_error (hf : c.fwd.AdjConsistent) :
    ∀ (fuel : Nat) (acc : List (List (Branch α))) (its : Nat) (scheds : List (List Nat))
      (e : ErrKind), YenAcc c sim source target first acc →
      yenWhile c sim term target k tree fuel acc its scheds = .err e →
      (∃ cut v sched, runVertexOriented (cutCfg c cut).inst v (some target) sched = .error e ∧
        e.stopsQuery = true) ∨ (∃ a b, GraphIds c.edges a ∧ GraphIds c.edges b ∧ sim a b = .error e)
  | 0, _, _, _, _, _, h => by cases h
  | fuel + 1, acc, its, scheds, e, hacc, h => by
    unfold yenWhile at h
    split at h
    · split at h
      · cases h
      · split at h
        · rename_i hnone
          rw [List.getLast?_eq_none_iff] at hnone
          exact absurd hnone hacc.ne_nil
        · rename_i prev hprev
          have hprevmem : prev ∈ acc := List.mem_of_getLast? hprev
          split at h
          · rename_i e' hfor
            cases h
            exact yenFor_error (sim := sim) hf hacc.good hprevmem _ _
              (fun i hi => by have := List.mem_range.1 hi; omega) hfor
          · rename_i st' hfor
            have hbest := yenFor_best (sim := sim) hf hacc.good hprevmem
              (List.range (prev.length - 2)) _ st'
              (fun i hi => by have := List.mem_range.1 hi; omega)
              (fun bp bc hb => by cases hb) hfor
            split at h
            · rename_i bp bc hb
              exact yenWhile_error hf fuel (acc ++ [bp]) _ _ e
                (YenAcc.snoc hacc (hbest bp bc hb)) h
            · cases h
    · cases h

end whileloop

/-! #### `yens` -/

/-- the route of the underlying search is a `YenGood` route -/
theorem first_route_good {c : Config α} (hf : c.fwd.AdjConsistent) {source target : Nat}
    {sched : List Nat} {res : SearchResult α} {first : List (Branch α)}
    (hrun : runVertexOriented c.fwd.inst source (some target) sched = .ok res)
    (hfirst : res.route = some first) : YenGood c source target first := by
  obtain ⟨_, route, hr, hbt⟩ := SearchRoute.runVertexOriented_some hrun
  rw [hfirst] at hr; cases hr
  by_cases hts : target = source
  · subst hts
    have hp := SearchTree.backtrack_sound hbt
    have : first = [] := (SearchTree.pathTo_nil_iff hp).2 rfl
    subst this
    exact ⟨rfl, fun b hb => by simp at hb⟩
  · obtain ⟨hinv, hedges⟩ := fwd_tree_of_run c hf hts hrun
    obtain ⟨hw, _, hent⟩ := fwd_backtrack_walk' hinv hedges hbt
    have hterm := SearchRoute.pathTo_terminal_ne hinv (SearchTree.backtrack_sound hbt)
    refine ⟨hw, ?_⟩
    intro b hb er her
    obtain ⟨u, hu⟩ := hent b hb
    obtain ⟨_, htv, _⟩ := hinv.entry u b hu
    rw [← (fwd_termV c her).1, htv]
    exact hterm b hb

/-- `yens`, inverted: a returned result is the first `k` routes of an accepted list -/
theorem yens_ok {c : Config α} (hf : c.fwd.AdjConsistent)
    {sim : List Nat → List Nat → Except ErrKind Bool} {term : KspTerm} {source target k : Nat}
    {scheds : List (List Nat)} {r : AlgResult α}
    (h : yens c sim term source target k scheds = .ok r) :
    ∃ fres first acc, runVertexOriented c.fwd.inst source (some target) (scheds.headD []) = .ok fres ∧
      fres.route = some first ∧ YenAcc c sim source target first acc ∧
      r.routes = acc.take k ∧ r.trees = [fres.final.sol] := by
  unfold yens at h
  split at h
  · cases h
  · rename_i fres hfres
    split at h
    · rename_i hnone
      obtain ⟨_, route, hr, _⟩ := SearchRoute.runVertexOriented_some hfres
      rw [hr] at hnone; cases hnone
    · rename_i first hfirst
      obtain ⟨acc, h1, _, h3, h4⟩ := yenWhile_ok hf _ _ _ _ r
        (YenAcc.base (first_route_good hf hfres hfirst)) h
      exact ⟨fres, first, acc, hfres, hfirst, h1, h3, h4⟩

end yen

/-! ### the state of a whole route (under the search discipline) -/

theorem Reaccumulated.take {cf : Config α} :
    ∀ {r : List (Branch α)} {prev : Option Nat} {st : List α} (n : Nat),
      Reaccumulated cf prev st r → Reaccumulated cf prev st (r.take n)
  | [], _, _, n, _ => by simp [Reaccumulated]
  | _ :: _, _, _, 0, _ => by simp [Reaccumulated]
  | b :: bs, _, _, n + 1, h => by
    simp only [List.take_succ_cons]
    exact ⟨h.1, Reaccumulated.take n h.2⟩

theorem Reaccumulated.append {cf : Config α} :
    ∀ {a : List (Branch α)} {prev : Option Nat} {st : List α} {b : List (Branch α)},
      Reaccumulated cf prev st a →
      Reaccumulated cf (match a.getLast? with | some l => some l.edge | none => prev)
        (match a.getLast? with | some l => l.state | none => st) b →
      Reaccumulated cf prev st (a ++ b)
  | [], _, _, _, _, hb => by simpa using hb
  | [x], _, _, _, ha, hb => by
    simp only [List.getLast?_singleton] at hb
    exact ⟨ha.1, hb⟩
  | x :: y :: r, _, _, _, ha, hb => by
    refine ⟨ha.1, Reaccumulated.append (a := y :: r) ha.2 ?_⟩
    rw [List.getLast?_cons_cons] at hb
    cases hl : (y :: r).getLast? with
    | none => simp at hl
    | some l => simp only [hl] at hb ⊢; exact hb

/-- a route accumulated from the initial state, continued from its last edge and state -/
theorem reaccumulated_append_init {cf : Config α} {a b : List (Branch α)}
    (ha : Reaccumulated cf none (initialState cf.feats) a)
    (hb : Reaccumulated cf (lastEdge a) (lastState cf a) b) :
    Reaccumulated cf none (initialState cf.feats) (a ++ b) := by
  apply Reaccumulated.append ha
  unfold lastEdge lastState at hb
  cases h : a.getLast? with
  | none => simpa [h] using hb
  | some l => simpa [h] using hb

theorem reaccumulated_of_linksFresh {cf : Config α} :
    ∀ {r : List (Branch α)} {prev : Option (Branch α)},
      SearchDiscipline.LinksFresh cf.inst prev r →
      Reaccumulated cf (prev.map (·.edge))
        (match prev with | some a => a.state | none => initialState cf.feats) r
  | [], _, _ => trivial
  | b :: _, none, h => ⟨h.1.2, reaccumulated_of_linksFresh (prev := some b) h.2⟩
  | b :: _, some _, h => ⟨h.1.2, reaccumulated_of_linksFresh (prev := some b) h.2⟩

/-- **every tree path of a search under the discipline is a forward accumulation from the initial
state** (consistent vertex heuristic `H`; Dijkstra is `H = 0`): the backtrack from ANY vertex of the
final tree, not only from the target -/
theorem tree_path_reaccumulated {cf : Config α} (hI : WF cf.inst) {H : Nat → α} {source t : Nat}
    (hH : SearchDiscipline.Heur cf.inst true H) {sched : List Nat} {res : SearchResult α}
    (hts : t ≠ source) (hrun : runVertexOriented cf.inst source (some t) sched = .ok res)
    {v fuel : Nat} {route : List (Branch α)}
    (hbt : backtrack source v res.final.sol fuel = .ok route) :
    Reaccumulated cf none (initialState cf.feats) route := by
  obtain ⟨hinv, _, _⟩ := SearchTree.runVertexOriented_route hI source t sched res hts hrun
  have hastar : runAStar cf.inst source (some t) sched = .ok res.final := by
    unfold runVertexOriented at hrun
    split at hrun
    · cases hrun
    · rename_i s hs
      simp only at hrun
      split at hrun
      · cases hrun
      · cases hrun; exact hs
  have hts' : (some t : Option Nat) ≠ some source := fun h => hts (Option.some.inj h)
  obtain ⟨pre, rest, h, _, _, hd, hfin⟩ :=
    SearchDiscipline.runAStar_disc (target := some t) hI hH hastar hts'
  have hsol : res.final.sol = h.sol := hfin.fields.2.1
  have hrc := SearchTree.route_chain hinv hbt
  have hall : ∀ b ∈ route, SearchDiscipline.Fresh cf.inst source res.final.sol b ∧
      res.final.sol (cf.inst.keyV b.edge) = some b ∧ cf.inst.keyV b.edge ≠ source := by
    intro b hb
    have hent := hrc.entry b hb
    refine ⟨?_, hent, hrc.key_ne_source b hb⟩
    rw [hsol] at hent ⊢
    exact hd.fresh _ b hent
  have hlinks : SearchDiscipline.LinksFresh cf.inst none route :=
    SearchDiscipline.linksFresh_of_chain none route hall hrc.chain hrc.head_terminal
  exact reaccumulated_of_linksFresh hlinks

/-- the route of a search under the discipline is a forward accumulation from the initial state
(origin = destination: the empty route) -/
theorem first_route_reaccumulated {cf : Config α} (hI : WF cf.inst) {H : Nat → α}
    (hH : SearchDiscipline.Heur cf.inst true H) {source target : Nat} {sched : List Nat}
    {res : SearchResult α} {first : List (Branch α)}
    (hrun : runVertexOriented cf.inst source (some target) sched = .ok res)
    (hfirst : res.route = some first) :
    Reaccumulated cf none (initialState cf.feats) first := by
  obtain ⟨_, route, hr, hbt⟩ := SearchRoute.runVertexOriented_some hrun
  rw [hfirst] at hr; cases hr
  by_cases hts : target = source
  · subst hts
    have hp := SearchTree.backtrack_sound hbt
    have : first = [] := (SearchTree.pathTo_nil_iff hp).2 rfl
    subst this
    trivial
  · exact tree_path_reaccumulated hI hH hts hrun hbt

/-- every accepted route of Yen's algorithm is a forward accumulation from the initial state as soon
as the first one is: a root path is a prefix of an accepted route, the spur part continues it -/
theorem YenAcc.reaccumulated {c : Config α} {sim : List Nat → List Nat → Except ErrKind Bool}
    {source target : Nat} {first : List (Branch α)} {acc : List (List (Branch α))}
    (h : YenAcc c sim source target first acc)
    (hfirst : Reaccumulated c.fwd none (initialState c.fwd.feats) first) :
    ∀ p ∈ acc, Reaccumulated c.fwd none (initialState c.fwd.feats) p := by
  induction h with
  | base _ =>
    intro p hp
    simp only [List.mem_singleton] at hp
    subst hp; exact hfirst
  | snoc _ halt ih =>
    intro p hp
    rcases List.mem_append.1 hp with hp | hp
    · exact ih p hp
    · simp only [List.mem_singleton] at hp
      subst hp
      obtain ⟨prev, hprev, i, spur, h1, h2⟩ := halt.shape
      rw [h1]
      exact reaccumulated_append_init (Reaccumulated.take _ (ih prev hprev)) h2

/-- C02 for the route of the first search of a k-shortest-paths run -/
theorem first_route_least_cost (cf : Config α) (hEL : cf.EdgeLocal) (hwf : 0 ≤ cf.wfOf)
    {source target : Nat} (hts : target ≠ source)
    (hadm : SearchOpt.Admissible cf.inst cf.okOf cf.costOf cf.hOf target)
    {sched : List Nat} {fres : SearchResult α}
    (h1 : runVertexOriented cf.inst source (some target) sched = .ok fres) :
    ∃ first, fres.route = some first ∧ first ≠ [] ∧
      SearchOpt.Walk cf.inst cf.okOf source (first.map (·.edge)) target ∧
      (first.map (fun b => b.access + b.traversal)).sum =
        SearchOpt.cost cf.costOf (first.map (·.edge)) ∧
      ∀ es, SearchOpt.Walk cf.inst cf.okOf source es target →
        (first.map (fun b => b.access + b.traversal)).sum ≤ SearchOpt.cost cf.costOf es := by
  have hrun : cf.runVertex source (some target) sched =
      .ok { trees := [fres.final.sol],
            routes := (match fres.route with | some x => [x] | none => []),
            iterations := fres.final.iters } := by
    unfold Config.runVertex; rw [h1]; rfl
  obtain ⟨route, hr, hne, hw, hsum, hmin⟩ :=
    config_astar_route_least_cost cf hEL hwf hts hadm hrun
  refine ⟨route, ?_, hne, hw, hsum, hmin⟩
  cases hfr : fres.route with
  | none => simp [hfr] at hr
  | some x => simp [hfr] at hr; rw [hr]

/-! ### which errors can stop a query: limits and panics come from the limit function only -/

/-- the error kinds that stop a k-shortest-paths query on the real code: a limit of the termination
model, a Rust panic (the other two members of `ErrKind.stopsQuery` are artefacts of the replay) -/
def isStop : ErrKind → Bool
  | .terminated _ => true
  | .panic _ => true
  | _ => false

theorem isStop_iff (k : ErrKind) : isStop k = true ↔ (∃ ks, k = .terminated ks) ∨ ∃ s, k = .panic s := by
  cases k <;> simp [isStop]

/-- no component of the instance other than the limit function reports a limit or panics -/
structure ComponentsNeverStop (I : Inst α) : Prop where
  valid : ∀ e st le k, isStop k = true → I.valid e st le ≠ .error k
  trav : ∀ e le st k, isStop k = true → I.trav e le st ≠ .error k
  h : ∀ v st k, isStop k = true → I.h v st ≠ .error k

theorem edgeAccess_never_stop (c : Config α) (e : Nat) (le : Option Nat) (st : List α) (k : ErrKind)
    (hk : isStop k = true) : edgeAccess c e le st ≠ .error k := by
  intro h
  unfold edgeAccess at h
  split at h
  · cases h
  · split at h
    · cases h; simp [isStop] at hk
    · simp only at h
      split at h
      · cases h; simp [isStop] at hk
      · split at h
        · cases h; simp [isStop] at hk
        · cases h

theorem config_components_never_stop (c : Config α) : ComponentsNeverStop c.inst where
  valid := by
    intro e st le k hk h
    simp only [Config.inst] at h
    split at h
    · cases h; simp [isStop] at hk
    · have : ∀ (fs : List (FrontierM α)), frontierValid fs e le ≠ .error k := by
        intro fs
        induction fs with
        | nil => simp [frontierValid]
        | cons m ms ih =>
          simp only [frontierValid]
          split
          · intro h'; cases h'; simp [isStop] at hk
          · simp
          · exact ih
      exact this _ h
  trav := by
    intro e le st k hk h
    simp only [Config.inst, edgeTraversal] at h
    split at h
    · cases h; simp [isStop] at hk
    · split at h
      · rename_i k' hk'
        cases h
        exact edgeAccess_never_stop c e le st _ hk hk'
      · repeat' split at h
        all_goals first | (cases h; done) | (cases h; simp [isStop] at hk)
  h := by
    intro v st k hk h
    simp only [Config.inst, estimate] at h
    repeat' split at h
    all_goals first | (cases h; done) | (cases h; simp [isStop] at hk)


theorem relax_never_stop {I : Inst α} (hC : ComponentsNeverStop I) {hasTarget : Bool}
    {lastEdge : Option Nat} {curState : List α} {s : SState α} {e : Nat} {k : ErrKind}
    (hk : isStop k = true) : relax I hasTarget lastEdge curState s e ≠ .error k := by
  intro h
  unfold relax at h
  split at h
  · rename_i k' hk'; cases h; exact hC.valid _ _ _ _ hk hk'
  · cases h
  · split at h
    · rename_i k' hk'; cases h; exact hC.trav _ _ _ _ hk hk'
    · split at h
      · cases h
      · simp only at h
        split at h
        · split at h
          · rename_i k' hk'
            cases h
            cases hasTarget with
            | true => exact hC.h _ _ _ hk hk'
            | false => simp at hk'
          · cases h
        · cases h

theorem relaxAll_never_stop {I : Inst α} (hC : ComponentsNeverStop I) {hasTarget : Bool}
    {lastEdge : Option Nat} {curState : List α} {k : ErrKind} (hk : isStop k = true) :
    ∀ (es : List Nat) (s : SState α), relaxAll I hasTarget lastEdge curState es s ≠ .error k
  | [], s => by simp [relaxAll]
  | e :: es, s => by
    simp only [relaxAll]
    split
    · rename_i k' hk'
      intro h; cases h
      exact relax_never_stop hC hk hk'
    · exact relaxAll_never_stop hC hk es _

/-- a loop whose limit function never answers with a limit or a panic is never stopped by one -/
theorem runLoop_never_stop {I : Inst α} (hC : ComponentsNeverStop I)
    (hT : ∀ sz it k, isStop k = true → I.term sz it ≠ .error k)
    {source : Nat} {target : Option Nat} {k : ErrKind} (hk : isStop k = true) :
    ∀ (sched : List Nat) (s : SState α), runLoop I source target sched s ≠ .error k := by
  intro sched
  induction sched with
  | nil =>
    intro s h
    rw [SearchLimits.runLoop_unfold] at h
    split at h
    · rename_i k' hk'; cases h; exact hT _ _ _ hk hk'
    · split at h
      · split at h
        · cases h; simp [isStop] at hk
        · cases h
      · cases h; simp [isStop] at hk
  | cons v rest ih =>
    intro s h
    rw [SearchLimits.runLoop_unfold] at h
    split at h
    · rename_i k' hk'; cases h; exact hT _ _ _ hk hk'
    · split at h
      · split at h
        · cases h; simp [isStop] at hk
        · cases h
      · simp only at h
        split at h
        · cases h; simp [isStop] at hk
        · split at h
          · cases h
          · split at h
            · cases h; simp [isStop] at hk
            · split at h
              · rename_i k' hk'
                cases h
                exact relaxAll_never_stop hC hk _ _ hk'
              · exact ih _ h


/-- hence neither is `run_vertex_oriented` (the backtrack adds no error of its own) -/
theorem runVertexOriented_never_stop {I : Inst α} (hI : WF I) (hC : ComponentsNeverStop I)
    (hT : ∀ sz it k, isStop k = true → I.term sz it ≠ .error k)
    {source t : Nat} {sched : List Nat} {k : ErrKind} (hk : isStop k = true) :
    runVertexOriented I source (some t) sched ≠ .error k := by
  intro h
  by_cases hts : t = source
  · subst hts
    obtain ⟨res, hres, _⟩ := SearchTree.runVertexOriented_source I t sched
    rw [hres] at h; cases h
  · have h' := SearchTree.runVertexOriented_error hI source t sched k hts h
    unfold runAStar at h'
    split at h'
    · cases h'
    · simp only at h'
      split at h'
      · rename_i k' hk'; cases h'; exact hC.h _ _ _ hk hk'
      · exact runLoop_never_stop hC hT hk _ _ h'

/-- **a configuration without limits**: no search of Yen's algorithm — the first and every spur
search, on every cut, from every vertex, on every replay — is stopped by a limit or panics -/
theorem no_limit_never_stopped (c : Config α) (hf : c.fwd.AdjConsistent)
    (hterm : ∀ sz it, c.term.test sz it = .ok ()) (target : Nat) (cut : List Nat) (v : Nat)
    (sched : List Nat) (e : ErrKind)
    (h : runVertexOriented (cutCfg c cut).inst v (some target) sched = .error e) :
    (∀ ks, e ≠ .terminated ks) ∧ (∀ s, e ≠ .panic s) := by
  have hI : WF (cutCfg c cut).inst := (cutCfg c cut).inst_wf (cutCfg_adj c cut hf)
  have hT : ∀ sz it k, isStop k = true → (cutCfg c cut).inst.term sz it ≠ .error k := by
    intro sz it k _ hk
    have : (cutCfg c cut).inst.term sz it = c.term.test sz it := rfl
    rw [this, hterm] at hk
    cases hk
  constructor
  · intro ks he
    subst he
    exact runVertexOriented_never_stop hI (config_components_never_stop _) hT (by simp [isStop]) h
  · intro s he
    subst he
    exact runVertexOriented_never_stop hI (config_components_never_stop _) hT (by simp [isStop]) h

/-! ### concrete configurations over ℚ (non-vacuity and witnesses) -/

namespace Example

/-- distance model in metres, cost = raw distance, Dijkstra (weight factor 0), no limits -/
def mk (nV : Nat) (edges : List (EdgeRec ℚ)) (outAdj inAdj : List (List Nat))
    (frontier : List (FrontierM ℚ)) : Config ℚ where
  nV := nV
  edges := edges
  outAdj := outAdj
  inAdj := inAdj
  feats := [{ name := "distance", kind := .dist .meters, init := 0 }]
  trav := .distance .meters
  access := .noAccess
  cost := { indices := [0], weights := [1], vehicleRates := [.raw], networkRates := [.zero],
            agg := .sum }
  frontier := frontier
  term := .combined []
  reverse := false
  gc := List.replicate nV 0
  wf := some 0

/-- diamond 0 → {1, 2} → 3: edges 0: 0→1 (1), 1: 1→3 (1), 2: 0→2 (2), 3: 2→3 (2) -/
def diamond : Config ℚ :=
  mk 4 [⟨0, 1, 1⟩, ⟨1, 3, 1⟩, ⟨0, 2, 2⟩, ⟨2, 3, 2⟩] [[0, 2], [1], [3], []] [[], [0], [2], [1, 3]] []

/-- decidable observation of a result: the edge-id sequences of the routes -/
def idsOf (r : Except ErrKind (AlgResult ℚ)) : Except ErrKind (List (List Nat)) :=
  match r with
  | .ok res => .ok (res.routes.map (·.map (·.edge)))
  | .error k => .error k

theorem ok_of_idsOf {r : Except ErrKind (AlgResult ℚ)} {l : List (List Nat)}
    (h : idsOf r = .ok l) : ∃ res, r = .ok res ∧ res.routes.map (·.map (·.edge)) = l := by
  cases r with
  | error k => cases h
  | ok res => simp only [idsOf, Except.ok.injEq] at h; exact ⟨res, rfl, h⟩

theorem adj_of_lists (c : Config ℚ)
    (h : ∀ v, v < c.nV + 1 → ∀ e ∈ c.inst.incident v, c.inst.termV e = v)
    (hlen : c.outAdj.length ≤ c.nV ∧ c.inAdj.length ≤ c.nV) : c.AdjConsistent := by
  intro v e he
  by_cases hv : v < c.nV + 1
  · exact h v hv e he
  · exfalso
    have h1 : c.outAdj.length ≤ v := by omega
    have h2 : c.inAdj.length ≤ v := by omega
    simp only [Config.inst] at he
    split at he
    · rw [List.getD_eq_getElem?_getD, List.getElem?_eq_none h2] at he; simp at he
    · rw [List.getD_eq_getElem?_getD, List.getElem?_eq_none h1] at he; simp at he

theorem diamond_adj : diamond.fwd.AdjConsistent ∧ (diamond.rev []).AdjConsistent := by
  constructor
  · apply adj_of_lists
    · decide +kernel
    · decide
  · apply adj_of_lists
    · decide +kernel
    · decide

/-- the witness of the repaired `AcceptAll` defect: diamond, k = 2 returns both routes, best first -/
theorem diamond_accept_all :
    idsOf (singleVia diamond (List.replicate 4 0) simAcceptAll .exact 0 3 2 [0, 1, 3] [3, 1, 0] [1, 2]) =
      .ok [[0, 1], [2, 3]] := by
  decide +kernel

/-- before the repair `is_similar` was `true` for `AcceptAll`: that setting returns one route -/
theorem diamond_reject_all :
    idsOf (singleVia diamond (List.replicate 4 0) (fun _ _ => .ok true) .exact 0 3 2 [0, 1, 3] [3, 1, 0]
      [1, 2]) = .ok [[0, 1]] := by
  decide +kernel

/-- k = 0 drains the queue and returns nothing; k = 1 returns the shortest route without a pop -/
theorem diamond_k0_k1 :
    idsOf (singleVia diamond (List.replicate 4 0) simAcceptAll .exact 0 3 0 [0, 1, 3] [3, 1, 0] [1, 2]) =
      .ok [] ∧
    idsOf (singleVia diamond (List.replicate 4 0) simAcceptAll .exact 0 3 1 [0, 1, 3] [3, 1, 0] []) =
      .ok [[0, 1]] := by
  decide +kernel

/-- 0 -e0→ 1 -e1→ 4 and 0 -e2→ 2 -e3→ 3 -e4→ 4, the turn (e3, e4) is restricted -/
def restrictedTurn : Config ℚ :=
  mk 5 [⟨0, 1, 1⟩, ⟨1, 4, 1⟩, ⟨0, 2, 2⟩, ⟨2, 3, 2⟩, ⟨3, 4, 2⟩]
    [[0, 2], [1], [3], [4], []] [[], [0], [2], [3], [1, 4]] [.turnRestriction [(3, 4)]]

/-- the same network without the short branch: the only route takes the restricted turn -/
def restrictedTurnOnly : Config ℚ :=
  mk 5 [⟨0, 1, 1⟩, ⟨1, 4, 1⟩, ⟨0, 2, 2⟩, ⟨2, 3, 2⟩, ⟨3, 4, 2⟩]
    [[2], [], [3], [4], []] [[], [], [2], [3], [4]] [.turnRestriction [(3, 4)]]

/-- 0 -e0→ 1 -e1→ 2 with the pair (e1, e0) "restricted": no route ever takes e1 before e0 -/
def reversedPair : Config ℚ :=
  mk 3 [⟨0, 1, 1⟩, ⟨1, 2, 1⟩] [[0], [1], []] [[], [0], [1]] [.turnRestriction [(1, 0)]]

theorem restrictedTurn_adj : restrictedTurn.fwd.AdjConsistent ∧ (restrictedTurn.rev []).AdjConsistent := by
  constructor
  · apply adj_of_lists
    · decide +kernel
    · decide
  · apply adj_of_lists
    · decide +kernel
    · decide

/-- (repaired) the alternative `[e2, e3, e4]`, reached through the via vertices 2 and 3, takes the
restricted turn (e3, e4): it is turned down by the frontier validation, the shortest route is
returned alone -/
theorem restrictedTurn_singleVia :
    idsOf (singleVia restrictedTurn (List.replicate 5 0) simAcceptAll .exact 0 4 2 [0, 1, 2, 4]
      [4, 1, 3, 0] [1, 2, 3]) = .ok [[0, 1]] := by
  decide +kernel

/-- … a turn the plain search refuses: where it is the only way, Dijkstra reports "no path" -/
theorem restrictedTurn_plain :
    idsOf (restrictedTurnOnly.runVertex 0 (some 4) [0, 2, 3]) = .error .noPath := by
  decide +kernel

/-- the plain search answers the query `0 → 2` on `reversedPair` … -/
theorem reversedPair_plain :
    idsOf (reversedPair.fwd.runVertex 0 (some 2) [0, 1, 2]) = .ok [[0, 1]] := by
  decide +kernel

/-- (repaired) … the reverse search still reports "no path" (it meets e0 with "previous" edge e1),
and single-via answers with the shortest route alone -/
theorem reversedPair_singleVia :
    idsOf (singleVia reversedPair (List.replicate 3 0) simAcceptAll .exact 0 2 2 [0, 1, 2] [2, 1] []) =
      .ok [[0, 1]] := by
  decide +kernel

/-- the diamond with lengths 1, 1, 3, 5/2, a time feature and a turn-delay table without an entry
for "left" (`Turn` number 4): edge headings 0, 0, 90, 0, so only the turn (e2, e3) is a left turn -/
def missingDelay : Config ℚ where
  nV := 4
  edges := [⟨0, 1, 1⟩, ⟨1, 3, 1⟩, ⟨0, 2, 3⟩, ⟨2, 3, 5 / 2⟩]
  outAdj := [[0, 2], [1], [3], []]
  inAdj := [[], [0], [2], [1, 3]]
  feats := [{ name := "distance", kind := .dist .meters, init := 0 },
            { name := "time", kind := .time .seconds, init := 0 }]
  trav := .distance .meters
  access := .turnDelay .seconds [(0, none), (0, none), (90, none), (0, none)]
    [some 1, some 1, some 1, some 1, none, some 1, some 1, some 1]
  cost := { indices := [0, 1], weights := [1, 0], vehicleRates := [.raw, .zero],
            networkRates := [.zero, .zero], agg := .sum }
  frontier := []
  term := .combined []
  reverse := false
  gc := List.replicate 4 0
  wf := some 0

/-- (repaired) the plain search answers `0 → 3`; the alternative through vertex 2, whose junction
turn has no delay entry, is dropped and single-via answers with the shortest route -/
theorem missingDelay_runs :
    idsOf (missingDelay.fwd.runVertex 0 (some 3) [0, 1, 3]) = .ok [[0, 1]] ∧
    idsOf (singleVia missingDelay (List.replicate 4 0) simAcceptAll .exact 0 3 2 [0, 1, 3] [3, 1, 0]
      [1, 2]) = .ok [[0, 1]] := by
  decide +kernel

/-! #### Yen's algorithm on concrete networks (each is a corpus witness of the harness, where the
real code shows the same behaviour; schedules are the ones the implementation took) -/

/-- decidable observation of a k-shortest-paths outcome -/
inductive Obs where
  | routes (ids : List (List Nat))
  | err (e : ErrKind)
  | diverges (why : String)
  deriving DecidableEq, Repr

def obsOf : KspOutcome ℚ → Obs
  | .ok r => .routes (r.routes.map (·.map (·.edge)))
  | .err e => .err e
  | .diverges why => .diverges why

/-- the state vectors along every returned route -/
def statesOf : KspOutcome ℚ → List (List (List ℚ))
  | .ok r => r.routes.map (·.map (·.state))
  | _ => []

theorem ok_of_obsOf {o : KspOutcome ℚ} {l : List (List Nat)} (h : obsOf o = .routes l) :
    ∃ r, o = .ok r ∧ r.routes.map (·.map (·.edge)) = l := by
  cases o with
  | ok r => simp only [obsOf, Obs.routes.injEq] at h; exact ⟨r, rfl, h⟩
  | err e => cases h
  | diverges w => cases h

/-- "similar" = at least `n` common edges (a stand-in for a cosine threshold over ℚ) -/
def shareAtLeast (n : Nat) : List Nat → List Nat → Except ErrKind Bool :=
  fun a b => .ok (decide (n ≤ (a.filter (fun e => b.contains e)).length))

/-- one-edge shortest route `0 -e0→ 1` (with a detour `0 → 2 → 1`) -/
def oneEdge : Config ℚ :=
  mk 3 [⟨0, 1, 1⟩, ⟨0, 2, 1⟩, ⟨2, 1, 1⟩] [[0, 1], [], [2]] [] []

/-- `0 → 1 → 2 → 3`, nothing else -/
def line3 : Config ℚ :=
  mk 4 [⟨0, 1, 1⟩, ⟨1, 2, 1⟩, ⟨2, 3, 1⟩] [[0], [1], [2], []] [] []

/-- `0 -e0→ 1 -e1→ 2 -e2→ 3` and the alternative `1 -e3→ 4 -e4→ 3` -/
def alt3 (frontier : List (FrontierM ℚ)) : Config ℚ :=
  mk 5 [⟨0, 1, 1⟩, ⟨1, 2, 1⟩, ⟨2, 3, 1⟩, ⟨1, 4, 2⟩, ⟨4, 3, 2⟩] [[0], [1, 3], [2], [], [4]] [] frontier

/-- four-edge route `0 → 1 → 2 → 3 → 4`, alternatives `1 → 5 → 4` (lengths `a`) and `2 → 6 → 4` (`b`) -/
def twoSpurs (a b : ℚ) : Config ℚ :=
  mk 7 [⟨0, 1, 1⟩, ⟨1, 2, 1⟩, ⟨2, 3, 1⟩, ⟨3, 4, 1⟩, ⟨1, 5, a⟩, ⟨5, 4, a⟩, ⟨2, 6, b⟩, ⟨6, 4, b⟩]
    [[0], [1, 4], [2, 6], [3], [], [5], [7]] [] []

/-- `0 → 1 → 2 → 3` and, from 1, back through the origin: `1 -e3→ 0 -e4→ 4 -e5→ 3` -/
def loopy : Config ℚ :=
  mk 5 [⟨0, 1, 1⟩, ⟨1, 2, 1⟩, ⟨2, 3, 1⟩, ⟨1, 0, 1⟩, ⟨0, 4, 2⟩, ⟨4, 3, 2⟩]
    [[0, 4], [1, 3], [2], [], [5]] [] []

/-- S = [e0,e1,e2], [e0,e3,e4,e5], [e0,e6,e7], [e0,e3,e8,e9] between 0 and 9 -/
def fan : Config ℚ :=
  mk 10 [⟨0, 1, 1⟩, ⟨1, 2, 1⟩, ⟨2, 9, 1⟩, ⟨1, 3, 1⟩, ⟨3, 4, 1⟩, ⟨4, 9, 1⟩, ⟨1, 5, 2⟩, ⟨5, 9, 2⟩,
         ⟨3, 6, 9 / 10⟩, ⟨6, 9, 9 / 10⟩]
    [[0], [1, 3, 6], [2], [4, 8], [5], [7], [9], [], [], []] [] []

/-- `0 ⇄ 1` -/
def pair : Config ℚ := mk 2 [⟨0, 1, 1⟩, ⟨1, 0, 1⟩] [[0], [1]] [] []

/-- `0 → 1 → 2 → 3` and the long direct edge `1 -e3→ 3` -/
def shortcut : Config ℚ :=
  mk 4 [⟨0, 1, 1⟩, ⟨1, 2, 1⟩, ⟨2, 3, 1⟩, ⟨1, 3, 5⟩] [[0], [1, 3], [2], []] [] []


/-! the old witnesses of Yen's defects, on the repaired algorithm -/

theorem yen_one_edge :
    obsOf (yens oneEdge simAcceptAll .exact 0 1 2 [[0, 1]]) = .routes [[0]] ∧
    obsOf (yens oneEdge (shareAtLeast 1) .exact 0 1 2 [[0, 1]]) = .routes [[0]] := by
  decide +kernel

theorem yen_two_edge : obsOf (yens diamond simAcceptAll .exact 0 3 2 [[0, 1, 3]]) = .routes [[0, 1]] := by
  decide +kernel

theorem yen_k0 : obsOf (yens diamond simAcceptAll .exact 0 3 0 [[0, 1, 3]]) = .routes [] := by
  decide +kernel

theorem yen_k1 : obsOf (yens diamond simAcceptAll .exact 0 3 1 [[0, 1, 3]]) = .routes [[0, 1]] := by
  decide +kernel

theorem yen_origin_is_destination :
    obsOf (yens pair simAcceptAll .exact 0 0 2 [[]]) = .routes [[]] := by
  decide +kernel

theorem yen_spur_failure :
    idsOf (line3.runVertex 0 (some 3) [0, 1, 2, 3]) = .ok [[0, 1, 2]] ∧
    obsOf (yens line3 simAcceptAll .exact 0 3 2 [[0, 1, 2, 3], [1, 3]]) = .routes [[0, 1, 2]] := by
  decide +kernel

theorem yen_state_accumulated :
    obsOf (yens (alt3 []) simAcceptAll .exact 0 3 2 [[0, 1, 2, 4, 3], [1, 4, 3]]) =
      .routes [[0, 1, 2], [0, 3, 4]] ∧
    statesOf (yens (alt3 []) simAcceptAll .exact 0 3 2 [[0, 1, 2, 4, 3], [1, 4, 3]]) =
      [[[1], [2], [3]], [[1], [3], [5]]] := by
  decide +kernel

theorem yen_no_duplicate :
    obsOf (yens (twoSpurs 2 3) simAcceptAll .exact 0 4 2 [[0, 1, 2, 5, 3, 4], [1, 5, 4], [2, 6, 4]]) =
      .routes [[0, 1, 2, 3], [0, 4, 5]] := by
  decide +kernel

theorem yen_at_most_k :
    obsOf (yens (twoSpurs 3 (3 / 2)) simAcceptAll .exact 0 4 2
      [[0, 1, 2, 3, 6, 4], [1, 5, 4], [2, 6, 4]]) = .routes [[0, 1, 2, 3], [0, 1, 6, 7]] ∧
    obsOf (yens (twoSpurs 3 (3 / 2)) simAcceptAll .exact 0 4 3
      [[0, 1, 2, 3, 6, 4], [1, 5, 4], [2, 6, 4], [1, 5, 4], [2]]) =
      .routes [[0, 1, 2, 3], [0, 1, 6, 7], [0, 4, 5]] := by
  decide +kernel

theorem yen_no_loop :
    obsOf (yens loopy simAcceptAll .exact 0 3 2 [[0, 1, 4, 2, 3], [1, 0, 4, 3]]) =
      .routes [[0, 1, 2]] := by
  decide +kernel

theorem yen_dissimilar :
    obsOf (yens fan (shareAtLeast 2) .exact 0 9 3
      [[0, 1, 2, 3, 6, 5, 4, 9], [1, 3, 6, 5, 4, 9], [1, 5, 9], [3, 4, 9]]) =
      .routes [[0, 1, 2], [0, 3, 8, 9], [0, 6, 7]] := by
  decide +kernel

theorem yen_restricted_turn :
    obsOf (yens (alt3 [.turnRestriction [(0, 3)]]) simAcceptAll .exact 0 3 2
      [[0, 1, 2, 3], [1, 4, 3]]) = .routes [[0, 1, 2]] := by
  decide +kernel

theorem yen_no_dissimilar_candidate :
    obsOf (yens (alt3 []) (shareAtLeast 1) .exact 0 3 2 [[0, 1, 2, 4, 3], [1, 4, 3]]) =
      .routes [[0, 1, 2]] := by
  decide +kernel

theorem yen_later_short_route :
    obsOf (yens shortcut simAcceptAll .exact 0 3 3 [[0, 1, 2, 3], [1, 3]]) =
      .routes [[0, 1, 2], [0, 3]] := by
  decide +kernel

theorem alt3_adj : (alt3 []).fwd.AdjConsistent := by
  apply adj_of_lists
  · decide +kernel
  · decide

/-! #### `AcceptAll` against a threshold under Yen's algorithm: NOT monotone -/

/-- `0 -e0→ 1 -e1→ 2 -e2→ 3 -e3→ 4` (lengths 1, 1/10, 2/5, 2/5) with the direct edge `e4 : 1 → 4`
(1) and the detours `2 -e5→ 5 -e6→ 4` (2, 2) and `2 -e7→ 6 -e8→ 4` (3, 3) -/
def net7 : Config ℚ :=
  mk 7 [⟨0, 1, 1⟩, ⟨1, 2, 1/10⟩, ⟨2, 3, 2/5⟩, ⟨3, 4, 2/5⟩, ⟨1, 4, 1⟩, ⟨2, 5, 2⟩, ⟨5, 4, 2⟩,
        ⟨2, 6, 3⟩, ⟨6, 4, 3⟩]
    [[0], [1, 4], [2, 5, 7], [3], [], [6], [8]] [] []

/-- `RouteSimilarityFunction::DistanceWeightedCosineSimilarity { threshold: 0.5 }` on `net7`, decided
without the square root (both sides of `cos ≥ 1/2` are non-negative, so it is
`(Σ_{common} d²)² ≥ 1/4 · Σ_a d² · Σ_b d²`): ℚ has no square root -/
def simCos7 : List Nat → List Nat → Except ErrKind Bool := fun a b =>
  let d : Nat → ℚ := fun e => match net7.edges[e]? with | some er => er.dist | none => 0
  let sq : List Nat → ℚ := fun l => (l.eraseDups.map (fun e => d e * d e)).sum
  let num := ((a.eraseDups.filter (fun e => b.contains e)).map (fun e => d e * d e)).sum
  .ok (decide ((1 / 4 : ℚ) * sq a * sq b ≤ num * num))

theorem net7_adj : net7.fwd.AdjConsistent := by
  apply adj_of_lists
  · decide +kernel
  · decide

/-- same network, `k = 3`, same criterion, same replayed schedules: `AcceptAll` returns two routes
(its second route `[e0, e4]` has two edges, so the next turn has no spur index), the threshold
three (it turns `[e0, e4]` down, accepts the four-edge `[e0, e1, e5, e6]` and spurs again) -/
theorem yen_accept_all_fewer :
    obsOf (yens net7 simAcceptAll .exact 0 4 3
      [[0, 1, 2, 3, 4], [1, 4], [2, 5, 6, 4], [1, 4], [2, 6, 4]]) = .routes [[0, 1, 2, 3], [0, 4]] ∧
    obsOf (yens net7 simCos7 .exact 0 4 3
      [[0, 1, 2, 3, 4], [1, 4], [2, 5, 6, 4], [1, 4], [2, 6, 4]]) =
        .routes [[0, 1, 2, 3], [0, 1, 5, 6], [0, 1, 7, 8]] := by
  decide +kernel
/-! #### the C03 stale-link witness seen through the two algorithms -/

/-- the configuration of `C03.staleConfig` (harness `stale_link_witness(false)`): `s=0, w=1, u=2, v=3,
t=4`; edges `e0: s→u` (1000), `e1: s→w`, `e2: w→u`, `e3: u→v`, `e4: v→t` (100 each); A* (weight
factor 1) with great-circle distances far above the edge lengths, so the estimate is inconsistent
for the network; a 2000 s delay on the right turn `(e2, e3)` -/
def stale : Config ℚ where
  nV := 5
  edges := [⟨0, 2, 1000⟩, ⟨0, 1, 100⟩, ⟨1, 2, 100⟩, ⟨2, 3, 100⟩, ⟨3, 4, 100⟩]
  outAdj := [[0, 1], [2], [3], [4], []]
  inAdj := [[], [1], [0, 2], [3], [4]]
  feats := [{ name := "distance", kind := .dist .meters, init := 0 },
            { name := "time", kind := .time .seconds, init := 0 }]
  trav := .distance .meters
  access := .turnDelay .seconds [(90, some 90), (0, some 0), (0, some 0), (90, some 90), (90, some 90)]
    [some 0, some 0, some 0, some 2000, some 0, some 0, some 0, some 0]
  cost := { indices := [0, 1], weights := [1, 1], vehicleRates := [.raw, .raw],
            networkRates := [.zero, .zero], agg := .sum }
  frontier := []
  term := .combined []
  reverse := false
  gc := [7000, 6000, 5000, 5200, 0]
  wf := some 1

/-- (edge, reported state) along every route of a single-via result -/
def svStatesOf (r : Except ErrKind (AlgResult ℚ)) : Option (List (List (Nat × List ℚ))) :=
  match r with
  | .ok res => some (res.routes.map (·.map (fun b => (b.edge, b.state))))
  | .error _ => none

/-- (edge, reported state) along every route of a Yen outcome -/
def yenStatesOf (o : KspOutcome ℚ) : Option (List (List (Nat × List ℚ))) :=
  match o with
  | .ok res => some (res.routes.map (·.map (fun b => (b.edge, b.state))))
  | _ => none

theorem stale_adj : stale.fwd.AdjConsistent ∧ (stale.rev [0, 0, 0, 0, 0]).AdjConsistent := by
  constructor
  · apply adj_of_lists
    · decide +kernel
    · decide
  · apply adj_of_lists
    · decide +kernel
    · decide

/-- both algorithms return the route `s→w→u→v→t` whose third element reports distance 1100 and time
0 (the entry of `v` was written when `u` was first closed through `e0`, label 1000; `u` was then
re-opened through `e2`), although `e3` traversed after `e2` from the state the route reports there
gives distance 300 and time 2000 -/
theorem stale_link_through_ksp :
    yenStatesOf (yens stale simAcceptAll .exact 0 4 1 [[0, 2, 1, 2, 3, 4]]) =
      some [[(1, [100, 0]), (2, [200, 0]), (3, [1100, 0]), (4, [1200, 0])]] ∧
    svStatesOf (singleVia stale [0, 0, 0, 0, 0] simAcceptAll .exact 0 4 1 [0, 2, 1, 2, 3, 4]
      [4, 3, 2, 0] []) = some [[(1, [100, 0]), (2, [200, 0]), (3, [1100, 0]), (4, [1200, 0])]] ∧
    (edgeTraversal stale.fwd 3 (some 2) [200, 0]).toOption.map (·.2.2) = some [300, 2000] := by
  decide +kernel


end Example

end Ksp
end Compass
