/-
Concrete configurations meet the premises of the C02 / C05 theorems.

`SearchOpt.UniformCost` cannot hold of a `Config.inst` (on a malformed state vector or an unknown
previous edge the traversal fails); `SearchOpt.UniformCostOn` can, and does for every configuration
whose edge cost "does not depend on how the edge was reached":

* no access model (`NoAccessModel`): nothing is charged for the turn, the state is not touched
  between the parent's state and the traversal;
* no turn-restriction frontier model: the verdict on an edge does not depend on the previous edge;
* adjacency lists consistent with the edge list (what the loader guarantees, C15).

Nothing else is needed — any traversal model of the instance layer (distance, speed table), any
weights, vehicle rates (offsets included), network rates, either aggregation, any feature list:

* the traversal models change each state slot by an amount `edgeDelta c e i` that depends on the
  edge alone (in a field `(x + d) − x = d`), and the cost model reads the two states only through
  their difference (C07), so `CostModel::traversal_cost` is a function `costOf c e` of the edge;
* the record built by `EdgeTraversal::forward_traversal` has `traversal_cost = total − access_cost`,
  so `access + traversal = total` whatever was charged for the access;
* `enforce_strictly_positive` makes `costOf c e > 0` for any sign of weights, rates and lengths;
* calls that fail (short state vector, missing feature, table too short, …) fail the run, and the
  theorems are about runs that returned.
-/
import Compass.Proofs.SearchRoute
import Compass.Proofs.Cost
import Compass.Props.C07

namespace Compass

set_option linter.unusedSectionVars false

section
variable {α : Type} [Field α] [LinearOrder α] [IsStrictOrderedRing α] [Lit α] [LawfulLit α]

open SearchOpt (Walk cost UniformCostOn UniformOn VertexHOn NoSpuriousNoPath Admissible)

/-! ### The state layer: `add_distance` / `add_time` change one slot by the converted amount -/

/-- the slot `add_distance(name)` writes and the unit of that feature -/
def distSlot (fs : List (Feat α)) (name : String) : Option (Nat × DistanceUnit) :=
  match featIndex fs name with
  | none => none
  | some i =>
    match fs[i]? with
    | none => none
    | some f =>
      match f.kind with
      | .dist fu => some (i, fu)
      | _ => none

/-- the slot `add_time(name)` writes and the unit of that feature -/
def timeSlot (fs : List (Feat α)) (name : String) : Option (Nat × TimeUnit) :=
  match featIndex fs name with
  | none => none
  | some i =>
    match fs[i]? with
    | none => none
    | some f =>
      match f.kind with
      | .time fu => some (i, fu)
      | _ => none

/-- change of slot `i` when `conv u` is added to the slot named by `slot` -/
def slotDelta {U : Type} (slot : Option (Nat × U)) (conv : U → α) (i : Nat) : α :=
  match slot with
  | some (j, u) => if i = j then conv u else 0
  | none => 0

theorem stateDelta_set (st : List α) (j : Nat) (x d : α) (hx : st[j]? = some x) (i : Nat) :
    stateDelta st (st.set j (x + d)) i = if i = j then d else 0 := by
  unfold stateDelta
  have hj : j < st.length := by
    rcases Nat.lt_or_ge j st.length with h | h
    · exact h
    · rw [List.getElem?_eq_none h] at hx; cases hx
  by_cases hij : i = j
  · subst hij
    have hxi : st[i] = x := by
      rw [List.getElem?_eq_getElem hj] at hx
      exact Option.some.inj hx
    simp [List.getD, hj, hxi]
  · have hji : j ≠ i := fun h => hij h.symm
    simp [List.getD, hji, hij]

theorem stateDelta_trans (a b c : List α) (i : Nat) :
    stateDelta a c i = stateDelta a b i + stateDelta b c i := by
  unfold stateDelta; ring

theorem addDistance_delta (fs : List (Feat α)) (st st' : List α) (name : String) (d : α)
    (fromU : DistanceUnit) (h : addDistance fs st name d fromU = some st') (i : Nat) :
    stateDelta st st' i = slotDelta (distSlot fs name) (fun fu => fromU.convert fu d) i := by
  unfold addDistance at h
  unfold distSlot
  cases hidx : featIndex fs name with
  | none => simp [hidx] at h
  | some j =>
    simp only [hidx] at h ⊢
    cases hs : st[j]? with
    | none => simp [hs] at h
    | some x =>
      cases hf : fs[j]? with
      | none => simp [hs, hf] at h
      | some f =>
        simp only [hs, hf] at h ⊢
        cases hk : f.kind with
        | dist fu =>
          simp only [hk, Option.some.injEq] at h ⊢
          subst h
          simp only [slotDelta]
          exact stateDelta_set st j x _ hs i
        | time u => simp [hk] at h
        | other => simp [hk] at h

theorem addTime_delta (fs : List (Feat α)) (st st' : List α) (name : String) (t : α)
    (fromU : TimeUnit) (h : addTime fs st name t fromU = some st') (i : Nat) :
    stateDelta st st' i = slotDelta (timeSlot fs name) (fun fu => fromU.convert fu t) i := by
  unfold addTime at h
  unfold timeSlot
  cases hidx : featIndex fs name with
  | none => simp [hidx] at h
  | some j =>
    simp only [hidx] at h ⊢
    cases hs : st[j]? with
    | none => simp [hs] at h
    | some x =>
      cases hf : fs[j]? with
      | none => simp [hs, hf] at h
      | some f =>
        simp only [hs, hf] at h ⊢
        cases hk : f.kind with
        | time fu =>
          simp only [hk, Option.some.injEq] at h ⊢
          subst h
          simp only [slotDelta]
          exact stateDelta_set st j x _ hs i
        | dist u => simp [hk] at h
        | other => simp [hk] at h

/-! ### The traversal models: the state change of an edge is a function of the edge -/

/-- change of state slot `i` over edge `e` (whatever the state before): the converted length in the
distance slot; with the speed-table model also the converted travel time in the time slot -/
def Config.edgeDelta (c : Config α) (e i : Nat) : α :=
  match c.edges[e]? with
  | none => 0
  | some er =>
    match c.trav with
    | .distance du =>
      slotDelta (distSlot c.feats "distance")
        (fun fu => du.convert fu (baseDistanceUnit.convert du er.dist)) i
    | .speed su du tu _ table =>
      match table[e]? with
      | none => 0
      | some sp =>
        match createTime sp su (baseDistanceUnit.convert du er.dist) du tu with
        | none => 0
        | some t =>
          slotDelta (timeSlot c.feats "time") (fun fu => tu.convert fu t) i
            + slotDelta (distSlot c.feats "distance")
                (fun fu => du.convert fu (baseDistanceUnit.convert du er.dist)) i

/-- whenever `traverse_edge` answers, the state changed by `edgeDelta`, whatever it was before -/
theorem traverse_delta (c : Config α) (e : Nat) (st st' : List α)
    (h : c.trav.traverse c.feats c.edges e st = some st') (i : Nat) :
    stateDelta st st' i = c.edgeDelta e i := by
  unfold TravModel.traverse at h
  unfold Config.edgeDelta
  cases he : c.edges[e]? with
  | none => simp [he] at h
  | some er =>
    simp only [he] at h ⊢
    cases ht : c.trav with
    | distance du =>
      simp only [ht] at h ⊢
      exact addDistance_delta _ _ _ _ _ _ h i
    | speed su du tu ms table =>
      simp only [ht] at h ⊢
      cases hsp : table[e]? with
      | none => simp [hsp] at h
      | some sp =>
        simp only [hsp] at h ⊢
        cases hct : createTime sp su (baseDistanceUnit.convert du er.dist) du tu with
        | none => simp [hct] at h
        | some t =>
          simp only [hct] at h ⊢
          cases h1 : addTime c.feats st "time" t tu with
          | none => simp [h1] at h
          | some st1 =>
            simp only [h1] at h
            rw [stateDelta_trans st st1 st' i, addTime_delta _ _ _ _ _ _ h1 i,
              addDistance_delta _ _ _ _ _ _ h i]

/-! ### The cost model reads the two states only through their difference -/

/-- `CostModel::traversal_cost` for edge `e` when state slot `i` changes by `δ i` -/
def CostModel.costOfDelta (m : CostModel α) (e : Nat) (δ : Nat → α) : α :=
  enforceStrictlyPositive
    (m.agg.agg (m.indices.map fun i => (m.vr i).mapValue (δ i) * m.wt i)
      + m.agg.agg (m.traversalTerms e))

theorem CostModel.traversalCost_of_delta (m : CostModel α) (e : Nat) (prev next : List α)
    (δ : Nat → α) (hδ : ∀ i, stateDelta prev next i = δ i) (t : α)
    (h : m.traversalCost e prev next = some t) : t = m.costOfDelta e δ := by
  unfold CostModel.traversalCost at h
  cases ht : m.traversalTotal e prev next with
  | none => simp [ht] at h
  | some tot =>
    have hr : m.InRange prev next := (m.traversalTotal_isSome_iff e prev next).mp (by simp [ht])
    simp only [ht, Option.some.injEq] at h
    rw [m.traversalTotal_eq e prev next hr] at ht
    rw [← h, ← Option.some.inj ht]
    unfold CostModel.costOfDelta CostModel.vehicleTerms
    simp only [hδ]

theorem CostModel.costOfDelta_pos (m : CostModel α) (e : Nat) (δ : Nat → α) :
    0 < m.costOfDelta e δ := enforceStrictlyPositive_pos _

/-- the same for the vehicle part alone (what `cost_estimate` clips) -/
theorem CostModel.vehicleCosts_of_delta (m : CostModel α) (prev next : List α)
    (δ : Nat → α) (hδ : ∀ i, stateDelta prev next i = δ i) (v : α)
    (h : m.vehicleCosts prev next = some v) :
    v = m.agg.agg (m.indices.map fun i => (m.vr i).mapValue (δ i) * m.wt i) := by
  have hr : m.InRangeV prev next := (m.vehicleCosts_isSome_iff prev next).mp (by simp [h])
  rw [m.vehicleCosts_eq prev next hr] at h
  rw [← Option.some.inj h]
  unfold CostModel.vehicleTerms
  simp only [hδ]

/-- the cost of edge `e` in configuration `c`: `traversal_cost` of the edge's own state change -/
def Config.costOf (c : Config α) (e : Nat) : α := c.cost.costOfDelta e (c.edgeDelta e)

theorem Config.costOf_pos (c : Config α) (e : Nat) : 0 < c.costOf e := c.cost.costOfDelta_pos _ _

/-- under sum aggregation: the floor applied to
`Σᵢ wᵢ·rateᵢ(Δᵢ e) + Σᵢ wᵢ·(per-edge surcharge of feature i)` (C07's sum formula) -/
theorem Config.costOf_sum (c : Config α) (hs : c.cost.agg = .sum) (e : Nat) :
    c.costOf e = enforceStrictlyPositive
      ((c.cost.indices.map fun i => c.cost.wt i * (c.cost.vr i).mapValue (c.edgeDelta e i)).sum
        + (c.cost.indices.map fun i => c.cost.wt i * (c.cost.nr i).traversalCost e).sum) := by
  unfold Config.costOf CostModel.costOfDelta CostModel.traversalTerms
  rw [hs, agg_sum, agg_sum]
  congr 2 <;> congr 1 <;> exact List.map_congr_left (fun i _ => by ring)

/-! ### `EdgeTraversal` without access model -/

theorem edgeAccess_noAccess (c : Config α) (hacc : c.access = .noAccess) (e : Nat)
    (last : Option Nat) (st : List α) (ac : α) (st1 : List α)
    (h : edgeAccess c e last st = .ok (ac, st1)) : st1 = st := by
  unfold edgeAccess at h
  cases last with
  | none =>
    simp only [Except.ok.injEq, Prod.mk.injEq] at h
    exact h.2.symm
  | some l =>
    simp only at h
    split at h
    · cases h
    · simp only [hacc, AccessModel.access] at h
      split at h
      · cases h
      · simp only [Except.ok.injEq, Prod.mk.injEq] at h
        exact h.2.symm

/-- without access model, whenever `forward_traversal` / `reverse_traversal` answers, the record's
`access + traversal` is `costOf c e`, whatever the previous edge and the state -/
theorem edgeTraversal_noAccess (c : Config α) (hacc : c.access = .noAccess) (e : Nat)
    (last : Option Nat) (st : List α) (ac tc : α) (st' : List α)
    (h : edgeTraversal c e last st = .ok (ac, tc, st')) : ac + tc = c.costOf e := by
  unfold edgeTraversal at h
  split at h
  · cases h
  · split at h
    · cases h
    · rename_i ac1 st1 hea
      have hst1 := edgeAccess_noAccess c hacc e last st ac1 st1 hea
      subst hst1
      split at h
      · cases h
      · rename_i st2 htr
        split at h
        · cases h
        · rename_i total htot
          simp only [Except.ok.injEq, Prod.mk.injEq] at h
          obtain ⟨h1, h2, h3⟩ := h
          subst h1 h2 h3
          have := c.cost.traversalCost_of_delta e st1 st2 (c.edgeDelta e)
            (traverse_delta c e st1 st2 htr) total htot
          rw [Config.costOf, ← this]
          ring

/-! ### Frontier models: without turn restrictions the verdict is a function of the edge -/

/-- the model does not look at the previous edge -/
def FrontierM.prevFree : FrontierM α → Bool
  | .turnRestriction _ => false
  | _ => true

theorem FrontierM.valid_prevFree (m : FrontierM α) (h : m.prevFree = true) (e : Nat)
    (prev : Option Nat) : m.valid e prev = m.valid e none := by
  cases m with
  | turnRestriction pairs => simp [FrontierM.prevFree] at h
  | roadClass allowed table => rfl
  | vehicle table params => rfl
  | edgeCut cut => rfl

theorem frontierValid_prevFree :
    ∀ (ms : List (FrontierM α)), ms.all FrontierM.prevFree = true → ∀ (e : Nat) (prev : Option Nat),
      frontierValid ms e prev = frontierValid ms e none
  | [], _, _, _ => rfl
  | m :: ms, h, e, prev => by
    simp only [List.all_cons, Bool.and_eq_true] at h
    simp only [frontierValid, m.valid_prevFree h.1 e prev, frontierValid_prevFree ms h.2 e prev]

/-- the frontier models' verdict on edge `e` (an erring model is read as "no": such an edge fails
every run that reaches it) -/
def Config.okOf (c : Config α) (e : Nat) : Bool :=
  match frontierValid c.frontier e none with
  | .ok b => b
  | .error _ => false

/-! ### The premise, and `UniformCostOn` -/

/-- "the cost of an edge does not depend on how the edge was reached": consistent adjacency, no
access model, no turn restrictions.  (Decidable but for `AdjConsistent`, which quantifies over the
adjacency lists.) -/
structure Config.EdgeLocal (c : Config α) : Prop where
  adj : c.AdjConsistent
  noAccess : c.access = .noAccess
  noTurn : c.frontier.all FrontierM.prevFree = true

/-- **every edge-local configuration meets `UniformCostOn`** (with the trivial invariant: the
partial-correctness premises hold on every call that answers) -/
theorem Config.uniformCostOn (c : Config α) (h : c.EdgeLocal) :
    UniformCostOn c.inst (fun _ _ => True) c.okOf c.costOf where
  incident_term := h.adj
  init_ok := trivial
  valid_eq := by
    intro e le st b _ hv
    simp only [Config.inst] at hv
    split at hv
    · cases hv
    · rw [frontierValid_prevFree c.frontier h.noTurn e le] at hv
      simp [Config.okOf, hv]
  trav_eq := by
    intro e le st ac tc st' _ _ ht
    exact ⟨edgeTraversal_noAccess c h.noAccess e le st ac tc st' ht, trivial⟩
  cost_pos := c.costOf_pos

/-! ### The estimate is a function of the vertex -/

/-- change of state slot `i` in `estimate_traversal` from vertex `v` (whatever the state) -/
def Config.estDelta (c : Config α) (v i : Nat) : α :=
  match c.gc[v]? with
  | none => 0
  | some gcm =>
    match c.trav with
    | .distance du =>
      slotDelta (distSlot c.feats "distance")
        (fun fu => du.convert fu (DistanceUnit.meters.convert du gcm)) i
    | .speed su du tu maxSpeed _ =>
      if DistanceUnit.meters.convert du gcm == (zero : α) then 0
      else
        match createTime maxSpeed su (DistanceUnit.meters.convert du gcm) du tu with
        | none => 0
        | some t =>
          slotDelta (timeSlot c.feats "time") (fun fu => tu.convert fu t) i
            + slotDelta (distSlot c.feats "distance")
                (fun fu => du.convert fu (DistanceUnit.meters.convert du gcm)) i

theorem estimate_delta (c : Config α) (v : Nat) (gcm : α) (hg : c.gc[v]? = some gcm)
    (st dst : List α) (h : c.trav.estimate c.feats gcm st = some dst) (i : Nat) :
    stateDelta st dst i = c.estDelta v i := by
  unfold TravModel.estimate at h
  unfold Config.estDelta
  simp only [hg]
  cases ht : c.trav with
  | distance du =>
    simp only [ht] at h ⊢
    exact addDistance_delta _ _ _ _ _ _ h i
  | speed su du tu ms table =>
    simp only [ht] at h ⊢
    by_cases hz : (DistanceUnit.meters.convert du gcm == (zero : α)) = true
    · simp only [hz, if_true, Option.some.injEq] at h ⊢
      subst h
      simp [stateDelta]
    · have hz' : (DistanceUnit.meters.convert du gcm == (zero : α)) = false := by simpa using hz
      simp only [hz', Bool.false_eq_true, if_false] at h ⊢
      cases hct : createTime ms su (DistanceUnit.meters.convert du gcm) du tu with
      | none => simp [hct] at h
      | some t =>
        simp only [hct] at h ⊢
        cases h1 : addTime c.feats st "time" t tu with
        | none => simp [h1] at h
        | some st1 =>
          simp only [h1] at h
          rw [stateDelta_trans st st1 dst i, addTime_delta _ _ _ _ _ _ h1 i,
            addDistance_delta _ _ _ _ _ _ h i]

/-- `weight_factor`, absent read as one -/
def Config.wfOf (c : Config α) : α :=
  match c.wf with
  | some w => w
  | none => 1

/-- the heuristic of configuration `c` as a function of the vertex -/
def Config.hOf (c : Config α) (v : Nat) : α :=
  enforceNonNegative
    (c.cost.agg.agg (c.cost.indices.map fun i => (c.cost.vr i).mapValue (c.estDelta v i) * c.cost.wt i))
    * c.wfOf

/-- whenever `estimate_traversal_cost` answers, it answers `hOf c v` — whatever the state -/
theorem estimate_eq (c : Config α) (v : Nat) (st : List α) (x : α)
    (h : estimate c v st = .ok x) : x = c.hOf v := by
  unfold estimate at h
  split at h
  · cases h
  · rename_i gcm hg
    split at h
    · cases h
    split at h
    · cases h
    · rename_i dst hd
      split at h
      · cases h
      · rename_i est hest
        injection h with h
        rw [← h]
        unfold CostModel.costEstimate at hest
        cases hv : c.cost.vehicleCosts st dst with
        | none => simp [hv] at hest
        | some vc =>
          simp only [hv, Option.some.injEq] at hest
          have := c.cost.vehicleCosts_of_delta st dst (c.estDelta v)
            (estimate_delta c v gcm hg st dst hd) vc hv
          unfold Config.hOf Config.wfOf
          rw [← hest, this]
          cases c.wf <;> simp [one_eq]

theorem Config.vertexHOn (c : Config α) : VertexHOn c.inst (fun _ _ => True) c.hOf := by
  intro v le st x _ h
  exact estimate_eq c v st x h

theorem Config.hOf_nonneg (c : Config α) (hwf : 0 ≤ c.wfOf) (v : Nat) : 0 ≤ c.hOf v :=
  mul_nonneg (enforceNonNegative_nonneg _) hwf

/-- Dijkstra is weight factor 0 -/
theorem Config.hOf_dijkstra (c : Config α) (hwf : c.wf = some 0) (v : Nat) : c.hOf v = 0 := by
  simp [Config.hOf, Config.wfOf, hwf]

theorem Config.uniformOn (c : Config α) (h : c.EdgeLocal) (hwf : 0 ≤ c.wfOf) :
    UniformOn c.inst (fun _ _ => True) c.okOf c.costOf c.hOf :=
  { c.uniformCostOn h with h_eq := c.vertexHOn, h_nonneg := c.hOf_nonneg hwf }

/-! ### No component of a configuration answers "no path" -/

theorem frontierValid_ne_noPath :
    ∀ (ms : List (FrontierM α)) (e : Nat) (prev : Option Nat),
      frontierValid ms e prev ≠ .error .noPath
  | [], _, _ => by simp [frontierValid]
  | m :: ms, e, prev => by
    intro h
    simp only [frontierValid] at h
    split at h
    · cases h
    · cases h
    · exact frontierValid_ne_noPath ms e prev h

theorem edgeAccess_ne_noPath (c : Config α) (e : Nat) (last : Option Nat) (st : List α) :
    edgeAccess c e last st ≠ .error .noPath := by
  intro h
  unfold edgeAccess at h
  split at h
  · cases h
  · split at h
    · cases h
    · simp only at h
      split at h
      · cases h
      · split at h <;> cases h

theorem edgeTraversal_ne_noPath (c : Config α) (e : Nat) (last : Option Nat) (st : List α) :
    edgeTraversal c e last st ≠ .error .noPath := by
  intro h
  unfold edgeTraversal at h
  split at h
  · cases h
  · split at h
    · rename_i k hk
      injection h with h
      exact edgeAccess_ne_noPath c e last st (h ▸ hk)
    · split at h
      · cases h
      · split at h <;> cases h

theorem estimate_ne_noPath (c : Config α) (v : Nat) (st : List α) :
    estimate c v st ≠ .error .noPath := by
  intro h
  unfold estimate at h
  split at h
  · cases h
  · split at h
    · cases h
    split at h
    · cases h
    · split at h <;> cases h

theorem TermM.test_ne_noPath (m : TermM) (size it : Nat) : m.test size it ≠ .error .noPath := by
  intro h
  unfold TermM.test at h
  split at h
  · cases h
  · cases h
  · split at h <;> cases h

theorem Config.noSpuriousNoPath (c : Config α) : NoSpuriousNoPath c.inst where
  valid := by
    intro e st le h
    simp only [Config.inst] at h
    split at h
    · cases h
    · exact frontierValid_ne_noPath _ _ _ h
  trav := fun e le st => edgeTraversal_ne_noPath c e le st
  h := fun v st => estimate_ne_noPath c v st
  term := fun n i => TermM.test_ne_noPath c.term n i

/-! ### C02 / C05 for concrete configurations (`Config.runVertex`) -/

/-- with weight factor 0 every (non-negative-cost) walk bounds the estimate: Dijkstra needs no
admissibility premise -/
theorem Config.admissible_dijkstra (c : Config α) (hwf : c.wf = some 0) (t : Nat) :
    Admissible c.inst c.okOf c.costOf c.hOf t := by
  intro v es _
  rw [c.hOf_dijkstra hwf]
  exact SearchOpt.cost_nonneg c.costOf_pos es

/-- **C02 on a concrete configuration, A\***: for every edge-local configuration with a non-negative
weight factor whose estimate is admissible for `t`, every source, every schedule: the route
`run_vertex_oriented` returns is a valid walk source ⇝ `t`, its summed cost is `Σ costOf` over its
edges, and no valid walk source ⇝ `t` costs less. -/
theorem config_astar_route_least_cost (c : Config α) (h : c.EdgeLocal) (hwf : 0 ≤ c.wfOf)
    {source t : Nat} (hts : t ≠ source) (hadm : Admissible c.inst c.okOf c.costOf c.hOf t)
    {sched : List Nat} {r : AlgResult α} (hrun : c.runVertex source (some t) sched = .ok r) :
    ∃ route, r.routes = [route] ∧ route ≠ [] ∧
      Walk c.inst c.okOf source (route.map (·.edge)) t ∧
      (route.map (fun b => b.access + b.traversal)).sum = cost c.costOf (route.map (·.edge)) ∧
      ∀ es, Walk c.inst c.okOf source es t →
        (route.map (fun b => b.access + b.traversal)).sum ≤ cost c.costOf es := by
  obtain ⟨res, hres, _, hroutes, _⟩ := SearchRoute.runVertex_ok hrun
  obtain ⟨route, d, hr, hne, hw, hsum, _, _, hmin⟩ :=
    SearchRoute.route_optimal_on (c.inst_wf h.adj) (c.uniformOn h hwf) hts hadm hres
  refine ⟨route, ?_, hne, hw, hsum, hmin⟩
  rw [hroutes, hr]; rfl

/-- **C02 on a concrete configuration, Dijkstra** (`weight_factor = 0`): for every edge-local
configuration, every source, target and schedule, the returned route has the least summed cost of
all valid walks — no premise on weights, rates, lengths, features or tables. -/
theorem config_dijkstra_route_least_cost (c : Config α) (h : c.EdgeLocal) (hwf : c.wf = some 0)
    {source t : Nat} (hts : t ≠ source)
    {sched : List Nat} {r : AlgResult α} (hrun : c.runVertex source (some t) sched = .ok r) :
    ∃ route, r.routes = [route] ∧ route ≠ [] ∧
      Walk c.inst c.okOf source (route.map (·.edge)) t ∧
      (route.map (fun b => b.access + b.traversal)).sum = cost c.costOf (route.map (·.edge)) ∧
      ∀ es, Walk c.inst c.okOf source es t →
        (route.map (fun b => b.access + b.traversal)).sum ≤ cost c.costOf es :=
  config_astar_route_least_cost c h (by simp [Config.wfOf, hwf]) hts
    (c.admissible_dijkstra hwf t) hrun

theorem runVertex_noPath {c : Config α} {source : Nat} {target : Option Nat} {sched : List Nat}
    (h : c.runVertex source target sched = .error .noPath) :
    runVertexOriented c.inst source target sched = .error .noPath := by
  unfold Config.runVertex at h
  split at h
  · rename_i k hk
    injection h with h
    rw [hk, h]
  · cases h

/-- a result of `Config.runVertex` towards `t` implies a valid walk to `t` -/
theorem config_result_implies_reachable (c : Config α) (h : c.EdgeLocal) {source t : Nat}
    {sched : List Nat} {r : AlgResult α} (hrun : c.runVertex source (some t) sched = .ok r) :
    ∃ es, Walk c.inst c.okOf source es t := by
  obtain ⟨res, hres, _⟩ := SearchRoute.runVertex_ok hrun
  by_cases hts : t = source
  · exact ⟨[], hts.symm⟩
  · obtain ⟨_, es, _, hw, _⟩ := SearchOpt.ok_imp_reachable_on (c.uniformCostOn h) c.vertexHOn hts
      (SearchRoute.runVertexOriented_final hres)
    exact ⟨es, hw⟩

/-- "no path" from `Config.runVertex` implies there is no valid walk — any weight factor, any
termination model, any schedule -/
theorem config_nopath_implies_unreachable (c : Config α) (h : c.EdgeLocal) {source t : Nat}
    {sched : List Nat} (hrun : c.runVertex source (some t) sched = .error .noPath) :
    ¬ ∃ es, Walk c.inst c.okOf source es t := by
  have hro := runVertex_noPath hrun
  by_cases hts : t = source
  · subst hts
    simp [runVertexOriented, runAStar, backtrack, backtrackAux] at hro
  · have hra := SearchTree.runVertexOriented_error (c.inst_wf h.adj) source t sched _ hts hro
    exact SearchOpt.nopath_imp_unreachable_on (c.uniformCostOn h) c.vertexHOn c.noSpuriousNoPath hra

/-- **C05 on a concrete configuration**: among the outcomes "a result" and "no path",
`Config.runVertex` answers "no path" exactly when no valid walk source ⇝ `t` exists, and returns a
result exactly when one does -/
theorem config_nopath_iff_unreachable (c : Config α) (h : c.EdgeLocal) {source t : Nat}
    {sched : List Nat}
    (hres : (∃ r, c.runVertex source (some t) sched = .ok r) ∨
      c.runVertex source (some t) sched = .error .noPath) :
    (c.runVertex source (some t) sched = .error .noPath ↔
        ¬ ∃ es, Walk c.inst c.okOf source es t) ∧
    ((∃ r, c.runVertex source (some t) sched = .ok r) ↔ ∃ es, Walk c.inst c.okOf source es t) := by
  refine ⟨⟨config_nopath_implies_unreachable c h, fun hno => ?_⟩,
    ⟨fun ⟨r, hr⟩ => config_result_implies_reachable c h hr, fun hex => ?_⟩⟩
  · rcases hres with ⟨r, hr⟩ | hnp
    · exact absurd (config_result_implies_reachable c h hr) hno
    · exact hnp
  · rcases hres with hr | hnp
    · exact hr
    · exact absurd hex (config_nopath_implies_unreachable c h hnp)

/-- **C05 / C02 on a concrete configuration, destination-less search**: the returned tree holds
exactly the vertices reachable by a valid walk (the source has no entry), and the parent chain of
every tree vertex is a valid walk of least summed cost -/
theorem config_tree_reachable_least_cost (c : Config α) (h : c.EdgeLocal) {source : Nat}
    {sched : List Nat} {r : AlgResult α} (hrun : c.runVertex source none sched = .ok r) :
    ∃ tree, r.trees = [tree] ∧
      (∀ v, (v = source ∨ (tree v).isSome) ↔ ∃ es, Walk c.inst c.okOf source es v) ∧
      ∀ v path, SearchTree.PathTo source tree v path →
        Walk c.inst c.okOf source (path.map (·.edge)) v ∧
        (path.map (fun b => b.access + b.traversal)).sum = cost c.costOf (path.map (·.edge)) ∧
        ∀ es, Walk c.inst c.okOf source es v →
          (path.map (fun b => b.access + b.traversal)).sum ≤ cost c.costOf es := by
  obtain ⟨res, hres, htrees, _, _⟩ := SearchRoute.runVertex_ok hrun
  have hra := (SearchRoute.runVertexOriented_none hres).1
  have hinv : SearchTree.TreeInv c.inst source res.final := by
    rcases SearchTree.runAStar_treeInv (c.inst_wf h.adj) source none sched _ hra with h0 | h'
    · cases h0.1
    · exact h'
  refine ⟨res.final.sol, htrees, fun v => ?_, fun v path hp => ?_⟩
  · rw [← SearchOpt.tree_eq_reachable_on (c.uniformCostOn h) hra v]
    constructor
    · exact fun hv => SearchTree.labelled_of_entry hinv hv
    · rintro ⟨x, hx⟩
      exact hinv.labelled v x hx
  · obtain ⟨x, _, hw, hsum, _, hmin⟩ :=
      SearchRoute.tree_paths_optimal_on (c.inst_wf h.adj) (c.uniformCostOn h) hra hp
    exact ⟨hw, hsum, hmin⟩

/-- **C02 through the edge-oriented wrapper** (`search_algorithm::run_edge_oriented`, non-adjacent
origin and destination edges): the summed cost of the returned route is the least cost of a valid
walk from the origin edge's head to the destination edge's tail, attained by its inner part -/
theorem config_edge_oriented_route_least_cost (c : Config α) (h : c.EdgeLocal) (hwf : 0 ≤ c.wfOf)
    (source tgt : Nat) (sched : List Nat) (r : AlgResult α)
    (e1 e2 : EdgeRec α) (h1 : c.edges[source]? = some e1) (h2 : c.edges[tgt]? = some e2)
    (hne : source ≠ tgt) (hnadj : e1.dst ≠ e2.src)
    (hadm : Admissible c.inst c.okOf c.costOf c.hOf e2.src)
    (hrun : c.runEdge source (some tgt) sched = .ok r) :
    ∃ (route inner : List (Branch α)) (last : Branch α), r.routes = [route] ∧
      route = SearchRoute.originBranch c source e1 :: inner
        ++ [SearchRoute.destBranch tgt e2 last.state] ∧
      Walk c.inst c.okOf e1.dst (inner.map (·.edge)) e2.src ∧
      (route.map (fun b => b.access + b.traversal)).sum = cost c.costOf (inner.map (·.edge)) ∧
      ∀ es, Walk c.inst c.okOf e1.dst es e2.src →
        (route.map (fun b => b.access + b.traversal)).sum ≤ cost c.costOf es :=
  SearchRoute.runEdge_route_optimal_on c h.adj (c.uniformOn h hwf) source tgt sched r e1 e2 h1 h2
    hne hnadj hadm hrun

/-- when the formula is positive the floor is not in the way: `costOf` *is* the weighted sum -/
theorem Config.costOf_sum_of_pos (c : Config α) (hs : c.cost.agg = .sum) (e : Nat)
    (hpos : 0 <
      (c.cost.indices.map fun i => c.cost.wt i * (c.cost.vr i).mapValue (c.edgeDelta e i)).sum
        + (c.cost.indices.map fun i => c.cost.wt i * (c.cost.nr i).traversalCost e).sum) :
    c.costOf e =
      (c.cost.indices.map fun i => c.cost.wt i * (c.cost.vr i).mapValue (c.edgeDelta e i)).sum
        + (c.cost.indices.map fun i => c.cost.wt i * (c.cost.nr i).traversalCost e).sum := by
  rw [c.costOf_sum hs e, enforceStrictlyPositive_of_pos hpos]

/-! ### The state change of an edge, spelled out for the two traversal models -/

theorem Config.edgeDelta_distance (c : Config α) {du : DistanceUnit} (ht : c.trav = .distance du)
    {e : Nat} {er : EdgeRec α} (he : c.edges[e]? = some er) (i : Nat) :
    c.edgeDelta e i = slotDelta (distSlot c.feats "distance")
      (fun fu => du.convert fu (baseDistanceUnit.convert du er.dist)) i := by
  simp [Config.edgeDelta, he, ht]

theorem Config.edgeDelta_speed (c : Config α) {su : SpeedUnit} {du : DistanceUnit} {tu : TimeUnit}
    {ms : α} {table : List α} (ht : c.trav = .speed su du tu ms table)
    {e : Nat} {er : EdgeRec α} (he : c.edges[e]? = some er) {sp t : α} (hsp : table[e]? = some sp)
    (hct : createTime sp su (baseDistanceUnit.convert du er.dist) du tu = some t) (i : Nat) :
    c.edgeDelta e i = slotDelta (timeSlot c.feats "time") (fun fu => tu.convert fu t) i
      + slotDelta (distSlot c.feats "distance")
          (fun fu => du.convert fu (baseDistanceUnit.convert du er.dist)) i := by
  simp [Config.edgeDelta, he, ht, hsp, hct]

end

/-! ### Non-vacuity: concrete configurations over ℚ

Five vertices (4 is isolated), eight edges: 0: 0→1 (1000 m), 1: 1→2 (2000 m), 2: 2→3 (500 m),
3: 1→1 (self loop), 4: 3→1 (closes a cycle), 5: 2→2 (self loop), 6: 0→3 (10 m, a shortcut the
frontier model forbids), 7: 1→3 (3000 m).

* `exC`: distance model in metres writing a *kilometre* feature; cost = 2 · (3 · km + 1) plus a
  surcharge of 5 on edge 2 (weight 2, a combined rate with an **offset**, an edge lookup); weight
  factor 0 (Dijkstra).  By length the best route is `[0, 1, 2]`; by cost it is `[0, 7]`.
* `exS`: speed-table model (km/h table, seconds, a minutes feature), cost = travel time; edge 7 is
  slow, the best route is `[0, 1, 2]`.
* `exA`: raw distance cost, weight factor one, a great-circle table that is consistent with the edge
  lengths: A* with an admissible non-zero estimate. -/

namespace ConfigUniform.Example

open SearchOpt (Walk cost Admissible)
open SearchRoute.Example (routeEdgesOf routeCostsOf ok_of_routeEdgesOf)

def exC : Config ℚ where
  nV := 5
  edges := [⟨0, 1, 1000⟩, ⟨1, 2, 2000⟩, ⟨2, 3, 500⟩, ⟨1, 1, 100⟩, ⟨3, 1, 700⟩, ⟨2, 2, 50⟩,
            ⟨0, 3, 10⟩, ⟨1, 3, 3000⟩]
  outAdj := [[0, 6], [1, 3, 7], [2, 5], [4]]
  inAdj := [[], [0, 3, 4], [1, 5], [2, 6, 7]]
  feats := [{ name := "distance", kind := .dist .kilometers, init := 0 }]
  trav := .distance .meters
  access := .noAccess
  cost := { indices := [0], weights := [2], vehicleRates := [.combined [.factor 3, .offset 1]],
            networkRates := [.edgeLookup [(2, 5)]], agg := .sum }
  frontier := [.edgeCut [6]]
  term := .iters 100
  reverse := false
  gc := [0, 0, 0, 0, 0]
  wf := some 0

def exS : Config ℚ := { exC with
  feats := [{ name := "distance", kind := .dist .meters, init := 0 },
            { name := "time", kind := .time .minutes, init := 0 }]
  trav := .speed .kilometersPerHour .meters .seconds 72 [36, 36, 36, 36, 36, 36, 36, 18]
  cost := { indices := [0, 1], weights := [0, 1], vehicleRates := [.raw, .raw],
            networkRates := [.zero, .zero], agg := .sum } }

def exA : Config ℚ := { exC with
  feats := [{ name := "distance", kind := .dist .meters, init := 0 }]
  cost := { indices := [0], weights := [1], vehicleRates := [.raw], networkRates := [.zero],
            agg := .sum }
  gc := [3000, 2400, 500, 0, 0]
  wf := none }

/-- adjacency consistency only reads the edge list, the adjacency lists and the direction -/
theorem adj_of (c : Config ℚ) (he : c.edges = exC.edges) (ho : c.outAdj = exC.outAdj)
    (hr : c.reverse = false) : c.AdjConsistent := by
  intro v e hmem
  simp only [Config.inst, hr, he, ho] at hmem ⊢
  match v with
  | 0 => simp [exC] at hmem; rcases hmem with rfl | rfl <;> rfl
  | 1 => simp [exC] at hmem; rcases hmem with rfl | rfl | rfl <;> rfl
  | 2 => simp [exC] at hmem; rcases hmem with rfl | rfl <;> rfl
  | 3 => simp [exC] at hmem; subst hmem; rfl
  | n + 4 => simp [exC] at hmem

theorem exC_edgeLocal : exC.EdgeLocal := ⟨adj_of exC rfl rfl rfl, rfl, rfl⟩
theorem exS_edgeLocal : exS.EdgeLocal := ⟨adj_of exS rfl rfl rfl, rfl, rfl⟩
theorem exA_edgeLocal : exA.EdgeLocal := ⟨adj_of exA rfl rfl rfl, rfl, rfl⟩

/-- the same network searched backwards (from vertex 3 over the in-edges) -/
def exR : Config ℚ := { exC with reverse := true }

theorem exR_edgeLocal : exR.EdgeLocal := by
  refine ⟨?_, rfl, rfl⟩
  intro v e hmem
  simp only [Config.inst, exR] at hmem ⊢
  match v with
  | 0 => simp [exC] at hmem
  | 1 => simp [exC] at hmem; rcases hmem with rfl | rfl | rfl <;> rfl
  | 2 => simp [exC] at hmem; rcases hmem with rfl | rfl <;> rfl
  | 3 => simp [exC] at hmem; rcases hmem with rfl | rfl | rfl <;> rfl
  | n + 4 => simp [exC] at hmem

/-- the runs: by cost `[0, 7]` (Dijkstra on `exC`), by time `[0, 1, 2]` (`exS`), A* `[0, 1, 2]`
(`exA`), reverse search `[7, 0]` (`exR`, in the order of the search direction) -/
theorem exC_run : routeEdgesOf (exC.runVertex 0 (some 3) [0, 1, 2, 3]) = some [[0, 7]] := by
  decide +kernel
theorem exS_run : routeEdgesOf (exS.runVertex 0 (some 3) [0, 1, 2, 3]) = some [[0, 1, 2]] := by
  decide +kernel
theorem exA_run : routeEdgesOf (exA.runVertex 0 (some 3) [0, 1, 2, 3]) = some [[0, 1, 2]] := by
  decide +kernel
theorem exR_run : routeEdgesOf (exR.runVertex 3 (some 0) [3, 2, 1, 0]) = some [[7, 0]] := by
  decide +kernel

def errOf (r : Except ErrKind (AlgResult ℚ)) : Option ErrKind :=
  match r with
  | .ok _ => none
  | .error k => some k

/-- vertex 4 is isolated: the run towards it ends with "no path" -/
theorem exC_nopath : exC.runVertex 0 (some 4) [0, 1, 2, 3] = .error .noPath := by
  have h : errOf (exC.runVertex 0 (some 4) [0, 1, 2, 3]) = some .noPath := by decide +kernel
  cases hr : exC.runVertex 0 (some 4) [0, 1, 2, 3] with
  | error k =>
    rw [hr] at h
    simp only [errOf, Option.some.injEq] at h
    rw [h]
  | ok s => rw [hr] at h; simp [errOf] at h

/-- the estimate of `exA` is the great-circle table, consistent with the edge costs, hence admissible -/
theorem exA_admissible : Admissible exA.inst exA.okOf exA.costOf exA.hOf 3 := by
  apply SearchOpt.admissible_of_consistent
  · have key : ∀ v ∈ List.range 4, ∀ e ∈ exA.inst.incident v, exA.okOf e = true →
        exA.hOf v ≤ exA.costOf e + exA.hOf (exA.inst.keyV e) := by decide +kernel
    intro v e he hok
    by_cases hv : v < 4
    · exact key v (List.mem_range.2 hv) e he hok
    · obtain ⟨n, rfl⟩ : ∃ n, v = n + 4 := ⟨v - 4, by omega⟩
      simp [Config.inst, exA, exC] at he
  · decide +kernel

/-- the estimate is not the zero function: A* really uses it -/
theorem exA_h0 : exA.hOf 0 = 3000 := by decide +kernel

end ConfigUniform.Example

end Compass
