/-
Concrete configurations meet the premises of the C02 / C05 theorems.

`SearchOpt.UniformCost` cannot hold of a `Config.inst` (on a malformed state vector or an unknown
previous edge the traversal fails); `SearchOpt.UniformCostOn` can, and does for every configuration
whose edge cost "does not depend on how the edge was reached":

* no access model (`NoAccessModel`): nothing is charged for the turn, the state is not touched
  between the parent's state and the traversal;
* no turn-restriction frontier model: the verdict on an edge does not depend on the previous edge;
* adjacency lists consistent with the edge list (what the loader guarantees, C15).

Nothing else is needed — any traversal model of the instance layer (distance, speed table), any
weights, vehicle rates (offsets included), network rates, either aggregation, any feature list:

* the traversal models change each state slot by an amount `edgeDelta c e i` that depends on the
  edge alone (in a field `(x + d) − x = d`), and the cost model reads the two states only through
  their difference (C07), so `CostModel::traversal_cost` is a function `costOf c e` of the edge;
* the record built by `EdgeTraversal::forward_traversal` has `traversal_cost = total − access_cost`,
  so `access + traversal = total` whatever was charged for the access;
* `enforce_strictly_positive` makes `costOf c e > 0` for any sign of weights, rates and lengths;
* calls that fail (short state vector, missing feature, table too short, …) fail the run, and the
  theorems are about runs that returned.
-/
import Compass.Proofs.SearchRoute
import Compass.Proofs.Cost
import Compass.Props.C07

namespace Compass

set_option linter.unusedSectionVars false

section
variable {α : Type} [Field α] [LinearOrder α] [IsStrictOrderedRing α] [Lit α] [LawfulLit α] [BEq α]

open SearchOpt (Walk cost UniformCostOn UniformOn VertexHOn NoSpuriousNoPath Admissible)

/-! ### The state layer: `add_distance` / `add_time` change one slot by the converted amount -/

/-- the slot `add_distance(name)` writes and the unit of that feature -/
def distSlot (fs : List (Feat α)) (name : String) : Option (Nat × DistanceUnit) :=
  match featIndex fs name with
  | none => none
  | some i =>
    match fs[i]? with
    | none => none
    | some f =>
      match f.kind with
      | .dist fu => some (i, fu)
      | _ => none

/-- the slot `add_time(name)` writes and the unit of that feature -/
def timeSlot (fs : List (Feat α)) (name : String) : Option (Nat × TimeUnit) :=
  match featIndex fs name with
  | none => none
  | some i =>
    match fs[i]? with
    | none => none
    | some f =>
      match f.kind with
      | .time fu => some (i, fu)
      | _ => none

/-- change of slot `i` when `conv u` is added to the slot named by `slot` -/
def slotDelta {U : Type} (slot : Option (Nat × U)) (conv : U → α) (i : Nat) : α :=
  match slot with
  | some (j, u) => if i = j then conv u else 0
  | none => 0

theorem stateDelta_set (st : List α) (j : Nat) (x d : α) (hx : st[j]? = some x) (i : Nat) :
    stateDelta st (st.set j (x + d)) i = if i = j then d else 0 := by
  unfold stateDelta
  have hj : j < st.length := by
    rcases Nat.lt_or_ge j st.length with h | h
    · exact h
    · rw [List.getElem?_eq_none h] at hx; cases hx
  by_cases hij : i = j
  · subst hij
    have hxi : st[i] = x := by
      rw [List.getElem?_eq_getElem hj] at hx
      exact Option.some.inj hx
    simp [List.getD, hj, hxi]
  · have hji : j ≠ i := fun h => hij h.symm
    simp [List.getD, hji, hij]

theorem stateDelta_trans (a b c : List α) (i : Nat) :
    stateDelta a c i = stateDelta a b i + stateDelta b c i := by
  unfold stateDelta; ring

theorem addDistance_delta (fs : List (Feat α)) (st st' : List α) (name : String) (d : α)
    (fromU : DistanceUnit) (h : addDistance fs st name d fromU = some st') (i : Nat) :
    stateDelta st st' i = slotDelta (distSlot fs name) (fun fu => fromU.convert fu d) i := by
  unfold addDistance at h
  unfold distSlot
  cases hidx : featIndex fs name with
  | none => simp [hidx] at h
  | some j =>
    simp only [hidx] at h ⊢
    cases hs : st[j]? with
    | none => simp [hs] at h
    | some x =>
      cases hf : fs[j]? with
      | none => simp [hs, hf] at h
      | some f =>
        simp only [hs, hf] at h ⊢
        cases hk : f.kind with
        | dist fu =>
          simp only [hk, Option.some.injEq] at h ⊢
          subst h
          simp only [slotDelta]
          exact stateDelta_set st j x _ hs i
        | time u => simp [hk] at h
        | other => simp [hk] at h

theorem addTime_delta (fs : List (Feat α)) (st st' : List α) (name : String) (t : α)
    (fromU : TimeUnit) (h : addTime fs st name t fromU = some st') (i : Nat) :
    stateDelta st st' i = slotDelta (timeSlot fs name) (fun fu => fromU.convert fu t) i := by
  unfold addTime at h
  unfold timeSlot
  cases hidx : featIndex fs name with
  | none => simp [hidx] at h
  | some j =>
    simp only [hidx] at h ⊢
    cases hs : st[j]? with
    | none => simp [hs] at h
    | some x =>
      cases hf : fs[j]? with
      | none => simp [hs, hf] at h
      | some f =>
        simp only [hs, hf] at h ⊢
        cases hk : f.kind with
        | time fu =>
          simp only [hk, Option.some.injEq] at h ⊢
          subst h
          simp only [slotDelta]
          exact stateDelta_set st j x _ hs i
        | dist u => simp [hk] at h
        | other => simp [hk] at h

/-! ### The traversal models: the state change of an edge is a function of the edge -/

/-- change of state slot `i` over edge `e` (whatever the state before): the converted length in the
distance slot; with the speed-table model also the converted travel time in the time slot -/
def Config.edgeDelta (c : Config α) (e i : Nat) : α :=
  match c.edges[e]? with
  | none => 0
  | some er =>
    match c.trav with
    | .distance du =>
      slotDelta (distSlot c.feats "distance")
        (fun fu => du.convert fu (baseDistanceUnit.convert du er.dist)) i
    | .speed su du tu _ table =>
      match table[e]? with
      | none => 0
      | some sp =>
        match createTime sp su (baseDistanceUnit.convert du er.dist) du tu with
        | none => 0
        | some t =>
          slotDelta (timeSlot c.feats "time") (fun fu => tu.convert fu t) i
            + slotDelta (distSlot c.feats "distance")
                (fun fu => du.convert fu (baseDistanceUnit.convert du er.dist)) i

/-- whenever `traverse_edge` answers, the state changed by `edgeDelta`, whatever it was before -/
theorem traverse_delta (c : Config α) (e : Nat) (st st' : List α)
    (h : c.trav.traverse c.feats c.edges e st = some st') (i : Nat) :
    stateDelta st st' i = c.edgeDelta e i := by
  unfold TravModel.traverse at h
  unfold Config.edgeDelta
  cases he : c.edges[e]? with
  | none => simp [he] at h
  | some er =>
    simp only [he] at h ⊢
    cases ht : c.trav with
    | distance du =>
      simp only [ht] at h ⊢
      exact addDistance_delta _ _ _ _ _ _ h i
    | speed su du tu ms table =>
      simp only [ht] at h ⊢
      cases hsp : table[e]? with
      | none => simp [hsp] at h
      | some sp =>
        simp only [hsp] at h ⊢
        cases hct : createTime sp su (baseDistanceUnit.convert du er.dist) du tu with
        | none => simp [hct] at h
        | some t =>
          simp only [hct] at h ⊢
          cases h1 : addTime c.feats st "time" t tu with
          | none => simp [h1] at h
          | some st1 =>
            simp only [h1] at h
            rw [stateDelta_trans st st1 st' i, addTime_delta _ _ _ _ _ _ h1 i,
              addDistance_delta _ _ _ _ _ _ h i]

/-! ### The cost model reads the two states only through their difference -/

/-- `CostModel::traversal_cost` for edge `e` when state slot `i` changes by `δ i` -/
def CostModel.costOfDelta (m : CostModel α) (e : Nat) (δ : Nat → α) : α :=
  enforceStrictlyPositive
    (m.agg.agg (m.indices.map fun i => (m.vr i).mapValue (δ i) * m.wt i)
      + m.agg.agg (m.traversalTerms e))

theorem CostModel.traversalCost_of_delta (m : CostModel α) (e : Nat) (prev next : List α)
    (δ : Nat → α) (hδ : ∀ i, stateDelta prev next i = δ i) (t : α)
    (h : m.traversalCost e prev next = some t) : t = m.costOfDelta e δ := by
  unfold CostModel.traversalCost at h
  cases ht : m.traversalTotal e prev next with
  | none => simp [ht] at h
  | some tot =>
    have hr : m.InRange prev next := (m.traversalTotal_isSome_iff e prev next).mp (by simp [ht])
    simp only [ht, Option.some.injEq] at h
    rw [m.traversalTotal_eq e prev next hr] at ht
    rw [← h, ← Option.some.inj ht]
    unfold CostModel.costOfDelta CostModel.vehicleTerms
    simp only [hδ]

theorem CostModel.costOfDelta_pos (m : CostModel α) (e : Nat) (δ : Nat → α) :
    0 < m.costOfDelta e δ := enforceStrictlyPositive_pos _

/-- the same for the vehicle part alone (what `cost_estimate` clips) -/
theorem CostModel.vehicleCosts_of_delta (m : CostModel α) (prev next : List α)
    (δ : Nat → α) (hδ : ∀ i, stateDelta prev next i = δ i) (v : α)
    (h : m.vehicleCosts prev next = some v) :
    v = m.agg.agg (m.indices.map fun i => (m.vr i).mapValue (δ i) * m.wt i) := by
  have hr : m.InRangeV prev next := (m.vehicleCosts_isSome_iff prev next).mp (by simp [h])
  rw [m.vehicleCosts_eq prev next hr] at h
  rw [← Option.some.inj h]
  unfold CostModel.vehicleTerms
  simp only [hδ]

/-- the cost of edge `e` in configuration `c`: `traversal_cost` of the edge's own state change -/
def Config.costOf (c : Config α) (e : Nat) : α := c.cost.costOfDelta e (c.edgeDelta e)

theorem Config.costOf_pos (c : Config α) (e : Nat) : 0 < c.costOf e := c.cost.costOfDelta_pos _ _

/-- under sum aggregation: the floor applied to
`Σᵢ wᵢ·rateᵢ(Δᵢ e) + Σᵢ wᵢ·(per-edge surcharge of feature i)` (C07's sum formula) -/
theorem Config.costOf_sum (c : Config α) (hs : c.cost.agg = .sum) (e : Nat) :
    c.costOf e = enforceStrictlyPositive
      ((c.cost.indices.map fun i => c.cost.wt i * (c.cost.vr i).mapValue (c.edgeDelta e i)).sum
        + (c.cost.indices.map fun i => c.cost.wt i * (c.cost.nr i).traversalCost e).sum) := by
  unfold Config.costOf CostModel.costOfDelta CostModel.traversalTerms
  rw [hs, agg_sum, agg_sum]
  congr 2 <;> congr 1 <;> exact List.map_congr_left (fun i _ => by ring)

/-! ### `EdgeTraversal` without access model -/

theorem edgeAccess_noAccess (c : Config α) (hacc : c.access = .noAccess) (e : Nat)
    (last : Option Nat) (st : List α) (ac : α) (st1 : List α)
    (h : edgeAccess c e last st = .ok (ac, st1)) : st1 = st := by
  unfold edgeAccess at h
  cases last with
  | none =>
    simp only [Except.ok.injEq, Prod.mk.injEq] at h
    exact h.2.symm
  | some l =>
    simp only at h
    split at h
    · cases h
    · simp only [hacc, AccessModel.access] at h
      split at h
      · cases h
      · simp only [Except.ok.injEq, Prod.mk.injEq] at h
        exact h.2.symm

/-- without access model, whenever `forward_traversal` / `reverse_traversal` answers, the record's
`access + traversal` is `costOf c e`, whatever the previous edge and the state -/
theorem edgeTraversal_noAccess (c : Config α) (hacc : c.access = .noAccess) (e : Nat)
    (last : Option Nat) (st : List α) (ac tc : α) (st' : List α)
    (h : edgeTraversal c e last st = .ok (ac, tc, st')) : ac + tc = c.costOf e := by
  unfold edgeTraversal at h
  split at h
  · cases h
  · split at h
    · cases h
    · rename_i ac1 st1 hea
      have hst1 := edgeAccess_noAccess c hacc e last st ac1 st1 hea
      subst hst1
      split at h
      · cases h
      · rename_i st2 htr
        split at h
        · cases h
        · rename_i total htot
          simp only [Except.ok.injEq, Prod.mk.injEq] at h
          obtain ⟨h1, h2, h3⟩ := h
          subst h1 h2 h3
          have := c.cost.traversalCost_of_delta e st1 st2 (c.edgeDelta e)
            (traverse_delta c e st1 st2 htr) total htot
          rw [Config.costOf, ← this]
          ring

/-! ### Frontier models: without turn restrictions the verdict is a function of the edge -/

/-- the model does not look at the previous edge -/
def FrontierM.prevFree : FrontierM α → Bool
  | .turnRestriction _ => false
  | _ => true

theorem FrontierM.valid_prevFree (m : FrontierM α) (h : m.prevFree = true) (e : Nat)
    (prev : Option Nat) : m.valid e prev = m.valid e none := by
  cases m with
  | turnRestriction pairs => simp [FrontierM.prevFree] at h
  | roadClass allowed table => rfl
  | vehicle table params => rfl
  | edgeCut cut => rfl

theorem frontierValid_prevFree :
    ∀ (ms : List (FrontierM α)), ms.all FrontierM.prevFree = true → ∀ (e : Nat) (prev : Option Nat),
      frontierValid ms e prev = frontierValid ms e none
  | [], _, _, _ => rfl
  | m :: ms, h, e, prev => by
    simp only [List.all_cons, Bool.and_eq_true] at h
    simp only [frontierValid, m.valid_prevFree h.1 e prev, frontierValid_prevFree ms h.2 e prev]

/-- the frontier models' verdict on edge `e` (an erring model is read as "no": such an edge fails
every run that reaches it) -/
def Config.okOf (c : Config α) (e : Nat) : Bool :=
  match frontierValid c.frontier e none with
  | .ok b => b
  | .error _ => false

/-! ### The premise, and `UniformCostOn` -/

/-- "the cost of an edge does not depend on how the edge was reached": consistent adjacency, no
access model, no turn restrictions.  (Decidable but for `AdjConsistent`, which quantifies over the
adjacency lists.) -/
structure Config.EdgeLocal (c : Config α) : Prop where
  adj : c.AdjConsistent
  noAccess : c.access = .noAccess
  noTurn : c.frontier.all FrontierM.prevFree = true

/-- **every edge-local configuration meets `UniformCostOn`** (with the trivial invariant: the
partial-correctness premises hold on every call that answers) -/
theorem Config.uniformCostOn (c : Config α) (h : c.EdgeLocal) :
    UniformCostOn c.inst (fun _ _ => True) c.okOf c.costOf where
  incident_term := h.adj
  init_ok := trivial
  valid_eq := by
    intro e le st b _ hv
    simp only [Config.inst] at hv
    split at hv
    · cases hv
    · rw [frontierValid_prevFree c.frontier h.noTurn e le] at hv
      simp [Config.okOf, hv]
  trav_eq := by
    intro e le st ac tc st' _ _ ht
    exact ⟨edgeTraversal_noAccess c h.noAccess e le st ac tc st' ht, trivial⟩
  cost_pos := c.costOf_pos

/-! ### The estimate is a function of the vertex -/

/-- change of state slot `i` in `estimate_traversal` from vertex `v` (whatever the state) -/
def Config.estDelta (c : Config α) (v i : Nat) : α :=
  match c.gc[v]? with
  | none => 0
  | some gcm =>
    match c.trav with
    | .distance du =>
      slotDelta (distSlot c.feats "distance")
        (fun fu => du.convert fu (DistanceUnit.meters.convert du gcm)) i
    | .speed su du tu maxSpeed _ =>
      if DistanceUnit.meters.convert du gcm == (zero : α) then 0
      else
        match createTime maxSpeed su (DistanceUnit.meters.convert du gcm) du tu with
        | none => 0
        | some t =>
          slotDelta (timeSlot c.feats "time") (fun fu => tu.convert fu t) i
            + slotDelta (distSlot c.feats "distance")
                (fun fu => du.convert fu (DistanceUnit.meters.convert du gcm)) i

theorem estimate_delta (c : Config α) (v : Nat) (gcm : α) (hg : c.gc[v]? = some gcm)
    (st dst : List α) (h : c.trav.estimate c.feats gcm st = some dst) (i : Nat) :
    stateDelta st dst i = c.estDelta v i := by
  unfold TravModel.estimate at h
  unfold Config.estDelta
  simp only [hg]
  cases ht : c.trav with
  | distance du =>
    simp only [ht] at h ⊢
    exact addDistance_delta _ _ _ _ _ _ h i
  | speed su du tu ms table =>
    simp only [ht] at h ⊢
    by_cases hz : (DistanceUnit.meters.convert du gcm == (zero : α)) = true
    · simp only [hz, if_true, Option.some.injEq] at h ⊢
      subst h
      simp [stateDelta]
    · have hz' : (DistanceUnit.meters.convert du gcm == (zero : α)) = false := by simpa using hz
      simp only [hz', Bool.false_eq_true, if_false] at h ⊢
      cases hct : createTime ms su (DistanceUnit.meters.convert du gcm) du tu with
      | none => simp [hct] at h
      | some t =>
        simp only [hct] at h ⊢
        cases h1 : addTime c.feats st "time" t tu with
        | none => simp [h1] at h
        | some st1 =>
          simp only [h1] at h
          rw [stateDelta_trans st st1 dst i, addTime_delta _ _ _ _ _ _ h1 i,
            addDistance_delta _ _ _ _ _ _ h i]

/-- `weight_factor`, absent read as one -/
def Config.wfOf (c : Config α) : α :=
  match c.wf with
  | some w => w
  | none => 1

/-- the heuristic of configuration `c` as a function of the vertex -/
def Config.hOf (c : Config α) (v : Nat) : α :=
  enforceNonNegative
    (c.cost.agg.agg (c.cost.indices.map fun i => (c.cost.vr i).mapValue (c.estDelta v i) * c.cost.wt i))
    * c.wfOf

/-- whenever `estimate_traversal_cost` answers, it answers `hOf c v` — whatever the state -/
theorem estimate_eq (c : Config α) (v : Nat) (st : List α) (x : α)
    (h : estimate c v st = .ok x) : x = c.hOf v := by
  unfold estimate at h
  split at h
  · cases h
  · rename_i gcm hg
    split at h
    · cases h
    · rename_i dst hd
      split at h
      · cases h
      · rename_i est hest
        injection h with h
        rw [← h]
        unfold CostModel.costEstimate at hest
        cases hv : c.cost.vehicleCosts st dst with
        | none => simp [hv] at hest
        | some vc =>
          simp only [hv, Option.some.injEq] at hest
          have := c.cost.vehicleCosts_of_delta st dst (c.estDelta v)
            (estimate_delta c v gcm hg st dst hd) vc hv
          unfold Config.hOf Config.wfOf
          rw [← hest, this]
          cases c.wf <;> simp [one_eq]

theorem Config.vertexHOn (c : Config α) : VertexHOn c.inst (fun _ _ => True) c.hOf := by
  intro v le st x _ h
  exact estimate_eq c v st x h

theorem Config.hOf_nonneg (c : Config α) (hwf : 0 ≤ c.wfOf) (v : Nat) : 0 ≤ c.hOf v :=
  mul_nonneg (enforceNonNegative_nonneg _) hwf

/-- Dijkstra is weight factor 0 -/
theorem Config.hOf_dijkstra (c : Config α) (hwf : c.wf = some 0) (v : Nat) : c.hOf v = 0 := by
  simp [Config.hOf, Config.wfOf, hwf]

theorem Config.uniformOn (c : Config α) (h : c.EdgeLocal) (hwf : 0 ≤ c.wfOf) :
    UniformOn c.inst (fun _ _ => True) c.okOf c.costOf c.hOf :=
  { c.uniformCostOn h with h_eq := c.vertexHOn, h_nonneg := c.hOf_nonneg hwf }

/-! ### No component of a configuration answers "no path" -/

theorem frontierValid_ne_noPath :
    ∀ (ms : List (FrontierM α)) (e : Nat) (prev : Option Nat),
      frontierValid ms e prev ≠ .error .noPath
  | [], _, _ => by simp [frontierValid]
  | m :: ms, e, prev => by
    intro h
    simp only [frontierValid] at h
    split at h
    · cases h
    · cases h
    · exact frontierValid_ne_noPath ms e prev h

theorem edgeAccess_ne_noPath (c : Config α) (e : Nat) (last : Option Nat) (st : List α) :
    edgeAccess c e last st ≠ .error .noPath := by
  intro h
  unfold edgeAccess at h
  split at h
  · cases h
  · split at h
    · cases h
    · simp only at h
      split at h
      · cases h
      · split at h <;> cases h

theorem edgeTraversal_ne_noPath (c : Config α) (e : Nat) (last : Option Nat) (st : List α) :
    edgeTraversal c e last st ≠ .error .noPath := by
  intro h
  unfold edgeTraversal at h
  split at h
  · cases h
  · split at h
    · rename_i k hk
      injection h with h
      exact edgeAccess_ne_noPath c e last st (h ▸ hk)
    · split at h
      · cases h
      · split at h <;> cases h

theorem estimate_ne_noPath (c : Config α) (v : Nat) (st : List α) :
    estimate c v st ≠ .error .noPath := by
  intro h
  unfold estimate at h
  split at h
  · cases h
  · split at h
    · cases h
    · split at h <;> cases h

theorem TermM.test_ne_noPath (m : TermM) (size it : Nat) : m.test size it ≠ .error .noPath := by
  intro h
  unfold TermM.test at h
  split at h
  · cases h
  · cases h
  · split at h <;> cases h

theorem Config.noSpuriousNoPath (c : Config α) : NoSpuriousNoPath c.inst where
  valid := by
    intro e st le h
    simp only [Config.inst] at h
    split at h
    · cases h
    · exact frontierValid_ne_noPath _ _ _ h
  trav := fun e le st => edgeTraversal_ne_noPath c e le st
  h := fun v st => estimate_ne_noPath c v st
  term := fun n i => TermM.test_ne_noPath c.term n i

end

end Compass
