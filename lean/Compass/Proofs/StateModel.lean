/-
Lemmas about `StateModel` (Model/StateModel.lean) on top of the container refinement
(Proofs/Container.lean): a well-formed state model is its ordered feature list `feats m`; the slot of
a name is its position in that list; every getter / setter is characterised exactly.
-/
import Compass.Proofs.Container
import Compass.Model.StateModel

namespace Compass

open List

set_option linter.unusedSectionVars false
set_option linter.unnecessarySimpa false

namespace Spec
variable {K V : Type} [DecidableEq K]

theorem indexOf_get {l : List (K × V)} {k : K} {i : Nat} (h : indexOf l k = some i) :
    ∃ f, l[i]? = some (k, f) ∧ get l k = some f := by
  induction l generalizing i with
  | nil => simp [indexOf] at h
  | cons e r ih =>
    obtain ⟨k', w⟩ := e
    simp only [indexOf] at h
    split_ifs at h with hk
    · simp only [Option.some.injEq] at h; subst h; subst hk
      exact ⟨w, by simp, by simp [get]⟩
    · cases hr : indexOf r k with
      | none => simp [hr] at h
      | some j =>
        simp only [hr, Option.map_some, Option.some.injEq] at h
        subst h
        obtain ⟨f, h1, h2⟩ := ih hr
        exact ⟨f, by simpa using h1, by simp [get, hk, h2]⟩

theorem indexOf_isSome_iff_get {l : List (K × V)} {k : K} :
    (indexOf l k).isSome ↔ (get l k).isSome := by
  rw [← not_iff_not]
  simp only [Option.not_isSome_iff_eq_none, indexOf_eq_none_iff, get_eq_none_iff]

theorem indexOf_lt {l : List (K × V)} {k : K} {i : Nat} (h : indexOf l k = some i) : i < l.length := by
  obtain ⟨f, h1, _⟩ := indexOf_get h
  exact (List.getElem?_eq_some_iff.mp h1).1

theorem indexOf_inj {l : List (K × V)} {a b : K} {i : Nat} (ha : indexOf l a = some i)
    (hb : indexOf l b = some i) : a = b := by
  obtain ⟨f, h1, _⟩ := indexOf_get ha
  obtain ⟨g, h2, _⟩ := indexOf_get hb
  rw [h1] at h2
  simp only [Option.some.injEq, Prod.mk.injEq] at h2
  exact h2.1

theorem indexOf_surj {l : List (K × V)} (nd : (l.map (·.1)).Nodup) {i : Nat} (hi : i < l.length) :
    indexOf l (l[i]).1 = some i := by
  apply indexOf_of_getElem nd
  simp [getElem?_eq_getElem hi]

theorem insertAll_append_of_nodup (acc l : List (K × V)) (nd : ((acc ++ l).map (·.1)).Nodup) :
    insertAll acc l = acc ++ l := by
  induction l generalizing acc with
  | nil => simp [insertAll]
  | cons e r ih =>
    have hk : e.1 ∉ acc.map (·.1) := by
      simp only [map_append, map_cons] at nd
      have := (nodup_append.mp nd).2.2
      intro h
      exact this _ h _ (mem_cons_self) rfl
    simp only [insertAll, foldl_cons, insert_of_not_mem _ hk]
    have := ih (acc ++ [(e.1, e.2)]) (by simpa using nd)
    simp only [insertAll] at this
    rw [this]; simp

theorem insertAll_nil_of_nodup (l : List (K × V)) (nd : (l.map (·.1)).Nodup) : insertAll [] l = l := by
  simpa using insertAll_append_of_nodup [] l (by simpa using nd)

theorem indexOf_append_of_mem {l : List (K × V)} {k : K} (t : List (K × V)) (h : k ∈ l.map (·.1)) :
    indexOf (l ++ t) k = indexOf l k := by
  induction l with
  | nil => simp at h
  | cons e r ih =>
    obtain ⟨k', w⟩ := e
    simp only [cons_append, indexOf]
    split_ifs with hk
    · rfl
    · simp only [map_cons, mem_cons] at h
      rcases h with h | h
      · exact absurd h.symm hk
      · rw [ih h]

/-- inserting never moves an existing key -/
theorem indexOf_insert_of_mem' (l : List (K × V)) {k : K} (k₂ : K) (v : V) (h : k ∈ l.map (·.1)) :
    indexOf (insert l k₂ v) k = indexOf l k := by
  by_cases h2 : k₂ ∈ l.map (·.1)
  · exact indexOf_insert_of_mem l k v h2
  · rw [insert_of_not_mem v h2, indexOf_append_of_mem _ h]

theorem keys_insert_prefix (l : List (K × V)) (k : K) (v : V) :
    ∃ t, (insert l k v).map (·.1) = l.map (·.1) ++ t := by
  by_cases h : k ∈ l.map (·.1)
  · exact ⟨[], by simp [keys_insert_of_mem v h]⟩
  · exact ⟨[k], by simp [insert_of_not_mem v h]⟩

/-- a history of inserts only appends names: the old name list is a prefix of the new one -/
theorem keys_insertAll_prefix (l ops : List (K × V)) :
    ∃ t, (insertAll l ops).map (·.1) = l.map (·.1) ++ t := by
  induction ops generalizing l with
  | nil => exact ⟨[], by simp [insertAll]⟩
  | cons e r ih =>
    obtain ⟨t1, h1⟩ := keys_insert_prefix l e.1 e.2
    obtain ⟨t2, h2⟩ := ih (insert l e.1 e.2)
    refine ⟨t1 ++ t2, ?_⟩
    simp only [insertAll, foldl_cons] at h2 ⊢
    rw [h2, h1, append_assoc]

theorem indexOf_insertAll_of_mem (l ops : List (K × V)) {k : K} (h : k ∈ l.map (·.1)) :
    indexOf (insertAll l ops) k = indexOf l k := by
  induction ops generalizing l with
  | nil => simp [insertAll]
  | cons e r ih =>
    simp only [insertAll, foldl_cons]
    have hm : k ∈ (insert l e.1 e.2).map (·.1) := by
      obtain ⟨t, ht⟩ := keys_insert_prefix l e.1 e.2
      rw [ht]; exact mem_append_left _ h
    have := ih (insert l e.1 e.2) hm
    simp only [insertAll] at this
    rw [this, indexOf_insert_of_mem' l e.1 e.2 h]

/-- the value stored at a key after a history of inserts: the last insert of that key, else the old -/
theorem get_insertAll (l ops : List (K × V)) (k : K) :
    get (insertAll l ops) k =
      ((ops.reverse.find? (fun e => e.1 = k)).map (·.2)).or (get l k) := by
  induction ops generalizing l with
  | nil => simp [insertAll]
  | cons e r ih =>
    simp only [insertAll, foldl_cons]
    have := ih (insert l e.1 e.2)
    simp only [insertAll] at this
    rw [this]
    simp only [reverse_cons, find?_append]
    cases hr : find? (fun e => decide (e.1 = k)) r.reverse with
    | some x => simp
    | none =>
      by_cases hk : e.1 = k
      · subst hk; simp [get_insert_self]
      · simp [hk, get_insert_of_ne l e.2 (Ne.symm hk)]

theorem mem_keys_insert (l : List (K × V)) (k k₂ : K) (v : V) :
    k ∈ (insert l k₂ v).map (·.1) ↔ k ∈ l.map (·.1) ∨ k = k₂ := by
  by_cases h : k₂ ∈ l.map (·.1)
  · rw [keys_insert_of_mem v h]
    constructor
    · exact Or.inl
    · rintro (h' | rfl)
      · exact h'
      · exact h
  · rw [insert_of_not_mem v h]; simp

theorem mem_keys_insertAll (l ops : List (K × V)) (k : K) :
    k ∈ (insertAll l ops).map (·.1) ↔ k ∈ l.map (·.1) ∨ k ∈ ops.map (·.1) := by
  induction ops generalizing l with
  | nil => simp [insertAll]
  | cons e r ih =>
    have := ih (insert l e.1 e.2)
    simp only [insertAll, foldl_cons] at this ⊢
    rw [this, mem_keys_insert]
    simp only [map_cons, mem_cons]
    tauto

/-- the model's `HashMap::insert` on an association list is the same function as the specification's
    insert (which is why `HashMap` contents can be reasoned about with the `Spec` lemmas) -/
theorem put_eq_insert (m : List (K × V)) (k : K) (v : V) : HMap.put m k v = insert m k v := by
  induction m with
  | nil => rfl
  | cons e r ih =>
    obtain ⟨k', v'⟩ := e
    simp only [HMap.put, insert, ih]

theorem ofList_eq_insertAll (l : List (K × V)) : HMap.ofList l = insertAll [] l := by
  simp only [HMap.ofList, insertAll, put_eq_insert]

end Spec

namespace Container
variable {K V : Type} [DecidableEq K]

theorem insertAll_cons (c : Container K V) (e : K × V) (r : List (K × V)) :
    insertAll c (e :: r) = insertAll (c.insert e.1 e.2).1 r := rfl

end Container

namespace StateModel
variable {α : Type}

/-- well-formed: the container's representation invariant holds -/
def WF (m : StateModel α) : Prop := Container.Inv m.map

instance (m : StateModel α) : Decidable (WF m) := inferInstanceAs (Decidable (Container.Inv m.map))

/-- the ordered feature list a state model stands for -/
def feats (m : StateModel α) : List (String × StateFeature α) := Container.abs m.map

theorem wf_empty : WF (empty : StateModel α) ∧ feats (empty : StateModel α) = [] :=
  ⟨Container.inv_empty, Container.abs_empty⟩

theorem wf_new (fs : List (String × StateFeature α)) :
    WF (new fs) ∧ feats (new fs) = Spec.insertAll [] fs := Container.new_refines fs

theorem wf_new_of_nodup (fs : List (String × StateFeature α)) (nd : (fs.map (·.1)).Nodup) :
    WF (new fs) ∧ feats (new fs) = fs := by
  have := wf_new fs
  rw [Spec.insertAll_nil_of_nodup fs nd] at this
  exact this

theorem feats_nodup {m : StateModel α} (h : WF m) : ((feats m).map (·.1)).Nodup :=
  Container.abs_keys_nodup h

theorem len_eq {m : StateModel α} (h : WF m) : m.len = (feats m).length := Container.len_abs h

theorem iter_eq {m : StateModel α} (h : WF m) : m.iter = feats m := Container.iter_abs h

theorem names_eq {m : StateModel α} (h : WF m) : m.names = (feats m).map (·.1) := by
  simp [names, feats, Container.iter_abs h]

theorem getIndex_eq {m : StateModel α} (h : WF m) (name : String) :
    m.getIndex name = Spec.indexOf (feats m) name := Container.getIndex_abs h name

theorem get_eq {m : StateModel α} (h : WF m) (name : String) :
    m.map.get name = Spec.get (feats m) name := Container.get_abs h name

/-! ### extension -/

theorem extendLoop_fst (map : Container String (StateFeature α)) (ow : List String)
    (entries : List (String × StateFeature α)) :
    (extendLoop map ow entries).1 = Container.insertAll map entries := by
  induction entries generalizing map ow with
  | nil => rfl
  | cons e r ih =>
    obtain ⟨name, new⟩ := e
    simp only [extendLoop, Container.insertAll_cons]
    exact ih _ _

theorem extend_ok {m m' : StateModel α} (h : WF m) {entries : List (String × StateFeature α)}
    (he : m.extend entries = .ok m') :
    WF m' ∧ feats m' = Spec.insertAll (feats m) entries := by
  simp only [extend] at he
  split_ifs at he
  simp only [Except.ok.injEq] at he
  subst he
  have h1 := extendLoop_fst (Container.fromIter m.map.iter) [] entries
  have h0 := Container.fromIter_refines m.map.iter
  rw [Container.iter_abs h, Spec.insertAll_nil_of_nodup _ (Container.abs_keys_nodup h)] at h0
  have h2 := Container.insertAll_refines h0.1 entries
  rw [h0.2] at h2
  simp only [WF, feats]
  rw [h1, Container.iter_abs h]
  exact h2

/-! ### state access, characterised exactly -/

theorem getStateVariable_ok {m : StateModel α} {st : List α} {name : String} {v : α} :
    m.getStateVariable st name = .ok v ↔ ∃ i, m.getIndex name = some i ∧ st[i]? = some v := by
  simp only [getStateVariable, getIndex]
  cases m.map.getIndex name with
  | none => simp
  | some i =>
    cases h : st[i]? with
    | none => simp [h]
    | some w => simp [h]

theorem updateState_ok {m : StateModel α} {st st' : List α} {name : String} {v : α} :
    m.updateState st name v = .ok st' ↔
      ∃ i, m.getIndex name = some i ∧ i < st.length ∧ st' = st.set i v := by
  simp only [updateState, getIndex]
  cases m.map.getIndex name with
  | none => simp
  | some i =>
    cases h : st[i]? with
    | none =>
      have : ¬ i < st.length := by
        intro hi; rw [getElem?_eq_getElem hi] at h; cases h
      simp [this]
    | some w =>
      have : i < st.length := (List.getElem?_eq_some_iff.mp h).1
      simp [this, eq_comm]

theorem getFeature_ok {m : StateModel α} {name : String} {f : StateFeature α} :
    m.getFeature name = .ok f ↔ m.map.get name = some f := by
  simp only [getFeature]
  cases m.map.get name <;> simp


/-! ### Distance -/

theorem getDistance_ok [Mul α] [Div α] [Lit α] {m : StateModel α} {st : List α} {name : String}
    {u : DistanceUnit} {y : α} :
    m.getDistance st name u = .ok y ↔
      ∃ fu init i v, m.map.get name = some (.distance fu init) ∧ m.getIndex name = some i ∧
        st[i]? = some v ∧ y = fu.convert u v := by
  simp only [getDistance]
  cases hv : m.getStateVariable st name with
  | error e =>
    simp only [reduceCtorEq, false_iff, not_exists, not_and]
    intro fu init i v _ hi hs
    have := getStateVariable_ok.mpr ⟨i, hi, hs⟩
    rw [hv] at this; cases this
  | ok v =>
    obtain ⟨i, hi, hs⟩ := getStateVariable_ok.mp hv
    cases hf : m.getFeature name with
    | error e =>
      simp only [reduceCtorEq, false_iff, not_exists, not_and]
      intro fu init i' v' hg
      have := getFeature_ok.mpr hg
      rw [hf] at this; cases this
    | ok f =>
      have hg := getFeature_ok.mp hf
      cases f with
      | distance fu init =>
        simp only [StateFeature.getDistanceUnit, Except.ok.injEq]
        constructor
        · intro h; exact ⟨fu, init, i, v, hg, hi, hs, h.symm⟩
        · rintro ⟨fu', init', i', v', hg', hi', hs', rfl⟩
          rw [hg] at hg'; rw [hi] at hi'
          simp only [Option.some.injEq, StateFeature.distance.injEq] at hg' hi'
          obtain ⟨rfl, rfl⟩ := hg'; subst hi'
          rw [hs] at hs'; simp only [Option.some.injEq] at hs'; subst hs'; rfl
      | time _ _ => simp [StateFeature.getDistanceUnit, hg]
      | energy _ _ => simp [StateFeature.getDistanceUnit, hg]
      | custom _ _ _ => simp [StateFeature.getDistanceUnit, hg]

theorem setDistance_ok [Mul α] [Div α] [Lit α] {m : StateModel α} {st st' : List α} {name : String}
    {u : DistanceUnit} {x : α} :
    m.setDistance st name x u = .ok st' ↔
      ∃ fu init i, m.map.get name = some (.distance fu init) ∧ m.getIndex name = some i ∧
        i < st.length ∧ st' = st.set i (u.convert fu x) := by
  simp only [setDistance]
  cases hf : m.getFeature name with
  | error e =>
    simp only [reduceCtorEq, false_iff, not_exists, not_and]
    intro fu init i hg
    have := getFeature_ok.mpr hg
    rw [hf] at this; cases this
  | ok f =>
    have hg := getFeature_ok.mp hf
    cases f with
    | distance fu init =>
      simp only [StateFeature.getDistanceUnit, updateState_ok]
      constructor
      · rintro ⟨i, hi, hl, rfl⟩; exact ⟨fu, init, i, hg, hi, hl, rfl⟩
      · rintro ⟨fu', init', i, hg', hi, hl, rfl⟩
        rw [hg] at hg'
        simp only [Option.some.injEq, StateFeature.distance.injEq] at hg'
        obtain ⟨rfl, rfl⟩ := hg'
        exact ⟨i, hi, hl, rfl⟩
    | time _ _ => simp [StateFeature.getDistanceUnit, hg]
    | energy _ _ => simp [StateFeature.getDistanceUnit, hg]
    | custom _ _ _ => simp [StateFeature.getDistanceUnit, hg]

theorem addDistance_ok [Mul α] [Div α] [Lit α] [Add α] {m : StateModel α} {st st' : List α}
    {name : String} {u : DistanceUnit} {x : α} :
    m.addDistance st name x u = .ok st' ↔
      ∃ fu init i v, m.map.get name = some (.distance fu init) ∧ m.getIndex name = some i ∧
        st[i]? = some v ∧ st' = st.set i (v + u.convert fu x) := by
  simp only [addDistance]
  cases hf : m.getFeature name with
  | error e =>
    simp only [reduceCtorEq, false_iff, not_exists, not_and]
    intro fu init i v hg
    have := getFeature_ok.mpr hg
    rw [hf] at this; cases this
  | ok f =>
    have hg := getFeature_ok.mp hf
    cases f with
    | distance fu init =>
      simp only [StateFeature.getDistanceUnit]
      cases hv : m.getStateVariable st name with
      | error e =>
        simp only [reduceCtorEq, false_iff, not_exists, not_and]
        intro fu' init' i v _ hi hs
        have := getStateVariable_ok.mpr ⟨i, hi, hs⟩
        rw [hv] at this; cases this
      | ok v =>
        obtain ⟨i, hi, hs⟩ := getStateVariable_ok.mp hv
        have hl : i < st.length := (List.getElem?_eq_some_iff.mp hs).1
        simp only [updateState_ok]
        constructor
        · rintro ⟨i', hi', _, rfl⟩
          rw [hi] at hi'; simp only [Option.some.injEq] at hi'; subst hi'
          exact ⟨fu, init, i, v, hg, hi, hs, rfl⟩
        · rintro ⟨fu', init', i', v', hg', hi', hs', rfl⟩
          rw [hg] at hg'; rw [hi] at hi'
          simp only [Option.some.injEq, StateFeature.distance.injEq] at hg' hi'
          obtain ⟨rfl, rfl⟩ := hg'; subst hi'
          rw [hs] at hs'; simp only [Option.some.injEq] at hs'; subst hs'
          exact ⟨i, hi, hl, rfl⟩
    | time _ _ => simp [StateFeature.getDistanceUnit, hg]
    | energy _ _ => simp [StateFeature.getDistanceUnit, hg]
    | custom _ _ _ => simp [StateFeature.getDistanceUnit, hg]

/-! ### Time -/

theorem getTime_ok [Mul α] [Div α] [Lit α] {m : StateModel α} {st : List α} {name : String}
    {u : TimeUnit} {y : α} :
    m.getTime st name u = .ok y ↔
      ∃ fu init i v, m.map.get name = some (.time fu init) ∧ m.getIndex name = some i ∧
        st[i]? = some v ∧ y = fu.convert u v := by
  simp only [getTime]
  cases hv : m.getStateVariable st name with
  | error e =>
    simp only [reduceCtorEq, false_iff, not_exists, not_and]
    intro fu init i v _ hi hs
    have := getStateVariable_ok.mpr ⟨i, hi, hs⟩
    rw [hv] at this; cases this
  | ok v =>
    obtain ⟨i, hi, hs⟩ := getStateVariable_ok.mp hv
    cases hf : m.getFeature name with
    | error e =>
      simp only [reduceCtorEq, false_iff, not_exists, not_and]
      intro fu init i' v' hg
      have := getFeature_ok.mpr hg
      rw [hf] at this; cases this
    | ok f =>
      have hg := getFeature_ok.mp hf
      cases f with
      | time fu init =>
        simp only [StateFeature.getTimeUnit, Except.ok.injEq]
        constructor
        · intro h; exact ⟨fu, init, i, v, hg, hi, hs, h.symm⟩
        · rintro ⟨fu', init', i', v', hg', hi', hs', rfl⟩
          rw [hg] at hg'; rw [hi] at hi'
          simp only [Option.some.injEq, StateFeature.time.injEq] at hg' hi'
          obtain ⟨rfl, rfl⟩ := hg'; subst hi'
          rw [hs] at hs'; simp only [Option.some.injEq] at hs'; subst hs'; rfl
      | distance _ _ => simp [StateFeature.getTimeUnit, hg]
      | energy _ _ => simp [StateFeature.getTimeUnit, hg]
      | custom _ _ _ => simp [StateFeature.getTimeUnit, hg]

theorem setTime_ok [Mul α] [Div α] [Lit α] {m : StateModel α} {st st' : List α} {name : String}
    {u : TimeUnit} {x : α} :
    m.setTime st name x u = .ok st' ↔
      ∃ fu init i, m.map.get name = some (.time fu init) ∧ m.getIndex name = some i ∧
        i < st.length ∧ st' = st.set i (u.convert fu x) := by
  simp only [setTime]
  cases hf : m.getFeature name with
  | error e =>
    simp only [reduceCtorEq, false_iff, not_exists, not_and]
    intro fu init i hg
    have := getFeature_ok.mpr hg
    rw [hf] at this; cases this
  | ok f =>
    have hg := getFeature_ok.mp hf
    cases f with
    | time fu init =>
      simp only [StateFeature.getTimeUnit, updateState_ok]
      constructor
      · rintro ⟨i, hi, hl, rfl⟩; exact ⟨fu, init, i, hg, hi, hl, rfl⟩
      · rintro ⟨fu', init', i, hg', hi, hl, rfl⟩
        rw [hg] at hg'
        simp only [Option.some.injEq, StateFeature.time.injEq] at hg'
        obtain ⟨rfl, rfl⟩ := hg'
        exact ⟨i, hi, hl, rfl⟩
    | distance _ _ => simp [StateFeature.getTimeUnit, hg]
    | energy _ _ => simp [StateFeature.getTimeUnit, hg]
    | custom _ _ _ => simp [StateFeature.getTimeUnit, hg]

theorem addTime_ok [Mul α] [Div α] [Lit α] [Add α] {m : StateModel α} {st st' : List α}
    {name : String} {u : TimeUnit} {x : α} :
    m.addTime st name x u = .ok st' ↔
      ∃ fu init i v, m.map.get name = some (.time fu init) ∧ m.getIndex name = some i ∧
        st[i]? = some v ∧ st' = st.set i (v + u.convert fu x) := by
  simp only [addTime]
  cases hf : m.getFeature name with
  | error e =>
    simp only [reduceCtorEq, false_iff, not_exists, not_and]
    intro fu init i v hg
    have := getFeature_ok.mpr hg
    rw [hf] at this; cases this
  | ok f =>
    have hg := getFeature_ok.mp hf
    cases f with
    | time fu init =>
      simp only [StateFeature.getTimeUnit]
      cases hv : m.getStateVariable st name with
      | error e =>
        simp only [reduceCtorEq, false_iff, not_exists, not_and]
        intro fu' init' i v _ hi hs
        have := getStateVariable_ok.mpr ⟨i, hi, hs⟩
        rw [hv] at this; cases this
      | ok v =>
        obtain ⟨i, hi, hs⟩ := getStateVariable_ok.mp hv
        have hl : i < st.length := (List.getElem?_eq_some_iff.mp hs).1
        simp only [updateState_ok]
        constructor
        · rintro ⟨i', hi', _, rfl⟩
          rw [hi] at hi'; simp only [Option.some.injEq] at hi'; subst hi'
          exact ⟨fu, init, i, v, hg, hi, hs, rfl⟩
        · rintro ⟨fu', init', i', v', hg', hi', hs', rfl⟩
          rw [hg] at hg'; rw [hi] at hi'
          simp only [Option.some.injEq, StateFeature.time.injEq] at hg' hi'
          obtain ⟨rfl, rfl⟩ := hg'; subst hi'
          rw [hs] at hs'; simp only [Option.some.injEq] at hs'; subst hs'
          exact ⟨i, hi, hl, rfl⟩
    | distance _ _ => simp [StateFeature.getTimeUnit, hg]
    | energy _ _ => simp [StateFeature.getTimeUnit, hg]
    | custom _ _ _ => simp [StateFeature.getTimeUnit, hg]

/-! ### Energy -/

theorem getEnergy_ok [Mul α] [Div α] [Lit α] {m : StateModel α} {st : List α} {name : String}
    {u : EnergyUnit} {y : α} :
    m.getEnergy st name u = .ok y ↔
      ∃ fu init i v, m.map.get name = some (.energy fu init) ∧ m.getIndex name = some i ∧
        st[i]? = some v ∧ y = fu.convert u v := by
  simp only [getEnergy]
  cases hv : m.getStateVariable st name with
  | error e =>
    simp only [reduceCtorEq, false_iff, not_exists, not_and]
    intro fu init i v _ hi hs
    have := getStateVariable_ok.mpr ⟨i, hi, hs⟩
    rw [hv] at this; cases this
  | ok v =>
    obtain ⟨i, hi, hs⟩ := getStateVariable_ok.mp hv
    cases hf : m.getFeature name with
    | error e =>
      simp only [reduceCtorEq, false_iff, not_exists, not_and]
      intro fu init i' v' hg
      have := getFeature_ok.mpr hg
      rw [hf] at this; cases this
    | ok f =>
      have hg := getFeature_ok.mp hf
      cases f with
      | energy fu init =>
        simp only [StateFeature.getEnergyUnit, Except.ok.injEq]
        constructor
        · intro h; exact ⟨fu, init, i, v, hg, hi, hs, h.symm⟩
        · rintro ⟨fu', init', i', v', hg', hi', hs', rfl⟩
          rw [hg] at hg'; rw [hi] at hi'
          simp only [Option.some.injEq, StateFeature.energy.injEq] at hg' hi'
          obtain ⟨rfl, rfl⟩ := hg'; subst hi'
          rw [hs] at hs'; simp only [Option.some.injEq] at hs'; subst hs'; rfl
      | distance _ _ => simp [StateFeature.getEnergyUnit, hg]
      | time _ _ => simp [StateFeature.getEnergyUnit, hg]
      | custom _ _ _ => simp [StateFeature.getEnergyUnit, hg]

theorem setEnergy_ok [Mul α] [Div α] [Lit α] {m : StateModel α} {st st' : List α} {name : String}
    {u : EnergyUnit} {x : α} :
    m.setEnergy st name x u = .ok st' ↔
      ∃ fu init i, m.map.get name = some (.energy fu init) ∧ m.getIndex name = some i ∧
        i < st.length ∧ st' = st.set i (u.convert fu x) := by
  simp only [setEnergy]
  cases hf : m.getFeature name with
  | error e =>
    simp only [reduceCtorEq, false_iff, not_exists, not_and]
    intro fu init i hg
    have := getFeature_ok.mpr hg
    rw [hf] at this; cases this
  | ok f =>
    have hg := getFeature_ok.mp hf
    cases f with
    | energy fu init =>
      simp only [StateFeature.getEnergyUnit, updateState_ok]
      constructor
      · rintro ⟨i, hi, hl, rfl⟩; exact ⟨fu, init, i, hg, hi, hl, rfl⟩
      · rintro ⟨fu', init', i, hg', hi, hl, rfl⟩
        rw [hg] at hg'
        simp only [Option.some.injEq, StateFeature.energy.injEq] at hg'
        obtain ⟨rfl, rfl⟩ := hg'
        exact ⟨i, hi, hl, rfl⟩
    | distance _ _ => simp [StateFeature.getEnergyUnit, hg]
    | time _ _ => simp [StateFeature.getEnergyUnit, hg]
    | custom _ _ _ => simp [StateFeature.getEnergyUnit, hg]

theorem addEnergy_ok [Mul α] [Div α] [Lit α] [Add α] {m : StateModel α} {st st' : List α}
    {name : String} {u : EnergyUnit} {x : α} :
    m.addEnergy st name x u = .ok st' ↔
      ∃ fu init i v, m.map.get name = some (.energy fu init) ∧ m.getIndex name = some i ∧
        st[i]? = some v ∧ st' = st.set i (v + u.convert fu x) := by
  simp only [addEnergy]
  cases hf : m.getFeature name with
  | error e =>
    simp only [reduceCtorEq, false_iff, not_exists, not_and]
    intro fu init i v hg
    have := getFeature_ok.mpr hg
    rw [hf] at this; cases this
  | ok f =>
    have hg := getFeature_ok.mp hf
    cases f with
    | energy fu init =>
      simp only [StateFeature.getEnergyUnit]
      cases hv : m.getStateVariable st name with
      | error e =>
        simp only [reduceCtorEq, false_iff, not_exists, not_and]
        intro fu' init' i v _ hi hs
        have := getStateVariable_ok.mpr ⟨i, hi, hs⟩
        rw [hv] at this; cases this
      | ok v =>
        obtain ⟨i, hi, hs⟩ := getStateVariable_ok.mp hv
        have hl : i < st.length := (List.getElem?_eq_some_iff.mp hs).1
        simp only [updateState_ok]
        constructor
        · rintro ⟨i', hi', _, rfl⟩
          rw [hi] at hi'; simp only [Option.some.injEq] at hi'; subst hi'
          exact ⟨fu, init, i, v, hg, hi, hs, rfl⟩
        · rintro ⟨fu', init', i', v', hg', hi', hs', rfl⟩
          rw [hg] at hg'; rw [hi] at hi'
          simp only [Option.some.injEq, StateFeature.energy.injEq] at hg' hi'
          obtain ⟨rfl, rfl⟩ := hg'; subst hi'
          rw [hs] at hs'; simp only [Option.some.injEq] at hs'; subst hs'
          exact ⟨i, hi, hl, rfl⟩
    | distance _ _ => simp [StateFeature.getEnergyUnit, hg]
    | time _ _ => simp [StateFeature.getEnergyUnit, hg]
    | custom _ _ _ => simp [StateFeature.getEnergyUnit, hg]

/-! ### initial state -/

section initial
variable [Lit α] [IntCodec α] [LT α] [DecidableLT α] [BEq α]

/-- the value a feature declares for the start of a search, as a state variable -/
def declaredInitial : StateFeature α → α
  | .distance _ i => i
  | .time _ i => i
  | .energy _ i => i
  | .custom _ _ (.floatingPoint i) => i
  | .custom _ _ (.signedInteger i) => IntCodec.ofInt i
  | .custom _ _ (.unsignedInteger i) => IntCodec.ofInt (Int.ofNat i)
  | .custom _ _ (.boolean i) => if i then one else zero

theorem getInitial_eq (f : StateFeature α) : f.getInitial = .ok (declaredInitial f) := by
  cases f with
  | custom t u fmt => cases fmt <;> rfl
  | _ => rfl

theorem collectInitial_eq (l : List (String × StateFeature α)) :
    collectInitial l = .ok (l.map (fun p => declaredInitial p.2)) := by
  induction l with
  | nil => rfl
  | cons p r ih => simp [collectInitial, getInitial_eq, ih]

theorem initialState_eq {m : StateModel α} (h : WF m) :
    m.initialState = .ok ((feats m).map (fun p => declaredInitial p.2)) := by
  simp only [initialState, Container.iter_abs h, collectInitial_eq, feats]

end initial

/-! ### custom features -/

section custom
variable [Lit α] [IntCodec α] [LT α] [DecidableLT α] [BEq α]

theorem getCustomStateVariable_ok {m : StateModel α} {st : List α} {name : String} {v : α}
    {fmt : CustomFeatureFormat α} :
    m.getCustomStateVariable st name = .ok (v, fmt) ↔
      ∃ ty un i, m.map.get name = some (.custom ty un fmt) ∧ m.getIndex name = some i ∧
        st[i]? = some v := by
  simp only [getCustomStateVariable]
  cases hv : m.getStateVariable st name with
  | error e =>
    simp only [reduceCtorEq, false_iff, not_exists, not_and]
    intro ty un i _ hi hs
    have := getStateVariable_ok.mpr ⟨i, hi, hs⟩
    rw [hv] at this; cases this
  | ok w =>
    obtain ⟨i, hi, hs⟩ := getStateVariable_ok.mp hv
    cases hf : m.getFeature name with
    | error e =>
      simp only [reduceCtorEq, false_iff, not_exists, not_and]
      intro ty un i' hg
      have := getFeature_ok.mpr hg
      rw [hf] at this; cases this
    | ok f =>
      have hg := getFeature_ok.mp hf
      cases f with
      | custom ty un fmt' =>
        simp only [StateFeature.getCustomFeatureFormat, Except.ok.injEq, Prod.mk.injEq]
        constructor
        · rintro ⟨rfl, rfl⟩; exact ⟨ty, un, i, hg, hi, hs⟩
        · rintro ⟨ty', un', i', hg', hi', hs'⟩
          rw [hg] at hg'; rw [hi] at hi'
          simp only [Option.some.injEq, StateFeature.custom.injEq] at hg' hi'
          subst hi'
          rw [hs] at hs'; simp only [Option.some.injEq] at hs'
          exact ⟨hs', hg'.2.2⟩
      | distance _ _ => simp [StateFeature.getCustomFeatureFormat, hg]
      | time _ _ => simp [StateFeature.getCustomFeatureFormat, hg]
      | energy _ _ => simp [StateFeature.getCustomFeatureFormat, hg]

theorem setCustomWith_ok {m : StateModel α} {st st' : List α} {name : String}
    {encode : CustomFeatureFormat α → Except StateErr α} :
    m.setCustomWith st name encode = .ok st' ↔
      ∃ ty un fmt i x, m.map.get name = some (.custom ty un fmt) ∧ encode fmt = .ok x ∧
        m.getIndex name = some i ∧ i < st.length ∧ st' = st.set i x := by
  simp only [setCustomWith]
  cases hf : m.getFeature name with
  | error e =>
    simp only [reduceCtorEq, false_iff, not_exists, not_and]
    intro ty un fmt i x hg
    have := getFeature_ok.mpr hg
    rw [hf] at this; cases this
  | ok f =>
    have hg := getFeature_ok.mp hf
    cases f with
    | custom ty un fmt =>
      simp only [StateFeature.getCustomFeatureFormat]
      cases he : encode fmt with
      | error e =>
        simp only [reduceCtorEq, false_iff, not_exists, not_and]
        intro ty' un' fmt' i x hg' he'
        rw [hg] at hg'
        simp only [Option.some.injEq, StateFeature.custom.injEq] at hg'
        rw [← hg'.2.2, he] at he'; cases he'
      | ok x =>
        simp only [updateState_ok]
        constructor
        · rintro ⟨i, hi, hl, rfl⟩; exact ⟨ty, un, fmt, i, x, hg, he, hi, hl, rfl⟩
        · rintro ⟨ty', un', fmt', i, x', hg', he', hi, hl, rfl⟩
          rw [hg] at hg'
          simp only [Option.some.injEq, StateFeature.custom.injEq] at hg'
          rw [← hg'.2.2, he] at he'
          simp only [Except.ok.injEq] at he'
          subst he'
          exact ⟨i, hi, hl, rfl⟩
    | distance _ _ => simp [StateFeature.getCustomFeatureFormat, hg]
    | time _ _ => simp [StateFeature.getCustomFeatureFormat, hg]
    | energy _ _ => simp [StateFeature.getCustomFeatureFormat, hg]

end custom

theorem getDelta_ok [Sub α] {m : StateModel α} {prev next : List α} {name : String} {d : α} :
    m.getDelta prev next name = .ok d ↔
      ∃ i p n, m.getIndex name = some i ∧ prev[i]? = some p ∧ next[i]? = some n ∧ d = n - p := by
  simp only [getDelta]
  cases hp : m.getStateVariable prev name with
  | error e =>
    simp only [reduceCtorEq, false_iff, not_exists, not_and]
    intro i p n hi hs
    have := getStateVariable_ok.mpr ⟨i, hi, hs⟩
    rw [hp] at this; cases this
  | ok p =>
    obtain ⟨i, hi, hs⟩ := getStateVariable_ok.mp hp
    cases hn : m.getStateVariable next name with
    | error e =>
      simp only [reduceCtorEq, false_iff, not_exists, not_and]
      intro i' p' n' hi' _ hs'
      have := getStateVariable_ok.mpr ⟨i', hi', hs'⟩
      rw [hn] at this; cases this
    | ok n =>
      obtain ⟨i2, hi2, hs2⟩ := getStateVariable_ok.mp hn
      rw [hi] at hi2; simp only [Option.some.injEq] at hi2; subst hi2
      simp only [Except.ok.injEq]
      constructor
      · intro h; exact ⟨i, p, n, hi, hs, hs2, h.symm⟩
      · rintro ⟨i', p', n', hi', hs', hs2', rfl⟩
        rw [hi] at hi'; simp only [Option.some.injEq] at hi'; subst hi'
        rw [hs] at hs'; rw [hs2] at hs2'
        simp only [Option.some.injEq] at hs' hs2'
        subst hs'; subst hs2'; rfl

/-! ### when `extend` succeeds -/

/-- the names `extend` records: an entry whose name is already held (by the model or by an earlier
    entry) by a feature that is not `==` the entry's -/
def kindChanges (l : List (String × StateFeature α)) :
    List (String × StateFeature α) → List String
  | [] => []
  | (name, new) :: rest =>
    (match Spec.get l name with
      | some o => if !(o.eqv new) then [name] else []
      | none => []) ++ kindChanges (Spec.insert l name new) rest

theorem extendLoop_snd (map : Container String (StateFeature α)) (h : Container.Inv map)
    (ow : List String) (entries : List (String × StateFeature α)) :
    (extendLoop map ow entries).2 = ow ++ kindChanges (Container.abs map) entries := by
  induction entries generalizing map ow with
  | nil => simp [extendLoop, kindChanges]
  | cons e r ih =>
    obtain ⟨name, new⟩ := e
    obtain ⟨hi, ha, ho⟩ := Container.insert_refines h name new
    simp only [extendLoop, kindChanges]
    rw [ih _ hi, ha, ho]
    cases Spec.get (Container.abs map) name with
    | none => simp
    | some o => by_cases hq : o.eqv new <;> simp [hq]

theorem extend_ok_iff_kindChanges {m : StateModel α} (h : WF m)
    (entries : List (String × StateFeature α)) :
    (∃ m', m.extend entries = .ok m') ↔ kindChanges (feats m) entries = [] := by
  have h0 := Container.fromIter_refines m.map.iter
  rw [Container.iter_abs h, Spec.insertAll_nil_of_nodup _ (Container.abs_keys_nodup h)] at h0
  have hs := extendLoop_snd (Container.fromIter m.map.iter) (by rw [Container.iter_abs h]; exact h0.1) [] entries
  rw [Container.iter_abs h] at hs
  simp only [extend]
  rw [Container.iter_abs h, hs, h0.2]
  simp only [nil_append, feats]
  split_ifs with hc
  · simp only [List.isEmpty_iff] at hc
    simp [hc]
  · simp only [List.isEmpty_iff] at hc
    simp [hc]

theorem kindChanges_eq_nil_iff (l : List (String × StateFeature α))
    (entries : List (String × StateFeature α)) :
    kindChanges l entries = [] ↔
      ∀ j (hj : j < entries.length), ∀ o,
        Spec.get (Spec.insertAll l (entries.take j)) (entries[j]).1 = some o →
          o.eqv (entries[j]).2 = true := by
  induction entries generalizing l with
  | nil => simp [kindChanges]
  | cons e r ih =>
    obtain ⟨name, new⟩ := e
    simp only [kindChanges, append_eq_nil_iff, ih]
    constructor
    · rintro ⟨h0, hr⟩ j hj o ho
      cases j with
      | zero =>
        simp only [take_zero, Spec.insertAll, foldl_nil, getElem_cons_zero] at ho ⊢
        rw [ho] at h0
        by_cases hq : o.eqv new
        · exact hq
        · simp [hq] at h0
      | succ k =>
        simp only [take_succ_cons, getElem_cons_succ, Spec.insertAll, foldl_cons] at ho ⊢
        exact hr k (by simpa using hj) o ho
    · intro hall
      refine ⟨?_, ?_⟩
      · have := hall 0 (by simp)
        simp only [take_zero, Spec.insertAll, foldl_nil, getElem_cons_zero] at this
        cases hg : Spec.get l name with
        | none => rfl
        | some o => simp [this o hg]
      · intro k hk o ho
        have := hall (k + 1) (by simpa using hk) o
        simp only [take_succ_cons, getElem_cons_succ, Spec.insertAll, foldl_cons] at this
        exact this ho

end StateModel

end Compass
