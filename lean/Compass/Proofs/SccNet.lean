/-
C18, link to the network container of C15: what `scc.rs` reads of a network (`Scc.Graph.ofNet`) in terms of
the accessors of `graph.rs`; every network the loader returns is well formed in the sense of the Kosaraju
proof; `incident_triplet_attributes` on loaded networks.
-/
import Compass.Proofs.Scc
import Compass.Props.C15

namespace Compass
namespace Scc

variable {α : Type}

theorem ofNet_n (g : Compass.Graph α) : (Graph.ofNet g).n = g.vertices.length := rfl

theorem ofNet_outEdges (g : Compass.Graph α) (v : Nat) : (Graph.ofNet g).outEdges v = g.outEdges v := by
  simp only [Graph.outEdges, Graph.ofNet, Compass.Graph.outEdges, List.getElem?_toArray, List.getElem?_map]
  cases g.adj[v]? <;> rfl

theorem ofNet_inEdges (g : Compass.Graph α) (v : Nat) : (Graph.ofNet g).inEdges v = g.inEdges v := by
  simp only [Graph.inEdges, Graph.ofNet, Compass.Graph.inEdges, List.getElem?_toArray, List.getElem?_map]
  cases g.rev[v]? <;> rfl

theorem ofNet_edges_get (g : Compass.Graph α) (e : Nat) :
    (Graph.ofNet g).edges[e]? = (g.edges[e]?).map (fun x => (x.src, x.dst)) := by
  simp [Graph.ofNet]

theorem ofNet_srcOf (g : Compass.Graph α) (e : Nat) : (Graph.ofNet g).srcOf e = (g.edges[e]?).map (·.src) := by
  simp only [Graph.srcOf, ofNet_edges_get]
  cases g.edges[e]? <;> rfl

theorem ofNet_dstOf (g : Compass.Graph α) (e : Nat) : (Graph.ofNet g).dstOf e = (g.edges[e]?).map (·.dst) := by
  simp only [Graph.dstOf, ofNet_edges_get]
  cases g.edges[e]? <;> rfl

/-- `?` on `src_vertex_id` / `dst_vertex_id`: the model's `none` is the accessor's `EdgeNotFound` -/
theorem ofNet_srcOf_accessor (g : Compass.Graph α) (e : Nat) :
    (Graph.ofNet g).srcOf e = (match g.srcVertexId e with | .ok v => some v | .error _ => none) := by
  rw [ofNet_srcOf]
  simp only [Compass.Graph.srcVertexId, Compass.Graph.getEdge]
  cases g.edges[e]? <;> rfl

theorem ofNet_dstOf_accessor (g : Compass.Graph α) (e : Nat) :
    (Graph.ofNet g).dstOf e = (match g.dstVertexId e with | .ok v => some v | .error _ => none) := by
  rw [ofNet_dstOf]
  simp only [Compass.Graph.dstVertexId, Compass.Graph.getEdge]
  cases g.edges[e]? <;> rfl

theorem ofNet_edge (g : Compass.Graph α) (u v : Nat) :
    (Graph.ofNet g).Edge u v ↔ ∃ x ∈ g.edges, x.src = u ∧ x.dst = v := by
  unfold Graph.Edge
  constructor
  · rintro ⟨e, he⟩
    rw [ofNet_edges_get] at he
    cases hx : g.edges[e]? with
    | none => simp [hx] at he
    | some x =>
      simp only [hx, Option.map_some, Option.some.injEq, Prod.mk.injEq] at he
      exact ⟨x, List.mem_of_getElem? hx, he.1, he.2⟩
  · rintro ⟨x, hx, rfl, rfl⟩
    obtain ⟨e, he⟩ := List.mem_iff_getElem?.1 hx
    exact ⟨e, by rw [ofNet_edges_get, he]; rfl⟩

/-- the graph the loader assembles from rows in the documented format is well formed, whatever count sized
its tables -/
theorem ofNet_buildGraph_wf (es : List (Edge α)) (vs : List (Vertex α)) (nV : Nat) (h : RowIds es)
    (hb : EndpointsBelow es nV) (hb' : EndpointsBelow es vs.length) :
    (Graph.ofNet (buildGraph es vs nV)).WF := by
  have hedges : (buildGraph es vs nV).edges = es := rfl
  refine ⟨?_, ?_, ?_, ?_⟩
  · intro e s d he
    rw [ofNet_edges_get, hedges] at he
    cases hx : es[e]? with
    | none => simp [hx] at he
    | some x =>
      simp only [hx, Option.map_some, Option.some.injEq, Prod.mk.injEq] at he
      have := hb' x (List.mem_of_getElem? hx)
      rw [ofNet_n]
      show s < vs.length ∧ d < vs.length
      rw [← he.1, ← he.2]
      exact this
  · intro v e he
    rw [ofNet_outEdges] at he
    obtain ⟨hx, hs⟩ := (C15.mem_out_edges_iff es vs nV h hb v e).1 he
    rw [ofNet_srcOf, hedges, List.getElem?_eq_getElem hx]
    simp [hs]
  · intro v e he
    rw [ofNet_inEdges] at he
    obtain ⟨hx, hs⟩ := (C15.mem_in_edges_iff es vs nV h hb v e).1 he
    rw [ofNet_dstOf, hedges, List.getElem?_eq_getElem hx]
    simp [hs]
  · intro e s d he
    rw [ofNet_edges_get, hedges] at he
    cases hx : es[e]? with
    | none => simp [hx] at he
    | some x =>
      simp only [hx, Option.map_some, Option.some.injEq, Prod.mk.injEq] at he
      obtain ⟨hlt, hget⟩ := List.getElem?_eq_some_iff.1 hx
      rw [ofNet_outEdges, ofNet_inEdges]
      refine ⟨(C15.mem_out_edges_iff es vs nV h hb s e).2 ⟨hlt, ?_⟩,
        (C15.mem_in_edges_iff es vs nV h hb d e).2 ⟨hlt, ?_⟩⟩
      · rw [hget]; exact he.1
      · rw [hget]; exact he.2

/-- every network `Graph::from_files` returns is well formed -/
theorem ofNet_loaded_wf (ef : CsvFile (Edge α)) (vf : CsvFile (Vertex α)) (nE nV : Option Nat)
    (net : Compass.Graph α) (h : graphFromFiles ef vf nE nV = .ok net) : (Graph.ofNet net).WF := by
  obtain ⟨es, vs, n, rfl, hr, _, hb, hb'⟩ := C15.loaded_graph_is_buildGraph ef vf nE nV net h
  exact ofNet_buildGraph_wf es vs n hr hb hb'

end Scc

/-! ### `incident_triplet_attributes` -/

namespace Graph
variable {α : Type}

/-- success arm, for every graph value: one entry per id triplet, holding the records at those positions -/
theorem tripletAttrsGo_ok_iff (g : Graph α) (l : List (Nat × Nat × Nat))
    (r : List (Vertex α × Edge α × Vertex α)) :
    tripletAttrsGo g l = .ok r ↔
      List.Forall₂ (fun t x => g.vertices[t.1]? = some x.1 ∧ g.edges[t.2.1]? = some x.2.1 ∧
        g.vertices[t.2.2]? = some x.2.2) l r := by
  induction l generalizing r with
  | nil =>
    constructor
    · intro h
      simp only [tripletAttrsGo, Except.ok.injEq] at h
      subst h
      exact List.Forall₂.nil
    · intro h
      cases h
      rfl
  | cons t l ih =>
    obtain ⟨a, e, b⟩ := t
    simp only [tripletAttrsGo, getVertex, getEdge]
    cases ha : g.vertices[a]? with
    | none =>
      constructor
      · intro h; simp at h
      · intro h
        cases h with
        | cons h1 _ => simp [ha] at h1
    | some sv =>
      cases he : g.edges[e]? with
      | none =>
        constructor
        · intro h; simp at h
        · intro h
          cases h with
          | cons h1 _ => simp [he] at h1
      | some ed =>
        cases hb : g.vertices[b]? with
        | none =>
          constructor
          · intro h; simp at h
          · intro h
            cases h with
            | cons h1 _ => simp [hb] at h1
        | some dv =>
          cases hrest : tripletAttrsGo g l with
          | error x =>
            constructor
            · intro h; simp at h
            · intro h
              cases h with
              | cons _ h2 =>
                have := (ih _).2 h2
                rw [hrest] at this
                cases this
          | ok rest =>
            constructor
            · intro h
              simp only [Except.ok.injEq] at h
              subst h
              exact List.Forall₂.cons ⟨by simp [ha], by simp [he], by simp [hb]⟩ ((ih rest).1 hrest)
            · intro h
              cases h with
              | @cons _ x _ r' h1 h2 =>
                have h3 := (ih r').2 h2
                rw [hrest] at h3
                simp only [Except.ok.injEq] at h3
                subst h3
                obtain ⟨x1, x2, x3⟩ := x
                simp only [ha, he, hb, Option.some.injEq] at h1
                obtain ⟨rfl, rfl, rfl⟩ := h1
                rfl

/-- error arm, for every graph value: the error names a position that does not exist, taken from one of the
id triplets -/
theorem tripletAttrsGo_error (g : Graph α) (l : List (Nat × Nat × Nat)) (x : NetErr)
    (h : tripletAttrsGo g l = .error x) :
    ∃ t ∈ l, (x = .vertexNotFound t.1 ∧ g.vertices[t.1]? = none) ∨
      (x = .edgeNotFound t.2.1 ∧ g.edges[t.2.1]? = none) ∨
      (x = .vertexNotFound t.2.2 ∧ g.vertices[t.2.2]? = none) := by
  induction l with
  | nil => simp [tripletAttrsGo] at h
  | cons t l ih =>
    obtain ⟨a, e, b⟩ := t
    simp only [tripletAttrsGo, getVertex, getEdge] at h
    cases ha : g.vertices[a]? with
    | none =>
      simp only [ha, Except.error.injEq] at h
      exact ⟨(a, e, b), List.mem_cons_self, Or.inl ⟨h.symm, ha⟩⟩
    | some sv =>
      cases he : g.edges[e]? with
      | none =>
        simp only [ha, he, Except.error.injEq] at h
        exact ⟨(a, e, b), List.mem_cons_self, Or.inr (Or.inl ⟨h.symm, he⟩)⟩
      | some ed =>
        cases hb : g.vertices[b]? with
        | none =>
          simp only [ha, he, hb, Except.error.injEq] at h
          exact ⟨(a, e, b), List.mem_cons_self, Or.inr (Or.inr ⟨h.symm, hb⟩)⟩
        | some dv =>
          cases hrest : tripletAttrsGo g l with
          | error y =>
            simp only [ha, he, hb, hrest, Except.error.injEq] at h
            subst h
            obtain ⟨t, ht, hcase⟩ := ih hrest
            exact ⟨t, List.mem_cons_of_mem _ ht, hcase⟩
          | ok rest => simp [ha, he, hb, hrest] at h

/-- every id triplet `incident_triplet_ids` returns names an edge record that exists (it was just read to find
the far end): the `?` on `get_edge` inside `incident_triplet_attributes` can never take its error arm -/
theorem tripletIdsGo_edges_exist (g : Graph α) (v : Nat) (d : Direction) (es : List Nat)
    (l : List (Nat × Nat × Nat)) (h : tripletIdsGo g v d es = .ok l) :
    ∀ t ∈ l, ∃ ed, g.edges[t.2.1]? = some ed := by
  induction es generalizing l with
  | nil =>
    simp only [tripletIdsGo, Except.ok.injEq] at h
    subst h
    intro t ht
    exact absurd ht List.not_mem_nil
  | cons e es ih =>
    simp only [tripletIdsGo] at h
    cases hv : g.incidentVertex e d with
    | error x => simp [hv] at h
    | ok far =>
      cases hrest : tripletIdsGo g v d es with
      | error x => simp [hv, hrest] at h
      | ok rest =>
        simp only [hv, hrest, Except.ok.injEq] at h
        subst h
        intro t ht
        rcases List.mem_cons.1 ht with rfl | ht
        · -- the far end of `e` was found, so the record of `e` exists
          cases hed : g.edges[e]? with
          | some ed => exact ⟨ed, rfl⟩
          | none =>
            cases d <;>
              simp [incidentVertex, srcVertexId, dstVertexId, getEdge, hed] at hv
        · exact ih rest hrest t ht

end Graph

namespace Scc
variable {α : Type}

/-- on the graph assembled from rows in the documented format, the attribute triplets of the edges `l`
(all listed), asked as (source id, edge id, destination id), are their `edge_triplet`s -/
theorem tripletAttrsGo_listed (es : List (Edge α)) (vs : List (Vertex α)) (nV : Nat) (h : RowIds es)
    (hb : EndpointsBelow es vs.length) (l : List (Edge α)) (hl : ∀ e ∈ l, e ∈ es) :
    ∃ r, Compass.Graph.tripletAttrsGo (buildGraph es vs nV) (l.map (fun e => (e.src, e.edgeId, e.dst))) = .ok r ∧
      List.Forall₂ (fun e t => (buildGraph es vs nV).edgeTriplet e.edgeId = .ok t) l r := by
  induction l with
  | nil => exact ⟨[], rfl, List.Forall₂.nil⟩
  | cons e l ih =>
    obtain ⟨r, hr, hf⟩ := ih (fun x hx => hl x (List.mem_cons_of_mem _ hx))
    have he := hl e List.mem_cons_self
    have hs := (hb e he).1
    have hd := (hb e he).2
    refine ⟨(vs[e.src], e, vs[e.dst]) :: r, ?_, List.Forall₂.cons (C15.edge_triplet_eq es vs nV h hb e he) hf⟩
    simp only [List.map_cons, Compass.Graph.tripletAttrsGo, C15.get_edge_by_id es vs nV h e he,
      C15.get_vertex_general, List.getElem?_eq_getElem hs, List.getElem?_eq_getElem hd, hr]

/-- the same asked as (destination id, edge id, source id) — the reverse direction: the vertices come swapped -/
theorem tripletAttrsGo_listed_rev (es : List (Edge α)) (vs : List (Vertex α)) (nV : Nat) (h : RowIds es)
    (hb : EndpointsBelow es vs.length) (l : List (Edge α)) (hl : ∀ e ∈ l, e ∈ es) :
    ∃ r, Compass.Graph.tripletAttrsGo (buildGraph es vs nV) (l.map (fun e => (e.dst, e.edgeId, e.src))) = .ok r ∧
      List.Forall₂ (fun e t => (buildGraph es vs nV).edgeTriplet e.edgeId = .ok (t.2.2, t.2.1, t.1)) l r := by
  induction l with
  | nil => exact ⟨[], rfl, List.Forall₂.nil⟩
  | cons e l ih =>
    obtain ⟨r, hr, hf⟩ := ih (fun x hx => hl x (List.mem_cons_of_mem _ hx))
    have he := hl e List.mem_cons_self
    have hs := (hb e he).1
    have hd := (hb e he).2
    refine ⟨(vs[e.dst], e, vs[e.src]) :: r, ?_, List.Forall₂.cons (C15.edge_triplet_eq es vs nV h hb e he) hf⟩
    simp only [List.map_cons, Compass.Graph.tripletAttrsGo, C15.get_edge_by_id es vs nV h e he,
      C15.get_vertex_general, List.getElem?_eq_getElem hs, List.getElem?_eq_getElem hd, hr]

end Scc
end Compass
