/-
Proof-side numeric setting: any linearly ordered field `α` with a lawful literal class.
-/
import Mathlib.Algebra.Order.Field.Basic
import Mathlib.Data.Rat.Cast.CharZero
import Mathlib.Data.Rat.Cast.Order
import Mathlib.Tactic.Ring
import Mathlib.Tactic.Linarith
import Mathlib.Tactic.FieldSimp
import Mathlib.Tactic.Positivity
import Mathlib.Tactic.NormNum
import Compass.Model.Num

namespace Compass

/-- literals mean what they say: `lit n d = n / d` -/
class LawfulLit (α : Type) [Field α] [Lit α] : Prop where
  lit_eq : ∀ n d : Nat, (Lit.lit n d : α) = (n : α) / (d : α)
  /-- every number of a field is below `+∞` (the code's `x < Cost::INFINITY`; at `Float`, outside
  every theorem, it is false of `+∞` and NaN) -/
  belowInf_eq : ∀ x : α, Lit.belowInf x = true

instance : Lit ℚ where
  lit n d := (n : ℚ) / (d : ℚ)

instance : LawfulLit ℚ where
  lit_eq _ _ := rfl
  belowInf_eq _ := rfl

section
variable {α : Type} [Field α] [LinearOrder α] [IsStrictOrderedRing α] [Lit α] [LawfulLit α]

@[simp] theorem zero_eq : (zero : α) = 0 := by
  simp [zero, LawfulLit.lit_eq]

@[simp] theorem one_eq : (one : α) = 1 := by
  simp [one, LawfulLit.lit_eq]

/-- the rational a factor multiplies by -/
def Factor.ratio : Factor → ℚ
  | .id => 1
  | .mul n d => (n : ℚ) / (d : ℚ)
  | .div n d => (d : ℚ) / (n : ℚ)

/-- table entries are well formed: no zero numerator or denominator -/
def Factor.wf : Factor → Bool
  | .id => true
  | .mul n d => n != 0 && d != 0
  | .div n d => n != 0 && d != 0

theorem Factor.apply_eq (f : Factor) (x : α) : f.apply x = x * (f.ratio : α) := by
  cases f with
  | id => simp [Factor.apply, Factor.ratio]
  | mul n d => simp [Factor.apply, Factor.ratio, LawfulLit.lit_eq]
  | div n d =>
    simp only [Factor.apply, Factor.ratio, LawfulLit.lit_eq]
    push_cast
    rw [div_div_eq_mul_div, mul_div_assoc]

theorem Factor.ratio_pos (f : Factor) (h : f.wf = true) : 0 < f.ratio := by
  cases f with
  | id => simp [Factor.ratio]
  | mul n d =>
    simp [Factor.wf] at h
    have hn : (0 : ℚ) < n := by exact_mod_cast Nat.pos_of_ne_zero h.1
    have hd : (0 : ℚ) < d := by exact_mod_cast Nat.pos_of_ne_zero h.2
    simp only [Factor.ratio]; positivity
  | div n d =>
    simp [Factor.wf] at h
    have hn : (0 : ℚ) < n := by exact_mod_cast Nat.pos_of_ne_zero h.1
    have hd : (0 : ℚ) < d := by exact_mod_cast Nat.pos_of_ne_zero h.2
    simp only [Factor.ratio]; positivity

theorem Factor.apply_linear (f : Factor) (a b x y : α) :
    f.apply (a * x + b * y) = a * f.apply x + b * f.apply y := by
  simp only [Factor.apply_eq]; ring

end

end Compass
