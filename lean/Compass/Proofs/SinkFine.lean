/-
The small-step model of `write_response` (Model/SinkFine.lean) with the guard refines the atomic model
(Model/Sink.lean): every interleaving of the small steps is, seen from the file, the counter and the responses
handed back, one of the atomic schedules — the one in which the workers release the lock.  Core Lean only.
-/
import Compass.Model.SinkFine
import Compass.Proofs.Sink

namespace Compass
namespace SinkFine
open Sink

theorem set_same_map {α β : Type} (f : α → β) (l : List α) (i : Nat) (a a' : α) (h : l[i]? = some a)
    (hf : f a' = f a) : (l.set i a').map f = l.map f := by
  rw [List.map_set, hf]
  apply List.ext_getElem?
  intro j
  by_cases hj : i = j
  · subst hj
    have hlt : i < (l.map f).length := by
      have := (List.getElem?_eq_some_iff.1 h).1
      simpa using this
    rw [List.getElem?_set_self hlt, List.getElem?_map, h]; rfl
  · rw [List.getElem?_set_ne hj]

theorem lt_of_getElem? {α : Type} {l : List α} {i : Nat} {a : α} (h : l[i]? = some a) : i < l.length :=
  (List.getElem?_eq_some_iff.1 h).1

/-- what the holder of the lock has done so far: `part` is the text of its record that is in the file already,
`bump` whether it has counted -/
def HolderOK (c : Config) (wk : Worker) (part : List Char) (bump : Nat) : Prop :=
  match wk.pc with
  | .locked => wk.queue ≠ [] ∧ part = [] ∧ bump = 0
  | .writing done pend post =>
    ∃ r rest row, wk.queue = r :: rest ∧ formatResponse c.N c.format r = .ok (row, post) ∧
      done ++ pend = c.split (record row) ∧ part = done.flatten ∧ bump = 0
  | .counted written post =>
    ∃ r rest row, wk.queue = r :: rest ∧ formatResponse c.N c.format r = .ok (row, post) ∧
      written = record row ∧ part = record row ∧ bump = 1
  | _ => False

/-- the simulation relation between a small-step state and a state `A` of the atomic model: the atomic model
has done exactly the writes whose lock has been released -/
structure Sim (c : Config) (st : State) (A : Run) : Prop where
  queues : A.queues = st.workers.map (·.queue)
  returned : A.returned = st.workers.map (·.returned)
  format : A.sink.format = c.format
  healthy : A.sink.Healthy
  notPoisoned : st.poisoned = false
  failed : st.failed = 0 ∧ A.failed = 0
  state : ∃ part bump, A.sink.contents ++ part = st.contents ∧ A.sink.iterations + bump = st.iterations ∧
    (st.lock = none → part = [] ∧ bump = 0 ∧ ∀ (i : Nat) (wk : Worker), st.workers[i]? = some wk → wk.pc = PC.idle) ∧
    (∀ i, st.lock = some i → ∃ wk, st.workers[i]? = some wk ∧ HolderOK c wk part bump ∧
      ∀ (j : Nat) (wk' : Worker), j ≠ i → st.workers[j]? = some wk' → wk'.pc = PC.idle)

theorem init_sim (c : Config) (sink : FileSink) (queues : List (List Json)) (hf : sink.format = c.format)
    (hh : sink.Healthy) :
    Sim c (init sink.file sink.iterations queues) (Run.init sink queues) := by
  have e1 : queues = List.map (fun x => x.queue) (List.map (fun q => ({ queue := q } : Worker)) queues) := by
    rw [List.map_map]; exact (List.map_id' _).symm ▸ (by induction queues <;> simp_all)
  have e2 : queues.map (fun _ => ([] : List Json))
      = List.map (fun x => x.returned) (List.map (fun q => ({ queue := q } : Worker)) queues) := by
    rw [List.map_map]; rfl
  refine ⟨e1, e2,
    hf, hh, rfl, ⟨rfl, rfl⟩, [], 0, by simp [State.contents, FileSink.contents, Run.init, init], rfl, ?_, ?_⟩
  · intro _
    refine ⟨rfl, rfl, ?_⟩
    intro i wk h
    simp only [init, List.getElem?_map] at h
    cases hq : queues[i]? with
    | none => simp [hq] at h
    | some q => simp [hq] at h; rw [← h]
  · intro i h; simp [init] at h

/-- one small step is either invisible to the atomic model or — when the lock is released — its step of the
same worker -/
theorem step_sim (c : Config) (hg : c.guard = true) (hsplit : ∀ t, (c.split t).flatten = t)
    (st : State) (A : Run) (h : Sim c st A)
    (hw : ∀ q ∈ A.queues, ∀ r ∈ q, Writable c.N c.format r) (w : Nat) :
    Sim c (step c st w) A ∨ Sim c (step c st w) (A.step c.N c.persist w) := by
  obtain ⟨hq, hret, hfmt, hhealthy, hpois, hfail, part, bump, hcont, hiter, hfree, hheld⟩ := h
  cases hwk : st.workers[w]? with
  | none => left; simp only [step, hwk]; exact ⟨hq, hret, hfmt, hhealthy, hpois, hfail, part, bump, hcont, hiter, hfree, hheld⟩
  | some wk =>
    have hwlt := lt_of_getElem? hwk
    cases hl : st.lock with
    | none =>
      obtain ⟨hp0, hb0, hidle⟩ := hfree hl
      have hpc := hidle w wk hwk
      left
      simp only [step, hwk, hpc]
      cases hqu : wk.queue with
      | nil => exact ⟨hq, hret, hfmt, hhealthy, hpois, hfail, part, bump, hcont, hiter, hfree, hheld⟩
      | cons r rest =>
        simp only [hg, if_true, hl, hpois, Bool.false_eq_true, if_false]
        refine ⟨?_, ?_, hfmt, hhealthy, (by first | exact hpois | rfl), hfail, [], 0, ?_, ?_, ?_, ?_⟩
        · rw [hq]; symm; apply set_same_map _ _ _ wk _ hwk; first | rfl | exact hqu.symm
        · rw [hret]; symm; apply set_same_map _ _ _ wk _ hwk; rfl
        · rw [hp0] at hcont; exact hcont
        · rw [hb0] at hiter; exact hiter
        · intro hn; simp at hn
        · intro i hi
          simp only [Option.some.injEq] at hi
          subst hi
          refine ⟨_, List.getElem?_set_self hwlt, ?_, ?_⟩
          · simp [HolderOK]
          · intro j wk' hj hj'
            rw [List.getElem?_set_ne (fun e => hj e.symm)] at hj'
            exact hidle j wk' hj'
    | some i =>
      obtain ⟨hk, hki, hok, hothers⟩ := hheld i hl
      by_cases hwi : w = i
      · subst hwi
        rw [hwk] at hki
        simp only [Option.some.injEq] at hki
        subst hki
        -- the holder moves
        cases hpc : wk.pc with
        | idle => simp [HolderOK, hpc] at hok
        | dead => simp [HolderOK, hpc] at hok
        | locked =>
          simp only [HolderOK, hpc] at hok
          obtain ⟨hne, hp0, hb0⟩ := hok
          cases hqu : wk.queue with
          | nil => exact absurd hqu hne
          | cons r rest =>
            have hmem : wk.queue ∈ A.queues := by
              rw [hq]; exact List.mem_map.2 ⟨wk, List.mem_of_getElem? hwk, rfl⟩
            have hwr := hw _ hmem r (by rw [hqu]; exact List.mem_cons_self ..)
            have hf := formatResponse_of_writable hwr
            left
            simp only [step, hwk, hpc, hqu, hf, setWorker]
            refine ⟨?_, ?_, hfmt, hhealthy, (by first | exact hpois | rfl), hfail, [], 0, ?_, ?_, ?_, ?_⟩
            · rw [hq]; symm; apply set_same_map _ _ _ wk _ hwk; first | rfl | exact hqu.symm
            · rw [hret]; symm; apply set_same_map _ _ _ wk _ hwk; rfl
            · rw [hp0] at hcont; exact hcont
            · rw [hb0] at hiter; exact hiter
            · intro hn; rw [hl] at hn; simp at hn
            · intro j hj
              rw [hl] at hj
              simp only [Option.some.injEq] at hj
              subst hj
              refine ⟨_, List.getElem?_set_self hwlt, ?_, ?_⟩
              · simp only [HolderOK]
                exact ⟨r, rest, _, rfl, hf, by simp, by simp, trivial⟩
              · intro j wk' hj hj'
                rw [List.getElem?_set_ne (fun e => hj e.symm)] at hj'
                exact hothers j wk' hj hj'
        | writing done pend post =>
          simp only [HolderOK, hpc] at hok
          obtain ⟨r, rest, row, hqu, hf, hsp, hpart, hb0⟩ := hok
          left
          cases pend with
          | cons p ps =>
            simp only [step, hwk, hpc]
            refine ⟨?_, ?_, hfmt, hhealthy, (by first | exact hpois | rfl), hfail, part ++ p, 0, ?_, ?_, ?_, ?_⟩
            · rw [hq]; symm; apply set_same_map _ _ _ wk _ hwk; first | rfl | exact hqu.symm
            · rw [hret]; symm; apply set_same_map _ _ _ wk _ hwk; rfl
            · simp only [State.contents, List.flatten_append, List.flatten_cons, List.flatten_nil, List.append_nil]
              rw [← List.append_assoc, hcont]; rfl
            · rw [hb0] at hiter; exact hiter
            · intro hn; rw [hl] at hn; simp at hn
            · intro j hj
              rw [hl] at hj
              simp only [Option.some.injEq] at hj
              subst hj
              refine ⟨_, List.getElem?_set_self hwlt, ?_, ?_⟩
              · simp only [HolderOK]
                exact ⟨r, rest, row, hqu, hf, by rw [← hsp]; simp, by rw [hpart]; simp, trivial⟩
              · intro j wk' hj hj'
                rw [List.getElem?_set_ne (fun e => hj e.symm)] at hj'
                exact hothers j wk' hj hj'
          | nil =>
            simp only [step, hwk, hpc]
            have hwhole : done.flatten = record row := by
              rw [List.append_nil] at hsp
              rw [hsp, hsplit]
            refine ⟨?_, ?_, hfmt, hhealthy, (by first | exact hpois | rfl), hfail, record row, 1, ?_, ?_, ?_, ?_⟩
            · rw [hq]; symm; apply set_same_map _ _ _ wk _ hwk; first | rfl | exact hqu.symm
            · rw [hret]; symm; apply set_same_map _ _ _ wk _ hwk; rfl
            · rw [← hwhole, ← hpart]; exact hcont
            · rw [hb0] at hiter; simp only at hiter ⊢; omega
            · intro hn; rw [hl] at hn; simp at hn
            · intro j hj
              rw [hl] at hj
              simp only [Option.some.injEq] at hj
              subst hj
              refine ⟨_, List.getElem?_set_self hwlt, ?_, ?_⟩
              · simp only [HolderOK]
                exact ⟨r, rest, row, hqu, hf, hwhole, rfl, trivial⟩
              · intro j wk' hj hj'
                rw [List.getElem?_set_ne (fun e => hj e.symm)] at hj'
                exact hothers j wk' hj hj'
        | counted written post =>
          simp only [HolderOK, hpc] at hok
          obtain ⟨r, rest, row, hqu, hf, hwr, hpart, hb1⟩ := hok
          right
          -- the atomic model writes the same response now
          have hAq : A.queues[w]? = some (r :: rest) := by
            rw [hq, List.getElem?_map, hwk]; simp [hqu]
          have hmem : (r :: rest) ∈ A.queues := List.mem_of_getElem? hAq
          have hwrb : Writable c.N A.sink.format r := by
            rw [hfmt]; exact hw _ hmem r (List.mem_cons_self ..)
          obtain ⟨s', hs', hfile', hit', hfmt', hh', _⟩ := write_ok_of_writable c.N A.sink r hhealthy hwrb
          have hpost : postOf c.N A.sink.format r = post := by
            unfold postOf; rw [hfmt, hf]
          have hrec : recordOf c.N A.sink.format r = record row := by
            unfold recordOf rowOf; rw [hfmt, hf]
          simp only [step, hwk, hpc, hg, if_true]
          simp only [Run.step, hAq, hs', hpost]
          refine ⟨?_, ?_, by rw [hfmt', hfmt], hh', (by first | exact hpois | rfl), hfail, [], 0, ?_, ?_, ?_, ?_⟩
          · simp only [hq, List.map_set, hqu, List.tail_cons]
          · cases hper : c.persist with
            | false =>
              simp only [Bool.false_eq_true, if_false]
              rw [hret]; symm; apply set_same_map _ _ _ wk _ hwk; rfl
            | true =>
              simp only [if_true, pushAt, hret, List.map_set]
              apply List.ext_getElem?
              intro j
              by_cases hj : w = j
              · subst hj
                rw [List.getElem?_set_self (by simpa using hwlt), List.getElem?_modify_eq, List.getElem?_map, hwk]
                rfl
              · rw [List.getElem?_set_ne hj, List.getElem?_modify_ne _ _ hj]
          · simp only [FileSink.contents, hfile', List.flatten_append, List.flatten_cons, List.flatten_nil,
              List.append_nil, hrec, State.contents]
            rw [← hpart]; exact hcont
          · rw [hit']; rw [hb1] at hiter; simp only at hiter ⊢; omega
          · intro _
            refine ⟨rfl, rfl, ?_⟩
            intro j wk' hj'
            by_cases hj : w = j
            · subst hj
              rw [List.getElem?_set_self hwlt] at hj'
              simp only [Option.some.injEq] at hj'
              rw [← hj']
            · rw [List.getElem?_set_ne hj] at hj'
              exact hothers j wk' (fun e => hj e.symm) hj'
          · intro j hj; simp at hj
      · -- somebody else holds the lock: `w` is outside `write_response`; if it wants in, it waits
        have hpc := hothers w wk hwi hwk
        left
        simp only [step, hwk, hpc]
        cases hqu : wk.queue with
        | nil => exact ⟨hq, hret, hfmt, hhealthy, hpois, hfail, part, bump, hcont, hiter, hfree, hheld⟩
        | cons r rest =>
          simp only [hg, if_true, hl]
          exact ⟨hq, hret, hfmt, hhealthy, hpois, hfail, part, bump, hcont, hiter, hfree, hheld⟩

theorem step_queue_subset (N : NumOps) (persist : Bool) (A : Run) (w : Nat) :
    ∀ q ∈ (A.step N persist w).queues, ∀ r ∈ q, ∃ q' ∈ A.queues, r ∈ q' := by
  intro q hqm r hr
  rw [step_queues] at hqm
  unfold drainStep at hqm
  split at hqm
  · rename_i r0 rest h0
    rcases List.mem_or_eq_of_mem_set hqm with hm | he
    · exact ⟨q, hm, hr⟩
    · exact ⟨r0 :: rest, List.mem_of_getElem? h0, by rw [he] at hr; exact List.mem_cons_of_mem _ hr⟩
  · exact ⟨q, hqm, hr⟩

/-- REFINEMENT: whatever the interleaving of the small steps, the guarded code is in a state the atomic model
reaches under some schedule of its own (the order in which the lock was released) -/
theorem exec_sim (c : Config) (hg : c.guard = true) (hsplit : ∀ t, (c.split t).flatten = t)
    (schedule : List Nat) (st : State) (A : Run) (h : Sim c st A)
    (hw : ∀ q ∈ A.queues, ∀ r ∈ q, Writable c.N c.format r) :
    ∃ atomic : List Nat, Sim c (exec c st schedule) (A.exec c.N c.persist atomic) := by
  induction schedule generalizing st A with
  | nil => exact ⟨[], h⟩
  | cons w ws ih =>
    rcases step_sim c hg hsplit st A h hw w with h1 | h1
    · obtain ⟨as, has⟩ := ih (step c st w) A h1 hw
      exact ⟨as, has⟩
    · have hw' : ∀ q ∈ (A.step c.N c.persist w).queues, ∀ r ∈ q, Writable c.N c.format r := by
        intro q hqm r hr
        obtain ⟨q', hq', hr'⟩ := step_queue_subset c.N c.persist A w q hqm r hr
        exact hw q' hq' r hr'
      obtain ⟨as, has⟩ := ih (step c st w) (A.step c.N c.persist w) h1 hw'
      exact ⟨w :: as, has⟩

/-- when nobody holds the lock the two models agree on the file text and the counter -/
theorem sim_unlocked (c : Config) (st : State) (A : Run) (h : Sim c st A) (hl : st.lock = none) :
    st.contents = A.sink.contents ∧ st.iterations = A.sink.iterations := by
  obtain ⟨part, bump, hcont, hiter, hfree, _⟩ := h.state
  obtain ⟨hp, hb, _⟩ := hfree hl
  rw [hp, List.append_nil] at hcont
  rw [hb] at hiter
  exact ⟨hcont.symm, hiter.symm⟩

theorem finished_unlocked (c : Config) (st : State) (A : Run) (h : Sim c st A) (hf : st.finished = true) :
    st.lock = none ∧ A.done = true := by
  have hall : ∀ wk ∈ st.workers, isIdle wk.pc = true ∧ wk.queue = [] := by
    intro wk hwk
    have := List.all_eq_true.1 hf wk hwk
    simpa using this
  constructor
  · cases hl : st.lock with
    | none => rfl
    | some i =>
      obtain ⟨part, bump, _, _, _, hheld⟩ := h.state
      obtain ⟨wk, hwk, hok, _⟩ := hheld i hl
      have := (hall wk (List.mem_of_getElem? hwk)).1
      cases hpc : wk.pc <;> simp [HolderOK, hpc, isIdle] at hok this
  · unfold Run.done
    rw [h.queues, List.all_eq_true]
    intro q hqm
    obtain ⟨wk, hwk, rfl⟩ := List.mem_map.1 hqm
    simp [(hall wk hwk).2]

/-! ### without a common lock: records stay whole when each goes out in one `write` call -/

/-- the responses of a worker whose record is not in the file yet -/
def pendingOf (wk : Worker) : List Json :=
  match wk.pc with
  | .writing (_ :: _) _ _ => wk.queue.tail
  | .counted _ _ => wk.queue.tail
  | _ => wk.queue

def PcOK (c : Config) (wk : Worker) : Prop :=
  match wk.pc with
  | .writing [] pend _ => ∃ r rest, wk.queue = r :: rest ∧ pend = [recordOf c.N c.format r]
  | .writing (_ :: _) pend _ => pend = []
  | _ => True

structure Whole (c : Config) (start : List (List Char)) (batch : List Json) (st : State) : Prop where
  notPoisoned : st.poisoned = false
  pcs : ∀ wk ∈ st.workers, PcOK c wk
  writable : ∀ wk ∈ st.workers, ∀ r ∈ wk.queue, Writable c.N c.format r
  file : ∃ trace, st.file = start ++ trace.map (recordOf c.N c.format) ∧
    (trace ++ (st.workers.map pendingOf).flatten).Perm batch

theorem mem_set_cases {α : Type} {l : List α} {i : Nat} {a x : α} (h : x ∈ l.set i a) : x ∈ l ∨ x = a :=
  List.mem_or_eq_of_mem_set h

theorem whole_set (c : Config) (start : List (List Char)) (batch : List Json) (st : State) (w : Nat)
    (wk wk' : Worker) (h : Whole c start batch st) (hwk : st.workers[w]? = some wk)
    (hpc : PcOK c wk') (hq : ∀ r ∈ wk'.queue, r ∈ wk.queue) (hpend : pendingOf wk' = pendingOf wk)
    (st' : State) (hst : st'.workers = st.workers.set w wk') (hfile : st'.file = st.file)
    (hpo : st'.poisoned = st.poisoned) : Whole c start batch st' := by
  refine ⟨by rw [hpo]; exact h.notPoisoned, ?_, ?_, ?_⟩
  · intro x hx; rw [hst] at hx
    rcases mem_set_cases hx with hx | hx
    · exact h.pcs x hx
    · rw [hx]; exact hpc
  · intro x hx r hr; rw [hst] at hx
    rcases mem_set_cases hx with hx | hx
    · exact h.writable x hx r hr
    · rw [hx] at hr; exact h.writable wk (List.mem_of_getElem? hwk) r (hq r hr)
  · obtain ⟨trace, hf, hp⟩ := h.file
    refine ⟨trace, by rw [hfile]; exact hf, ?_⟩
    rw [hst, set_same_map pendingOf _ w wk wk' hwk hpend]; exact hp

/-- for ANY lock discipline (`guard` true or false — several sinks on one file have separate locks, which is
no common lock) and one `write` call per record: every step keeps the file a sequence of whole records -/
theorem step_whole (c : Config) (hone : c.split = oneCall) (start : List (List Char)) (batch : List Json)
    (st : State) (h : Whole c start batch st) (w : Nat) : Whole c start batch (step c st w) := by
  cases hwk : st.workers[w]? with
  | none => simp only [step, hwk]; exact h
  | some wk =>
    have hwmem := List.mem_of_getElem? hwk
    have hwlt := lt_of_getElem? hwk
    have hpcw := h.pcs wk hwmem
    cases hpc : wk.pc with
    | dead => simp only [step, hwk, hpc]; exact h
    | idle =>
      simp only [step, hwk, hpc]
      cases hqu : wk.queue with
      | nil => exact h
      | cons r rest =>
        simp only
        have key : Whole c start batch (setWorker st w { wk with pc := .locked }) :=
          whole_set c start batch st w wk { wk with pc := .locked } h hwk (by simp [PcOK]) (fun r hr => hr)
            (by simp [pendingOf, hpc]) _ rfl rfl rfl
        cases c.guard with
        | false => simpa [setWorker, hqu] using key
        | true =>
          simp only [if_true]
          cases st.lock with
          | some _ => exact h
          | none =>
            simp only [h.notPoisoned, Bool.false_eq_true, if_false]
            exact whole_set c start batch st w wk { wk with pc := .locked } h hwk (by simp [PcOK])
              (fun r hr => hr) (by simp [pendingOf, hpc]) _ (by simp [hqu]) rfl h.notPoisoned.symm
    | locked =>
      simp only [step, hwk, hpc]
      cases hqu : wk.queue with
      | nil => exact h
      | cons r rest =>
        have hwr := h.writable wk hwmem r (by rw [hqu]; exact List.mem_cons_self ..)
        simp only [formatResponse_of_writable hwr, setWorker, hone, oneCall]
        exact whole_set c start batch st w wk
          { wk with pc := .writing [] [record (rowOf c.N c.format r)] (postOf c.N c.format r) } h hwk
          (by simp only [PcOK]; exact ⟨r, rest, hqu, by simp [recordOf]⟩)
          (fun r hr => hr) (by simp [pendingOf, hpc]) _ (by simp [hqu]) rfl rfl
    | counted written post =>
      simp only [step, hwk, hpc]
      exact whole_set c start batch st w wk
        { queue := wk.queue.tail, pc := .idle, returned := if c.persist then wk.returned ++ [post] else wk.returned }
        h hwk (by simp [PcOK]) (fun r hr => List.mem_of_mem_tail hr) (by simp [pendingOf, hpc]) _ rfl rfl rfl
    | writing done pend post =>
      cases pend with
      | nil =>
        simp only [step, hwk, hpc]
        cases done with
        | nil =>
          simp only [PcOK, hpc] at hpcw
          obtain ⟨_, _, _, hbad⟩ := hpcw
          simp at hbad
        | cons d ds =>
          exact whole_set c start batch st w wk { wk with pc := .counted (d :: ds).flatten post } h hwk
            (by simp [PcOK]) (fun r hr => hr) (by simp [pendingOf, hpc]) _ rfl rfl rfl
      | cons p ps =>
        simp only [step, hwk, hpc]
        cases done with
        | cons d ds =>
          simp only [PcOK, hpc] at hpcw
          simp at hpcw
        | nil =>
          simp only [PcOK, hpc] at hpcw
          obtain ⟨r, rest, hqu, hpend⟩ := hpcw
          simp only [List.cons.injEq] at hpend
          obtain ⟨hp, hps⟩ := hpend
          subst hp hps
          refine ⟨h.notPoisoned, ?_, ?_, ?_⟩
          · intro x hx
            rcases mem_set_cases hx with hx | hx
            · exact h.pcs x hx
            · rw [hx]; simp [PcOK]
          · intro x hx r' hr'
            rcases mem_set_cases hx with hx | hx
            · exact h.writable x hx r' hr'
            · rw [hx] at hr'; exact h.writable wk hwmem r' hr'
          · obtain ⟨trace, hf, hperm⟩ := h.file
            refine ⟨trace ++ [r], by simp [hf], ?_⟩
            simp only [List.map_set, List.nil_append]
            have hpw : (st.workers.map pendingOf)[w]? = some (r :: rest) := by
              rw [List.getElem?_map, hwk]; simp [pendingOf, hpc, hqu]
            have hnew : pendingOf ({ queue := wk.queue, pc := PC.writing [recordOf c.N c.format r] [] post, returned := wk.returned } : Worker) = rest := by
              simp [pendingOf, hqu]
            rw [hnew]
            have := flatten_set_perm (st.workers.map pendingOf) w r rest hpw
            refine List.Perm.trans ?_ hperm
            rw [List.append_assoc]
            exact List.Perm.append_left trace (by simpa using this)

theorem exec_whole (c : Config) (hone : c.split = oneCall) (start : List (List Char)) (batch : List Json)
    (schedule : List Nat) (st : State) (h : Whole c start batch st) :
    Whole c start batch (exec c st schedule) := by
  induction schedule generalizing st with
  | nil => exact h
  | cons w ws ih => exact ih _ (step_whole c hone start batch st h w)

theorem init_whole (c : Config) (file : List (List Char)) (iterations : Nat) (queues : List (List Json))
    (hw : ∀ r ∈ queues.flatten, Writable c.N c.format r) :
    Whole c file queues.flatten (init file iterations queues) := by
  refine ⟨rfl, ?_, ?_, [], by simp [init], ?_⟩
  · intro wk hwk
    obtain ⟨q, _, rfl⟩ := List.mem_map.1 hwk
    simp [PcOK]
  · intro wk hwk r hr
    obtain ⟨q, hq, rfl⟩ := List.mem_map.1 hwk
    exact hw r (List.mem_flatten.2 ⟨q, hq, hr⟩)
  · simp only [init, List.map_map, List.nil_append]
    have : (List.map (pendingOf ∘ fun q => ({ queue := q } : Worker)) queues) = queues := by
      induction queues with
      | nil => rfl
      | cons q qs ih =>
        simp only [List.map_cons, Function.comp]
        rw [ih (fun r hr => hw r (by simp only [List.flatten_cons, List.mem_append]; exact Or.inr hr))]
        simp [pendingOf]
    rw [this]

theorem finished_pending_nil (st : State) (hf : st.finished = true) : (st.workers.map pendingOf).flatten = [] := by
  apply List.flatten_eq_nil_iff.2
  intro l hl
  obtain ⟨wk, hwk, rfl⟩ := List.mem_map.1 hl
  have := List.all_eq_true.1 hf wk hwk
  simp only [Bool.and_eq_true, List.isEmpty_iff] at this
  cases hpc : wk.pc <;> simp [isIdle, hpc] at this
  simp [pendingOf, hpc, this]

/-! ### creating the file -/

/-- the file only grows: `f'` holds everything `f` holds, in place -/
def Extends (f f' : Option (List (List Char))) : Prop :=
  ∀ ps, f = some ps → ∃ extra, f' = some (ps ++ extra)

theorem extends_refl (f : Option (List (List Char))) : Extends f f := fun ps h => ⟨[], by simp [h]⟩

theorem extends_trans {a b c : Option (List (List Char))} (h1 : Extends a b) (h2 : Extends b c) : Extends a c := by
  intro ps h
  obtain ⟨e1, h1'⟩ := h1 ps h
  obtain ⟨e2, h2'⟩ := h2 _ h1'
  exact ⟨e1 ++ e2, by rw [h2', List.append_assoc]⟩

theorem openStep_new_extends (header : List Char) (st : OpenState) (i : Nat) :
    Extends st.file (openStep false header st i).file := by
  cases ho : st.openers[i]? with
  | none => simp only [openStep, ho]; exact extends_refl _
  | some o =>
    cases hpc : o.pc with
    | start =>
      cases hf : st.file with
      | none => intro ps h; cases h
      | some f => simp only [openStep, ho, hpc, hf, Bool.false_eq_true, if_false]; exact extends_refl _
    | sawMissing => simp only [openStep, ho, hpc, Bool.false_eq_true, if_false]; exact extends_refl _
    | created =>
      simp only [openStep, ho, hpc]
      intro ps h
      exact ⟨[header], by simp [h]⟩
    | opened =>
      cases hr : o.records with
      | nil => simp only [openStep, ho, hpc, hr]; exact extends_refl _
      | cons r rest =>
        simp only [openStep, ho, hpc, hr]
        intro ps h
        exact ⟨[r], by simp [h]⟩

/-- the repaired code never truncates: whatever sinks open the path and append in whatever interleaving, every
piece that was in the file stays there, in place -/
theorem openExec_new_extends (header : List Char) (schedule : List Nat) (st : OpenState) :
    Extends st.file (openExec false header st schedule).file := by
  induction schedule generalizing st with
  | nil => exact extends_refl _
  | cons i is ih => exact extends_trans (openStep_new_extends header st i) (ih _)

end SinkFine
end Compass
