/-
Closed forms of the state accumulation along a route (C03).

`SearchDiscipline.route_links_fresh` gives, for the route a Dijkstra run returns, the *link relation*:
the first element is `edgeTraversal` of its edge from the initial state with no previous edge, every
further element is `edgeTraversal` of its edge from the state and edge of the element before it.
This file turns that step-by-step relation into the sums the property states:

* distance slot  = initial + Σ edge lengths (metres → the model's unit → the feature's unit),
* time slot      = initial + Σ `create_time`(table speed, length) + Σ delay of each turn taken (once
                   each, from the delay table's unit to the feature's unit),
* every other slot keeps its initial value,
* distance and time never decrease,
* the summary (state of the last element) is the closed form at `k = n`.

The route is any `List (Branch α)` satisfying the link relation (`Accumulates`); nothing here depends
on the search algorithm.
-/
import Compass.Proofs.Num
import Compass.Model.Instance
import Compass.Proofs.SearchDiscipline
import Compass.Props.C09

namespace Compass
namespace RouteSums

set_option linter.unusedSectionVars false

variable {α : Type} [Field α] [LinearOrder α] [IsStrictOrderedRing α] [Lit α] [LawfulLit α]

/-! ### The link relation -/

/-- the link relation from a given previous edge and state: each element is `edgeTraversal` of its
edge from the state and edge before it -/
def AccFrom (c : Config α) : Option Nat → List α → List (Branch α) → Prop
  | _, _, [] => True
  | last, st, b :: r =>
    edgeTraversal c b.edge last st = .ok (b.access, b.traversal, b.state) ∧
      AccFrom c (some b.edge) b.state r

/-- first element = `edgeTraversal c e₁ none (initialState c.feats)`, each next element =
`edgeTraversal c e_{i+1} (some e_i) state_i` -/
def Accumulates (c : Config α) (route : List (Branch α)) : Prop :=
  AccFrom c none (initialState c.feats) route

/-- bridge: the links `SearchDiscipline.LinksFresh` of a configured instance are this relation -/
theorem accFrom_of_linksFresh (c : Config α) :
    ∀ (prev : Option (Branch α)) (route : List (Branch α)),
      SearchDiscipline.LinksFresh c.inst prev route →
      AccFrom c (prev.map (·.edge))
        (match prev with | none => initialState c.feats | some a => a.state) route
  | _, [], _ => trivial
  | none, b :: r, h => ⟨h.1.2, accFrom_of_linksFresh c (some b) r h.2⟩
  | some _, b :: r, h => ⟨h.1.2, accFrom_of_linksFresh c (some b) r h.2⟩

theorem accumulates_of_linksFresh (c : Config α) (route : List (Branch α))
    (h : SearchDiscipline.LinksFresh c.inst none route) : Accumulates c route :=
  accFrom_of_linksFresh c none route h

/-- bridge from the index form (`C03.dijkstra_route_accumulates`) -/
theorem accFrom_of_index (c : Config α) :
    ∀ (last : Option Nat) (st : List α) (route : List (Branch α)),
      (∀ b, route.head? = some b →
        edgeTraversal c b.edge last st = .ok (b.access, b.traversal, b.state)) →
      (∀ i (hi : i + 1 < route.length),
        edgeTraversal c route[i + 1].edge (some route[i].edge) route[i].state =
          .ok (route[i + 1].access, route[i + 1].traversal, route[i + 1].state)) →
      AccFrom c last st route
  | _, _, [], _, _ => trivial
  | _, _, b :: r, h0, hs => by
    refine ⟨h0 b rfl, accFrom_of_index c (some b.edge) b.state r ?_ ?_⟩
    · intro b' hb'
      cases r with
      | nil => simp at hb'
      | cons x xs =>
        simp only [List.head?_cons, Option.some.injEq] at hb'
        subst hb'
        exact hs 0 (by simp)
    · intro i hi
      exact hs (i + 1) (by simpa using hi)

/-- index form of the link relation -/
theorem AccFrom.getElem {c : Config α} :
    ∀ {last : Option Nat} {st : List α} {route : List (Branch α)}, AccFrom c last st route →
      ∀ i (hi : i + 1 < route.length),
        edgeTraversal c route[i + 1].edge (some route[i].edge) route[i].state =
          .ok (route[i + 1].access, route[i + 1].traversal, route[i + 1].state)
  | _, _, [], _, i, hi => by simp at hi
  | _, _, [_], _, i, hi => by simp at hi
  | _, _, a :: b :: r, h, i, hi => by
    cases i with
    | zero => exact h.2.1
    | succ i => exact AccFrom.getElem (route := b :: r) h.2 i (by simpa using hi)

theorem AccFrom.head {c : Config α} {last : Option Nat} {st : List α} {route : List (Branch α)}
    (h : AccFrom c last st route) (hr : 0 < route.length) :
    edgeTraversal c route[0].edge last st = .ok (route[0].access, route[0].traversal, route[0].state) := by
  cases route with
  | nil => simp at hr
  | cons b r => exact h.1

/-! ### Slots and the terms of the sums -/

/-- the "distance" feature sits at index `i` and is a distance in unit `fu` -/
structure DistSlot (fs : List (Feat α)) (i : Nat) (fu : DistanceUnit) : Prop where
  idx : featIndex fs "distance" = some i
  kind : (fs[i]?).map (·.kind) = some (FeatKind.dist fu)

/-- the "time" feature sits at index `t` and is a time in unit `ftu` -/
structure TimeSlot (fs : List (Feat α)) (t : Nat) (ftu : TimeUnit) : Prop where
  idx : featIndex fs "time" = some t
  kind : (fs[t]?).map (·.kind) = some (FeatKind.time ftu)

/-- the distance unit a traversal model computes in -/
def travDu : TravModel α → DistanceUnit
  | .distance du => du
  | .speed _ du _ _ _ => du

/-- length of edge `e` (stored in the base unit), converted to the model's unit and then to the
feature's unit `fu`: what one traversal of `e` adds to the distance slot -/
def distTerm (m : TravModel α) (edges : List (EdgeRec α)) (fu : DistanceUnit) (e : Nat) : α :=
  match edges[e]? with
  | none => 0
  | some er => (travDu m).convert fu (baseDistanceUnit.convert (travDu m) er.dist)

/-- the value `create_time` returns for edge `e` under the speed-table model: length (in the model's
distance unit) over the edge's table speed, in the model's time unit `tu` -/
def speedTime? (edges : List (EdgeRec α)) (su : SpeedUnit) (du : DistanceUnit) (tu : TimeUnit)
    (table : List α) (e : Nat) : Option α :=
  match edges[e]? with
  | none => none
  | some er =>
    match table[e]? with
    | none => none
    | some sp => createTime sp su (baseDistanceUnit.convert du er.dist) du tu

/-- what one traversal of `e` adds to the time slot (feature unit `ftu`) -/
def timeTerm (m : TravModel α) (edges : List (EdgeRec α)) (ftu : TimeUnit) (e : Nat) : α :=
  match m with
  | .distance _ => 0
  | .speed su du tu _ table =>
    match speedTime? edges su du tu table e with
    | none => 0
    | some t => tu.convert ftu t

/-- what the access model adds to the time slot for the turn `pe → ne` (feature unit `ftu`) -/
def delayTerm (m : AccessModel α) (ftu : TimeUnit) (pe ne : Nat) : α :=
  match m with
  | .noAccess => 0
  | .turnDelay dtu headings delays =>
    match turnDelayOf headings delays pe ne with
    | none => 0
    | some d => dtu.convert ftu d

/-- the pair handed to the access model for the step "previous route element `l`, this element `e`":
(l, e) in a forward search, (e, l) in a reverse search (`reverse_traversal`) -/
def prevEdge (c : Config α) (l e : Nat) : Nat := if c.reverse then e else l
def nextEdge (c : Config α) (l e : Nat) : Nat := if c.reverse then l else e

/-- delay charged at the step to `e` coming from `last` -/
def stepDelay (c : Config α) (ftu : TimeUnit) (last : Option Nat) (e : Nat) : α :=
  match last with
  | none => 0
  | some l => delayTerm c.access ftu (prevEdge c l e) (nextEdge c l e)

/-- sum of a per-step quantity along a list of edges, starting after `last` -/
def stepSum (d : Option Nat → Nat → α) : Option Nat → List Nat → α
  | _, [] => 0
  | last, e :: r => d last e + stepSum d (some e) r

/-- consecutive pairs of a list -/
def pairs (es : List Nat) : List (Nat × Nat) := es.zip es.tail

/-- the edges of the first `k + 1` route elements -/
def prefixEdges (route : List (Branch α)) (k : Nat) : List Nat := (route.take (k + 1)).map (·.edge)

/-- `route.traversal_summary`: the state of the last route element (`construct_route_output`) -/
def routeSummary (route : List (Branch α)) : Option (List α) := route.getLast?.map (·.state)

/-! ### `add_distance` / `add_time` -/

theorem addDistance_some {fs : List (Feat α)} {state : List α} {name : String} {d : α}
    {fromU : DistanceUnit} {st' : List α} (h : addDistance fs state name d fromU = some st') :
    ∃ i x fu, featIndex fs name = some i ∧ state[i]? = some x ∧
      (fs[i]?.map (·.kind)) = some (FeatKind.dist fu) ∧
      st' = state.set i (x + fromU.convert fu d) := by
  unfold addDistance at h
  split at h
  · simp at h
  · rename_i i hi
    split at h
    · rename_i x f hx hf
      split at h
      · rename_i fu hk
        simp only [Option.some.injEq] at h
        exact ⟨i, x, fu, hi, hx, by simp [hf, hk], h.symm⟩
      · simp at h
    · simp at h

theorem addTime_some {fs : List (Feat α)} {state : List α} {name : String} {t : α}
    {fromU : TimeUnit} {st' : List α} (h : addTime fs state name t fromU = some st') :
    ∃ i x fu, featIndex fs name = some i ∧ state[i]? = some x ∧
      (fs[i]?.map (·.kind)) = some (FeatKind.time fu) ∧
      st' = state.set i (x + fromU.convert fu t) := by
  unfold addTime at h
  split at h
  · simp at h
  · rename_i i hi
    split at h
    · rename_i x f hx hf
      split at h
      · rename_i fu hk
        simp only [Option.some.injEq] at h
        exact ⟨i, x, fu, hi, hx, by simp [hf, hk], h.symm⟩
      · simp at h
    · simp at h

theorem slots_ne {fs : List (Feat α)} {i t : Nat} {fu : DistanceUnit} {ftu : TimeUnit}
    (hd : (fs[i]?).map (·.kind) = some (FeatKind.dist fu))
    (ht : (fs[t]?).map (·.kind) = some (FeatKind.time ftu)) : i ≠ t := by
  intro h
  subst h
  rw [hd] at ht
  cases ht

theorem get_of_set_self {st : List α} {i : Nat} {x v : α} (hx : st[i]? = some x) :
    (st.set i v)[i]? = some v :=
  List.getElem?_set_self (List.getElem?_eq_some_iff.1 hx).1

/-- `add_distance` on the distance slot: adds the converted delta there, keeps every other slot -/
theorem addDistance_slot {fs : List (Feat α)} {i : Nat} {fu : DistanceUnit} (hs : DistSlot fs i fu)
    {state : List α} {d : α} {fromU : DistanceUnit} {st' : List α}
    (h : addDistance fs state "distance" d fromU = some st') :
    (∀ x, state[i]? = some x → st'[i]? = some (x + fromU.convert fu d)) ∧
      ∀ j, j ≠ i → st'[j]? = state[j]? := by
  obtain ⟨i', x, fu', hi, hx, hk, hst⟩ := addDistance_some h
  rw [hs.idx] at hi
  cases hi
  rw [hs.kind] at hk
  cases hk
  subst hst
  refine ⟨?_, ?_⟩
  · intro x' hx'
    rw [hx] at hx'
    cases hx'
    exact get_of_set_self hx
  · intro j hj
    exact List.getElem?_set_ne (Ne.symm hj)

/-- `add_distance` never touches a slot other than the one named -/
theorem addDistance_other {fs : List (Feat α)} {state : List α} {name : String} {d : α}
    {fromU : DistanceUnit} {st' : List α} (h : addDistance fs state name d fromU = some st') :
    ∀ j, featIndex fs name ≠ some j → st'[j]? = state[j]? := by
  obtain ⟨i, x, fu, hi, _, _, hst⟩ := addDistance_some h
  intro j hj
  subst hst
  apply List.getElem?_set_ne
  intro hij
  subst hij
  exact hj hi

/-- `add_distance` never touches a time slot -/
theorem addDistance_keeps_time {fs : List (Feat α)} {t : Nat} {ftu : TimeUnit}
    (hk : (fs[t]?).map (·.kind) = some (FeatKind.time ftu))
    {state : List α} {name : String} {d : α} {fromU : DistanceUnit} {st' : List α}
    (h : addDistance fs state name d fromU = some st') : st'[t]? = state[t]? := by
  obtain ⟨i, x, fu, _, _, hki, hst⟩ := addDistance_some h
  subst hst
  exact List.getElem?_set_ne (slots_ne hki hk)

theorem addTime_slot {fs : List (Feat α)} {t : Nat} {ftu : TimeUnit} (hs : TimeSlot fs t ftu)
    {state : List α} {v : α} {fromU : TimeUnit} {st' : List α}
    (h : addTime fs state "time" v fromU = some st') :
    (∀ x, state[t]? = some x → st'[t]? = some (x + fromU.convert ftu v)) ∧
      ∀ j, j ≠ t → st'[j]? = state[j]? := by
  obtain ⟨i', x, fu', hi, hx, hk, hst⟩ := addTime_some h
  rw [hs.idx] at hi
  cases hi
  rw [hs.kind] at hk
  cases hk
  subst hst
  refine ⟨?_, ?_⟩
  · intro x' hx'
    rw [hx] at hx'
    cases hx'
    exact get_of_set_self hx
  · intro j hj
    exact List.getElem?_set_ne (Ne.symm hj)

theorem addTime_other {fs : List (Feat α)} {state : List α} {name : String} {v : α}
    {fromU : TimeUnit} {st' : List α} (h : addTime fs state name v fromU = some st') :
    ∀ j, featIndex fs name ≠ some j → st'[j]? = state[j]? := by
  obtain ⟨i, x, fu, hi, _, _, hst⟩ := addTime_some h
  intro j hj
  subst hst
  apply List.getElem?_set_ne
  intro hij
  subst hij
  exact hj hi

/-- `add_time` never touches a distance slot -/
theorem addTime_keeps_distance {fs : List (Feat α)} {i : Nat} {fu : DistanceUnit}
    (hk : (fs[i]?).map (·.kind) = some (FeatKind.dist fu))
    {state : List α} {name : String} {v : α} {fromU : TimeUnit} {st' : List α}
    (h : addTime fs state name v fromU = some st') : st'[i]? = state[i]? := by
  obtain ⟨t, x, ftu, _, _, hkt, hst⟩ := addTime_some h
  subst hst
  exact List.getElem?_set_ne (Ne.symm (slots_ne hk hkt))

/-! ### One access step -/

/-- the access models touch no slot other than "time" -/
theorem access_other {m : AccessModel α} {fs : List (Feat α)} {pe ne : Nat} {st st1 : List α}
    (h : m.access fs pe ne st = some st1) :
    ∀ j, featIndex fs "time" ≠ some j → st1[j]? = st[j]? := by
  cases m with
  | noAccess =>
    simp only [AccessModel.access, Option.some.injEq] at h
    subst h
    intros; rfl
  | turnDelay dtu headings delays =>
    simp only [AccessModel.access] at h
    split at h
    · cases h
    · exact addTime_other h

/-- the access models never touch the distance slot -/
theorem access_keeps_distance {m : AccessModel α} {fs : List (Feat α)} {i : Nat} {fu : DistanceUnit}
    (hs : DistSlot fs i fu) {pe ne : Nat} {st st1 : List α}
    (h : m.access fs pe ne st = some st1) : st1[i]? = st[i]? := by
  cases m with
  | noAccess =>
    simp only [AccessModel.access, Option.some.injEq] at h
    subst h
    rfl
  | turnDelay dtu headings delays =>
    simp only [AccessModel.access] at h
    split at h
    · cases h
    · exact addTime_keeps_distance hs.kind h

/-- the access model adds exactly the delay of the turn, converted from the delay table's unit to the
feature's unit, to the time slot -/
theorem access_time_slot {m : AccessModel α} {fs : List (Feat α)} {t : Nat} {ftu : TimeUnit}
    (hs : TimeSlot fs t ftu) {pe ne : Nat} {st st1 : List α}
    (h : m.access fs pe ne st = some st1) :
    ∀ x, st[t]? = some x → st1[t]? = some (x + delayTerm m ftu pe ne) := by
  intro x hx
  cases m with
  | noAccess =>
    simp only [AccessModel.access, Option.some.injEq] at h
    subst h
    simp [delayTerm, hx]
  | turnDelay dtu headings delays =>
    simp only [AccessModel.access] at h
    split at h
    · cases h
    · rename_i d hd
      simp only [delayTerm, hd]
      exact (addTime_slot hs h).1 x hx

/-- a successful turn-delay access found a delay for the turn -/
theorem access_delay_defined {fs : List (Feat α)} {dtu : TimeUnit} {headings : List (Int × Option Int)}
    {delays : List (Option α)} {pe ne : Nat} {st st1 : List α}
    (h : (AccessModel.turnDelay dtu headings delays).access fs pe ne st = some st1) :
    ∃ d, turnDelayOf headings delays pe ne = some d := by
  simp only [AccessModel.access] at h
  split at h
  · cases h
  · rename_i d hd
    exact ⟨d, hd⟩

/-! ### One traversal step -/

theorem traverse_edge_defined {m : TravModel α} {fs : List (Feat α)} {edges : List (EdgeRec α)}
    {e : Nat} {st st' : List α} (h : m.traverse fs edges e st = some st') :
    ∃ er, edges[e]? = some er := by
  unfold TravModel.traverse at h
  split at h
  · cases h
  · rename_i er her
    exact ⟨er, her⟩

/-- the traversal models touch no slot other than "distance" and "time" -/
theorem traverse_other {m : TravModel α} {fs : List (Feat α)} {edges : List (EdgeRec α)}
    {e : Nat} {st st' : List α} (h : m.traverse fs edges e st = some st') :
    ∀ j, featIndex fs "distance" ≠ some j → featIndex fs "time" ≠ some j → st'[j]? = st[j]? := by
  intro j hjd hjt
  unfold TravModel.traverse at h
  split at h
  · cases h
  · cases m with
    | distance du => exact addDistance_other h j hjd
    | speed su du tu ms table =>
      simp only at h
      split at h
      · cases h
      · split at h
        · cases h
        · split at h
          · cases h
          · rename_i st1 h1
            rw [addDistance_other h j hjd, addTime_other h1 j hjt]

/-- one traversal adds the edge's length, in the feature's unit, to the distance slot -/
theorem traverse_dist_slot {m : TravModel α} {fs : List (Feat α)} {i : Nat} {fu : DistanceUnit}
    (hs : DistSlot fs i fu) {edges : List (EdgeRec α)} {e : Nat} {st st' : List α}
    (h : m.traverse fs edges e st = some st') :
    ∀ x, st[i]? = some x → st'[i]? = some (x + distTerm m edges fu e) := by
  intro x hx
  unfold TravModel.traverse at h
  split at h
  · cases h
  · rename_i er her
    cases m with
    | distance du =>
      simp only [distTerm, her, travDu]
      exact (addDistance_slot hs h).1 x hx
    | speed su du tu ms table =>
      simp only at h
      split at h
      · cases h
      · split at h
        · cases h
        · split at h
          · cases h
          · rename_i st1 h1
            simp only [distTerm, her, travDu]
            apply (addDistance_slot hs h).1 x
            rw [addTime_keeps_distance hs.kind h1]
            exact hx

/-- one traversal adds the edge's traversal time (speed model; nothing for the distance model), in
the feature's unit, to the time slot -/
theorem traverse_time_slot {m : TravModel α} {fs : List (Feat α)} {t : Nat} {ftu : TimeUnit}
    (hs : TimeSlot fs t ftu) {edges : List (EdgeRec α)} {e : Nat} {st st' : List α}
    (h : m.traverse fs edges e st = some st') :
    ∀ x, st[t]? = some x → st'[t]? = some (x + timeTerm m edges ftu e) := by
  intro x hx
  unfold TravModel.traverse at h
  split at h
  · cases h
  · rename_i er her
    cases m with
    | distance du =>
      simp only [timeTerm, add_zero]
      rw [addDistance_keeps_time hs.kind h]
      exact hx
    | speed su du tu ms table =>
      simp only at h
      split at h
      · cases h
      · rename_i sp hsp
        split at h
        · cases h
        · rename_i tv htv
          split at h
          · cases h
          · rename_i st1 h1
            simp only [timeTerm, speedTime?, her, hsp, htv]
            rw [addDistance_keeps_time hs.kind h]
            exact (addTime_slot hs h1).1 x hx

/-- a successful speed-model traversal obtained a time from `create_time` -/
theorem traverse_time_defined {fs : List (Feat α)} {edges : List (EdgeRec α)} {su : SpeedUnit}
    {du : DistanceUnit} {tu : TimeUnit} {ms : α} {table : List α} {e : Nat} {st st' : List α}
    (h : (TravModel.speed su du tu ms table).traverse fs edges e st = some st') :
    ∃ tv, speedTime? edges su du tu table e = some tv := by
  unfold TravModel.traverse at h
  split at h
  · cases h
  · rename_i er her
    simp only at h
    split at h
    · cases h
    · rename_i sp hsp
      split at h
      · cases h
      · rename_i tv htv
        exact ⟨tv, by simp only [speedTime?, her, hsp, htv]⟩

/-! ### One route step -/

/-- a successful `edgeTraversal`: the access step (none without a previous edge), then the traversal -/
theorem edgeTraversal_ok {c : Config α} {e : Nat} {last : Option Nat} {st : List α} {ac tc : α}
    {st' : List α} (h : edgeTraversal c e last st = .ok (ac, tc, st')) :
    ∃ st1, (match last with
            | none => st1 = st
            | some l => c.access.access c.feats (prevEdge c l e) (nextEdge c l e) st = some st1) ∧
      c.trav.traverse c.feats c.edges e st1 = some st' := by
  unfold edgeTraversal at h
  split at h
  · cases h
  · split at h
    · cases h
    · rename_i ac' st1 hacc
      split at h
      · cases h
      · rename_i st2 htr
        split at h
        · cases h
        · simp only [Except.ok.injEq, Prod.mk.injEq] at h
          obtain ⟨_, _, h3⟩ := h
          subst h3
          refine ⟨st1, ?_, htr⟩
          unfold edgeAccess at hacc
          cases last with
          | none =>
            simp only [Except.ok.injEq, Prod.mk.injEq] at hacc
            exact hacc.2.symm
          | some l =>
            simp only at hacc
            split at hacc
            · cases hacc
            · split at hacc
              · cases hacc
              · rename_i st1' hst1
                split at hacc
                · cases hacc
                · simp only [Except.ok.injEq, Prod.mk.injEq] at hacc
                  rw [← hacc.2]
                  exact hst1

/-- delay term of the turn from route element `l` to route element `e` -/
def turnDelayTerm (c : Config α) (ftu : TimeUnit) (l e : Nat) : α :=
  delayTerm c.access ftu (prevEdge c l e) (nextEdge c l e)

theorem stepDelay_none (c : Config α) (ftu : TimeUnit) (e : Nat) : stepDelay c ftu none e = 0 := rfl
theorem stepDelay_some (c : Config α) (ftu : TimeUnit) (l e : Nat) :
    stepDelay c ftu (some l) e = turnDelayTerm c ftu l e := rfl

/-- one route step adds the edge's length (feature unit) to the distance slot, whatever the access
model -/
theorem step_dist {c : Config α} {i : Nat} {fu : DistanceUnit} (hs : DistSlot c.feats i fu)
    {e : Nat} {last : Option Nat} {st : List α} {ac tc : α} {st' : List α}
    (h : edgeTraversal c e last st = .ok (ac, tc, st')) :
    ∀ x, st[i]? = some x → st'[i]? = some (x + distTerm c.trav c.edges fu e) := by
  intro x hx
  obtain ⟨st1, h1, h2⟩ := edgeTraversal_ok h
  apply traverse_dist_slot hs h2 x
  cases last with
  | none => simp only at h1; rw [h1]; exact hx
  | some l => simp only at h1; rw [access_keeps_distance hs h1]; exact hx

/-- one route step adds the edge's traversal time and the delay of the turn taken to the time slot -/
theorem step_time {c : Config α} {t : Nat} {ftu : TimeUnit} (hs : TimeSlot c.feats t ftu)
    {e : Nat} {last : Option Nat} {st : List α} {ac tc : α} {st' : List α}
    (h : edgeTraversal c e last st = .ok (ac, tc, st')) :
    ∀ x, st[t]? = some x →
      st'[t]? = some (x + (timeTerm c.trav c.edges ftu e + stepDelay c ftu last e)) := by
  intro x hx
  obtain ⟨st1, h1, h2⟩ := edgeTraversal_ok h
  cases last with
  | none =>
    simp only at h1
    subst h1
    rw [stepDelay_none, add_zero]
    exact traverse_time_slot hs h2 x hx
  | some l =>
    simp only at h1
    have := traverse_time_slot hs h2 _ (access_time_slot hs h1 x hx)
    rw [this, stepDelay_some, turnDelayTerm]
    congr 1
    ring

/-- one route step touches no slot other than "distance" and "time" -/
theorem step_other {c : Config α} {e : Nat} {last : Option Nat} {st : List α} {ac tc : α}
    {st' : List α} (h : edgeTraversal c e last st = .ok (ac, tc, st')) :
    ∀ j, featIndex c.feats "distance" ≠ some j → featIndex c.feats "time" ≠ some j →
      st'[j]? = st[j]? := by
  intro j hjd hjt
  obtain ⟨st1, h1, h2⟩ := edgeTraversal_ok h
  rw [traverse_other h2 j hjd hjt]
  cases last with
  | none => simp only at h1; rw [h1]
  | some l => simp only at h1; exact access_other h1 j hjt

/-! ### Sums along the route -/

theorem prefixEdges_zero (b : Branch α) (r : List (Branch α)) : prefixEdges (b :: r) 0 = [b.edge] := by
  simp [prefixEdges]

theorem prefixEdges_succ (b : Branch α) (r : List (Branch α)) (k : Nat) :
    prefixEdges (b :: r) (k + 1) = b.edge :: prefixEdges r k := by
  simp [prefixEdges]

/-- if every step adds `d last e` to slot `j`, the slot after `k + 1` elements is the starting value
plus the sum of the `d`s -/
theorem accFrom_slot {c : Config α} {j : Nat} {d : Option Nat → Nat → α}
    (hstep : ∀ (e : Nat) (last : Option Nat) (st : List α) (ac tc : α) (st' : List α),
      edgeTraversal c e last st = .ok (ac, tc, st') →
      ∀ x, st[j]? = some x → st'[j]? = some (x + d last e)) :
    ∀ (route : List (Branch α)) (last : Option Nat) (st : List α) (x : α),
      AccFrom c last st route → st[j]? = some x →
      ∀ k (hk : k < route.length),
        route[k].state[j]? = some (x + stepSum d last (prefixEdges route k))
  | [], _, _, _, _, _, k, hk => by simp at hk
  | b :: r, last, st, x, h, hx, k, hk => by
    have hb := hstep _ _ _ _ _ _ h.1 x hx
    cases k with
    | zero =>
      simp only [List.getElem_cons_zero, prefixEdges_zero, stepSum, add_zero]
      exact hb
    | succ k =>
      have := accFrom_slot hstep r (some b.edge) b.state _ h.2 hb k (by simpa using hk)
      simp only [List.getElem_cons_succ, prefixEdges_succ, stepSum]
      rw [this, add_assoc]

theorem stepSum_edges (f : Nat → α) :
    ∀ (last : Option Nat) (es : List Nat), stepSum (fun _ e => f e) last es = (es.map f).sum
  | _, [] => rfl
  | _, e :: r => by simp [stepSum, stepSum_edges f (some e) r]

theorem stepSum_add (d1 d2 : Option Nat → Nat → α) :
    ∀ (last : Option Nat) (es : List Nat),
      stepSum (fun l e => d1 l e + d2 l e) last es = stepSum d1 last es + stepSum d2 last es
  | _, [] => by simp [stepSum]
  | _, e :: r => by
    simp only [stepSum, stepSum_add d1 d2 (some e) r]
    ring

theorem pairs_cons_cons (a b : Nat) (r : List Nat) : pairs (a :: b :: r) = (a, b) :: pairs (b :: r) := by
  simp [pairs]

theorem stepSum_pairs (g : Nat → Nat → α) :
    ∀ (last : Option Nat) (es : List Nat),
      stepSum (fun l e => match l with | none => 0 | some l => g l e) last es =
        ((pairs (last.toList ++ es)).map (fun p => g p.1 p.2)).sum
  | none, [] => by simp [stepSum, pairs]
  | some l, [] => by simp [stepSum, pairs]
  | none, e :: r => by
    have := stepSum_pairs g (some e) r
    simp only [Option.toList_some, List.singleton_append] at this
    simp only [stepSum, this, Option.toList_none, List.nil_append, zero_add]
  | some l, e :: r => by
    have := stepSum_pairs g (some e) r
    simp only [Option.toList_some, List.singleton_append] at this
    simp only [stepSum, this, Option.toList_some, List.singleton_append, pairs_cons_cons,
      List.map_cons, List.sum_cons]

/-! ### Closed forms -/

theorem init_slot (fs : List (Feat α)) (j : Nat) :
    (initialState fs)[j]? = (fs[j]?).map (·.init) := by
  simp [initialState]

/-- the declared initial value of the distance feature is what the initial state holds in its slot -/
theorem DistSlot.init {fs : List (Feat α)} {i : Nat} {fu : DistanceUnit} (hs : DistSlot fs i fu) :
    ∃ f, fs[i]? = some f ∧ (initialState fs)[i]? = some f.init := by
  have hk := hs.kind
  cases hf : fs[i]? with
  | none => rw [hf] at hk; cases hk
  | some f => exact ⟨f, rfl, by rw [init_slot, hf]; rfl⟩

theorem TimeSlot.init {fs : List (Feat α)} {t : Nat} {ftu : TimeUnit} (hs : TimeSlot fs t ftu) :
    ∃ f, fs[t]? = some f ∧ (initialState fs)[t]? = some f.init := by
  have hk := hs.kind
  cases hf : fs[t]? with
  | none => rw [hf] at hk; cases hk
  | some f => exact ⟨f, rfl, by rw [init_slot, hf]; rfl⟩

/-- the step that produced route element `k` -/
theorem AccFrom.step_at {c : Config α} {last : Option Nat} {st : List α} {route : List (Branch α)}
    (h : AccFrom c last st route) (k : Nat) (hk : k < route.length) :
    ∃ last' st', edgeTraversal c route[k].edge last' st' =
      .ok (route[k].access, route[k].traversal, route[k].state) := by
  cases k with
  | zero => exact ⟨_, _, h.head hk⟩
  | succ k => exact ⟨_, _, h.getElem k hk⟩

/-- every edge of the route exists in the edge list -/
theorem route_edges_defined {c : Config α} {last : Option Nat} {st : List α}
    {route : List (Branch α)} (hacc : AccFrom c last st route) :
    ∀ k (hk : k < route.length), ∃ er, c.edges[route[k].edge]? = some er := by
  intro k hk
  obtain ⟨_, _, h⟩ := hacc.step_at k hk
  obtain ⟨_, _, h2⟩ := edgeTraversal_ok h
  exact traverse_edge_defined h2

/-- speed-table model: `create_time` returned a value for every edge of the route -/
theorem route_times_defined {c : Config α} {last : Option Nat} {st : List α}
    {route : List (Branch α)} (hacc : AccFrom c last st route)
    {su : SpeedUnit} {du : DistanceUnit} {tu : TimeUnit} {ms : α} {table : List α}
    (htrav : c.trav = .speed su du tu ms table) :
    ∀ k (hk : k < route.length), ∃ tv, speedTime? c.edges su du tu table route[k].edge = some tv := by
  intro k hk
  obtain ⟨_, _, h⟩ := hacc.step_at k hk
  obtain ⟨_, _, h2⟩ := edgeTraversal_ok h
  rw [htrav] at h2
  exact traverse_time_defined h2

/-- turn-delay model: a delay was found for every turn of the route -/
theorem route_delays_defined {c : Config α} {last : Option Nat} {st : List α}
    {route : List (Branch α)} (hacc : AccFrom c last st route)
    {dtu : TimeUnit} {headings : List (Int × Option Int)} {delays : List (Option α)}
    (hac : c.access = .turnDelay dtu headings delays) :
    ∀ k (hk : k + 1 < route.length), ∃ d,
      turnDelayOf headings delays (prevEdge c route[k].edge route[k + 1].edge)
        (nextEdge c route[k].edge route[k + 1].edge) = some d := by
  intro k hk
  obtain ⟨_, h1, _⟩ := edgeTraversal_ok (hacc.getElem k hk)
  simp only at h1
  rw [hac] at h1
  exact access_delay_defined h1

/-- **1. distance is the sum of the edge lengths**, expressed in the feature's unit: for every
traversal model and every access model, the distance slot of route element `k` is the declared
initial value plus the sum over the first `k + 1` edges of their length converted (base unit → the
model's unit → the feature's unit); every edge of the route exists, so no term is a default. -/
theorem route_distance_is_sum {c : Config α} {route : List (Branch α)} (hacc : Accumulates c route)
    {i : Nat} {fu : DistanceUnit} (hs : DistSlot c.feats i fu) :
    ∃ f, c.feats[i]? = some f ∧
      (∀ k (hk : k < route.length), ∃ er, c.edges[route[k].edge]? = some er) ∧
      ∀ k (hk : k < route.length),
        route[k].state[i]? =
          some (f.init + ((prefixEdges route k).map (distTerm c.trav c.edges fu)).sum) := by
  obtain ⟨f, hf, hx⟩ := hs.init
  refine ⟨f, hf, route_edges_defined hacc, ?_⟩
  intro k hk
  have := accFrom_slot (d := fun _ e => distTerm c.trav c.edges fu e)
    (fun e last st ac tc st' h => step_dist hs h) route none _ _ hacc hx k hk
  rw [this, stepSum_edges]

/-- the distance term written out -/
theorem distTerm_eq {m : TravModel α} {edges : List (EdgeRec α)} {e : Nat} {er : EdgeRec α}
    (her : edges[e]? = some er) (fu : DistanceUnit) :
    distTerm m edges fu e = (travDu m).convert fu (baseDistanceUnit.convert (travDu m) er.dist) := by
  simp only [distTerm, her]

theorem travDu_distance (du : DistanceUnit) : travDu (TravModel.distance du : TravModel α) = du := rfl
theorem travDu_speed (su : SpeedUnit) (du : DistanceUnit) (tu : TimeUnit) (ms : α) (table : List α) :
    travDu (TravModel.speed su du tu ms table) = du := rfl

/-- **2. time is the sum of the traversal times plus the delay of each turn taken, each once**: for
every traversal and access model, the time slot of route element `k` is the declared initial value
plus the sum over the first `k + 1` edges of the time `create_time` returned for them (speed-table
model; nothing under the distance model), converted from the model's time unit to the feature's
unit, plus the sum over the `k` consecutive pairs of those edges of the delay the table holds for
the turn, converted from the table's unit to the feature's unit. -/
theorem route_time_is_sum {c : Config α} {route : List (Branch α)} (hacc : Accumulates c route)
    {t : Nat} {ftu : TimeUnit} (hs : TimeSlot c.feats t ftu) :
    ∃ f, c.feats[t]? = some f ∧
      ∀ k (hk : k < route.length),
        route[k].state[t]? =
          some (f.init + ((prefixEdges route k).map (timeTerm c.trav c.edges ftu)).sum
            + ((pairs (prefixEdges route k)).map (fun p => turnDelayTerm c ftu p.1 p.2)).sum) := by
  obtain ⟨f, hf, hx⟩ := hs.init
  refine ⟨f, hf, ?_⟩
  intro k hk
  have := accFrom_slot
    (d := fun last e => (fun _ e => timeTerm c.trav c.edges ftu e) last e +
      (fun l e => match l with | none => 0 | some l => turnDelayTerm c ftu l e) last e)
    (fun e last st ac tc st' h => by
      have := step_time hs h
      cases last <;> exact this) route none _ _ hacc hx k hk
  rw [this, stepSum_add, stepSum_edges, stepSum_pairs, add_assoc]
  rfl

/-- **4. every slot that is neither the distance nor the time slot keeps its initial value** -/
theorem accFrom_other {c : Config α} {j : Nat} (hjd : featIndex c.feats "distance" ≠ some j)
    (hjt : featIndex c.feats "time" ≠ some j) :
    ∀ (route : List (Branch α)) (last : Option Nat) (st : List α), AccFrom c last st route →
      ∀ k (hk : k < route.length), route[k].state[j]? = st[j]?
  | [], _, _, _, k, hk => by simp at hk
  | b :: r, last, st, h, k, hk => by
    have hb := step_other h.1 j hjd hjt
    cases k with
    | zero => simpa using hb
    | succ k =>
      have := accFrom_other hjd hjt r (some b.edge) b.state h.2 k (by simpa using hk)
      simp only [List.getElem_cons_succ]
      rw [this, hb]

theorem other_slots_unchanged {c : Config α} {route : List (Branch α)} (hacc : Accumulates c route)
    {j : Nat} (hjd : featIndex c.feats "distance" ≠ some j)
    (hjt : featIndex c.feats "time" ≠ some j) :
    ∀ k (hk : k < route.length), route[k].state[j]? = (c.feats[j]?).map (·.init) := by
  intro k hk
  rw [accFrom_other hjd hjt route none _ hacc k hk, init_slot]

/-! ### The terms written out, and their signs -/

theorem speedTime?_eq {edges : List (EdgeRec α)} {su : SpeedUnit} {du : DistanceUnit} {tu : TimeUnit}
    {table : List α} {e : Nat} {er : EdgeRec α} {sp : α} (her : edges[e]? = some er)
    (hsp : table[e]? = some sp) :
    speedTime? edges su du tu table e =
      createTime sp su (baseDistanceUnit.convert du er.dist) du tu := by
  simp only [speedTime?, her, hsp]

theorem speedTime?_some {edges : List (EdgeRec α)} {su : SpeedUnit} {du : DistanceUnit} {tu : TimeUnit}
    {table : List α} {e : Nat} {tv : α} (h : speedTime? edges su du tu table e = some tv) :
    ∃ er sp, edges[e]? = some er ∧ table[e]? = some sp ∧
      createTime sp su (baseDistanceUnit.convert du er.dist) du tu = some tv := by
  unfold speedTime? at h
  split at h
  · cases h
  · rename_i er her
    split at h
    · cases h
    · rename_i sp hsp
      exact ⟨er, sp, her, hsp, h⟩

theorem timeTerm_speed_eq {edges : List (EdgeRec α)} {su : SpeedUnit} {du : DistanceUnit}
    {tu : TimeUnit} {ms : α} {table : List α} {e : Nat} {tv : α}
    (h : speedTime? edges su du tu table e = some tv) (ftu : TimeUnit) :
    timeTerm (.speed su du tu ms table) edges ftu e = tu.convert ftu tv := by
  simp only [timeTerm, h]

theorem timeTerm_distance (du : DistanceUnit) (edges : List (EdgeRec α)) (ftu : TimeUnit) (e : Nat) :
    timeTerm (.distance du) edges ftu e = 0 := rfl

theorem delayTerm_turnDelay_eq {dtu : TimeUnit} {headings : List (Int × Option Int)}
    {delays : List (Option α)} {pe ne : Nat} {d : α}
    (h : turnDelayOf headings delays pe ne = some d) (ftu : TimeUnit) :
    delayTerm (.turnDelay dtu headings delays) ftu pe ne = dtu.convert ftu d := by
  simp only [delayTerm, h]

theorem delayTerm_noAccess (ftu : TimeUnit) (pe ne : Nat) :
    delayTerm (AccessModel.noAccess : AccessModel α) ftu pe ne = 0 := rfl

theorem dconv_nonneg (u v : DistanceUnit) {x : α} (hx : 0 ≤ x) : 0 ≤ u.convert v x := by
  rw [DistanceUnit.convert, Factor.apply_eq]
  exact mul_nonneg hx (C09.ratio_cast_pos _ (C09.distance_wf u v)).le

theorem tconv_nonneg (u v : TimeUnit) {x : α} (hx : 0 ≤ x) : 0 ≤ u.convert v x := by
  rw [TimeUnit.convert, Factor.apply_eq]
  exact mul_nonneg hx (C09.ratio_cast_pos _ (C09.time_wf u v)).le

theorem tconv_pos (u v : TimeUnit) {x : α} (hx : 0 < x) : 0 < u.convert v x := by
  rw [TimeUnit.convert, Factor.apply_eq]
  exact mul_pos hx (C09.ratio_cast_pos _ (C09.time_wf u v))

/-- with a non-negative edge length the distance term is non-negative -/
theorem distTerm_nonneg (m : TravModel α) {edges : List (EdgeRec α)} (fu : DistanceUnit) {e : Nat}
    (hlen : ∀ er, edges[e]? = some er → 0 ≤ er.dist) : 0 ≤ distTerm m edges fu e := by
  unfold distTerm
  split
  · exact le_refl _
  · rename_i er her
    exact dconv_nonneg _ _ (dconv_nonneg _ _ (hlen er her))

/-- whatever `create_time` returns is strictly positive (it rejects non-positive speed or length) -/
theorem createTime_pos {s : α} {su : SpeedUnit} {d : α} {du : DistanceUnit} {tu : TimeUnit} {tv : α}
    (h : createTime s su d du tu = some tv) : 0 < tv := by
  rw [C09.createTime_eq] at h
  split at h
  · cases h
  · rename_i hn
    simp only [not_or, not_le] at hn
    simp only [Option.some.injEq] at h
    rw [← h]
    have h1 := C09.ratio_cast_pos (α := α) _ (C09.distance_wf du baseDistanceUnit)
    have h2 := C09.ratio_cast_pos (α := α) _ (C09.speed_wf su baseSpeedUnit)
    have h3 := C09.ratio_cast_pos (α := α) _ (C09.time_wf baseTimeUnit tu)
    exact mul_pos (div_pos (mul_pos hn.2 h1) (mul_pos hn.1 h2)) h3

/-- … and it is length over speed: for positive speed `s` (unit `su`) and length `d` (unit `du`)
exactly `d / s` times the combined unit factor `C09.timeK su du tu` (which `C09.createTime_physical`
shows to be the physical factor within 0.1 percent) -/
theorem createTime_some_eq {s : α} {su : SpeedUnit} {d : α} {du : DistanceUnit} {tu : TimeUnit} {tv : α}
    (h : createTime s su d du tu = some tv) :
    0 < s ∧ 0 < d ∧ tv = d / s * (C09.timeK su du tu : α) := by
  have hn : ¬ (s ≤ 0 ∨ d ≤ 0) := by
    intro hc
    rw [(C09.createTime_none_iff s su d du tu).2 hc] at h
    cases h
  simp only [not_or, not_le] at hn
  rw [C09.createTime_def s su d du tu hn.1 hn.2] at h
  cases h
  exact ⟨hn.1, hn.2, rfl⟩

/-- the time term is never negative: no hypothesis on lengths or speeds is needed, because
`create_time` only returns for positive speed and length -/
theorem timeTerm_nonneg (m : TravModel α) (edges : List (EdgeRec α)) (ftu : TimeUnit) (e : Nat) :
    0 ≤ timeTerm m edges ftu e := by
  unfold timeTerm
  split
  · exact le_refl _
  · split
    · exact le_refl _
    · rename_i tv htv
      obtain ⟨er, sp, _, _, hct⟩ := speedTime?_some htv
      exact tconv_nonneg _ _ (createTime_pos hct).le

/-- the configured turn delays are non-negative -/
def DelaysNonneg : AccessModel α → Prop
  | .noAccess => True
  | .turnDelay _ _ delays => ∀ d, some d ∈ delays → 0 ≤ d

theorem turnDelayOf_mem {headings : List (Int × Option Int)} {delays : List (Option α)} {pe ne : Nat}
    {d : α} (h : turnDelayOf headings delays pe ne = some d) : some d ∈ delays := by
  unfold turnDelayOf at h
  split at h
  · split at h
    · cases h
    · split at h
      · rename_i d' hd
        simp only [Option.some.injEq] at h
        subst h
        exact List.mem_of_getElem? hd
      · cases h
  · cases h

theorem delayTerm_nonneg {m : AccessModel α} (hm : DelaysNonneg m) (ftu : TimeUnit) (pe ne : Nat) :
    0 ≤ delayTerm m ftu pe ne := by
  unfold delayTerm
  split
  · exact le_refl _
  · split
    · exact le_refl _
    · rename_i d hd
      exact tconv_nonneg _ _ (hm d (turnDelayOf_mem hd))

theorem stepDelay_nonneg {c : Config α} (hm : DelaysNonneg c.access) (ftu : TimeUnit)
    (last : Option Nat) (e : Nat) : 0 ≤ stepDelay c ftu last e := by
  cases last with
  | none => exact le_refl _
  | some l => exact delayTerm_nonneg hm ftu _ _

/-! ### 3. Monotonicity -/

/-- with non-negative edge lengths the distance slot never decreases: not from the initial state to
the first element, not from any element to the next -/
theorem route_distance_monotone {c : Config α} {route : List (Branch α)} (hacc : Accumulates c route)
    {i : Nat} {fu : DistanceUnit} (hs : DistSlot c.feats i fu)
    (hlen : ∀ er ∈ c.edges, 0 ≤ er.dist) :
    (∀ (hr : 0 < route.length) x y, (initialState c.feats)[i]? = some x →
        route[0].state[i]? = some y → x ≤ y) ∧
    ∀ k (hk : k + 1 < route.length) x y, route[k].state[i]? = some x →
        route[k + 1].state[i]? = some y → x ≤ y := by
  have hterm : ∀ e, 0 ≤ distTerm c.trav c.edges fu e := fun e =>
    distTerm_nonneg _ _ (fun er her => hlen er (List.mem_of_getElem? her))
  refine ⟨?_, ?_⟩
  · intro hr x y hx hy
    rw [step_dist hs (hacc.head hr) x hx] at hy
    cases hy
    exact le_add_of_nonneg_right (hterm _)
  · intro k hk x y hx hy
    rw [step_dist hs (hacc.getElem k hk) x hx] at hy
    cases hy
    exact le_add_of_nonneg_right (hterm _)

/-- with non-negative configured delays the time slot never decreases (table speeds and lengths need
no hypothesis: a run in which `create_time` met a non-positive speed or length did not succeed) -/
theorem route_time_monotone {c : Config α} {route : List (Branch α)} (hacc : Accumulates c route)
    {t : Nat} {ftu : TimeUnit} (hs : TimeSlot c.feats t ftu) (hdel : DelaysNonneg c.access) :
    (∀ (hr : 0 < route.length) x y, (initialState c.feats)[t]? = some x →
        route[0].state[t]? = some y → x ≤ y) ∧
    ∀ k (hk : k + 1 < route.length) x y, route[k].state[t]? = some x →
        route[k + 1].state[t]? = some y → x ≤ y := by
  have hterm : ∀ last e, 0 ≤ timeTerm c.trav c.edges ftu e + stepDelay c ftu last e := fun last e =>
    add_nonneg (timeTerm_nonneg _ _ _ _) (stepDelay_nonneg hdel _ _ _)
  refine ⟨?_, ?_⟩
  · intro hr x y hx hy
    rw [step_time hs (hacc.head hr) x hx] at hy
    cases hy
    exact le_add_of_nonneg_right (hterm _ _)
  · intro k hk x y hx hy
    rw [step_time hs (hacc.getElem k hk) x hx] at hy
    cases hy
    exact le_add_of_nonneg_right (hterm _ _)

/-- under the speed-table model the time slot strictly increases on every edge -/
theorem route_time_strict {c : Config α} {route : List (Branch α)} (hacc : Accumulates c route)
    {t : Nat} {ftu : TimeUnit} (hs : TimeSlot c.feats t ftu) (hdel : DelaysNonneg c.access)
    {su : SpeedUnit} {du : DistanceUnit} {tu : TimeUnit} {ms : α} {table : List α}
    (htrav : c.trav = .speed su du tu ms table) :
    ∀ k (hk : k + 1 < route.length) x y, route[k].state[t]? = some x →
        route[k + 1].state[t]? = some y → x < y := by
  intro k hk x y hx hy
  rw [step_time hs (hacc.getElem k hk) x hx] at hy
  cases hy
  obtain ⟨tv, htv⟩ := route_times_defined hacc htrav (k + 1) hk
  obtain ⟨er, sp, _, _, hct⟩ := speedTime?_some htv
  have h1 : 0 < timeTerm c.trav c.edges ftu route[k + 1].edge := by
    rw [htrav, timeTerm_speed_eq htv]
    exact tconv_pos _ _ (createTime_pos hct)
  have h2 := stepDelay_nonneg hdel ftu (some route[k].edge) route[k + 1].edge
  linarith

/-- **3.** distance and time never decrease along the route -/
theorem route_monotone {c : Config α} {route : List (Branch α)} (hacc : Accumulates c route)
    {i : Nat} {fu : DistanceUnit} (hd : DistSlot c.feats i fu)
    {t : Nat} {ftu : TimeUnit} (ht : TimeSlot c.feats t ftu)
    (hlen : ∀ er ∈ c.edges, 0 ≤ er.dist) (hdel : DelaysNonneg c.access) :
    ∀ k (hk : k + 1 < route.length),
      (∀ x y, route[k].state[i]? = some x → route[k + 1].state[i]? = some y → x ≤ y) ∧
      (∀ x y, route[k].state[t]? = some x → route[k + 1].state[t]? = some y → x ≤ y) :=
  fun k hk => ⟨(route_distance_monotone hacc hd hlen).2 k hk,
    (route_time_monotone hacc ht hdel).2 k hk⟩

/-- from consecutive elements to any two positions `k ≤ k'` -/
theorem slot_mono_le {route : List (Branch α)} {j : Nat}
    (hdef : ∀ k (hk : k < route.length), ∃ x, route[k].state[j]? = some x)
    (hstep : ∀ k (hk : k + 1 < route.length) x y, route[k].state[j]? = some x →
      route[k + 1].state[j]? = some y → x ≤ y) :
    ∀ (d k : Nat) (hk' : k + d < route.length) (x y : α),
      (route[k]'(by omega)).state[j]? = some x → route[k + d].state[j]? = some y → x ≤ y
  | 0, k, hk', x, y, hx, hy => by
    simp only [Nat.add_zero] at hy
    rw [hx] at hy
    cases hy
    exact le_refl _
  | d + 1, k, hk', x, y, hx, hy => by
    obtain ⟨z, hz⟩ := hdef (k + d) (by omega)
    exact le_trans (slot_mono_le hdef hstep d k (by omega) x z hx hz)
      (hstep (k + d) (by omega) z y hz hy)

/-- distance never decreases between any two positions of the route -/
theorem route_distance_monotone_le {c : Config α} {route : List (Branch α)}
    (hacc : Accumulates c route) {i : Nat} {fu : DistanceUnit} (hs : DistSlot c.feats i fu)
    (hlen : ∀ er ∈ c.edges, 0 ≤ er.dist) :
    ∀ (k k' : Nat) (hkk : k ≤ k') (hk' : k' < route.length) (x y : α),
      (route[k]'(by omega)).state[i]? = some x → route[k'].state[i]? = some y → x ≤ y := by
  intro k k' hkk hk' x y hx hy
  obtain ⟨d, rfl⟩ := Nat.exists_eq_add_of_le hkk
  obtain ⟨f, _, _, hsum⟩ := route_distance_is_sum hacc hs
  exact slot_mono_le (fun k hk => ⟨_, hsum k hk⟩) (route_distance_monotone hacc hs hlen).2
    d k hk' x y hx hy

/-- time never decreases between any two positions of the route -/
theorem route_time_monotone_le {c : Config α} {route : List (Branch α)}
    (hacc : Accumulates c route) {t : Nat} {ftu : TimeUnit} (hs : TimeSlot c.feats t ftu)
    (hdel : DelaysNonneg c.access) :
    ∀ (k k' : Nat) (hkk : k ≤ k') (hk' : k' < route.length) (x y : α),
      (route[k]'(by omega)).state[t]? = some x → route[k'].state[t]? = some y → x ≤ y := by
  intro k k' hkk hk' x y hx hy
  obtain ⟨d, rfl⟩ := Nat.exists_eq_add_of_le hkk
  obtain ⟨f, _, hsum⟩ := route_time_is_sum hacc hs
  exact slot_mono_le (fun k hk => ⟨_, hsum k hk⟩) (route_time_monotone hacc hs hdel).2
    d k hk' x y hx hy

/-! ### 5. The summary -/

theorem prefixEdges_last (route : List (Branch α)) :
    prefixEdges route (route.length - 1) = route.map (·.edge) := by
  unfold prefixEdges
  rw [List.take_of_length_le (by omega)]

/-- the route summary is the state of the last element -/
theorem summary_is_last_state {route : List (Branch α)} (hne : route ≠ []) :
    routeSummary route =
      some (route[route.length - 1]'(by
        have := List.length_pos_of_ne_nil hne; omega)).state := by
  have hpos := List.length_pos_of_ne_nil hne
  simp only [routeSummary, List.getLast?_eq_getElem?]
  rw [List.getElem?_eq_getElem (by omega)]
  rfl

/-- … hence the closed forms at `k = n`: the summary's distance is the initial value plus the sum
over all edges of the route, its time the initial value plus all traversal times and all turn
delays, every other slot the initial value -/
theorem summary_closed_form {c : Config α} {route : List (Branch α)} (hacc : Accumulates c route)
    (hne : route ≠ []) {i : Nat} {fu : DistanceUnit} (hd : DistSlot c.feats i fu)
    {t : Nat} {ftu : TimeUnit} (ht : TimeSlot c.feats t ftu) :
    ∃ s fd ft, routeSummary route = some s ∧ c.feats[i]? = some fd ∧ c.feats[t]? = some ft ∧
      s[i]? = some (fd.init + ((route.map (·.edge)).map (distTerm c.trav c.edges fu)).sum) ∧
      s[t]? = some (ft.init + ((route.map (·.edge)).map (timeTerm c.trav c.edges ftu)).sum
            + ((pairs (route.map (·.edge))).map (fun p => turnDelayTerm c ftu p.1 p.2)).sum) ∧
      ∀ j, featIndex c.feats "distance" ≠ some j → featIndex c.feats "time" ≠ some j →
        s[j]? = (c.feats[j]?).map (·.init) := by
  have hpos := List.length_pos_of_ne_nil hne
  have hk : route.length - 1 < route.length := by omega
  obtain ⟨fd, hfd, _, hdist⟩ := route_distance_is_sum hacc hd
  obtain ⟨ft, hft, htime⟩ := route_time_is_sum hacc ht
  refine ⟨_, fd, ft, summary_is_last_state hne, hfd, hft, ?_, ?_, ?_⟩
  · rw [hdist _ hk, prefixEdges_last]
  · rw [htime _ hk, prefixEdges_last]
  · intro j hjd hjt
    exact other_slots_unchanged hacc hjd hjt _ hk

/-- the same for a configuration with only a distance feature -/
theorem summary_distance {c : Config α} {route : List (Branch α)} (hacc : Accumulates c route)
    (hne : route ≠ []) {i : Nat} {fu : DistanceUnit} (hd : DistSlot c.feats i fu) :
    ∃ s fd, routeSummary route = some s ∧ c.feats[i]? = some fd ∧
      s[i]? = some (fd.init + ((route.map (·.edge)).map (distTerm c.trav c.edges fu)).sum) := by
  have hpos := List.length_pos_of_ne_nil hne
  have hk : route.length - 1 < route.length := by omega
  obtain ⟨fd, hfd, _, hdist⟩ := route_distance_is_sum hacc hd
  refine ⟨_, fd, summary_is_last_state hne, hfd, ?_⟩
  rw [hdist _ hk, prefixEdges_last]

/-! ### The closed forms with the values of the run written out

The same statements with the terms replaced by what the successful run computed: lists of the edge
lengths, of the times `create_time` returned and of the delays the table returned, one per edge /
per turn, each proved to be exactly the `some` value of the run. -/

theorem prevEdge_forward {c : Config α} (h : c.reverse = false) (l e : Nat) : prevEdge c l e = l := by
  simp [prevEdge, h]
theorem nextEdge_forward {c : Config α} (h : c.reverse = false) (l e : Nat) : nextEdge c l e = e := by
  simp [nextEdge, h]
theorem prevEdge_reverse {c : Config α} (h : c.reverse = true) (l e : Nat) : prevEdge c l e = e := by
  simp [prevEdge, h]
theorem nextEdge_reverse {c : Config α} (h : c.reverse = true) (l e : Nat) : nextEdge c l e = l := by
  simp [nextEdge, h]

theorem map_prefixEdges {β : Type} (route : List (Branch α)) (k : Nat) (g : Nat → β) :
    (prefixEdges route k).map g = (route.map (fun b => g b.edge)).take (k + 1) := by
  simp [prefixEdges, List.map_take, List.map_map, Function.comp_def]

theorem pairs_take : ∀ (l : List Nat) (k : Nat), pairs (l.take (k + 1)) = (pairs l).take k
  | [], _ => by simp [pairs]
  | [a], k => by simp [pairs]
  | a :: b :: r, 0 => by simp [pairs]
  | a :: b :: r, k + 1 => by
    have := pairs_take (b :: r) k
    simp only [List.take_succ_cons] at this ⊢
    rw [pairs_cons_cons, pairs_cons_cons, this, List.take_succ_cons]

theorem pairs_prefixEdges (route : List (Branch α)) (k : Nat) :
    pairs (prefixEdges route k) = (pairs (route.map (·.edge))).take k := by
  rw [← pairs_take]
  simp [prefixEdges, List.map_take]

theorem pairs_length (l : List Nat) : (pairs l).length = l.length - 1 := by
  simp [pairs, List.length_zip, List.length_tail]

theorem pairs_getElem? (l : List Nat) (k : Nat) (hk : k + 1 < l.length) :
    (pairs l)[k]? = some (l[k], l[k + 1]) := by
  rw [pairs, List.getElem?_zip_eq_some]
  refine ⟨by simp, ?_⟩
  rw [List.getElem?_eq_getElem (by simp [List.length_tail]; omega), List.getElem_tail]

theorem sum_map_mul (l : List α) (r : α) : (l.map (· * r)).sum = l.sum * r := by
  induction l with
  | nil => simp
  | cons a l ih => simp [ih, add_mul]

/-- length of edge `e` as stored (base unit); `0` only for an edge that does not exist -/
def edgeLen (edges : List (EdgeRec α)) (e : Nat) : α :=
  match edges[e]? with
  | none => 0
  | some er => er.dist

theorem distTerm_edgeLen (m : TravModel α) (edges : List (EdgeRec α)) (fu : DistanceUnit) (e : Nat) :
    distTerm m edges fu e =
      (travDu m).convert fu (baseDistanceUnit.convert (travDu m) (edgeLen edges e)) := by
  unfold distTerm edgeLen
  split
  · simp [DistanceUnit.convert, Factor.apply_eq]
  · rfl

/-- **1, written out**: with `du` the traversal model's distance unit and `lens` the stored lengths
of the route's edges (each edge exists), the distance at element `k` is the initial value plus the
sum of the first `k + 1` lengths each converted base → `du` → `fu`, which is also the *total* length
converted once (conversion is linear). -/
theorem route_distance_is_sum_explicit {c : Config α} {route : List (Branch α)}
    (hacc : Accumulates c route) {i : Nat} {fu : DistanceUnit} (hs : DistSlot c.feats i fu)
    {du : DistanceUnit} (hdu : travDu c.trav = du) :
    ∃ (f : Feat α) (lens : List α), c.feats[i]? = some f ∧ lens.length = route.length ∧
      (∀ k (hk : k < route.length), ∃ er, c.edges[route[k].edge]? = some er ∧
        lens[k]? = some er.dist) ∧
      ∀ k (hk : k < route.length),
        route[k].state[i]? = some (f.init +
          ((lens.take (k + 1)).map (fun len => du.convert fu (baseDistanceUnit.convert du len))).sum) ∧
        route[k].state[i]? = some (f.init +
          du.convert fu (baseDistanceUnit.convert du (lens.take (k + 1)).sum)) := by
  obtain ⟨f, hf, hdef, hsum⟩ := route_distance_is_sum hacc hs
  refine ⟨f, route.map (fun b => edgeLen c.edges b.edge), hf, by simp, ?_, ?_⟩
  · intro k hk
    obtain ⟨er, her⟩ := hdef k hk
    refine ⟨er, her, ?_⟩
    rw [List.getElem?_map, List.getElem?_eq_getElem hk]
    simp [edgeLen, her]
  · intro k hk
    have h1 : ((prefixEdges route k).map (distTerm c.trav c.edges fu)) =
        ((route.map (fun b => edgeLen c.edges b.edge)).take (k + 1)).map
          (fun len => du.convert fu (baseDistanceUnit.convert du len)) := by
      rw [map_prefixEdges, List.map_take, List.map_map]
      congr 1
      apply List.map_congr_left
      intro b _
      simp only [Function.comp_def, distTerm_edgeLen, hdu]
    refine ⟨by rw [hsum k hk, h1], ?_⟩
    rw [hsum k hk, h1]
    congr 2
    simp only [DistanceUnit.convert, Factor.apply_eq]
    rw [← sum_map_mul, ← sum_map_mul, List.map_map]
    rfl

theorem timeTerm_speed_getD (edges : List (EdgeRec α)) (su : SpeedUnit) (du : DistanceUnit)
    (tu : TimeUnit) (ms : α) (table : List α) (ftu : TimeUnit) (e : Nat) :
    timeTerm (.speed su du tu ms table) edges ftu e =
      tu.convert ftu ((speedTime? edges su du tu table e).getD 0) := by
  simp only [timeTerm]
  split
  · rename_i h; simp [h, TimeUnit.convert, Factor.apply_eq]
  · rename_i tv h; simp [h]

theorem delayTerm_turnDelay_getD (dtu : TimeUnit) (headings : List (Int × Option Int))
    (delays : List (Option α)) (ftu : TimeUnit) (pe ne : Nat) :
    delayTerm (.turnDelay dtu headings delays) ftu pe ne =
      dtu.convert ftu ((turnDelayOf headings delays pe ne).getD 0) := by
  simp only [delayTerm]
  split
  · rename_i h; simp [h, TimeUnit.convert, Factor.apply_eq]
  · rename_i d h; simp [h]

/-- the list of delays found for the turns of the route (turn-delay model) -/
theorem route_delay_list {c : Config α} {route : List (Branch α)} (hacc : Accumulates c route)
    {dtu : TimeUnit} {headings : List (Int × Option Int)} {delays : List (Option α)}
    (hac : c.access = .turnDelay dtu headings delays) (ftu : TimeUnit) :
    ∃ dls : List α, dls.length = route.length - 1 ∧
      (∀ k (hk : k + 1 < route.length), ∃ d,
        turnDelayOf headings delays (prevEdge c route[k].edge route[k + 1].edge)
          (nextEdge c route[k].edge route[k + 1].edge) = some d ∧ dls[k]? = some d) ∧
      ∀ k, ((pairs (prefixEdges route k)).map (fun p => turnDelayTerm c ftu p.1 p.2)).sum =
        ((dls.take k).map (dtu.convert ftu)).sum := by
  refine ⟨(pairs (route.map (·.edge))).map (fun p =>
    (turnDelayOf headings delays (prevEdge c p.1 p.2) (nextEdge c p.1 p.2)).getD 0), ?_, ?_, ?_⟩
  · simp [pairs_length]
  · intro k hk
    obtain ⟨d, hd⟩ := route_delays_defined hacc hac k hk
    refine ⟨d, hd, ?_⟩
    rw [List.getElem?_map, pairs_getElem? _ _ (by simpa using hk)]
    simp [hd]
  · intro k
    rw [pairs_prefixEdges, List.map_take, List.map_take, List.map_map]
    congr 2
    apply List.map_congr_left
    intro p _
    simp only [Function.comp_def, turnDelayTerm, hac, delayTerm_turnDelay_getD]

/-- the list of times `create_time` returned for the edges of the route (speed-table model) -/
theorem route_time_list {c : Config α} {route : List (Branch α)} (hacc : Accumulates c route)
    {su : SpeedUnit} {du : DistanceUnit} {tu : TimeUnit} {ms : α} {table : List α}
    (htrav : c.trav = .speed su du tu ms table) (ftu : TimeUnit) :
    ∃ times : List α, times.length = route.length ∧
      (∀ k (hk : k < route.length), ∃ er sp tv, c.edges[route[k].edge]? = some er ∧
        table[route[k].edge]? = some sp ∧
        createTime sp su (baseDistanceUnit.convert du er.dist) du tu = some tv ∧
        times[k]? = some tv) ∧
      ∀ k, ((prefixEdges route k).map (timeTerm c.trav c.edges ftu)).sum =
        ((times.take (k + 1)).map (tu.convert ftu)).sum := by
  refine ⟨route.map (fun b => (speedTime? c.edges su du tu table b.edge).getD 0), by simp, ?_, ?_⟩
  · intro k hk
    obtain ⟨tv, htv⟩ := route_times_defined hacc htrav k hk
    obtain ⟨er, sp, her, hsp, hct⟩ := speedTime?_some htv
    refine ⟨er, sp, tv, her, hsp, hct, ?_⟩
    rw [List.getElem?_map, List.getElem?_eq_getElem hk]
    simp [htv]
  · intro k
    rw [map_prefixEdges, List.map_take, List.map_map]
    congr 2
    apply List.map_congr_left
    intro b _
    simp only [Function.comp_def, htrav, timeTerm_speed_getD]

theorem sum_map_zero {β : Type} (l : List β) : (l.map (fun _ => (0 : α))).sum = 0 := by
  induction l with
  | nil => rfl
  | cons a l ih => simp

/-- **2, written out, speed-table model with turn delays**: `times[k]` is the value
`create_time (table speed of e_k) su (length of e_k in du) du tu` returned, `dls[k]` the delay the
table returned for the turn from `e_k` to `e_{k+1}`; the time at element `k` is the initial value
plus the first `k + 1` times (model unit `tu` → feature unit) plus the first `k` delays (table unit
`dtu` → feature unit). -/
theorem route_time_is_sum_speed_turnDelay {c : Config α} {route : List (Branch α)}
    (hacc : Accumulates c route) {t : Nat} {ftu : TimeUnit} (hs : TimeSlot c.feats t ftu)
    {su : SpeedUnit} {du : DistanceUnit} {tu : TimeUnit} {ms : α} {table : List α}
    (htrav : c.trav = .speed su du tu ms table)
    {dtu : TimeUnit} {headings : List (Int × Option Int)} {delays : List (Option α)}
    (hac : c.access = .turnDelay dtu headings delays) :
    ∃ (f : Feat α) (times dls : List α), c.feats[t]? = some f ∧
      times.length = route.length ∧ dls.length = route.length - 1 ∧
      (∀ k (hk : k < route.length), ∃ er sp tv, c.edges[route[k].edge]? = some er ∧
        table[route[k].edge]? = some sp ∧
        createTime sp su (baseDistanceUnit.convert du er.dist) du tu = some tv ∧
        times[k]? = some tv) ∧
      (∀ k (hk : k + 1 < route.length), ∃ d,
        turnDelayOf headings delays (prevEdge c route[k].edge route[k + 1].edge)
          (nextEdge c route[k].edge route[k + 1].edge) = some d ∧ dls[k]? = some d) ∧
      ∀ k (hk : k < route.length),
        route[k].state[t]? = some (f.init + ((times.take (k + 1)).map (tu.convert ftu)).sum
          + ((dls.take k).map (dtu.convert ftu)).sum) := by
  obtain ⟨f, hf, hsum⟩ := route_time_is_sum hacc hs
  obtain ⟨times, ht1, ht2, ht3⟩ := route_time_list hacc htrav ftu
  obtain ⟨dls, hd1, hd2, hd3⟩ := route_delay_list hacc hac ftu
  refine ⟨f, times, dls, hf, ht1, hd1, ht2, hd2, ?_⟩
  intro k hk
  rw [hsum k hk, ht3, hd3]

/-- **2, written out, speed-table model without access model**: time = initial + Σ times -/
theorem route_time_is_sum_speed_noAccess {c : Config α} {route : List (Branch α)}
    (hacc : Accumulates c route) {t : Nat} {ftu : TimeUnit} (hs : TimeSlot c.feats t ftu)
    {su : SpeedUnit} {du : DistanceUnit} {tu : TimeUnit} {ms : α} {table : List α}
    (htrav : c.trav = .speed su du tu ms table) (hac : c.access = .noAccess) :
    ∃ (f : Feat α) (times : List α), c.feats[t]? = some f ∧ times.length = route.length ∧
      (∀ k (hk : k < route.length), ∃ er sp tv, c.edges[route[k].edge]? = some er ∧
        table[route[k].edge]? = some sp ∧
        createTime sp su (baseDistanceUnit.convert du er.dist) du tu = some tv ∧
        times[k]? = some tv) ∧
      ∀ k (hk : k < route.length),
        route[k].state[t]? = some (f.init + ((times.take (k + 1)).map (tu.convert ftu)).sum) := by
  obtain ⟨f, hf, hsum⟩ := route_time_is_sum hacc hs
  obtain ⟨times, ht1, ht2, ht3⟩ := route_time_list hacc htrav ftu
  refine ⟨f, times, hf, ht1, ht2, ?_⟩
  intro k hk
  rw [hsum k hk, ht3]
  have : (fun p : Nat × Nat => turnDelayTerm c ftu p.1 p.2) = fun _ => 0 := by
    funext p
    simp only [turnDelayTerm, hac, delayTerm_noAccess]
  rw [this, sum_map_zero, add_zero]

/-- **2, written out, distance model with turn delays**: time = initial + Σ delays -/
theorem route_time_is_sum_distance_turnDelay {c : Config α} {route : List (Branch α)}
    (hacc : Accumulates c route) {t : Nat} {ftu : TimeUnit} (hs : TimeSlot c.feats t ftu)
    {du : DistanceUnit} (htrav : c.trav = .distance du)
    {dtu : TimeUnit} {headings : List (Int × Option Int)} {delays : List (Option α)}
    (hac : c.access = .turnDelay dtu headings delays) :
    ∃ (f : Feat α) (dls : List α), c.feats[t]? = some f ∧ dls.length = route.length - 1 ∧
      (∀ k (hk : k + 1 < route.length), ∃ d,
        turnDelayOf headings delays (prevEdge c route[k].edge route[k + 1].edge)
          (nextEdge c route[k].edge route[k + 1].edge) = some d ∧ dls[k]? = some d) ∧
      ∀ k (hk : k < route.length),
        route[k].state[t]? = some (f.init + ((dls.take k).map (dtu.convert ftu)).sum) := by
  obtain ⟨f, hf, hsum⟩ := route_time_is_sum hacc hs
  obtain ⟨dls, hd1, hd2, hd3⟩ := route_delay_list hacc hac ftu
  refine ⟨f, dls, hf, hd1, hd2, ?_⟩
  intro k hk
  rw [hsum k hk, hd3]
  have : timeTerm c.trav c.edges ftu = fun _ => 0 := by
    funext e
    rw [htrav, timeTerm_distance]
  rw [this, sum_map_zero, add_zero]

/-- distance model without access model: the time slot (if there is one) keeps its initial value -/
theorem route_time_is_sum_distance_noAccess {c : Config α} {route : List (Branch α)}
    (hacc : Accumulates c route) {t : Nat} {ftu : TimeUnit} (hs : TimeSlot c.feats t ftu)
    {du : DistanceUnit} (htrav : c.trav = .distance du) (hac : c.access = .noAccess) :
    ∃ f : Feat α, c.feats[t]? = some f ∧
      ∀ k (hk : k < route.length), route[k].state[t]? = some f.init := by
  obtain ⟨f, hf, hsum⟩ := route_time_is_sum hacc hs
  refine ⟨f, hf, ?_⟩
  intro k hk
  rw [hsum k hk]
  have h1 : timeTerm c.trav c.edges ftu = fun _ => 0 := by
    funext e
    rw [htrav, timeTerm_distance]
  have h2 : (fun p : Nat × Nat => turnDelayTerm c ftu p.1 p.2) = fun _ => 0 := by
    funext p
    simp only [turnDelayTerm, hac, delayTerm_noAccess]
  rw [h1, h2, sum_map_zero, sum_map_zero, add_zero, add_zero]

/-! ### Any chain of successful traversals accumulates (not only search routes)

`chain` traverses a given list of edges in order, each from the state and edge before it — the shape
of the adjacent-edges case of `run_edge_oriented` and of `reorient_reverse_route`. -/

/-- the route obtained by traversing the edges `es` in order (`none` when a traversal fails) -/
def chain (c : Config α) : Option Nat → List α → List Nat → Option (List (Branch α))
  | _, _, [] => some []
  | last, st, e :: r =>
    match edgeTraversal c e last st with
    | .error _ => none
    | .ok (ac, tc, st') =>
      match chain c (some e) st' r with
      | none => none
      | some rest =>
        some ({ terminal := 0, edge := e, access := ac, traversal := tc, state := st' } :: rest)

theorem chain_accFrom {c : Config α} :
    ∀ (es : List Nat) (last : Option Nat) (st : List α) (route : List (Branch α)),
      chain c last st es = some route → AccFrom c last st route ∧ route.map (·.edge) = es
  | [], _, _, route, h => by
    simp only [chain, Option.some.injEq] at h
    subst h
    exact ⟨trivial, rfl⟩
  | e :: r, last, st, route, h => by
    unfold chain at h
    split at h
    · cases h
    · rename_i ac tc st' hstep
      split at h
      · cases h
      · rename_i rest hrest
        simp only [Option.some.injEq] at h
        subst h
        obtain ⟨h1, h2⟩ := chain_accFrom r (some e) st' rest hrest
        exact ⟨⟨hstep, h1⟩, by simp [h2]⟩

/-! ### Non-vacuity: speed-table model with turn delays, four different units

Three edges 0→1→2→3 of 1000 m, 500 m, 2000 m at 36, 18, 72 km/h; the model computes in kilometres
and hours, the features are time in minutes (initial 5), an unrelated slot (initial 7) and distance
in miles (initial 1); headings 0°, 90°, 90° so the first turn is a right turn and the second is no
turn; delays in seconds, a different one per turn class.  The states of the traversal chain are
exactly the closed forms, the hypotheses of the theorems are met, and time strictly increases. -/

def speedExample : Config ℚ where
  nV := 4
  edges := [⟨0, 1, 1000⟩, ⟨1, 2, 500⟩, ⟨2, 3, 2000⟩]
  outAdj := [[0], [1], [2], []]
  inAdj := [[], [0], [1], [2]]
  feats := [{ name := "time", kind := .time .minutes, init := 5 },
            { name := "spare", kind := .other, init := 7 },
            { name := "distance", kind := .dist .miles, init := 1 }]
  trav := .speed .kilometersPerHour .kilometers .hours 120 [36, 18, 72]
  access := .turnDelay .seconds [(0, none), (90, none), (90, some 90)]
    [some 1, some 2, some 3, some 4, some 5, some 6, some 7, some 8]
  cost := { indices := [0, 2], weights := [1, 1, 1], vehicleRates := [.raw, .raw, .raw],
            networkRates := [.zero, .zero, .zero], agg := .sum }
  frontier := []
  term := .combined []
  reverse := false
  gc := []
  wf := some 0

theorem speedExample_timeSlot : TimeSlot speedExample.feats 0 .minutes := ⟨by decide, rfl⟩
theorem speedExample_distSlot : DistSlot speedExample.feats 2 .miles := ⟨by decide, rfl⟩

/-- (time, spare, distance) reported along the chain = the closed forms, evaluated independently -/
example :
    (chain speedExample none (initialState speedExample.feats) [0, 1, 2]).map
        (·.map (fun b => (b.state[0]?, b.state[1]?, b.state[2]?))) =
      some ([0, 1, 2].map (fun k =>
        (some (5 + ((([0, 1, 2] : List Nat).take (k + 1)).map
              (timeTerm speedExample.trav speedExample.edges .minutes)).sum
            + ((pairs (([0, 1, 2] : List Nat).take (k + 1))).map
              (fun p => turnDelayTerm speedExample .minutes p.1 p.2)).sum),
         some 7,
         some (1 + ((([0, 1, 2] : List Nat).take (k + 1)).map
              (distTerm speedExample.trav speedExample.edges .miles)).sum)))) := by
  decide +kernel

/-- the terms are what the property says: the time of edge 0 is `create_time` of its table speed
(36 km/h) and its length (1000 m in kilometres), in hours; the right turn onto edge 1 costs the
table's entry for "right" (4 s), going straight onto edge 2 the entry for "no turn" (1 s), each
converted from seconds to the feature's minutes -/
example :
    speedTime? speedExample.edges .kilometersPerHour .kilometers .hours [36, 18, 72] 0 =
      createTime 36 .kilometersPerHour (DistanceUnit.meters.convert .kilometers 1000) .kilometers .hours ∧
    (speedTime? speedExample.edges .kilometersPerHour .kilometers .hours [36, 18, 72] 0).isSome = true ∧
    turnDelayTerm speedExample .minutes 0 1 = TimeUnit.seconds.convert .minutes 4 ∧
    turnDelayTerm speedExample .minutes 1 2 = TimeUnit.seconds.convert .minutes 1 := by
  decide +kernel

/-- the theorems apply to that chain -/
example : ∃ route, chain speedExample none (initialState speedExample.feats) [0, 1, 2] = some route ∧
    Accumulates speedExample route ∧ route.length = 3 ∧
    (∃ times dls : List ℚ, times.length = 3 ∧ dls.length = 2 ∧
      ∀ k (hk : k < route.length), route[k].state[0]? =
        some (5 + ((times.take (k + 1)).map (TimeUnit.hours.convert .minutes)).sum
          + ((dls.take k).map (TimeUnit.seconds.convert .minutes)).sum)) ∧
    ∀ k (hk : k + 1 < route.length) x y, route[k].state[0]? = some x →
      route[k + 1].state[0]? = some y → x < y := by
  have hsome : (chain speedExample none (initialState speedExample.feats) [0, 1, 2]).isSome = true := by
    decide +kernel
  obtain ⟨route, hroute⟩ := Option.isSome_iff_exists.1 hsome
  obtain ⟨hacc, hedges⟩ := chain_accFrom _ _ _ _ hroute
  have hlen : route.length = 3 := by
    have := congrArg List.length hedges
    simpa using this
  have hdel : DelaysNonneg speedExample.access := by
    intro d hd
    simp only [List.mem_cons, Option.some.injEq, List.not_mem_nil, or_false] at hd
    rcases hd with rfl | rfl | rfl | rfl | rfl | rfl | rfl | rfl <;> norm_num
  refine ⟨route, hroute, hacc, hlen, ?_, route_time_strict hacc speedExample_timeSlot hdel rfl⟩
  obtain ⟨f, times, dls, hf, h1, h2, _, _, h5⟩ :=
    route_time_is_sum_speed_turnDelay hacc speedExample_timeSlot rfl rfl
  have hf5 : f.init = 5 := by
    have : speedExample.feats[0]? = some ⟨"time", .time .minutes, 5⟩ := rfl
    rw [this] at hf
    cases hf
    rfl
  refine ⟨times, dls, by omega, by omega, ?_⟩
  intro k hk
  rw [h5 k hk, hf5]

end RouteSums
end Compass
