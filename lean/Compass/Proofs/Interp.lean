/-
Helper lemmas for C14 (interpolation), over any linearly ordered field.
-/
import Compass.Proofs.Num
import Compass.Model.Interp
import Mathlib.Data.List.Forall2

namespace Compass
namespace Interp

set_option linter.unusedSectionVars false

section
variable {α : Type} [Field α] [LinearOrder α] [IsStrictOrderedRing α] [Lit α] [LawfulLit α]

@[simp] theorem eqv_iff (a b : α) : eqv a b = true ↔ a = b := by
  simp only [eqv, Bool.and_eq_true, decide_eq_true_eq]
  exact le_antisymm_iff.symm

theorem eqv_false_iff (a b : α) : eqv a b = false ↔ a ≠ b := by
  constructor
  · intro h he
    rw [← eqv_iff] at he
    rw [he] at h; cases h
  · intro h
    cases hh : eqv a b with
    | false => rfl
    | true => exact absurd ((eqv_iff a b).mp hh) h

theorem idx_eq {β : Type} {xs : List β} {i : Nat} {v : β} (h : xs[i]? = some v) : idx xs i = .ok v := by
  simp [idx, h]

/-- strictly increasing lists: any two positions -/
theorem si_lt : ∀ (g : List α), strictlyIncreasing g = true →
    ∀ (i j : Nat) (a b : α), i < j → g[i]? = some a → g[j]? = some b → a < b := by
  intro g
  induction g with
  | nil => intro _ i j a b _ h; simp at h
  | cons x t ih =>
    intro hs i j a b hij hi hj
    cases t with
    | nil =>
      cases j with
      | zero => omega
      | succ j => simp at hj
    | cons y r =>
      simp only [strictlyIncreasing, Bool.and_eq_true, decide_eq_true_eq] at hs
      obtain ⟨hxy, hs'⟩ := hs
      cases j with
      | zero => omega
      | succ j =>
        simp only [List.getElem?_cons_succ] at hj
        cases i with
        | zero =>
          simp only [List.getElem?_cons_zero, Option.some.injEq] at hi
          subst hi
          cases j with
          | zero =>
            simp only [List.getElem?_cons_zero, Option.some.injEq] at hj
            subst hj; exact hxy
          | succ j =>
            have := ih hs' 0 (j + 1) y b (by omega) (by simp) hj
            exact lt_trans hxy this
        | succ i =>
          simp only [List.getElem?_cons_succ] at hi
          exact ih hs' i j a b (by omega) hi hj

theorem si_le (g : List α) (hs : strictlyIncreasing g = true) (i j : Nat) (a b : α) (hij : i ≤ j)
    (hi : g[i]? = some a) (hj : g[j]? = some b) : a ≤ b := by
  rcases Nat.lt_or_ge i j with h | h
  · exact le_of_lt (si_lt g hs i j a b h hi hj)
  · have : i = j := by omega
    subst this
    rw [hi] at hj; cases hj; exact le_refl _

/-- in a strictly increasing list, values determine positions -/
theorem si_inj (g : List α) (hs : strictlyIncreasing g = true) (i j : Nat) (a : α)
    (hi : g[i]? = some a) (hj : g[j]? = some a) : i = j := by
  rcases Nat.lt_trichotomy i j with h | h | h
  · exact absurd (si_lt g hs i j a a h hi hj) (lt_irrefl _)
  · exact h
  · exact absurd (si_lt g hs j i a a h hj hi) (lt_irrefl _)

/-! ### the binary search -/

/-- the two loop invariants of `find_nearest_index` (no sortedness needed): everything left of
`low` is below the target, and the element at `high` is not -/
theorem bsearch_spec (arr : List α) (t : α) : ∀ (fuel low high : Nat), low ≤ high → high < arr.length →
    high - low < fuel →
    ∃ r, bsearch arr t fuel low high = .ok r ∧ low ≤ r ∧ r ≤ high ∧
      ((low = 0 ∨ ∃ v, arr[low - 1]? = some v ∧ v < t) → (r = 0 ∨ ∃ v, arr[r - 1]? = some v ∧ v < t)) ∧
      ((∃ v, arr[high]? = some v ∧ t ≤ v) → ∃ v, arr[r]? = some v ∧ t ≤ v) := by
  intro fuel
  induction fuel with
  | zero => intro low high _ _ h; omega
  | succ fuel ih =>
    intro low high hlh hh hf
    unfold bsearch
    by_cases hlt : low < high
    · simp only [hlt, if_true]
      have hmid : low + (high - low) / 2 < arr.length := by omega
      have hget : arr[low + (high - low) / 2]? = some (arr[low + (high - low) / 2]'hmid) :=
        List.getElem?_eq_getElem hmid
      rw [hget]
      simp only
      by_cases hc : t ≤ arr[low + (high - low) / 2]'hmid
      · simp only [hc, if_true]
        obtain ⟨r, hr, h1, h2, h3, h4⟩ := ih low (low + (high - low) / 2) (by omega) hmid (by omega)
        refine ⟨r, hr, h1, by omega, h3, ?_⟩
        intro _
        exact h4 ⟨_, hget, hc⟩
      · simp only [hc, if_false]
        obtain ⟨r, hr, h1, h2, h3, h4⟩ := ih (low + (high - low) / 2 + 1) high (by omega) hh (by omega)
        refine ⟨r, hr, by omega, h2, ?_, h4⟩
        intro _
        apply h3
        right
        refine ⟨_, ?_, not_le.mp hc⟩
        simp [hget]
    · simp only [hlt, if_false]
      have : low = high := by omega
      subst this
      exact ⟨low, rfl, le_refl _, le_refl _, fun h => h, fun h => h⟩

/-- a grid the property quantifies over: strictly increasing, at least two points -/
def GoodGrid (g : List α) : Prop := strictlyIncreasing g = true ∧ 2 ≤ g.length

theorem getLast?_eq_getElem? {β : Type} (g : List β) : g.getLast? = g[g.length - 1]? := by
  rw [List.getLast?_eq_getElem?]

/-- `find_nearest_index` on a good grid and an in-range target: the index of a cell that contains the
target; the target is strictly above the cell's lower end except at the very first grid point -/
theorem findNearestIndex_spec (g : List α) (t lo hi : α) (hg : GoodGrid g)
    (hlo : g[0]? = some lo) (hhi : g.getLast? = some hi) (h1 : lo ≤ t) (h2 : t ≤ hi) :
    ∃ l a b, findNearestIndex g t = .ok l ∧ g[l]? = some a ∧ g[l + 1]? = some b ∧
      ((a < t ∧ t ≤ b) ∨ (l = 0 ∧ t = a)) := by
  obtain ⟨hs, hlen⟩ := hg
  have hhi' : g[g.length - 1]? = some hi := by rw [← getLast?_eq_getElem?]; exact hhi
  unfold findNearestIndex
  rw [if_neg (by omega), hhi]
  simp only
  by_cases he : eqv t hi = true
  · rw [if_pos he]
    rw [eqv_iff] at he
    subst he
    have hl2 : g.length - 2 < g.length := by omega
    refine ⟨g.length - 2, g[g.length - 2]'hl2, t, ?_, List.getElem?_eq_getElem hl2, ?_, ?_⟩
    · rw [if_neg (by omega)]
    · have : g.length - 2 + 1 = g.length - 1 := by omega
      rw [this]; exact hhi'
    · left
      refine ⟨?_, le_refl _⟩
      exact si_lt g hs (g.length - 2) (g.length - 1) _ _ (by omega) (List.getElem?_eq_getElem hl2) hhi'
  · rw [if_neg he]
    have hne : t ≠ hi := by
      intro h; apply he; rw [eqv_iff]; exact h
    obtain ⟨r, hr, _, hrh, hA, hB⟩ := bsearch_spec g t (g.length + 1) 0 (g.length - 1) (by omega) (by omega) (by omega)
    rw [hr]
    simp only [Res.bind]
    obtain ⟨v, hv, htv⟩ := hB ⟨hi, hhi', h2⟩
    rw [idx_eq hv]
    simp only
    have hA' := hA (Or.inl rfl)
    by_cases hr0 : 0 < r
    · rw [if_pos ⟨hr0, htv⟩]
      rcases hA' with h0 | ⟨w, hw, hwt⟩
      · omega
      · refine ⟨r - 1, w, v, rfl, hw, ?_, Or.inl ⟨hwt, htv⟩⟩
        have : r - 1 + 1 = r := by omega
        rw [this]; exact hv
    · have hr0' : r = 0 := by omega
      subst hr0'
      rw [if_neg (by omega)]
      rw [hlo] at hv
      cases hv
      have h1len : 1 < g.length := by omega
      refine ⟨0, lo, g[1]'h1len, rfl, hlo, List.getElem?_eq_getElem h1len, Or.inr ⟨rfl, le_antisymm htv h1⟩⟩

/-! ### `lerp` -/

theorem lerp_eq (a b d : α) : lerp a b d = a * (1 - d) + b * d := by
  simp [lerp]

theorem lerp_zero (a b : α) : lerp a b 0 = a := by rw [lerp_eq]; ring
theorem lerp_one (a b : α) : lerp a b 1 = b := by rw [lerp_eq]; ring

theorem lerp_between (a b d : α) (h0 : 0 ≤ d) (h1 : d ≤ 1) :
    min a b ≤ lerp a b d ∧ lerp a b d ≤ max a b := by
  rw [lerp_eq]
  have hd : 0 ≤ 1 - d := by linarith
  constructor
  · have e : min a b = min a b * (1 - d) + min a b * d := by ring
    rw [e]
    exact add_le_add (mul_le_mul_of_nonneg_right (min_le_left _ _) hd)
      (mul_le_mul_of_nonneg_right (min_le_right _ _) h0)
  · have e : max a b = max a b * (1 - d) + max a b * d := by ring
    rw [e]
    exact add_le_add (mul_le_mul_of_nonneg_right (le_max_left _ _) hd)
      (mul_le_mul_of_nonneg_right (le_max_right _ _) h0)

theorem lerp_mono_bounds (a b d lo hi : α) (h0 : 0 ≤ d) (h1 : d ≤ 1)
    (ha : lo ≤ a ∧ a ≤ hi) (hb : lo ≤ b ∧ b ≤ hi) : lo ≤ lerp a b d ∧ lerp a b d ≤ hi := by
  obtain ⟨h, h'⟩ := lerp_between a b d h0 h1
  exact ⟨le_trans (le_min ha.1 hb.1) h, le_trans h' (max_le ha.2 hb.2)⟩

/-- interpolating an affine function of the grid coordinate gives the affine function of the point -/
theorem lerp_affine (a b p m c : α) (hab : a ≠ b) :
    lerp (m * a + c) (m * b + c) ((p - a) / (b - a)) = m * p + c := by
  rw [lerp_eq]
  have : b - a ≠ 0 := sub_ne_zero.mpr (Ne.symm hab)
  field_simp
  ring

/-! ### the selected cell in one dimension -/

/-- `(l, d)` is what `cellOf g p` selects: cell `[g[l], g[l+1]]` contains `p`, strictly above its lower
end except at the first grid point, and `d` is the fraction -/
def Sel (g : List α) (p : α) (l : Nat) (d : α) : Prop :=
  ∃ a b, g[l]? = some a ∧ g[l + 1]? = some b ∧ a < b ∧ d = (p - a) / (b - a) ∧
    ((a < p ∧ p ≤ b) ∨ (l = 0 ∧ p = a))

theorem cellOf_sel (g : List α) (p lo hi : α) (hg : GoodGrid g)
    (hlo : g[0]? = some lo) (hhi : g.getLast? = some hi) (h1 : lo ≤ p) (h2 : p ≤ hi) :
    ∃ l d, cellOf g p = .ok (l, d) ∧ Sel g p l d := by
  obtain ⟨l, a, b, hf, ha, hb, hc⟩ := findNearestIndex_spec g p lo hi hg hlo hhi h1 h2
  refine ⟨l, (p - a) / (b - a), ?_, a, b, ha, hb, si_lt g hg.1 l (l + 1) a b (by omega) ha hb, rfl, hc⟩
  simp [cellOf, hf, Res.bind, idx_eq ha, idx_eq hb]

theorem Sel.range {g : List α} {p : α} {l : Nat} {d : α} (h : Sel g p l d) : 0 ≤ d ∧ d ≤ 1 := by
  obtain ⟨a, b, _, _, hab, hd, hc⟩ := h
  have hba : 0 < b - a := by linarith
  subst hd
  rcases hc with ⟨h1, h2⟩ | ⟨_, h1⟩
  · constructor
    · apply div_nonneg <;> linarith
    · rw [div_le_one hba]; linarith
  · subst h1; simp

theorem Sel.lt_length {g : List α} {p : α} {l : Nat} {d : α} (h : Sel g p l d) : l + 1 < g.length := by
  obtain ⟨a, b, _, hb, _⟩ := h
  by_contra hn
  rw [List.getElem?_eq_none (by omega)] at hb
  cases hb

/-- on a grid point the selected cell reproduces the value at that grid point -/
theorem Sel.on_grid {g : List α} {p : α} {l : Nat} {d : α} (h : Sel g p l d)
    (hs : strictlyIncreasing g = true) (i : Nat) (hi : g[i]? = some p) (v : Nat → α) :
    lerp (v l) (v (l + 1)) d = v i := by
  obtain ⟨a, b, ha, hb, hab, hd, hc⟩ := h
  have hba : b - a ≠ 0 := by
    have : 0 < b - a := by linarith
    exact ne_of_gt this
  rcases hc with ⟨h1, h2⟩ | ⟨h0, h1⟩
  · -- l < i ≤ l+1
    have hli : l < i := by
      by_contra hn
      have := si_le g hs i l p a (by omega) hi ha
      linarith
    have hil : i ≤ l + 1 := by
      by_contra hn
      have := si_lt g hs (l + 1) i b p (by omega) hb hi
      linarith
    have : i = l + 1 := by omega
    subst this
    rw [hb] at hi; cases hi
    rw [hd, div_self hba, lerp_one]
  · subst h1
    have : i = l := si_inj g hs i l p hi ha
    subst this
    rw [hd]; simp [lerp_zero]

/-- any other cell that contains the point gives the same interpolated value: the pieces agree on
their common border -/
theorem Sel.indep {g : List α} {p : α} {l : Nat} {d : α} (h : Sel g p l d)
    (hs : strictlyIncreasing g = true) (l' : Nat) (a' b' : α) (ha' : g[l']? = some a')
    (hb' : g[l' + 1]? = some b') (h1 : a' ≤ p) (h2 : p ≤ b') (v : Nat → α) :
    lerp (v l) (v (l + 1)) d = lerp (v l') (v (l' + 1)) ((p - a') / (b' - a')) := by
  have hab' : a' < b' := si_lt g hs l' (l' + 1) a' b' (by omega) ha' hb'
  have hba' : b' - a' ≠ 0 := ne_of_gt (by linarith)
  rcases lt_trichotomy a' p with hlt | heq | hgt
  · rcases lt_or_eq_of_le h2 with hlt2 | heq2
    · -- strictly inside the other cell: it is the same cell
      obtain ⟨a, b, ha, hb, hab, hd, hc⟩ := h
      have hl : l = l' := by
        rcases hc with ⟨c1, c2⟩ | ⟨c0, c1⟩
        · rcases Nat.lt_trichotomy l l' with hh | hh | hh
          · have := si_le g hs (l + 1) l' b a' (by omega) hb ha'
            linarith
          · exact hh
          · have := si_le g hs (l' + 1) l b' a (by omega) hb' ha
            linarith
        · subst c1
          rcases Nat.eq_zero_or_pos l' with hh | hh
          · omega
          · have := si_lt g hs l l' p a' (by omega) ha ha'
            linarith
      subst hl
      rw [ha] at ha'; rw [hb] at hb'; cases ha'; cases hb'
      rw [hd]
    · -- the point is the upper end of the other cell
      subst heq2
      rw [h.on_grid hs (l' + 1) hb' v, div_self hba', lerp_one]
  · subst heq
    rw [h.on_grid hs l' ha' v]; simp [lerp_zero]
  · linarith

/-- values that are an affine function of the grid coordinate are interpolated exactly -/
theorem Sel.affine {g : List α} {p : α} {l : Nat} {d : α} (h : Sel g p l d) (v : Nat → α) (m c : α)
    (hv : ∀ i x, g[i]? = some x → v i = m * x + c) :
    lerp (v l) (v (l + 1)) d = m * p + c := by
  obtain ⟨a, b, ha, hb, hab, hd, _⟩ := h
  rw [hv l a ha, hv (l + 1) b hb, hd]
  exact lerp_affine a b p m c (ne_of_lt hab)

/-! ### in-range points -/

/-- `g[0] ≤ p ≤ g.last` -/
def InAxis (g : List α) (p : α) : Prop :=
  ∃ lo hi, g[0]? = some lo ∧ g.getLast? = some hi ∧ lo ≤ p ∧ p ≤ hi

theorem inAxis_true {g : List α} {p : α} (h : InAxis g p) : inAxis g p = .ok true := by
  obtain ⟨lo, hi, h0, hl, h1, h2⟩ := h
  simp [inAxis, idx_eq h0, Res.bind, hl, h1, h2]

theorem inAxis_false {g : List α} {p : α} (hne : g ≠ []) (h : ¬ InAxis g p) : inAxis g p = .ok false := by
  cases g with
  | nil => exact absurd rfl hne
  | cons a t =>
    have h0 : (a :: t)[0]? = some a := rfl
    obtain ⟨hi, hl⟩ : ∃ hi, (a :: t).getLast? = some hi := ⟨_, List.getLast?_eq_some_getLast (by simp)⟩
    simp only [inAxis, idx_eq h0, Res.bind, hl]
    congr 1
    by_contra hc
    apply h
    simp only [Bool.and_eq_false_imp, decide_eq_true_eq, decide_eq_false_iff_not, not_forall,
      not_not] at hc
    exact ⟨a, hi, h0, hl, hc.1, hc.2⟩

theorem sel_of_inAxis {g : List α} {p : α} (hg : GoodGrid g) (h : InAxis g p) :
    ∃ l d, cellOf g p = .ok (l, d) ∧ Sel g p l d := by
  obtain ⟨lo, hi, h0, hl, h1, h2⟩ := h
  exact cellOf_sel g p lo hi hg h0 hl h1 h2

/-! ### 2-D -/

/-- total accessor of a table -/
def F2 (f : List (List α)) (i j : Nat) : α := (f.getD i []).getD j 0

/-- `f` has `nx` rows of `ny` values -/
def Rect2 (f : List (List α)) (nx ny : Nat) : Prop := f.length = nx ∧ ∀ r ∈ f, r.length = ny

theorem idx2_ok {f : List (List α)} {nx ny i j : Nat} (hr : Rect2 f nx ny) (hi : i < nx) (hj : j < ny) :
    idx2 f i j = .ok (F2 f i j) := by
  obtain ⟨h1, h2⟩ := hr
  have hi' : i < f.length := by omega
  have hrow : (f[i]'hi').length = ny := h2 _ (List.getElem_mem hi')
  have hj' : j < (f[i]'hi').length := by omega
  simp [idx2, idx, Res.bind, F2, List.getElem?_eq_getElem hi', List.getElem?_eq_getElem hj',
    List.getD_eq_getElem?_getD]

/-- the bilinear formula on cell `(lx, ly)` with fractions `dx dy`, in the code's operation order -/
def bil (F : Nat → Nat → α) (lx : Nat) (dx : α) (ly : Nat) (dy : α) : α :=
  lerp (lerp (F lx ly) (F (lx + 1) ly) dx) (lerp (F lx (ly + 1)) (F (lx + 1) (ly + 1)) dx) dy

theorem linear2_ok (x y : List α) (f : List (List α)) (p0 p1 : α) (hx : GoodGrid x) (hy : GoodGrid y)
    (hr : Rect2 f x.length y.length) (h0 : InAxis x p0) (h1 : InAxis y p1) :
    ∃ lx dx ly dy, cellOf x p0 = .ok (lx, dx) ∧ cellOf y p1 = .ok (ly, dy) ∧ Sel x p0 lx dx ∧
      Sel y p1 ly dy ∧ linear2 x y f [p0, p1] = .ok (bil (F2 f) lx dx ly dy) := by
  obtain ⟨lx, dx, hcx, sx⟩ := sel_of_inAxis hx h0
  obtain ⟨ly, dy, hcy, sy⟩ := sel_of_inAxis hy h1
  refine ⟨lx, dx, ly, dy, hcx, hcy, sx, sy, ?_⟩
  have bx := sx.lt_length
  have by' := sy.lt_length
  simp [linear2, idx, Res.bind, hcx, hcy, bil,
    idx2_ok hr (show lx < x.length by omega) (show ly < y.length by omega),
    idx2_ok hr (show lx + 1 < x.length by omega) (show ly < y.length by omega),
    idx2_ok hr (show lx < x.length by omega) (show ly + 1 < y.length by omega),
    idx2_ok hr (show lx + 1 < x.length by omega) (show ly + 1 < y.length by omega)]

/-- `validate2` accepts exactly the well-formed tables: at least two points per axis, strictly
increasing, rectangular values -/
theorem validate2_ok_iff (x y : List α) (f : List (List α)) :
    validate2 x y f = .ok () ↔
      2 ≤ x.length ∧ 2 ≤ y.length ∧ strictlyIncreasing x = true ∧ strictlyIncreasing y = true ∧
        Rect2 f x.length y.length := by
  unfold validate2 Rect2
  by_cases h1 : x.length = 0 ∨ y.length = 0
  · rw [if_pos h1]
    constructor
    · intro h; cases h
    · rintro ⟨hx, hy, _⟩; omega
  · rw [if_neg h1]
    by_cases h1' : x.length < 2 ∨ y.length < 2
    · rw [if_pos h1']
      constructor
      · intro h; cases h
      · rintro ⟨hx, hy, _⟩; omega
    · rw [if_neg h1']
      have hx : 2 ≤ x.length := by omega
      have hy : 2 ≤ y.length := by omega
      by_cases h2 : (strictlyIncreasing x && strictlyIncreasing y) = true
      · simp only [h2, Bool.not_true, Bool.false_eq_true, if_false]
        simp only [Bool.and_eq_true] at h2
        by_cases h3 : (decide (x.length = f.length) && f.all (fun r => decide (r.length = y.length))) = true
        · simp only [h3, Bool.not_true, Bool.false_eq_true, if_false, true_iff]
          simp only [Bool.and_eq_true, decide_eq_true_eq, List.all_eq_true] at h3
          exact ⟨hx, hy, h2.1, h2.2, h3.1.symm, h3.2⟩
        · simp only [h3, Bool.not_false, if_true]
          constructor
          · intro h; cases h
          · rintro ⟨_, _, _, _, h4, h5⟩
            exfalso; apply h3
            simp only [Bool.and_eq_true, decide_eq_true_eq, List.all_eq_true]
            exact ⟨h4.symm, h5⟩
      · simp only [h2, Bool.not_false, if_true]
        constructor
        · intro h; cases h
        · rintro ⟨_, _, h3, h4, _⟩
          exfalso; apply h2; simp [h3, h4]

/-- `Interpolator::interpolate` on a 2-D interpolator: in range it is `linear2` … -/
theorem interpolate_d2_in (x y : List α) (f : List (List α)) (p0 p1 : α)
    (h0 : InAxis x p0) (h1 : InAxis y p1) :
    Interpolator.interpolate (.d2 x y f) [p0, p1] .linear = linear2 x y f [p0, p1] := by
  simp [Interpolator.interpolate, Interpolator.validateInputs, Interpolator.ndim, idx, Res.bind,
    inAxis_true h0, inAxis_true h1]

/-- … and out of range it is the `outside` error -/
theorem interpolate_d2_out (x y : List α) (f : List (List α)) (p0 p1 : α) (s : Strategy)
    (hx : x ≠ []) (hy : y ≠ []) (h : ¬ (InAxis x p0 ∧ InAxis y p1)) :
    Interpolator.interpolate (.d2 x y f) [p0, p1] s = .err .outside := by
  by_cases h0 : InAxis x p0
  · have h1 : ¬ InAxis y p1 := fun h1 => h ⟨h0, h1⟩
    simp [Interpolator.interpolate, Interpolator.validateInputs, Interpolator.ndim, idx, Res.bind,
      inAxis_true h0, inAxis_false hy h1]
  · simp [Interpolator.interpolate, Interpolator.validateInputs, Interpolator.ndim, idx, Res.bind,
      inAxis_false hx h0]

/-! ### `linspace` -/

theorem linspaceFrom_length (dx prev : α) (k : Nat) : (linspaceFrom dx prev k).length = k := by
  induction k generalizing prev with
  | zero => rfl
  | succ k ih => simp [linspaceFrom, ih]

theorem linspaceFrom_si (dx : α) (hdx : 0 < dx) (k : Nat) (prev : α) :
    strictlyIncreasing (prev :: linspaceFrom dx prev k) = true := by
  induction k generalizing prev with
  | zero => rfl
  | succ k ih =>
    simp only [linspaceFrom, strictlyIncreasing, Bool.and_eq_true, decide_eq_true_eq]
    exact ⟨by linarith, ih (prev + dx)⟩

theorem linspaceFrom_getLast (dx : α) (k : Nat) (prev : α) :
    (prev :: linspaceFrom dx prev k).getLast? = some (prev + k * dx) := by
  induction k generalizing prev with
  | zero => simp [linspaceFrom]
  | succ k ih =>
    rw [linspaceFrom, List.getLast?_cons_cons, ih (prev + dx)]
    congr 1
    push_cast
    ring

theorem ofNat_eq (n : Nat) : (ofNat n : α) = (n : α) := by
  simp [ofNat, LawfulLit.lit_eq]

/-- `linspace` with at least two points and increasing bounds: a good grid from `x0` to `xend` -/
theorem linspace_good (x0 xend : α) (n : Nat) (hn : 2 ≤ n) (h : x0 < xend) :
    ∃ xs, linspace x0 xend n = .ok xs ∧ GoodGrid xs ∧ xs.length = n ∧ xs[0]? = some x0 ∧
      xs.getLast? = some xend := by
  obtain ⟨m, rfl⟩ : ∃ m, n = m + 1 := ⟨n - 1, by omega⟩
  have hm : (0 : α) < (m : α) := by
    have : 0 < m := by omega
    exact_mod_cast this
  have hdx : 0 < (xend - x0) / (ofNat m : α) := by
    rw [ofNat_eq]; apply div_pos <;> linarith
  refine ⟨_, rfl, ⟨linspaceFrom_si _ hdx m x0, ?_⟩, ?_, rfl, ?_⟩
  · simp [linspaceFrom_length]; omega
  · simp [linspaceFrom_length]
  · rw [linspaceFrom_getLast, ofNat_eq]
    congr 1
    field_simp
    ring

theorem linspace_length (x0 xend : α) (n : Nat) (xs : List α) (h : linspace x0 xend n = .ok xs) :
    xs.length = n := by
  cases n with
  | zero =>
    simp only [linspace, Res.ok.injEq] at h
    subst h; rfl
  | succ m =>
    simp only [linspace, Res.ok.injEq] at h
    subst h
    simp [linspaceFrom_length]

/-! ### the speed/grade model -/

theorem fmax_eq (a b : α) : fmax a b = max a b := by
  unfold fmax
  split
  · rw [max_eq_right (le_of_lt ‹_›)]
  · rw [max_eq_left (not_lt.mp ‹_›)]

theorem fmin_eq (a b : α) : fmin a b = min a b := by
  unfold fmin
  split
  · rw [min_eq_right (le_of_lt ‹_›)]
  · rw [min_eq_left (not_lt.mp ‹_›)]

/-- what `predict` does to a converted input: clamp to the first and last grid value -/
def clampTo (g : List α) (v : α) : α :=
  match g.head?, g.getLast? with
  | some lo, some hi => fmin (fmax v lo) hi
  | _, _ => v

theorem good_first_last {g : List α} (hg : GoodGrid g) :
    ∃ lo hi, g[0]? = some lo ∧ g.head? = some lo ∧ g.getLast? = some hi ∧ lo < hi := by
  obtain ⟨hs, hl⟩ := hg
  have h0 : 0 < g.length := by omega
  have h1 : g.length - 1 < g.length := by omega
  refine ⟨g[0], g[g.length - 1], List.getElem?_eq_getElem h0, ?_, ?_, ?_⟩
  · rw [List.head?_eq_getElem?]; exact List.getElem?_eq_getElem h0
  · rw [getLast?_eq_getElem?]; exact List.getElem?_eq_getElem h1
  · exact si_lt g hs 0 (g.length - 1) _ _ (by omega) (List.getElem?_eq_getElem h0) (List.getElem?_eq_getElem h1)

theorem clampTo_inAxis {g : List α} (hg : GoodGrid g) (v : α) : InAxis g (clampTo g v) := by
  obtain ⟨lo, hi, h0, hh, hl, hlt⟩ := good_first_last hg
  refine ⟨lo, hi, h0, hl, ?_, ?_⟩
  · simp only [clampTo, hh, hl, fmin_eq, fmax_eq]
    exact le_min (le_max_right _ _) (le_of_lt hlt)
  · simp only [clampTo, hh, hl, fmin_eq, fmax_eq]
    exact min_le_right _ _

theorem clampTo_of_inAxis {g : List α} {v : α} (h : InAxis g v) : clampTo g v = v := by
  obtain ⟨lo, hi, h0, hl, h1, h2⟩ := h
  have hh : g.head? = some lo := by rw [List.head?_eq_getElem?]; exact h0
  simp only [clampTo, hh, hl, fmin_eq, fmax_eq]
  rw [max_eq_left h1, min_eq_left h2]

theorem clampTo_idem {g : List α} (hg : GoodGrid g) (v : α) : clampTo g (clampTo g v) = clampTo g v :=
  clampTo_of_inAxis (clampTo_inAxis hg v)

/-- below the grid the clamp is the first grid value, above it the last -/
theorem clampTo_below {g : List α} (hg : GoodGrid g) (v lo : α) (h0 : g[0]? = some lo) (h : v ≤ lo) :
    clampTo g v = lo := by
  obtain ⟨lo', hi, h0', hh, hl, hlt⟩ := good_first_last hg
  rw [h0] at h0'; cases h0'
  simp only [clampTo, hh, hl, fmin_eq, fmax_eq]
  rw [max_eq_right h, min_eq_left (le_of_lt hlt)]

theorem clampTo_above {g : List α} (hg : GoodGrid g) (v hi : α) (hl : g.getLast? = some hi) (h : hi ≤ v) :
    clampTo g v = hi := by
  obtain ⟨lo, hi', h0, hh, hl', hlt⟩ := good_first_last hg
  rw [hl] at hl'; cases hl'
  simp only [clampTo, hh, hl, fmin_eq, fmax_eq]
  exact min_eq_right (le_trans h (le_max_left _ _))

theorem distance_factor_id : ∀ u : DistanceUnit, DistanceUnit.factor u u = .id := by
  intro u; cases u <;> rfl
theorem speed_factor_id : ∀ u : SpeedUnit, SpeedUnit.factor u u = .id := by
  intro u; cases u <;> rfl
theorem grade_factor_id : ∀ u : GradeUnit, GradeUnit.factor u u = .id := by
  intro u; cases u <;> rfl

theorem gridValue_eq (ru : EnergyRateUnit) (u : α) : gridValue ru u = u := by
  simp [gridValue, createEnergy, DistanceUnit.convert, distance_factor_id, Factor.apply]

theorem speed_convert_self (u : SpeedUnit) (x : α) : u.convert u x = x := by
  simp [SpeedUnit.convert, speed_factor_id, Factor.apply]
theorem grade_convert_self (u : GradeUnit) (x : α) : u.convert u x = x := by
  simp [GradeUnit.convert, grade_factor_id, Factor.apply]

/-- the table `new` fills -/
def sgTable (underlying : α → α → α) (ru : EnergyRateUnit) (xs ys : List α) : List (List α) :=
  xs.map fun s => ys.map fun g => gridValue ru (underlying s g)

theorem sgTable_rect (underlying : α → α → α) (ru : EnergyRateUnit) (xs ys : List α) :
    Rect2 (sgTable underlying ru xs ys) xs.length ys.length := by
  constructor
  · simp [sgTable]
  · intro r hr
    simp only [sgTable, List.mem_map] at hr
    obtain ⟨s, _, rfl⟩ := hr
    simp

theorem sgTable_F2 (underlying : α → α → α) (ru : EnergyRateUnit) (xs ys : List α) (i j : Nat) (x y : α)
    (hx : xs[i]? = some x) (hy : ys[j]? = some y) :
    F2 (sgTable underlying ru xs ys) i j = underlying x y := by
  simp [F2, sgTable, List.getD_eq_getElem?_getD, List.getElem?_map, hx, hy, gridValue_eq]

/-- everything `new` guarantees about the model it returns -/
theorem new_inv (underlying : α → α → α) (su : SpeedUnit) (s0 s1 : α) (sb : Nat) (gu : GradeUnit)
    (g0 g1 : α) (gb : Nat) (ru : EnergyRateUnit) (m : SpeedGradeModel α)
    (h : SpeedGradeModel.new underlying su s0 s1 sb gu g0 g1 gb ru = .ok m) :
    ∃ xs ys, linspace s0 s1 sb = .ok xs ∧ linspace g0 g1 gb = .ok ys ∧
      m = { interp := .d2 xs ys (sgTable underlying ru xs ys), speedUnit := su, gradeUnit := gu,
            energyRateUnit := ru } ∧
      strictlyIncreasing xs = true ∧ strictlyIncreasing ys = true ∧ xs.length = sb ∧ ys.length = gb ∧
      2 ≤ sb ∧ 2 ≤ gb := by
  unfold SpeedGradeModel.new at h
  cases hx : linspace s0 s1 sb with
  | ok xs =>
    cases hy : linspace g0 g1 gb with
    | ok ys =>
      rw [hx, hy] at h
      simp only [Res.bind] at h
      cases hv : validate2 xs ys (List.map (fun s => List.map (fun g => gridValue ru (underlying s g)) ys) xs) with
      | ok u =>
        rw [hv] at h
        simp only [Res.ok.injEq] at h
        obtain ⟨h1, h2, h3, h4, _⟩ := (validate2_ok_iff _ _ _).mp hv
        have lx := linspace_length _ _ _ _ hx
        have ly := linspace_length _ _ _ _ hy
        exact ⟨xs, ys, rfl, rfl, h.symm, h3, h4, lx, ly, by omega, by omega⟩
      | err e => rw [hv] at h; cases h
      | panic s => rw [hv] at h; cases h
      | diverges => rw [hv] at h; cases h
    | err e => rw [hx, hy] at h; cases h
    | panic s => rw [hx, hy] at h; cases h
    | diverges => rw [hx, hy] at h; cases h
  | err e => rw [hx] at h; cases h
  | panic s => rw [hx] at h; cases h
  | diverges => rw [hx] at h; cases h

/-- `new` succeeds on increasing bounds and at least two bins per axis -/
theorem new_ok (underlying : α → α → α) (su : SpeedUnit) (s0 s1 : α) (sb : Nat) (gu : GradeUnit)
    (g0 g1 : α) (gb : Nat) (ru : EnergyRateUnit) (hs : s0 < s1) (hg : g0 < g1) (hsb : 2 ≤ sb)
    (hgb : 2 ≤ gb) :
    ∃ m, SpeedGradeModel.new underlying su s0 s1 sb gu g0 g1 gb ru = .ok m := by
  obtain ⟨xs, hx, gx, lx, _, _⟩ := linspace_good s0 s1 sb hsb hs
  obtain ⟨ys, hy, gy, ly, _, _⟩ := linspace_good g0 g1 gb hgb hg
  have hv : validate2 xs ys (sgTable underlying ru xs ys) = .ok () := by
    rw [validate2_ok_iff]
    refine ⟨?_, ?_, gx.1, gy.1, sgTable_rect _ _ _ _⟩
    · omega
    · omega
  refine ⟨{ interp := .d2 xs ys (sgTable underlying ru xs ys), speedUnit := su, gradeUnit := gu,
            energyRateUnit := ru }, ?_⟩
  unfold SpeedGradeModel.new
  rw [hx, hy]
  simp only [Res.bind]
  unfold sgTable at hv
  rw [hv]
  rfl

/-- `predict` on a model over good grids: convert, clamp, and the bilinear formula on the selected cell -/
theorem predict_spec (xs ys : List α) (f : List (List α)) (su : SpeedUnit) (gu : GradeUnit)
    (ru : EnergyRateUnit) (hx : GoodGrid xs) (hy : GoodGrid ys) (hr : Rect2 f xs.length ys.length)
    (speed : α) (qsu : SpeedUnit) (grade : α) (qgu : GradeUnit) :
    ∃ lx dx ly dy, Sel xs (clampTo xs (qsu.convert su speed)) lx dx ∧
      Sel ys (clampTo ys (qgu.convert gu grade)) ly dy ∧
      SpeedGradeModel.predict { interp := .d2 xs ys f, speedUnit := su, gradeUnit := gu, energyRateUnit := ru }
        speed qsu grade qgu = .ok (bil (F2 f) lx dx ly dy, ru) := by
  have ix := clampTo_inAxis hx (qsu.convert su speed)
  have iy := clampTo_inAxis hy (qgu.convert gu grade)
  obtain ⟨lx, dx, ly, dy, _, _, sx, sy, hl⟩ := linear2_ok xs ys f _ _ hx hy hr ix iy
  refine ⟨lx, dx, ly, dy, sx, sy, ?_⟩
  obtain ⟨lox, hix, _, hhx, hlx, _⟩ := good_first_last hx
  obtain ⟨loy, hiy, _, hhy, hly, _⟩ := good_first_last hy
  have ex : clampTo xs (qsu.convert su speed) = fmin (fmax (qsu.convert su speed) lox) hix := by
    simp [clampTo, hhx, hlx]
  have ey : clampTo ys (qgu.convert gu grade) = fmin (fmax (qgu.convert gu grade) loy) hiy := by
    simp [clampTo, hhy, hly]
  unfold SpeedGradeModel.predict
  simp only [hhx, hlx, hhy, hly]
  rw [← ex, ← ey, interpolate_d2_in xs ys f _ _ ix iy, hl]
  simp [Res.bind]

/-! ### 1-D -/

theorem position_some {β : Type} (q : β → Bool) : ∀ (xs : List β) (i : Nat), position q xs = some i →
    ∃ v, xs[i]? = some v ∧ q v = true := by
  intro xs
  induction xs with
  | nil => intro i h; cases h
  | cons a t ih =>
    intro i h
    unfold position at h
    by_cases hq : q a = true
    · rw [if_pos hq] at h; cases h; exact ⟨a, rfl, hq⟩
    · rw [if_neg hq] at h
      cases hp : position q t with
      | none => rw [hp] at h; cases h
      | some k =>
        rw [hp] at h
        simp only [Option.map_some, Option.some.injEq] at h
        subst h
        obtain ⟨v, hv, hqv⟩ := ih k hp
        exact ⟨v, by simpa using hv, hqv⟩

theorem position_none {β : Type} (q : β → Bool) : ∀ (xs : List β), position q xs = none →
    ∀ (i : Nat) (v : β), xs[i]? = some v → q v = false := by
  intro xs
  induction xs with
  | nil => intro _ i v h; simp at h
  | cons a t ih =>
    intro h i v hv
    unfold position at h
    by_cases hq : q a = true
    · rw [if_pos hq] at h; cases h
    · rw [if_neg hq] at h
      have hp : position q t = none := by
        cases hp : position q t with
        | none => rfl
        | some k => rw [hp] at h; cases h
      cases i with
      | zero =>
        simp only [List.getElem?_cons_zero, Option.some.injEq] at hv
        subst hv; simpa using hq
      | succ i =>
        simp only [List.getElem?_cons_succ] at hv
        exact ih hp i v hv

def F1 (f : List α) (i : Nat) : α := f.getD i 0

theorem idx1_ok {f : List α} {i : Nat} (hi : i < f.length) : idx f i = .ok (F1 f i) := by
  simp [idx, F1, List.getElem?_eq_getElem hi, List.getD_eq_getElem?_getD]

/-- `Interp1D::linear` on a good grid, in range: the interpolation formula on the selected cell
(also when the point is a grid point and the code returns the stored value directly) -/
theorem linear1_ok (x f : List α) (p : α) (hx : GoodGrid x) (hf : x.length = f.length)
    (h : InAxis x p) :
    ∃ l d, cellOf x p = .ok (l, d) ∧ Sel x p l d ∧ linear1 x f p = .ok (lerp (F1 f l) (F1 f (l + 1)) d) := by
  obtain ⟨l, d, hc, sl⟩ := sel_of_inAxis hx h
  refine ⟨l, d, hc, sl, ?_⟩
  have hl := sl.lt_length
  unfold linear1
  cases hp : position (fun v => eqv v p) x with
  | some i =>
    obtain ⟨v, hv, hq⟩ := position_some _ x i hp
    simp only [eqv_iff] at hq
    subst hq
    have hi : i < f.length := by
      rw [← hf]
      by_contra hn
      rw [List.getElem?_eq_none (by omega)] at hv; cases hv
    simp only
    rw [idx1_ok hi, sl.on_grid hx.1 i hv (F1 f)]
  | none =>
    simp [hc, Res.bind, idx1_ok (show l < f.length by omega), idx1_ok (show l + 1 < f.length by omega)]

theorem interpolate_d1_in (x f : List α) (p : α) (h : InAxis x p) :
    Interpolator.interpolate (.d1 x f) [p] .linear = linear1 x f p := by
  simp [Interpolator.interpolate, Interpolator.validateInputs, Interpolator.ndim, idx, Res.bind,
    inAxis_true h]

theorem interpolate_d1_out (x f : List α) (p : α) (s : Strategy) (hx : x ≠ []) (h : ¬ InAxis x p) :
    Interpolator.interpolate (.d1 x f) [p] s = .err .outside := by
  simp [Interpolator.interpolate, Interpolator.validateInputs, Interpolator.ndim, idx, Res.bind,
    inAxis_false hx h]

/-! ### 3-D -/

def F3 (f : List (List (List α))) (i j k : Nat) : α := ((f.getD i []).getD j []).getD k 0

def Rect3 (f : List (List (List α))) (nx ny nz : Nat) : Prop := f.length = nx ∧ ∀ r ∈ f, Rect2 r ny nz

theorem idx3_ok {f : List (List (List α))} {nx ny nz i j k : Nat} (hr : Rect3 f nx ny nz) (hi : i < nx)
    (hj : j < ny) (hk : k < nz) : idx3 f i j k = .ok (F3 f i j k) := by
  obtain ⟨h1, h2⟩ := hr
  have hi' : i < f.length := by omega
  have hrow : Rect2 (f[i]'hi') ny nz := h2 _ (List.getElem_mem hi')
  have := idx2_ok hrow hj hk
  simp only [idx3, idx, List.getElem?_eq_getElem hi', Res.bind, this]
  simp [F3, F2, List.getD_eq_getElem?_getD, List.getElem?_eq_getElem hi']

/-- the trilinear formula in the code's operation order: x first, then y, then z -/
def tril (F : Nat → Nat → Nat → α) (lx : Nat) (dx : α) (ly : Nat) (dy : α) (lz : Nat) (dz : α) : α :=
  lerp (bil (fun i j => F i j lz) lx dx ly dy) (bil (fun i j => F i j (lz + 1)) lx dx ly dy) dz

theorem linear3_ok (x y z : List α) (f : List (List (List α))) (p0 p1 p2 : α) (hx : GoodGrid x)
    (hy : GoodGrid y) (hz : GoodGrid z) (hr : Rect3 f x.length y.length z.length)
    (h0 : InAxis x p0) (h1 : InAxis y p1) (h2 : InAxis z p2) :
    ∃ lx dx ly dy lz dz, cellOf x p0 = .ok (lx, dx) ∧ cellOf y p1 = .ok (ly, dy) ∧
      cellOf z p2 = .ok (lz, dz) ∧ Sel x p0 lx dx ∧ Sel y p1 ly dy ∧ Sel z p2 lz dz ∧
      linear3 x y z f [p0, p1, p2] = .ok (tril (F3 f) lx dx ly dy lz dz) := by
  obtain ⟨lx, dx, hcx, sx⟩ := sel_of_inAxis hx h0
  obtain ⟨ly, dy, hcy, sy⟩ := sel_of_inAxis hy h1
  obtain ⟨lz, dz, hcz, sz⟩ := sel_of_inAxis hz h2
  refine ⟨lx, dx, ly, dy, lz, dz, hcx, hcy, hcz, sx, sy, sz, ?_⟩
  have bx := sx.lt_length
  have by' := sy.lt_length
  have bz := sz.lt_length
  simp [linear3, idx, Res.bind, hcx, hcy, hcz, tril, bil,
    idx3_ok hr (show lx < x.length by omega) (show ly < y.length by omega) (show lz < z.length by omega),
    idx3_ok hr (show lx + 1 < x.length by omega) (show ly < y.length by omega) (show lz < z.length by omega),
    idx3_ok hr (show lx < x.length by omega) (show ly + 1 < y.length by omega) (show lz < z.length by omega),
    idx3_ok hr (show lx + 1 < x.length by omega) (show ly + 1 < y.length by omega) (show lz < z.length by omega),
    idx3_ok hr (show lx < x.length by omega) (show ly < y.length by omega) (show lz + 1 < z.length by omega),
    idx3_ok hr (show lx + 1 < x.length by omega) (show ly < y.length by omega) (show lz + 1 < z.length by omega),
    idx3_ok hr (show lx < x.length by omega) (show ly + 1 < y.length by omega) (show lz + 1 < z.length by omega),
    idx3_ok hr (show lx + 1 < x.length by omega) (show ly + 1 < y.length by omega) (show lz + 1 < z.length by omega)]

theorem interpolate_d3_in (x y z : List α) (f : List (List (List α))) (p0 p1 p2 : α)
    (h0 : InAxis x p0) (h1 : InAxis y p1) (h2 : InAxis z p2) :
    Interpolator.interpolate (.d3 x y z f) [p0, p1, p2] .linear = linear3 x y z f [p0, p1, p2] := by
  simp [Interpolator.interpolate, Interpolator.validateInputs, Interpolator.ndim, idx, Res.bind,
    inAxis_true h0, inAxis_true h1, inAxis_true h2]

theorem interpolate_d3_out (x y z : List α) (f : List (List (List α))) (p0 p1 p2 : α) (s : Strategy)
    (hx : x ≠ []) (hy : y ≠ []) (hz : z ≠ []) (h : ¬ (InAxis x p0 ∧ InAxis y p1 ∧ InAxis z p2)) :
    Interpolator.interpolate (.d3 x y z f) [p0, p1, p2] s = .err .outside := by
  by_cases h0 : InAxis x p0
  · by_cases h1 : InAxis y p1
    · have h2 : ¬ InAxis z p2 := fun h2 => h ⟨h0, h1, h2⟩
      simp [Interpolator.interpolate, Interpolator.validateInputs, Interpolator.ndim, idx, Res.bind,
        inAxis_true h0, inAxis_true h1, inAxis_false hz h2]
    · simp [Interpolator.interpolate, Interpolator.validateInputs, Interpolator.ndim, idx, Res.bind,
        inAxis_true h0, inAxis_false hy h1]
  · simp [Interpolator.interpolate, Interpolator.validateInputs, Interpolator.ndim, idx, Res.bind,
      inAxis_false hx h0]

/-! ### consequences for the bilinear / trilinear formulas -/

theorem bil_between (F : Nat → Nat → α) {x y : List α} {p0 p1 : α} {lx ly : Nat} {dx dy : α}
    (sx : Sel x p0 lx dx) (sy : Sel y p1 ly dy) :
    min (min (F lx ly) (F (lx + 1) ly)) (min (F lx (ly + 1)) (F (lx + 1) (ly + 1))) ≤ bil F lx dx ly dy ∧
      bil F lx dx ly dy ≤ max (max (F lx ly) (F (lx + 1) ly)) (max (F lx (ly + 1)) (F (lx + 1) (ly + 1))) := by
  obtain ⟨hx0, hx1⟩ := sx.range
  obtain ⟨hy0, hy1⟩ := sy.range
  have a := lerp_between (F lx ly) (F (lx + 1) ly) dx hx0 hx1
  have b := lerp_between (F lx (ly + 1)) (F (lx + 1) (ly + 1)) dx hx0 hx1
  have c := lerp_between (lerp (F lx ly) (F (lx + 1) ly) dx) (lerp (F lx (ly + 1)) (F (lx + 1) (ly + 1)) dx) dy hy0 hy1
  unfold bil
  exact ⟨le_trans (min_le_min a.1 b.1) c.1, le_trans c.2 (max_le_max a.2 b.2)⟩

theorem bil_on_grid (F : Nat → Nat → α) {x y : List α} {p0 p1 : α} {lx ly : Nat} {dx dy : α}
    (sx : Sel x p0 lx dx) (sy : Sel y p1 ly dy) (hx : strictlyIncreasing x = true)
    (hy : strictlyIncreasing y = true) (i j : Nat) (hi : x[i]? = some p0) (hj : y[j]? = some p1) :
    bil F lx dx ly dy = F i j := by
  unfold bil
  rw [sy.on_grid hy j hj (fun j => lerp (F lx j) (F (lx + 1) j) dx)]
  exact sx.on_grid hx i hi (fun i => F i j)

theorem bil_indep (F : Nat → Nat → α) {x y : List α} {p0 p1 : α} {lx ly : Nat} {dx dy : α}
    (sx : Sel x p0 lx dx) (sy : Sel y p1 ly dy) (hx : strictlyIncreasing x = true)
    (hy : strictlyIncreasing y = true) (lx' ly' : Nat) (ax bx ay by' : α)
    (hax : x[lx']? = some ax) (hbx : x[lx' + 1]? = some bx) (hay : y[ly']? = some ay)
    (hby : y[ly' + 1]? = some by') (h1 : ax ≤ p0) (h2 : p0 ≤ bx) (h3 : ay ≤ p1) (h4 : p1 ≤ by') :
    bil F lx dx ly dy = bil F lx' ((p0 - ax) / (bx - ax)) ly' ((p1 - ay) / (by' - ay)) := by
  unfold bil
  rw [sy.indep hy ly' ay by' hay hby h3 h4 (fun j => lerp (F lx j) (F (lx + 1) j) dx)]
  rw [sx.indep hx lx' ax bx hax hbx h1 h2 (fun i => F i ly'),
    sx.indep hx lx' ax bx hax hbx h1 h2 (fun i => F i (ly' + 1))]

theorem bil_affine (F : Nat → Nat → α) {x y : List α} {p0 p1 : α} {lx ly : Nat} {dx dy : α}
    (sx : Sel x p0 lx dx) (sy : Sel y p1 ly dy) (c0 c1 c2 c3 : α)
    (hF : ∀ i j xi yj, x[i]? = some xi → y[j]? = some yj → F i j = c0 + c1 * xi + c2 * yj + c3 * xi * yj) :
    bil F lx dx ly dy = c0 + c1 * p0 + c2 * p1 + c3 * p0 * p1 := by
  unfold bil
  rw [sy.affine (fun j => lerp (F lx j) (F (lx + 1) j) dx) (c2 + c3 * p0) (c0 + c1 * p0)]
  · ring
  · intro j yj hj
    rw [sx.affine (fun i => F i j) (c1 + c3 * yj) (c0 + c2 * yj)]
    · ring
    · intro i xi hi
      rw [hF i j xi yj hi hj]; ring

theorem tril_affine (F : Nat → Nat → Nat → α) {x y z : List α} {p0 p1 p2 : α} {lx ly lz : Nat}
    {dx dy dz : α} (sx : Sel x p0 lx dx) (sy : Sel y p1 ly dy) (sz : Sel z p2 lz dz)
    (c0 c1 c2 c3 c4 c5 c6 c7 : α)
    (hF : ∀ i j k xi yj zk, x[i]? = some xi → y[j]? = some yj → z[k]? = some zk →
      F i j k = c0 + c1 * xi + c2 * yj + c3 * xi * yj + c4 * zk + c5 * xi * zk + c6 * yj * zk
        + c7 * xi * yj * zk) :
    tril F lx dx ly dy lz dz = c0 + c1 * p0 + c2 * p1 + c3 * p0 * p1 + c4 * p2 + c5 * p0 * p2
      + c6 * p1 * p2 + c7 * p0 * p1 * p2 := by
  unfold tril
  rw [sz.affine (fun k => bil (fun i j => F i j k) lx dx ly dy)
    (c4 + c5 * p0 + c6 * p1 + c7 * p0 * p1) (c0 + c1 * p0 + c2 * p1 + c3 * p0 * p1)]
  · ring
  · intro k zk hk
    rw [bil_affine (fun i j => F i j k) sx sy (c0 + c4 * zk) (c1 + c5 * zk) (c2 + c6 * zk) (c3 + c7 * zk)]
    · ring
    · intro i j xi yj hi hj
      rw [hF i j k xi yj zk hi hj hk]; ring

/-! ### N-D -/

/-- the sequential interpolation over all dimensions as a pure function: reversed list of
`(lower, diff)`, indices consed onto the suffix (same operation order as `ndEvalRev`) -/
def ndValRev (G : List Nat → α) : List (Nat × α) → List Nat → α
  | [], suffix => G suffix
  | (l, d) :: cs, suffix => lerp (ndValRev G cs (l :: suffix)) (ndValRev G cs ((l + 1) :: suffix)) d

/-- a model cell against the `(lower, diff, extent)` of its dimension: either it is that cell, or the
code fixed the index because the point is on a grid line — where the full formula gives the same -/
def CellRel (c : Cell α) (t : Nat × α × Nat) : Prop :=
  t.1 + 1 < t.2.2 ∧
    (c = .cell t.1 t.2.1 ∨
      ∃ pos, c = .fixed pos ∧ pos < t.2.2 ∧ ∀ v : Nat → α, lerp (v t.1) (v (t.1 + 1)) t.2.1 = v pos)

theorem ndEvalRev_eq (get : List Nat → Res α) (G : List Nat → α) :
    ∀ (rc : List (Cell α)) (rt : List (Nat × α × Nat)), List.Forall₂ CellRel rc rt →
    ∀ (suffix ssh : List Nat), List.Forall₂ (· < ·) suffix ssh →
      (∀ ix, List.Forall₂ (· < ·) ix ((rt.map (·.2.2)).reverse ++ ssh) → get ix = .ok (G ix)) →
      ndEvalRev get rc suffix = .ok (ndValRev G (rt.map (fun t => (t.1, t.2.1))) suffix) := by
  intro rc rt h
  induction h with
  | nil =>
    intro suffix ssh hs hget
    simpa [ndEvalRev, ndValRev] using hget suffix (by simpa using hs)
  | @cons c t rc' rt' hct _ ih =>
    intro suffix ssh hs hget
    obtain ⟨l, d, s⟩ := t
    have hget' : ∀ ix, List.Forall₂ (· < ·) ix ((rt'.map (·.2.2)).reverse ++ (s :: ssh)) →
        get ix = .ok (G ix) := by
      intro ix hix
      apply hget
      simpa [List.map_cons, List.reverse_cons, List.append_assoc] using hix
    obtain ⟨hl, hc⟩ := hct
    simp only at hl hc
    rcases hc with rfl | ⟨pos, rfl, hpos, hv⟩
    · simp only [ndEvalRev, List.map_cons, ndValRev]
      rw [ih (l :: suffix) (s :: ssh) (List.Forall₂.cons (by omega) hs) hget',
        ih ((l + 1) :: suffix) (s :: ssh) (List.Forall₂.cons hl hs) hget']
      simp [Res.bind]
    · simp only [ndEvalRev, List.map_cons, ndValRev]
      rw [ih (pos :: suffix) (s :: ssh) (List.Forall₂.cons hpos hs) hget']
      congr 1
      exact (hv (fun i => ndValRev G (rt'.map (fun t => (t.1, t.2.1))) (i :: suffix))).symm

theorem isNan_false (v : α) : isNan v = false := by
  simp [isNan]

/-- in a linear order no value is NaN: the guard of the first pass never fires -/
theorem ndAnyNaN_eq (get : List Nat → Res α) (G : List Nat → α) :
    ∀ (rc : List (Cell α)) (rt : List (Nat × α × Nat)), List.Forall₂ CellRel rc rt →
    ∀ (suffix ssh : List Nat), List.Forall₂ (· < ·) suffix ssh →
      (∀ ix, List.Forall₂ (· < ·) ix ((rt.map (·.2.2)).reverse ++ ssh) → get ix = .ok (G ix)) →
      ndAnyNaN get rc suffix = .ok false := by
  intro rc rt h
  induction h with
  | nil =>
    intro suffix ssh hs hget
    have := hget suffix (by simpa using hs)
    simp [ndAnyNaN, this, Res.bind, isNan_false]
  | @cons c t rc' rt' hct _ ih =>
    intro suffix ssh hs hget
    obtain ⟨l, d, s⟩ := t
    have hget' : ∀ ix, List.Forall₂ (· < ·) ix ((rt'.map (·.2.2)).reverse ++ (s :: ssh)) →
        get ix = .ok (G ix) := by
      intro ix hix
      apply hget
      simpa [List.map_cons, List.reverse_cons, List.append_assoc] using hix
    obtain ⟨hl, hc⟩ := hct
    simp only at hl hc
    rcases hc with rfl | ⟨pos, rfl, hpos, hv⟩
    · simp only [ndAnyNaN]
      rw [ih (l :: suffix) (s :: ssh) (List.Forall₂.cons (by omega) hs) hget',
        ih ((l + 1) :: suffix) (s :: ssh) (List.Forall₂.cons hl hs) hget']
      simp [Res.bind]
    · simp only [ndAnyNaN]
      exact ih (pos :: suffix) (s :: ssh) (List.Forall₂.cons hpos hs) hget'

/-- what `cellOf` selects (a default where it fails) -/
def selOf (g : List α) (p : α) : Nat × α :=
  match cellOf g p with
  | .ok c => c
  | _ => (0, 0)

/-- per dimension: lower index, fraction, extent -/
def triples : List (List α) → List α → List Nat → List (Nat × α × Nat)
  | g :: gs, p :: ps, s :: ss => ((selOf g p).1, (selOf g p).2, s) :: triples gs ps ss
  | _, _, _ => []

/-- plan entry against model cell -/
def PC (pl : Plan α) (c : Cell α) : Prop :=
  (∃ pos, pl = .fixed pos ∧ c = .fixed pos) ∨ (∃ g p l d, pl = .free g (some p) ∧ c = .cell l d)

theorem plan_cells_spec : ∀ (grid : List (List α)) (shape : List Nat) (pt : List α),
    List.Forall₂ (fun g s => GoodGrid g ∧ g.length = s) grid shape → List.Forall₂ InAxis grid pt →
    ∃ plan cells, ndPlan grid.length grid pt = .ok plan ∧ ndCells plan = .ok cells ∧
      List.Forall₂ CellRel cells (triples grid pt shape) ∧ ndSliceOk cells shape = true ∧
      List.Forall₂ PC plan cells ∧ List.Forall₂ (fun (_ : Plan α) s => 2 ≤ s) plan shape := by
  intro grid shape pt hgs
  induction hgs generalizing pt with
  | nil =>
    intro _
    exact ⟨[], [], rfl, rfl, by simp [triples], rfl, List.Forall₂.nil, List.Forall₂.nil⟩
  | @cons g s gs ss hg _ ih =>
    intro hp
    cases hp with
    | @cons _ p _ ps hin hps =>
      obtain ⟨plan, cells, h1, h2, h3, h4, h5, h6⟩ := ih ps hps
      obtain ⟨gg, hlen⟩ := hg
      obtain ⟨l, d, hc, sel⟩ := sel_of_inAxis gg hin
      have hsel : selOf g p = (l, d) := by simp [selOf, hc]
      have hne : g.isEmpty = false := by
        cases g with
        | nil => have := gg.2; simp at this
        | cons _ _ => rfl
      have hl := sel.lt_length
      cases hpos : position (fun v => eqv v p) g with
      | some pos =>
        obtain ⟨v, hv, hq⟩ := position_some _ g pos hpos
        simp only [eqv_iff] at hq
        subst hq
        have hposlt : pos < g.length := by
          by_contra hn
          rw [List.getElem?_eq_none (by omega)] at hv; cases hv
        refine ⟨.fixed pos :: plan, .fixed pos :: cells, ?_, ?_, ?_, ?_, ?_, ?_⟩
        · simp [ndPlan, hne, hpos, Res.bind, h1]
        · simp [ndCells, h2, Res.bind]
        · simp only [triples, hsel]
          refine List.Forall₂.cons ⟨by simp only; omega, Or.inr ⟨pos, rfl, by simp only; omega, ?_⟩⟩ h3
          intro w
          exact sel.on_grid gg.1 pos hv w
        · simp only [ndSliceOk, h4, Bool.and_true, decide_eq_true_eq]; omega
        · exact List.Forall₂.cons (Or.inl ⟨pos, rfl, rfl⟩) h5
        · exact List.Forall₂.cons (by have := gg.2; omega) h6
      | none =>
        refine ⟨.free g (some p) :: plan, .cell l d :: cells, ?_, ?_, ?_, ?_, ?_, ?_⟩
        · simp [ndPlan, hne, hpos, Res.bind, h1]
        · simp [ndCells, h2, hc, Res.bind]
        · simp only [triples, hsel]
          exact List.Forall₂.cons ⟨by simp only; omega, Or.inl rfl⟩ h3
        · simp only [ndSliceOk, h4, Bool.and_true, decide_eq_true_eq]; omega
        · exact List.Forall₂.cons (Or.inr ⟨g, p, l, d, rfl, rfl⟩) h5
        · exact List.Forall₂.cons (by have := gg.2; omega) h6

theorem viewLen_one : ∀ (plan : List (Plan α)) (shape : List Nat),
    List.Forall₂ (fun (_ : Plan α) s => 2 ≤ s) plan shape → ndViewLen plan shape = 1 →
    ∀ pl ∈ plan, ∃ pos, pl = .fixed pos := by
  intro plan shape h
  induction h with
  | nil => intro _ pl hpl; cases hpl
  | @cons pl s plan' shape' hs _ ih =>
    intro hv q hq
    cases pl with
    | fixed pos =>
      simp only [ndViewLen] at hv
      rcases List.mem_cons.mp hq with rfl | hq'
      · exact ⟨pos, rfl⟩
      · exact ih hv q hq'
    | free g p =>
      simp only [ndViewLen] at hv
      have := Nat.eq_one_of_mul_eq_one_right hv
      omega

theorem ndEvalRev_snoc_fixed (get : List Nat → Res α) (pos : Nat) : ∀ (rc : List (Cell α)) (suffix : List Nat),
    ndEvalRev get (rc ++ [.fixed pos]) suffix = ndEvalRev (fun ix => get (pos :: ix)) rc suffix := by
  intro rc
  induction rc with
  | nil => intro suffix; simp [ndEvalRev]
  | cons c rc' ih =>
    intro suffix
    cases c with
    | fixed q => simp only [List.cons_append, ndEvalRev]; exact ih _
    | cell l d => simp only [List.cons_append, ndEvalRev]; rw [ih, ih]

theorem allFixed_eval : ∀ (plan : List (Plan α)) (cells : List (Cell α)), List.Forall₂ PC plan cells →
    (∀ pl ∈ plan, ∃ pos, pl = .fixed pos) → ∀ (get : List Nat → Res α) (suffix : List Nat),
    ndEvalRev get cells.reverse suffix = get (ndFirstIndex plan ++ suffix) := by
  intro plan cells h
  induction h with
  | nil => intro _ get suffix; simp [ndEvalRev, ndFirstIndex]
  | @cons pl c plan' cells' hpc _ ih =>
    intro hall get suffix
    obtain ⟨pos, rfl⟩ := hall pl (List.mem_cons_self)
    rcases hpc with ⟨q, hq, rfl⟩ | ⟨_, _, _, _, hq, _⟩
    · cases hq
      rw [List.reverse_cons, ndEvalRev_snoc_fixed,
        ih (fun pl hpl => hall pl (List.mem_cons_of_mem _ hpl))]
      simp [ndFirstIndex]
    · cases hq

/-- an N-D interpolator the property quantifies over: every axis a good grid of the table's extent,
`G` the table -/
structure ValidND (m : ND α) (G : List Nat → α) : Prop where
  grids : List.Forall₂ (fun g s => GoodGrid g ∧ g.length = s) m.grid m.shape
  get_ok : ∀ ix, List.Forall₂ (· < ·) ix m.shape → m.get ix = .ok (G ix)

theorem forall₂_mem_right {β γ : Type} {R : β → γ → Prop} {l₁ : List β} {l₂ : List γ}
    (h : List.Forall₂ R l₁ l₂) {b : γ} (hb : b ∈ l₂) : ∃ a ∈ l₁, R a b := by
  induction h with
  | nil => cases hb
  | @cons a c l₁' l₂' hac _ ih =>
    rcases List.mem_cons.mp hb with rfl | hb'
    · exact ⟨a, List.mem_cons_self, hac⟩
    · obtain ⟨a', ha', hr⟩ := ih hb'
      exact ⟨a', List.mem_cons_of_mem _ ha', hr⟩

theorem forall₂_mem_left {β γ : Type} {R : β → γ → Prop} {l₁ : List β} {l₂ : List γ}
    (h : List.Forall₂ R l₁ l₂) {a : β} (ha : a ∈ l₁) : ∃ b ∈ l₂, R a b := by
  induction h with
  | nil => cases ha
  | @cons a' c l₁' l₂' hac _ ih =>
    rcases List.mem_cons.mp ha with rfl | ha'
    · exact ⟨c, List.mem_cons_self, hac⟩
    · obtain ⟨b, hb, hr⟩ := ih ha'
      exact ⟨b, List.mem_cons_of_mem _ hb, hr⟩

theorem prod_ge_two : ∀ (shape : List Nat), (∀ s ∈ shape, 2 ≤ s) → shape ≠ [] → 2 ≤ prod shape := by
  intro shape
  induction shape with
  | nil => intro _ h; exact absurd rfl h
  | cons s ss ih =>
    intro h _
    have hs : 2 ≤ s := h s (List.mem_cons_self)
    cases ss with
    | nil => simp [prod]; exact hs
    | cons t ts =>
      have := ih (fun x hx => h x (List.mem_cons_of_mem _ hx)) (by simp)
      simp only [prod] at this ⊢
      nlinarith

theorem ValidND.ndim_eq {m : ND α} {G : List Nat → α} (hv : ValidND m G) : m.ndim = m.shape.length := by
  unfold ND.ndim
  by_cases he : m.shape = []
  · simp [he, prod]
  · have hall : ∀ s ∈ m.shape, 2 ≤ s := by
      intro s hs
      obtain ⟨g, _, hg⟩ := forall₂_mem_right hv.grids hs
      have := hg.1.2
      omega
    have := prod_ge_two m.shape hall he
    rw [if_neg (by omega)]

theorem triples_shape : ∀ (grid : List (List α)) (shape : List Nat) (pt : List α),
    grid.length = shape.length → grid.length = pt.length →
    (triples grid pt shape).map (·.2.2) = shape := by
  intro grid
  induction grid with
  | nil => intro shape pt h1 _; cases shape with
    | nil => simp [triples]
    | cons _ _ => simp at h1
  | cons g gs ih =>
    intro shape pt h1 h2
    cases shape with
    | nil => simp at h1
    | cons s ss =>
      cases pt with
      | nil => simp at h2
      | cons p ps =>
        simp only [triples, List.map_cons, List.cons.injEq, true_and]
        exact ih ss ps (by simpa using h1) (by simpa using h2)

/-- `InterpND::linear` on a valid interpolator and an in-range point: the full sequential
interpolation over all dimensions (the grid-coincident shortcuts of the code give the same value) -/
theorem linearN_ok (m : ND α) (G : List Nat → α) (pt : List α) (hv : ValidND m G)
    (hp : List.Forall₂ InAxis m.grid pt) :
    linearN m pt =
      .ok (ndValRev G ((triples m.grid pt m.shape).map (fun t => (t.1, t.2.1))).reverse []) := by
  obtain ⟨plan, cells, h1, h2, h3, h4, h5, h6⟩ := plan_cells_spec m.grid m.shape pt hv.grids hp
  have hlen : m.grid.length = m.shape.length := hv.grids.length_eq
  have hlen2 : m.grid.length = pt.length := hp.length_eq
  have heval : ndEvalRev m.get cells.reverse [] =
      .ok (ndValRev G ((triples m.grid pt m.shape).map (fun t => (t.1, t.2.1))).reverse []) := by
    have := ndEvalRev_eq m.get G cells.reverse (triples m.grid pt m.shape).reverse
      (List.rel_reverse h3) [] [] List.Forall₂.nil (by
        intro ix hix
        apply hv.get_ok
        rw [List.map_reverse, List.reverse_reverse, List.append_nil,
          triples_shape m.grid m.shape pt hlen hlen2] at hix
        exact hix)
    rw [this, List.map_reverse]
  have hplen : plan.length = m.shape.length := h6.length_eq
  unfold linearN
  simp only
  rw [hv.ndim_eq, ← hlen, h1]
  simp only [Res.bind]
  by_cases hvl : ndViewLen plan m.shape = 1
  · have hz : m.grid.length - plan.length = 0 := by omega
    rw [if_pos hvl, hz, List.replicate_zero, List.append_nil]
    have := allFixed_eval plan cells h5 (viewLen_one plan m.shape h6 hvl) m.get []
    rw [List.append_nil] at this
    rw [← this, heval]
  · rw [if_neg hvl, h2]
    simp only [h4, Bool.not_true, Bool.false_eq_true, if_false]
    have hnan : ndAnyNaN m.get cells.reverse [] = .ok false :=
      ndAnyNaN_eq m.get G cells.reverse (triples m.grid pt m.shape).reverse
        (List.rel_reverse h3) [] [] List.Forall₂.nil (by
          intro ix hix
          apply hv.get_ok
          rw [List.map_reverse, List.reverse_reverse, List.append_nil,
            triples_shape m.grid m.shape pt hlen hlen2] at hix
          exact hix)
    rw [hnan]
    simp only [Res.bind, Bool.false_eq_true, if_false]
    exact heval

theorem ndInGrid_ok : ∀ (grid : List (List α)) (pt : List α), List.Forall₂ InAxis grid pt →
    ndInGrid grid.length grid pt = .ok () := by
  intro grid pt h
  induction h with
  | nil => rfl
  | @cons g p gs ps hgp _ ih =>
    simp [ndInGrid, inAxis_true hgp, Res.bind, ih]

theorem ndInGrid_err : ∀ (grid : List (List α)) (pt : List α), (∀ g ∈ grid, g ≠ []) →
    grid.length = pt.length → ¬ List.Forall₂ InAxis grid pt →
    ndInGrid grid.length grid pt = .err .outside := by
  intro grid
  induction grid with
  | nil =>
    intro pt _ hl h
    cases pt with
    | nil => exact absurd List.Forall₂.nil h
    | cons _ _ => simp at hl
  | cons g gs ih =>
    intro pt hne hl h
    cases pt with
    | nil => simp at hl
    | cons p ps =>
      by_cases hgp : InAxis g p
      · have : ¬ List.Forall₂ InAxis gs ps := fun h' => h (List.Forall₂.cons hgp h')
        simp [ndInGrid, inAxis_true hgp, Res.bind,
          ih ps (fun g hg => hne g (List.mem_cons_of_mem _ hg)) (by simpa using hl) this]
      · simp [ndInGrid, inAxis_false (hne g (List.mem_cons_self)) hgp, Res.bind]

theorem validateInputs_dn (m : ND α) (pt : List α) :
    Interpolator.validateInputs (.dn m) pt =
      if (m.ndim = 0 ∧ pt.length ≠ 0) ∨ (m.ndim ≠ 0 ∧ pt.length ≠ m.ndim) then .err .pointLen
      else ndInGrid m.ndim m.grid pt := rfl

theorem interpolate_dn_in (m : ND α) (G : List Nat → α) (pt : List α) (hv : ValidND m G)
    (hp : List.Forall₂ InAxis m.grid pt) :
    Interpolator.interpolate (.dn m) pt .linear = linearN m pt := by
  have hn := hv.ndim_eq
  have hlen : m.grid.length = m.shape.length := hv.grids.length_eq
  have hlen2 : m.grid.length = pt.length := hp.length_eq
  have hpl : ¬ ((m.ndim = 0 ∧ pt.length ≠ 0) ∨ (m.ndim ≠ 0 ∧ pt.length ≠ m.ndim)) := by
    rw [hn]; omega
  have hin : ndInGrid m.ndim m.grid pt = .ok () := by
    rw [hn, ← hlen]; exact ndInGrid_ok m.grid pt hp
  unfold Interpolator.interpolate
  rw [validateInputs_dn, if_neg hpl, hin]
  simp [Res.bind]

theorem interpolate_dn_out (m : ND α) (G : List Nat → α) (pt : List α) (s : Strategy) (hv : ValidND m G)
    (hl : pt.length = m.grid.length) (hp : ¬ List.Forall₂ InAxis m.grid pt) :
    Interpolator.interpolate (.dn m) pt s = .err .outside := by
  have hn := hv.ndim_eq
  have hlen : m.grid.length = m.shape.length := hv.grids.length_eq
  have hpl : ¬ ((m.ndim = 0 ∧ pt.length ≠ 0) ∨ (m.ndim ≠ 0 ∧ pt.length ≠ m.ndim)) := by
    rw [hn]; omega
  have hne : ∀ g ∈ m.grid, g ≠ [] := by
    intro g hg
    obtain ⟨s, _, hgs⟩ := forall₂_mem_left hv.grids hg
    intro h
    have := hgs.1.2
    rw [h] at this; simp at this
  have hin : ndInGrid m.ndim m.grid pt = .err .outside := by
    rw [hn, ← hlen]; exact ndInGrid_err m.grid pt hne hl.symm hp
  unfold Interpolator.interpolate
  rw [validateInputs_dn, if_neg hpl, hin]
  simp [Res.bind]

/-! ### row-major tables -/

theorem getElem?_flatten_rect {β : Type} : ∀ (f : List (List β)) (ny : Nat), (∀ r ∈ f, r.length = ny) →
    ∀ (i j : Nat), j < ny → f.flatten[i * ny + j]? = (f[i]?).bind (·[j]?) := by
  intro f
  induction f with
  | nil => intro ny _ i j _; simp
  | cons r rs ih =>
    intro ny h i j hj
    have hr : r.length = ny := h r (List.mem_cons_self)
    cases i with
    | zero =>
      simp only [List.flatten_cons, Nat.zero_mul, Nat.zero_add, List.getElem?_cons_zero, Option.bind_some]
      rw [List.getElem?_append_left (by omega)]
    | succ i =>
      simp only [List.flatten_cons, List.getElem?_cons_succ]
      rw [List.getElem?_append_right (by rw [hr]; nlinarith)]
      have : (i + 1) * ny + j - r.length = i * ny + j := by
        rw [hr, Nat.succ_mul]; omega
      rw [this]
      exact ih ny (fun r hr => h r (List.mem_cons_of_mem _ hr)) i j hj

theorem getFlat_1 (n : Nat) (data : List α) (i : Nat) (hi : i < n) : getFlat [n] data [i] = idx data i := by
  simp [getFlat, flatIndexAux, hi]

theorem getFlat_2 (nx ny : Nat) (data : List α) (i j : Nat) (hi : i < nx) (hj : j < ny) :
    getFlat [nx, ny] data [i, j] = idx data (i * ny + j) := by
  simp [getFlat, flatIndexAux, hi, hj]

theorem getFlat_3 (nx ny nz : Nat) (data : List α) (i j k : Nat) (hi : i < nx) (hj : j < ny) (hk : k < nz) :
    getFlat [nx, ny, nz] data [i, j, k] = idx data ((i * ny + j) * nz + k) := by
  simp [getFlat, flatIndexAux, hi, hj, hk]

theorem idx_flatten_2 {f : List (List α)} {nx ny i j : Nat} (hr : Rect2 f nx ny) (hi : i < nx) (hj : j < ny) :
    idx f.flatten (i * ny + j) = .ok (F2 f i j) := by
  have h := idx2_ok hr hi hj
  have hi' : i < f.length := by rw [hr.1]; exact hi
  have hrow : (f[i]'hi').length = ny := hr.2 _ (List.getElem_mem hi')
  have hj' : j < (f[i]'hi').length := by omega
  unfold idx
  rw [getElem?_flatten_rect f ny hr.2 i j hj]
  simp [F2, List.getElem?_eq_getElem hi', List.getElem?_eq_getElem hj', List.getD_eq_getElem?_getD]

theorem idx_flatten_3 {f : List (List (List α))} {nx ny nz i j k : Nat} (hr : Rect3 f nx ny nz)
    (hi : i < nx) (hj : j < ny) (hk : k < nz) :
    idx f.flatten.flatten ((i * ny + j) * nz + k) = .ok (F3 f i j k) := by
  have hi' : i < f.length := by rw [hr.1]; exact hi
  have hrow : Rect2 (f[i]'hi') ny nz := hr.2 _ (List.getElem_mem hi')
  have hj' : j < (f[i]'hi').length := by rw [hrow.1]; exact hj
  have hrow2 : ((f[i]'hi')[j]'hj').length = nz := hrow.2 _ (List.getElem_mem hj')
  have hk' : k < ((f[i]'hi')[j]'hj').length := by omega
  have hall : ∀ r ∈ f.flatten, r.length = nz := by
    intro r hr'
    obtain ⟨pl, hpl, hrp⟩ := List.mem_flatten.mp hr'
    exact (hr.2 pl hpl).2 r hrp
  have hall2 : ∀ r ∈ f, r.length = ny := fun r hr' => (hr.2 r hr').1
  unfold idx
  rw [getElem?_flatten_rect f.flatten nz hall (i * ny + j) k hk,
    getElem?_flatten_rect f ny hall2 i j hj]
  simp [F3, List.getElem?_eq_getElem hi', List.getElem?_eq_getElem hj', List.getElem?_eq_getElem hk',
    List.getD_eq_getElem?_getD]

/-- the row-major N-D interpolators over the data of a 1-D / 2-D / 3-D interpolator -/
def nd1 (x f : List α) : ND α := { grid := [x], shape := [x.length], get := getFlat [x.length] f }
def nd2 (x y : List α) (f : List (List α)) : ND α :=
  { grid := [x, y], shape := [x.length, y.length], get := getFlat [x.length, y.length] f.flatten }
def nd3 (x y z : List α) (f : List (List (List α))) : ND α :=
  { grid := [x, y, z], shape := [x.length, y.length, z.length],
    get := getFlat [x.length, y.length, z.length] f.flatten.flatten }

def G1 (f : List α) : List Nat → α
  | [i] => F1 f i
  | _ => 0
def G2 (f : List (List α)) : List Nat → α
  | [i, j] => F2 f i j
  | _ => 0
def G3 (f : List (List (List α))) : List Nat → α
  | [i, j, k] => F3 f i j k
  | _ => 0

theorem nd1_valid (x f : List α) (hx : GoodGrid x) (hf : x.length = f.length) : ValidND (nd1 x f) (G1 f) := by
  refine ⟨List.Forall₂.cons ⟨hx, rfl⟩ List.Forall₂.nil, ?_⟩
  intro ix hix
  cases hix with
  | @cons i _ _ _ hi hrest =>
    cases hrest
    simp only [nd1, G1]
    rw [getFlat_1 _ _ _ hi, idx1_ok (by omega)]

theorem nd2_valid (x y : List α) (f : List (List α)) (hx : GoodGrid x) (hy : GoodGrid y)
    (hr : Rect2 f x.length y.length) : ValidND (nd2 x y f) (G2 f) := by
  refine ⟨List.Forall₂.cons ⟨hx, rfl⟩ (List.Forall₂.cons ⟨hy, rfl⟩ List.Forall₂.nil), ?_⟩
  intro ix hix
  cases hix with
  | @cons i _ _ _ hi hrest =>
    cases hrest with
    | @cons j _ _ _ hj hrest2 =>
      cases hrest2
      simp only [nd2, G2]
      rw [getFlat_2 _ _ _ _ _ hi hj, idx_flatten_2 hr hi hj]

theorem nd3_valid (x y z : List α) (f : List (List (List α))) (hx : GoodGrid x) (hy : GoodGrid y)
    (hz : GoodGrid z) (hr : Rect3 f x.length y.length z.length) : ValidND (nd3 x y z f) (G3 f) := by
  refine ⟨List.Forall₂.cons ⟨hx, rfl⟩ (List.Forall₂.cons ⟨hy, rfl⟩ (List.Forall₂.cons ⟨hz, rfl⟩
    List.Forall₂.nil)), ?_⟩
  intro ix hix
  cases hix with
  | @cons i _ _ _ hi hrest =>
    cases hrest with
    | @cons j _ _ _ hj hrest2 =>
      cases hrest2 with
      | @cons k _ _ _ hk hrest3 =>
        cases hrest3
        simp only [nd3, G3]
        rw [getFlat_3 _ _ _ _ _ _ _ hi hj hk, idx_flatten_3 hr hi hj hk]

theorem selOf_eq {g : List α} {p : α} {l : Nat} {d : α} (h : cellOf g p = .ok (l, d)) : selOf g p = (l, d) := by
  simp [selOf, h]

/-! ### multilinear functions in N dimensions -/

/-- grid coordinates of an index list -/
def coords : List (List α) → List Nat → List α
  | g :: gs, i :: is => g.getD i 0 :: coords gs is
  | _, _ => []

/-- `M` is affine in each coordinate separately (a multilinear polynomial) -/
def MultiAffine (M : List α → α) : Prop :=
  ∀ (pre post : List α) (a b t : α),
    M (pre ++ (a * (1 - t) + b * t) :: post) = M (pre ++ a :: post) * (1 - t) + M (pre ++ b :: post) * t

theorem Sel.point_eq {g : List α} {p : α} {l : Nat} {d : α} (h : Sel g p l d) :
    g.getD l 0 * (1 - d) + g.getD (l + 1) 0 * d = p := by
  obtain ⟨a, b, ha, hb, hab, hd, _⟩ := h
  have := lerp_affine a b p 1 0 (ne_of_lt hab)
  rw [lerp_eq] at this
  simp only [List.getD_eq_getElem?_getD, ha, hb, Option.getD_some, hd]
  linarith

theorem ndValRev_multiaffine (M : List α → α) (hM : MultiAffine M) :
    ∀ (rq : List (List α × α × Nat × α)), (∀ q ∈ rq, Sel q.1 q.2.1 q.2.2.1 q.2.2.2) →
    ∀ (sgrid : List (List α)) (suffix : List Nat),
      ndValRev (fun ix => M (coords ((rq.map (·.1)).reverse ++ sgrid) ix)) (rq.map (·.2.2)) suffix =
        M ((rq.map (·.2.1)).reverse ++ coords sgrid suffix) := by
  intro rq
  induction rq with
  | nil => intro _ sgrid suffix; simp [ndValRev]
  | cons q rq' ih =>
    intro hsel sgrid suffix
    obtain ⟨g, p, l, d⟩ := q
    have hq : Sel g p l d := hsel (g, p, l, d) (List.mem_cons_self)
    have hrest : ∀ q ∈ rq', Sel q.1 q.2.1 q.2.2.1 q.2.2.2 := fun q hq' => hsel q (List.mem_cons_of_mem _ hq')
    have e : ((((g, p, l, d) :: rq').map (·.1)).reverse ++ sgrid) = ((rq'.map (·.1)).reverse ++ (g :: sgrid)) := by
      simp
    have e2 : ((((g, p, l, d) :: rq').map (·.2.1)).reverse ++ coords sgrid suffix)
        = ((rq'.map (·.2.1)).reverse ++ p :: coords sgrid suffix) := by
      simp
    rw [e, e2]
    simp only [List.map_cons, ndValRev]
    rw [ih hrest (g :: sgrid) (l :: suffix), ih hrest (g :: sgrid) ((l + 1) :: suffix)]
    simp only [coords, lerp_eq]
    rw [← hM, hq.point_eq]

/-- per dimension: grid, coordinate, selected cell -/
def quads : List (List α) → List α → List (List α × α × Nat × α)
  | g :: gs, p :: ps => (g, p, selOf g p) :: quads gs ps
  | _, _ => []

theorem quads_spec : ∀ (grid : List (List α)) (shape : List Nat) (pt : List α),
    List.Forall₂ (fun g s => GoodGrid g ∧ g.length = s) grid shape → List.Forall₂ InAxis grid pt →
    (triples grid pt shape).map (fun t => (t.1, t.2.1)) = (quads grid pt).map (·.2.2) ∧
      (quads grid pt).map (·.1) = grid ∧ (quads grid pt).map (·.2.1) = pt ∧
      ∀ q ∈ quads grid pt, Sel q.1 q.2.1 q.2.2.1 q.2.2.2 := by
  intro grid shape pt hgs
  induction hgs generalizing pt with
  | nil => intro hp; cases hp; simp [triples, quads]
  | @cons g s gs ss hg _ ih =>
    intro hp
    cases hp with
    | @cons _ p _ ps hin hps =>
      obtain ⟨h1, h2, h3, h4⟩ := ih ps hps
      obtain ⟨l, d, hc, sel⟩ := sel_of_inAxis hg.1 hin
      refine ⟨?_, ?_, ?_, ?_⟩
      · simp [triples, quads, h1]
      · simp [quads, h2]
      · simp [quads, h3]
      · intro q hq
        simp only [quads, List.mem_cons] at hq
        rcases hq with rfl | hq
        · simp only [selOf_eq hc]; exact sel
        · exact h4 q hq

/-! ### what `InterpND::new` guarantees -/

theorem forall₂_and_right {β γ : Type} {R : β → γ → Prop} {P : γ → Prop} {l₁ : List β} {l₂ : List γ}
    (h : List.Forall₂ R l₁ l₂) (hp : ∀ b ∈ l₂, P b) : List.Forall₂ (fun a b => R a b ∧ P b) l₁ l₂ := by
  induction h with
  | nil => exact List.Forall₂.nil
  | @cons a b l₁' l₂' hab _ ih =>
    exact List.Forall₂.cons ⟨hab, hp b (List.mem_cons_self)⟩
      (ih (fun c hc => hp c (List.mem_cons_of_mem _ hc)))

theorem Res.bind_eq_ok {β γ : Type} {r : Res β} {f : β → Res γ} {v : γ} (h : r.bind f = .ok v) :
    ∃ a, r = .ok a ∧ f a = .ok v := by
  cases r with
  | ok a => exact ⟨a, rfl, h⟩
  | err e => cases h
  | panic s => cases h
  | diverges => cases h

theorem nd_checks_spec : ∀ (n : Nat) (grid : List (List α)) (shape : List Nat), shape.length = n →
    ndCheckSorted n grid = .ok () → ndCheckShape n grid shape = .ok () →
    ∃ gs rest, grid = gs ++ rest ∧ gs.length = n ∧
      List.Forall₂ (fun g s => strictlyIncreasing g = true ∧ g.length = s) gs shape := by
  intro n
  induction n with
  | zero =>
    intro grid shape hl _ _
    have : shape = [] := List.length_eq_zero_iff.mp hl
    subst this
    exact ⟨[], grid, rfl, rfl, List.Forall₂.nil⟩
  | succ n ih =>
    intro grid shape hl h1 h2
    cases shape with
    | nil => simp at hl
    | cons s ss =>
      cases grid with
      | nil => simp [ndCheckSorted] at h1
      | cons g gs =>
        simp only [ndCheckSorted] at h1
        simp only [ndCheckShape] at h2
        by_cases hs : strictlyIncreasing g = true
        · by_cases hgl : g.length = s
          · simp only [hs, Bool.not_true, Bool.false_eq_true, if_false] at h1
            simp only [hgl, ne_eq, not_true_eq_false, if_false] at h2
            obtain ⟨gs', rest, e, hlen, hf⟩ := ih gs ss (by simpa using hl) h1 h2
            exact ⟨g :: gs', rest, by rw [e]; rfl, by simp [hlen], List.Forall₂.cons ⟨hs, hgl⟩ hf⟩
          · simp [hgl] at h2
        · simp [hs] at h1

/-- an N-D interpolator accepted by `InterpND::new`, with at least two points on every axis, has exactly
the grids the N-D theorems ask for -/
theorem validateN_grids (m : ND α) (hv : validateN m = .ok ()) (h2 : ∀ s ∈ m.shape, 2 ≤ s)
    (hne : m.shape ≠ []) :
    List.Forall₂ (fun g s => (strictlyIncreasing g = true ∧ 2 ≤ g.length) ∧ g.length = s) m.grid m.shape := by
  have hp := prod_ge_two m.shape h2 hne
  have hn : m.ndim = m.shape.length := by
    unfold ND.ndim; rw [if_neg (by omega)]
  unfold validateN at hv
  simp only at hv
  rw [hn] at hv
  have hpos : 0 < m.shape.length := List.length_pos_iff.mpr hne
  by_cases hgd : ndGridLen m.grid ≠ m.shape.length
  · rw [if_pos hgd] at hv; cases hv
  rw [if_neg hgd] at hv
  have hgl : m.grid.length = m.shape.length := by
    have hgd' : ndGridLen m.grid = m.shape.length := not_not.mp hgd
    unfold ndGridLen at hgd'
    cases hgrid : m.grid with
    | nil => rw [hgrid] at hgd'; simp only at hgd'; omega
    | cons g0 gr =>
      rw [hgrid] at hgd'
      simp only at hgd'
      by_cases hg0 : g0.isEmpty = true
      · rw [if_pos hg0] at hgd'; omega
      · rw [if_neg hg0] at hgd'; exact hgd'
  obtain ⟨_, hA, hv⟩ := Res.bind_eq_ok hv
  obtain ⟨_, hB, hC⟩ := Res.bind_eq_ok hv
  obtain ⟨gs, rest, e, hlen, hf⟩ := nd_checks_spec m.shape.length m.grid m.shape rfl hB hC
  have hrest : rest = [] := by
    have : (gs ++ rest).length = m.shape.length := by rw [← e]; exact hgl
    rw [List.length_append, hlen] at this
    exact List.length_eq_zero_iff.mp (by omega)
  rw [e, hrest, List.append_nil]
  refine List.Forall₂.imp ?_ (forall₂_and_right hf h2)
  intro g s ⟨⟨h1, hl⟩, hs⟩
  exact ⟨⟨h1, by omega⟩, hl⟩

/-! ### what `Interp1D::new` / `Interp3D::new` guarantee -/

theorem validate1_ok {x f : List α} (hv : validate1 x f = .ok ()) :
    strictlyIncreasing x = true ∧ x.length = f.length := by
  unfold validate1 at hv
  split at hv
  · cases hv
  · split at hv
    · cases hv
    · split at hv
      · cases hv
      · rename_i h2 h3
        simp only [Bool.not_eq_true', Bool.not_eq_false] at h2
        exact ⟨h2, not_not.mp h3⟩

theorem validate3_ok {x y z : List α} {f : List (List (List α))} (hv : validate3 x y z f = .ok ()) :
    (2 ≤ x.length ∧ 2 ≤ y.length ∧ 2 ≤ z.length) ∧
    strictlyIncreasing x = true ∧ strictlyIncreasing y = true ∧ strictlyIncreasing z = true ∧
      Rect3 f x.length y.length z.length := by
  unfold validate3 at hv
  split at hv
  · cases hv
  · split at hv
    · cases hv
    · rename_i hlen
      split at hv
      · cases hv
      · split at hv
        · cases hv
        · rename_i h2 h3
          simp only [Bool.not_eq_true', Bool.not_eq_false, Bool.and_eq_true] at h2
          simp only [Bool.not_eq_true', Bool.not_eq_false, Bool.and_eq_true, decide_eq_true_eq,
            List.all_eq_true] at h3
          refine ⟨by omega, h2.1.1, h2.1.2, h2.2, h3.1.1.symm, ?_⟩
          intro r hr
          exact ⟨h3.1.2 r hr, h3.2 r hr⟩

/-! ### no panics: the constructors, the cell lookup and the validated entry point are total -/

/-- a result that is a value or an `Err`, never a panic or divergence -/
def Res.Graceful {β : Type} (r : Res β) : Prop := (∃ v, r = .ok v) ∨ (∃ e, r = .err e)

theorem findNearestIndex_ge_two (g : List α) (t : α) (hlen : 2 ≤ g.length) :
    ∃ i, findNearestIndex g t = .ok i ∧ i < g.length := by
  have hl : g.length - 1 < g.length := by omega
  have hlast : g.getLast? = some (g[g.length - 1]'hl) := by
    rw [getLast?_eq_getElem?]; exact List.getElem?_eq_getElem hl
  unfold findNearestIndex
  rw [if_neg (by omega), hlast]
  simp only
  split
  · rw [if_neg (by omega)]; exact ⟨_, rfl, by omega⟩
  · obtain ⟨r, hr, _, hrh, _, _⟩ := bsearch_spec g t (g.length + 1) 0 (g.length - 1) (by omega) hl (by omega)
    have hr' : r < g.length := by omega
    rw [hr]
    simp only [Res.bind, idx, List.getElem?_eq_getElem hr']
    split
    · exact ⟨_, rfl, by omega⟩
    · exact ⟨_, rfl, hr'⟩

theorem findNearestIndex_graceful (g : List α) (t : α) :
    (∃ i, findNearestIndex g t = .ok i ∧ i < g.length) ∨ (∃ e, findNearestIndex g t = .err e) := by
  by_cases h2 : 2 ≤ g.length
  · exact Or.inl (findNearestIndex_ge_two g t h2)
  · right
    unfold findNearestIndex
    by_cases h1 : g.length = 1
    · rw [if_pos h1]; exact ⟨_, rfl⟩
    · rw [if_neg h1]
      have : g = [] := List.length_eq_zero_iff.mp (by omega)
      subst this
      exact ⟨_, rfl⟩

theorem validate2_graceful (x y : List α) (f : List (List α)) :
    validate2 x y f = .ok () ∨ ∃ e, validate2 x y f = .err e := by
  unfold validate2
  split
  · exact Or.inr ⟨_, rfl⟩
  · split
    · exact Or.inr ⟨_, rfl⟩
    · split
      · exact Or.inr ⟨_, rfl⟩
      · split
        · exact Or.inr ⟨_, rfl⟩
        · exact Or.inl rfl

theorem validate3_graceful (x y z : List α) (f : List (List (List α))) :
    validate3 x y z f = .ok () ∨ ∃ e, validate3 x y z f = .err e := by
  unfold validate3
  split
  · exact Or.inr ⟨_, rfl⟩
  · split
    · exact Or.inr ⟨_, rfl⟩
    · split
      · exact Or.inr ⟨_, rfl⟩
      · split
        · exact Or.inr ⟨_, rfl⟩
        · exact Or.inl rfl

/-- `Interpolator::interpolate` on a 2-D interpolator that `Interp2D::new` accepted: never a panic,
whatever the point (any length, inside or outside) and the strategy -/
theorem interpolate_d2_graceful (x y : List α) (f : List (List α)) (hv : validate2 x y f = .ok ())
    (pt : List α) (s : Strategy) : (Interpolator.interpolate (.d2 x y f) pt s).Graceful := by
  obtain ⟨hlx, hly, sx, sy, hr⟩ := (validate2_ok_iff x y f).mp hv
  have hxne : x ≠ [] := by intro h; rw [h] at hlx; simp at hlx
  have hyne : y ≠ [] := by intro h; rw [h] at hly; simp at hly
  match pt with
  | [p0, p1] =>
    by_cases h : InAxis x p0 ∧ InAxis y p1
    · by_cases hs : s = .linear
      · subst hs
        obtain ⟨lx, dx, ly, dy, _, _, _, _, hl⟩ := linear2_ok x y f p0 p1 ⟨sx, hlx⟩ ⟨sy, hly⟩ hr h.1 h.2
        rw [interpolate_d2_in x y f p0 p1 h.1 h.2, hl]
        exact Or.inl ⟨_, rfl⟩
      · right
        refine ⟨.strategy, ?_⟩
        simp [Interpolator.interpolate, Interpolator.validateInputs, Interpolator.ndim, idx, Res.bind,
          inAxis_true h.1, inAxis_true h.2, hs]
    · rw [interpolate_d2_out x y f p0 p1 s hxne hyne h]
      exact Or.inr ⟨_, rfl⟩
  | [] => right; exact ⟨.pointLen, by simp [Interpolator.interpolate, Interpolator.validateInputs, Interpolator.ndim, Res.bind]⟩
  | [_] => right; exact ⟨.pointLen, by simp [Interpolator.interpolate, Interpolator.validateInputs, Interpolator.ndim, Res.bind]⟩
  | _ :: _ :: _ :: _ =>
    right; exact ⟨.pointLen, by simp [Interpolator.interpolate, Interpolator.validateInputs, Interpolator.ndim, Res.bind]⟩

theorem interpolate_d3_graceful (x y z : List α) (f : List (List (List α)))
    (hv : validate3 x y z f = .ok ()) (pt : List α) (s : Strategy) :
    (Interpolator.interpolate (.d3 x y z f) pt s).Graceful := by
  obtain ⟨⟨hlx, hly, hlz⟩, sx, sy, sz, hr⟩ := validate3_ok hv
  have hxne : x ≠ [] := by intro h; rw [h] at hlx; simp at hlx
  have hyne : y ≠ [] := by intro h; rw [h] at hly; simp at hly
  have hzne : z ≠ [] := by intro h; rw [h] at hlz; simp at hlz
  match pt with
  | [p0, p1, p2] =>
    by_cases h : InAxis x p0 ∧ InAxis y p1 ∧ InAxis z p2
    · by_cases hs : s = .linear
      · subst hs
        obtain ⟨lx, dx, ly, dy, lz, dz, _, _, _, _, _, _, hl⟩ :=
          linear3_ok x y z f p0 p1 p2 ⟨sx, hlx⟩ ⟨sy, hly⟩ ⟨sz, hlz⟩ hr h.1 h.2.1 h.2.2
        rw [interpolate_d3_in x y z f p0 p1 p2 h.1 h.2.1 h.2.2, hl]
        exact Or.inl ⟨_, rfl⟩
      · right
        refine ⟨.strategy, ?_⟩
        simp [Interpolator.interpolate, Interpolator.validateInputs, Interpolator.ndim, idx, Res.bind,
          inAxis_true h.1, inAxis_true h.2.1, inAxis_true h.2.2, hs]
    · rw [interpolate_d3_out x y z f p0 p1 p2 s hxne hyne hzne h]
      exact Or.inr ⟨_, rfl⟩
  | [] => right; exact ⟨.pointLen, by simp [Interpolator.interpolate, Interpolator.validateInputs, Interpolator.ndim, Res.bind]⟩
  | [_] => right; exact ⟨.pointLen, by simp [Interpolator.interpolate, Interpolator.validateInputs, Interpolator.ndim, Res.bind]⟩
  | [_, _] => right; exact ⟨.pointLen, by simp [Interpolator.interpolate, Interpolator.validateInputs, Interpolator.ndim, Res.bind]⟩
  | _ :: _ :: _ :: _ :: _ =>
    right; exact ⟨.pointLen, by simp [Interpolator.interpolate, Interpolator.validateInputs, Interpolator.ndim, Res.bind]⟩

theorem ndCheckNonEmpty_graceful : ∀ (n : Nat) (grid : List (List α)), n ≤ grid.length →
    ndCheckNonEmpty n grid = .ok () ∨ ∃ e, ndCheckNonEmpty n grid = .err e := by
  intro n
  induction n with
  | zero => intro grid _; exact Or.inl rfl
  | succ n ih =>
    intro grid h
    cases grid with
    | nil => simp at h
    | cons g gs =>
      simp only [ndCheckNonEmpty]
      split
      · exact Or.inr ⟨_, rfl⟩
      · exact ih gs (by simpa using h)

theorem ndCheckSorted_graceful : ∀ (n : Nat) (grid : List (List α)), n ≤ grid.length →
    ndCheckSorted n grid = .ok () ∨ ∃ e, ndCheckSorted n grid = .err e := by
  intro n
  induction n with
  | zero => intro grid _; exact Or.inl rfl
  | succ n ih =>
    intro grid h
    cases grid with
    | nil => simp at h
    | cons g gs =>
      simp only [ndCheckSorted]
      split
      · exact Or.inr ⟨_, rfl⟩
      · exact ih gs (by simpa using h)

theorem ndCheckShape_graceful : ∀ (n : Nat) (grid : List (List α)) (shape : List Nat), n ≤ grid.length →
    n ≤ shape.length →
    ndCheckShape n grid shape = .ok () ∨ ∃ e, ndCheckShape n grid shape = .err e := by
  intro n
  induction n with
  | zero => intro grid shape _ _; exact Or.inl rfl
  | succ n ih =>
    intro grid shape h h'
    cases grid with
    | nil => simp at h
    | cons g gs =>
      cases shape with
      | nil => simp at h'
      | cons s ss =>
        simp only [ndCheckShape]
        split
        · exact Or.inr ⟨_, rfl⟩
        · exact ih gs ss (by simpa using h) (by simpa using h')

theorem ndGridLen_le (grid : List (List α)) : ndGridLen grid ≤ grid.length := by
  unfold ndGridLen
  cases grid with
  | nil => simp
  | cons g gs =>
    simp only
    split
    · omega
    · exact le_refl _

/-- `InterpND::new` never panics: a value or an `Err` for every grid vector and every shape -/
theorem validateN_graceful (m : ND α) : validateN m = .ok () ∨ ∃ e, validateN m = .err e := by
  unfold validateN
  simp only
  by_cases hgd : ndGridLen m.grid ≠ m.ndim
  · rw [if_pos hgd]; exact Or.inr ⟨_, rfl⟩
  · rw [if_neg hgd]
    have hgd' : ndGridLen m.grid = m.ndim := not_not.mp hgd
    have h1 : m.ndim ≤ m.grid.length := by rw [← hgd']; exact ndGridLen_le m.grid
    have h2 : m.ndim ≤ m.shape.length := by
      unfold ND.ndim; split
      · omega
      · exact le_refl _
    rcases ndCheckNonEmpty_graceful m.ndim m.grid h1 with hA | ⟨e, hA⟩
    · rcases ndCheckSorted_graceful m.ndim m.grid h1 with hB | ⟨e, hB⟩
      · rcases ndCheckShape_graceful m.ndim m.grid m.shape h1 h2 with hC | ⟨e, hC⟩
        · left; simp [hA, hB, hC, Res.bind]
        · right; exact ⟨e, by simp [hA, hB, hC, Res.bind]⟩
      · right; exact ⟨e, by simp [hA, hB, Res.bind]⟩
    · right; exact ⟨e, by simp [hA, Res.bind]⟩

theorem linspace_ok (x0 xend : α) (n : Nat) : ∃ xs, linspace x0 xend n = .ok xs := by
  cases n with
  | zero => exact ⟨_, rfl⟩
  | succ m => exact ⟨_, rfl⟩

/-- `InterpolationSpeedGradeModel::new` never panics, whatever the bounds and bin counts -/
theorem new_graceful (underlying : α → α → α) (su : SpeedUnit) (s0 s1 : α) (sb : Nat) (gu : GradeUnit)
    (g0 g1 : α) (gb : Nat) (ru : EnergyRateUnit) :
    (SpeedGradeModel.new underlying su s0 s1 sb gu g0 g1 gb ru).Graceful := by
  obtain ⟨xs, hx⟩ := linspace_ok s0 s1 sb
  obtain ⟨ys, hy⟩ := linspace_ok g0 g1 gb
  unfold SpeedGradeModel.new
  rw [hx, hy]
  simp only [Res.bind]
  rcases validate2_graceful xs ys (List.map (fun s => List.map (fun g => gridValue ru (underlying s g)) ys) xs)
    with hv | ⟨e, hv⟩
  · rw [hv]; exact Or.inl ⟨_, rfl⟩
  · rw [hv]; exact Or.inr ⟨_, rfl⟩

/-- fewer than two bins on an axis: `new` returns an error -/
theorem new_rejects_short (underlying : α → α → α) (su : SpeedUnit) (s0 s1 : α) (sb : Nat) (gu : GradeUnit)
    (g0 g1 : α) (gb : Nat) (ru : EnergyRateUnit) (h : sb < 2 ∨ gb < 2) :
    ∃ e, SpeedGradeModel.new underlying su s0 s1 sb gu g0 g1 gb ru = .err e := by
  rcases new_graceful underlying su s0 s1 sb gu g0 g1 gb ru with ⟨m, hm⟩ | he
  · obtain ⟨_, _, _, _, _, _, _, _, _, h1, h2⟩ := new_inv underlying su s0 s1 sb gu g0 g1 gb ru m hm
    omega
  · exact he

/-! ### `load_prediction_model` -/

theorem Res.ok_bind {β γ : Type} (v : β) (f : β → Res γ) : (Res.ok v).bind f = f v := rfl
theorem Res.err_bind {β γ : Type} (e : Err) (f : β → Res γ) : (Res.err e : Res β).bind f = .err e := rfl

theorem fillRow_pure (u : α → α) : ∀ (ys : List α), fillRow (fun g => (.ok (u g) : Res α)) ys = .ok (ys.map u) := by
  intro ys
  induction ys with
  | nil => rfl
  | cons y ys ih => simp [fillRow, ih, Res.bind]

theorem fillGrid_pure (u : α → α → α) (ys : List α) : ∀ (xs : List α),
    fillGrid (fun s g => (.ok (u s g) : Res α)) xs ys = .ok (xs.map fun s => ys.map fun g => u s g) := by
  intro xs
  induction xs with
  | nil => rfl
  | cons x xs ih => simp [fillGrid, fillRow_pure (u x) ys, ih, Res.bind]

/-- the sweep over a model that always answers: a value, at most the start value and at most every
swept rate, and attained: it is the start value or one of the swept rates -/
theorem findMinEnergyRateFrom_spec (m : PModel α) (hm : ∀ s su g gu, ∃ r u, m s su g gu = .ok (r, u)) :
    ∀ (is : List Nat) (acc : α), ∃ v, findMinEnergyRateFrom m is acc = .ok v ∧ v ≤ acc ∧
      (∀ i ∈ is, ∀ r u, m (ofNat i) .milesPerHour (zero : α) .percent = .ok (r, u) → v ≤ r) ∧
      (v = acc ∨ ∃ i ∈ is, ∃ u, m (ofNat i) .milesPerHour (zero : α) .percent = .ok (v, u)) := by
  intro is
  induction is with
  | nil => intro acc; exact ⟨acc, rfl, le_refl _, (by intro i hi; cases hi), Or.inl rfl⟩
  | cons i is ih =>
    intro acc
    obtain ⟨r, u, hr⟩ := hm (ofNat i) .milesPerHour (zero : α) .percent
    obtain ⟨v, hv, hle, hall, hatt⟩ := ih (if r < acc then r else acc)
    refine ⟨v, ?_, ?_, ?_, ?_⟩
    · simp only [findMinEnergyRateFrom, hr]; exact hv
    · split at hle
      · exact le_trans hle (le_of_lt ‹_›)
      · exact hle
    · intro j hj r' u' hr'
      rcases List.mem_cons.mp hj with rfl | hj'
      · rw [hr] at hr'
        cases hr'
        split at hle
        · exact hle
        · exact le_trans hle (not_lt.mp ‹_›)
      · exact hall j hj' r' u' hr'
    · rcases hatt with h | ⟨j, hj, u', hj'⟩
      · split at h
        · right; exact ⟨i, List.mem_cons_self, u, by rw [h]; exact hr⟩
        · left; exact h
      · right; exact ⟨j, List.mem_cons_of_mem _ hj, u', hj'⟩

theorem smartcorePredict_total (rf : α → α → α) (su : SpeedUnit) (gu : GradeUnit) (ru : EnergyRateUnit) :
    ∀ s qsu g qgu, ∃ r u, smartcorePredict rf su gu ru s qsu g qgu = .ok (r, u) :=
  fun _ _ _ _ => ⟨_, _, rfl⟩

/-- the `Smartcore` arm -/
theorem load_smartcore_eq (cap : Nat) (rf : α → α → α) (su : SpeedUnit) (gu : GradeUnit) (ru : EnergyRateUnit)
    (ideal adj : Option α) :
    loadPredictionModel cap rf true .smartcore su gu ru ideal adj =
      ((match ideal with
        | some x => (.ok x : Res α)
        | none => findMinEnergyRate (smartcorePredict rf su gu ru)).bind fun idealRate =>
        .ok { model := smartcorePredict rf su gu ru, speedUnit := su, gradeUnit := gu, energyRateUnit := ru,
              idealEnergyRate := idealRate,
              realWorldEnergyAdjustment := match adj with | some a => a | none => one }) := by
  unfold loadPredictionModel
  rfl

/-- the model type names ONNX somewhere (the feature is off in this build) -/
def ModelType.hasOnnx : ModelType α → Bool
  | .smartcore => false
  | .onnx => true
  | .interpolate u _ _ _ _ _ _ => u.hasOnnx

theorem load_unreadable (cap : Nat) (rf : α → α → α) : ∀ (mt : ModelType α) (su : SpeedUnit) (gu : GradeUnit)
    (ru : EnergyRateUnit) (ideal adj : Option α),
    loadPredictionModel cap rf false mt su gu ru ideal adj = .err .build := by
  intro mt
  induction mt with
  | smartcore => intro su gu ru ideal adj; unfold loadPredictionModel; rfl
  | onnx => intro su gu ru ideal adj; unfold loadPredictionModel; rfl
  | interpolate u s0 s1 sb g0 g1 gb ih =>
    intro su gu ru ideal adj
    unfold loadPredictionModel
    simp only [ih su gu ru none none, Res.err_bind]

theorem load_onnx (cap : Nat) (rf : α → α → α) (fileOk : Bool) : ∀ (mt : ModelType α), mt.hasOnnx = true →
    ∀ (su : SpeedUnit) (gu : GradeUnit) (ru : EnergyRateUnit) (ideal adj : Option α),
    loadPredictionModel cap rf fileOk mt su gu ru ideal adj = .err .build := by
  intro mt
  induction mt with
  | smartcore => intro h; cases h
  | onnx => intro _ su gu ru ideal adj; unfold loadPredictionModel; rfl
  | interpolate u s0 s1 sb g0 g1 gb ih =>
    intro h su gu ru ideal adj
    unfold loadPredictionModel
    simp only [ih h su gu ru none none, Res.err_bind]

/-! ### the validated entry point never panics: 0-D, 1-D and N-D (one-point axes and single values included) -/

theorem idx_head {β : Type} (a : β) (t : List β) : idx (a :: t) 0 = .ok a := rfl

theorem Res.Graceful.ok {β : Type} (v : β) : (Res.ok v).Graceful := Or.inl ⟨v, rfl⟩
theorem Res.Graceful.err {β : Type} (e : Err) : (Res.err e : Res β).Graceful := Or.inr ⟨e, rfl⟩

/-- an in-range point that is not a grid value: the axis has at least two points -/
theorem two_points_of_not_on_grid {g : List α} {p : α} (hs : strictlyIncreasing g = true) (hin : InAxis g p)
    (hnone : position (fun v => eqv v p) g = none) : GoodGrid g := by
  refine ⟨hs, ?_⟩
  obtain ⟨lo, hi, h0, hl, h1, h2⟩ := hin
  by_contra hlen
  have h0' : 0 < g.length := by
    by_contra hn
    rw [List.getElem?_eq_none (by omega)] at h0; cases h0
  have hlen1 : g.length = 1 := by omega
  rw [getLast?_eq_getElem?, hlen1] at hl
  simp only [Nat.sub_self] at hl
  rw [h0] at hl; cases hl
  have hp : p = lo := le_antisymm h2 h1
  have := position_none _ g hnone 0 lo h0
  rw [eqv_false_iff] at this
  exact this hp.symm

theorem interpolate_d1_graceful (x f : List α) (hv : validate1 x f = .ok ()) (pt : List α) (s : Strategy) :
    (Interpolator.interpolate (.d1 x f) pt s).Graceful := by
  obtain ⟨hs, hf⟩ := validate1_ok hv
  have hxne : x ≠ [] := by
    intro h
    unfold validate1 at hv
    rw [h] at hv
    simp at hv
  match pt with
  | [p] =>
    by_cases h : InAxis x p
    · -- in range
      have hpos : ∀ i, position (fun v => eqv v p) x = some i → ∃ v, idx f i = .ok v := by
        intro i hi
        obtain ⟨v, hv', _⟩ := position_some _ x i hi
        have : i < f.length := by
          rw [← hf]
          by_contra hn
          rw [List.getElem?_eq_none (by omega)] at hv'; cases hv'
        exact ⟨_, idx1_ok this⟩
      have hcell : position (fun v => eqv v p) x = none →
          ∃ l d, findNearestIndex x p = .ok l ∧ cellOf x p = .ok (l, d) ∧ l + 1 < f.length := by
        intro hn
        have gg := two_points_of_not_on_grid hs h hn
        obtain ⟨lo, hi, h0, hl, h1, h2⟩ := h
        obtain ⟨l, a, b, hfn, ha, hb, _⟩ := findNearestIndex_spec x p lo hi gg h0 hl h1 h2
        refine ⟨l, (p - a) / (b - a), hfn, ?_, ?_⟩
        · simp [cellOf, hfn, Res.bind, idx_eq ha, idx_eq hb]
        · rw [← hf]
          by_contra hn'
          rw [List.getElem?_eq_none (by omega)] at hb; cases hb
      have hval : Interpolator.validateInputs (.d1 x f) [p] = .ok () := by
        simp [Interpolator.validateInputs, Interpolator.ndim, idx, Res.bind, inAxis_true h]
      unfold Interpolator.interpolate
      rw [hval, Res.ok_bind]
      cases s with
      | none => exact Res.Graceful.err _
      | linear =>
        simp only [idx_head, Res.ok_bind, linear1]
        cases hp : position (fun v => eqv v p) x with
        | some i => obtain ⟨v, hv'⟩ := hpos i hp; simp only [hv']; exact Res.Graceful.ok _
        | none =>
          obtain ⟨l, d, _, hc, hl⟩ := hcell hp
          simp only [hc, Res.ok_bind, idx1_ok (show l < f.length by omega), idx1_ok hl]
          exact Res.Graceful.ok _
      | leftNearest =>
        simp only [idx_head, Res.ok_bind, leftNearest1]
        cases hp : position (fun v => eqv v p) x with
        | some i => obtain ⟨v, hv'⟩ := hpos i hp; simp only [hv']; exact Res.Graceful.ok _
        | none =>
          obtain ⟨l, d, hfn, _, hl⟩ := hcell hp
          simp only [hfn, Res.ok_bind, idx1_ok (show l < f.length by omega)]
          exact Res.Graceful.ok _
      | rightNearest =>
        simp only [idx_head, Res.ok_bind, rightNearest1]
        cases hp : position (fun v => eqv v p) x with
        | some i => obtain ⟨v, hv'⟩ := hpos i hp; simp only [hv']; exact Res.Graceful.ok _
        | none =>
          obtain ⟨l, d, hfn, _, hl⟩ := hcell hp
          simp only [hfn, Res.ok_bind, idx1_ok hl]
          exact Res.Graceful.ok _
      | nearest =>
        simp only [idx_head, Res.ok_bind, nearest1]
        cases hp : position (fun v => eqv v p) x with
        | some i => obtain ⟨v, hv'⟩ := hpos i hp; simp only [hv']; exact Res.Graceful.ok _
        | none =>
          obtain ⟨l, d, _, hc, hl⟩ := hcell hp
          simp only [hc, Res.ok_bind]
          split
          · rw [idx1_ok (show l < f.length by omega)]; exact Res.Graceful.ok _
          · rw [idx1_ok hl]; exact Res.Graceful.ok _
    · rw [interpolate_d1_out x f p s hxne h]; exact Res.Graceful.err _
  | [] => exact Or.inr ⟨.pointLen, by simp [Interpolator.interpolate, Interpolator.validateInputs, Interpolator.ndim, Res.bind]⟩
  | _ :: _ :: _ =>
    exact Or.inr ⟨.pointLen, by simp [Interpolator.interpolate, Interpolator.validateInputs, Interpolator.ndim, Res.bind]⟩

/-- a model cell stays inside its dimension's extent -/
def CellOk (c : Cell α) (s : Nat) : Prop :=
  match c with
  | .fixed pos => pos < s
  | .cell l _ => l + 1 < s

theorem ndEvalRev_graceful (get : List Nat → Res α) :
    ∀ (rc : List (Cell α)) (rsh : List Nat), List.Forall₂ CellOk rc rsh →
    ∀ (suffix ssh : List Nat), List.Forall₂ (· < ·) suffix ssh →
      (∀ ix, List.Forall₂ (· < ·) ix (rsh.reverse ++ ssh) → ∃ v, get ix = .ok v) →
      ∃ v, ndEvalRev get rc suffix = .ok v := by
  intro rc rsh h
  induction h with
  | nil =>
    intro suffix ssh hs hget
    simpa [ndEvalRev] using hget suffix (by simpa using hs)
  | @cons c s rc' rsh' hcs _ ih =>
    intro suffix ssh hs hget
    have hget' : ∀ ix, List.Forall₂ (· < ·) ix (rsh'.reverse ++ (s :: ssh)) → ∃ v, get ix = .ok v := by
      intro ix hix
      apply hget
      simpa [List.reverse_cons, List.append_assoc] using hix
    cases c with
    | fixed pos =>
      simp only [CellOk] at hcs
      simp only [ndEvalRev]
      exact ih (pos :: suffix) (s :: ssh) (List.Forall₂.cons hcs hs) hget'
    | cell l d =>
      simp only [CellOk] at hcs
      obtain ⟨a, ha⟩ := ih (l :: suffix) (s :: ssh) (List.Forall₂.cons (by omega) hs) hget'
      obtain ⟨b, hb⟩ := ih ((l + 1) :: suffix) (s :: ssh) (List.Forall₂.cons hcs hs) hget'
      simp only [ndEvalRev, ha, hb, Res.ok_bind]
      exact ⟨_, rfl⟩

theorem ndAnyNaN_graceful (get : List Nat → Res α) :
    ∀ (rc : List (Cell α)) (rsh : List Nat), List.Forall₂ CellOk rc rsh →
    ∀ (suffix ssh : List Nat), List.Forall₂ (· < ·) suffix ssh →
      (∀ ix, List.Forall₂ (· < ·) ix (rsh.reverse ++ ssh) → ∃ v, get ix = .ok v) →
      ∃ b, ndAnyNaN get rc suffix = .ok b := by
  intro rc rsh h
  induction h with
  | nil =>
    intro suffix ssh hs hget
    obtain ⟨v, hv⟩ := hget suffix (by simpa using hs)
    simp only [ndAnyNaN, hv, Res.ok_bind]
    exact ⟨_, rfl⟩
  | @cons c s rc' rsh' hcs _ ih =>
    intro suffix ssh hs hget
    have hget' : ∀ ix, List.Forall₂ (· < ·) ix (rsh'.reverse ++ (s :: ssh)) → ∃ v, get ix = .ok v := by
      intro ix hix
      apply hget
      simpa [List.reverse_cons, List.append_assoc] using hix
    cases c with
    | fixed pos =>
      simp only [CellOk] at hcs
      simp only [ndAnyNaN]
      exact ih (pos :: suffix) (s :: ssh) (List.Forall₂.cons hcs hs) hget'
    | cell l d =>
      simp only [CellOk] at hcs
      obtain ⟨a, ha⟩ := ih (l :: suffix) (s :: ssh) (List.Forall₂.cons (by omega) hs) hget'
      obtain ⟨b, hb⟩ := ih ((l + 1) :: suffix) (s :: ssh) (List.Forall₂.cons hcs hs) hget'
      simp only [ndAnyNaN, ha, hb, Res.ok_bind]
      exact ⟨_, rfl⟩

/-- a plan entry against the extent of its dimension: a fixed index inside it, or a free dimension with
at least two points -/
def PlanShape (pl : Plan α) (s : Nat) : Prop :=
  (∃ pos, pl = .fixed pos ∧ pos < s) ∨ (∃ g p, pl = .free g p ∧ 2 ≤ s)

/-- an axis `InterpND::new` accepts: not empty, strictly increasing, as long as the table's extent -/
def AxisOk (g : List α) (s : Nat) : Prop := g ≠ [] ∧ strictlyIncreasing g = true ∧ g.length = s

theorem plan_cells_graceful : ∀ (grid : List (List α)) (shape : List Nat) (pt : List α),
    List.Forall₂ AxisOk grid shape → List.Forall₂ InAxis grid pt →
    ∃ plan cells, ndPlan grid.length grid pt = .ok plan ∧ ndCells plan = .ok cells ∧
      ndSliceOk cells shape = true ∧ List.Forall₂ CellOk cells shape ∧ List.Forall₂ PlanShape plan shape := by
  intro grid shape pt hgs
  induction hgs generalizing pt with
  | nil => intro _; exact ⟨[], [], rfl, rfl, rfl, List.Forall₂.nil, List.Forall₂.nil⟩
  | @cons g s gs ss hg _ ih =>
    intro hp
    cases hp with
    | @cons _ p _ ps hin hps =>
      obtain ⟨plan, cells, h1, h2, h3, h4, h5⟩ := ih ps hps
      obtain ⟨hne, hsi, hlen⟩ := hg
      have hemp : g.isEmpty = false := by
        cases g with
        | nil => exact absurd rfl hne
        | cons _ _ => rfl
      cases hpos : position (fun v => eqv v p) g with
      | some pos =>
        obtain ⟨v, hv, _⟩ := position_some _ g pos hpos
        have hposlt : pos < s := by
          rw [← hlen]
          by_contra hn
          rw [List.getElem?_eq_none (by omega)] at hv; cases hv
        refine ⟨.fixed pos :: plan, .fixed pos :: cells, ?_, ?_, ?_, ?_, ?_⟩
        · simp [ndPlan, hemp, hpos, Res.bind, h1]
        · simp [ndCells, h2, Res.bind]
        · simp only [ndSliceOk, h3, Bool.and_true, decide_eq_true_eq]; exact hposlt
        · exact List.Forall₂.cons hposlt h4
        · exact List.Forall₂.cons (Or.inl ⟨pos, rfl, hposlt⟩) h5
      | none =>
        have gg := two_points_of_not_on_grid hsi hin hpos
        obtain ⟨l, d, hc, sel⟩ := sel_of_inAxis gg hin
        have hl := sel.lt_length
        refine ⟨.free g (some p) :: plan, .cell l d :: cells, ?_, ?_, ?_, ?_, ?_⟩
        · simp [ndPlan, hemp, hpos, Res.bind, h1]
        · simp [ndCells, h2, hc, Res.bind]
        · simp only [ndSliceOk, h3, Bool.and_true, decide_eq_true_eq]; omega
        · exact List.Forall₂.cons (show l + 1 < s by omega) h4
        · exact List.Forall₂.cons (Or.inr ⟨g, some p, rfl, by have := gg.2; omega⟩) h5

theorem viewLen_one_fixed : ∀ (plan : List (Plan α)) (shape : List Nat), List.Forall₂ PlanShape plan shape →
    ndViewLen plan shape = 1 → List.Forall₂ (· < ·) (ndFirstIndex plan) shape := by
  intro plan shape h
  induction h with
  | nil => intro _; exact List.Forall₂.nil
  | @cons pl s plan' shape' hps _ ih =>
    intro hv
    rcases hps with ⟨pos, rfl, hpos⟩ | ⟨g, p, rfl, h2⟩
    · simp only [ndViewLen] at hv
      exact List.Forall₂.cons hpos (ih hv)
    · simp only [ndViewLen] at hv
      have := Nat.eq_one_of_mul_eq_one_right hv
      omega

/-- `InterpND::linear` on accepted axes and an in-range point: a value, or the NaN error — never a panic -/
theorem linearN_graceful (m : ND α) (pt : List α) (hn : m.ndim = m.shape.length)
    (hg : List.Forall₂ AxisOk m.grid m.shape)
    (hget : ∀ ix, List.Forall₂ (· < ·) ix m.shape → ∃ v, m.get ix = .ok v)
    (hp : List.Forall₂ InAxis m.grid pt) : (linearN m pt).Graceful := by
  obtain ⟨plan, cells, h1, h2, h3, h4, h5⟩ := plan_cells_graceful m.grid m.shape pt hg hp
  have hlen : m.grid.length = m.shape.length := hg.length_eq
  have hplen : plan.length = m.shape.length := h5.length_eq
  unfold linearN
  simp only
  rw [hn, ← hlen, h1, Res.ok_bind]
  by_cases hvl : ndViewLen plan m.shape = 1
  · have hz : m.grid.length - plan.length = 0 := by omega
    rw [if_pos hvl, hz, List.replicate_zero, List.append_nil]
    obtain ⟨v, hv⟩ := hget _ (viewLen_one_fixed plan m.shape h5 hvl)
    rw [hv]; exact Res.Graceful.ok _
  · rw [if_neg hvl, h2, Res.ok_bind]
    simp only [h3, Bool.not_true, Bool.false_eq_true, if_false]
    have hget' : ∀ ix, List.Forall₂ (· < ·) ix (m.shape.reverse.reverse ++ []) → ∃ v, m.get ix = .ok v := by
      intro ix hix
      apply hget
      simpa using hix
    obtain ⟨b, hb⟩ := ndAnyNaN_graceful m.get cells.reverse m.shape.reverse (List.rel_reverse h4) [] []
      List.Forall₂.nil hget'
    obtain ⟨v, hv⟩ := ndEvalRev_graceful m.get cells.reverse m.shape.reverse (List.rel_reverse h4) [] []
      List.Forall₂.nil hget'
    rw [hb, Res.ok_bind]
    cases b with
    | true => exact Res.Graceful.err _
    | false => simp only [Bool.false_eq_true, if_false, hv]; exact Res.Graceful.ok _

theorem forall₂_and_left {β γ : Type} {R : β → γ → Prop} {P : β → Prop} {l₁ : List β} {l₂ : List γ}
    (h : List.Forall₂ R l₁ l₂) (hp : ∀ a ∈ l₁, P a) : List.Forall₂ (fun a b => P a ∧ R a b) l₁ l₂ := by
  induction h with
  | nil => exact List.Forall₂.nil
  | @cons a b l₁' l₂' hab _ ih =>
    exact List.Forall₂.cons ⟨hp a (List.mem_cons_self), hab⟩
      (ih (fun c hc => hp c (List.mem_cons_of_mem _ hc)))

theorem ndCheckNonEmpty_spec : ∀ (n : Nat) (grid : List (List α)), ndCheckNonEmpty n grid = .ok () →
    ∀ g ∈ grid.take n, g ≠ [] := by
  intro n
  induction n with
  | zero => intro grid _ g hg; simp at hg
  | succ n ih =>
    intro grid h g hg
    cases grid with
    | nil => simp at hg
    | cons g0 gs =>
      simp only [ndCheckNonEmpty] at h
      by_cases he : g0.isEmpty = true
      · rw [if_pos he] at h; cases h
      · rw [if_neg he] at h
        simp only [List.take_succ_cons, List.mem_cons] at hg
        rcases hg with rfl | hg
        · intro hnil; apply he; rw [hnil]; rfl
        · exact ih gs h g hg

theorem prod_one_in_range : ∀ (shape : List Nat), prod shape = 1 →
    List.Forall₂ (· < ·) (List.replicate shape.length 0) shape := by
  intro shape
  induction shape with
  | nil => intro _; exact List.Forall₂.nil
  | cons s ss ih =>
    intro h
    simp only [prod] at h
    have h1 : s = 1 := Nat.eq_one_of_mul_eq_one_right h
    have h2 : prod ss = 1 := Nat.eq_one_of_mul_eq_one_left h
    simp only [List.length_cons, List.replicate_succ]
    exact List.Forall₂.cons (by omega) (ih h2)

/-- what `InterpND::new` establishes when the interpolator has a dimension: exactly one accepted axis per
dimension of the table -/
theorem validateN_axes (m : ND α) (hv : validateN m = .ok ()) (hpos : 0 < m.ndim) :
    m.ndim = m.shape.length ∧ List.Forall₂ AxisOk m.grid m.shape := by
  have hn : m.ndim = m.shape.length := by
    unfold ND.ndim at hpos ⊢
    split
    · rename_i h; rw [if_pos h] at hpos; omega
    · rfl
  refine ⟨hn, ?_⟩
  unfold validateN at hv
  simp only at hv
  by_cases hgd : ndGridLen m.grid ≠ m.ndim
  · rw [if_pos hgd] at hv; cases hv
  rw [if_neg hgd] at hv
  have hgd' : ndGridLen m.grid = m.ndim := not_not.mp hgd
  have hgl : m.grid.length = m.ndim := by
    unfold ndGridLen at hgd'
    cases hgrid : m.grid with
    | nil => rw [hgrid] at hgd'; simp only at hgd'; omega
    | cons g0 gr =>
      rw [hgrid] at hgd'
      simp only at hgd'
      by_cases hg0 : g0.isEmpty = true
      · rw [if_pos hg0] at hgd'; omega
      · rw [if_neg hg0] at hgd'; exact hgd'
  obtain ⟨_, hA, hv⟩ := Res.bind_eq_ok hv
  obtain ⟨_, hB, hC⟩ := Res.bind_eq_ok hv
  rw [hn] at hA hB hC
  obtain ⟨gs, rest, e, hlen, hf⟩ := nd_checks_spec m.shape.length m.grid m.shape rfl hB hC
  have hrest : rest = [] := by
    have : (gs ++ rest).length = m.shape.length := by rw [← e, hgl, hn]
    rw [List.length_append, hlen] at this
    exact List.length_eq_zero_iff.mp (by omega)
  have hne := ndCheckNonEmpty_spec m.shape.length m.grid hA
  rw [List.take_of_length_le (by omega)] at hne
  rw [hrest, List.append_nil] at e
  rw [e] at hne ⊢
  exact forall₂_and_left hf hne

theorem interpolate_dn_eq (m : ND α) (pt : List α) (s : Strategy) :
    Interpolator.interpolate (.dn m) pt s =
      (Interpolator.validateInputs (.dn m) pt).bind fun _ =>
        if s = .none ∨ s = .linear then linearN m pt else .err .strategy := rfl

/-- `Interpolator::interpolate` on every N-D interpolator `InterpND::new` accepts (one-point axes, a single
value with or without grids included), every point and every strategy: never a panic.  `hget` says the
table holds a value at every index of its shape (true of an `ArrayD`). -/
theorem interpolate_dn_graceful (m : ND α) (hv : validateN m = .ok ())
    (hget : ∀ ix, List.Forall₂ (· < ·) ix m.shape → ∃ v, m.get ix = .ok v) (pt : List α) (s : Strategy) :
    (Interpolator.interpolate (.dn m) pt s).Graceful := by
  rw [interpolate_dn_eq, validateInputs_dn]
  by_cases hpl : (m.ndim = 0 ∧ pt.length ≠ 0) ∨ (m.ndim ≠ 0 ∧ pt.length ≠ m.ndim)
  · rw [if_pos hpl]; exact Res.Graceful.err _
  rw [if_neg hpl]
  by_cases hn0 : m.ndim = 0
  · -- a single value: the empty point
    have hpt : pt = [] := List.length_eq_zero_iff.mp (by
      by_contra h; exact hpl (Or.inl ⟨hn0, h⟩))
    subst hpt
    rw [hn0]
    simp only [ndInGrid, Res.ok_bind]
    by_cases hs : s = .none ∨ s = .linear
    · rw [if_pos hs]
      have hprod : prod m.shape = 1 := by
        unfold ND.ndim at hn0
        by_contra h
        rw [if_neg h] at hn0
        have : m.shape = [] := List.length_eq_zero_iff.mp hn0
        rw [this] at h; exact h rfl
      obtain ⟨v, hv'⟩ := hget _ (prod_one_in_range m.shape hprod)
      unfold linearN
      simp only [hn0, ndPlan, Res.ok_bind, ndViewLen, if_true, ndFirstIndex, List.nil_append, List.length_nil,
        Nat.sub_zero, hv']
      exact Res.Graceful.ok _
    · rw [if_neg hs]; exact Res.Graceful.err _
  · obtain ⟨hn, hax⟩ := validateN_axes m hv (by omega)
    have hlen : m.grid.length = m.shape.length := hax.length_eq
    have hptl : pt.length = m.grid.length := by
      by_contra h
      apply hpl; right
      exact ⟨hn0, by omega⟩
    have hne : ∀ g ∈ m.grid, g ≠ [] := by
      intro g hg
      obtain ⟨_, _, h, _⟩ := forall₂_mem_left hax hg
      exact h
    by_cases hp : List.Forall₂ InAxis m.grid pt
    · have hin : ndInGrid m.ndim m.grid pt = .ok () := by
        rw [hn, ← hlen]; exact ndInGrid_ok m.grid pt hp
      rw [hin, Res.ok_bind]
      by_cases hs : s = .none ∨ s = .linear
      · rw [if_pos hs]; exact linearN_graceful m pt hn hax hget hp
      · rw [if_neg hs]; exact Res.Graceful.err _
    · have hin : ndInGrid m.ndim m.grid pt = .err .outside := by
        rw [hn, ← hlen]; exact ndInGrid_err m.grid pt hne hptl.symm hp
      rw [hin]; exact Res.Graceful.err _

/-! ### `load_prediction_model`: every model type, nested interpolation included -/

/-- every model `new` returns answers every input -/
theorem new_predict_total (underlying : α → α → α) (su : SpeedUnit) (s0 s1 : α) (sb : Nat) (gu : GradeUnit)
    (g0 g1 : α) (gb : Nat) (ru : EnergyRateUnit) (m : SpeedGradeModel α)
    (hnew : SpeedGradeModel.new underlying su s0 s1 sb gu g0 g1 gb ru = .ok m)
    (speed : α) (qsu : SpeedUnit) (grade : α) (qgu : GradeUnit) :
    ∃ v, m.predict speed qsu grade qgu = .ok (v, ru) := by
  obtain ⟨xs, ys, _, _, hm, sxs, sys, lx, ly, hsb, hgb⟩ := new_inv underlying su s0 s1 sb gu g0 g1 gb ru m hnew
  subst hm
  obtain ⟨_, _, _, _, _, _, hp⟩ := predict_spec xs ys (sgTable underlying ru xs ys) su gu ru ⟨sxs, by omega⟩
    ⟨sys, by omega⟩ (sgTable_rect _ _ _ _) speed qsu grade qgu
  exact ⟨_, hp⟩

/-- the rate a prediction model gives at a speed and grade in the given units (loaded models always
answer — `loaded_spec` — so the default is never used) -/
def rateOf (p : PModel α) (su : SpeedUnit) (gu : GradeUnit) : α → α → α :=
  fun s g => match p s su g gu with
    | .ok (v, _) => v
    | _ => zero

theorem rateOf_smartcore (rf : α → α → α) (su : SpeedUnit) (gu : GradeUnit) (ru : EnergyRateUnit) :
    rateOf (smartcorePredict rf su gu ru) su gu = rf := by
  funext s g
  simp [rateOf, smartcorePredict, speed_convert_self, grade_convert_self]

theorem linspaceAlloc_cases (cap : Nat) (x0 xend : α) (n : Nat) :
    (cap < n ∧ linspaceAlloc cap x0 xend n = .err .alloc) ∨
      ((n = 0 ∨ n ≤ cap) ∧ linspaceAlloc cap x0 xend n = linspace x0 xend n) := by
  cases n with
  | zero => exact Or.inr ⟨Or.inl rfl, rfl⟩
  | succ m =>
    by_cases h : cap < m + 1
    · exact Or.inl ⟨h, by simp [linspaceAlloc, h]⟩
    · exact Or.inr ⟨Or.inr (by omega), by simp [linspaceAlloc, h]⟩

/-- `newAlloc` refuses exactly the counts that cannot be allocated, and is `new` otherwise -/
theorem newAlloc_eq (cap : Nat) (underlying : α → α → α) (su : SpeedUnit) (s0 s1 : α) (sb : Nat)
    (gu : GradeUnit) (g0 g1 : α) (gb : Nat) (ru : EnergyRateUnit) :
    SpeedGradeModel.newAlloc cap underlying su s0 s1 sb gu g0 g1 gb ru =
      if cap < sb ∨ cap < gb ∨ cap < sb * gb then .err .alloc
      else SpeedGradeModel.new underlying su s0 s1 sb gu g0 g1 gb ru := by
  unfold SpeedGradeModel.newAlloc
  obtain ⟨xs, hx⟩ := linspace_ok s0 s1 sb
  obtain ⟨ys, hy⟩ := linspace_ok g0 g1 gb
  rcases linspaceAlloc_cases cap s0 s1 sb with ⟨h1, e1⟩ | ⟨h1, e1⟩
  · rw [e1, if_pos (Or.inl h1)]; rfl
  · rw [e1, hx, Res.ok_bind]
    rcases linspaceAlloc_cases cap g0 g1 gb with ⟨h2, e2⟩ | ⟨h2, e2⟩
    · rw [e2, if_pos (Or.inr (Or.inl h2))]; rfl
    · rw [e2, hy, Res.ok_bind]
      by_cases h3 : cap < sb * gb
      · rw [if_pos h3, if_pos (Or.inr (Or.inr h3))]
      · rw [if_neg h3, if_neg]
        rintro (h | h | h)
        · rcases h1 with h1 | h1
          · omega
          · omega
        · rcases h2 with h2 | h2
          · omega
          · omega
        · exact h3 h

/-- what `newAlloc` returns, `new` returns: every theorem about the models of `new` applies -/
theorem newAlloc_ok_new (cap : Nat) (underlying : α → α → α) (su : SpeedUnit) (s0 s1 : α) (sb : Nat)
    (gu : GradeUnit) (g0 g1 : α) (gb : Nat) (ru : EnergyRateUnit) (m : SpeedGradeModel α)
    (h : SpeedGradeModel.newAlloc cap underlying su s0 s1 sb gu g0 g1 gb ru = .ok m) :
    SpeedGradeModel.new underlying su s0 s1 sb gu g0 g1 gb ru = .ok m ∧ sb ≤ cap ∧ gb ≤ cap ∧ sb * gb ≤ cap := by
  rw [newAlloc_eq] at h
  by_cases hc : cap < sb ∨ cap < gb ∨ cap < sb * gb
  · rw [if_pos hc] at h; cases h
  · rw [if_neg hc] at h
    exact ⟨h, by omega, by omega, by omega⟩

/-- the `Interpolate` arm over *any* underlying model type that loaded: it is
`InterpolationSpeedGradeModel::new` (with its allocations) over the underlying record's rates, with the
configured bounds and bins -/
theorem load_interpolate_eq (cap : Nat) (rf : α → α → α) (u : ModelType α) (su : SpeedUnit) (gu : GradeUnit)
    (ru : EnergyRateUnit) (s0 s1 : α) (sb : Nat) (g0 g1 : α) (gb : Nat) (ideal adj : Option α)
    (urec : Record α) (hu : loadPredictionModel cap rf true u su gu ru none none = .ok urec)
    (htot : ∀ s qsu g qgu, ∃ v, urec.model s qsu g qgu = .ok (v, ru))
    (hadj : urec.realWorldEnergyAdjustment = one) (hru : urec.energyRateUnit = ru) :
    loadPredictionModel cap rf true (.interpolate u s0 s1 sb g0 g1 gb) su gu ru ideal adj =
      (SpeedGradeModel.newAlloc cap (rateOf urec.model su gu) su s0 s1 sb gu g0 g1 gb ru).bind fun m =>
        (match ideal with
         | some x => (.ok x : Res α)
         | none => findMinEnergyRate m.predict).bind fun idealRate =>
          .ok { model := m.predict, speedUnit := su, gradeUnit := gu, energyRateUnit := ru,
                idealEnergyRate := idealRate,
                realWorldEnergyAdjustment := match adj with | some a => a | none => one } := by
  obtain ⟨xs, hx⟩ := linspace_ok s0 s1 sb
  obtain ⟨ys, hy⟩ := linspace_ok g0 g1 gb
  have hfun : (fun (s g : α) =>
      (urec.predict s su g gu (one : α) ru.associatedDistanceUnit).bind fun e => (.ok e.1 : Res α))
      = fun s g => .ok ((createEnergy (rateOf urec.model su gu s g * one) ru (one : α) ru.associatedDistanceUnit).1) := by
    funext s g
    obtain ⟨v, hv⟩ := htot s su g gu
    simp [Record.predict, hv, rateOf, hadj, hru, Res.bind]
  unfold loadPredictionModel SpeedGradeModel.newAlloc
  simp only [hu, Res.ok_bind]
  rcases linspaceAlloc_cases cap s0 s1 sb with ⟨_, e1⟩ | ⟨_, e1⟩
  · simp only [e1, Res.err_bind]
  · rcases linspaceAlloc_cases cap g0 g1 gb with ⟨_, e2⟩ | ⟨_, e2⟩
    · simp only [e1, e2, hx, Res.ok_bind, Res.err_bind]
    · simp only [e1, e2, hx, hy, Res.ok_bind]
      by_cases h3 : cap < sb * gb
      · simp only [if_pos h3, Res.err_bind]
      · simp only [if_neg h3]
        rw [hfun, fillGrid_pure]
        unfold SpeedGradeModel.new gridValue
        simp only [hx, hy, Res.ok_bind]
        cases hval : validate2 xs ys
          (List.map (fun s => List.map (fun g =>
            (createEnergy (rateOf urec.model su gu s g * one) ru (one : α) ru.associatedDistanceUnit).1) ys) xs) <;> rfl

/-- every record `load_prediction_model` returns, whatever the (nested) model type: its model answers
every input with a rate in the configured unit, and it carries the configured units and adjustment -/
theorem loaded_spec (cap : Nat) (rf : α → α → α) : ∀ (mt : ModelType α) (su : SpeedUnit) (gu : GradeUnit)
    (ru : EnergyRateUnit) (ideal adj : Option α) (r : Record α),
    loadPredictionModel cap rf true mt su gu ru ideal adj = .ok r →
    (∀ s qsu g qgu, ∃ v, r.model s qsu g qgu = .ok (v, ru)) ∧ r.speedUnit = su ∧ r.gradeUnit = gu ∧
      r.energyRateUnit = ru ∧ r.realWorldEnergyAdjustment = (match adj with | some a => a | none => one) := by
  intro mt
  induction mt with
  | smartcore =>
    intro su gu ru ideal adj r h
    rw [load_smartcore_eq] at h
    obtain ⟨i, _, h⟩ := Res.bind_eq_ok h
    cases h
    exact ⟨fun s qsu g qgu => ⟨_, rfl⟩, rfl, rfl, rfl, rfl⟩
  | onnx =>
    intro su gu ru ideal adj r h
    rw [load_onnx cap rf true .onnx rfl] at h; cases h
  | interpolate u s0 s1 sb g0 g1 gb ih =>
    intro su gu ru ideal adj r h
    cases hu : loadPredictionModel cap rf true u su gu ru none none with
    | ok urec =>
      obtain ⟨htot, _, _, hru, hadj⟩ := ih su gu ru none none urec hu
      rw [load_interpolate_eq cap rf u su gu ru s0 s1 sb g0 g1 gb ideal adj urec hu htot hadj hru] at h
      obtain ⟨m, hm', h⟩ := Res.bind_eq_ok h
      obtain ⟨hm, _⟩ := newAlloc_ok_new cap _ su s0 s1 sb gu g0 g1 gb ru m hm'
      obtain ⟨i, _, h⟩ := Res.bind_eq_ok h
      cases h
      refine ⟨?_, rfl, rfl, rfl, rfl⟩
      intro s qsu g qgu
      exact new_predict_total (rateOf urec.model su gu) su s0 s1 sb gu g0 g1 gb ru m hm s qsu g qgu
    | err e => unfold loadPredictionModel at h; simp only [hu, Res.err_bind] at h; cases h
    | panic st => unfold loadPredictionModel at h; simp only [hu] at h; cases h
    | diverges => unfold loadPredictionModel at h; simp only [hu] at h; cases h

/-- N-D rejection from what the constructor establishes alone (one-point axes allowed, no hypothesis on
the table) -/
theorem interpolate_dn_out_constructed (m : ND α) (hv : validateN m = .ok ()) (hpos : 0 < m.ndim)
    (pt : List α) (s : Strategy) (hl : pt.length = m.ndim) (hp : ¬ List.Forall₂ InAxis m.grid pt) :
    Interpolator.interpolate (.dn m) pt s = .err .outside := by
  obtain ⟨hn, hax⟩ := validateN_axes m hv hpos
  have hlen : m.grid.length = m.shape.length := hax.length_eq
  have hne : ∀ g ∈ m.grid, g ≠ [] := by
    intro g hg
    obtain ⟨_, _, h, _⟩ := forall₂_mem_left hax hg
    exact h
  have hpl : ¬ ((m.ndim = 0 ∧ pt.length ≠ 0) ∨ (m.ndim ≠ 0 ∧ pt.length ≠ m.ndim)) := by omega
  have hin : ndInGrid m.ndim m.grid pt = .err .outside := by
    rw [hn, ← hlen]; exact ndInGrid_err m.grid pt hne (by omega) hp
  rw [interpolate_dn_eq, validateInputs_dn, if_neg hpl, hin]
  rfl

end
end Interp
end Compass
