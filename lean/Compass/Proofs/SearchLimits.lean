/-
C10 — search limits bound the work and never alter an answer, only stop it.

Part A: the termination model `TermM` (`Model/Instance.lean`, `TerminationModel::{test,
terminate_search, explain_termination}`), nested `combined` to any depth.
Part B: the search loop (`Model/Search.lean`) under an arbitrary limit function `I.term`, for every
instance, source, target and schedule: the loop heads a run goes through (`Reach`), what an `.ok`
result says about them, and the bounds that follow for the three kinds of limit.
-/
import Compass.Proofs.Num
import Compass.Proofs.SearchTree
import Compass.Model.Search
import Compass.Model.Instance

namespace Compass
namespace SearchLimits

set_option linter.unusedSectionVars false

/-! ## Part A: the termination model -/

/-- induction principle of the nested inductive `TermM` -/
theorem TermM.induct {P : TermM → Prop}
    (hr : ∀ l f b p, P (.runtime l f b p)) (hs : ∀ l, P (.size l)) (hi : ∀ l, P (.iters l))
    (hc : ∀ ms, (∀ m ∈ ms, P m) → P (.combined ms)) : ∀ m, P m := by
  intro m
  exact TermM.rec (motive_1 := P) (motive_2 := fun ms => ∀ m ∈ ms, P m)
    hr hs hi (fun ms ih => hc ms ih) (by simp)
    (fun m ms ihm ihms => by
      intro m' hm'
      rcases List.mem_cons.1 hm' with rfl | h
      · exact ihm
      · exact ihms m' h) m

/-- `Leaf l m`: the single limit `l` (runtime / size / iterations) occurs in `m`, at any depth -/
inductive Leaf : TermM → TermM → Prop
  | runtime (l f b p : Nat) : Leaf (.runtime l f b p) (.runtime l f b p)
  | size (l : Nat) : Leaf (.size l) (.size l)
  | iters (l : Nat) : Leaf (.iters l) (.iters l)
  | combined {l m : TermM} {ms : List TermM} : m ∈ ms → Leaf l m → Leaf l (.combined ms)

/-- the kind named by `explain_termination` for a single limit -/
def kindOf : TermM → TermKind
  | .runtime _ _ _ _ => .runtime
  | .size _ => .size
  | .iters _ => .iterations
  | .combined _ => .runtime   -- never a `Leaf`

/-- some runtime limit of the model has check frequency 0 (`iteration % 0` panics) -/
def ZeroFreq (m : TermM) : Prop := ∃ l b p, Leaf (.runtime l 0 b p) m

theorem ZeroFreq.combined {m : TermM} {ms : List TermM} (hm : m ∈ ms) (h : ZeroFreq m) :
    ZeroFreq (.combined ms) := by
  obtain ⟨l, b, p, hl⟩ := h
  exact ⟨l, b, p, Leaf.combined hm hl⟩

theorem zeroFreq_combined_iff {ms : List TermM} :
    ZeroFreq (.combined ms) ↔ ∃ m ∈ ms, ZeroFreq m := by
  constructor
  · rintro ⟨l, b, p, hl⟩
    cases hl with
    | combined hm hl => exact ⟨_, hm, l, b, p, hl⟩
  · rintro ⟨m, hm, h⟩
    exact h.combined hm

/-! ### the two `where` helpers, by list induction -/

theorem firesList_none {ms : List TermM} {sz it : Nat} {acc : Bool} :
    TermM.fires.firesList ms sz it acc = none ↔ ∃ m ∈ ms, m.fires sz it = none := by
  induction ms generalizing acc with
  | nil => simp [TermM.fires.firesList]
  | cons m ms ih =>
    simp only [TermM.fires.firesList]
    cases hm : m.fires sz it with
    | none => simp [hm]
    | some r =>
      simp only [ih, List.mem_cons, exists_eq_or_imp, hm]
      simp

theorem firesList_some {ms : List TermM} {sz it : Nat} {acc r : Bool}
    (h : TermM.fires.firesList ms sz it acc = some r) :
    r = true ↔ acc = true ∨ ∃ m ∈ ms, m.fires sz it = some true := by
  induction ms generalizing acc with
  | nil =>
    simp only [TermM.fires.firesList, Option.some.injEq] at h
    simp [h]
  | cons m ms ih =>
    simp only [TermM.fires.firesList] at h
    cases hm : m.fires sz it with
    | none => simp [hm] at h
    | some r' =>
      simp only [hm] at h
      rw [ih h]
      cases r' <;> simp [hm]

theorem mem_explainList {ms : List TermM} {sz it : Nat} {k : TermKind} :
    k ∈ TermM.explain.explainList ms sz it ↔ ∃ m ∈ ms, k ∈ m.explain sz it := by
  induction ms with
  | nil => simp [TermM.explain.explainList]
  | cons m ms ih => simp [TermM.explain.explainList, ih]

/-! ### `terminate_search` -/

/-- the division-by-zero panic is reached exactly when some runtime limit has frequency 0
(`try_fold` visits every sub-model: `acc || r` does not short-circuit) -/
theorem fires_none_iff (sz it : Nat) : ∀ m : TermM, m.fires sz it = none ↔ ZeroFreq m := by
  intro m
  induction m using TermM.induct with
  | hr l f b p =>
    constructor
    · intro h
      by_cases hf : f = 0
      · subst hf; exact ⟨l, b, p, Leaf.runtime _ _ _ _⟩
      · simp only [TermM.fires, hf, if_false] at h
        split at h <;> cases h
    · rintro ⟨l', b', p', hl⟩
      cases hl
      simp [TermM.fires]
  | hs l =>
    constructor
    · intro h; simp [TermM.fires] at h
    · rintro ⟨l', b', p', hl⟩; cases hl
  | hi l =>
    constructor
    · intro h; simp [TermM.fires] at h
    · rintro ⟨l', b', p', hl⟩; cases hl
  | hc ms ih =>
    rw [zeroFreq_combined_iff]
    simp only [TermM.fires, firesList_none]
    constructor
    · rintro ⟨m, hm, h⟩; exact ⟨m, hm, (ih m hm).1 h⟩
    · rintro ⟨m, hm, h⟩; exact ⟨m, hm, (ih m hm).2 h⟩

/-- a `Leaf` is a single limit: its own `explain` names its kind exactly when it fires -/
theorem Leaf.explain_self {l m : TermM} (h : Leaf l m) (sz it : Nat) (k : TermKind) :
    k ∈ l.explain sz it ↔ kindOf l = k ∧ l.fires sz it = some true := by
  induction h with
  | runtime l f b p =>
    simp only [TermM.explain, kindOf]
    split <;> simp_all [eq_comm]
  | size l =>
    simp only [TermM.explain, kindOf]
    split <;> simp_all [eq_comm]
  | iters l =>
    simp only [TermM.explain, kindOf]
    split <;> simp_all [eq_comm]
  | combined _ _ ih => exact ih

/-- combined = any fires: the model fires iff no frequency is 0 and some limit in it fires -/
theorem fires_true_iff (sz it : Nat) : ∀ m : TermM,
    m.fires sz it = some true ↔ ¬ ZeroFreq m ∧ ∃ l, Leaf l m ∧ l.fires sz it = some true := by
  intro m
  induction m using TermM.induct with
  | hr l f b p =>
    constructor
    · intro h
      refine ⟨fun hz => ?_, _, Leaf.runtime _ _ _ _, h⟩
      rw [← fires_none_iff sz it, h] at hz; cases hz
    · rintro ⟨_, l', hl, hf⟩; cases hl; exact hf
  | hs l =>
    constructor
    · intro h
      refine ⟨fun hz => ?_, _, Leaf.size _, h⟩
      rw [← fires_none_iff sz it, h] at hz; cases hz
    · rintro ⟨_, l', hl, hf⟩; cases hl; exact hf
  | hi l =>
    constructor
    · intro h
      refine ⟨fun hz => ?_, _, Leaf.iters _, h⟩
      rw [← fires_none_iff sz it, h] at hz; cases hz
    · rintro ⟨_, l', hl, hf⟩; cases hl; exact hf
  | hc ms ih =>
    constructor
    · intro h
      refine ⟨fun hz => ?_, ?_⟩
      · rw [← fires_none_iff sz it, h] at hz; cases hz
      · simp only [TermM.fires] at h
        rcases (firesList_some h).1 rfl with h' | ⟨m, hm, hf⟩
        · cases h'
        · obtain ⟨_, l, hl, hlf⟩ := (ih m hm).1 hf
          exact ⟨l, Leaf.combined hm hl, hlf⟩
    · rintro ⟨hz, l, hl, hlf⟩
      cases hl with
      | @combined _ m _ hm hl =>
        have hmz : ¬ ZeroFreq m := fun h => hz (h.combined hm)
        have hmf : m.fires sz it = some true := (ih m hm).2 ⟨hmz, l, hl, hlf⟩
        cases hc : (TermM.combined ms).fires sz it with
        | none => exact absurd ((fires_none_iff sz it _).1 hc) hz
        | some r =>
          simp only [TermM.fires] at hc
          rw [(firesList_some hc).2 (Or.inr ⟨m, hm, hmf⟩)]

/-- `terminate_search = Ok(false)`: no frequency is 0 and no limit in the model fires -/
theorem fires_false_iff (sz it : Nat) (m : TermM) :
    m.fires sz it = some false ↔
      ¬ ZeroFreq m ∧ ∀ l, Leaf l m → l.fires sz it ≠ some true := by
  constructor
  · intro h
    refine ⟨fun hz => ?_, fun l hl hlf => ?_⟩
    · rw [← fires_none_iff sz it, h] at hz; cases hz
    · have hz : ¬ ZeroFreq m := fun hz => by rw [← fires_none_iff sz it, h] at hz; cases hz
      have := (fires_true_iff sz it m).2 ⟨hz, l, hl, hlf⟩
      rw [h] at this; cases this
  · rintro ⟨hz, hall⟩
    cases hf : m.fires sz it with
    | none => exact absurd ((fires_none_iff sz it m).1 hf) hz
    | some r =>
      cases r with
      | false => rfl
      | true =>
        obtain ⟨_, l, hl, hlf⟩ := (fires_true_iff sz it m).1 hf
        exact absurd hlf (hall l hl)

/-! ### `explain_termination` -/

/-- the kinds named are exactly the kinds of the limits in the model that themselves fire -/
theorem mem_explain (sz it : Nat) (k : TermKind) : ∀ m : TermM,
    k ∈ m.explain sz it ↔ ∃ l, Leaf l m ∧ kindOf l = k ∧ l.fires sz it = some true := by
  intro m
  induction m using TermM.induct with
  | hr l f b p =>
    rw [(Leaf.runtime l f b p).explain_self]
    constructor
    · intro h; exact ⟨_, Leaf.runtime _ _ _ _, h⟩
    · rintro ⟨l', hl, h⟩; cases hl; exact h
  | hs l =>
    rw [(Leaf.size l).explain_self]
    constructor
    · intro h; exact ⟨_, Leaf.size _, h⟩
    · rintro ⟨l', hl, h⟩; cases hl; exact h
  | hi l =>
    rw [(Leaf.iters l).explain_self]
    constructor
    · intro h; exact ⟨_, Leaf.iters _, h⟩
    · rintro ⟨l', hl, h⟩; cases hl; exact h
  | hc ms ih =>
    simp only [TermM.explain, mem_explainList]
    constructor
    · rintro ⟨m, hm, h⟩
      obtain ⟨l, hl, h2⟩ := (ih m hm).1 h
      exact ⟨l, Leaf.combined hm hl, h2⟩
    · rintro ⟨l, hl, h2⟩
      cases hl with
      | @combined _ m _ hm hl => exact ⟨m, hm, (ih m hm).2 ⟨l, hl, h2⟩⟩

/-- whenever the model fires, it can explain: the `RuntimeError("unable to explain termination")`
branch of `test` is unreachable -/
theorem explain_ne_nil {m : TermM} {sz it : Nat} (h : m.fires sz it = some true) :
    m.explain sz it ≠ [] := by
  obtain ⟨_, l, hl, hlf⟩ := (fires_true_iff sz it m).1 h
  have : kindOf l ∈ m.explain sz it := (mem_explain sz it _ m).2 ⟨l, hl, rfl, hlf⟩
  exact List.ne_nil_of_mem this

/-! ### `test` -/

/-- **terminated_is_explicit** (termination-model half).  `test` has exactly three outcomes:
`Ok(())` when nothing fires; `QueryTerminated` naming a non-empty list of kinds, each the kind of a
limit occurring in the model that itself fires at these counters; or the `iteration % 0` panic,
which happens exactly when some runtime limit in the model has frequency 0.  The
`RuntimeError("unable to explain termination")` outcome (`.internal`) never occurs. -/
theorem terminated_is_explicit (m : TermM) (sz it : Nat) :
    (m.test sz it = .ok () ∧ m.fires sz it = some false) ∨
    (∃ ks, m.test sz it = .error (.terminated ks) ∧ m.fires sz it = some true ∧ ks ≠ [] ∧
        ks = m.explain sz it ∧
        ∀ k ∈ ks, ∃ l, Leaf l m ∧ kindOf l = k ∧ l.fires sz it = some true) ∨
    (m.test sz it = .error (.panic "termination-frequency-zero") ∧ ZeroFreq m) := by
  cases hf : m.fires sz it with
  | none =>
    right; right
    exact ⟨by simp [TermM.test, hf], (fires_none_iff sz it m).1 hf⟩
  | some r =>
    cases r with
    | false => left; exact ⟨by simp [TermM.test, hf], rfl⟩
    | true =>
      right; left
      have hne := explain_ne_nil hf
      refine ⟨m.explain sz it, ?_, rfl, hne, rfl, fun k hk => (mem_explain sz it k m).1 hk⟩
      simp only [TermM.test, hf]

/-- the panic outcome, as an equivalence -/
theorem test_panic_iff (m : TermM) (sz it : Nat) :
    m.test sz it = .error (.panic "termination-frequency-zero") ↔ ZeroFreq m := by
  constructor
  · intro h
    rcases terminated_is_explicit m sz it with h1 | ⟨ks, h1, _⟩ | h1
    · rw [h1.1] at h; cases h
    · rw [h1] at h; cases h
    · exact h1.2
  · intro hz
    simp [TermM.test, (fires_none_iff sz it m).2 hz]

/-- the "unable to explain" outcome is unreachable -/
theorem test_ne_internal (m : TermM) (sz it : Nat) : m.test sz it ≠ .error .internal := by
  intro h
  rcases terminated_is_explicit m sz it with h1 | ⟨ks, h1, _⟩ | h1
  · rw [h1.1] at h; cases h
  · rw [h1] at h; cases h
  · rw [h1.1] at h; cases h

/-- a limit test never answers "no path" (nor any error other than the two above) -/
theorem test_error_kinds (m : TermM) (sz it : Nat) (k : ErrKind) (h : m.test sz it = .error k) :
    (∃ ks, k = .terminated ks ∧ ks ≠ []) ∨ k = .panic "termination-frequency-zero" := by
  rcases terminated_is_explicit m sz it with h1 | ⟨ks, h1, _, hne, _⟩ | h1
  · rw [h1.1] at h; cases h
  · rw [h1] at h; cases h; exact Or.inl ⟨ks, rfl, hne⟩
  · rw [h1.1] at h; cases h; exact Or.inr rfl

/-- `test = Ok(())` exactly when `terminate_search = Ok(false)` -/
theorem test_ok_iff (m : TermM) (sz it : Nat) :
    m.test sz it = .ok () ↔ m.fires sz it = some false := by
  constructor
  · intro h
    rcases terminated_is_explicit m sz it with h1 | ⟨ks, h1, _⟩ | h1
    · exact h1.2
    · rw [h1] at h; cases h
    · rw [h1.1] at h; cases h
  · intro h; simp [TermM.test, h]

/-- the test passes only if no limit occurring in the model fires -/
theorem test_ok_leaf {m : TermM} {sz it : Nat} (h : m.test sz it = .ok ()) {l : TermM}
    (hl : Leaf l m) : l.fires sz it ≠ some true :=
  ((fires_false_iff sz it m).1 ((test_ok_iff m sz it).1 h)).2 l hl

/-- bridge for `iterations_le_limit`: an `iters L` limit anywhere in the model makes the test fail
whenever `it + 1 > L` -/
theorem test_error_of_iters {m : TermM} {L : Nat} (hl : Leaf (.iters L) m) (sz it : Nat)
    (h : L < it + 1) : ∃ k, m.test sz it = .error k := by
  cases ht : m.test sz it with
  | error k => exact ⟨k, rfl⟩
  | ok u =>
    exfalso
    apply test_ok_leaf ht hl
    simp [TermM.fires, h]

/-- bridge for `size_le_limit_plus_degree`: a `size S` limit anywhere in the model makes the test
fail whenever `sz > S` -/
theorem test_error_of_size {m : TermM} {S : Nat} (hl : Leaf (.size S) m) (sz it : Nat)
    (h : S < sz) : ∃ k, m.test sz it = .error k := by
  cases ht : m.test sz it with
  | error k => exact ⟨k, rfl⟩
  | ok u =>
    exfalso
    apply test_ok_leaf ht hl
    simp [TermM.fires, h]

/-- bridge for `runtime_stops_at_next_check`: a runtime limit anywhere in the model makes the test
fail at every scheduled check at which the clock exceeds the budget -/
theorem test_error_of_runtime {m : TermM} {limitNs freq baseNs perNs : Nat}
    (hl : Leaf (.runtime limitNs freq baseNs perNs) m) (sz it : Nat)
    (hcheck : freq = 0 ∨ it % freq = 0) (h : limitNs < baseNs + perNs * it) :
    ∃ k, m.test sz it = .error k := by
  cases ht : m.test sz it with
  | error k => exact ⟨k, rfl⟩
  | ok u =>
    exfalso
    by_cases hf : freq = 0
    · subst hf
      have := (test_panic_iff m sz it).2 ⟨_, _, _, hl⟩
      rw [ht] at this; cases this
    · apply test_ok_leaf ht hl
      have hc : it % freq = 0 := hcheck.resolve_left hf
      simp [TermM.fires, hf, hc, h]

/-! ## Part B: the search loop under a limit function -/

variable {α : Type} [Field α] [LinearOrder α] [IsStrictOrderedRing α] [Lit α] [LawfulLit α]

/-! ### what one `for` loop does to the counters -/

/-- one relaxation leaves `iterations` alone and adds at most one tree entry -/
theorem relax_counters {I : Inst α} {hasTarget : Bool} {lastEdge : Option Nat} {curState : List α}
    {s s' : SState α} {e : Nat} (h : relax I hasTarget lastEdge curState s e = .ok s') :
    s'.iters = s.iters ∧ s.solSize ≤ s'.solSize ∧ s'.solSize ≤ s.solSize + 1 := by
  unfold relax at h
  split at h
  · cases h
  · cases h; exact ⟨rfl, le_refl _, Nat.le_succ _⟩
  · split at h
    · cases h
    · split at h
      · cases h; exact ⟨rfl, le_refl _, Nat.le_succ _⟩
      · simp only at h
        split at h
        · split at h
          · cases h
          · cases h
            refine ⟨rfl, ?_, ?_⟩
            · simp only
              split
              · exact Nat.le_succ _
              · exact le_refl _
            · simp only
              split
              · exact le_refl _
              · exact Nat.le_succ _
        · cases h; exact ⟨rfl, le_refl _, Nat.le_succ _⟩

/-- the `for` loop over `es` leaves `iterations` alone and adds at most one tree entry per edge -/
theorem relaxAll_counters {I : Inst α} {hasTarget : Bool} {lastEdge : Option Nat}
    {curState : List α} :
    ∀ (es : List Nat) (s s' : SState α), relaxAll I hasTarget lastEdge curState es s = .ok s' →
      s'.iters = s.iters ∧ s.solSize ≤ s'.solSize ∧ s'.solSize ≤ s.solSize + es.length
  | [], s, s', h => by
    simp only [relaxAll] at h
    cases h; exact ⟨rfl, le_refl _, by simp⟩
  | e :: es, s, s', h => by
    simp only [relaxAll] at h
    split at h
    · cases h
    · rename_i s1 h1
      obtain ⟨a1, a2, a3⟩ := relax_counters h1
      obtain ⟨b1, b2, b3⟩ := relaxAll_counters es s1 s' h
      refine ⟨by rw [b1, a1], le_trans a2 b2, ?_⟩
      simp only [List.length_cons]; omega

/-! ### loop heads -/

/-- `get_last_traversed_edge_id` / the state lookup at the popped vertex -/
def curOf (I : Inst α) (source : Nat) (s : SState α) (v : Nat) : Option (Option Nat × List α) :=
  if v = source then some (none, I.init)
  else match s.sol v with
    | some b => some (some b.edge, b.state)
    | none => none

/-- the state after `costs.pop()` returned `v` -/
def popped (s : SState α) (v : Nat) : SState α :=
  { s with queue := s.queue.filter (fun p => !(p.1 == v)) }

/-- `Turn I source target s v s'`: at loop head `s` the limit test passes, the queue is not empty,
`v` is an accepted pop and not the target, the `for` loop over its incident edges succeeds, and
`s'` is the next loop head (`iterations += 1`) -/
structure Turn (I : Inst α) (source : Nat) (target : Option Nat) (s : SState α) (v : Nat)
    (s' : SState α) : Prop where
  term_ok : I.term s.solSize s.iters = .ok ()
  nonempty : s.queue.isEmpty = false
  pop_ok : popOk s.queue v = true
  not_target : target ≠ some v
  expand : ∃ lastEdge st s2, curOf I source s v = some (lastEdge, st) ∧
    relaxAll I target.isSome lastEdge st (I.incident v) (popped s v) = .ok s2 ∧
    s' = { s2 with iters := s2.iters + 1 }

/-- `Reach I source target pre s h`: started at loop head `s`, the loop expands the vertices `pre`
in this order (one complete turn each) and arrives at loop head `h` -/
inductive Reach (I : Inst α) (source : Nat) (target : Option Nat) :
    List Nat → SState α → SState α → Prop
  | here (s : SState α) : Reach I source target [] s s
  | turn {v : Nat} {rest : List Nat} {s s1 h : SState α} :
      Turn I source target s v s1 → Reach I source target rest s1 h →
      Reach I source target (v :: rest) s h

/-- the loop body, with the popped state and the lookup named -/
theorem runLoop_unfold (I : Inst α) (source : Nat) (target : Option Nat) (sched : List Nat)
    (s : SState α) :
    runLoop I source target sched s =
      match I.term s.solSize s.iters with
      | .error k => .error k
      | .ok () =>
        if s.queue.isEmpty then
          match target with
          | some _ => .error .noPath
          | none => .ok s
        else
          match sched with
          | [] => .error .scheduleExhausted
          | v :: rest =>
            if !popOk s.queue v then .error .badSchedule
            else if target == some v then .ok (popped s v)
            else
              match curOf I source s v with
              | none => .error .internal
              | some (lastEdge, st) =>
                match relaxAll I target.isSome lastEdge st (I.incident v) (popped s v) with
                | .error k => .error k
                | .ok s2 => runLoop I source target rest { s2 with iters := s2.iters + 1 } := by
  conv_lhs => unfold runLoop
  rfl

/-- a complete turn consumes one schedule entry -/
theorem runLoop_turn {I : Inst α} {source : Nat} {target : Option Nat} {s s1 : SState α} {v : Nat}
    (ht : Turn I source target s v s1) (rest : List Nat) :
    runLoop I source target (v :: rest) s = runLoop I source target rest s1 := by
  obtain ⟨h1, h2, h3, h4, lastEdge, st, s2, h5, h6, rfl⟩ := ht
  have h4' : (target == some v) = false := by simpa using h4
  rw [runLoop_unfold]
  simp only [h1, h2, h3, h4', h5, h6, Bool.false_eq_true, if_false, Bool.not_true]

/-- the run goes through every loop head it reaches -/
theorem Reach.runLoop_eq {I : Inst α} {source : Nat} {target : Option Nat} {pre : List Nat}
    {s h : SState α} (hr : Reach I source target pre s h) (rest : List Nat) :
    runLoop I source target (pre ++ rest) s = runLoop I source target rest h := by
  induction hr with
  | here s => rfl
  | turn ht _ ih => rw [List.cons_append, runLoop_turn ht, ih]

theorem Reach.snoc {I : Inst α} {source : Nat} {target : Option Nat} {pre : List Nat}
    {s h h' : SState α} {v : Nat} (hr : Reach I source target pre s h)
    (ht : Turn I source target h v h') : Reach I source target (pre ++ [v]) s h' := by
  induction hr with
  | here s => exact Reach.turn ht (Reach.here _)
  | turn ht' _ ih => exact Reach.turn ht' (ih ht)

/-- what a turn does to the counters -/
theorem Turn.counters {I : Inst α} {source : Nat} {target : Option Nat} {s s' : SState α} {v : Nat}
    (ht : Turn I source target s v s') :
    s'.iters = s.iters + 1 ∧ s.solSize ≤ s'.solSize ∧
      s'.solSize ≤ s.solSize + (I.incident v).length := by
  obtain ⟨_, _, _, _, lastEdge, st, s2, _, h6, rfl⟩ := ht
  obtain ⟨a1, a2, a3⟩ := relaxAll_counters _ _ _ h6
  exact ⟨by simp only [a1, popped], a2, a3⟩

/-- `iterations` counts the complete turns; `solution.len()` never decreases -/
theorem Reach.counters {I : Inst α} {source : Nat} {target : Option Nat} {pre : List Nat}
    {s h : SState α} (hr : Reach I source target pre s h) :
    h.iters = s.iters + pre.length ∧ s.solSize ≤ h.solSize := by
  induction hr with
  | here s => simp
  | turn ht _ ih =>
    obtain ⟨a1, a2, _⟩ := ht.counters
    refine ⟨?_, le_trans a2 ih.2⟩
    rw [ih.1, a1, List.length_cons]; omega

/-- how an `.ok` result comes about at the last loop head `h`: the queue is empty and there is no
target, or the target is the accepted pop -/
def Final (target : Option Nat) (h : SState α) (rest : List Nat) (s : SState α) : Prop :=
  (h.queue.isEmpty = true ∧ target = none ∧ s = h) ∨
  (∃ t rest', rest = t :: rest' ∧ h.queue.isEmpty = false ∧ popOk h.queue t = true ∧
    target = some t ∧ s = popped h t)

/-- one-step inversion of an `.ok` run -/
theorem runLoop_ok_inv {I : Inst α} {source : Nat} {target : Option Nat} {sched : List Nat}
    {s s' : SState α} (h : runLoop I source target sched s = .ok s') :
    I.term s.solSize s.iters = .ok () ∧
    (Final target s sched s' ∨
     ∃ v rest s1, sched = v :: rest ∧ Turn I source target s v s1 ∧
       runLoop I source target rest s1 = .ok s') := by
  rw [runLoop_unfold] at h
  split at h
  · cases h
  · rename_i hterm
    refine ⟨hterm, ?_⟩
    split at h
    · rename_i hemp
      split at h
      · cases h
      · cases h; exact Or.inl (Or.inl ⟨hemp, rfl, rfl⟩)
    · rename_i hemp
      have hemp' : s.queue.isEmpty = false := by simpa using hemp
      split at h
      · cases h
      · rename_i v rest
        split at h
        · cases h
        · rename_i hpop
          have hpop' : popOk s.queue v = true := by simpa using hpop
          split at h
          · rename_i htgt
            cases h
            have : target = some v := by simpa using htgt
            exact Or.inl (Or.inr ⟨v, rest, rfl, hemp', hpop', this, rfl⟩)
          · rename_i htgt
            have htv : target ≠ some v := by simpa using htgt
            split at h
            · cases h
            · rename_i lastEdge st hcur
              split at h
              · cases h
              · rename_i s2 hrel
                exact Or.inr ⟨v, rest, _, rfl,
                  ⟨hterm, hemp', hpop', htv, lastEdge, st, s2, hcur, hrel, rfl⟩, h⟩

/-- an `.ok` run decomposes into the loop heads it went through, the last of which passed the
limit test and produced the result -/
theorem runLoop_ok_reach {I : Inst α} {source : Nat} {target : Option Nat} :
    ∀ (sched : List Nat) (s s' : SState α), runLoop I source target sched s = .ok s' →
      ∃ pre rest h, sched = pre ++ rest ∧ Reach I source target pre s h ∧
        I.term h.solSize h.iters = .ok () ∧ Final target h rest s'
  | [], s, s', hrun => by
    obtain ⟨hterm, hfin | ⟨v, rest, s1, hs, _⟩⟩ := runLoop_ok_inv hrun
    · exact ⟨[], [], s, rfl, Reach.here s, hterm, hfin⟩
    · cases hs
  | v :: rest, s, s', hrun => by
    obtain ⟨hterm, hfin | ⟨v', rest', s1, hs, ht, hrun'⟩⟩ := runLoop_ok_inv hrun
    · exact ⟨[], v :: rest, s, rfl, Reach.here s, hterm, hfin⟩
    · cases hs
      obtain ⟨pre, rest'', h, hsched, hr, hterm', hfin⟩ := runLoop_ok_reach rest s1 s' hrun'
      exact ⟨v :: pre, rest'', h, by rw [hsched]; rfl, Reach.turn ht hr, hterm', hfin⟩

/-- the result of an `.ok` run carries the labels, tree and counters of the last loop head -/
theorem Final.fields {target : Option Nat} {h s : SState α} {rest : List Nat}
    (hf : Final target h rest s) :
    s.g = h.g ∧ s.sol = h.sol ∧ s.solSize = h.solSize ∧ s.iters = h.iters := by
  rcases hf with ⟨_, _, rfl⟩ | ⟨t, rest', _, _, _, _, rfl⟩
  · exact ⟨rfl, rfl, rfl, rfl⟩
  · exact ⟨rfl, rfl, rfl, rfl⟩

/-- **limit_outcome**: a run that returns a result passed the limit test at *every* loop head it
went through (in particular at the last one, where the result was produced) -/
theorem ok_passes_every_head {I : Inst α} {source : Nat} {target : Option Nat} {pre rest : List Nat}
    {s h s' : SState α} (hrun : runLoop I source target (pre ++ rest) s = .ok s')
    (hr : Reach I source target pre s h) : I.term h.solSize h.iters = .ok () := by
  rw [hr.runLoop_eq] at hrun
  exact (runLoop_ok_inv hrun).1

/-- `limit_outcome` for the concrete model: `terminate_search` answered `Ok(false)` at every loop
head of a run that returns -/
theorem limit_outcome {I : Inst α} {m : TermM} (hI : I.term = m.test) {source : Nat}
    {target : Option Nat} {pre rest : List Nat} {s h s' : SState α}
    (hrun : runLoop I source target (pre ++ rest) s = .ok s')
    (hr : Reach I source target pre s h) : m.fires h.solSize h.iters = some false := by
  have := ok_passes_every_head hrun hr
  rw [hI] at this
  exact (test_ok_iff m _ _).1 this

/-- a run that returns went through a loop head at every iteration count from the start to the
final one -/
theorem ok_head_at_every_iteration {I : Inst α} {source : Nat} {target : Option Nat}
    {sched : List Nat} {s s' : SState α} (hrun : runLoop I source target sched s = .ok s')
    (i : Nat) (h1 : s.iters ≤ i) (h2 : i ≤ s'.iters) :
    ∃ pre rest h, sched = pre ++ rest ∧ Reach I source target pre s h ∧ h.iters = i ∧
      I.term h.solSize i = .ok () := by
  induction sched generalizing s with
  | nil =>
    obtain ⟨hterm, hfin | ⟨v, rest, s1, hs, _⟩⟩ := runLoop_ok_inv hrun
    · have : i = s.iters := by have := hfin.fields.2.2.2; omega
      subst this
      exact ⟨[], [], s, rfl, Reach.here s, rfl, hterm⟩
    · cases hs
  | cons v rest ih =>
    obtain ⟨hterm, hfin | ⟨v', rest', s1, hs, ht, hrun'⟩⟩ := runLoop_ok_inv hrun
    · have : i = s.iters := by have := hfin.fields.2.2.2; omega
      subst this
      exact ⟨[], v :: rest, s, rfl, Reach.here s, rfl, hterm⟩
    · cases hs
      by_cases hi : i = s.iters
      · subst hi
        exact ⟨[], v :: rest, s, rfl, Reach.here s, rfl, hterm⟩
      · obtain ⟨pre, rest'', h, hsched, hr, hit, hterm'⟩ :=
          ih hrun' (by have := ht.counters.1; omega)
        exact ⟨v :: pre, rest'', h, by rw [hsched]; rfl, Reach.turn ht hr, hit, hterm'⟩

/-- the last loop head produces the result -/
theorem runLoop_final {I : Inst α} {source : Nat} {target : Option Nat} {h s : SState α}
    {rest : List Nat} (hterm : I.term h.solSize h.iters = .ok ()) (hf : Final target h rest s) :
    runLoop I source target rest h = .ok s := by
  rw [runLoop_unfold]
  rcases hf with ⟨h1, rfl, rfl⟩ | ⟨t, rest', rfl, h1, h2, rfl, rfl⟩
  · simp only [hterm, h1, if_true]
  · simp [hterm, h1, h2]

/-! ### limited_prefix and success_monotone -/

/-- the `for` loop never consults the limit function -/
theorem relaxAll_withTerm (I : Inst α) (t : Nat → Nat → Except ErrKind Unit) (hasTarget : Bool)
    (lastEdge : Option Nat) (curState : List α) :
    ∀ (es : List Nat) (s : SState α),
      relaxAll { I with term := t } hasTarget lastEdge curState es s =
        relaxAll I hasTarget lastEdge curState es s
  | [], s => rfl
  | e :: es, s => by
    simp only [relaxAll]
    have : relax { I with term := t } hasTarget lastEdge curState s e =
        relax I hasTarget lastEdge curState s e := rfl
    rw [this]
    split
    · rfl
    · exact relaxAll_withTerm I t hasTarget lastEdge curState es _

/-- a turn taken under one limit function is taken under any more permissive one -/
theorem Turn.mono {I : Inst α} {t₂ : Nat → Nat → Except ErrKind Unit}
    (hmono : ∀ sz it, I.term sz it = .ok () → t₂ sz it = .ok ()) {source : Nat}
    {target : Option Nat} {s s' : SState α} {v : Nat} (ht : Turn I source target s v s') :
    Turn { I with term := t₂ } source target s v s' := by
  obtain ⟨h1, h2, h3, h4, lastEdge, st, s2, h5, h6, h7⟩ := ht
  refine ⟨hmono _ _ h1, h2, h3, h4, lastEdge, st, s2, h5, ?_, h7⟩
  rw [relaxAll_withTerm]
  exact h6

/-- `success_monotone` for the loop -/
theorem runLoop_mono {I : Inst α} {t₂ : Nat → Nat → Except ErrKind Unit}
    (hmono : ∀ sz it, I.term sz it = .ok () → t₂ sz it = .ok ()) {source : Nat}
    {target : Option Nat} :
    ∀ (sched : List Nat) (s s' : SState α), runLoop I source target sched s = .ok s' →
      runLoop { I with term := t₂ } source target sched s = .ok s' := by
  intro sched s s' hrun
  obtain ⟨pre, rest, h, rfl, hr, hterm, hfin⟩ := runLoop_ok_reach sched s s' hrun
  clear hrun
  induction hr with
  | here s => exact runLoop_final (hmono _ _ hterm) hfin
  | turn ht _ ih =>
    rw [List.cons_append, runLoop_turn (ht.mono hmono)]
    exact ih hterm hfin

/-- the f-score the source is queued with -/
def startF (I : Inst α) (source : Nat) (target : Option Nat) : Except ErrKind α :=
  match target with
  | none => .ok zero
  | some _ => I.h source I.init

/-- the empty result of the `target == source` shortcut -/
def emptyResult : SState α :=
  { queue := [], g := fun _ => none, sol := fun _ => none, solSize := 0, iters := 0 }

/-- `run_a_star` is the shortcut or the loop from the initial state -/
theorem runAStar_unfold (I : Inst α) (source : Nat) (target : Option Nat) (sched : List Nat) :
    runAStar I source target sched =
      if target = some source then .ok emptyResult
      else match startF I source target with
        | .error k => .error k
        | .ok f0 => runLoop I source target sched (initState source f0) := by
  unfold runAStar startF emptyResult
  by_cases ht : target = some source
  · simp [ht]
  · have : (target == some source) = false := by simpa using ht
    simp only [this, ht, if_false, Bool.false_eq_true]
    cases target <;> rfl

/-- an `.ok` result of `run_a_star` is the shortcut's or the loop's -/
theorem runAStar_ok_iff {I : Inst α} {source : Nat} {target : Option Nat} {sched : List Nat}
    {r : SState α} :
    runAStar I source target sched = .ok r ↔
      (target = some source ∧ r = emptyResult) ∨
      (target ≠ some source ∧ ∃ f0, startF I source target = .ok f0 ∧
        runLoop I source target sched (initState source f0) = .ok r) := by
  rw [runAStar_unfold]
  by_cases ht : target = some source
  · simp only [ht, if_true, Except.ok.injEq, true_and, ne_eq, not_true_eq_false, false_and,
      or_false]
    exact eq_comm
  · simp only [ht, if_false, false_and, ne_eq, not_false_eq_true, true_and, false_or]
    cases startF I source target with
    | error k => simp
    | ok f0 => simp

/-- `success_monotone` for `run_a_star`: replacing the limit function by one that passes wherever
the old one passed keeps every result -/
theorem runAStar_mono {I : Inst α} {t₂ : Nat → Nat → Except ErrKind Unit}
    (hmono : ∀ sz it, I.term sz it = .ok () → t₂ sz it = .ok ()) {source : Nat}
    {target : Option Nat} {sched : List Nat} {r : SState α}
    (h : runAStar I source target sched = .ok r) :
    runAStar { I with term := t₂ } source target sched = .ok r := by
  rw [runAStar_ok_iff] at h ⊢
  rcases h with h | ⟨ht, f0, hf0, hrun⟩
  · exact Or.inl h
  · exact Or.inr ⟨ht, f0, hf0, runLoop_mono hmono sched _ r hrun⟩

/-- `I₂` differs from `I` in the limit function only -/
structure SameButTerm (I I₂ : Inst α) : Prop where
  incident : I₂.incident = I.incident
  keyV : I₂.keyV = I.keyV
  termV : I₂.termV = I.termV
  init : I₂.init = I.init
  valid : I₂.valid = I.valid
  trav : I₂.trav = I.trav
  h : I₂.h = I.h

theorem SameButTerm.eq {I I₂ : Inst α} (h : SameButTerm I I₂) :
    I₂ = { I with term := I₂.term } := by
  obtain ⟨h1, h2, h3, h4, h5, h6, h7⟩ := h
  cases I; cases I₂
  simp only at h1 h2 h3 h4 h5 h6 h7
  subst h1 h2 h3 h4 h5 h6 h7
  rfl

/-- **success_monotone**: if `I₂` passes the limit test wherever `I` does and they agree on
everything else, every result under `I` is the result under `I₂` (same schedule) -/
theorem success_monotone {I I₂ : Inst α} (hsame : SameButTerm I I₂)
    (hmono : ∀ sz it, I.term sz it = .ok () → I₂.term sz it = .ok ()) {source : Nat}
    {target : Option Nat} {sched : List Nat} {r : SState α}
    (h : runAStar I source target sched = .ok r) : runAStar I₂ source target sched = .ok r := by
  rw [hsame.eq]
  exact runAStar_mono hmono h

/-- **limited_prefix**: a run that returns under limits returns exactly the unlimited result -/
theorem limited_prefix (I : Inst α) {source : Nat} {target : Option Nat} {sched : List Nat}
    {r : SState α} (h : runAStar I source target sched = .ok r) :
    runAStar { I with term := fun _ _ => .ok () } source target sched = .ok r :=
  runAStar_mono (fun _ _ _ => rfl) h

/-- `success_monotone` for `run_vertex_oriented` (tree, iterations and route) -/
theorem success_monotone_route {I I₂ : Inst α} (hsame : SameButTerm I I₂)
    (hmono : ∀ sz it, I.term sz it = .ok () → I₂.term sz it = .ok ()) {source : Nat}
    {target : Option Nat} {sched : List Nat} {r : SearchResult α}
    (h : runVertexOriented I source target sched = .ok r) :
    runVertexOriented I₂ source target sched = .ok r := by
  unfold runVertexOriented at h ⊢
  split at h
  · cases h
  · rename_i s hs
    rw [success_monotone hsame hmono hs]
    exact h

/-- `limited_prefix` for `run_vertex_oriented` -/
theorem limited_prefix_route (I : Inst α) {source : Nat} {target : Option Nat} {sched : List Nat}
    {r : SearchResult α} (h : runVertexOriented I source target sched = .ok r) :
    runVertexOriented { I with term := fun _ _ => .ok () } source target sched = .ok r :=
  success_monotone_route (I := I) (I₂ := { I with term := fun _ _ => .ok () })
    ⟨rfl, rfl, rfl, rfl, rfl, rfl, rfl⟩ (fun _ _ _ => rfl) h

/-- success is monotone in the limit of a single iteration / size / runtime limit, and adding a
limit to a combination can only remove results: stated once for the concrete model — if every
limit occurring in `m₂` that fires makes some limit of `m` fire (and `m₂` has no zero frequency),
`m₂` passes wherever `m` passes -/
theorem test_mono {m m₂ : TermM} (hz : ¬ ZeroFreq m₂)
    (hle : ∀ sz it l₂, Leaf l₂ m₂ → l₂.fires sz it = some true →
      ∃ l, Leaf l m ∧ l.fires sz it = some true) :
    ∀ sz it, m.test sz it = .ok () → m₂.test sz it = .ok () := by
  intro sz it h
  rw [test_ok_iff, fires_false_iff]
  refine ⟨hz, fun l₂ hl₂ hf => ?_⟩
  obtain ⟨l, hl, hlf⟩ := hle sz it l₂ hl₂ hf
  exact test_ok_leaf h hl hlf

/-! ### iterations_le_limit -/

/-- the limit function refuses every loop head with `iterations + 1 > L` (true of any model in
which an `iters L` limit occurs: `test_error_of_iters`) -/
def IterLimit (I : Inst α) (L : Nat) : Prop := ∀ sz it, L < it + 1 → ∃ k, I.term sz it = .error k

theorem iterLimit_of_leaf {I : Inst α} {m : TermM} (hI : I.term = m.test) {L : Nat}
    (hl : Leaf (.iters L) m) : IterLimit I L := by
  intro sz it h
  rw [hI]
  exact test_error_of_iters hl sz it h

/-- a passed loop head has `iterations + 1 ≤ L` -/
theorem IterLimit.of_pass {I : Inst α} {L : Nat} (hL : IterLimit I L) {sz it : Nat}
    (h : I.term sz it = .ok ()) : it + 1 ≤ L := by
  by_contra hc
  obtain ⟨k, hk⟩ := hL sz it (by omega)
  rw [hk] at h; cases h

/-- **iterations_le_limit** (a), loop form: a result of the loop has `iterations + 1 ≤ L` -/
theorem runLoop_iters_lt {I : Inst α} {L : Nat} (hL : IterLimit I L) {source : Nat}
    {target : Option Nat} {sched : List Nat} {s s' : SState α}
    (hrun : runLoop I source target sched s = .ok s') : s'.iters + 1 ≤ L := by
  obtain ⟨pre, rest, h, _, _, hterm, hfin⟩ := runLoop_ok_reach sched s s' hrun
  rw [hfin.fields.2.2.2]
  exact hL.of_pass hterm

/-- **iterations_le_limit** (a): every result of `run_a_star` has `iterations ≤ L` (and
`iterations < L` unless it is the `target == source` shortcut with its 0 iterations) -/
theorem iterations_le_limit {I : Inst α} {L : Nat} (hL : IterLimit I L) {source : Nat}
    {target : Option Nat} {sched : List Nat} {s : SState α}
    (hrun : runAStar I source target sched = .ok s) :
    s.iters ≤ L ∧ (target ≠ some source → s.iters < L) := by
  rcases runAStar_ok_iff.1 hrun with ⟨ht, rfl⟩ | ⟨ht, f0, _, hloop⟩
  · exact ⟨Nat.zero_le _, fun h => absurd ht h⟩
  · have := runLoop_iters_lt hL hloop
    exact ⟨by omega, fun _ => by omega⟩

/-- in any run — returning or not — every loop head reached after at least one turn has
`iterations ≤ L`: no more than `L` expansion steps are ever performed -/
theorem reach_iters_le {I : Inst α} {L : Nat} (hL : IterLimit I L) {source : Nat}
    {target : Option Nat} {pre : List Nat} {s h : SState α}
    (hr : Reach I source target pre s h) : pre = [] ∨ h.iters ≤ L := by
  induction hr with
  | here s => exact Or.inl rfl
  | @turn v rest s s1 h ht hr ih =>
    right
    rcases ih with rfl | ih
    · cases hr
      have := hL.of_pass ht.term_ok
      have := ht.counters.1
      omega
    · exact ih

/-- **iterations_le_limit** (b): the loop never consumes more than `L − iterations` schedule
entries (one per expansion step), whatever the outcome -/
theorem runLoop_take {I : Inst α} {L : Nat} (hL : IterLimit I L) {source : Nat}
    {target : Option Nat} :
    ∀ (sched : List Nat) (s : SState α),
      runLoop I source target sched s = runLoop I source target (sched.take (L - s.iters)) s := by
  intro sched
  induction sched with
  | nil => intro s; simp
  | cons v rest ih =>
    intro s
    cases hn : L - s.iters with
    | zero =>
      obtain ⟨k, hk⟩ := hL s.solSize s.iters (by omega)
      rw [runLoop_unfold, runLoop_unfold I source target (List.take 0 (v :: rest))]
      simp only [hk]
    | succ n =>
      rw [List.take_succ_cons, runLoop_unfold, runLoop_unfold I source target (v :: List.take n rest)]
      split
      · rfl
      · split
        · rfl
        · simp only
          split
          · rfl
          · split
            · rfl
            · split
              · rfl
              · split
                · rfl
                · rename_i s2 hrel
                  have hit : s2.iters = s.iters := by
                    have := (relaxAll_counters _ _ _ hrel).1
                    simpa [popped] using this
                  rw [ih]
                  have : L - (s2.iters + 1) = n := by omega
                  simp only [this]

/-- (b) for `run_a_star`: at most `L` schedule entries are ever consumed -/
theorem runAStar_take {I : Inst α} {L : Nat} (hL : IterLimit I L) (source : Nat)
    (target : Option Nat) (sched : List Nat) :
    runAStar I source target sched = runAStar I source target (sched.take L) := by
  rw [runAStar_unfold, runAStar_unfold]
  split
  · rfl
  · split
    · rfl
    · rw [runLoop_take hL]
      rfl

/-! ### size_le_limit_plus_degree -/

/-- the limit function refuses every loop head with `solution.len() > S` -/
def SizeLimit (I : Inst α) (S : Nat) : Prop := ∀ sz it, S < sz → ∃ k, I.term sz it = .error k

theorem sizeLimit_of_leaf {I : Inst α} {m : TermM} (hI : I.term = m.test) {S : Nat}
    (hl : Leaf (.size S) m) : SizeLimit I S := by
  intro sz it h
  rw [hI]
  exact test_error_of_size hl sz it h

theorem SizeLimit.of_pass {I : Inst α} {S : Nat} (hS : SizeLimit I S) {sz it : Nat}
    (h : I.term sz it = .ok ()) : sz ≤ S := by
  by_contra hc
  obtain ⟨k, hk⟩ := hS sz it (by omega)
  rw [hk] at h; cases h

/-- `solution.len()` is non-decreasing along a run -/
theorem runLoop_solSize_mono {I : Inst α} {source : Nat} {target : Option Nat} {sched : List Nat}
    {s s' : SState α} (hrun : runLoop I source target sched s = .ok s') :
    s.solSize ≤ s'.solSize := by
  obtain ⟨pre, rest, h, _, hr, _, hfin⟩ := runLoop_ok_reach sched s s' hrun
  rw [hfin.fields.2.2.1]
  exact hr.counters.2

/-- a returned tree passed the size test itself: its size is at most `S` -/
theorem runLoop_size_le {I : Inst α} {S : Nat} (hS : SizeLimit I S) {source : Nat}
    {target : Option Nat} {sched : List Nat} {s s' : SState α}
    (hrun : runLoop I source target sched s = .ok s') : s'.solSize ≤ S := by
  obtain ⟨pre, rest, h, _, _, hterm, hfin⟩ := runLoop_ok_reach sched s s' hrun
  rw [hfin.fields.2.2.1]
  exact hS.of_pass hterm

/-- in any run — returning or not — the tree at every loop head reached after at least one turn,
in particular the one at which the limit fires, exceeds `S` by at most the number of incident edges
of the vertex expanded last -/
theorem reach_size_le {I : Inst α} {S D : Nat} (hS : SizeLimit I S)
    (hD : ∀ v, (I.incident v).length ≤ D) {source : Nat} {target : Option Nat} {pre : List Nat}
    {s h : SState α} (hr : Reach I source target pre s h) : pre = [] ∨ h.solSize ≤ S + D := by
  induction hr with
  | here s => exact Or.inl rfl
  | @turn v rest s s1 h ht hr ih =>
    right
    rcases ih with rfl | ih
    · cases hr
      have := hS.of_pass ht.term_ok
      have := ht.counters.2.2
      have := hD v
      omega
    · exact ih

/-- the same inside the `for` loop: after any number of relaxations at a passed loop head the tree
has at most `S +` (number of edges relaxed so far) entries -/
theorem relaxAll_size_le {I : Inst α} {S : Nat} (hS : SizeLimit I S) {h : SState α}
    (hterm : I.term h.solSize h.iters = .ok ()) {hasTarget : Bool} {lastEdge : Option Nat}
    {st : List α} {v : Nat} {es : List Nat} {s2 : SState α}
    (hrel : relaxAll I hasTarget lastEdge st es (popped h v) = .ok s2) :
    s2.solSize ≤ S + es.length := by
  have := hS.of_pass hterm
  have := (relaxAll_counters _ _ _ hrel).2.2
  simp only [popped] at this
  omega

/-- **size_le_limit_plus_degree**: every result of `run_a_star` has a tree of at most `S + D`
entries, `D` a bound on the number of incident edges of a vertex (indeed at most `S`: the result is
produced at a loop head that passed the test; `S + D` is the bound for every tree that exists
during the search, `reach_size_le`) -/
theorem size_le_limit_plus_degree {I : Inst α} {S D : Nat} (hS : SizeLimit I S)
    (_hD : ∀ v, (I.incident v).length ≤ D) {source : Nat} {target : Option Nat} {sched : List Nat}
    {s : SState α} (hrun : runAStar I source target sched = .ok s) :
    s.solSize ≤ S + D ∧ s.solSize ≤ S := by
  rcases runAStar_ok_iff.1 hrun with ⟨_, rfl⟩ | ⟨_, f0, _, hloop⟩
  · exact ⟨Nat.zero_le _, Nat.zero_le _⟩
  · have := runLoop_size_le hS hloop
    exact ⟨by omega, this⟩

/-! ### runtime_stops_at_next_check -/

/-- the limit function refuses every scheduled check (`iterations % freq = 0`) from iteration `i₀`
on: the time budget is exhausted from `i₀` on -/
def RuntimeLimit (I : Inst α) (freq i₀ : Nat) : Prop :=
  ∀ sz it, it % freq = 0 → i₀ ≤ it → ∃ k, I.term sz it = .error k

/-- bridge: a runtime limit with `freq > 0` occurring in the model whose clock `base + per * i`
exceeds the budget for every `i ≥ i₀` -/
theorem runtimeLimit_of_leaf {I : Inst α} {m : TermM} (hI : I.term = m.test)
    {limitNs freq baseNs perNs i₀ : Nat} (hl : Leaf (.runtime limitNs freq baseNs perNs) m)
    (hex : ∀ i, i₀ ≤ i → limitNs < baseNs + perNs * i) : RuntimeLimit I freq i₀ := by
  intro sz it hmod hi
  rw [hI]
  exact test_error_of_runtime hl sz it (Or.inr hmod) (hex it hi)

/-- for the single runtime limit the refusal is the explicit `Terminated [runtime]` -/
theorem runtime_test_terminated {limitNs freq baseNs perNs it : Nat} (hf : 0 < freq)
    (hmod : it % freq = 0) (hex : limitNs < baseNs + perNs * it) (sz : Nat) :
    (TermM.runtime limitNs freq baseNs perNs).test sz it = .error (.terminated [.runtime]) := by
  have hf' : freq ≠ 0 := by omega
  simp [TermM.test, TermM.fires, TermM.explain, hf', hmod, hex]

/-- **runtime_stops_at_next_check**, precise form: a run that returns never went through a
scheduled check at or after `i₀` -/
theorem runtime_no_check_passed {I : Inst α} {freq i₀ : Nat} (hR : RuntimeLimit I freq i₀)
    {source : Nat} {target : Option Nat} {pre rest : List Nat} {s h s' : SState α}
    (hrun : runLoop I source target (pre ++ rest) s = .ok s')
    (hr : Reach I source target pre s h) : ¬ (h.iters % freq = 0 ∧ i₀ ≤ h.iters) := by
  rintro ⟨h1, h2⟩
  obtain ⟨k, hk⟩ := hR h.solSize h.iters h1 h2
  rw [ok_passes_every_head hrun hr] at hk
  cases hk

/-- loop form: started at or before a scheduled check `c ≥ i₀`, a returning run ends before it -/
theorem runLoop_runtime_lt {I : Inst α} {freq i₀ : Nat} (hR : RuntimeLimit I freq i₀)
    {source : Nat} {target : Option Nat} {sched : List Nat} {s s' : SState α}
    (hrun : runLoop I source target sched s = .ok s') (c : Nat) (hc : c % freq = 0) (hi : i₀ ≤ c)
    (hs : s.iters ≤ c) : s'.iters < c := by
  by_contra hlt
  obtain ⟨pre, rest, h, _, _, hit, hterm⟩ :=
    ok_head_at_every_iteration hrun c hs (by omega)
  obtain ⟨k, hk⟩ := hR h.solSize c hc hi
  rw [hterm] at hk; cases hk

/-- the first multiple of `freq` that is `≥ i₀` -/
def nextCheck (freq i₀ : Nat) : Nat := freq * ((i₀ + freq - 1) / freq)

theorem nextCheck_spec {freq : Nat} (hf : 0 < freq) (i₀ : Nat) :
    nextCheck freq i₀ % freq = 0 ∧ i₀ ≤ nextCheck freq i₀ ∧ nextCheck freq i₀ < i₀ + freq ∧
      ∀ c, c % freq = 0 → i₀ ≤ c → nextCheck freq i₀ ≤ c := by
  unfold nextCheck
  have h1 := Nat.div_add_mod (i₀ + freq - 1) freq
  have h2 := Nat.mod_lt (i₀ + freq - 1) hf
  refine ⟨Nat.mul_mod_right _ _, by omega, by omega, ?_⟩
  intro c hc hi
  obtain ⟨q, rfl⟩ := Nat.dvd_of_mod_eq_zero hc
  apply Nat.mul_le_mul_left
  rw [Nat.div_le_iff_le_mul_add_pred hf]
  have : i₀ + freq - 1 ≤ freq * q + (freq - 1) := by omega
  exact this

/-- **runtime_stops_at_next_check**: with the budget exhausted from iteration `i₀` on, every
result of `run_a_star` has at most — and, unless it is the `target == source` shortcut, which never
consults the limits, fewer than — as many iterations as the first scheduled check at or after `i₀`
(the search is stopped there at the latest) -/
theorem runtime_stops_at_next_check {I : Inst α} {freq i₀ : Nat} (hf : 0 < freq)
    (hR : RuntimeLimit I freq i₀) {source : Nat} {target : Option Nat} {sched : List Nat}
    {s : SState α} (hrun : runAStar I source target sched = .ok s) :
    s.iters ≤ nextCheck freq i₀ ∧ (target ≠ some source → s.iters < nextCheck freq i₀) := by
  rcases runAStar_ok_iff.1 hrun with ⟨ht, rfl⟩ | ⟨_, f0, _, hloop⟩
  · exact ⟨Nat.zero_le _, fun h => absurd ht h⟩
  · obtain ⟨h1, h2, _⟩ := nextCheck_spec hf i₀
    have := runLoop_runtime_lt hR hloop _ h1 h2 (Nat.zero_le _)
    exact ⟨Nat.le_of_lt this, fun _ => this⟩

/-- the statement for the single runtime limit `QueryRuntimeLimit { limit, frequency }` with the
clock `base + per * iteration` -/
theorem runtime_stops_at_next_check' {I : Inst α} {limitNs freq baseNs perNs i₀ : Nat}
    (hI : I.term = (TermM.runtime limitNs freq baseNs perNs).test) (hf : 0 < freq)
    (hex : ∀ i, i₀ ≤ i → limitNs < baseNs + perNs * i) {source : Nat} {target : Option Nat}
    {sched : List Nat} {s : SState α} (hrun : runAStar I source target sched = .ok s) :
    s.iters ≤ nextCheck freq i₀ ∧ (target ≠ some source → s.iters < nextCheck freq i₀) :=
  runtime_stops_at_next_check hf (runtimeLimit_of_leaf hI (Leaf.runtime _ _ _ _) hex) hrun

/-! ### terminated_is_explicit, search half -/

/-- a limit that fires at a loop head the run reaches *is* the outcome of the run: never a tree,
never a route, never "no path" -/
theorem limit_hit_is_error {I : Inst α} {source : Nat} {target : Option Nat} {pre : List Nat}
    {s h : SState α} (hr : Reach I source target pre s h) {k : ErrKind}
    (hk : I.term h.solSize h.iters = .error k) (rest : List Nat) :
    runLoop I source target (pre ++ rest) s = .error k := by
  rw [hr.runLoop_eq, runLoop_unfold]
  simp only [hk]

/-- for the concrete model that outcome is `Terminated` naming at least one limit, each of them a
limit of the model that fires at that loop head — or the frequency-0 panic -/
theorem limit_hit_is_explicit {I : Inst α} {m : TermM} (hI : I.term = m.test) {source : Nat}
    {target : Option Nat} {pre : List Nat} {s h : SState α} (hr : Reach I source target pre s h)
    (hfire : m.fires h.solSize h.iters ≠ some false) (rest : List Nat) :
    (∃ ks, runLoop I source target (pre ++ rest) s = .error (.terminated ks) ∧ ks ≠ [] ∧
      ∀ k ∈ ks, ∃ l, Leaf l m ∧ kindOf l = k ∧ l.fires h.solSize h.iters = some true) ∨
    (runLoop I source target (pre ++ rest) s = .error (.panic "termination-frequency-zero") ∧
      ZeroFreq m) := by
  rcases terminated_is_explicit m h.solSize h.iters with h1 | ⟨ks, h1, _, h2, _, h3⟩ | ⟨h1, h2⟩
  · exact absurd h1.2 hfire
  · exact Or.inl ⟨ks, limit_hit_is_error hr (by rw [hI]; exact h1) rest, h2, h3⟩
  · exact Or.inr ⟨limit_hit_is_error hr (by rw [hI]; exact h1) rest, h2⟩

/-- no component of the instance other than the limit function reports `Terminated` (true of every
configured instance, `config_components_not_terminated`) -/
structure ComponentsNotTerminated (I : Inst α) : Prop where
  valid : ∀ e st le ks, I.valid e st le ≠ .error (.terminated ks)
  trav : ∀ e le st ks, I.trav e le st ≠ .error (.terminated ks)
  h : ∀ v st ks, I.h v st ≠ .error (.terminated ks)

theorem relax_not_terminated {I : Inst α} (hC : ComponentsNotTerminated I) {hasTarget : Bool}
    {lastEdge : Option Nat} {curState : List α} {s : SState α} {e : Nat} (ks : List TermKind) :
    relax I hasTarget lastEdge curState s e ≠ .error (.terminated ks) := by
  intro h
  unfold relax at h
  split at h
  · rename_i k hk; cases h; exact hC.valid _ _ _ _ hk
  · cases h
  · split at h
    · rename_i k hk; cases h; exact hC.trav _ _ _ _ hk
    · split at h
      · cases h
      · simp only at h
        split at h
        · split at h
          · rename_i k hk
            cases h
            cases hasTarget with
            | true => exact hC.h _ _ _ hk
            | false => simp at hk
          · cases h
        · cases h

theorem relaxAll_not_terminated {I : Inst α} (hC : ComponentsNotTerminated I) {hasTarget : Bool}
    {lastEdge : Option Nat} {curState : List α} (ks : List TermKind) :
    ∀ (es : List Nat) (s : SState α),
      relaxAll I hasTarget lastEdge curState es s ≠ .error (.terminated ks)
  | [], s => by simp [relaxAll]
  | e :: es, s => by
    simp only [relaxAll]
    split
    · rename_i k hk
      intro h; cases h
      exact relax_not_terminated hC ks hk
    · exact relaxAll_not_terminated hC ks es _

/-- conversely, a `Terminated` outcome of the loop is the answer of the limit function at a loop
head the run reached -/
theorem terminated_from_limit {I : Inst α} (hC : ComponentsNotTerminated I) {source : Nat}
    {target : Option Nat} {ks : List TermKind} :
    ∀ (sched : List Nat) (s : SState α),
      runLoop I source target sched s = .error (.terminated ks) →
      ∃ pre rest h, sched = pre ++ rest ∧ Reach I source target pre s h ∧
        I.term h.solSize h.iters = .error (.terminated ks) := by
  intro sched
  induction sched with
  | nil =>
    intro s hrun
    rw [runLoop_unfold] at hrun
    split at hrun
    · rename_i k hk; cases hrun; exact ⟨[], [], s, rfl, Reach.here s, hk⟩
    · split at hrun
      · split at hrun <;> cases hrun
      · cases hrun
  | cons v rest ih =>
    intro s hrun
    rw [runLoop_unfold] at hrun
    split at hrun
    · rename_i k hk; cases hrun; exact ⟨[], v :: rest, s, rfl, Reach.here s, hk⟩
    · rename_i hterm
      split at hrun
      · split at hrun <;> cases hrun
      · rename_i hemp
        simp only at hrun
        split at hrun
        · cases hrun
        · rename_i hpop
          split at hrun
          · cases hrun
          · rename_i htgt
            split at hrun
            · cases hrun
            · rename_i lastEdge st hcur
              split at hrun
              · rename_i k hk
                cases hrun
                exact absurd hk (relaxAll_not_terminated hC ks _ _)
              · rename_i s2 hrel
                have ht : Turn I source target s v { s2 with iters := s2.iters + 1 } :=
                  ⟨hterm, by simpa using hemp, by simpa using hpop, by simpa using htgt,
                    lastEdge, st, s2, hcur, hrel, rfl⟩
                obtain ⟨pre, rest', h, hs, hr, hk⟩ := ih _ hrun
                exact ⟨v :: pre, rest', h, by rw [hs]; rfl, Reach.turn ht hr, hk⟩

/-- every configured instance: the frontier, traversal, access, cost and estimate models report
their own error kinds, never `Terminated` -/
theorem config_components_not_terminated (c : Config α) : ComponentsNotTerminated c.inst where
  valid := by
    intro e st le ks h
    simp only [Config.inst] at h
    split at h
    · cases h
    · have : ∀ (fs : List (FrontierM α)), frontierValid fs e le ≠ .error (.terminated ks) := by
        intro fs
        induction fs with
        | nil => simp [frontierValid]
        | cons m ms ih =>
          simp only [frontierValid]
          split
          · simp
          · simp
          · exact ih
      exact this _ h
  trav := by
    intro e le st ks h
    simp only [Config.inst, edgeTraversal] at h
    split at h
    · cases h
    · split at h
      · rename_i k hk
        cases h
        unfold edgeAccess at hk
        split at hk
        · cases hk
        · split at hk
          · cases hk
          · simp only at hk
            split at hk
            · cases hk
            · split at hk <;> cases hk
      · split at h
        · cases h
        · split at h <;> cases h
  h := by
    intro v st ks h
    simp only [Config.inst, estimate] at h
    split at h
    · cases h
    · split at h
      · cases h
      split at h
      · cases h
      · split at h <;> cases h

/-! ### Monotonicity of the concrete limits -/

/-- a larger iteration limit passes wherever a smaller one does -/
theorem iters_test_mono {L L' : Nat} (h : L ≤ L') (sz it : Nat)
    (hok : (TermM.iters L).test sz it = .ok ()) : (TermM.iters L').test sz it = .ok () := by
  rw [test_ok_iff] at hok ⊢
  simp only [TermM.fires, Option.some.injEq, decide_eq_false_iff_not] at hok ⊢
  omega

/-- a larger size limit passes wherever a smaller one does -/
theorem size_test_mono {S S' : Nat} (h : S ≤ S') (sz it : Nat)
    (hok : (TermM.size S).test sz it = .ok ()) : (TermM.size S').test sz it = .ok () := by
  rw [test_ok_iff] at hok ⊢
  simp only [TermM.fires, Option.some.injEq, decide_eq_false_iff_not] at hok ⊢
  omega

/-- a larger time budget (same check frequency, same clock) passes wherever a smaller one does -/
theorem runtime_test_mono {l l' freq b p : Nat} (h : l ≤ l') (sz it : Nat)
    (hok : (TermM.runtime l freq b p).test sz it = .ok ()) :
    (TermM.runtime l' freq b p).test sz it = .ok () := by
  rw [test_ok_iff] at hok ⊢
  simp only [TermM.fires] at hok ⊢
  split at hok
  · cases hok
  · rename_i hf
    split at hok
    · rename_i hm
      simp only [Option.some.injEq, decide_eq_false_iff_not] at hok
      simp only [hf, hm, if_false, if_true, Option.some.injEq, decide_eq_false_iff_not]
      omega
    · rename_i hm
      simp only [hf, hm, if_false]

/-- dropping limits from a combination (at any depth: every limit of `m₂` occurs in `m`) keeps
every pass -/
theorem test_mono_of_leaves {m m₂ : TermM} (hsub : ∀ l, Leaf l m₂ → Leaf l m) (sz it : Nat)
    (hok : m.test sz it = .ok ()) : m₂.test sz it = .ok () := by
  have hz : ¬ ZeroFreq m₂ := by
    rintro ⟨l, b, p, hl⟩
    have := (test_panic_iff m sz it).2 ⟨l, b, p, hsub _ hl⟩
    rw [hok] at this; cases this
  exact test_mono hz (fun sz it l₂ hl₂ hf => ⟨l₂, hsub l₂ hl₂, hf⟩) sz it hok

/-- the empty combination never fires: "no limit" -/
theorem combined_nil_test (sz it : Nat) : (TermM.combined []).test sz it = .ok () := by
  simp [TermM.test, TermM.fires, TermM.fires.firesList]

/-! ### Configured instances (`Config.inst` sets `term := c.term.test`) -/

section Config

/-- with an `iters L` limit anywhere in the configured termination model -/
theorem config_iterations_le_limit (c : Config α) {L : Nat} (hl : Leaf (.iters L) c.term)
    {source : Nat} {target : Option Nat} {sched : List Nat} {s : SState α}
    (hrun : runAStar c.inst source target sched = .ok s) :
    s.iters ≤ L ∧ (target ≠ some source → s.iters < L) :=
  iterations_le_limit (iterLimit_of_leaf (I := c.inst) rfl hl) hrun

theorem config_runAStar_take (c : Config α) {L : Nat} (hl : Leaf (.iters L) c.term)
    (source : Nat) (target : Option Nat) (sched : List Nat) :
    runAStar c.inst source target sched = runAStar c.inst source target (sched.take L) :=
  runAStar_take (iterLimit_of_leaf (I := c.inst) rfl hl) source target sched

/-- with a `size S` limit anywhere in the configured termination model; `D` bounds the adjacency
lists -/
theorem config_size_le_limit_plus_degree (c : Config α) {S D : Nat} (hl : Leaf (.size S) c.term)
    (hD : ∀ v, (c.inst.incident v).length ≤ D)
    {source : Nat} {target : Option Nat} {sched : List Nat} {s : SState α}
    (hrun : runAStar c.inst source target sched = .ok s) : s.solSize ≤ S + D ∧ s.solSize ≤ S :=
  size_le_limit_plus_degree (sizeLimit_of_leaf (I := c.inst) rfl hl) hD hrun

/-- with a runtime limit (`freq > 0`) anywhere in the configured termination model whose clock
exceeds the budget from iteration `i₀` on -/
theorem config_runtime_stops_at_next_check (c : Config α) {limitNs freq baseNs perNs i₀ : Nat}
    (hl : Leaf (.runtime limitNs freq baseNs perNs) c.term) (hf : 0 < freq)
    (hex : ∀ i, i₀ ≤ i → limitNs < baseNs + perNs * i)
    {source : Nat} {target : Option Nat} {sched : List Nat} {s : SState α}
    (hrun : runAStar c.inst source target sched = .ok s) :
    s.iters ≤ nextCheck freq i₀ ∧ (target ≠ some source → s.iters < nextCheck freq i₀) :=
  runtime_stops_at_next_check hf (runtimeLimit_of_leaf (I := c.inst) rfl hl hex) hrun

/-- `success_monotone` between two configurations that differ in the termination model only -/
theorem config_success_monotone (c : Config α) (m₂ : TermM)
    (hmono : ∀ sz it, c.term.test sz it = .ok () → m₂.test sz it = .ok ())
    {source : Nat} {target : Option Nat} {sched : List Nat} {r : SearchResult α}
    (h : runVertexOriented c.inst source target sched = .ok r) :
    runVertexOriented ({ c with term := m₂ } : Config α).inst source target sched = .ok r :=
  success_monotone_route (I := c.inst) (I₂ := ({ c with term := m₂ } : Config α).inst)
    ⟨rfl, rfl, rfl, rfl, rfl, rfl, rfl⟩ hmono h

/-- `limited_prefix` for a configuration: the same query without any limit (`combined []`)
returns exactly the same tree, iteration count and route -/
theorem config_limited_prefix (c : Config α)
    {source : Nat} {target : Option Nat} {sched : List Nat} {r : SearchResult α}
    (h : runVertexOriented c.inst source target sched = .ok r) :
    runVertexOriented ({ c with term := .combined [] } : Config α).inst source target sched = .ok r :=
  config_success_monotone c (.combined []) (fun sz it _ => combined_nil_test sz it) h

/-- the same for `Config.runVertex` (`SearchAlgorithmResult`) -/
theorem config_runVertex_mono (c : Config α) (m₂ : TermM)
    (hmono : ∀ sz it, c.term.test sz it = .ok () → m₂.test sz it = .ok ())
    {source : Nat} {target : Option Nat} {sched : List Nat} {r : AlgResult α}
    (h : c.runVertex source target sched = .ok r) :
    ({ c with term := m₂ } : Config α).runVertex source target sched = .ok r := by
  unfold Config.runVertex at h ⊢
  split at h
  · cases h
  · rename_i res hres
    rw [config_success_monotone c m₂ hmono hres]
    exact h

/-- a limit that fires at a loop head of a configured search makes the whole search fail with
`Terminated` naming at least one limit (each a firing limit of the configured model) or with the
frequency-0 panic; conversely a `Terminated` failure always comes from the termination model -/
theorem config_terminated_from_limit (c : Config α) {source : Nat} {target : Option Nat}
    {ks : List TermKind} (sched : List Nat) (s : SState α)
    (h : runLoop c.inst source target sched s = .error (.terminated ks)) :
    ∃ pre rest hd, sched = pre ++ rest ∧ Reach c.inst source target pre s hd ∧
      c.term.test hd.solSize hd.iters = .error (.terminated ks) ∧ ks ≠ [] ∧
      ∀ k ∈ ks, ∃ l, Leaf l c.term ∧ kindOf l = k ∧ l.fires hd.solSize hd.iters = some true := by
  obtain ⟨pre, rest, hd, h1, h2, h3⟩ :=
    terminated_from_limit (config_components_not_terminated c) sched s h
  have h3' : c.term.test hd.solSize hd.iters = .error (.terminated ks) := h3
  refine ⟨pre, rest, hd, h1, h2, h3', ?_⟩
  rcases terminated_is_explicit c.term hd.solSize hd.iters with h4 | ⟨ks', h4, _, h5, _, h6⟩ | h4
  · rw [h4.1] at h3'; cases h3'
  · rw [h4] at h3'; cases h3'; exact ⟨h5, h6⟩
  · rw [h4.1] at h3'; cases h3'

end Config

/-! ### Non-vacuity: the four-vertex instance of `SearchTree.Example` under limits

Unlimited, the schedule `[0, 1, 2, 3]` to target 3 performs 3 expansions, builds a 3-entry tree and
labels the target 4. -/

namespace Example

open SearchTree.Example (inst)

/-- the example instance with the limits of `m` -/
def withTerm (m : TermM) : Inst ℚ := { inst with term := m.test }

/-- error kind, or iterations, tree size and the label of vertex 3 -/
def summary (r : Except ErrKind (SState ℚ)) : Option ErrKind × Nat × Nat × Option ℚ :=
  match r with
  | .ok s => (none, s.iters, s.solSize, s.g 3)
  | .error k => (some k, 0, 0, none)

theorem ok_of_summary {r : Except ErrKind (SState ℚ)} {a b : Nat} {c : Option ℚ}
    (h : summary r = (none, a, b, c)) : ∃ s, r = .ok s ∧ s.iters = a ∧ s.solSize = b ∧ s.g 3 = c := by
  cases r with
  | error k => simp [summary] at h
  | ok s =>
    simp only [summary, Prod.mk.injEq, true_and] at h
    exact ⟨s, rfl, h⟩

-- iteration limit: 4 is enough, 3 stops the run at the loop head where the target would be popped
example : summary (runAStar inst 0 (some 3) [0, 1, 2, 3]) = (none, 3, 3, some 4) := by
  decide +kernel
example : summary (runAStar (withTerm (.iters 4)) 0 (some 3) [0, 1, 2, 3]) = (none, 3, 3, some 4) := by
  decide +kernel
example : summary (runAStar (withTerm (.iters 3)) 0 (some 3) [0, 1, 2, 3]) =
    (some (.terminated [.iterations]), 0, 0, none) := by decide +kernel
-- size limit: the 3-entry tree passes `size 3`, not `size 2`; `size 0` passes the first loop head
example : summary (runAStar (withTerm (.size 3)) 0 (some 3) [0, 1, 2, 3]) = (none, 3, 3, some 4) := by
  decide +kernel
example : summary (runAStar (withTerm (.size 2)) 0 (some 3) [0, 1, 2, 3]) =
    (some (.terminated [.size]), 0, 0, none) := by decide +kernel
-- runtime limit 10 ns checked every 2nd iteration, clock 4 ns (resp. 6 ns) per iteration
example : summary (runAStar (withTerm (.runtime 10 2 0 4)) 0 (some 3) [0, 1, 2, 3]) =
    (none, 3, 3, some 4) := by decide +kernel
example : summary (runAStar (withTerm (.runtime 10 2 0 6)) 0 (some 3) [0, 1, 2, 3]) =
    (some (.terminated [.runtime]), 0, 0, none) := by decide +kernel
-- frequency 0, at any depth: the panic
example : summary (runAStar (withTerm (.combined [.size 5, .combined [.iters 9, .runtime 5 0 0 6]]))
    0 (some 3) [0, 1, 2, 3]) = (some (.panic "termination-frequency-zero"), 0, 0, none) := by
  decide +kernel
-- nested combination: every firing limit is named, in model order
example : summary (runAStar (withTerm (.combined [.size 1, .combined [.iters 1, .runtime 5 1 0 6]]))
    0 (some 3) [0, 1, 2, 3]) = (some (.terminated [.size, .iterations, .runtime]), 0, 0, none) := by
  decide +kernel
-- the `target == source` shortcut never consults the limits
example : summary (runAStar (withTerm (.iters 0)) 0 (some 0) []) = (none, 0, 0, none) := by
  decide +kernel

/-- the hypotheses of `iterations_le_limit`, `size_le_limit_plus_degree`,
`runtime_stops_at_next_check`, `limited_prefix` hold together on a nested model, the run returns,
and the theorems give the bounds and the unlimited result -/
example : ∃ s, runAStar (withTerm (.combined [.size 3, .combined [.iters 4, .runtime 10 2 0 4]]))
      0 (some 3) [0, 1, 2, 3] = .ok s ∧
    s.iters < 4 ∧ s.solSize ≤ 3 ∧ s.iters < nextCheck 2 3 ∧
    runAStar { withTerm (.combined [.size 3, .combined [.iters 4, .runtime 10 2 0 4]]) with
      term := fun _ _ => .ok () } 0 (some 3) [0, 1, 2, 3] = .ok s := by
  have hsum : summary (runAStar
      (withTerm (.combined [.size 3, .combined [.iters 4, .runtime 10 2 0 4]]))
      0 (some 3) [0, 1, 2, 3]) = (none, 3, 3, some 4) := by decide +kernel
  obtain ⟨s, hs, _⟩ := ok_of_summary hsum
  have hI : (withTerm (.combined [.size 3, .combined [.iters 4, .runtime 10 2 0 4]])).term =
      (TermM.combined [.size 3, .combined [.iters 4, .runtime 10 2 0 4]]).test := rfl
  have hL := iterLimit_of_leaf hI (L := 4)
    (Leaf.combined (m := .combined [.iters 4, .runtime 10 2 0 4]) (by simp)
      (Leaf.combined (m := .iters 4) (by simp) (Leaf.iters 4)))
  have hS := sizeLimit_of_leaf hI (S := 3) (Leaf.combined (m := .size 3) (by simp) (Leaf.size 3))
  have hR := runtimeLimit_of_leaf hI (i₀ := 3)
    (Leaf.combined (m := .combined [.iters 4, .runtime 10 2 0 4]) (by simp)
      (Leaf.combined (m := .runtime 10 2 0 4) (by simp) (Leaf.runtime 10 2 0 4)))
    (fun i hi => by omega)
  exact ⟨s, hs, (iterations_le_limit hL hs).2 (by decide),
    (size_le_limit_plus_degree hS (D := 3) (fun v => by
      show (SearchTree.Example.out v).length ≤ 3
      unfold SearchTree.Example.out
      split <;> simp) hs).2,
    (runtime_stops_at_next_check (by decide) hR hs).2 (by decide), limited_prefix _ hs⟩

/-- `runAStar_take`: with `iters 2` only two schedule entries are ever consumed -/
example : runAStar (withTerm (.iters 2)) 0 (some 3) [0, 1, 2, 3] =
    runAStar (withTerm (.iters 2)) 0 (some 3) [0, 1] :=
  runAStar_take (iterLimit_of_leaf rfl (Leaf.iters 2)) 0 (some 3) [0, 1, 2, 3]

/-- the example instance's components never report `Terminated` -/
example : ComponentsNotTerminated (withTerm (.iters 2)) :=
  ⟨fun _ _ _ _ h => (by cases h), fun _ _ _ _ h => (by cases h), fun _ _ _ h => (by cases h)⟩

end Example

end SearchLimits
end Compass
