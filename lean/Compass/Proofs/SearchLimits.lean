/-
C10 — search limits bound the work and never alter an answer, only stop it.

Part A: the termination model `TermM` (`Model/Instance.lean`, `TerminationModel::{test,
terminate_search, explain_termination}`), nested `combined` to any depth.
Part B: the search loop (`Model/Search.lean`) under an arbitrary limit function `I.term`, for every
instance, source, target and schedule: the loop heads a run goes through (`Reach`), what an `.ok`
result says about them, and the bounds that follow for the three kinds of limit.
-/
import Compass.Proofs.Num
import Compass.Proofs.SearchTree
import Compass.Model.Search
import Compass.Model.Instance

namespace Compass
namespace SearchLimits

set_option linter.unusedSectionVars false

/-! ## Part A: the termination model -/

/-- induction principle of the nested inductive `TermM` -/
theorem TermM.induct {P : TermM → Prop}
    (hr : ∀ l f b p, P (.runtime l f b p)) (hs : ∀ l, P (.size l)) (hi : ∀ l, P (.iters l))
    (hc : ∀ ms, (∀ m ∈ ms, P m) → P (.combined ms)) : ∀ m, P m := by
  intro m
  exact TermM.rec (motive_1 := P) (motive_2 := fun ms => ∀ m ∈ ms, P m)
    hr hs hi (fun ms ih => hc ms ih) (by simp)
    (fun m ms ihm ihms => by
      intro m' hm'
      rcases List.mem_cons.1 hm' with rfl | h
      · exact ihm
      · exact ihms m' h) m

/-- `Leaf l m`: the single limit `l` (runtime / size / iterations) occurs in `m`, at any depth -/
inductive Leaf : TermM → TermM → Prop
  | runtime (l f b p : Nat) : Leaf (.runtime l f b p) (.runtime l f b p)
  | size (l : Nat) : Leaf (.size l) (.size l)
  | iters (l : Nat) : Leaf (.iters l) (.iters l)
  | combined {l m : TermM} {ms : List TermM} : m ∈ ms → Leaf l m → Leaf l (.combined ms)

/-- the kind named by `explain_termination` for a single limit -/
def kindOf : TermM → TermKind
  | .runtime _ _ _ _ => .runtime
  | .size _ => .size
  | .iters _ => .iterations
  | .combined _ => .runtime   -- never a `Leaf`

/-- some runtime limit of the model has check frequency 0 (`iteration % 0` panics) -/
def ZeroFreq (m : TermM) : Prop := ∃ l b p, Leaf (.runtime l 0 b p) m

theorem ZeroFreq.combined {m : TermM} {ms : List TermM} (hm : m ∈ ms) (h : ZeroFreq m) :
    ZeroFreq (.combined ms) := by
  obtain ⟨l, b, p, hl⟩ := h
  exact ⟨l, b, p, Leaf.combined hm hl⟩

theorem zeroFreq_combined_iff {ms : List TermM} :
    ZeroFreq (.combined ms) ↔ ∃ m ∈ ms, ZeroFreq m := by
  constructor
  · rintro ⟨l, b, p, hl⟩
    cases hl with
    | combined hm hl => exact ⟨_, hm, l, b, p, hl⟩
  · rintro ⟨m, hm, h⟩
    exact h.combined hm

/-! ### the two `where` helpers, by list induction -/

theorem firesList_none {ms : List TermM} {sz it : Nat} {acc : Bool} :
    TermM.fires.firesList ms sz it acc = none ↔ ∃ m ∈ ms, m.fires sz it = none := by
  induction ms generalizing acc with
  | nil => simp [TermM.fires.firesList]
  | cons m ms ih =>
    simp only [TermM.fires.firesList]
    cases hm : m.fires sz it with
    | none => simp [hm]
    | some r =>
      simp only [ih, List.mem_cons, exists_eq_or_imp, hm]
      simp

theorem firesList_some {ms : List TermM} {sz it : Nat} {acc r : Bool}
    (h : TermM.fires.firesList ms sz it acc = some r) :
    r = true ↔ acc = true ∨ ∃ m ∈ ms, m.fires sz it = some true := by
  induction ms generalizing acc with
  | nil =>
    simp only [TermM.fires.firesList, Option.some.injEq] at h
    simp [h]
  | cons m ms ih =>
    simp only [TermM.fires.firesList] at h
    cases hm : m.fires sz it with
    | none => simp [hm] at h
    | some r' =>
      simp only [hm] at h
      rw [ih h]
      cases r' <;> simp [hm]

theorem mem_explainList {ms : List TermM} {sz it : Nat} {k : TermKind} :
    k ∈ TermM.explain.explainList ms sz it ↔ ∃ m ∈ ms, k ∈ m.explain sz it := by
  induction ms with
  | nil => simp [TermM.explain.explainList]
  | cons m ms ih => simp [TermM.explain.explainList, ih]

/-! ### `terminate_search` -/

/-- the division-by-zero panic is reached exactly when some runtime limit has frequency 0
(`try_fold` visits every sub-model: `acc || r` does not short-circuit) -/
theorem fires_none_iff (sz it : Nat) : ∀ m : TermM, m.fires sz it = none ↔ ZeroFreq m := by
  intro m
  induction m using TermM.induct with
  | hr l f b p =>
    constructor
    · intro h
      by_cases hf : f = 0
      · subst hf; exact ⟨l, b, p, Leaf.runtime _ _ _ _⟩
      · simp only [TermM.fires, hf, if_false] at h
        split at h <;> cases h
    · rintro ⟨l', b', p', hl⟩
      cases hl
      simp [TermM.fires]
  | hs l =>
    constructor
    · intro h; simp [TermM.fires] at h
    · rintro ⟨l', b', p', hl⟩; cases hl
  | hi l =>
    constructor
    · intro h; simp [TermM.fires] at h
    · rintro ⟨l', b', p', hl⟩; cases hl
  | hc ms ih =>
    rw [zeroFreq_combined_iff]
    simp only [TermM.fires, firesList_none]
    constructor
    · rintro ⟨m, hm, h⟩; exact ⟨m, hm, (ih m hm).1 h⟩
    · rintro ⟨m, hm, h⟩; exact ⟨m, hm, (ih m hm).2 h⟩

/-- a `Leaf` is a single limit: its own `explain` names its kind exactly when it fires -/
theorem Leaf.explain_self {l m : TermM} (h : Leaf l m) (sz it : Nat) (k : TermKind) :
    k ∈ l.explain sz it ↔ kindOf l = k ∧ l.fires sz it = some true := by
  induction h with
  | runtime l f b p =>
    simp only [TermM.explain, kindOf]
    split <;> simp_all [eq_comm]
  | size l =>
    simp only [TermM.explain, kindOf]
    split <;> simp_all [eq_comm]
  | iters l =>
    simp only [TermM.explain, kindOf]
    split <;> simp_all [eq_comm]
  | combined _ _ ih => exact ih

/-- combined = any fires: the model fires iff no frequency is 0 and some limit in it fires -/
theorem fires_true_iff (sz it : Nat) : ∀ m : TermM,
    m.fires sz it = some true ↔ ¬ ZeroFreq m ∧ ∃ l, Leaf l m ∧ l.fires sz it = some true := by
  intro m
  induction m using TermM.induct with
  | hr l f b p =>
    constructor
    · intro h
      refine ⟨fun hz => ?_, _, Leaf.runtime _ _ _ _, h⟩
      rw [← fires_none_iff sz it, h] at hz; cases hz
    · rintro ⟨_, l', hl, hf⟩; cases hl; exact hf
  | hs l =>
    constructor
    · intro h
      refine ⟨fun hz => ?_, _, Leaf.size _, h⟩
      rw [← fires_none_iff sz it, h] at hz; cases hz
    · rintro ⟨_, l', hl, hf⟩; cases hl; exact hf
  | hi l =>
    constructor
    · intro h
      refine ⟨fun hz => ?_, _, Leaf.iters _, h⟩
      rw [← fires_none_iff sz it, h] at hz; cases hz
    · rintro ⟨_, l', hl, hf⟩; cases hl; exact hf
  | hc ms ih =>
    constructor
    · intro h
      refine ⟨fun hz => ?_, ?_⟩
      · rw [← fires_none_iff sz it, h] at hz; cases hz
      · simp only [TermM.fires] at h
        rcases (firesList_some h).1 rfl with h' | ⟨m, hm, hf⟩
        · cases h'
        · obtain ⟨_, l, hl, hlf⟩ := (ih m hm).1 hf
          exact ⟨l, Leaf.combined hm hl, hlf⟩
    · rintro ⟨hz, l, hl, hlf⟩
      cases hl with
      | @combined _ m _ hm hl =>
        have hmz : ¬ ZeroFreq m := fun h => hz (h.combined hm)
        have hmf : m.fires sz it = some true := (ih m hm).2 ⟨hmz, l, hl, hlf⟩
        cases hc : (TermM.combined ms).fires sz it with
        | none => exact absurd ((fires_none_iff sz it _).1 hc) hz
        | some r =>
          simp only [TermM.fires] at hc
          rw [(firesList_some hc).2 (Or.inr ⟨m, hm, hmf⟩)]

/-- `terminate_search = Ok(false)`: no frequency is 0 and no limit in the model fires -/
theorem fires_false_iff (sz it : Nat) (m : TermM) :
    m.fires sz it = some false ↔
      ¬ ZeroFreq m ∧ ∀ l, Leaf l m → l.fires sz it ≠ some true := by
  constructor
  · intro h
    refine ⟨fun hz => ?_, fun l hl hlf => ?_⟩
    · rw [← fires_none_iff sz it, h] at hz; cases hz
    · have hz : ¬ ZeroFreq m := fun hz => by rw [← fires_none_iff sz it, h] at hz; cases hz
      have := (fires_true_iff sz it m).2 ⟨hz, l, hl, hlf⟩
      rw [h] at this; cases this
  · rintro ⟨hz, hall⟩
    cases hf : m.fires sz it with
    | none => exact absurd ((fires_none_iff sz it m).1 hf) hz
    | some r =>
      cases r with
      | false => rfl
      | true =>
        obtain ⟨_, l, hl, hlf⟩ := (fires_true_iff sz it m).1 hf
        exact absurd hlf (hall l hl)

/-! ### `explain_termination` -/

/-- the kinds named are exactly the kinds of the limits in the model that themselves fire -/
theorem mem_explain (sz it : Nat) (k : TermKind) : ∀ m : TermM,
    k ∈ m.explain sz it ↔ ∃ l, Leaf l m ∧ kindOf l = k ∧ l.fires sz it = some true := by
  intro m
  induction m using TermM.induct with
  | hr l f b p =>
    rw [(Leaf.runtime l f b p).explain_self]
    constructor
    · intro h; exact ⟨_, Leaf.runtime _ _ _ _, h⟩
    · rintro ⟨l', hl, h⟩; cases hl; exact h
  | hs l =>
    rw [(Leaf.size l).explain_self]
    constructor
    · intro h; exact ⟨_, Leaf.size _, h⟩
    · rintro ⟨l', hl, h⟩; cases hl; exact h
  | hi l =>
    rw [(Leaf.iters l).explain_self]
    constructor
    · intro h; exact ⟨_, Leaf.iters _, h⟩
    · rintro ⟨l', hl, h⟩; cases hl; exact h
  | hc ms ih =>
    simp only [TermM.explain, mem_explainList]
    constructor
    · rintro ⟨m, hm, h⟩
      obtain ⟨l, hl, h2⟩ := (ih m hm).1 h
      exact ⟨l, Leaf.combined hm hl, h2⟩
    · rintro ⟨l, hl, h2⟩
      cases hl with
      | @combined _ m _ hm hl => exact ⟨m, hm, (ih m hm).2 ⟨l, hl, h2⟩⟩

/-- whenever the model fires, it can explain: the `RuntimeError("unable to explain termination")`
branch of `test` is unreachable -/
theorem explain_ne_nil {m : TermM} {sz it : Nat} (h : m.fires sz it = some true) :
    m.explain sz it ≠ [] := by
  obtain ⟨_, l, hl, hlf⟩ := (fires_true_iff sz it m).1 h
  have : kindOf l ∈ m.explain sz it := (mem_explain sz it _ m).2 ⟨l, hl, rfl, hlf⟩
  exact List.ne_nil_of_mem this

/-! ### `test` -/

/-- **terminated_is_explicit** (termination-model half).  `test` has exactly three outcomes:
`Ok(())` when nothing fires; `QueryTerminated` naming a non-empty list of kinds, each the kind of a
limit occurring in the model that itself fires at these counters; or the `iteration % 0` panic,
which happens exactly when some runtime limit in the model has frequency 0.  The
`RuntimeError("unable to explain termination")` outcome (`.internal`) never occurs. -/
theorem terminated_is_explicit (m : TermM) (sz it : Nat) :
    (m.test sz it = .ok () ∧ m.fires sz it = some false) ∨
    (∃ ks, m.test sz it = .error (.terminated ks) ∧ m.fires sz it = some true ∧ ks ≠ [] ∧
        ks = m.explain sz it ∧
        ∀ k ∈ ks, ∃ l, Leaf l m ∧ kindOf l = k ∧ l.fires sz it = some true) ∨
    (m.test sz it = .error (.panic "termination-frequency-zero") ∧ ZeroFreq m) := by
  cases hf : m.fires sz it with
  | none =>
    right; right
    exact ⟨by simp [TermM.test, hf], (fires_none_iff sz it m).1 hf⟩
  | some r =>
    cases r with
    | false => left; exact ⟨by simp [TermM.test, hf], rfl⟩
    | true =>
      right; left
      have hne := explain_ne_nil hf
      refine ⟨m.explain sz it, ?_, rfl, hne, rfl, fun k hk => (mem_explain sz it k m).1 hk⟩
      simp only [TermM.test, hf]

/-- the panic outcome, as an equivalence -/
theorem test_panic_iff (m : TermM) (sz it : Nat) :
    m.test sz it = .error (.panic "termination-frequency-zero") ↔ ZeroFreq m := by
  constructor
  · intro h
    rcases terminated_is_explicit m sz it with h1 | ⟨ks, h1, _⟩ | h1
    · rw [h1.1] at h; cases h
    · rw [h1] at h; cases h
    · exact h1.2
  · intro hz
    simp [TermM.test, (fires_none_iff sz it m).2 hz]

/-- the "unable to explain" outcome is unreachable -/
theorem test_ne_internal (m : TermM) (sz it : Nat) : m.test sz it ≠ .error .internal := by
  intro h
  rcases terminated_is_explicit m sz it with h1 | ⟨ks, h1, _⟩ | h1
  · rw [h1.1] at h; cases h
  · rw [h1] at h; cases h
  · rw [h1.1] at h; cases h

/-- a limit test never answers "no path" (nor any error other than the two above) -/
theorem test_error_kinds (m : TermM) (sz it : Nat) (k : ErrKind) (h : m.test sz it = .error k) :
    (∃ ks, k = .terminated ks ∧ ks ≠ []) ∨ k = .panic "termination-frequency-zero" := by
  rcases terminated_is_explicit m sz it with h1 | ⟨ks, h1, _, hne, _⟩ | h1
  · rw [h1.1] at h; cases h
  · rw [h1] at h; cases h; exact Or.inl ⟨ks, rfl, hne⟩
  · rw [h1.1] at h; cases h; exact Or.inr rfl

/-- `test = Ok(())` exactly when `terminate_search = Ok(false)` -/
theorem test_ok_iff (m : TermM) (sz it : Nat) :
    m.test sz it = .ok () ↔ m.fires sz it = some false := by
  constructor
  · intro h
    rcases terminated_is_explicit m sz it with h1 | ⟨ks, h1, _⟩ | h1
    · exact h1.2
    · rw [h1] at h; cases h
    · rw [h1.1] at h; cases h
  · intro h; simp [TermM.test, h]

/-- the test passes only if no limit occurring in the model fires -/
theorem test_ok_leaf {m : TermM} {sz it : Nat} (h : m.test sz it = .ok ()) {l : TermM}
    (hl : Leaf l m) : l.fires sz it ≠ some true :=
  ((fires_false_iff sz it m).1 ((test_ok_iff m sz it).1 h)).2 l hl

/-- bridge for `iterations_le_limit`: an `iters L` limit anywhere in the model makes the test fail
whenever `it + 1 > L` -/
theorem test_error_of_iters {m : TermM} {L : Nat} (hl : Leaf (.iters L) m) (sz it : Nat)
    (h : L < it + 1) : ∃ k, m.test sz it = .error k := by
  cases ht : m.test sz it with
  | error k => exact ⟨k, rfl⟩
  | ok u =>
    exfalso
    apply test_ok_leaf ht hl
    simp [TermM.fires, h]

/-- bridge for `size_le_limit_plus_degree`: a `size S` limit anywhere in the model makes the test
fail whenever `sz > S` -/
theorem test_error_of_size {m : TermM} {S : Nat} (hl : Leaf (.size S) m) (sz it : Nat)
    (h : S < sz) : ∃ k, m.test sz it = .error k := by
  cases ht : m.test sz it with
  | error k => exact ⟨k, rfl⟩
  | ok u =>
    exfalso
    apply test_ok_leaf ht hl
    simp [TermM.fires, h]

/-- bridge for `runtime_stops_at_next_check`: a runtime limit anywhere in the model makes the test
fail at every scheduled check at which the clock exceeds the budget -/
theorem test_error_of_runtime {m : TermM} {limitNs freq baseNs perNs : Nat}
    (hl : Leaf (.runtime limitNs freq baseNs perNs) m) (sz it : Nat)
    (hcheck : freq = 0 ∨ it % freq = 0) (h : limitNs < baseNs + perNs * it) :
    ∃ k, m.test sz it = .error k := by
  cases ht : m.test sz it with
  | error k => exact ⟨k, rfl⟩
  | ok u =>
    exfalso
    by_cases hf : freq = 0
    · subst hf
      have := (test_panic_iff m sz it).2 ⟨_, _, _, hl⟩
      rw [ht] at this; cases this
    · apply test_ok_leaf ht hl
      have hc : it % freq = 0 := hcheck.resolve_left hf
      simp [TermM.fires, hf, hc, h]

/-! ## Part B: the search loop under a limit function -/

variable {α : Type} [Field α] [LinearOrder α] [IsStrictOrderedRing α] [Lit α] [LawfulLit α]

/-! ### what one `for` loop does to the counters -/

/-- one relaxation leaves `iterations` alone and adds at most one tree entry -/
theorem relax_counters {I : Inst α} {hasTarget : Bool} {lastEdge : Option Nat} {curState : List α}
    {s s' : SState α} {e : Nat} (h : relax I hasTarget lastEdge curState s e = .ok s') :
    s'.iters = s.iters ∧ s.solSize ≤ s'.solSize ∧ s'.solSize ≤ s.solSize + 1 := by
  unfold relax at h
  split at h
  · cases h
  · cases h; exact ⟨rfl, le_refl _, Nat.le_succ _⟩
  · split at h
    · cases h
    · split at h
      · cases h; exact ⟨rfl, le_refl _, Nat.le_succ _⟩
      · simp only at h
        split at h
        · split at h
          · cases h
          · cases h
            refine ⟨rfl, ?_, ?_⟩
            · simp only
              split
              · exact Nat.le_succ _
              · exact le_refl _
            · simp only
              split
              · exact le_refl _
              · exact Nat.le_succ _
        · cases h; exact ⟨rfl, le_refl _, Nat.le_succ _⟩

/-- the `for` loop over `es` leaves `iterations` alone and adds at most one tree entry per edge -/
theorem relaxAll_counters {I : Inst α} {hasTarget : Bool} {lastEdge : Option Nat}
    {curState : List α} :
    ∀ (es : List Nat) (s s' : SState α), relaxAll I hasTarget lastEdge curState es s = .ok s' →
      s'.iters = s.iters ∧ s.solSize ≤ s'.solSize ∧ s'.solSize ≤ s.solSize + es.length
  | [], s, s', h => by
    simp only [relaxAll] at h
    cases h; exact ⟨rfl, le_refl _, by simp⟩
  | e :: es, s, s', h => by
    simp only [relaxAll] at h
    split at h
    · cases h
    · rename_i s1 h1
      obtain ⟨a1, a2, a3⟩ := relax_counters h1
      obtain ⟨b1, b2, b3⟩ := relaxAll_counters es s1 s' h
      refine ⟨by rw [b1, a1], le_trans a2 b2, ?_⟩
      simp only [List.length_cons]; omega

/-! ### loop heads -/

/-- `get_last_traversed_edge_id` / the state lookup at the popped vertex -/
def curOf (I : Inst α) (source : Nat) (s : SState α) (v : Nat) : Option (Option Nat × List α) :=
  if v = source then some (none, I.init)
  else match s.sol v with
    | some b => some (some b.edge, b.state)
    | none => none

/-- the state after `costs.pop()` returned `v` -/
def popped (s : SState α) (v : Nat) : SState α :=
  { s with queue := s.queue.filter (fun p => !(p.1 == v)) }

/-- `Turn I source target s v s'`: at loop head `s` the limit test passes, the queue is not empty,
`v` is an accepted pop and not the target, the `for` loop over its incident edges succeeds, and
`s'` is the next loop head (`iterations += 1`) -/
structure Turn (I : Inst α) (source : Nat) (target : Option Nat) (s : SState α) (v : Nat)
    (s' : SState α) : Prop where
  term_ok : I.term s.solSize s.iters = .ok ()
  nonempty : s.queue.isEmpty = false
  pop_ok : popOk s.queue v = true
  not_target : target ≠ some v
  expand : ∃ lastEdge st s2, curOf I source s v = some (lastEdge, st) ∧
    relaxAll I target.isSome lastEdge st (I.incident v) (popped s v) = .ok s2 ∧
    s' = { s2 with iters := s2.iters + 1 }

/-- `Reach I source target pre s h`: started at loop head `s`, the loop expands the vertices `pre`
in this order (one complete turn each) and arrives at loop head `h` -/
inductive Reach (I : Inst α) (source : Nat) (target : Option Nat) :
    List Nat → SState α → SState α → Prop
  | here (s : SState α) : Reach I source target [] s s
  | turn {v : Nat} {rest : List Nat} {s s1 h : SState α} :
      Turn I source target s v s1 → Reach I source target rest s1 h →
      Reach I source target (v :: rest) s h

/-- the loop body, with the popped state and the lookup named -/
theorem runLoop_unfold (I : Inst α) (source : Nat) (target : Option Nat) (sched : List Nat)
    (s : SState α) :
    runLoop I source target sched s =
      match I.term s.solSize s.iters with
      | .error k => .error k
      | .ok () =>
        if s.queue.isEmpty then
          match target with
          | some _ => .error .noPath
          | none => .ok s
        else
          match sched with
          | [] => .error .scheduleExhausted
          | v :: rest =>
            if !popOk s.queue v then .error .badSchedule
            else if target == some v then .ok (popped s v)
            else
              match curOf I source s v with
              | none => .error .internal
              | some (lastEdge, st) =>
                match relaxAll I target.isSome lastEdge st (I.incident v) (popped s v) with
                | .error k => .error k
                | .ok s2 => runLoop I source target rest { s2 with iters := s2.iters + 1 } := by
  conv_lhs => unfold runLoop
  rfl

/-- a complete turn consumes one schedule entry -/
theorem runLoop_turn {I : Inst α} {source : Nat} {target : Option Nat} {s s1 : SState α} {v : Nat}
    (ht : Turn I source target s v s1) (rest : List Nat) :
    runLoop I source target (v :: rest) s = runLoop I source target rest s1 := by
  obtain ⟨h1, h2, h3, h4, lastEdge, st, s2, h5, h6, rfl⟩ := ht
  have h4' : (target == some v) = false := by simpa using h4
  rw [runLoop_unfold]
  simp only [h1, h2, h3, h4', h5, h6, Bool.false_eq_true, if_false, Bool.not_true]

/-- the run goes through every loop head it reaches -/
theorem Reach.runLoop_eq {I : Inst α} {source : Nat} {target : Option Nat} {pre : List Nat}
    {s h : SState α} (hr : Reach I source target pre s h) (rest : List Nat) :
    runLoop I source target (pre ++ rest) s = runLoop I source target rest h := by
  induction hr with
  | here s => rfl
  | turn ht _ ih => rw [List.cons_append, runLoop_turn ht, ih]

theorem Reach.snoc {I : Inst α} {source : Nat} {target : Option Nat} {pre : List Nat}
    {s h h' : SState α} {v : Nat} (hr : Reach I source target pre s h)
    (ht : Turn I source target h v h') : Reach I source target (pre ++ [v]) s h' := by
  induction hr with
  | here s => exact Reach.turn ht (Reach.here _)
  | turn ht' _ ih => exact Reach.turn ht' (ih ht)

/-- what a turn does to the counters -/
theorem Turn.counters {I : Inst α} {source : Nat} {target : Option Nat} {s s' : SState α} {v : Nat}
    (ht : Turn I source target s v s') :
    s'.iters = s.iters + 1 ∧ s.solSize ≤ s'.solSize ∧
      s'.solSize ≤ s.solSize + (I.incident v).length := by
  obtain ⟨_, _, _, _, lastEdge, st, s2, _, h6, rfl⟩ := ht
  obtain ⟨a1, a2, a3⟩ := relaxAll_counters _ _ _ h6
  exact ⟨by simp only [a1, popped], a2, a3⟩

/-- `iterations` counts the complete turns; `solution.len()` never decreases -/
theorem Reach.counters {I : Inst α} {source : Nat} {target : Option Nat} {pre : List Nat}
    {s h : SState α} (hr : Reach I source target pre s h) :
    h.iters = s.iters + pre.length ∧ s.solSize ≤ h.solSize := by
  induction hr with
  | here s => simp
  | turn ht _ ih =>
    obtain ⟨a1, a2, _⟩ := ht.counters
    refine ⟨?_, le_trans a2 ih.2⟩
    rw [ih.1, a1, List.length_cons]; omega

/-- how an `.ok` result comes about at the last loop head `h`: the queue is empty and there is no
target, or the target is the accepted pop -/
def Final (target : Option Nat) (h : SState α) (rest : List Nat) (s : SState α) : Prop :=
  (h.queue.isEmpty = true ∧ target = none ∧ s = h) ∨
  (∃ t rest', rest = t :: rest' ∧ h.queue.isEmpty = false ∧ popOk h.queue t = true ∧
    target = some t ∧ s = popped h t)

/-- one-step inversion of an `.ok` run -/
theorem runLoop_ok_inv {I : Inst α} {source : Nat} {target : Option Nat} {sched : List Nat}
    {s s' : SState α} (h : runLoop I source target sched s = .ok s') :
    I.term s.solSize s.iters = .ok () ∧
    (Final target s sched s' ∨
     ∃ v rest s1, sched = v :: rest ∧ Turn I source target s v s1 ∧
       runLoop I source target rest s1 = .ok s') := by
  rw [runLoop_unfold] at h
  split at h
  · cases h
  · rename_i hterm
    refine ⟨hterm, ?_⟩
    split at h
    · rename_i hemp
      split at h
      · cases h
      · cases h; exact Or.inl (Or.inl ⟨hemp, rfl, rfl⟩)
    · rename_i hemp
      have hemp' : s.queue.isEmpty = false := by simpa using hemp
      split at h
      · cases h
      · rename_i v rest
        split at h
        · cases h
        · rename_i hpop
          have hpop' : popOk s.queue v = true := by simpa using hpop
          split at h
          · rename_i htgt
            cases h
            have : target = some v := by simpa using htgt
            exact Or.inl (Or.inr ⟨v, rest, rfl, hemp', hpop', this, rfl⟩)
          · rename_i htgt
            have htv : target ≠ some v := by simpa using htgt
            split at h
            · cases h
            · rename_i lastEdge st hcur
              split at h
              · cases h
              · rename_i s2 hrel
                exact Or.inr ⟨v, rest, _, rfl,
                  ⟨hterm, hemp', hpop', htv, lastEdge, st, s2, hcur, hrel, rfl⟩, h⟩

/-- an `.ok` run decomposes into the loop heads it went through, the last of which passed the
limit test and produced the result -/
theorem runLoop_ok_reach {I : Inst α} {source : Nat} {target : Option Nat} :
    ∀ (sched : List Nat) (s s' : SState α), runLoop I source target sched s = .ok s' →
      ∃ pre rest h, sched = pre ++ rest ∧ Reach I source target pre s h ∧
        I.term h.solSize h.iters = .ok () ∧ Final target h rest s'
  | [], s, s', hrun => by
    obtain ⟨hterm, hfin | ⟨v, rest, s1, hs, _⟩⟩ := runLoop_ok_inv hrun
    · exact ⟨[], [], s, rfl, Reach.here s, hterm, hfin⟩
    · cases hs
  | v :: rest, s, s', hrun => by
    obtain ⟨hterm, hfin | ⟨v', rest', s1, hs, ht, hrun'⟩⟩ := runLoop_ok_inv hrun
    · exact ⟨[], v :: rest, s, rfl, Reach.here s, hterm, hfin⟩
    · cases hs
      obtain ⟨pre, rest'', h, hsched, hr, hterm', hfin⟩ := runLoop_ok_reach rest s1 s' hrun'
      exact ⟨v :: pre, rest'', h, by rw [hsched]; rfl, Reach.turn ht hr, hterm', hfin⟩

/-- the result of an `.ok` run carries the labels, tree and counters of the last loop head -/
theorem Final.fields {target : Option Nat} {h s : SState α} {rest : List Nat}
    (hf : Final target h rest s) :
    s.g = h.g ∧ s.sol = h.sol ∧ s.solSize = h.solSize ∧ s.iters = h.iters := by
  rcases hf with ⟨_, _, rfl⟩ | ⟨t, rest', _, _, _, _, rfl⟩
  · exact ⟨rfl, rfl, rfl, rfl⟩
  · exact ⟨rfl, rfl, rfl, rfl⟩

/-- **limit_outcome**: a run that returns a result passed the limit test at *every* loop head it
went through (in particular at the last one, where the result was produced) -/
theorem ok_passes_every_head {I : Inst α} {source : Nat} {target : Option Nat} {pre rest : List Nat}
    {s h s' : SState α} (hrun : runLoop I source target (pre ++ rest) s = .ok s')
    (hr : Reach I source target pre s h) : I.term h.solSize h.iters = .ok () := by
  rw [hr.runLoop_eq] at hrun
  exact (runLoop_ok_inv hrun).1

/-- `limit_outcome` for the concrete model: `terminate_search` answered `Ok(false)` at every loop
head of a run that returns -/
theorem limit_outcome {I : Inst α} {m : TermM} (hI : I.term = m.test) {source : Nat}
    {target : Option Nat} {pre rest : List Nat} {s h s' : SState α}
    (hrun : runLoop I source target (pre ++ rest) s = .ok s')
    (hr : Reach I source target pre s h) : m.fires h.solSize h.iters = some false := by
  have := ok_passes_every_head hrun hr
  rw [hI] at this
  exact (test_ok_iff m _ _).1 this

/-- a run that returns went through a loop head at every iteration count from the start to the
final one -/
theorem ok_head_at_every_iteration {I : Inst α} {source : Nat} {target : Option Nat}
    {sched : List Nat} {s s' : SState α} (hrun : runLoop I source target sched s = .ok s')
    (i : Nat) (h1 : s.iters ≤ i) (h2 : i ≤ s'.iters) :
    ∃ pre rest h, sched = pre ++ rest ∧ Reach I source target pre s h ∧ h.iters = i ∧
      I.term h.solSize i = .ok () := by
  induction sched generalizing s with
  | nil =>
    obtain ⟨hterm, hfin | ⟨v, rest, s1, hs, _⟩⟩ := runLoop_ok_inv hrun
    · have : i = s.iters := by have := hfin.fields.2.2.2; omega
      subst this
      exact ⟨[], [], s, rfl, Reach.here s, rfl, hterm⟩
    · cases hs
  | cons v rest ih =>
    obtain ⟨hterm, hfin | ⟨v', rest', s1, hs, ht, hrun'⟩⟩ := runLoop_ok_inv hrun
    · have : i = s.iters := by have := hfin.fields.2.2.2; omega
      subst this
      exact ⟨[], v :: rest, s, rfl, Reach.here s, rfl, hterm⟩
    · cases hs
      by_cases hi : i = s.iters
      · subst hi
        exact ⟨[], v :: rest, s, rfl, Reach.here s, rfl, hterm⟩
      · obtain ⟨pre, rest'', h, hsched, hr, hit, hterm'⟩ :=
          ih hrun' (by have := ht.counters.1; omega)
        exact ⟨v :: pre, rest'', h, by rw [hsched]; rfl, Reach.turn ht hr, hit, hterm'⟩

/-- the last loop head produces the result -/
theorem runLoop_final {I : Inst α} {source : Nat} {target : Option Nat} {h s : SState α}
    {rest : List Nat} (hterm : I.term h.solSize h.iters = .ok ()) (hf : Final target h rest s) :
    runLoop I source target rest h = .ok s := by
  rw [runLoop_unfold]
  rcases hf with ⟨h1, rfl, rfl⟩ | ⟨t, rest', rfl, h1, h2, rfl, rfl⟩
  · simp only [hterm, h1, if_true]
  · simp [hterm, h1, h2]

/-! ### limited_prefix and success_monotone -/

/-- the `for` loop never consults the limit function -/
theorem relaxAll_withTerm (I : Inst α) (t : Nat → Nat → Except ErrKind Unit) (hasTarget : Bool)
    (lastEdge : Option Nat) (curState : List α) :
    ∀ (es : List Nat) (s : SState α),
      relaxAll { I with term := t } hasTarget lastEdge curState es s =
        relaxAll I hasTarget lastEdge curState es s
  | [], s => rfl
  | e :: es, s => by
    simp only [relaxAll]
    have : relax { I with term := t } hasTarget lastEdge curState s e =
        relax I hasTarget lastEdge curState s e := rfl
    rw [this]
    split
    · rfl
    · exact relaxAll_withTerm I t hasTarget lastEdge curState es _

/-- a turn taken under one limit function is taken under any more permissive one -/
theorem Turn.mono {I : Inst α} {t₂ : Nat → Nat → Except ErrKind Unit}
    (hmono : ∀ sz it, I.term sz it = .ok () → t₂ sz it = .ok ()) {source : Nat}
    {target : Option Nat} {s s' : SState α} {v : Nat} (ht : Turn I source target s v s') :
    Turn { I with term := t₂ } source target s v s' := by
  obtain ⟨h1, h2, h3, h4, lastEdge, st, s2, h5, h6, h7⟩ := ht
  refine ⟨hmono _ _ h1, h2, h3, h4, lastEdge, st, s2, h5, ?_, h7⟩
  rw [relaxAll_withTerm]
  exact h6

/-- `success_monotone` for the loop -/
theorem runLoop_mono {I : Inst α} {t₂ : Nat → Nat → Except ErrKind Unit}
    (hmono : ∀ sz it, I.term sz it = .ok () → t₂ sz it = .ok ()) {source : Nat}
    {target : Option Nat} :
    ∀ (sched : List Nat) (s s' : SState α), runLoop I source target sched s = .ok s' →
      runLoop { I with term := t₂ } source target sched s = .ok s' := by
  intro sched s s' hrun
  obtain ⟨pre, rest, h, rfl, hr, hterm, hfin⟩ := runLoop_ok_reach sched s s' hrun
  clear hrun
  induction hr with
  | here s => exact runLoop_final (hmono _ _ hterm) hfin
  | turn ht _ ih =>
    rw [List.cons_append, runLoop_turn (ht.mono hmono)]
    exact ih hterm hfin

/-- the f-score the source is queued with -/
def startF (I : Inst α) (source : Nat) (target : Option Nat) : Except ErrKind α :=
  match target with
  | none => .ok zero
  | some _ => I.h source I.init

/-- the empty result of the `target == source` shortcut -/
def emptyResult : SState α :=
  { queue := [], g := fun _ => none, sol := fun _ => none, solSize := 0, iters := 0 }

/-- `run_a_star` is the shortcut or the loop from the initial state -/
theorem runAStar_unfold (I : Inst α) (source : Nat) (target : Option Nat) (sched : List Nat) :
    runAStar I source target sched =
      if target = some source then .ok emptyResult
      else match startF I source target with
        | .error k => .error k
        | .ok f0 => runLoop I source target sched (initState source f0) := by
  unfold runAStar startF emptyResult
  by_cases ht : target = some source
  · simp [ht]
  · have : (target == some source) = false := by simpa using ht
    simp only [this, ht, if_false, Bool.false_eq_true]
    cases target <;> rfl

/-- an `.ok` result of `run_a_star` is the shortcut's or the loop's -/
theorem runAStar_ok_iff {I : Inst α} {source : Nat} {target : Option Nat} {sched : List Nat}
    {r : SState α} :
    runAStar I source target sched = .ok r ↔
      (target = some source ∧ r = emptyResult) ∨
      (target ≠ some source ∧ ∃ f0, startF I source target = .ok f0 ∧
        runLoop I source target sched (initState source f0) = .ok r) := by
  rw [runAStar_unfold]
  by_cases ht : target = some source
  · simp only [ht, if_true, Except.ok.injEq, true_and, ne_eq, not_true_eq_false, false_and,
      or_false]
    exact eq_comm
  · simp only [ht, if_false, false_and, ne_eq, not_false_eq_true, true_and, false_or]
    cases startF I source target with
    | error k => simp
    | ok f0 => simp

/-- `success_monotone` for `run_a_star`: replacing the limit function by one that passes wherever
the old one passed keeps every result -/
theorem runAStar_mono {I : Inst α} {t₂ : Nat → Nat → Except ErrKind Unit}
    (hmono : ∀ sz it, I.term sz it = .ok () → t₂ sz it = .ok ()) {source : Nat}
    {target : Option Nat} {sched : List Nat} {r : SState α}
    (h : runAStar I source target sched = .ok r) :
    runAStar { I with term := t₂ } source target sched = .ok r := by
  rw [runAStar_ok_iff] at h ⊢
  rcases h with h | ⟨ht, f0, hf0, hrun⟩
  · exact Or.inl h
  · exact Or.inr ⟨ht, f0, hf0, runLoop_mono hmono sched _ r hrun⟩

/-- `I₂` differs from `I` in the limit function only -/
structure SameButTerm (I I₂ : Inst α) : Prop where
  incident : I₂.incident = I.incident
  keyV : I₂.keyV = I.keyV
  termV : I₂.termV = I.termV
  init : I₂.init = I.init
  valid : I₂.valid = I.valid
  trav : I₂.trav = I.trav
  h : I₂.h = I.h

theorem SameButTerm.eq {I I₂ : Inst α} (h : SameButTerm I I₂) :
    I₂ = { I with term := I₂.term } := by
  obtain ⟨h1, h2, h3, h4, h5, h6, h7⟩ := h
  cases I; cases I₂
  simp only at h1 h2 h3 h4 h5 h6 h7
  subst h1 h2 h3 h4 h5 h6 h7
  rfl

/-- **success_monotone**: if `I₂` passes the limit test wherever `I` does and they agree on
everything else, every result under `I` is the result under `I₂` (same schedule) -/
theorem success_monotone {I I₂ : Inst α} (hsame : SameButTerm I I₂)
    (hmono : ∀ sz it, I.term sz it = .ok () → I₂.term sz it = .ok ()) {source : Nat}
    {target : Option Nat} {sched : List Nat} {r : SState α}
    (h : runAStar I source target sched = .ok r) : runAStar I₂ source target sched = .ok r := by
  rw [hsame.eq]
  exact runAStar_mono hmono h

/-- **limited_prefix**: a run that returns under limits returns exactly the unlimited result -/
theorem limited_prefix (I : Inst α) {source : Nat} {target : Option Nat} {sched : List Nat}
    {r : SState α} (h : runAStar I source target sched = .ok r) :
    runAStar { I with term := fun _ _ => .ok () } source target sched = .ok r :=
  runAStar_mono (fun _ _ _ => rfl) h

/-- `success_monotone` for `run_vertex_oriented` (tree, iterations and route) -/
theorem success_monotone_route {I I₂ : Inst α} (hsame : SameButTerm I I₂)
    (hmono : ∀ sz it, I.term sz it = .ok () → I₂.term sz it = .ok ()) {source : Nat}
    {target : Option Nat} {sched : List Nat} {r : SearchResult α}
    (h : runVertexOriented I source target sched = .ok r) :
    runVertexOriented I₂ source target sched = .ok r := by
  unfold runVertexOriented at h ⊢
  split at h
  · cases h
  · rename_i s hs
    rw [success_monotone hsame hmono hs]
    exact h

/-- `limited_prefix` for `run_vertex_oriented` -/
theorem limited_prefix_route (I : Inst α) {source : Nat} {target : Option Nat} {sched : List Nat}
    {r : SearchResult α} (h : runVertexOriented I source target sched = .ok r) :
    runVertexOriented { I with term := fun _ _ => .ok () } source target sched = .ok r :=
  success_monotone_route (I := I) (I₂ := { I with term := fun _ _ => .ok () })
    ⟨rfl, rfl, rfl, rfl, rfl, rfl, rfl⟩ (fun _ _ _ => rfl) h

/-- success is monotone in the limit of a single iteration / size / runtime limit, and adding a
limit to a combination can only remove results: stated once for the concrete model — if every
limit occurring in `m₂` that fires makes some limit of `m` fire (and `m₂` has no zero frequency),
`m₂` passes wherever `m` passes -/
theorem test_mono {m m₂ : TermM} (hz : ¬ ZeroFreq m₂)
    (hle : ∀ sz it l₂, Leaf l₂ m₂ → l₂.fires sz it = some true →
      ∃ l, Leaf l m ∧ l.fires sz it = some true) :
    ∀ sz it, m.test sz it = .ok () → m₂.test sz it = .ok () := by
  intro sz it h
  rw [test_ok_iff, fires_false_iff]
  refine ⟨hz, fun l₂ hl₂ hf => ?_⟩
  obtain ⟨l, hl, hlf⟩ := hle sz it l₂ hl₂ hf
  exact test_ok_leaf h hl hlf

end SearchLimits
end Compass
