/-
`estimate_admissible` (DESIGN §5 C02) for the distance traversal model: on a metrically consistent
great-circle table the estimate of a concrete configuration is consistent, hence admissible, so the
A* theorem of `Proofs/ConfigUniform.lean` applies without a premise on the estimate.

Setting: sum aggregation; every vehicle rate in use is linear and non-decreasing (`intercept = 0`,
`slope ≥ 0`: built from `zero / raw / factor f ≥ 0 / combined` of those — **no offset**); weights ≥ 0;
per-edge surcharges ≥ 0; edge lengths ≥ 0; `0 ≤ weight_factor ≤ 1`; table entries ≥ 0, zero at the
destination, and `gc(tail e) ≤ len e + gc(head e)` on every permitted edge (in the search direction).

Then the vehicle cost of `x` metres is `distK · x` with `distK ≥ 0` (unit conversions are linear with
positive ratio, C09), `hOf v = distK · gc v · wf`, `costOf e ≥ distK · len e`, and consistency is the
triangle inequality scaled by `distK`.
-/
import Compass.Proofs.ConfigUniform
import Compass.Props.C09

namespace Compass

set_option linter.unusedSectionVars false

section
variable {α : Type} [Field α] [LinearOrder α] [IsStrictOrderedRing α] [Lit α] [LawfulLit α]

open SearchOpt (Walk cost Admissible)

/-! ### Small facts -/

theorem le_enforceStrictlyPositive (x : α) : x ≤ enforceStrictlyPositive x := by
  rw [enforceStrictlyPositive_eq]
  split
  · exact le_trans ‹x ≤ 0› (le_of_lt minCost_pos)
  · exact le_refl _

theorem sum_slot (l : List Nat) (f : Nat → α) (j : Nat) (X : α) :
    (l.map fun i => f i * (if i = j then X else 0)).sum
      = X * (l.map fun i => if i = j then f i else 0).sum := by
  induction l with
  | nil => simp
  | cons a l ih =>
    simp only [List.map_cons, List.sum_cons, ih]
    split <;> ring

theorem sum_slot_nonneg (l : List Nat) (f : Nat → α) (j : Nat) (hf : ∀ i ∈ l, 0 ≤ f i) :
    0 ≤ (l.map fun i => if i = j then f i else 0).sum := by
  apply List.sum_nonneg
  intro x hx
  obtain ⟨i, hi, rfl⟩ := List.mem_map.1 hx
  split
  · exact hf i hi
  · exact le_refl _

/-- metres → the feature's unit through the model's unit: multiplication by a positive ratio -/
theorem distance_convert2 (du fu : DistanceUnit) (x : α) :
    du.convert fu (DistanceUnit.meters.convert du x)
      = x * (((DistanceUnit.factor .meters du).ratio * (DistanceUnit.factor du fu).ratio : ℚ) : α) := by
  simp only [DistanceUnit.convert, Factor.apply_eq]
  push_cast
  ring

theorem distance_ratio2_pos (du fu : DistanceUnit) :
    (0 : α) < (((DistanceUnit.factor .meters du).ratio * (DistanceUnit.factor du fu).ratio : ℚ) : α) := by
  have h1 := Factor.ratio_pos _ (C09.distance_wf .meters du)
  have h2 := Factor.ratio_pos _ (C09.distance_wf du fu)
  exact_mod_cast mul_pos h1 h2

/-! ### The vehicle cost of a length -/

/-- the vehicle part of the cost model as a function of the slot changes -/
def CostModel.vehicleOfDelta (m : CostModel α) (δ : Nat → α) : α :=
  m.agg.agg (m.indices.map fun i => (m.vr i).mapValue (δ i) * m.wt i)

/-- every rate in use is linear (no offset) -/
def CostModel.LinearRates (m : CostModel α) : Prop :=
  ∀ i ∈ m.indices, (m.vr i).intercept = 0

/-- … non-decreasing, with non-negative weight -/
def CostModel.NonnegRates (m : CostModel α) : Prop :=
  ∀ i ∈ m.indices, 0 ≤ (m.vr i).slope ∧ 0 ≤ m.wt i

theorem CostModel.vehicleOfDelta_sum (m : CostModel α) (hs : m.agg = .sum) (hl : m.LinearRates)
    (δ : Nat → α) :
    m.vehicleOfDelta δ = (m.indices.map fun i => ((m.vr i).slope * m.wt i) * δ i).sum := by
  unfold CostModel.vehicleOfDelta
  rw [hs, agg_sum]
  congr 1
  apply List.map_congr_left
  intro i hi
  rw [VehicleCostRate.mapValue_affine, hl i hi]
  ring

/-- the coefficient of a length in metres: (unit ratio) · Σ over the indices that are the distance
slot of slope · weight -/
def Config.distK (c : Config α) (du : DistanceUnit) : α :=
  match distSlot c.feats "distance" with
  | none => 0
  | some (j, fu) =>
    (((DistanceUnit.factor .meters du).ratio * (DistanceUnit.factor du fu).ratio : ℚ) : α)
      * (c.cost.indices.map fun i => if i = j then (c.cost.vr i).slope * c.cost.wt i else 0).sum

/-- the state change the distance model causes for `x` metres -/
def Config.lenDelta (c : Config α) (du : DistanceUnit) (x : α) (i : Nat) : α :=
  slotDelta (distSlot c.feats "distance")
    (fun fu => du.convert fu (DistanceUnit.meters.convert du x)) i

theorem Config.vehicle_lenDelta (c : Config α) (hs : c.cost.agg = .sum) (hl : c.cost.LinearRates)
    (du : DistanceUnit) (x : α) : c.cost.vehicleOfDelta (c.lenDelta du x) = c.distK du * x := by
  rw [c.cost.vehicleOfDelta_sum hs hl]
  unfold Config.lenDelta Config.distK
  cases hslot : distSlot c.feats "distance" with
  | none => simp [slotDelta]
  | some p =>
    obtain ⟨j, fu⟩ := p
    simp only [slotDelta, distance_convert2]
    rw [sum_slot]
    ring

theorem Config.distK_nonneg (c : Config α) (hn : c.cost.NonnegRates) (du : DistanceUnit) :
    0 ≤ c.distK du := by
  unfold Config.distK
  cases distSlot c.feats "distance" with
  | none => exact le_refl _
  | some p =>
    obtain ⟨j, fu⟩ := p
    exact mul_nonneg (le_of_lt (distance_ratio2_pos du fu))
      (sum_slot_nonneg _ _ j (fun i hi => mul_nonneg (hn i hi).1 (hn i hi).2))

/-! ### The property's own list of rates: `zero / raw / factor f ≥ 0 / combined` of those -/

mutual
/-- built without `offset`, every factor non-negative -/
def VehicleCostRate.offsetFree : VehicleCostRate α → Bool
  | .zero => true
  | .raw => true
  | .factor f => decide (0 ≤ f)
  | .offset _ => false
  | .combined rs => VehicleCostRate.offsetFreeList rs
def VehicleCostRate.offsetFreeList : List (VehicleCostRate α) → Bool
  | [] => true
  | r :: rs => r.offsetFree && VehicleCostRate.offsetFreeList rs
end

mutual
theorem VehicleCostRate.offsetFree_linear :
    ∀ (r : VehicleCostRate α), r.offsetFree = true → r.intercept = 0 ∧ 0 ≤ r.slope
  | .zero, _ => by simp [VehicleCostRate.intercept, VehicleCostRate.slope]
  | .raw, _ => by simp [VehicleCostRate.intercept, VehicleCostRate.slope]
  | .factor f, h => by
    simp only [VehicleCostRate.offsetFree, decide_eq_true_eq] at h
    simp [VehicleCostRate.intercept, VehicleCostRate.slope, h]
  | .offset o, h => by simp [VehicleCostRate.offsetFree] at h
  | .combined rs, h => by
    simp only [VehicleCostRate.offsetFree] at h
    simp only [VehicleCostRate.intercept, VehicleCostRate.slope]
    exact VehicleCostRate.offsetFreeList_linear rs h
theorem VehicleCostRate.offsetFreeList_linear :
    ∀ (rs : List (VehicleCostRate α)), VehicleCostRate.offsetFreeList rs = true →
      VehicleCostRate.interceptList rs = 0 ∧ 0 ≤ VehicleCostRate.slopeList rs
  | [], _ => by simp [VehicleCostRate.interceptList, VehicleCostRate.slopeList]
  | r :: rs, h => by
    simp only [VehicleCostRate.offsetFreeList, Bool.and_eq_true] at h
    obtain ⟨h1, h2⟩ := VehicleCostRate.offsetFree_linear r h.1
    obtain ⟨h3, h4⟩ := VehicleCostRate.offsetFreeList_linear rs h.2
    simp only [VehicleCostRate.interceptList, VehicleCostRate.slopeList, h1, h3]
    exact ⟨by ring, mul_nonneg h2 h4⟩
end

/-- a cost model whose rates in use are all from the list, with non-negative weights, has linear
non-decreasing rates -/
theorem CostModel.rates_of_offsetFree (m : CostModel α)
    (h : ∀ i ∈ m.indices, (m.vr i).offsetFree = true ∧ 0 ≤ m.wt i) :
    m.LinearRates ∧ m.NonnegRates :=
  ⟨fun i hi => ((m.vr i).offsetFree_linear (h i hi).1).1,
   fun i hi => ⟨((m.vr i).offsetFree_linear (h i hi).1).2, (h i hi).2⟩⟩

/-! ### Cost and estimate of the distance model in closed form -/

/-- great-circle metres of vertex `v` (0 beyond the table: there `estimate` fails anyway) -/
def Config.gcOf (c : Config α) (v : Nat) : α :=
  match c.gc[v]? with
  | some x => x
  | none => 0

theorem Config.edgeDelta_eq_lenDelta (c : Config α) {du : DistanceUnit} (ht : c.trav = .distance du)
    {e : Nat} {er : EdgeRec α} (he : c.edges[e]? = some er) :
    c.edgeDelta e = c.lenDelta du er.dist := by
  funext i
  rw [c.edgeDelta_distance ht he i]
  rfl

theorem Config.estDelta_eq_lenDelta (c : Config α) {du : DistanceUnit} (ht : c.trav = .distance du)
    (v : Nat) : c.estDelta v = c.lenDelta du (c.gcOf v) := by
  funext i
  unfold Config.estDelta Config.gcOf Config.lenDelta
  cases c.gc[v]? with
  | some x => simp [ht]
  | none =>
    simp only [distance_convert2, zero_mul]
    cases distSlot c.feats "distance" with
    | none => rfl
    | some p => simp [slotDelta]

theorem Config.costOf_distance_ge (c : Config α) (hs : c.cost.agg = .sum) (hl : c.cost.LinearRates)
    (hn : c.cost.NonnegRates) (hnet : ∀ i ∈ c.cost.indices, ∀ e, 0 ≤ (c.cost.nr i).traversalCost e)
    {du : DistanceUnit} (ht : c.trav = .distance du) {e : Nat} {er : EdgeRec α}
    (he : c.edges[e]? = some er) : c.distK du * er.dist ≤ c.costOf e := by
  unfold Config.costOf CostModel.costOfDelta
  refine le_trans ?_ (le_enforceStrictlyPositive _)
  have hv : c.cost.agg.agg (c.cost.indices.map fun i =>
      (c.cost.vr i).mapValue (c.edgeDelta e i) * c.cost.wt i) = c.distK du * er.dist := by
    rw [c.edgeDelta_eq_lenDelta ht he]
    exact c.vehicle_lenDelta hs hl du er.dist
  rw [hv, hs, agg_sum]
  have : 0 ≤ (c.cost.traversalTerms e).sum := by
    apply List.sum_nonneg
    intro x hx
    obtain ⟨i, hi, rfl⟩ := List.mem_map.1 hx
    exact mul_nonneg (hnet i hi e) (hn i hi).2
  linarith

theorem Config.hOf_distance (c : Config α) (hs : c.cost.agg = .sum) (hl : c.cost.LinearRates)
    {du : DistanceUnit} (ht : c.trav = .distance du) (v : Nat) :
    c.hOf v = max (c.distK du * c.gcOf v) 0 * c.wfOf := by
  unfold Config.hOf
  rw [enforceNonNegative_eq, c.estDelta_eq_lenDelta ht v]
  have := c.vehicle_lenDelta hs hl du (c.gcOf v)
  unfold CostModel.vehicleOfDelta at this
  rw [this]

/-! ### Consistency and admissibility -/

/-- the premises of `estimate_admissible` for the distance model -/
structure Config.DistanceMetric (c : Config α) (du : DistanceUnit) (t : Nat) : Prop where
  trav : c.trav = .distance du
  agg : c.cost.agg = .sum
  linear : c.cost.LinearRates
  nonneg : c.cost.NonnegRates
  surcharge : ∀ i ∈ c.cost.indices, ∀ e : Nat, 0 ≤ (c.cost.nr i).traversalCost e
  wf_nonneg : 0 ≤ c.wfOf
  wf_le_one : c.wfOf ≤ 1
  len_nonneg : ∀ (e : Nat) (er : EdgeRec α), c.edges[e]? = some er → 0 ≤ er.dist
  gc_nonneg : ∀ v : Nat, 0 ≤ c.gcOf v
  gc_target : c.gcOf t = 0
  /-- the table is consistent with the lengths of the permitted edges, in the search direction -/
  triangle : ∀ (e : Nat) (er : EdgeRec α), c.edges[e]? = some er → c.okOf e = true →
    c.gcOf (c.inst.termV e) ≤ er.dist + c.gcOf (c.inst.keyV e)

/-- the estimate is consistent on every permitted listed edge -/
theorem Config.distance_estimate_consistent (c : Config α) (hadj : c.AdjConsistent)
    {du : DistanceUnit} {t : Nat} (M : c.DistanceMetric du t) :
    ∀ v, ∀ e ∈ c.inst.incident v, c.okOf e = true →
      c.hOf v ≤ c.costOf e + c.hOf (c.inst.keyV e) := by
  intro v e he hok
  have hterm : c.inst.termV e = v := hadj v e he
  have hK := c.distK_nonneg M.nonneg du
  cases hed : c.edges[e]? with
  | none =>
    -- an id beyond the edge list: `keyV e = termV e = 0`
    have hk : c.inst.keyV e = 0 := by simp [Config.inst, hed]
    have ht0 : c.inst.termV e = 0 := by simp [Config.inst, hed]
    rw [hk, ← hterm, ht0]
    have := c.costOf_pos e
    linarith
  | some er =>
    have hc := c.costOf_distance_ge M.agg M.linear M.nonneg M.surcharge M.trav hed
    have htri := M.triangle e er hed hok
    rw [hterm] at htri
    rw [c.hOf_distance M.agg M.linear M.trav, c.hOf_distance M.agg M.linear M.trav]
    have hgu := M.gc_nonneg v
    have hgv := M.gc_nonneg (c.inst.keyV e)
    rw [max_eq_left (mul_nonneg hK hgu), max_eq_left (mul_nonneg hK hgv)]
    have hlen := M.len_nonneg e er hed
    have h1 : c.distK du * c.gcOf v ≤ c.distK du * (er.dist + c.gcOf (c.inst.keyV e)) :=
      mul_le_mul_of_nonneg_left htri hK
    have h2 : c.distK du * c.gcOf v * c.wfOf
        ≤ c.distK du * (er.dist + c.gcOf (c.inst.keyV e)) * c.wfOf :=
      mul_le_mul_of_nonneg_right h1 M.wf_nonneg
    have h3 : c.distK du * er.dist * c.wfOf ≤ c.distK du * er.dist :=
      mul_le_of_le_one_right (mul_nonneg hK hlen) M.wf_le_one
    nlinarith [h2, h3, hc]

/-- **`estimate_admissible`** (distance model): on a metrically consistent table with weight factor
in `[0, 1]` the configuration's own estimate is admissible for the destination -/
theorem Config.distance_estimate_admissible (c : Config α) (hadj : c.AdjConsistent)
    {du : DistanceUnit} {t : Nat} (M : c.DistanceMetric du t) :
    Admissible c.inst c.okOf c.costOf c.hOf t := by
  apply SearchOpt.admissible_of_consistent (c.distance_estimate_consistent hadj M)
  rw [c.hOf_distance M.agg M.linear M.trav, M.gc_target]
  simp

/-- **C02, A\* on a concrete configuration with its own estimate** (distance model): no premise on
the heuristic is left -/
theorem config_astar_distance_route_least_cost (c : Config α) (h : c.EdgeLocal)
    {du : DistanceUnit} {source t : Nat} (M : c.DistanceMetric du t) (hts : t ≠ source)
    {sched : List Nat} {r : AlgResult α} (hrun : c.runVertex source (some t) sched = .ok r) :
    ∃ route, r.routes = [route] ∧ route ≠ [] ∧
      Walk c.inst c.okOf source (route.map (·.edge)) t ∧
      (route.map (fun b => b.access + b.traversal)).sum = cost c.costOf (route.map (·.edge)) ∧
      ∀ es, Walk c.inst c.okOf source es t →
        (route.map (fun b => b.access + b.traversal)).sum ≤ cost c.costOf es :=
  config_astar_route_least_cost c h M.wf_nonneg hts (c.distance_estimate_admissible h.adj M) hrun

end

/-! ### Non-vacuity: `ConfigUniform.Example.exA` meets `DistanceMetric` -/

namespace ConfigUniform.Example

/-- the triangle premise at edge `e`, as a Boolean -/
def triOK (c : Config ℚ) (e : Nat) : Bool :=
  match c.edges[e]? with
  | some er => !(c.okOf e) || decide (c.gcOf (c.inst.termV e) ≤ er.dist + c.gcOf (c.inst.keyV e))
  | none => true

theorem exA_metric : exA.DistanceMetric .meters 3 where
  trav := rfl
  agg := rfl
  linear := by
    intro i hi
    simp only [exA, List.mem_singleton] at hi
    subst hi
    rfl
  nonneg := by
    intro i hi
    simp only [exA, List.mem_singleton] at hi
    subst hi
    exact ⟨by decide +kernel, by decide +kernel⟩
  surcharge := by
    intro i hi e
    simp only [exA, List.mem_singleton] at hi
    subst hi
    have : (exA.cost.nr 0).traversalCost e = 0 := by
      simp [CostModel.nr, exA, NetworkCostRate.traversalCost, zero_eq]
    rw [this]
  wf_nonneg := by decide +kernel
  wf_le_one := by decide +kernel
  len_nonneg := by
    intro e er h
    have hm := List.mem_of_getElem? h
    simp only [exA, exC, List.mem_cons, List.not_mem_nil, or_false] at hm
    rcases hm with rfl | rfl | rfl | rfl | rfl | rfl | rfl | rfl <;> norm_num
  gc_nonneg := by
    intro v
    unfold Config.gcOf
    cases h : exA.gc[v]? with
    | none => exact le_refl _
    | some x =>
      have hm := List.mem_of_getElem? h
      simp only [exA, List.mem_cons, List.not_mem_nil, or_false] at hm
      rcases hm with rfl | rfl | rfl | rfl | rfl <;> norm_num
  gc_target := by decide +kernel
  triangle := by
    have key : ∀ e ∈ List.range 8, triOK exA e = true := by decide +kernel
    intro e er h hok
    have he : e < 8 := by
      have := (List.getElem?_eq_some_iff.1 h).1
      simpa [exA, exC] using this
    have := key e (List.mem_range.2 he)
    simpa [triOK, h, hok] using this

end ConfigUniform.Example

end Compass
